"""Orchestration of one property check. See DESIGN.md §5."""
import argparse, fcntl, json, os, re, shutil, subprocess, sys, time, hashlib

ROOT = os.path.dirname(os.path.dirname(os.path.abspath(__file__)))
LEAN = os.path.join(ROOT, "lean")
HARNESS = os.path.join(ROOT, "harness")
BUILD = os.path.join(ROOT, ".build")
REPO = "/repo"
ALLOWED_AXIOMS = {"propext", "Classical.choice", "Quot.sound"}
FORBIDDEN = re.compile(r"\bsorry\b|\badmit\b|^axiom |native_decide|bv_decide|implemented_by|unsafe |maxHeartbeats 0")

GOENV = dict(os.environ, GOFLAGS="-mod=mod", GOPROXY="off", GOSUMDB="off", GOTOOLCHAIN="local",
             CGO_ENABLED=os.environ.get("CGO_ENABLED", "1"))

from props import PROPS, TRUSTED_COMMON  # noqa: E402


def sh(cmd, cwd=None, env=None, timeout=None, inp=None):
    p = subprocess.run(cmd, cwd=cwd, env=env, stdout=subprocess.PIPE, stderr=subprocess.STDOUT,
                       timeout=timeout, input=inp, text=True)
    return p.returncode, p.stdout


def log(*a):
    print(*a, flush=True)


# ------------------------------------------------------------------ TIE-G: regenerate Mav/Gen
def regenerate():
    """Run tools/extract on /repo's working tree; writes lean/Mav/Gen/*.lean (only when changed).
    Returns (ok, message)."""
    ext = os.path.join(ROOT, "tools", "extract")
    if not os.path.isdir(ext):
        return True, "no extractor"
    os.makedirs(BUILD, exist_ok=True)
    exe = os.path.join(BUILD, "extract")
    rc, out = sh(["go", "build", "-o", exe, "."], cwd=ext, env=GOENV)
    if rc != 0:
        return False, "extractor does not build:\n" + out
    tmp = os.path.join(BUILD, "gen.new")
    shutil.rmtree(tmp, ignore_errors=True)
    os.makedirs(tmp)
    rc, out = sh([exe, "-repo", REPO, "-out", tmp, "-harness-enums", os.path.join(HARNESS, "cmd", "hx", "zz_enums_gen.go")],
                 cwd=REPO, env=GOENV)
    if rc != 0:
        return False, "extractor failed on /repo (an anchor it needs is missing or changed shape):\n" + out
    gen = os.path.join(LEAN, "Mav", "Gen")
    os.makedirs(gen, exist_ok=True)
    new = set(os.listdir(tmp))
    for f in os.listdir(gen):
        if f.endswith(".lean") and f not in new:
            os.remove(os.path.join(gen, f))
    for f in new:
        a, b = os.path.join(tmp, f), os.path.join(gen, f)
        if not os.path.exists(b) or open(a).read() != open(b).read():
            shutil.copyfile(a, b)
    return True, out.strip()


# ------------------------------------------------------------------ Lean build + audit
def lean_theorems(module):
    """(namespace-qualified) theorem names declared in a Props module."""
    path = os.path.join(LEAN, *module.split(".")) + ".lean"
    src = open(path).read()
    ns = re.search(r"^namespace (\S+)", src, re.M)
    pre = ns.group(1) + "." if ns else ""
    return [pre + m for m in re.findall(r"^theorem (\S+)", src, re.M)]


def strip_comments(src):
    src = re.sub(r"/-.*?-/", "", src, flags=re.S)
    return re.sub(r"--.*", "", src)


def grep_forbidden():
    hits = []
    for d, _, fs in os.walk(os.path.join(LEAN, "Mav")):
        for f in fs:
            if f.endswith(".lean"):
                p = os.path.join(d, f)
                for i, line in enumerate(strip_comments(open(p).read()).split("\n")):
                    if FORBIDDEN.search(line):
                        hits.append(f"{os.path.relpath(p, LEAN)}: {line.strip()[:120]}")
    return hits


def lake_build(targets):
    rc, out = sh(["lake", "build"] + targets, cwd=LEAN, timeout=3600)
    return rc == 0, out


def audit(pid, modules):
    """#print axioms for every property theorem. Returns (n_theorems, n_clean, problems, extra_axioms)."""
    thms = []
    for m in modules:
        thms += lean_theorems(m)
    os.makedirs(os.path.join(LEAN, "Mav", "Audit"), exist_ok=True)
    path = os.path.join(LEAN, "Mav", "Audit", pid + ".lean")
    src = "".join(f"import {m}\n" for m in modules) + "".join(f"#print axioms {t}\n" for t in thms)
    if not os.path.exists(path) or open(path).read() != src:
        open(path, "w").write(src)
    rc, out = sh(["lake", "env", "lean", path], cwd=LEAN, timeout=1800)
    problems, clean, extra = [], 0, set()
    seen = {}
    for m in re.finditer(r"'([^']+)' depends on axioms: \[([^\]]*)\]", out.replace("\n", " ")):
        seen[m.group(1)] = {a.strip() for a in m.group(2).split(",") if a.strip()}
    for m in re.finditer(r"'([^']+)' does not depend on any axioms", out):
        seen[m.group(1)] = set()
    for t in thms:
        if t not in seen:
            problems.append(f"{t}: no #print axioms output (does not check)")
            continue
        bad = seen[t] - ALLOWED_AXIOMS
        if bad:
            problems.append(f"{t}: depends on {sorted(bad)}")
            extra |= bad
        else:
            clean += 1
    if rc != 0 and not problems:
        problems.append("audit file does not check: " + out[-500:])
    return thms, clean, problems, sorted(extra)


# ------------------------------------------------------------------ harness + driver
RACE_REPORTS = [""]
RACE = [False]   # set by do_check for properties decided under the race detector


def build_harness():
    os.makedirs(BUILD, exist_ok=True)
    shutil.copyfile(os.path.join(REPO, "go.sum"), os.path.join(HARNESS, "go.sum"))
    exe = os.path.join(BUILD, "hx_race" if RACE[0] else "hx")
    if os.path.exists(exe):
        os.remove(exe)
    flags = ["-race"] if RACE[0] else []
    rc, out = sh(["go", "build"] + flags + ["-tags", "verif", "-o", exe, "./cmd/hx"], cwd=HARNESS, env=GOENV, timeout=1800)
    return rc == 0, out


def driver_exe():
    return os.path.join(LEAN, ".lake", "build", "bin", "mavdrv")


def run_group(group, n, seed, tier, replay_file=None, preamble=None, keep_partial=False):
    """Run the harness (implementation) and the driver (model/spec) on the same op lines.
    Returns list of (op, impl, model, spec_or_None), stats dict, error text."""
    exe = os.path.join(BUILD, "hx_race" if RACE[0] else "hx")
    stats_file = os.path.join(BUILD, f"stats_{group}_{os.getpid()}.txt")
    cmd = [exe, "-group", group, "-n", str(n), "-seed", str(seed), "-tier", tier, "-stats", stats_file]
    if replay_file:
        cmd = [exe, "-replay", replay_file, "-stats", stats_file]
    env = dict(GOENV, GOMEMLIMIT="8GiB")
    race_log = None
    if RACE[0]:
        rdir = os.path.join(BUILD, "race")
        shutil.rmtree(rdir, ignore_errors=True)
        os.makedirs(rdir)
        race_log = os.path.join(rdir, "r")
        env["GORACE"] = f"log_path={race_log} halt_on_error=0 exitcode=0 history_size=3"
    p = subprocess.run(cmd, stdout=subprocess.PIPE, stderr=subprocess.PIPE, env=env, text=True, timeout=7200)
    crash = None
    if p.returncode != 0:
        crash = f"harness exited {p.returncode}: {p.stderr[:1500]} ... {p.stderr[-500:]}"
        if not keep_partial or not p.stdout.strip():
            return [], {}, crash
    lines = [l for l in p.stdout.split("\n") if l and "\t" in l]
    ops = [l.split("\t") for l in lines]
    pre = preamble or []
    inp = "\n".join(pre + [o[0] for o in ops]) + "\n"
    d = subprocess.run([driver_exe()], input=inp, stdout=subprocess.PIPE, stderr=subprocess.PIPE, text=True, timeout=7200)
    if d.returncode != 0:
        return [], {}, f"driver exited {d.returncode}: {d.stderr[-2000:]}"
    mod = d.stdout.split("\n")
    if mod and mod[-1] == "":
        mod.pop()
    bad_pre = [(a, b) for a, b in zip(pre, mod[:len(pre)]) if b != "ok"]
    if bad_pre:
        return [], {}, "preamble line rejected by the model driver: " + bad_pre[0][0][:200] + " -> " + bad_pre[0][1]
    mod = mod[len(pre):]
    if len(mod) != len(ops):
        return [], {}, f"driver answered {len(mod)} lines for {len(ops)} ops"
    res = []
    for o, m in zip(ops, mod):
        parts = m.split("\t")
        res.append((o[0], o[1] if len(o) > 1 else "", parts[0], parts[1] if len(parts) > 1 else None))
    stats = {}
    if os.path.exists(stats_file):
        for l in open(stats_file):
            k, v = l.rsplit(" ", 1)
            stats[k] = int(v)
        os.remove(stats_file)
    if race_log:
        # keep the detector's full reports next to the results (they go into the replay file)
        reps = []
        for f in sorted(os.listdir(os.path.dirname(race_log))):
            reps.append(open(os.path.join(os.path.dirname(race_log), f), errors="replace").read())
        RACE_REPORTS[:] = ["\n".join(reps)[:20000]]
    return res, stats, crash


def setup_ops(results):
    """defmsg lines needed to replay later ops."""
    return [r[0] for r in results if r[0].startswith("defmsg ")]


# ------------------------------------------------------------------ known findings
def load_known():
    known = {}
    p = os.path.join(ROOT, "known_findings.txt")
    if os.path.exists(p):
        for l in open(p):
            m = re.match(r"finding: property=(\S+) key=(\S+) (.*)", l.strip())
            if m:
                known[(m.group(1), m.group(2))] = m.group(3)
    return known


# ------------------------------------------------------------------ replay / evidence
def write_replay(pid, payload):
    d = os.path.join(ROOT, "replays", pid)
    os.makedirs(d, exist_ok=True)
    h = hashlib.sha1(json.dumps(payload, sort_keys=True).encode()).hexdigest()[:10]
    path = os.path.join(d, f"{h}.json")
    payload["cmd"] = f"./check {pid} --replay {path}"
    json.dump(payload, open(path, "w"), indent=1)
    return path


def write_evidence(pid, ev):
    os.makedirs(os.path.join(ROOT, "evidence"), exist_ok=True)
    json.dump(ev, open(os.path.join(ROOT, "evidence", pid + ".json"), "w"), indent=1)


def shrink_op(group_exec, op, setup, pred):
    """Delta-debug the comma/space separated stream token of a `read`/`tlogr` op."""
    t = op.split(" ")
    if t[0] == "swrite":
        return shrink_list(t, 7, ";", pred)
    if t[0] not in ("read", "tlogr"):
        return op
    idx = 4 if t[0] == "read" else 2
    hexs = t[idx]
    # flatten into byte/err tokens
    toks = []
    for part in hexs.split(","):
        if part.startswith("!"):
            toks.append(part)
        elif part != "-":
            toks += [part[i:i + 2] for i in range(0, len(part), 2)]

    def render(ts):
        out, cur = [], ""
        for x in ts:
            if x.startswith("!"):
                if cur:
                    out.append(cur)
                    cur = ""
                out.append(x)
            else:
                cur += x
        if cur:
            out.append(cur)
        return ",".join(out) if out else "-"

    def mk(ts):
        u = list(t)
        u[idx] = render(ts)
        return " ".join(u)

    n = 2
    budget = 60
    while len(toks) >= 2 and budget > 0:
        chunk = max(1, len(toks) // n)
        reduced = False
        for i in range(0, len(toks), chunk):
            cand = toks[:i] + toks[i + chunk:]
            budget -= 1
            if cand and pred(mk(cand)):
                toks = cand
                n = max(n - 1, 2)
                reduced = True
                break
            if budget <= 0:
                break
        if not reduced:
            if chunk == 1:
                break
            n = min(n * 2, len(toks))
    return mk(toks)


def shrink_list(t, idx, sep, pred):
    """Delta-debug a sep-separated list token."""
    items = t[idx].split(sep)

    def mk(its):
        u = list(t)
        u[idx] = sep.join(its)
        return " ".join(u)
    n, budget = 2, 80
    while len(items) >= 2 and budget > 0:
        chunk = max(1, len(items) // n)
        reduced = False
        for i in range(0, len(items), chunk):
            cand = items[:i] + items[i + chunk:]
            budget -= 1
            if cand and pred(mk(cand)):
                items, n, reduced = cand, max(n - 1, 2), True
                break
            if budget <= 0:
                break
        if not reduced:
            if chunk == 1:
                break
            n = min(n * 2, len(items))
    return mk(items)


PREAMBLE = []


def eval_ops(ops):
    """Evaluate a list of op lines (setup first) through harness+driver; return results."""
    os.makedirs(BUILD, exist_ok=True)
    f = os.path.join(BUILD, f"replay_{os.getpid()}.ops")
    # preamble lines (defenum / defpkg) are for the driver only; the harness ignores them
    pre = [o for o in ops if o.split(" ")[0] in ("defenum", "defpkg")] or PREAMBLE
    ops = [o for o in ops if o.split(" ")[0] not in ("defenum", "defpkg")]
    open(f, "w").write("\n".join(ops) + "\n")
    res, _, err = run_group("", 0, 0, "quick", replay_file=f, preamble=pre)
    os.remove(f)
    return res, err


# ------------------------------------------------------------------ main
def main(argv):
    ap = argparse.ArgumentParser()
    ap.add_argument("pid")
    ap.add_argument("--tier", default=os.environ.get("VERIF_TIER", "quick"))
    ap.add_argument("--replay")
    ap.add_argument("--setup", action="store_true")
    a = ap.parse_args(argv)
    seed = int(os.environ.get("VERIF_SEED", "1"))
    os.makedirs(BUILD, exist_ok=True)
    lock = open(os.path.join(BUILD, "lock"), "w")
    fcntl.flock(lock, fcntl.LOCK_EX)
    if a.pid == "setup":
        return do_setup()
    if a.pid not in PROPS:
        log(f"unknown property {a.pid}")
        return 2
    cfg = PROPS[a.pid]
    if cfg.get("custom"):
        import importlib
        mod = importlib.import_module(cfg["custom"])
        return mod.run(a.pid, a.tier, seed, a.replay)
    if a.replay:
        return do_replay(a.pid, cfg, a.replay)
    return do_check(a.pid, cfg, a.tier, seed)


def do_setup():
    ok, msg = regenerate()
    log("regenerate:", ok, msg[-300:])
    mods = sorted({m for c in PROPS.values() for m in c.get("lean", [])})
    ok1, out = lake_build(mods + ["mavdrv"])
    log(out[-3000:])
    ok2, out2 = build_harness()
    log(out2[-2000:])
    return 0 if (ok and ok1 and ok2) else 1


def lean_closure(modules):
    """The property's modules and every Mav.* module they import (transitively), Gen tables included."""
    seen, todo = [], list(modules)
    while todo:
        m = todo.pop()
        if m in seen:
            continue
        path = os.path.join(LEAN, *m.split(".")) + ".lean"
        if not os.path.exists(path):
            continue
        seen.append(m)
        for imp in re.findall(r"^import (Mav\.\S+)", open(path).read(), re.M):
            todo.append(imp)
    return sorted(seen)


def recheck(modules):
    """Independent re-check of the compiled declarations (leanchecker replays every declaration of the .olean files through the
    kernel). Returns (ok, text)."""
    mods = lean_closure(modules)
    rc, out = sh(["lake", "env", "leanchecker"] + mods, cwd=LEAN, timeout=3600)
    return rc == 0, (f"{len(mods)} modules re-checked" if rc == 0 else out[-800:])


def lean_phase(pid, cfg, tier="quick"):
    """Returns dict(obligations, discharged, problems[list of str], extra_axioms, gen_msg)."""
    problems = []
    ok, gmsg = regenerate()
    if not ok:
        problems.append("TIE-G: " + gmsg[-1500:])
    okb, out = lake_build(cfg["lean"] + ["mavdrv"])
    if not okb:
        errs = [l for l in out.split("\n") if l.startswith("error:")]
        problems.append("lake build failed: " + " | ".join(errs[:6])[:1500])
        # the driver may still build on its own
        lake_build(["mavdrv"])
    thms, clean, aprob, extra = audit(pid, cfg["lean"]) if okb else (sum((lean_theorems(m) for m in cfg["lean"]), []), 0, [], [])
    if okb:
        problems += aprob
    forb = grep_forbidden()
    if forb:
        problems.append("forbidden tokens in Lean sources: " + "; ".join(forb[:5]))
    rechecked = None
    if okb and tier == "thorough":
        okr, rechecked = recheck(cfg["lean"])
        if not okr:
            problems.append("leanchecker (independent kernel re-check of the compiled modules) failed: " + rechecked)
    return dict(theorems=thms, obligations=len(thms), discharged=clean if okb else 0, problems=problems,
                extra_axioms=extra, gen=gmsg, rechecked=rechecked)


def crash_key(cfg, err):
    """Name of the crash site, for a harness process that died: first library frame of the panic."""
    if not err.startswith("harness exited"):
        return None
    for key, rx in cfg.get("crash_signatures", []):
        if re.search(rx, err, re.S):
            return key
    m = re.search(r"((?:panic|fatal error): [^\n]*)", err)
    if not m:
        return None
    f = re.search(r"\n((?:github\.com/bluenviron/gomavlib|github\.com/pion)[^\s(]*)", err)
    return "crash:" + re.sub(r"[^A-Za-z0-9_.:/*-]+", "_", (f.group(1) if f else m.group(1)))[:120]


def classify(pid, cfg, op, impl, spec):
    f = cfg.get("classify")
    return f(op, impl, spec) if f else None


def do_check(pid, cfg, tier, seed):
    t0 = time.time()
    RACE[0] = bool(cfg.get("race"))
    lp = lean_phase(pid, cfg, tier)
    okh, hout = build_harness()
    corr_problems = []
    crashes = []
    results, stats = [], {}
    if not okh:
        corr_problems.append("harness does not build against /repo: " + hout[-1500:])
    elif not os.path.exists(driver_exe()):
        corr_problems.append("model driver does not build")
    else:
        # corpus first
        cdir = os.path.join(ROOT, "corpus", pid)
        if os.path.isdir(cdir):
            for f in sorted(os.listdir(cdir)):
                r, _, err = run_group("", 0, 0, tier, replay_file=os.path.join(cdir, f))
                if err:
                    corr_problems.append(f"corpus {f}: {err}")
                results += r
        ncorpus = len(results)
        for (group, sizes) in cfg["groups"]:
            n = sizes[tier] if lp["problems"] == [] else max(sizes[tier], sizes.get("search", sizes["thorough"]))
            pre = cfg["preamble"]() if cfg.get("preamble") else None
            PREAMBLE[:] = pre or []
            kp = bool(cfg.get("crash_signatures"))
            gtier = tier if not lp["problems"] else "thorough"
            r, st, err = run_group(group, n, seed, gtier, preamble=pre, keep_partial=kp)
            attempt = 0
            while err and attempt < 12:
                # the harness process died (a panic in a goroutine of the library cannot be recovered in-process):
                # keep what it had printed, and run the rest of the scenarios with a derived seed
                key = crash_key(cfg, err)
                if key is None:
                    break
                crashes.append((key, group, seed + 7919 * attempt, err))
                if (pid, key) not in load_known():
                    break
                attempt += 1
                results += r
                n = max(n - len(r) - 1, 1)
                r, st, err = run_group(group, n, seed + 7919 * attempt, gtier, preamble=pre, keep_partial=kp)
            if err and crash_key(cfg, err) is None:
                corr_problems.append(f"group {group}: {err}")
            elif err:
                crashes.append((crash_key(cfg, err), group, seed + 7919 * attempt, err))
            results += r
            for k, v in st.items():
                stats[k] = stats.get(k, 0) + v
    race_text = RACE_REPORTS[0] if RACE[0] else None
    if cfg.get("table_crosscheck") and results:
        # TIE-G cross-check: the struct tables extracted from the source text (go/ast) must equal what
        # reflect shows the running code (the defmsg lines of the harness), dialect by dialect.
        mt = os.path.join(BUILD, "gen.new", "msgs.txt")
        if os.path.exists(mt):
            ast_lines = {l.strip() for l in open(mt) if l.strip()}
            seen_d = {r[0].split(" ")[1] for r in results if r[0].startswith("defmsg ")}
            refl = {r[0][len("defmsg "):] for r in results if r[0].startswith("defmsg ")}
            ast_d = {l.split(" ")[0] for l in ast_lines}
            ast_sel = {l for l in ast_lines if l.split(" ")[0] in seen_d}
            refl_sel = {l for l in refl if l.split(" ")[0] in ast_d}      # harness-defined dialects are not in the repository
            if ast_sel != refl_sel:
                d = sorted(ast_sel ^ refl_sel)[:3]
                corr_problems.append("extracted message tables differ from reflection: " + " || ".join(x[:200] for x in d))
        else:
            corr_problems.append("msgs.txt missing (extractor did not run)")
    known = load_known()
    known_hits = {}
    domain = cfg.get("spec_domain")

    def diffs(res):
        md, sd = [], []
        for (op, impl, model, spec) in res:
            if domain is not None and not domain(op):
                continue
            key = classify(pid, cfg, op, impl, spec) if (impl != model or impl != spec) else None
            if key and (pid, key) in known:
                # a listed finding, identified by its key: reported as KNOWN-FINDING, not as a (model or spec) difference
                known_hits.setdefault(key, (op, impl, spec))
                continue
            if impl != model:
                md.append((op, impl, model, spec))
            if spec is not None and spec != "-" and impl != spec:
                sd.append((op, impl, model, spec))
        return md, sd

    model_diffs, spec_diffs = diffs(results)
    not_reproduced = []
    if cfg.get("confirm_group") and spec_diffs and okh:
        # the verdicts of these groups are about schedules: a difference is reported only if running the same scenarios
        # again shows one again (a defect of the code shows up again; a hiccup of the machine does not)
        again = []
        for (group, sizes) in cfg["groups"]:
            n = sizes[tier] if lp["problems"] == [] else max(sizes[tier], sizes.get("search", sizes["thorough"]))
            r, _, err = run_group(group, n, seed, tier if not lp["problems"] else "thorough",
                                  preamble=cfg["preamble"]() if cfg.get("preamble") else None, keep_partial=bool(cfg.get("crash_signatures")))
            again += r
            if err and crash_key(cfg, err):
                crashes.append((crash_key(cfg, err), group, seed, err))
        md2, sd2 = diffs(again)
        if sd2:
            model_diffs, spec_diffs = md2, sd2
        else:
            not_reproduced = [d[0][:200] for d in spec_diffs[:5]]
            model_diffs, spec_diffs = md2, []
    setup = setup_ops(results) + list(PREAMBLE)
    # observations classified by wall-clock time (reconnect periods, heartbeat spacing) can be disturbed by load: a
    # difference on such an op is reported only if it is still there when the scenario is run again, twice
    flakes = []
    if cfg.get("confirm") and spec_diffs:
        kept = []
        for d in spec_diffs:
            op = d[0]
            if not op.startswith(tuple(cfg["confirm"])) or len(kept) >= 3:
                kept.append(d)
                continue
            again = []
            for attempt in range(4):
                # a genuine defect differs every time; a disturbed machine does not: stop at the first run that agrees
                time.sleep(0.5 * attempt)
                r, err = eval_ops([s_ for s_ in setup if needs_setup(s_, op)] + [op])
                again.append(bool(r) and not err and r[-1][3] not in (None, "-") and r[-1][1] != r[-1][3])
                if not again[-1]:
                    break
            if all(again):
                kept.append(d)
            else:
                flakes.append(op[:200])
        spec_diffs = kept
        model_diffs = [d for d in model_diffs if d[0][:200] not in flakes]
    violation = None
    new_crashes = [c for c in crashes if (pid, c[0]) not in known]
    for c in crashes:
        if (pid, c[0]) in known:
            known_hits.setdefault(c[0], (f"group {c[1]} seed {c[2]}", "process died", c[3][:300]))
    if new_crashes:
        key, group, cseed, err = new_crashes[0]
        path = write_replay(pid, dict(property=pid, kind="crash", seed=cseed, tier=tier, group=group, key=key,
                                      note="the process running the real code died (panic outside any recoverable frame); "
                                           "schedule dependent: replay re-runs the scenario group with this seed",
                                      stderr=err, ops=[], setup=[], broken_obligations=lp["problems"] + corr_problems))
        violation = f"VIOLATION property={pid} replay={path}"
    elif spec_diffs:
        op, impl, model, spec = spec_diffs[0]

        def pred(cand):
            r, err = eval_ops(setup + [cand])
            if err or not r:
                return False
            o = r[-1]
            return o[3] is not None and o[3] != "-" and o[1] != o[3]
        history = []
        if not pred(op):
            # the answer depends on what the same objects were used for before (state kept between calls): look for the
            # shortest run of preceding ops after which this op differs again, then drop the ops of it that are not needed
            ops_only = [r_[0] for r_ in results]
            idx = next((i for i, r_ in enumerate(results) if r_[0] == op and r_[1] == impl), None)
            setup_set = set(setup)

            def pred_h(hist):
                r_, err_ = eval_ops(setup + hist + [op])
                if err_ or not r_:
                    return False
                o = r_[-1]
                return o[3] is not None and o[3] != "-" and o[1] != o[3]
            if idx is not None:
                for k in (1, 2, 4, 8, 16, 32, 64, 128):
                    w = [o for o in ops_only[max(0, idx - k):idx] if o not in setup_set]
                    if pred_h(w):
                        history = w
                        break
                i = 0
                while i < len(history) and len(history) > 1:
                    cand = history[:i] + history[i + 1:]
                    if pred_h(cand):
                        history = cand
                    else:
                        i += 1
        if history:
            r, _ = eval_ops(setup + history + [op])
        else:
            sop = shrink_op(None, op, setup, pred)
            r, _ = eval_ops(setup + [sop])
        if r:
            op, impl, model, spec = r[-1]
        path = write_replay(pid, dict(property=pid, kind="counterexample", seed=seed, tier=tier,
                                      race_reports=race_text,
                                      setup=[s for s in setup if needs_setup(s, op)], ops=history + [op],
                                      impl=impl, model=model, spec=spec,
                                      note="implementation answer differs from the specification on this input",
                                      broken_obligations=lp["problems"] + corr_problems))
        violation = f"VIOLATION property={pid} replay={path}"
    elif lp["problems"] or corr_problems or model_diffs:
        detail = dict(property=pid, kind="broken-obligation", seed=seed, tier=tier,
                      obligations=lp["problems"], correspondence=corr_problems)
        if model_diffs:
            op, impl, model, spec = model_diffs[0]
            detail.update(setup=[s for s in setup if needs_setup(s, op)], ops=[op], impl=impl, model=model, spec=spec,
                          note="implementation differs from the model the theorems are about; the specification "
                               "gives no verdict on this input (or agrees with the implementation)")
        path = write_replay(pid, detail)
        violation = f"VIOLATION property={pid} replay={path} no-failing-input-found"
    for (kp, key), text in sorted(known.items()):
        if kp == pid:
            log(f"KNOWN-FINDING: property={pid} {key} {text}" + (" [reproduced in this run]" if key in known_hits else ""))
    distinct = len({r[0] for r in results if r[1] not in ("", "bad-op", "Teof cur=0")})
    ev = dict(property_id=pid, tier=tier, seed=seed, level="proof",
              coverage=dict(
                  obligations=max(lp["obligations"], 1), discharged=lp["discharged"],
                  checker_cmd=f"cd lean && lake build {' '.join(cfg['lean'])} && lake env lean Mav/Audit/{pid}.lean",
                  trusted_base=TRUSTED_COMMON + cfg.get("trusted", []) + [f"extra axioms: {lp['extra_axioms']}"],
                  theorems=lp["theorems"], evaluations=len(results), distinct_nontrivial=distinct,
                  rule="TIE-D: every op line is executed by the real Go code (in-process) and by the Lean model/spec; "
                       "distinct = distinct op lines whose implementation answer is not empty/bad-op/immediate EOF",
                  samples=[dict(op=r[0][:400], impl=r[1][:300], model=r[2][:300], spec=r[3]) for r in results[:3] + results[len(results)//2:len(results)//2+2]],
                  distribution=stats, model_diffs=len(model_diffs), spec_diffs=len(spec_diffs),
                  known_findings_hit=sorted(known_hits), partial=cfg.get("partial", []),
                  timing_flakes_not_confirmed=flakes, differences_not_reproduced_on_rerun=not_reproduced,
                  tie_g=lp["gen"][-300:], independent_recheck=lp.get("rechecked") or "thorough tier only (lake env leanchecker over the property's modules and their imports)"),
              assumptions=cfg.get("assumptions", []), wall_s=round(time.time() - t0, 1),
              violations=1 if violation else 0)
    write_evidence(pid, ev)
    if violation:
        log(violation)
        return 1
    log(f"OK property={pid} theorems={lp['discharged']}/{lp['obligations']} ops={len(results)} wall={ev['wall_s']}s")
    return 0


def needs_setup(setup_line, op):
    t = op.split(" ")
    st = setup_line.split(" ")
    if st[0] == "defenum":
        return t[0] == "etext" and st[1] == t[1]
    if st[0] == "defpkg":
        return t[0] == "dtype" and st[1] == t[1] and st[2] == t[2]
    if t[0] in ("msgenc", "msgdec"):
        return st[1] == t[1] and st[2] == t[2]
    return st[1] in t


def do_replay(pid, cfg, path):
    rp = json.load(open(path))
    RACE[0] = bool(cfg.get("race"))
    okh, hout = build_harness()
    lake_build(["mavdrv"])
    if not okh:
        log("harness does not build:", hout[-800:])
        return 1
    ops = rp.get("setup", []) + rp.get("ops", [])
    if rp.get("kind") == "crash":
        # schedule dependent: re-run the scenario group with the recorded seed a few times
        for i in range(5):
            r, _, err = run_group(rp["group"], cfg["groups"][0][1][rp.get("tier", "quick")], rp["seed"], rp.get("tier", "quick"))
            if err and crash_key(cfg, err):
                log(err[:1500])
                log(f"VIOLATION property={pid} replay={path}")
                return 1
        log("replay: the process did not die in 5 runs of the recorded scenario group (schedule dependent)")
        return 0
    if not ops:
        log("replay names a broken obligation only:", json.dumps(rp.get("obligations"))[:2000])
        lp = lean_phase(pid, cfg)
        if lp["problems"]:
            log(f"VIOLATION property={pid} replay={path} no-failing-input-found")
            return 1
        return 0
    res, err = eval_ops(ops)
    if err:
        log(err)
        return 1
    bad = False
    for (op, impl, model, spec) in res[len(rp.get("setup", [])):]:
        log("op   :", op[:600])
        log("impl :", impl[:600])
        log("model:", model[:600])
        log("spec :", spec)
        if impl != model or (spec not in (None, "-") and impl != spec):
            bad = True
    if bad:
        log(f"VIOLATION property={pid} replay={path}")
        return 1
    log("replay: implementation, model and specification agree on the stored input")
    return 0
