"""Per-property configuration of ./check."""
import re

TRUSTED_COMMON = [
    "Lean 4.33.0 kernel; axioms allowed: propext, Classical.choice, Quot.sound (audited per theorem by #print axioms)",
    "tools/extract (TIE-G translator of constants/expressions/sequences/tables from /repo into Mav/Gen) - unverified",
    "harness/cmd/hx + Driver (TIE-D differential correspondence, canonicalisation of errors) - unverified",
    "Go compiler/runtime, reflect, bufio, crypto/sha256 (Lean SHA-256 in the driver is compared with Go's on every C06 run)",
]

Q = "quick"
T = "thorough"


def sizes(q, t, s=None):
    return {Q: q, T: t, "search": s or t}


def c07_classify(op, impl, spec):
    return None


def dialects_preamble():
    """defpkg lines written by tools/extract (alias chains resolved on the source text)."""
    import os
    p = os.path.join(os.path.dirname(os.path.dirname(os.path.abspath(__file__))), ".build", "gen.new", "dialects.txt")
    return [l.strip() for l in open(p) if l.strip()] if os.path.exists(p) else []


def enums_preamble():
    import os
    p = os.path.join(os.path.dirname(os.path.dirname(os.path.abspath(__file__))), ".build", "gen.new", "enums.txt")
    return [l.strip() for l in open(p) if l.strip()] if os.path.exists(p) else []


PROPS = {
    "C01": dict(lean=["Mav.Props.C01"], groups=[("C01", sizes(400, 30000))],
                trusted=["frame model Mav/Model/Frame.lean hand-written; tied by TIE-D (marshal/read ops) and TIE-G (magic bytes, bufferSize, marshal/unmarshal sequences)"],
                partial=[]),
    "C02": dict(lean=["Mav.Props.C02"], groups=[("C02", sizes(120, 3000))],
                trusted=["x25 step regenerated from pkg/x25/x25.go (G-expr); reader gate model hand-written (TIE-D)"]),
    "C03": dict(lean=["Mav.Props.C03"], groups=[("C03", sizes(1, 1))], table_crosscheck=True,
                spec_domain=lambda op: op.startswith(("defmsg ", "msgenc ", "msgdec ")),
                trusted=["reflect (struct fields/tags) as seen by the harness; cross-checked against the go/ast tables of tools/extract",
                         "sort.Slice contract (returns a permutation sorted w.r.t. a strict total order)"]),
    "C04": dict(lean=["Mav.Props.C04"], groups=[("C04", sizes(1, 1))],
                spec_domain=lambda op: op.startswith(("msgenc ", "msgdec ")),
                trusted=["Go slice/append aliasing is not modelled in Lean: buffer ownership is decided by the harness (payload handed over as a sub-slice of a poisoned backing array, compared before/after)"]),
    "C05": dict(lean=["Mav.Props.C05", "Mav.Props.C05b"], groups=[("C05", sizes(150, 6000))],
                trusted=["bufio.Reader / io.ReadFull behaviour folded into the flat stream model (Mav/Model/Reader.lean); validated by TIE-D under many chunkings"],
                partial=["segmentation independence: by correspondence (every stream read under several chunkings vs the flat model), not by a Lean refinement theorem"]),
    "C06": dict(lean=["Mav.Props.C06"], groups=[("C06", sizes(120, 4000))],
                trusted=["SHA-256 treated as an arbitrary function H in theorems; 'never delivered' rests on the 48-bit MAC assumption"]),
    "C08": dict(lean=["Mav.Props.C08"], groups=[("C08", sizes(150, 4000))],
                trusted=["forwarding chain = composition of the reader and writer models (Driver hopChain); Node.FixFrame model in Mav/Model/Writer.lean"]),
    "C10": dict(confirm_group=True, lean=["Mav.Props.C10"], groups=[("C10", sizes(60, 3000))],
                trusted=["Go channel/select/goroutine semantics as modelled by the labelled transition system Mav/Model/Node.lean (one step per rendezvous); scheduler fairness"],
                partial=["event sequences are observed on real runs (custom in-memory transports, TCP) and judged by the executable spec Spec.evLegal; the transition-system theorems are about the model"]),
    "C11": dict(confirm_group=True, lean=["Mav.Props.C11"], groups=[("C11", sizes(60, 1500))],
                trusted=["Go channel/select/goroutine semantics as modelled by Mav/Model/Node.lean; in-memory transports of the harness record write calls faithfully"]),
    "C12": dict(confirm_group=True, lean=["Mav.Props.C12"], groups=[("C12", sizes(40, 1200))],
                crash_signatures=[("crash:pion-udp-waitgroup", r"sync: (WaitGroup is reused|WaitGroup misuse|negative WaitGroup).*pion/transport/v2/udp")],
                trusted=["Go channel/select/goroutine semantics as modelled by Mav/Model/Node.lean; OS socket release observed by re-binding; goroutine census by runtime.Stack filtered to gomavlib / pion frames"],
                partial=["termination of Close: proved in the model as progress (close_never_stuck: a closing node always has an enabled step that lowers the measure) plus a bound (close_bounded: at most mu(s) state-changing steps once the loop has seen terminate and the providers have returned); fairness of the Go scheduler / select towards the node loop and providers, and the return of blocked transport calls once the transport is closed, are assumptions; that Close returns within a bound, goroutine / port / connection release and the Close count of custom transports are observed on real runs"]),
    "C13": dict(confirm_group=True, lean=["Mav.Props.C13"], groups=[("C13", sizes(30, 800))],
                trusted=["Go channel/select/goroutine semantics as modelled by Mav/Model/Node.lean"]),
    "C14": dict(lean=["Mav.Props.C14"], groups=[("C14", sizes(30, 400))], confirm=["lifecheck ", "tnc "],
                crash_signatures=[("crash:pion-udp-waitgroup", r"sync: (WaitGroup is reused|WaitGroup misuse|negative WaitGroup).*pion/transport/v2/udp")],
                trusted=["the environment of a client-type endpoint is a script of connection-attempt outcomes and channel deaths (Mav/Model/Provider.lean); time is observed in units of the reconnect period (300 ms, set through the hook) with a tolerance of 0.42 period",
                         "kernel TCP/UDP loopback behaviour (refused connections, RST on SO_LINGER 0, deadlines) as observed"],
                partial=["idle expiry and deadlines: the theorems are about the read-loop and wrapper models; on real runs silent peers must be closed with a timeout cause and busy peers must stay open (server and client scenarios), and the deadlines handed to a recording net.Conn must be call time + timeout"]),
    "C15": dict(lean=["Mav.Props.C15"], groups=[("C15", sizes(30, 600))], race=True,
                spec_domain=lambda op: op.startswith("racecheck "),   # the scenarios' own verdicts belong to C10-C16 (and are slower under the detector)
                classify=lambda op, impl, spec: ("race:pion-udp-waitgroup" if op.startswith("racecheck ") and
                                                 "pion/transport/v2/udp.(*listener).Accept|" in op and
                                                 "pion/transport/v2/udp.(*ListenConfig).Listen.func1" in op else None),
                crash_signatures=[("crash:pion-udp-waitgroup", r"sync: (WaitGroup is reused|WaitGroup misuse|negative WaitGroup).*pion/transport/v2/udp")],
                trusted=["the Go race detector (ThreadSanitizer happens-before instrumentation) reports every conflicting unsynchronised access pair it observes on the schedules that actually ran; schedules that did not run are covered by the discipline theorems only",
                         "go/ast extraction of field accesses and lock regions (tools/extract/access.go)"],
                partial=["race freedom is proved for the model of the synchronisation discipline (confinement / lock / read-only after publication) and the discipline is checked against access facts regenerated from the source; the absence of races in the compiled program is observed under the race detector, not proved"]),
    "C16": dict(lean=["Mav.Props.C16"], groups=[("C16", sizes(45, 900))], confirm=["hbcheck ", "srcheck "],
                trusted=["reflection (FieldByName / SetUint) as observed; the fields set by reflection are regenerated from the source text (Gen.heartbeatFields, Gen.streamRequestFields) and compared by theorem",
                         "heartbeat spacing is observed (12.5 periods of 40-80 ms: count within [8,13], mean gap within [0.8,1.3] periods, no gap below 0.1 period), not proved"],
                partial=["the 30 s rule is exercised for real only in the thorough tier (one 31 s scenario); in the quick tier it rests on the theorem, the regenerated constant Gen.streamRequestPeriodNs and the source pins"]),
    "C17": dict(lean=["Mav.Props.C17"], groups=[("C17", sizes(1, 1))], table_crosscheck=True, preamble=dialects_preamble,
                trusted=["published CRC_EXTRA values: the 138-entry table Spec.publishedCrcExtra (common.xml) written down by hand from the published values, plus the spec recipe for the rest"]),
    "C18": dict(lean=["Mav.Props.C18", "Mav.Props.C18b"], groups=[("C18", sizes(60, 1500))],
                trusted=["go/build's reading of file names (_test.go, goodOSArchFile, knownOS / knownArch of go1.23-1.26) as transcribed in Mav/Spec/GoTool.lean; the file names written by the real generator are observed on every converted set (op genfiles) and the package is compiled",
                         "encoding/xml, text/template and the Go compiler: the generated package is compiled and its behaviour observed (CRC_EXTRA, sizes, wire order through the VerifLayout hook, constants, dialect version); the abstract definition is rendered to XML by the harness",
                         "the domain is dialect sets following the MAVLink naming rules: message names [A-Z][A-Z0-9_]*, field names that are identifiers, array lengths 1..255 without leading zeros, payload of at most 255 bytes, enum values below 2^64, enum-typed fields of an integer type"],
                partial=["proved end to end for messages (generated_message_has_the_spec_layout: every valid abstract message definition, rendered to XML text, generated, accepted by the run-time model, has the order / sizes / CRC_EXTRA the guide assigns to the definition), for message and field names, decimal and a**b enum values and once-only processing of included files; hexadecimal / binary values, the dialect version, the merge of enums across files, the enum text template and the textual XML parser of the specification are decided by differential runs on compiled generated code (random grammar-based sets incl. diamonds, odd names, all value syntaxes), not proved"]),
    "C19": dict(lean=["Mav.Props.C19"], groups=[("C19", sizes(1, 1)), ("C19gen", sizes(20, 300))], preamble=enums_preamble,
                trusted=["strconv.Itoa/Atoi and strings.Split/Join modelled (Mav/Model/EnumText.lean); validated by TIE-D on every enum type",
                         "enum tables regenerated from the source text; the harness registry of enum types is generated from the same extraction",
                         "generated dialects: the enum template is exercised by converting enum-heavy dialect sets (bitmask enums with groups of flags, extended enums, large values), compiling them and probing MarshalText / UnmarshalText of every constant and of unions of constants (group C19gen)"]),
    "C20": dict(lean=["Mav.Props.C20"], groups=[("C20", sizes(60, 1500))],
                trusted=["time.Time modelled as (seconds, nanoseconds) with Go's time.Unix normalisation and UnixMicro made explicit (Mav/Model/Tlog.lean); validated by TIE-D on epochs around 1970 and at the int64 extremes"]),
    "C09": dict(lean=["Mav.Props.C09"], groups=[("C09", sizes(100, 600))],
                trusted=["streamwriter model hand-written (Mav/Model/Writer.lean), tied by TIE-D write histories and source pins"]),
    "C07": dict(lean=["Mav.Props.C07"], groups=[("C07", sizes(150, 5000))],
                assumptions=["wall clock non-decreasing (writer timestamps)"]),
}

import os as _os
_LEAN = _os.path.join(_os.path.dirname(_os.path.dirname(_os.path.abspath(__file__))), "lean")
for _pid, _c in PROPS.items():
    if _os.path.exists(_os.path.join(_LEAN, "Mav", "Pins", _pid + ".lean")) and "Mav.Pins." + _pid not in _c.get("lean", []):
        _c.setdefault("lean", []).append("Mav.Pins." + _pid)
