-- This module serves as the root of the `Mav` library.
-- Import modules here that should be built as part of the library.
import Mav.Basic
