import Mav.Spec.GoTool
import Mav.Model.GenFile
/-
  Helper lemmas for C18 `generated_file_is_plain_source`: the name `goFileName` gives to a generated file is read by the go tool
  (Mav/Spec/GoTool.lean) as a plain source file.
-/
namespace Mav.GenFileP
open Mav.Spec.GoTool Mav.Model.GenFile

theorem splitU_us (cs : List Char) : splitU ('_' :: cs) = [] :: splitU cs := by
  rw [splitU]; simp

theorem splitU_ne (c : Char) (cs : List Char) (h : c ≠ '_') : splitU (c :: cs) = consHead c (splitU cs) := by
  rw [splitU]; simp [h]

theorem splitU_ne_nil (cs : List Char) : splitU cs ≠ [] := by
  cases cs with
  | nil => simp [splitU]
  | cons c cs =>
    by_cases hc : c = '_'
    · rw [hc, splitU_us]; simp
    · rw [splitU_ne c cs hc]; unfold consHead; split <;> simp

theorem splitU_append_us (a b : List Char) : splitU (a ++ '_' :: b) = splitU a ++ splitU b := by
  induction a with
  | nil => rw [List.nil_append, splitU_us]; simp [splitU]
  | cons c a ih =>
    rw [List.cons_append]
    by_cases hc : c = '_'
    · rw [hc, splitU_us, splitU_us, ih]; simp
    · rw [splitU_ne c _ hc, splitU_ne c _ hc, ih]
      rcases hs : splitU a with _ | ⟨e, es⟩
      · exact absurd hs (splitU_ne_nil a)
      · simp [consHead]

theorem splitU_noUs (b : List Char) (h : ∀ c ∈ b, c ≠ '_') : splitU b = [b] := by
  induction b with
  | nil => simp [splitU]
  | cons c b ih =>
    have hc : c ≠ '_' := h c (by simp)
    have hb : ∀ c ∈ b, c ≠ '_' := fun x hx => h x (by simp [hx])
    rw [splitU_ne c b hc, ih hb]; rfl

theorem mem_takeWhile (p : Char → Bool) (l : List Char) (c : Char) (h : c ∈ l.takeWhile p) : p c = true := by
  induction l with
  | nil => simp at h
  | cons d l ih =>
    by_cases hd : p d = true
    · simp only [List.takeWhile, hd] at h
      rcases List.mem_cons.mp h with rfl | h
      · exact hd
      · exact ih h
    · simp [List.takeWhile, hd] at h

theorem dropWhile_head (p : Char → Bool) (l : List Char) (d : Char) (ds : List Char) (h : l.dropWhile p = d :: ds) : p d = false := by
  induction l with
  | nil => simp at h
  | cons e l ih =>
    by_cases he : p e = true
    · simp only [List.dropWhile, he] at h; exact ih h
    · simp only [List.dropWhile, he] at h
      have : e = d := (List.cons.inj h).1
      rw [← this]; simpa using he

theorem lastElem_noUs (cs : List Char) : ∀ c ∈ lastElem cs, c ≠ '_' := by
  intro c hc
  unfold lastElem at hc
  rw [List.mem_reverse] at hc
  have := mem_takeWhile _ _ _ hc
  simpa using this

/-- a name either has no underscore or is `pre ++ "_" ++ (what follows the last underscore)` -/
theorem decomp (cs : List Char) : (∀ c ∈ cs, c ≠ '_') ∨ ∃ pre, cs = pre ++ '_' :: lastElem cs := by
  have h := List.takeWhile_append_dropWhile (p := (· != '_')) (l := cs.reverse)
  rcases hd : cs.reverse.dropWhile (· != '_') with _ | ⟨d, ds⟩
  · left
    rw [hd, List.append_nil] at h
    intro c hc
    have : c ∈ cs.reverse := by simpa using hc
    rw [← h] at this
    simpa using mem_takeWhile _ _ _ this
  · right
    have hd' : d = '_' := by
      have := dropWhile_head _ _ _ _ hd
      simpa using this
    subst hd'
    refine ⟨ds.reverse, ?_⟩
    rw [hd] at h
    have e3 := congrArg List.reverse h
    unfold lastElem
    simp only [List.reverse_reverse, List.reverse_append, List.reverse_cons, List.append_assoc, List.singleton_append] at e3
    exact e3.symm

theorem takeWhile_append_of_exists (p : Char → Bool) (x y : List Char) (h : ∃ c ∈ x, p c = false) :
    (x ++ y).takeWhile p = x.takeWhile p := by
  induction x with
  | nil => simp at h
  | cons c x ih =>
    by_cases hp : p c = true
    · have : ∃ c ∈ x, p c = false := by
        obtain ⟨d, hd, hpd⟩ := h
        rcases List.mem_cons.mp hd with rfl | hd
        · rw [hp] at hpd; cases hpd
        · exact ⟨d, hd, hpd⟩
      simp [List.takeWhile, hp, ih this]
    · simp [List.takeWhile, hp]

theorem lastElem_append (a b : List Char) (h : '_' ∈ b) : lastElem (a ++ b) = lastElem b := by
  unfold lastElem
  rw [List.reverse_append, takeWhile_append_of_exists]
  exact ⟨'_', by simpa using h, by decide⟩

theorem takeWhile_stop (p : Char → Bool) (x : List Char) (c : Char) (y : List Char) (hx : ∀ d ∈ x, p d = true) (hc : p c = false) :
    (x ++ c :: y).takeWhile p = x := by
  induction x with
  | nil => simp [hc]
  | cons d x ih =>
    have hd : p d = true := hx d (by simp)
    simp [hd, ih (fun e he => hx e (by simp [he]))]

theorem isOS_nil : isOS [] = false := by decide
theorem isArch_nil : isArch [] = false := by decide

/-- a name that ends with `_test.go` has `test` after its last underscore -/
theorem test_suffix (le R : List Char) (hle : ∀ c ∈ le, c ≠ '_')
    (h : ['t', 's', 'e', 't', '_'].isPrefixOf (le.reverse ++ '_' :: R) = true) : le = ['t', 'e', 's', 't'] := by
  have hm : ∀ c ∈ le.reverse, c ≠ '_' := fun c hc => hle c (by simpa using hc)
  have hr : le = le.reverse.reverse := by simp
  rcases hm' : le.reverse with _ | ⟨a, _ | ⟨b, _ | ⟨c, _ | ⟨d, _ | ⟨e, m⟩⟩⟩⟩⟩ <;> rw [hm'] at h hm
  · simp [List.isPrefixOf] at h
  · simp [List.isPrefixOf] at h
  · simp [List.isPrefixOf] at h
  · simp [List.isPrefixOf] at h
  · simp [List.isPrefixOf] at h
    obtain ⟨rfl, rfl, rfl, rfl⟩ := h
    rw [hr, hm']; rfl
  · simp [List.isPrefixOf] at h
    have := hm e (by simp)
    exact absurd h.2.2.2.2.symm this


/-- the two prefixes the generator uses -/
def Kind (k : List Char) : Prop := k = ['e', 'n', 'u', 'm'] ∨ k = ['m', 'e', 's', 's', 'a', 'g', 'e']

theorem rest_cut (kind Z : List Char) (hk : Kind kind) : (kind ++ '_' :: Z).dropWhile (· != '_') = '_' :: Z := by
  rcases hk with rfl | rfl <;> simp [List.dropWhile]

theorem kind_noDot (kind : List Char) (hk : Kind kind) : ∀ c ∈ kind, c ≠ '.' := by
  rcases hk with rfl | rfl <;> decide

theorem restricted_last (S : List (List Char)) (a : List Char) (h1 : isOS a = false) (h2 : isArch a = false) :
    restricted (S ++ [a]) = false := by
  unfold restricted
  rw [List.reverse_append]
  rcases S.reverse with _ | ⟨o, t⟩ <;> simp [restrictedRev, h1, h2]

theorem dropTest_last (S : List (List Char)) (a : List Char) (h : a ≠ ['t', 'e', 's', 't']) : dropTest (S ++ [a]) = S ++ [a] := by
  unfold dropTest
  simp [h]

/-- the shape of `'_' :: Z`: something, an underscore, and what follows the last underscore -/
theorem rest_shape (Z : List Char) : ∃ pre, '_' :: Z = pre ++ '_' :: lastElem ('_' :: Z) := by
  rcases decomp ('_' :: Z) with h | h
  · exact absurd rfl (h '_' (by simp))
  · exact h

theorem platform_free (kind Z : List Char) (hk : Kind kind) (hz : ∀ c ∈ Z, c ≠ '.')
    (h0 : lastElem ('_' :: Z) ≠ ['t', 'e', 's', 't']) (h1 : isOS (lastElem ('_' :: Z)) = false)
    (h2 : isArch (lastElem ('_' :: Z)) = false) :
    platformOnly ((kind ++ '_' :: Z) ++ '.' :: ['g', 'o']) = false := by
  unfold platformOnly
  rw [takeWhile_stop (· != '.') (kind ++ '_' :: Z) '.' ['g', 'o'] ?_ (by decide), rest_cut kind Z hk]
  · obtain ⟨pre, hp⟩ := rest_shape Z
    show restricted (dropTest (splitU ('_' :: Z))) = false
    rw [hp, splitU_append_us, splitU_noUs _ (lastElem_noUs _), dropTest_last _ _ h0]
    exact restricted_last _ _ h1 h2
  · intro d hd
    rcases List.mem_append.mp hd with hd | hd
    · simpa using kind_noDot kind hk d hd
    · rcases List.mem_cons.mp hd with rfl | hd
      · decide
      · simpa using hz d hd

theorem test_free (kind Z : List Char) (h0 : lastElem ('_' :: Z) ≠ ['t', 'e', 's', 't']) :
    isTestFile ((kind ++ '_' :: Z) ++ '.' :: ['g', 'o']) = false := by
  obtain ⟨pre, hp⟩ := rest_shape Z
  cases h : isTestFile ((kind ++ '_' :: Z) ++ '.' :: ['g', 'o']) with
  | false => rfl
  | true =>
    exfalso
    apply h0
    apply test_suffix (lastElem ('_' :: Z)) (kind ++ pre).reverse (lastElem_noUs _)
    unfold isTestFile at h
    rw [hp] at h
    have e : ((kind ++ (pre ++ '_' :: lastElem ('_' :: Z))) ++ '.' :: ['g', 'o']).reverse =
        'o' :: 'g' :: '.' :: ((lastElem ('_' :: Z)).reverse ++ '_' :: (kind ++ pre).reverse) := by
      simp [List.reverse_append]
    rw [e] at h
    simpa [List.isPrefixOf] using h

/-- **the name `goFileName` gives is a plain source file for the go tool** — for any table `reserved` that contains `test` and every
    GOOS and GOARCH value go/build knows -/
theorem goFileNameWith_plain (reserved : List String)
    (hres : ∀ e : List Char, (e = ['t', 'e', 's', 't'] ∨ isOS e = true ∨ isArch e = true) → reserved.contains (String.ofList e) = true)
    (kind name : List Char) (hk : Kind kind) (hn : ∀ c ∈ lower name, c ≠ '.') :
    plainSource (goFileNameWith reserved kind name) = true := by
  unfold goFileNameWith plainSource
  simp only []
  split
  · -- a reserved last element: an underscore is appended, the last element is now empty
    have e : kind ++ '_' :: lower name ++ ['_', '.', 'g', 'o'] = (kind ++ '_' :: (lower name ++ ['_'])) ++ '.' :: ['g', 'o'] := by simp
    have hl : lastElem ('_' :: (lower name ++ ['_'])) = [] := by simp [lastElem]
    rw [e, platform_free kind _ hk ?_ (by rw [hl]; decide) (by rw [hl]; decide) (by rw [hl]; decide),
      test_free kind _ (by rw [hl]; decide)]
    · rfl
    · intro c hc
      rcases List.mem_append.mp hc with hc | hc
      · exact hn c hc
      · have : c = '_' := by simpa using hc
        rw [this]; decide
  · rename_i hnot
    have hl : lastElem (kind ++ '_' :: lower name) = lastElem ('_' :: lower name) := lastElem_append kind _ (by simp)
    rw [hl] at hnot
    have h0 : lastElem ('_' :: lower name) ≠ ['t', 'e', 's', 't'] := fun h => hnot (hres _ (Or.inl h))
    have h1 : isOS (lastElem ('_' :: lower name)) = false := by
      cases h : isOS (lastElem ('_' :: lower name)) with
      | false => rfl
      | true => exact absurd (hres _ (Or.inr (Or.inl h))) hnot
    have h2 : isArch (lastElem ('_' :: lower name)) = false := by
      cases h : isArch (lastElem ('_' :: lower name)) with
      | false => rfl
      | true => exact absurd (hres _ (Or.inr (Or.inr h))) hnot
    have e : kind ++ '_' :: lower name ++ ['.', 'g', 'o'] = (kind ++ '_' :: lower name) ++ '.' :: ['g', 'o'] := by simp
    rw [e, platform_free kind _ hk hn h0 h1 h2, test_free kind _ h0]
    rfl

end Mav.GenFileP
