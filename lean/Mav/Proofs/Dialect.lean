import Mav.Model.Dialect
/- Helper lemmas for C17: invariant of the dialect initialisation loop. -/
namespace Mav
open Dialect

/-- entry e is the codec of message m -/
def Rel (m : UInt32 × Msg.GoStruct) (e : UInt32 × Msg.RW) : Prop := e.1 = m.1 ∧ Msg.init m.2 = .ok e.2

/-- pointwise relation between two lists of equal length (core has no `Forall₂`) -/
inductive AllRel : List (UInt32 × Msg.GoStruct) → Table → Prop
  | nil : AllRel [] []
  | cons {m e ms es} : Rel m e → AllRel ms es → AllRel (m :: ms) (e :: es)

theorem has_append (t : Table) (e : UInt32 × Msg.RW) (id : UInt32) : (t ++ [e]).has id = (t.has id || e.1 == id) := by
  simp [Table.has, List.any_append]

theorem init_inv (msgs : List (UInt32 × Msg.GoStruct)) (acc tbl : Table) (h : Dialect.init msgs acc = .ok tbl) :
    ∃ rws, tbl = acc ++ rws ∧ AllRel msgs rws ∧ (msgs.map (·.1)).Nodup ∧ ∀ m ∈ msgs, acc.has m.1 = false := by
  induction msgs generalizing acc with
  | nil =>
    simp [Dialect.init] at h
    exact ⟨[], by simp [h], AllRel.nil, by simp, by simp⟩
  | cons m r ih =>
    obtain ⟨mid, st⟩ := m
    unfold Dialect.init at h
    split at h
    · simp at h
    · rename_i hdup
      have hno : acc.has mid = false := by simpa using hdup
      split at h
      · simp at h
      · rename_i rw hrw
        obtain ⟨rws, h1, h2, h3, h4⟩ := ih _ h
        refine ⟨(mid, rw) :: rws, by simp [h1], AllRel.cons ⟨rfl, hrw⟩ h2, ?_, ?_⟩
        · simp only [List.map_cons, List.nodup_cons]
          refine ⟨?_, h3⟩
          intro hmem
          simp only [List.mem_map] at hmem
          obtain ⟨m', hm', hid⟩ := hmem
          have := h4 m' hm'
          rw [has_append] at this
          simp [hid] at this
        · intro m' hm'
          simp only [List.mem_cons] at hm'
          rcases hm' with rfl | hm'
          · exact hno
          · have := h4 m' hm'
            rw [has_append] at this
            simp at this
            exact this.1

theorem init_complete (msgs : List (UInt32 × Msg.GoStruct)) (acc : Table) (rws : Table)
    (h2 : AllRel msgs rws) (h3 : (msgs.map (·.1)).Nodup) (h4 : ∀ m ∈ msgs, acc.has m.1 = false) :
    Dialect.init msgs acc = .ok (acc ++ rws) := by
  induction msgs generalizing acc rws with
  | nil => cases h2; simp [Dialect.init]
  | cons m ms ih =>
    cases h2 with
    | cons hr hrest =>
      rename_i e es
      obtain ⟨mid, st⟩ := m
      obtain ⟨eid, rw⟩ := e
      simp only [Rel] at hr
      obtain ⟨he, hi⟩ := hr
      subst he
      have hno := h4 (eid, st) (by simp)
      simp only [List.map_cons, List.nodup_cons] at h3
      simp only [Dialect.init, hno, Bool.false_eq_true, if_false, hi]
      rw [ih (acc ++ [(eid, rw)]) es hrest h3.2]
      · simp
      · intro m' hm'
        rw [has_append]
        have h5 := h4 m' (by simp [hm'])
        have h6 : ¬ (eid = m'.1) := by
          intro heq
          apply h3.1
          simp only [List.mem_map]
          exact ⟨m', hm', heq.symm⟩
        simp [h5, h6]

theorem allRel_find (msgs : List (UInt32 × Msg.GoStruct)) (rws : Table) (h : AllRel msgs rws) (id : UInt32) :
    (rws.find? (fun e => e.1 == id)).map (·.2) =
      (msgs.find? (fun m => m.1 == id)).bind (fun m => (Msg.init m.2).toOption) := by
  induction h with
  | nil => simp
  | @cons m e ms es hr _ ih =>
    obtain ⟨he, hi⟩ := hr
    simp only [List.find?_cons, he]
    by_cases hid : (m.1 == id) = true
    · simp [hid, hi, Except.toOption]
    · simp [hid, ih]

def rwsOf : List (UInt32 × Msg.GoStruct) → Table
  | [] => []
  | m :: r => match Msg.init m.2 with
    | .ok rw => (m.1, rw) :: rwsOf r
    | .error _ => rwsOf r

theorem allRel_rwsOf (msgs : List (UInt32 × Msg.GoStruct)) (h : ∀ m ∈ msgs, ∃ rw, Msg.init m.2 = .ok rw) :
    AllRel msgs (rwsOf msgs) := by
  induction msgs with
  | nil => exact AllRel.nil
  | cons m r ih =>
    obtain ⟨rw, hrw⟩ := h m (by simp)
    simp only [rwsOf, hrw]
    exact AllRel.cons ⟨rfl, hrw⟩ (ih (fun x hx => h x (by simp [hx])))

theorem allRel_mem (msgs : List (UInt32 × Msg.GoStruct)) (rws : Table) (h : AllRel msgs rws) :
    ∀ m ∈ msgs, ∃ rw, Msg.init m.2 = .ok rw := by
  induction h with
  | nil => simp
  | @cons m0 e ms es hr _ ih =>
    intro m hm
    simp at hm
    rcases hm with rfl | hm
    · exact ⟨_, hr.2⟩
    · exact ih m hm
end Mav
