import Mav.Proofs.InitSound
import Mav.Proofs.Recode
/- the field indexes of an accepted struct are distinct positions below the number of fields -/
namespace Mav.InitSound
open Mav Msg SortLink LayoutLink

theorem insertBy_perm (a : DField) (l : List DField) : (Msg.insertBy a l).Perm (a :: l) := by
  induction l with
  | nil => simp [Msg.insertBy]
  | cons y r ih =>
    simp only [Msg.insertBy]
    split
    · exact (List.Perm.cons y ih).trans (List.Perm.swap a y r)
    · exact List.Perm.refl _

theorem sortFields_perm (l : List DField) : (sortFields l).Perm l := by
  induction l with
  | nil => exact List.Perm.refl _
  | cons a r ih =>
    show (Msg.insertBy a (sortFields r)).Perm (a :: r)
    exact (insertBy_perm a (sortFields r)).trans (List.Perm.cons a ih)

theorem initFields_indexes : ∀ (gfs : List GoField) (i : Nat) (ds : List DField), initFields i gfs = .ok ds →
    ds.map (·.index) = List.range' i gfs.length := by
  intro gfs
  induction gfs with
  | nil =>
    intro i ds h
    simp [initFields, pure, Except.pure] at h
    subst h; rfl
  | cons f r ih =>
    intro i ds h
    simp only [initFields, bind, Except.bind] at h
    cases h0 : initField i f with
    | error e => simp [h0] at h
    | ok d0 =>
      simp only [h0] at h
      cases hr : initFields (i + 1) r with
      | error e => simp [hr] at h
      | ok ds' =>
        simp only [hr, pure, Except.pure, Except.ok.injEq] at h
        subst h
        simp only [List.map_cons, List.length_cons, List.range'_succ, ih (i + 1) ds' hr, (initField_char i f d0 h0).1]

theorem accepted_idx_ok (st : GoStruct) (rw : RW) (h : Msg.init st = .ok rw) : IdxOk rw.fields rw.nfields := by
  obtain ⟨_, fs, hfs, _, _, hrw⟩ := init_ok st rw h
  have hidx := initFields_indexes st.fields 0 fs hfs
  have hlen : fs.length = st.fields.length := by
    have := congrArg List.length hidx
    simpa using this
  subst hrw
  simp only [mkRW]
  have hperm := sortFields_perm fs
  constructor
  · have : ((sortFields fs).map (·.index)).Perm (fs.map (·.index)) := hperm.map _
    rw [this.nodup_iff, hidx]
    exact List.nodup_range'
  · intro f hf
    have hm : f ∈ fs := hperm.mem_iff.mp hf
    have : f.index ∈ fs.map (·.index) := List.mem_map_of_mem hm
    rw [hidx, List.mem_range'_1] at this
    omega

end Mav.InitSound
