import Mav.Model.EnumText
/- Helper lemmas: decimal numerals — strconv.Atoi ∘ strconv.Itoa = id on int64. -/
namespace Mav.EnumText

def valRev : List Nat → Nat
  | [] => 0
  | d :: r => d + 10 * valRev r

theorem digitsRev_spec (f n : Nat) (h : n < f) :
    valRev (digitsRev f n) = n ∧ (∀ d ∈ digitsRev f n, d < 10) ∧ digitsRev f n ≠ [] := by
  induction f generalizing n with
  | zero => omega
  | succ f ih =>
    unfold digitsRev
    by_cases hn : n < 10
    · simp [hn, valRev]
    · simp only [hn, if_false]
      have hlt : n / 10 < f := by omega
      obtain ⟨h1, h2, _⟩ := ih (n / 10) hlt
      refine ⟨?_, ?_, by simp⟩
      · simp only [valRev, h1]; omega
      · intro d hd
        simp at hd
        rcases hd with rfl | hd
        · omega
        · exact h2 d hd

theorem digitVal_digitChar (d : Nat) (h : d < 10) : digitVal (digitChar d) = some d := by
  have : d = 0 ∨ d = 1 ∨ d = 2 ∨ d = 3 ∨ d = 4 ∨ d = 5 ∨ d = 6 ∨ d = 7 ∨ d = 8 ∨ d = 9 := by omega
  rcases this with rfl|rfl|rfl|rfl|rfl|rfl|rfl|rfl|rfl|rfl <;> decide

def valMsf (ds : List Nat) (acc : Nat) : Nat := ds.foldl (fun a d => a * 10 + d) acc

theorem foldl_digits (ds : List Nat) (h : ∀ d ∈ ds, d < 10) (acc : Nat) :
    (ds.map digitChar).foldl decStep (some acc) = some (valMsf ds acc) := by
  induction ds generalizing acc with
  | nil => simp [valMsf]
  | cons d r ih =>
    have hd := h d (by simp)
    have hr : ∀ x ∈ r, x < 10 := fun x hx => h x (by simp [hx])
    simp only [List.map_cons, List.foldl_cons, decStep, digitVal_digitChar d hd]
    rw [ih hr]
    simp [valMsf]

theorem valMsf_reverse (l : List Nat) : valMsf l.reverse 0 = valRev l := by
  induction l with
  | nil => simp [valMsf, valRev]
  | cons d r ih =>
    simp only [List.reverse_cons, valMsf, List.foldl_append, List.foldl_cons, List.foldl_nil] at ih ⊢
    simp only [valRev]
    rw [ih]; omega

theorem decToNat_natToDec (n : Nat) : decToNat (natToDec n) = some n := by
  obtain ⟨h1, h2, h3⟩ := digitsRev_spec (n + 1) n (by omega)
  unfold natToDec decToNat
  have hne : ((digitsRev (n + 1) n).reverse.map digitChar) ≠ [] := by simp [h3]
  split
  · rename_i heq; exact absurd heq hne
  · rw [foldl_digits _ (by intro d hd; exact h2 d (by simpa using hd))]
    rw [valMsf_reverse, h1]

theorem natToDec_head (n : Nat) : ∃ c r, natToDec n = c :: r ∧ '0' ≤ c ∧ c ≤ '9' := by
  obtain ⟨h1, h2, h3⟩ := digitsRev_spec (n + 1) n (by omega)
  unfold natToDec
  cases hl : (digitsRev (n + 1) n).reverse with
  | nil => simp at hl; exact absurd hl h3
  | cons d r =>
    refine ⟨digitChar d, r.map digitChar, by simp, ?_⟩
    have hd : d < 10 := h2 d (by have : d ∈ (digitsRev (n + 1) n).reverse := by simp [hl]
                                 simpa using this)
    have : d = 0 ∨ d = 1 ∨ d = 2 ∨ d = 3 ∨ d = 4 ∨ d = 5 ∨ d = 6 ∨ d = 7 ∨ d = 8 ∨ d = 9 := by omega
    rcases this with rfl|rfl|rfl|rfl|rfl|rfl|rfl|rfl|rfl|rfl <;> decide

/-- strconv.Atoi(strconv.Itoa(i)) = i for every int64 -/
theorem atoi_itoa (i : Int) (h1 : -9223372036854775808 ≤ i) (h2 : i ≤ 9223372036854775807) : atoi (itoa i) = some i := by
  unfold itoa atoi
  by_cases hneg : i < 0
  · simp only [hneg, if_true, atoiRaw, decToNat_natToDec]
    have : -(↑i.natAbs : Int) = i := by omega
    simp [this, h1, h2]
  · simp only [hneg, if_false]
    obtain ⟨c, r, hc, hc0, hc9⟩ := natToDec_head i.toNat
    have hm : c ≠ '-' := by intro h; subst h; exact absurd hc0 (by decide)
    have hp : c ≠ '+' := by intro h; subst h; exact absurd hc0 (by decide)
    have hdec := decToNat_natToDec i.toNat
    rw [hc] at hdec ⊢
    simp only [atoiRaw, hm, hp, if_false, hdec, Option.map_some]
    have : (↑i.toNat : Int) = i := by omega
    simp [this, h1, h2]
end Mav.EnumText
