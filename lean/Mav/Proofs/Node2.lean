import Mav.Proofs.Node
/-
  Further invariants of the node transition system, used by Props/C11, C12, C13.
-/
namespace Mav.Nd

/-- the writer goroutine is told to stop only by Channel.run on its way to the close event -/
def WT (x : ChanSt) : Prop := (x.cp = .notStarted ∨ x.cp = .wait) → x.writerTerm = false

theorem wt_upd (s : St) (c : Cid) (f : ChanSt → ChanSt) (c' : Cid) (hinv : ∀ c, WT (s.chans c))
    (hf : WT (s.chans c) → WT (f (s.chans c))) : WT ((upd s c f).chans c') := by
  by_cases hc : c' = c
  · subst hc; rw [upd_same]; exact hf (hinv c')
  · rw [upd_other _ _ _ _ hc]; exact hinv c'

theorem wt_enq (s : St) (t : Tgt) (it : Item) (pick : Cid → Bool) (c : Cid) (x : ChanSt) (h : WT x) : WT (enq s t it pick c x) := by
  unfold enq WT at *
  by_cases h1 : (s.members.contains c && t.hits c) = true
  · simp only [h1, if_true]
    by_cases h2 : (decide (x.queue.length < qcap) && (!x.ctxDone || pick c)) = true
    · simp only [h2, if_true]; exact h
    · simp only [h2]; exact h
  · simp only [h1]; exact h

macro "onchanW" c:term : tactic => `(tactic| (
  try dsimp only []
  refine wt_upd _ $c _ _ (by assumption) ?_))

macro "wtstep" : tactic => `(tactic| (
  intro hi
  unfold WT at hi ⊢
  simp_all))

theorem step_wt {s s' : St} (h : Step s s') (hinv : ∀ c, WT (s.chans c)) : ∀ c, WT (s'.chans c) := by
  intro c'
  cases h with
  | dispatch t it pick _ => exact wt_enq s t it pick c' _ (hinv c')
  | closeNode => exact hinv c'
  | provExit _ => exact hinv c'
  | nodeBreak _ _ => exact hinv c'
  | nodeToWait _ _ => exact hinv c'
  | nodeFinish _ _ _ => exact hinv c'
  | nodeCloseChan c h1 h2 h3 => (onchanW c; wtstep)
  | newChan c h1 h2 h3 h4 => (onchanW c; wtstep)
  | newChanTerm c h1 h2 h3 h4 h5 h6 h7 => (onchanW c; wtstep)
  | pBegin c ev h1 h2 h3 => (onchanW c; wtstep)
  | pSkip c ev h1 h2 h3 => (onchanW c; wtstep)
  | pDeliver c ev h1 h2 => (onchanW c; wtstep)
  | pDrop c ev h1 h2 => (onchanW c; wtstep)
  | rResume c h1 h2 => (onchanW c; wtstep)
  | rReadOk c r rest ev h1 h2 h3 h4 => (onchanW c; wtstep)
  | rReadFatal c e rest h1 h2 => (onchanW c; wtstep)
  | rReadClosed c h1 h2 => (onchanW c; wtstep)
  | wDequeue c it rest h1 h2 h3 => (onchanW c; wtstep)
  | wOk c it h1 => (onchanW c; wtstep)
  | wFail c it h1 => (onchanW c; wtstep)
  | wTerm c h1 h2 => (onchanW c; wtstep)
  | cReaderDone c e h1 h2 => (onchanW c; wtstep)
  | cCtxDone c h1 h2 => (onchanW c; wtstep)
  | cACloseRwc c e h1 => (onchanW c; wtstep)
  | cATermW c e h1 => (onchanW c; wtstep)
  | cARecvW c e h1 h2 h3 => (onchanW c; wtstep)
  | cBTermW c h1 => (onchanW c; wtstep)
  | cBRecvW c h1 h2 => (onchanW c; wtstep)
  | cBCloseRwc c h1 => (onchanW c; wtstep)
  | cBRecvR c e h1 h2 h3 => (onchanW c; wtstep)
  | cCloseResume c h1 h2 => (onchanW c; wtstep)
  | cUnregister c h1 h2 => (onchanW c; wtstep)
  | cUnregisterTerm c h1 h2 => (onchanW c; wtstep)

theorem reach_wt (inputs : Cid → List RdRes) (s : St) (h : Reach (init inputs) s) : ∀ c, WT (s.chans c) := by
  induction h with
  | refl => intro c; simp [WT, init]
  | step _ hs ih => exact step_wt hs ih

/-- only a dispatch changes what a channel has been offered (`seen`) or has accepted (`acc`) -/
def SameFan (s s' : St) : Prop := ∀ c, (s'.chans c).acc = (s.chans c).acc ∧ (s'.chans c).seen = (s.chans c).seen

theorem samefan_upd (s : St) (c : Cid) (f : ChanSt → ChanSt) (hf : ∀ x, (f x).acc = x.acc ∧ (f x).seen = x.seen) (s' : St)
    (h : s'.chans = (upd s c f).chans) : SameFan s s' := by
  intro c'
  rw [h]
  by_cases hc : c' = c
  · subst hc; rw [upd_same]; exact hf _
  · rw [upd_other _ _ _ _ hc]; exact ⟨rfl, rfl⟩

macro "sf" c:term : tactic => `(tactic| (
  right
  try dsimp only []
  refine samefan_upd _ $c _ ?_ _ (by rfl)
  intro x; exact ⟨rfl, rfl⟩))

macro "sfd" c:term : tactic => `(tactic| (
  right
  intro c'
  by_cases hc : c' = $c
  · subst hc; simp [upd]
  · simp [upd, hc]))

theorem step_frame {s s' : St} (h : Step s s') :
    (∃ t it pick, s.npc = .loop ∧ s' = dispatch s t it pick) ∨ SameFan s s' := by
  cases h with
  | dispatch t it pick h => exact Or.inl ⟨t, it, pick, h, rfl⟩
  | closeNode => right; intro c; exact ⟨rfl, rfl⟩
  | provExit _ => right; intro c; exact ⟨rfl, rfl⟩
  | nodeBreak _ _ => right; intro c; exact ⟨rfl, rfl⟩
  | nodeToWait _ _ => right; intro c; exact ⟨rfl, rfl⟩
  | nodeFinish _ _ _ => right; intro c; exact ⟨rfl, rfl⟩
  | nodeCloseChan c h1 h2 h3 => sf c
  | newChan c h1 h2 h3 h4 => sfd c
  | newChanTerm c h1 h2 h3 h4 h5 h6 h7 => sf c
  | pBegin c ev h1 h2 h3 => sf c
  | pSkip c ev h1 h2 h3 => sf c
  | pDeliver c ev h1 h2 => sfd c
  | pDrop c ev h1 h2 => sf c
  | rResume c h1 h2 => sf c
  | rReadOk c r rest ev h1 h2 h3 h4 => sf c
  | rReadFatal c e rest h1 h2 => sf c
  | rReadClosed c h1 h2 => sf c
  | wDequeue c it rest h1 h2 h3 => sf c
  | wOk c it h1 => sf c
  | wFail c it h1 => sf c
  | wTerm c h1 h2 => sf c
  | cReaderDone c e h1 h2 => sf c
  | cCtxDone c h1 h2 => sf c
  | cACloseRwc c e h1 => sf c
  | cATermW c e h1 => sf c
  | cARecvW c e h1 h2 h3 => sf c
  | cBTermW c h1 => sf c
  | cBRecvW c h1 h2 => sf c
  | cBCloseRwc c h1 => sf c
  | cBRecvR c e h1 h2 h3 => sf c
  | cCloseResume c h1 h2 => sf c
  | cUnregister c h1 h2 => sfd c
  | cUnregisterTerm c h1 h2 => sf c

end Mav.Nd
