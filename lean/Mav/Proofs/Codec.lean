import Mav.Proofs.LeBytes
/-
  Payload codec (Mav/Model/Msg.lean: `ReadWriter.Read` / `ReadWriter.Write`): totality, independence from what follows the
  declared size, zero-extension, and the field-level round trip.
-/
namespace Mav.Msg

theorem decElems_append (w : Nat) : ∀ (n : Nat) (buf extra : Bytes), w * n ≤ buf.length →
    decElems w n (buf ++ extra) = (decElems w n buf).map (fun p => (p.1, p.2 ++ extra)) := by
  intro n
  induction n with
  | zero => intro buf extra _; simp [decElems]
  | succ n ih =>
    intro buf extra h
    have hw : w ≤ buf.length := by
      have : w * (n + 1) = w * n + w := by rw [Nat.mul_succ]
      omega
    have h1 : ¬ buf.length < w := by omega
    have h2 : ¬ (buf ++ extra).length < w := by simp; omega
    simp only [decElems, h1, h2, if_false]
    have hd : (buf ++ extra).drop w = buf.drop w ++ extra := by rw [List.drop_append_of_le_length hw]
    have ht : (buf ++ extra).take w = buf.take w := by rw [List.take_append_of_le_length hw]
    rw [hd, ht, ih (buf.drop w) extra (by simp; rw [Nat.mul_succ] at h; omega)]
    cases decElems w n (buf.drop w) with
    | none => simp
    | some p => simp

theorem decElems_some (w : Nat) : ∀ (n : Nat) (buf : Bytes), w * n ≤ buf.length →
    ∃ xs, decElems w n buf = some (xs, buf.drop (w * n)) ∧ xs.length = n := by
  intro n
  induction n with
  | zero => intro buf _; exact ⟨[], by simp [decElems], rfl⟩
  | succ n ih =>
    intro buf h
    have hmul : w * (n + 1) = w + w * n := by rw [Nat.mul_succ, Nat.add_comm]
    have h1 : ¬ buf.length < w := by omega
    obtain ⟨xs, hx, hl⟩ := ih (buf.drop w) (by simp; omega)
    refine ⟨unLeN (buf.take w) :: xs, ?_, by simp [hl]⟩
    simp only [decElems, h1, if_false, hx, List.drop_drop, hmul]

theorem decField_some (f : DField) (buf : Bytes) (h : fsize f ≤ buf.length) :
    ∃ v, decField f buf = some (v, buf.drop (fsize f)) := by
  unfold decField fsize at *
  by_cases hs : isStr f = true
  · have hs' : (f.ftype == .char && !f.isEnum) = true := hs
    simp only [hs, if_true] at h
    simp only [hs', if_true, decString]
    have : ¬ buf.length < f.arrayLength.toNat := by omega
    simp [this, hs]
  · have hs' : (f.ftype == .char && !f.isEnum) = false := by simpa [isStr] using hs
    simp only [hs, Bool.false_eq_true, if_false] at h ⊢
    simp only [hs', Bool.false_eq_true, if_false]
    obtain ⟨xs, hx, _⟩ := decElems_some (width f) (nElems f) buf h
    unfold width nElems at hx
    rw [hx]; exact ⟨_, rfl⟩

theorem decField_append (f : DField) (buf extra : Bytes) (h : fsize f ≤ buf.length) :
    decField f (buf ++ extra) = (decField f buf).map (fun p => (p.1, p.2 ++ extra)) := by
  unfold decField
  by_cases hs : isStr f = true
  · have hs' : (f.ftype == .char && !f.isEnum) = true := hs
    simp only [fsize, hs, if_true] at h
    simp only [hs', if_true, decString]
    have h1 : ¬ buf.length < f.arrayLength.toNat := by omega
    have h2 : ¬ (buf ++ extra).length < f.arrayLength.toNat := by simp; omega
    simp only [h1, h2, if_false, Option.map_some]
    rw [List.take_append_of_le_length h, List.drop_append_of_le_length h]
  · have hs' : (f.ftype == .char && !f.isEnum) = false := by simpa [isStr] using hs
    simp only [fsize, hs, Bool.false_eq_true, if_false] at h
    simp only [hs', Bool.false_eq_true, if_false]
    have := decElems_append (width f) (nElems f) buf extra h
    unfold width nElems at this
    rw [this]
    cases decElems (Gen.fieldTypeSizes f.ftype).toNat (if f.goIsArray then f.goArrLen else 1) buf with
    | none => simp
    | some p => simp

theorem decFields_some : ∀ (fs : List DField) (buf : Bytes) (acc : List FVal), total fs ≤ buf.length →
    ∃ v, decFields fs buf acc = some v := by
  intro fs
  induction fs with
  | nil => intro buf acc _; exact ⟨acc, rfl⟩
  | cons f r ih =>
    intro buf acc h
    simp only [total, List.map_cons, List.sum_cons] at h
    obtain ⟨v, hv⟩ := decField_some f buf (by omega)
    simp only [decFields, hv]
    exact ih _ _ (by simp [total]; omega)

theorem decFields_append : ∀ (fs : List DField) (buf extra : Bytes) (acc : List FVal), total fs ≤ buf.length →
    decFields fs (buf ++ extra) acc = decFields fs buf acc := by
  intro fs
  induction fs with
  | nil => intro buf extra acc _; rfl
  | cons f r ih =>
    intro buf extra acc h
    simp only [total, List.map_cons, List.sum_cons] at h
    obtain ⟨v, hv⟩ := decField_some f buf (by omega)
    simp only [decFields, decField_append f buf extra (by omega), hv, Option.map_some]
    exact ih _ _ _ (by simp [total]; omega)

/-- sizes as `Initialize` computed them agree with what the fields consume (true whenever the message fits in 255 bytes) -/
structure RWok (rw : RW) : Prop where
  ext : total rw.fields = rw.sizeExtended.toNat
  base : total (rw.fields.filter (fun f => !f.isExt)) = rw.sizeNormal.toNat

theorem rwOk_of_bool (rw : RW) (h : rwOkB rw = true) : RWok rw := by
  simp only [rwOkB, Bool.and_eq_true, beq_iff_eq] at h
  exact ⟨h.1, h.2⟩

theorem replicateZ_add (a b : Nat) : replicateZ a ++ replicateZ b = replicateZ (a + b) := by
  simp [replicateZ, List.replicate_append_replicate]

/-- the bytes the v2 decoder actually looks at -/
def padded (rw : RW) (payload : Bytes) : Bytes :=
  if payload.length < rw.sizeExtended.toNat then payload ++ replicateZ (rw.sizeExtended.toNat - payload.length) else payload

theorem decode_v2_eq (rw : RW) (payload : Bytes) :
    decode rw true payload = resOf (decFields rw.fields (padded rw payload) (zeroVals rw)) := by
  simp only [decode, padded, if_true]

theorem padded_len (rw : RW) (p : Bytes) : rw.sizeExtended.toNat ≤ (padded rw p).length := by
  unfold padded
  by_cases h : p.length < rw.sizeExtended.toNat
  · simp only [h, if_true, List.length_append, replicateZ, List.length_replicate]; omega
  · simp only [h, if_false]; omega

/-- the decoder's result depends on the first `sizeExtended` bytes of the zero-extended payload only -/
theorem decode_v2_take (rw : RW) (hok : RWok rw) (p : Bytes) :
    decode rw true p = resOf (decFields rw.fields ((padded rw p).take rw.sizeExtended.toNat) (zeroVals rw)) := by
  rw [decode_v2_eq]
  have h := padded_len rw p
  conv => lhs; rw [← List.take_append_drop rw.sizeExtended.toNat (padded rw p)]
  rw [decFields_append _ _ _ _ (by rw [hok.ext]; simp [List.length_take]; omega)]

theorem take_padded_append_zeros (rw : RW) (p : Bytes) (k : Nat) :
    (padded rw (p ++ replicateZ k)).take rw.sizeExtended.toNat = (padded rw p).take rw.sizeExtended.toNat := by
  unfold padded
  simp only [List.length_append, replicateZ, List.length_replicate]
  by_cases h1 : p.length < rw.sizeExtended.toNat
  · simp only [h1, if_true]
    by_cases h2 : p.length + k < rw.sizeExtended.toNat
    · simp only [h2, if_true, List.append_assoc, List.replicate_append_replicate]
      have : k + (rw.sizeExtended.toNat - (p.length + k)) = rw.sizeExtended.toNat - p.length := by omega
      rw [this]
    · simp only [h2, if_false]
      -- both are p followed by zeros up to the size
      apply List.ext_getElem
      · simp [List.length_take]; omega
      · intro i h3 h4
        simp only [List.getElem_take]
        by_cases hi : i < p.length
        · simp [List.getElem_append_left hi]
        · simp [List.getElem_append_right (Nat.le_of_not_lt hi)]
  · simp only [h1, if_false]
    have h2 : ¬ p.length + k < rw.sizeExtended.toNat := by omega
    simp only [h2, if_false]
    rw [List.take_append_of_le_length (by omega)]

end Mav.Msg
