import Mav.Proofs.Codec
/- Payload codec: stripping, field round trip, message round trip (core lemmas). -/
namespace Mav.Msg

theorem takeWhile_zero (l : Bytes) : l.takeWhile (· == 0) = List.replicate (l.takeWhile (· == 0)).length 0 := by
  induction l with
  | nil => simp
  | cons a r ih =>
    by_cases h : (a == 0) = true
    · have : a = 0 := by simpa using h
      subst this
      simp only [List.takeWhile_cons, beq_self_eq_true, if_true, List.length_cons, List.replicate_succ]
      rw [← ih]
    · simp [List.takeWhile_cons, h]

/-- what `removeEmptyBytes` removes is a run of zero bytes at the end, and it leaves at least one byte -/
theorem strip_is_zero_suffix (buf : Bytes) : ∃ k, buf = removeEmptyBytes buf ++ replicateZ k := by
  cases buf with
  | nil => exact ⟨0, by simp [removeEmptyBytes, replicateZ]⟩
  | cons b r =>
    refine ⟨(r.reverse.takeWhile (· == 0)).length, ?_⟩
    simp only [removeEmptyBytes, List.cons_append, replicateZ]
    congr 1
    have h := List.takeWhile_append_dropWhile (p := (· == 0)) (l := r.reverse)
    have h2 : r = (r.reverse.dropWhile (· == 0)).reverse ++ (r.reverse.takeWhile (· == 0)).reverse := by
      rw [← List.reverse_append, h, List.reverse_reverse]
    conv => lhs; rw [h2]
    congr 1
    rw [takeWhile_zero r.reverse]; simp

theorem strip_nonempty (buf : Bytes) (h : buf ≠ []) : 1 ≤ (removeEmptyBytes buf).length := by
  cases buf with
  | nil => exact absurd rfl h
  | cons b r => simp [removeEmptyBytes]

end Mav.Msg
namespace Mav.Msg

/-- canonical form of a field value: numbers reduced to the wire width; strings cut at the declared length or the first NUL -/
def canonF (f : DField) : FVal → FVal
  | .num xs => .num ((xs.take (nElems f)).map (maskW (width f)))
  | .str s => .str ((s.take f.arrayLength.toNat).takeWhile (· != 0))

/-- the value has the shape of the field (what a Go struct field of that type can hold) -/
def wellTyped (f : DField) : FVal → Bool
  | .num xs => !isStr f && xs.length == nElems f
  | .str _ => isStr f

theorem decElems_flatMap (w : Nat) (hw : w = 1 ∨ w = 2 ∨ w = 4 ∨ w = 8) : ∀ (xs : List UInt64) (rest : Bytes),
    decElems w xs.length (xs.flatMap (leN w) ++ rest) = some (xs.map (maskW w), rest) := by
  intro xs
  induction xs with
  | nil => intro rest; simp [decElems]
  | cons x r ih =>
    intro rest
    have hl : (leN w x).length = w := leN_length w x
    have h1 : ¬ ((x :: r).flatMap (leN w) ++ rest).length < w := by simp [hl]
    simp only [List.length_cons, decElems, h1, if_false]
    have ht : ((x :: r).flatMap (leN w) ++ rest).take w = leN w x := by
      simp only [List.flatMap_cons, List.append_assoc]
      rw [List.take_append_of_le_length (by omega), List.take_of_length_le (by omega)]
    have hd : ((x :: r).flatMap (leN w) ++ rest).drop w = r.flatMap (leN w) ++ rest := by
      simp only [List.flatMap_cons, List.append_assoc]
      rw [List.drop_append_of_le_length (by omega), List.drop_of_length_le (by omega), List.nil_append]
    rw [ht, hd, ih rest, unLeN_leN w hw]
    simp

theorem encField_len (f : DField) (v : FVal) (h : wellTyped f v = true) : (encField f v).length = fsize f := by
  cases v with
  | num xs =>
    simp only [wellTyped, Bool.and_eq_true, Bool.not_eq_true', beq_iff_eq] at h
    have hl : ∀ (l : List UInt64), (l.flatMap (encElem f)).length = width f * l.length := by
      intro l; induction l with
      | nil => simp
      | cons a r ih => simp [List.flatMap_cons, ih, encElem, leN_length, width, Nat.mul_succ]; omega
    simp only [encField, fsize, h.1, Bool.false_eq_true, if_false]
    unfold nElems at h ⊢
    split <;> rename_i hg
    · rw [hl]; simp only [hg, if_true] at h; simp [h.2]
    · rw [hl]; simp only [hg, Bool.false_eq_true, if_false] at h; simp [h.2]
  | str s =>
    simp only [wellTyped] at h
    simp only [encField, encString, fsize, h, if_true, List.length_append, List.length_take, replicateZ, List.length_replicate]
    omega

/-- **field round trip**: decoding the encoding of a well-typed value yields its canonical form and consumes exactly the field -/
theorem decField_encField (f : DField) (v : FVal) (rest : Bytes) (h : wellTyped f v = true) :
    decField f (encField f v ++ rest) = some (canonF f v, rest) := by
  cases v with
  | num xs =>
    simp only [wellTyped, Bool.and_eq_true, Bool.not_eq_true', beq_iff_eq] at h
    have hs : (f.ftype == .char && !f.isEnum) = false := h.1
    have htake : xs.take (nElems f) = xs := by rw [← h.2]; exact List.take_length
    have henc : encField f (.num xs) = xs.flatMap (leN (width f)) := by
      simp only [encField]
      unfold nElems at htake
      split <;> rename_i hg
      · simp only [hg, if_true] at htake; rw [htake]; rfl
      · simp only [hg, Bool.false_eq_true, if_false] at htake; rw [htake]; rfl
    have hn : (if f.goIsArray then f.goArrLen else 1) = xs.length := h.2.symm
    simp only [decField, hs, Bool.false_eq_true, if_false, henc, hn]
    have := decElems_flatMap (width f) (width_cases f.ftype) xs rest
    unfold width at this ⊢
    rw [this]
    simp [canonF, htake, width]
  | str s =>
    simp only [wellTyped] at h
    have hs : (f.ftype == .char && !f.isEnum) = true := h
    simp only [decField, hs, if_true, decString, encField, encString]
    have hlen : (s.take f.arrayLength.toNat ++ replicateZ (f.arrayLength.toNat - s.length)).length = f.arrayLength.toNat := by
      simp [replicateZ, List.length_take]; omega
    have h1 : ¬ (s.take f.arrayLength.toNat ++ replicateZ (f.arrayLength.toNat - s.length) ++ rest).length < f.arrayLength.toNat := by
      rw [List.length_append, hlen]; omega
    simp only [h1, if_false]
    rw [List.take_append_of_le_length (by omega), List.drop_append_of_le_length (by omega), List.take_of_length_le (by omega),
      List.drop_of_length_le (by omega)]
    simp only [canonF, List.nil_append, Option.some.injEq, Prod.mk.injEq, and_true, FVal.str.injEq]
    -- cutting at the first NUL: the zero padding contributes nothing
    have : ∀ (a : Bytes) (k : Nat), (a ++ replicateZ k).takeWhile (· != 0) = a.takeWhile (· != 0) := by
      intro a k
      induction a with
      | nil => cases k <;> simp [replicateZ, List.replicate_succ]
      | cons x r ih => by_cases hx : (x != 0) = true <;> simp [List.takeWhile_cons, hx, ih]
    exact this _ _

/-- **message round trip (core)**: decoding the concatenated encodings of the fields, in wire order, sets every field to the
    canonical form of its value and touches nothing else -/
theorem decFields_encode (vals : List FVal) : ∀ (fs : List DField) (rest : Bytes) (acc : List FVal),
    (∀ f ∈ fs, wellTyped f (valAt vals f.index) = true) →
    decFields fs (fs.flatMap (fun f => encField f (valAt vals f.index)) ++ rest) acc =
      some (fs.foldl (fun a f => setAt a f.index (canonF f (valAt vals f.index))) acc) := by
  intro fs
  induction fs with
  | nil => intro rest acc _; rfl
  | cons f r ih =>
    intro rest acc h
    simp only [List.flatMap_cons, List.append_assoc, decFields, List.foldl_cons]
    rw [decField_encField f _ _ (h f (List.mem_cons_self ..))]
    exact ih _ _ (fun g hg => h g (List.mem_cons_of_mem _ hg))

theorem flatMap_len (vals : List FVal) (fs : List DField) (h : ∀ f ∈ fs, wellTyped f (valAt vals f.index) = true) :
    (fs.flatMap (fun f => encField f (valAt vals f.index))).length = total fs := by
  induction fs with
  | nil => rfl
  | cons f r ih =>
    simp only [List.flatMap_cons, List.length_append, total, List.map_cons, List.sum_cons]
    rw [encField_len f _ (h f (List.mem_cons_self ..)), ih (fun g hg => h g (List.mem_cons_of_mem _ hg))]
    rfl

end Mav.Msg
