import Mav.Proofs.InitSound
import Mav.Proofs.Decimal
import Mav.Model.Gen18
import Mav.Spec.Gen18
import Mav.Props.C18
/-
  C18, end to end for messages: an ABSTRACT message definition (what a valid <message> element says: name, id, fields with a
  schema type, an optional array length, a name, an optional enum, the extension flag) is rendered to the texts of the XML,
  run through the model of the generator (`processMessage`), and the struct that comes out is (1) accepted by the model of the
  run-time's `Initialize` and (2) read by the specification (`Spec.Msg.ofGo`) as exactly the definition we started from. With
  C03's `layout_universal`: the generated code has the field order, the sizes and the CRC_EXTRA the MAVLink guide assigns to
  the XML definition.
-/
namespace Mav.GenLink
open Mav Msg Gen18 EnumText
open Mav.Gen (FType)

/-- the scalar types of the MAVLink schema -/
inductive XBase | double | uint64 | int64 | float | uint32 | int32 | uint16 | int16 | uint8 | int8 | char | version
deriving DecidableEq, Repr

def XBase.text : XBase → String
  | .double => "double" | .uint64 => "uint64_t" | .int64 => "int64_t" | .float => "float"
  | .uint32 => "uint32_t" | .int32 => "int32_t" | .uint16 => "uint16_t" | .int16 => "int16_t"
  | .uint8 => "uint8_t" | .int8 => "int8_t" | .char => "char" | .version => "uint8_t_mavlink_version"

def XBase.ftype : XBase → FType
  | .double => .double | .uint64 => .uint64 | .int64 => .int64 | .float => .float
  | .uint32 => .uint32 | .int32 => .int32 | .uint16 => .uint16 | .int16 => .int16
  | .uint8 => .uint8 | .int8 => .int8 | .char => .char | .version => .uint8

/-- the Go type the generator must choose -/
def XBase.goType : XBase → String
  | .double => "float64" | .uint64 => "uint64" | .int64 => "int64" | .float => "float32"
  | .uint32 => "uint32" | .int32 => "int32" | .uint16 => "uint16" | .int16 => "int16"
  | .uint8 => "uint8" | .int8 => "int8" | .char => "string" | .version => "uint8"

structure AField where
  base : XBase
  arr : Option Nat
  name : String
  enum : String := ""
  ext : Bool := false
deriving Repr

/-- the `type` attribute: `base` or `base[n]`, n in decimal without leading zeros -/
def AField.tyText (f : AField) : String :=
  match f.arr with
  | none => f.base.text
  | some n => String.ofList (f.base.text.toList ++ '[' :: natToDec n ++ [']'])

def AField.toX (f : AField) : XField := { ty := f.tyText, name := f.name, enum := f.enum, ext := f.ext }

/-! ### decimal texts -/

theorem atoiDigits_eq_decToNat (cs : List Char) : atoiDigits cs = decToNat cs := by
  cases cs with
  | nil => rfl
  | cons c r =>
    show (c :: r).foldl _ (some 0) = (c :: r).foldl decStep (some 0)
    congr 1
    funext acc ch
    cases acc with
    | none => simp [decStep]
    | some n =>
      by_cases hd : '0' ≤ ch ∧ ch ≤ '9'
      · simp [decStep, EnumText.digitVal, hd]
      · simp [decStep, EnumText.digitVal, hd]

theorem atoiDigits_natToDec (n : Nat) : atoiDigits (natToDec n) = some n := by
  rw [atoiDigits_eq_decToNat]; exact decToNat_natToDec n

theorem natToDec_digits (n : Nat) : (natToDec n).all isDigit = true ∧ natToDec n ≠ [] := by
  obtain ⟨_, h2, h3⟩ := digitsRev_spec (n + 1) n (by omega)
  unfold natToDec
  refine ⟨?_, by simp [h3]⟩
  rw [List.all_eq_true]
  intro c hc
  simp only [List.mem_map, List.mem_reverse] at hc
  obtain ⟨d, hd, rfl⟩ := hc
  have hlt := h2 d hd
  have : d = 0 ∨ d = 1 ∨ d = 2 ∨ d = 3 ∨ d = 4 ∨ d = 5 ∨ d = 6 ∨ d = 7 ∨ d = 8 ∨ d = 9 := by omega
  rcases this with rfl|rfl|rfl|rfl|rfl|rfl|rfl|rfl|rfl|rfl <;> decide

/-! ### the type text through `splitType` -/

theorem splitType_scalar (b : XBase) :
    splitType b.text = ((if b = .version then "uint8_t" else b.text), "", "") := by
  cases b <;> decide

theorem text_ne_nil (b : XBase) : b.text.toList ≠ [] := by cases b <;> decide

theorem array_text_ne_version (l digs : List Char) :
    (String.ofList (l ++ '[' :: digs ++ [']']) == "uint8_t_mavlink_version") = false := by
  rw [beq_eq_false_iff_ne]
  intro h
  have h2 := congrArg String.toList h
  rw [String.toList_ofList] at h2
  have h3 := congrArg List.getLast? h2
  have : (l ++ '[' :: digs ++ [']']).getLast? = some ']' := by
    have e : l ++ '[' :: digs ++ [']'] = (l ++ '[' :: digs) ++ [']'] := by simp
    rw [e, List.getLast?_append]; simp
  rw [this] at h3
  revert h3
  decide

theorem splitType_array (b : XBase) (n : Nat) :
    splitType (String.ofList (b.text.toList ++ '[' :: natToDec n ++ [']'])) =
      (if b = .char then ("char", "", String.ofList (natToDec n)) else (b.text, String.ofList (natToDec n), "")) := by
  obtain ⟨hdig, hne⟩ := natToDec_digits n
  unfold splitType
  simp only [array_text_ne_version, Bool.false_eq_true, if_false]
  rw [C18.splitArray_render b.text.toList (natToDec n) (text_ne_nil b) hne hdig]
  simp only [String.ofList_toList]
  cases b <;> simp [XBase.text]

/-! ### field names -/

def isLetter (c : Char) : Bool := isUpper c || isLowerAZ c

theorem lower_facts (c : Char) (hc : isLowerAZ c = true) : isUpper c.toLower.toUpper = true ∧ c.toLower ≠ '_' := by
  simp only [isLowerAZ, Bool.and_eq_true, decide_eq_true_eq] at hc
  refine C18.range_cases 97 (fun c => isUpper c.toLower.toUpper = true ∧ c.toLower ≠ '_') ?_ c
    (C18.ge_toNat 'a' c hc.1) (by have := C18.le_toNat 'z' c hc.2; simp at this; omega)
  decide

theorem letter_facts (c : Char) (hc : isLetter c = true) : isUpper c.toLower.toUpper = true ∧ c.toLower ≠ '_' := by
  simp only [isLetter, Bool.or_eq_true] at hc
  cases hc with
  | inl h =>
    obtain ⟨h1, _, h3, _⟩ := C18.upper_facts c h
    exact ⟨by rw [h1]; exact h, h3⟩
  | inr h => exact lower_facts c h

/-- a name that begins with a letter becomes an exported Go identifier -/
theorem defToGo_firstUpper (s : String) (c : Char) (r : List Char) (hs : s.toList = c :: r) (hc : isLetter c = true) :
    LayoutLink.firstUpper (defToGo s) := by
  obtain ⟨h1, h2⟩ := letter_facts c hc
  unfold defToGo defToGoL
  rw [hs]
  simp only [List.map_cons, C18.camel_cons_ne _ _ h2]
  exact ⟨c.toLower.toUpper, camel (r.map Char.toLower), by simp, h1⟩

def nameLetter (s : String) : Prop := ∃ c r, s.toList = c :: r ∧ isLetter c = true

def nameLetterB (s : String) : Bool := match s.toList with | c :: _ => isLetter c | [] => false

theorem nameLetter_of_B (s : String) (h : nameLetterB s = true) : nameLetter s := by
  unfold nameLetterB at h
  cases hs : s.toList with
  | nil => rw [hs] at h; cases h
  | cons c r => rw [hs] at h; exact ⟨c, r, hs, h⟩

/-- the name the SPECIFICATION reads off the generated field is the XML name -/
theorem spec_name_recovered (name : String) (h : nameLetter name) :
    (if (if goToDef (defToGo name) != name then name else "") ≠ "" then (if goToDef (defToGo name) != name then name else "")
     else Spec.Msg.snakeLower (defToGo name)) = name := by
  obtain ⟨c, r, hs, hc⟩ := h
  have hne : name ≠ "" := by
    intro e; rw [e] at hs; simp at hs
  by_cases hx : (goToDef (defToGo name) != name) = true
  · simp [hx, hne]
  · simp only [hx, Bool.false_eq_true, if_false, ne_eq, not_true_eq_false]
    simp only [bne_iff_ne, ne_eq, Decidable.not_not] at hx
    rw [← LayoutLink.field_name_conv _ (defToGo_firstUpper name c r hs hc)]
    exact hx

/-! ### one field through the generator and back through the specification -/

structure AFieldOk (f : AField) : Prop where
  arr : ∀ n, f.arr = some n → 1 ≤ n ∧ n ≤ 255 ∧ f.base ≠ .version
  enum : f.enum ≠ "" → Gen.enumCapable f.base.ftype = true
  name : nameLetter f.name

/-- the field of the definition, as the serialization guide sees it -/
def AField.sfield (i : Nat) (f : AField) : Spec.Msg.SField :=
  { name := f.name, ty := f.base.ftype, arr := f.arr, ext := f.ext, idx := i }

/-- array-length text, mavlen text and Go array length the generator must produce -/
def AField.parts (f : AField) : String × String × Nat :=
  match f.arr with
  | none => ("", "", 0)
  | some n => if f.base = .char then ("", String.ofList (natToDec n), 0) else (String.ofList (natToDec n), "", n)

theorem typeToGo_base (b : XBase) : typeToGo (if b = .version then "uint8_t" else b.text) = some b.goType := by
  cases b <;> decide

theorem processField_abstract (f : AField) (ok : AFieldOk f) :
    processField f.toX = some (mkField f.toX f.base.goType f.parts.1 f.parts.2.1 f.parts.2.2) := by
  unfold processField AField.parts
  cases ha : f.arr with
  | none =>
    have e : f.toX.ty = f.base.text := by simp [AField.toX, AField.tyText, ha]
    rw [e, splitType_scalar, typeToGo_base]
    simp
  | some n =>
    obtain ⟨_, _, hv⟩ := ok.arr n ha
    have e : f.toX.ty = String.ofList (f.base.text.toList ++ '[' :: natToDec n ++ [']']) := by
      simp [AField.toX, AField.tyText, ha]
    rw [e, splitType_array]
    by_cases hc : f.base = .char
    · simp only [hc, if_true]
      have : typeToGo "char" = some "string" := by decide
      rw [this]
      simp [XBase.goType]
    · simp only [hc, if_false]
      have ht : typeToGo f.base.text = some f.base.goType := by
        have := typeToGo_base f.base
        simpa [hv] using this
      rw [ht]
      have hne : (String.ofList (natToDec n) != "") = true := by
        rw [bne_iff_ne]
        intro h0
        have := congrArg String.toList h0
        rw [String.toList_ofList] at this
        exact (natToDec_digits n).2 (by simpa using this)
      simp only [hne, if_true, String.toList_ofList, atoiDigits_natToDec]

theorem fieldTypeFromGo_base (b : XBase) : Gen.fieldTypeFromGo b.goType = some b.ftype := by
  cases b <;> decide

theorem goType_ne_empty (b : XBase) : b.goType ≠ "" := by cases b <;> decide

theorem goType_string_iff (b : XBase) : (b.goType == "string") = decide (b = .char) := by cases b <;> decide

theorem dec_ne_empty (n : Nat) : String.ofList (natToDec n) ≠ "" := by
  intro h0
  have := congrArg String.toList h0
  rw [String.toList_ofList] at this
  exact (natToDec_digits n).2 (by simpa using this)

theorem parseLen_dec (n : Nat) : Spec.Msg.parseLen (String.ofList (natToDec n)) = some n := by
  unfold Spec.Msg.parseLen
  rw [String.toList_ofList]
  obtain ⟨c, r, hcr, h0, h9⟩ := natToDec_head n
  have hp : c ≠ '+' := by
    intro e; subst e; exact absurd (And.intro h0 h9) (by decide)
  split
  · rename_i r' heq
    rw [hcr] at heq
    cases heq
    exact absurd rfl hp
  · rw [LayoutLink.digitsL_eq]; exact atoiDigits_natToDec n

theorem ext_tag (b : Bool) : ((if b then "true" else "") == "true") = b := by cases b <;> decide

def specName (g : GoField) : String := if g.mavname ≠ "" then g.mavname else Spec.Msg.snakeLower g.goName

theorem core_enum (i : Nat) (g : GoField) (t : FType) (hx : g.exported = true) (h1 : g.mavenum ≠ "")
    (h2 : g.elemIsUint64 = true) (h3 : Gen.fieldTypeFromGo g.mavenum = some t) (h4 : Gen.enumCapable t = true) :
    Spec.Msg.fieldOfGo i g = some { name := specName g, ty := t, arr := if g.isArray then some g.arrLen else none,
                                    ext := g.mavext == "true", idx := i } := by
  rw [InitSound.enumCapable_eq] at h4
  unfold Spec.Msg.fieldOfGo Spec.Msg.fieldOfGoCore specName
  simp only [hx, Bool.not_true, Bool.false_eq_true, if_false, h1, ne_eq, not_false_eq_true, if_true, h2, h3,
    Option.bind_eq_bind, Option.bind_some, h4, Option.pure_def]

theorem core_plain (i : Nat) (g : GoField) (t : FType) (hx : g.exported = true) (h1 : g.mavenum = "")
    (h2 : (g.elemType == "string") = false) (h3 : Gen.fieldTypeFromGo g.elemType = some t) :
    Spec.Msg.fieldOfGo i g = some { name := specName g, ty := t, arr := if g.isArray then some g.arrLen else none,
                                    ext := g.mavext == "true", idx := i } := by
  unfold Spec.Msg.fieldOfGo Spec.Msg.fieldOfGoCore specName
  simp only [hx, Bool.not_true, Bool.false_eq_true, if_false, h1, ne_eq, not_true_eq_false, h2, h3,
    Option.bind_eq_bind, Option.bind_some, Option.pure_def]

theorem core_char (i : Nat) (g : GoField) (hx : g.exported = true) (h1 : g.mavenum = "")
    (h2 : (g.elemType == "string") = true) (h3 : g.isArray = false) (h4 : g.mavlen = "") :
    Spec.Msg.fieldOfGo i g = some { name := specName g, ty := .char, arr := none, ext := g.mavext == "true", idx := i } := by
  unfold Spec.Msg.fieldOfGo Spec.Msg.fieldOfGoCore specName
  simp only [hx, Bool.not_true, Bool.false_eq_true, if_false, h1, ne_eq, not_true_eq_false, h2, if_true, h3, h4,
    beq_self_eq_true, Option.pure_def]

theorem core_string (i : Nat) (g : GoField) (n : Nat) (hx : g.exported = true) (h1 : g.mavenum = "")
    (h2 : (g.elemType == "string") = true) (h3 : g.isArray = false) (h4 : (g.mavlen == "") = false)
    (h5 : Spec.Msg.parseLen g.mavlen = some n) :
    Spec.Msg.fieldOfGo i g = some { name := specName g, ty := .char, arr := some n, ext := g.mavext == "true", idx := i } := by
  unfold Spec.Msg.fieldOfGo Spec.Msg.fieldOfGoCore specName
  simp only [hx, Bool.not_true, Bool.false_eq_true, if_false, h1, ne_eq, not_true_eq_false, h2, if_true, h3, h4, h5,
    Option.bind_eq_bind, Option.bind_some, Option.pure_def]

theorem spec_name_of_fields (g : GoField) (name : String) (hg : g.goName = defToGo name)
    (hm1 : (goToDef (defToGo name) != name) = true → g.mavname = name)
    (hm2 : (goToDef (defToGo name) != name) = false → g.mavname = "") (h : nameLetter name) : specName g = name := by
  obtain ⟨c, r, hs, hc⟩ := h
  have hne : name ≠ "" := by
    intro e; rw [e] at hs; simp at hs
  unfold specName
  by_cases hx : (goToDef (defToGo name) != name) = true
  · rw [hm1 hx]; simp [hne]
  · have hx' : (goToDef (defToGo name) != name) = false := by simpa using hx
    rw [hm2 hx', hg]
    simp only [ne_eq, not_true_eq_false, if_false]
    simp only [bne_iff_ne, ne_eq, Decidable.not_not] at hx
    rw [← LayoutLink.field_name_conv _ (defToGo_firstUpper name c r hs hc)]
    exact hx

theorem fieldOfGo_generated (f : AField) (ok : AFieldOk f) (i : Nat) :
    Spec.Msg.fieldOfGo i (mkField f.toX f.base.goType f.parts.1 f.parts.2.1 f.parts.2.2) = some (f.sfield i) := by
  have hname : specName (mkField f.toX f.base.goType f.parts.1 f.parts.2.1 f.parts.2.2) = f.name := by
    exact spec_name_of_fields _ f.name (by simp only [mkField, AField.toX]) (fun h => by simp only [mkField, AField.toX, h, if_true])
      (fun h => by simp only [mkField, AField.toX, h, Bool.false_eq_true, if_false]) ok.name
  have hext : ((mkField f.toX f.base.goType f.parts.1 f.parts.2.1 f.parts.2.2).mavext == "true") = f.ext := by
    simp only [mkField, AField.toX]; exact ext_tag f.ext
  have hexp : (mkField f.toX f.base.goType f.parts.1 f.parts.2.1 f.parts.2.2).exported = true := rfl
  by_cases he : f.enum = ""
  · have he1 : (f.enum != "") = false := by simp [he]
    have hme : (mkField f.toX f.base.goType f.parts.1 f.parts.2.1 f.parts.2.2).mavenum = "" := by
      simp [mkField, AField.toX, he]
    have het : (mkField f.toX f.base.goType f.parts.1 f.parts.2.1 f.parts.2.2).elemType = f.base.goType := by
      simp [mkField, AField.toX, he]
    by_cases hc : f.base = .char
    · have hstr : ((mkField f.toX f.base.goType f.parts.1 f.parts.2.1 f.parts.2.2).elemType == "string") = true := by
        rw [het, goType_string_iff]; simp [hc]
      cases ha : f.arr with
      | none =>
        have hp : f.parts = ("", "", 0) := by simp [AField.parts, ha]
        rw [core_char i _ hexp hme hstr (by simp [mkField, hp]) (by simp [mkField, hp]), hname, hext]
        simp [AField.sfield, ha, hc, XBase.ftype]
      | some n =>
        have hp : f.parts = ("", String.ofList (natToDec n), 0) := by simp [AField.parts, ha, hc]
        rw [core_string i _ n hexp hme hstr (by simp [mkField, hp])
          (by simp only [mkField, hp]; simpa using dec_ne_empty n) (by simp only [mkField, hp]; exact parseLen_dec n), hname, hext]
        simp [AField.sfield, ha, hc, XBase.ftype]
    · have hstr : ((mkField f.toX f.base.goType f.parts.1 f.parts.2.1 f.parts.2.2).elemType == "string") = false := by
        rw [het, goType_string_iff]; simp [hc]
      rw [core_plain i _ f.base.ftype hexp hme hstr (by rw [het]; exact fieldTypeFromGo_base f.base), hname, hext]
      cases ha : f.arr with
      | none => simp [AField.sfield, ha, mkField, AField.parts]
      | some n =>
        have : (String.ofList (natToDec n) != "") = true := by simpa using dec_ne_empty n
        simp [AField.sfield, ha, mkField, AField.parts, hc, this]
  · have he1 : (f.enum != "") = true := by simpa using he
    have hcap := ok.enum he
    have hc : f.base ≠ .char := by
      intro e; rw [e] at hcap; revert hcap; decide
    have hme : (mkField f.toX f.base.goType f.parts.1 f.parts.2.1 f.parts.2.2).mavenum = f.base.goType := by
      simp [mkField, AField.toX, he]
    rw [core_enum i _ f.base.ftype hexp (by rw [hme]; exact goType_ne_empty f.base) (by simp [mkField, AField.toX, he])
      (by rw [hme]; exact fieldTypeFromGo_base f.base) hcap, hname, hext]
    cases ha : f.arr with
    | none => simp [AField.sfield, ha, mkField, AField.parts]
    | some n =>
      have : (String.ofList (natToDec n) != "") = true := by simpa using dec_ne_empty n
      simp [AField.sfield, ha, mkField, AField.parts, hc, this]

/-! ### a whole message -/

structure AMsg where
  id : Nat
  name : String
  fields : List AField
deriving Repr

def AMsg.toX (m : AMsg) : XMsg := { id := m.id, name := m.name, fields := m.fields.map AField.toX }

def sfieldsFrom : Nat → List AField → List Spec.Msg.SField
  | _, [] => []
  | i, f :: r => f.sfield i :: sfieldsFrom (i + 1) r

/-- the definition, as the serialization guide sees it: no parsing, no Go -/
def AMsg.sdef (m : AMsg) : Spec.Msg.SDef := { name := m.name, fields := sfieldsFrom 0 m.fields }

/-- a valid <message>: name by the MAVLink rule, valid fields, extensions after the base fields, at most 255 bytes -/
structure AMsgOk (m : AMsg) : Prop where
  name : C18.msgNameRule m.name = true
  fields : ∀ f ∈ m.fields, AFieldOk f
  extLast : ((m.sdef.fields.dropWhile (!·.ext)).all (·.ext)) = true
  fits : Spec.Msg.sizeExt m.sdef ≤ 255

def genField (f : AField) : GoField := mkField f.toX f.base.goType f.parts.1 f.parts.2.1 f.parts.2.2

theorem mapM_processField (fs : List AField) (ok : ∀ f ∈ fs, AFieldOk f) :
    (fs.map AField.toX).mapM processField = some (fs.map genField) := by
  induction fs with
  | nil => rfl
  | cons f r ih =>
    have h1 := processField_abstract f (ok f List.mem_cons_self)
    have h2 := ih (fun g hg => ok g (List.mem_cons_of_mem _ hg))
    simp only [List.map_cons, List.mapM_cons, h1, h2, genField]
    rfl

theorem fieldsOfGo_generated : ∀ (fs : List AField) (i : Nat), (∀ f ∈ fs, AFieldOk f) →
    Spec.Msg.fieldsOfGo i (fs.map genField) = some (sfieldsFrom i fs) := by
  intro fs
  induction fs with
  | nil => intro i _; rfl
  | cons f r ih =>
    intro i ok
    have h1 := fieldOfGo_generated f (ok f List.mem_cons_self) i
    have h2 := ih (i + 1) (fun g hg => ok g (List.mem_cons_of_mem _ hg))
    simp only [List.map_cons, Spec.Msg.fieldsOfGo, genField] at h1 h2 ⊢
    simp [h1, h2, sfieldsFrom]

theorem mem_sfieldsFrom : ∀ (fs : List AField) (i : Nat) (sf : Spec.Msg.SField), sf ∈ sfieldsFrom i fs →
    ∃ f, f ∈ fs ∧ ∃ j, sf = f.sfield j := by
  intro fs
  induction fs with
  | nil => intro i sf h; cases h
  | cons f r ih =>
    intro i sf h
    simp only [sfieldsFrom, List.mem_cons] at h
    cases h with
    | inl h => exact ⟨f, List.mem_cons_self, i, h⟩
    | inr h =>
      obtain ⟨g, hg, j, hj⟩ := ih (i + 1) sf h
      exact ⟨g, List.mem_cons_of_mem _ hg, j, hj⟩

theorem prefix_ok (x : String) (hx : LayoutLink.firstUpper x) : hasMsgPrefix ("Message" ++ x) = true := by
  obtain ⟨c, r, hs, hc⟩ := hx
  simp [hasMsgPrefix, String.toList_append, hs, suffixUpper, hc]

theorem suffix_ok (x : String) : msgSuffix ("Message" ++ x) = x := by
  simp [msgSuffix, String.toList_append]

theorem msgNameRule_letter (s : String) (h : C18.msgNameRule s = true) : ∃ c r, s.toList = c :: r ∧ isLetter c = true := by
  unfold C18.msgNameRule at h
  cases hs : s.toList with
  | nil => rw [hs] at h; cases h
  | cons c r =>
    rw [hs] at h
    simp only [Bool.and_eq_true] at h
    exact ⟨c, r, rfl, by simp [isLetter, h.1]⟩

theorem msgNameOk_of_rule (s : String) (h : C18.msgNameRule s = true) : msgNameOk s = true := by
  unfold C18.msgNameRule at h
  unfold msgNameOk
  cases hs : s.toList with
  | nil => rw [hs] at h; cases h
  | cons c r =>
    rw [hs] at h
    simpa [C18.nameChar] using h

/-- **the generated struct IS the definition.** For every valid message definition: the generator model produces a struct, and
    the specification reads that struct as exactly the definition. -/
theorem generated_struct_is_the_definition (m : AMsg) (ok : AMsgOk m) :
    ∃ st, processMessage m.toX = some st ∧ Spec.Msg.ofGo st = some m.sdef ∧
      st.name = "Message" ++ defToGo m.name ∧ st.fields = m.fields.map genField := by
  refine ⟨{ name := "Message" ++ defToGo m.name, fields := m.fields.map genField }, ?_, ?_, rfl, rfl⟩
  · unfold processMessage
    simp only [AMsg.toX, msgNameOk_of_rule m.name ok.name, Bool.not_true, Bool.false_eq_true, if_false,
      mapM_processField m.fields ok.fields]
    rfl
  · unfold Spec.Msg.ofGo
    obtain ⟨c, r, hs, hc⟩ := msgNameRule_letter m.name ok.name
    have hname : Spec.Msg.snakeUpper (defToGo m.name) = m.name := by
      rw [← LayoutLink.msg_name_conv _ (defToGo_firstUpper m.name c r hs hc)]
      exact C18.msg_name_roundtrip m.name ok.name
    simp only [prefix_ok _ (defToGo_firstUpper m.name c r hs hc), Bool.not_true, Bool.false_eq_true, if_false, suffix_ok, hname,
      fieldsOfGo_generated m.fields 0 ok.fields, Option.bind_eq_bind, Option.bind_some]
    split
    · rfl
    · rename_i hneg
      refine absurd ?_ hneg
      rw [Bool.and_eq_true, Bool.and_eq_true]
      refine ⟨⟨ok.extLast, ?_⟩, by have := ok.fits; simp only [AMsg.sdef] at this; simpa using this⟩
      rw [List.all_eq_true]
      intro sf hm
      obtain ⟨f, hf, j, rfl⟩ := mem_sfieldsFrom m.fields 0 sf hm
      simp only [AField.sfield]
      cases ha : f.arr with
      | none => rfl
      | some n =>
        obtain ⟨lo, hi, _⟩ := (ok.fields f hf).arr n ha
        simp [lo, hi]

end Mav.GenLink
