import Mav.Model.Tlog
/- Helper lemmas for C20: timestamp arithmetic and the 8-byte big-endian packing. -/
namespace Mav
open Tlog

theorem tdiv_small (x : Int) (h1 : -1000000000 < x) (h2 : x < 1000000000) : x.tdiv 1000000000 = 0 := by
  by_cases hx : 0 ≤ x
  · exact Int.tdiv_eq_zero_of_lt hx h2
  · have : (-x).tdiv 1000000000 = 0 := Int.tdiv_eq_zero_of_lt (by omega) (by omega)
    rw [Int.neg_tdiv] at this
    omega

/--  For every 64-bit (indeed every integer) microsecond count, the time the reader builds with
    `time.Unix(e/1e6, (e%1e6)*1e3)` (Go's truncated `/` and `%`) has `UnixMicro() = e` — negative counts included. -/
theorem time_roundtrip' (e : Int) : unixMicro (timeOfEpoch e) = e := by
  have h1 := Int.mul_tdiv_add_tmod e 1000000
  have h2 : e.tmod 1000000 < 1000000 := Int.tmod_lt_of_pos e (by decide)
  have h3 : -1000000 < e.tmod 1000000 := Int.lt_tmod_of_pos e (by decide)
  unfold timeOfEpoch goUnix unixMicro
  generalize e.tdiv 1000000 = q at *
  generalize e.tmod 1000000 = r at *
  have hs := tdiv_small (r * 1000) (by omega) (by omega)
  by_cases hneg : r * 1000 < 0
  · have hc : r * 1000 < 0 ∨ r * 1000 ≥ 1000000000 := Or.inl hneg
    simp only [hc, if_true, hs]
    simp only [Int.add_zero, Int.zero_mul, Int.sub_zero, hneg, if_true]
    omega
  · have hc : ¬ (r * 1000 < 0 ∨ r * 1000 ≥ 1000000000) := by omega
    simp only [hc, if_false]
    omega

theorem be64_fold (x : UInt64) :
    (be64 x).foldl (fun (acc : UInt64) (b : UInt8) => (acc <<< (8 : UInt64)) ||| b.toUInt64) 0 = x := by
  apply UInt64.toBitVec_inj.mp
  simp [be64, -UInt64.toUInt64_toUInt8]
  apply BitVec.eq_of_getLsbD_eq
  intro i hi
  have hc : i = 0 ∨ i = 1 ∨ i = 2 ∨ i = 3 ∨ i = 4 ∨ i = 5 ∨ i = 6 ∨ i = 7 ∨ i = 8 ∨ i = 9 ∨ i = 10 ∨ i = 11 ∨ i = 12 ∨ i = 13 ∨ i = 14 ∨ i = 15 ∨ i = 16 ∨ i = 17 ∨ i = 18 ∨ i = 19 ∨ i = 20 ∨ i = 21 ∨ i = 22 ∨ i = 23 ∨ i = 24 ∨ i = 25 ∨ i = 26 ∨ i = 27 ∨ i = 28 ∨ i = 29 ∨ i = 30 ∨ i = 31 ∨ i = 32 ∨ i = 33 ∨ i = 34 ∨ i = 35 ∨ i = 36 ∨ i = 37 ∨ i = 38 ∨ i = 39 ∨ i = 40 ∨ i = 41 ∨ i = 42 ∨ i = 43 ∨ i = 44 ∨ i = 45 ∨ i = 46 ∨ i = 47 ∨ i = 48 ∨ i = 49 ∨ i = 50 ∨ i = 51 ∨ i = 52 ∨ i = 53 ∨ i = 54 ∨ i = 55 ∨ i = 56 ∨ i = 57 ∨ i = 58 ∨ i = 59 ∨ i = 60 ∨ i = 61 ∨ i = 62 ∨ i = 63 := by omega
  rcases hc with h|h|h|h|h|h|h|h|h|h|h|h|h|h|h|h|h|h|h|h|h|h|h|h|h|h|h|h|h|h|h|h|h|h|h|h|h|h|h|h|h|h|h|h|h|h|h|h|h|h|h|h|h|h|h|h|h|h|h|h|h|h|h|h <;> subst h <;> simp

theorem ts_bytes_roundtrip (e : Int) (h1 : -2^63 ≤ e) (h2 : e < 2^63) : int64OfBytes (int64Bytes e) = e := by
  unfold int64OfBytes int64Bytes
  rw [be64_fold, Int64.toInt64_toUInt64]
  exact Int64.toInt_ofInt_of_le h1 h2
end Mav
