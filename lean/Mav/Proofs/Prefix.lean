import Mav.Props.C05
import Mav.Model.Tlog
/- Helper lemmas: frame byte strings are prefix-free; a strict prefix of a frame never parses as a frame. -/
namespace Mav
open Spec Tlog

/-- the first bytes of a well-formed frame determine its length -/
def frameLen : Frame → Nat
  | .v1 f => match f.msg with | .raw _ p => 8 + p.length | _ => 0
  | .v2 f => match f.msg with | .raw _ p => (if f.incompat = 1 then 25 else 12) + p.length | _ => 0

theorem specBytes_length (f : Frame) (h : WF f) : (specBytes f).length = frameLen f := by
  cases f with
  | v1 g =>
    cases hm : g.msg with
    | dec id v => simp [WF, wfb, hm] at h
    | raw id p => simp [specBytes, v1Bytes, hm, frameLen, le16]; omega
  | v2 g =>
    cases hm : g.msg with
    | dec id v => simp [WF, wfb, hm] at h
    | raw id p =>
      simp [WF, wfb, hm] at h
      rcases h.2 with ⟨⟨⟨hic, hs⟩, _⟩, _⟩ | ⟨⟨hic, _⟩, hs⟩
      · simp [specBytes, v2Bytes, hm, frameLen, le16, le24, hic, hs]; omega
      · cases hsg : g.sig with
        | none => simp [hsg] at hs
        | some s =>
          simp [hsg] at hs
          simp [specBytes, v2Bytes, hm, frameLen, le16, le24, le48, hic, hsg, hs]; omega

theorem ofNat_inj_255 (a b : Nat) (ha : a ≤ 255) (hb : b ≤ 255) (h : UInt8.ofNat a = UInt8.ofNat b) : a = b := by
  have := congrArg UInt8.toNat h
  simp at this
  omega

/-- prefix-freeness: if the bytes of one well-formed frame are a prefix of another's, they have the same length -/
theorem prefix_same_len (f g : Frame) (hf : WF f) (hg : WF g) (h : specBytes g <+: specBytes f) :
    frameLen g = frameLen f := by
  cases f with
  | v1 a =>
    cases ha : a.msg with
    | dec id v => simp [WF, wfb, ha] at hf
    | raw ida pa =>
      simp [WF, wfb, ha] at hf
      cases g with
      | v1 b =>
        cases hb : b.msg with
        | dec id v => simp [WF, wfb, hb] at hg
        | raw idb pb =>
          simp [WF, wfb, hb] at hg
          simp [specBytes, v1Bytes, ha, hb, List.cons_prefix_cons] at h
          have := ofNat_inj_255 _ _ hg.2 hf.2 h.1
          simp [frameLen, ha, hb, this]
      | v2 b =>
        cases hb : b.msg with
        | dec id v => simp [WF, wfb, hb] at hg
        | raw idb pb => simp [specBytes, v1Bytes, v2Bytes, ha, hb, List.cons_prefix_cons] at h
  | v2 a =>
    cases ha : a.msg with
    | dec id v => simp [WF, wfb, ha] at hf
    | raw ida pa =>
      simp [WF, wfb, ha] at hf
      cases g with
      | v1 b =>
        cases hb : b.msg with
        | dec id v => simp [WF, wfb, hb] at hg
        | raw idb pb => simp [specBytes, v1Bytes, v2Bytes, ha, hb, List.cons_prefix_cons] at h
      | v2 b =>
        cases hb : b.msg with
        | dec id v => simp [WF, wfb, hb] at hg
        | raw idb pb =>
          simp [WF, wfb, hb] at hg
          simp [specBytes, v2Bytes, ha, hb, List.cons_prefix_cons] at h
          have := ofNat_inj_255 _ _ hg.1.2 hf.1.2 h.1
          simp [frameLen, ha, hb, this, h.2.1]

theorem items_inj (a b : Bytes) (h : bytesToItems a = bytesToItems b) : a = b := by
  induction a generalizing b with
  | nil => cases b <;> simp_all [bytesToItems]
  | cons x r ih =>
    cases b with
    | nil => simp [bytesToItems] at h
    | cons y s => simp [bytesToItems] at h; rw [h.1, ih s (by simpa [bytesToItems] using h.2)]

theorem items_prefix (a b : Bytes) (rest : Stream) (h : bytesToItems a = bytesToItems b ++ rest) : b <+: a := by
  induction b generalizing a with
  | nil => exact List.nil_prefix
  | cons y s ih =>
    cases a with
    | nil => simp [bytesToItems] at h
    | cons x r =>
      simp only [bytesToItems_cons, List.cons_append, List.cons.injEq, Item.b.injEq] at h
      rw [h.1, List.cons_prefix_cons]
      exact ⟨rfl, ih r h.2⟩

/-- reading a strict prefix of a well-formed frame's bytes never yields a frame -/
theorem prefix_not_frame (H : Bytes → Bytes) (f : Frame) (hf : WF f) (j : Nat) (hj : j < (specBytes f).length)
    (st : RState) (g : Frame) (rest : Stream) (st' : RState) :
    readOne (C01.plainCfg H) st (bytesToItems ((specBytes f).take j)) ≠ (.frame g, rest, st') := by
  intro h
  obtain ⟨hg, hs, _⟩ := C05.frame_matches_consumed H st st' _ rest g h
  have hp : specBytes g <+: (specBytes f).take j := items_prefix _ _ rest hs
  have hp2 : specBytes g <+: specBytes f := hp.trans (List.take_prefix j _)
  have hl := prefix_same_len f g hf hg hp2
  have h1 := specBytes_length f hf
  have h2 := specBytes_length g hg
  have h3 := hp.length_le
  simp at h3
  omega
end Mav
