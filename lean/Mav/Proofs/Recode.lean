import Mav.Proofs.Codec2
import Mav.Proofs.LeBytes
/-
  Re-encoding what was decoded (C08, hypothesis `CodecConsistent` of the forwarding theorem): for a layout whose sizes did not
  wrap (`RWok`) and whose field indexes are distinct positions of the struct (`IdxOk`), the value list `Read` returns is
  well-typed and already canonical, so `Write` of it succeeds and `Read` of that gives the same value list back.
-/
namespace Mav.Msg

/-! ### decoding, field by field -/

/-- the values `decFields` decodes, in field order -/
def decVals : List DField → Bytes → Option (List FVal)
  | [], _ => some []
  | f :: r, buf =>
    match decField f buf with
    | none => none
    | some (v, buf') => (decVals r buf').map (v :: ·)

def setAll (ps : List (DField × FVal)) (acc : List FVal) : List FVal :=
  ps.foldl (fun a p => setAt a p.1.index p.2) acc

theorem decFields_eq : ∀ (fs : List DField) (buf : Bytes) (acc : List FVal),
    decFields fs buf acc = (decVals fs buf).map (fun vs => setAll (fs.zip vs) acc) := by
  intro fs
  induction fs with
  | nil => intro buf acc; rfl
  | cons f r ih =>
    intro buf acc
    simp only [decFields, decVals]
    cases hd : decField f buf with
    | none => rfl
    | some p =>
      obtain ⟨v, buf'⟩ := p
      simp only
      rw [ih]
      cases decVals r buf' with
      | none => rfl
      | some vs => simp [setAll]

theorem decVals_length : ∀ (fs : List DField) (buf : Bytes) (vs : List FVal), decVals fs buf = some vs → vs.length = fs.length := by
  intro fs
  induction fs with
  | nil => intro buf vs h; simp [decVals] at h; subst h; rfl
  | cons f r ih =>
    intro buf vs h
    simp only [decVals] at h
    cases hd : decField f buf with
    | none => simp [hd] at h
    | some p =>
      obtain ⟨v, buf'⟩ := p
      simp only [hd] at h
      cases hr : decVals r buf' with
      | none => simp [hr] at h
      | some vs' =>
        simp only [hr, Option.map_some, Option.some.injEq] at h
        subst h
        simp [ih buf' vs' hr]

/-! ### what one decoded field looks like -/

theorem decElems_shape (w : Nat) : ∀ (n : Nat) (buf : Bytes) (xs : List UInt64) (r : Bytes),
    decElems w n buf = some (xs, r) → xs.length = n ∧ ∀ x ∈ xs, ∃ bs : Bytes, bs.length = w ∧ x = unLeN bs := by
  intro n
  induction n with
  | zero => intro buf xs r h; simp [decElems] at h; obtain ⟨h1, _⟩ := h; subst h1; simp
  | succ n ih =>
    intro buf xs r h
    simp only [decElems] at h
    split at h
    · cases h
    · rename_i hlen
      cases hr : decElems w n (buf.drop w) with
      | none => simp [hr] at h
      | some p =>
        obtain ⟨ys, r'⟩ := p
        simp only [hr, Option.some.injEq, Prod.mk.injEq] at h
        obtain ⟨h1, _⟩ := h
        subst h1
        obtain ⟨hl, hx⟩ := ih _ ys r' hr
        refine ⟨by simp [hl], ?_⟩
        intro x hm
        simp only [List.mem_cons] at hm
        cases hm with
        | inl h0 => exact ⟨buf.take w, by simp [List.length_take]; omega, h0⟩
        | inr h0 => exact hx x h0

/-! ### a decoded number is already reduced to its width -/

theorem unLeN_lt : ∀ (bs : Bytes), bs.length ≤ 8 → (unLeN bs).toNat < 2 ^ (8 * bs.length) := by
  intro bs
  induction bs with
  | nil => intro _; simp [unLeN]
  | cons b r ih =>
    intro hl
    have hr : r.length ≤ 8 := by simp at hl; omega
    have ihr := ih hr
    have hb : b.toUInt64.toNat < 2 ^ 8 := by
      have := b.toNat_lt
      simpa using this
    show ((unLeN r <<< 8) ||| b.toUInt64).toNat < _
    rw [UInt64.toNat_or, UInt64.toNat_shiftLeft]
    simp only [List.length_cons]
    have hlen : r.length + 1 ≤ 8 := by simpa using hl
    have h1 : (unLeN r).toNat <<< (8 % 64) % 2 ^ 64 < 2 ^ (8 * (r.length + 1)) := by
      have e : (8 : UInt64).toNat % 64 = 8 := by decide
      have : (unLeN r).toNat <<< 8 < 2 ^ (8 * (r.length + 1)) := by
        rw [Nat.shiftLeft_eq]
        have : 2 ^ (8 * (r.length + 1)) = 2 ^ (8 * r.length) * 2 ^ 8 := by
          rw [← Nat.pow_add]; rfl
        rw [this]
        exact Nat.mul_lt_mul_of_pos_right ihr (by decide)
      exact Nat.lt_of_le_of_lt (Nat.mod_le _ _) this
    have h2 : b.toUInt64.toNat < 2 ^ (8 * (r.length + 1)) :=
      Nat.lt_of_lt_of_le hb (Nat.pow_le_pow_right (by decide) (by omega))
    exact Nat.or_lt_two_pow (by simpa using h1) h2

theorem and_mask_of_lt (x : UInt64) (k : Nat) (_hk : k ≤ 64) (m : UInt64) (hm : m.toNat = 2 ^ k - 1) (h : x.toNat < 2 ^ k) :
    x &&& m = x := by
  apply UInt64.toNat_inj.mp
  rw [UInt64.toNat_and, hm, Nat.and_two_pow_sub_one_eq_mod, Nat.mod_eq_of_lt h]

theorem maskW_unLeN (w : Nat) (hw : w = 1 ∨ w = 2 ∨ w = 4 ∨ w = 8) (bs : Bytes) (hl : bs.length = w) :
    maskW w (unLeN bs) = unLeN bs := by
  have hlt := unLeN_lt bs (by rcases hw with h | h | h | h <;> omega)
  rw [hl] at hlt
  rcases hw with h | h | h | h <;> subst h
  · simp only [maskW, if_true]
    exact and_mask_of_lt _ 8 (by decide) _ (by decide) hlt
  · simp only [maskW, show (2 : Nat) ≠ 1 by decide, if_false, if_true]
    exact and_mask_of_lt _ 16 (by decide) _ (by decide) hlt
  · simp only [maskW, show (4 : Nat) ≠ 1 by decide, show (4 : Nat) ≠ 2 by decide, if_false, if_true]
    exact and_mask_of_lt _ 32 (by decide) _ (by decide) hlt
  · simp [maskW]

/-! ### a decoded field value is well-typed and canonical -/

theorem takeWhile_idem {α} (p : α → Bool) (l : List α) : (l.takeWhile p).takeWhile p = l.takeWhile p := by
  induction l with
  | nil => rfl
  | cons x r ih =>
    by_cases hx : p x = true
    · simp [List.takeWhile_cons, hx, ih]
    · simp [List.takeWhile_cons, hx]

theorem takeWhile_length_le {α} (p : α → Bool) (l : List α) : (l.takeWhile p).length ≤ l.length := by
  induction l with
  | nil => simp
  | cons x r ih =>
    by_cases hx : p x = true
    · simp [List.takeWhile_cons, hx]; omega
    · simp [List.takeWhile_cons, hx]

theorem decField_canonical (f : DField) (buf : Bytes) (v : FVal) (buf' : Bytes) (h : decField f buf = some (v, buf')) :
    wellTyped f v = true ∧ canonF f v = v := by
  unfold decField at h
  by_cases hs : (f.ftype == .char && !f.isEnum) = true
  · rw [if_pos hs] at h
    unfold decString at h
    simp only at h
    split at h
    · cases h
    · simp only [Option.some.injEq, Prod.mk.injEq] at h
      obtain ⟨h1, _⟩ := h
      subst h1
      refine ⟨hs, ?_⟩
      simp only [canonF, FVal.str.injEq]
      have hl : ((buf.take f.arrayLength.toNat).takeWhile (· != 0)).length ≤ f.arrayLength.toNat :=
        Nat.le_trans (takeWhile_length_le _ _) (by simp [List.length_take]; omega)
      rw [List.take_of_length_le hl, takeWhile_idem]
  · have hs' : (f.ftype == .char && !f.isEnum) = false := by simpa using hs
    rw [if_neg hs] at h
    cases hd : decElems (Gen.fieldTypeSizes f.ftype).toNat (if f.goIsArray then f.goArrLen else 1) buf with
    | none => rw [hd] at h; cases h
    | some p =>
      obtain ⟨xs, r⟩ := p
      rw [hd] at h
      simp only [Option.some.injEq, Prod.mk.injEq] at h
      obtain ⟨h1, _⟩ := h
      subst h1
      obtain ⟨hlen, hx⟩ := decElems_shape _ _ _ _ _ hd
      refine ⟨?_, ?_⟩
      · simp only [wellTyped, isStr, hs', Bool.not_false, Bool.true_and, beq_iff_eq, nElems]
        exact hlen
      · simp only [canonF, FVal.num.injEq]
        have ht : xs.take (nElems f) = xs := by
          apply List.take_of_length_le
          unfold nElems; omega
        rw [ht]
        conv => rhs; rw [← List.map_id xs]
        apply List.map_congr_left
        intro x hm
        obtain ⟨bs, hb, rfl⟩ := hx x hm
        exact maskW_unLeN (width f) (width_cases f.ftype) bs hb

theorem decVals_canonical : ∀ (fs : List DField) (buf : Bytes) (vs : List FVal), decVals fs buf = some vs →
    ∀ p ∈ fs.zip vs, wellTyped p.1 p.2 = true ∧ canonF p.1 p.2 = p.2 := by
  intro fs
  induction fs with
  | nil => intro buf vs h p hp; simp at hp
  | cons f r ih =>
    intro buf vs h p hp
    simp only [decVals] at h
    cases hd : decField f buf with
    | none => simp [hd] at h
    | some q =>
      obtain ⟨v, buf'⟩ := q
      simp only [hd] at h
      cases hr : decVals r buf' with
      | none => simp [hr] at h
      | some vs' =>
        simp only [hr, Option.map_some, Option.some.injEq] at h
        subst h
        simp only [List.zip_cons_cons, List.mem_cons] at hp
        cases hp with
        | inl h0 => subst h0; exact decField_canonical f buf v buf' hd
        | inr h0 => exact ih buf' vs' hr p h0

/-! ### positions: a list written field by field at distinct indexes -/

def IdxOk (fs : List DField) (n : Nat) : Prop := (fs.map (·.index)).Nodup ∧ ∀ f ∈ fs, f.index < n

theorem setAll_length (ps : List (DField × FVal)) (acc : List FVal) : (setAll ps acc).length = acc.length := by
  induction ps generalizing acc with
  | nil => rfl
  | cons q r ih => simp only [setAll, List.foldl_cons] at ih ⊢; rw [ih]; simp [setAt]

theorem setAll_untouched (ps : List (DField × FVal)) (acc : List FVal) (i : Nat) (h : i ∉ ps.map (·.1.index)) :
    valAt (setAll ps acc) i = valAt acc i := by
  induction ps generalizing acc with
  | nil => rfl
  | cons q r ih =>
    simp only [List.map_cons, List.mem_cons, not_or] at h
    simp only [setAll, List.foldl_cons] at ih ⊢
    rw [ih _ h.2]
    simp only [valAt, setAt, List.getD_eq_getElem?_getD]
    rw [List.getElem?_set_ne (Ne.symm h.1)]

theorem setAll_get (ps : List (DField × FVal)) (acc : List FVal) (hnd : (ps.map (·.1.index)).Nodup)
    (hlt : ∀ p ∈ ps, p.1.index < acc.length) : ∀ p ∈ ps, valAt (setAll ps acc) p.1.index = p.2 := by
  induction ps generalizing acc with
  | nil => intro p hp; cases hp
  | cons q r ih =>
    intro p hp
    simp only [List.map_cons, List.nodup_cons] at hnd
    simp only [setAll, List.foldl_cons]
    cases hp with
    | head =>
      have := setAll_untouched r (setAt acc q.1.index q.2) q.1.index hnd.1
      simp only [setAll] at this
      rw [this]
      have hq := hlt q List.mem_cons_self
      simp [valAt, setAt, List.getD_eq_getElem?_getD, hq]
    | tail _ hm =>
      have := ih (setAt acc q.1.index q.2) hnd.2 (by
        intro x hx; simp only [setAt, List.length_set]; exact hlt x (List.mem_cons_of_mem _ hx)) p hm
      simpa [setAll] using this

theorem setAll_eq_foldl (g : DField → FVal) : ∀ (fs : List DField) (vs : List FVal) (acc : List FVal), vs.length = fs.length →
    (∀ p ∈ fs.zip vs, g p.1 = p.2) → setAll (fs.zip vs) acc = fs.foldl (fun a f => setAt a f.index (g f)) acc := by
  intro fs
  induction fs with
  | nil => intro vs acc _ _; rfl
  | cons f r ih =>
    intro vs acc hl hg
    cases vs with
    | nil => simp at hl
    | cons v vs' =>
      simp only [List.zip_cons_cons, setAll, List.foldl_cons]
      have h0 : g f = v := hg (f, v) (by simp)
      rw [h0]
      have := ih vs' (setAt acc f.index v) (by simpa using hl) (fun p hp => hg p (by simp [hp]))
      simpa [setAll] using this

theorem mem_zip_of_mem_left : ∀ (fs : List DField) (vs : List FVal), vs.length = fs.length → ∀ f ∈ fs, ∃ v, (f, v) ∈ fs.zip vs := by
  intro fs
  induction fs with
  | nil => intro vs _ f hf; cases hf
  | cons g r ih =>
    intro vs hl f hf
    cases vs with
    | nil => simp at hl
    | cons v vs' =>
      cases hf with
      | head => exact ⟨v, by simp⟩
      | tail _ hm =>
        obtain ⟨w, hw⟩ := ih vs' (by simpa using hl) f hm
        exact ⟨w, by simp [hw]⟩

theorem zip_map_index : ∀ (fs : List DField) (vs : List FVal), vs.length = fs.length →
    (fs.zip vs).map (·.1.index) = fs.map (·.index) := by
  intro fs
  induction fs with
  | nil => intro vs _; rfl
  | cons f r ih =>
    intro vs hl
    cases vs with
    | nil => simp at hl
    | cons v vs' => simp [ih vs' (by simpa using hl)]

/-- **what `Read` returns is a fixed point of canonicalisation**: every field of the decoded list is well-typed, and setting every
    field to the canonical form of its own value gives the same list back -/
theorem decoded_fixed (fs : List DField) (z : List FVal) (buf : Bytes) (v : List FVal) (hidx : IdxOk fs z.length)
    (h : decFields fs buf z = some v) :
    (∀ f ∈ fs, wellTyped f (valAt v f.index) = true) ∧
      fs.foldl (fun a f => setAt a f.index (canonF f (valAt v f.index))) z = v := by
  rw [decFields_eq] at h
  cases hv : decVals fs buf with
  | none => simp [hv] at h
  | some vs =>
    simp only [hv, Option.map_some, Option.some.injEq] at h
    have hl := decVals_length fs buf vs hv
    have hcan := decVals_canonical fs buf vs hv
    have hmap : (fs.zip vs).map (·.1.index) = fs.map (·.index) := zip_map_index fs vs hl
    have hget := setAll_get (fs.zip vs) z (by rw [hmap]; exact hidx.1)
      (by intro p hp; exact hidx.2 p.1 (List.of_mem_zip hp).1)
    rw [h] at hget
    constructor
    · intro f hf
      obtain ⟨w, hw⟩ := mem_zip_of_mem_left fs vs hl f hf
      have := hget (f, w) hw
      simp only at this
      rw [this]
      exact (hcan (f, w) hw).1
    · rw [← h]
      symm
      apply setAll_eq_foldl _ fs vs z hl
      intro p hp
      have h1 := hget p hp
      rw [h] 
      rw [h1]
      exact (hcan p hp).2

end Mav.Msg
