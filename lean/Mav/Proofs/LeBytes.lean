import Mav.Model.Msg
/- little-endian element codec of pkg/message (writeValue / readValue): decode ∘ encode = reduction to the wire width -/
namespace Mav.Msg

set_option maxRecDepth 4000 in
theorem unLeN_leN8 (x : UInt64) : unLeN (leN 8 x) = x := by
  apply UInt64.toBitVec_inj.mp
  simp [leN, unLeN, List.range, List.range.loop, -UInt64.toUInt64_toUInt8]
  apply BitVec.eq_of_getLsbD_eq
  intro i hi
  have hc : i = 0 ∨ i = 1 ∨ i = 2 ∨ i = 3 ∨ i = 4 ∨ i = 5 ∨ i = 6 ∨ i = 7 ∨ i = 8 ∨ i = 9 ∨ i = 10 ∨ i = 11 ∨ i = 12 ∨ i = 13 ∨ i = 14 ∨ i = 15 ∨ i = 16 ∨ i = 17 ∨ i = 18 ∨ i = 19 ∨ i = 20 ∨ i = 21 ∨ i = 22 ∨ i = 23 ∨ i = 24 ∨ i = 25 ∨ i = 26 ∨ i = 27 ∨ i = 28 ∨ i = 29 ∨ i = 30 ∨ i = 31 ∨ i = 32 ∨ i = 33 ∨ i = 34 ∨ i = 35 ∨ i = 36 ∨ i = 37 ∨ i = 38 ∨ i = 39 ∨ i = 40 ∨ i = 41 ∨ i = 42 ∨ i = 43 ∨ i = 44 ∨ i = 45 ∨ i = 46 ∨ i = 47 ∨ i = 48 ∨ i = 49 ∨ i = 50 ∨ i = 51 ∨ i = 52 ∨ i = 53 ∨ i = 54 ∨ i = 55 ∨ i = 56 ∨ i = 57 ∨ i = 58 ∨ i = 59 ∨ i = 60 ∨ i = 61 ∨ i = 62 ∨ i = 63 := by omega
  rcases hc with h|h|h|h|h|h|h|h|h|h|h|h|h|h|h|h|h|h|h|h|h|h|h|h|h|h|h|h|h|h|h|h|h|h|h|h|h|h|h|h|h|h|h|h|h|h|h|h|h|h|h|h|h|h|h|h|h|h|h|h|h|h|h|h <;> subst h <;> simp

set_option maxRecDepth 4000 in
theorem unLeN_leN4 (x : UInt64) : unLeN (leN 4 x) = x &&& 0xFFFFFFFF := by
  apply UInt64.toBitVec_inj.mp
  simp [leN, unLeN, List.range, List.range.loop, -UInt64.toUInt64_toUInt8]
  apply BitVec.eq_of_getLsbD_eq
  intro i hi
  have hc : i = 0 ∨ i = 1 ∨ i = 2 ∨ i = 3 ∨ i = 4 ∨ i = 5 ∨ i = 6 ∨ i = 7 ∨ i = 8 ∨ i = 9 ∨ i = 10 ∨ i = 11 ∨ i = 12 ∨ i = 13 ∨ i = 14 ∨ i = 15 ∨ i = 16 ∨ i = 17 ∨ i = 18 ∨ i = 19 ∨ i = 20 ∨ i = 21 ∨ i = 22 ∨ i = 23 ∨ i = 24 ∨ i = 25 ∨ i = 26 ∨ i = 27 ∨ i = 28 ∨ i = 29 ∨ i = 30 ∨ i = 31 ∨ i = 32 ∨ i = 33 ∨ i = 34 ∨ i = 35 ∨ i = 36 ∨ i = 37 ∨ i = 38 ∨ i = 39 ∨ i = 40 ∨ i = 41 ∨ i = 42 ∨ i = 43 ∨ i = 44 ∨ i = 45 ∨ i = 46 ∨ i = 47 ∨ i = 48 ∨ i = 49 ∨ i = 50 ∨ i = 51 ∨ i = 52 ∨ i = 53 ∨ i = 54 ∨ i = 55 ∨ i = 56 ∨ i = 57 ∨ i = 58 ∨ i = 59 ∨ i = 60 ∨ i = 61 ∨ i = 62 ∨ i = 63 := by omega
  rcases hc with h|h|h|h|h|h|h|h|h|h|h|h|h|h|h|h|h|h|h|h|h|h|h|h|h|h|h|h|h|h|h|h|h|h|h|h|h|h|h|h|h|h|h|h|h|h|h|h|h|h|h|h|h|h|h|h|h|h|h|h|h|h|h|h <;> subst h <;> simp

set_option maxRecDepth 4000 in
theorem unLeN_leN2 (x : UInt64) : unLeN (leN 2 x) = x &&& 0xFFFF := by
  apply UInt64.toBitVec_inj.mp
  simp [leN, unLeN, List.range, List.range.loop, -UInt64.toUInt64_toUInt8]
  apply BitVec.eq_of_getLsbD_eq
  intro i hi
  have hc : i = 0 ∨ i = 1 ∨ i = 2 ∨ i = 3 ∨ i = 4 ∨ i = 5 ∨ i = 6 ∨ i = 7 ∨ i = 8 ∨ i = 9 ∨ i = 10 ∨ i = 11 ∨ i = 12 ∨ i = 13 ∨ i = 14 ∨ i = 15 ∨ i = 16 ∨ i = 17 ∨ i = 18 ∨ i = 19 ∨ i = 20 ∨ i = 21 ∨ i = 22 ∨ i = 23 ∨ i = 24 ∨ i = 25 ∨ i = 26 ∨ i = 27 ∨ i = 28 ∨ i = 29 ∨ i = 30 ∨ i = 31 ∨ i = 32 ∨ i = 33 ∨ i = 34 ∨ i = 35 ∨ i = 36 ∨ i = 37 ∨ i = 38 ∨ i = 39 ∨ i = 40 ∨ i = 41 ∨ i = 42 ∨ i = 43 ∨ i = 44 ∨ i = 45 ∨ i = 46 ∨ i = 47 ∨ i = 48 ∨ i = 49 ∨ i = 50 ∨ i = 51 ∨ i = 52 ∨ i = 53 ∨ i = 54 ∨ i = 55 ∨ i = 56 ∨ i = 57 ∨ i = 58 ∨ i = 59 ∨ i = 60 ∨ i = 61 ∨ i = 62 ∨ i = 63 := by omega
  rcases hc with h|h|h|h|h|h|h|h|h|h|h|h|h|h|h|h|h|h|h|h|h|h|h|h|h|h|h|h|h|h|h|h|h|h|h|h|h|h|h|h|h|h|h|h|h|h|h|h|h|h|h|h|h|h|h|h|h|h|h|h|h|h|h|h <;> subst h <;> simp

set_option maxRecDepth 4000 in
theorem unLeN_leN1 (x : UInt64) : unLeN (leN 1 x) = x &&& 0xFF := by
  apply UInt64.toBitVec_inj.mp
  simp [leN, unLeN, List.range, List.range.loop, -UInt64.toUInt64_toUInt8]
  apply BitVec.eq_of_getLsbD_eq
  intro i hi
  have hc : i = 0 ∨ i = 1 ∨ i = 2 ∨ i = 3 ∨ i = 4 ∨ i = 5 ∨ i = 6 ∨ i = 7 ∨ i = 8 ∨ i = 9 ∨ i = 10 ∨ i = 11 ∨ i = 12 ∨ i = 13 ∨ i = 14 ∨ i = 15 ∨ i = 16 ∨ i = 17 ∨ i = 18 ∨ i = 19 ∨ i = 20 ∨ i = 21 ∨ i = 22 ∨ i = 23 ∨ i = 24 ∨ i = 25 ∨ i = 26 ∨ i = 27 ∨ i = 28 ∨ i = 29 ∨ i = 30 ∨ i = 31 ∨ i = 32 ∨ i = 33 ∨ i = 34 ∨ i = 35 ∨ i = 36 ∨ i = 37 ∨ i = 38 ∨ i = 39 ∨ i = 40 ∨ i = 41 ∨ i = 42 ∨ i = 43 ∨ i = 44 ∨ i = 45 ∨ i = 46 ∨ i = 47 ∨ i = 48 ∨ i = 49 ∨ i = 50 ∨ i = 51 ∨ i = 52 ∨ i = 53 ∨ i = 54 ∨ i = 55 ∨ i = 56 ∨ i = 57 ∨ i = 58 ∨ i = 59 ∨ i = 60 ∨ i = 61 ∨ i = 62 ∨ i = 63 := by omega
  rcases hc with h|h|h|h|h|h|h|h|h|h|h|h|h|h|h|h|h|h|h|h|h|h|h|h|h|h|h|h|h|h|h|h|h|h|h|h|h|h|h|h|h|h|h|h|h|h|h|h|h|h|h|h|h|h|h|h|h|h|h|h|h|h|h|h <;> subst h <;> simp

/-- the canonical form the wire imposes on a numeric element of width w bytes -/
def maskW (w : Nat) (x : UInt64) : UInt64 :=
  if w = 1 then x &&& 0xFF else if w = 2 then x &&& 0xFFFF else if w = 4 then x &&& 0xFFFFFFFF else x

theorem unLeN_leN (w : Nat) (hw : w = 1 ∨ w = 2 ∨ w = 4 ∨ w = 8) (x : UInt64) : unLeN (leN w x) = maskW w x := by
  rcases hw with h | h | h | h <;> subst h
  · exact unLeN_leN1 x
  · exact unLeN_leN2 x
  · exact unLeN_leN4 x
  · exact unLeN_leN8 x

theorem leN_length (w : Nat) (x : UInt64) : (leN w x).length = w := by simp [leN]

theorem width_cases (t : Gen.FType) : (Gen.fieldTypeSizes t).toNat = 1 ∨ (Gen.fieldTypeSizes t).toNat = 2 ∨
    (Gen.fieldTypeSizes t).toNat = 4 ∨ (Gen.fieldTypeSizes t).toNat = 8 := by
  cases t <;> simp [Gen.fieldTypeSizes]
end Mav.Msg
