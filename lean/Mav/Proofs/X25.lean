import Mav.Spec.Crc
import Mav.Gen.Exprs
namespace Mav
open Spec

theorem xor_cancel (a b p : BitVec 16) : a ^^^ p ^^^ b ^^^ p = a ^^^ b := by
  rw [BitVec.xor_assoc a p b, BitVec.xor_comm p b, ← BitVec.xor_assoc, BitVec.xor_assoc (a ^^^ b),
    BitVec.xor_self, BitVec.xor_zero]

theorem crcBit_xor (x y : BitVec 16) : crcBit (x ^^^ y) = crcBit x ^^^ crcBit y := by
  unfold crcBit
  simp only [BitVec.getLsbD_xor, BitVec.ushiftRight_xor_distrib]
  cases x.getLsbD 0 <;> cases y.getLsbD 0 <;> simp
  · ac_rfl
  · ac_rfl
  · rw [← BitVec.xor_assoc]; exact (xor_cancel _ _ _).symm

theorem crcBit8_xor (x y : BitVec 16) : crcBit8 (x ^^^ y) = crcBit8 x ^^^ crcBit8 y := by
  simp only [crcBit8, crcBit_xor]

/-- the model's byte step, on bit vectors -/
def stepBV (c : BitVec 16) (b : BitVec 8) : BitVec 16 :=
  (Gen.x25Step ⟨c⟩ ⟨b⟩).toBitVec

theorem hi_part (h : BitVec 8) : crcBit8 (h.zeroExtend 16 <<< 8) = h.zeroExtend 16 := by
  revert h; decide


def stepB (c : BitVec 16) (b : BitVec 8) : BitVec 16 :=
  let t := (b.setWidth 16 ^^^ (c &&& 0xFF#16))
  let t2 := (t ^^^ t <<< 4) &&& 0xFF#16
  (c >>> 8) ^^^ (t2 <<< 8) ^^^ (t2 <<< 3) ^^^ (t2 >>> 4)

theorem stepBV_eq (c : BitVec 16) (b : BitVec 8) : stepBV c b = stepB c b := by
  simp [stepBV, Gen.x25Step, stepB]

macro "cases16 " i:ident : tactic =>
  `(tactic| (
    have hcases : $i = 0 ∨ $i = 1 ∨ $i = 2 ∨ $i = 3 ∨ $i = 4 ∨ $i = 5 ∨ $i = 6 ∨ $i = 7 ∨
      $i = 8 ∨ $i = 9 ∨ $i = 10 ∨ $i = 11 ∨ $i = 12 ∨ $i = 13 ∨ $i = 14 ∨ $i = 15 := by omega
    rcases hcases with h|h|h|h|h|h|h|h|h|h|h|h|h|h|h|h <;> subst h))

/-- the model step only depends on `c >>> 8` and on the byte `trunc c ^^^ b` -/
theorem stepB_split (c : BitVec 16) (b : BitVec 8) :
    stepB c b = (c >>> 8) ^^^ stepB 0 (c.setWidth 8 ^^^ b) := by
  have h : b.setWidth 16 ^^^ (c &&& 0xFF#16) = (c.setWidth 8 ^^^ b).setWidth 16 := by
    apply BitVec.eq_of_getLsbD_eq; intro i _hi
    cases16 i <;> simp [Bool.xor_comm]
  simp [stepB, h]
  ac_rfl

theorem lo_part : ∀ t : BitVec 8, crcBit8 (t.setWidth 16) = stepB 0 t := by decide

theorem crcByte_split (c : BitVec 16) (b : BitVec 8) :
    crcByte c b = (c >>> 8) ^^^ crcBit8 ((c.setWidth 8 ^^^ b).setWidth 16) := by
  have h : c ^^^ b.setWidth 16 = ((c >>> 8).setWidth 8).setWidth 16 <<< 8 ^^^ (c.setWidth 8 ^^^ b).setWidth 16 := by
    apply BitVec.eq_of_getLsbD_eq; intro i _hi
    cases16 i <;> simp
  have h2 : ((c >>> 8).setWidth 8).setWidth 16 = c >>> 8 := by
    apply BitVec.eq_of_getLsbD_eq; intro i _hi
    cases16 i <;> simp
  unfold crcByte
  rw [BitVec.zeroExtend_eq_setWidth, h, crcBit8_xor]
  have := hi_part ((c >>> 8).setWidth 8)
  rw [BitVec.zeroExtend_eq_setWidth] at this
  rw [this, h2]

theorem x25_step_eq_ref (c : BitVec 16) (b : BitVec 8) : stepBV c b = crcByte c b := by
  rw [stepBV_eq, stepB_split, crcByte_split, lo_part]
end Mav
