import Mav.Proofs.PayloadLink
/-
  C03, decoding reads the same layout: for every accepted struct that is a definition, the model of `ReadWriter.Read` returns on
  EVERY payload what the serialization guide prescribes (`Spec.Msg.decode`): zero-extension of short v2 payloads, each field taken
  at its offset in wire order, little-endian scalars, strings cut at the first NUL, exact length in version 1.
-/
namespace Mav.DecodeLink
open Mav Msg SortLink LayoutLink InitSound PayloadLink

/-! ### little-endian value of a byte group -/

theorem unLeN_toNat : ∀ (bs : Bytes), bs.length ≤ 8 → (unLeN bs).toNat = Spec.Msg.ofLe bs := by
  intro bs
  induction bs with
  | nil => intro _; rfl
  | cons b r ih =>
    intro hl
    have hr : r.length ≤ 8 := by simp at hl; omega
    have hlen : r.length + 1 ≤ 8 := by simpa using hl
    have hlt := unLeN_lt r hr
    show ((unLeN r <<< 8) ||| b.toUInt64).toNat = b.toNat + 256 * Spec.Msg.ofLe r
    rw [UInt64.toNat_or, UInt64.toNat_shiftLeft, ← ih hr]
    have e : (8 : UInt64).toNat % 64 = 8 := by decide
    rw [e, Nat.shiftLeft_eq]
    have hb : b.toUInt64.toNat = b.toNat := by simp
    rw [hb]
    have h256 : (unLeN r).toNat * 2 ^ 8 < 2 ^ 64 := by
      have : (unLeN r).toNat < 2 ^ 56 := Nat.lt_of_lt_of_le hlt (Nat.pow_le_pow_right (by decide) (by omega))
      omega
    rw [Nat.mod_eq_of_lt h256]
    -- (x * 256) ||| b = x * 256 + b for b < 256
    have hbl : b.toNat < 2 ^ 8 := b.toNat_lt
    rw [Nat.mul_comm, ← Nat.two_pow_add_eq_or_of_lt hbl]
    omega

/-! ### one field, at the head of a buffer -/

theorem decElems_explicit (w : Nat) : ∀ (n : Nat) (buf : Bytes), w * n ≤ buf.length →
    decElems w n buf = some ((List.range n).map (fun k => unLeN ((buf.drop (k * w)).take w)), buf.drop (w * n)) := by
  intro n
  induction n with
  | zero => intro buf _; simp [decElems]
  | succ n ih =>
    intro buf h
    have hmul : w * (n + 1) = w + w * n := by rw [Nat.mul_succ, Nat.add_comm]
    have h1 : ¬ buf.length < w := by omega
    simp only [decElems, h1, if_false]
    rw [ih (buf.drop w) (by simp; omega)]
    simp only [List.drop_drop, hmul, Option.some.injEq, Prod.mk.injEq, and_true]
    rw [List.range_succ_eq_map]
    simp only [List.map_cons, Nat.zero_mul, List.drop_zero, List.map_map, List.cons.injEq, true_and]
    apply List.map_congr_left
    intro k _
    simp only [Function.comp, Nat.succ_eq_add_one]
    have : w + k * w = (k + 1) * w := by rw [Nat.add_mul, Nat.one_mul, Nat.add_comm]
    rw [this]

theorem field_dec_link (a : DField) (b : Spec.Msg.SField) (hty : a.ftype = b.ty)
    (hn : isStr a = false → nElems a = b.arr.getD 1) (hs : isStr a = true → a.arrayLength.toNat = b.arr.getD 1)
    (buf : Bytes) (h : fsize a ≤ buf.length) :
    fsize a = b.size ∧
    decField a buf = some (Spec.Msg.decField b (isStr a) (buf.take b.size), buf.drop (fsize a)) := by
  have hw : (Gen.fieldTypeSizes a.ftype).toNat = Spec.Msg.tySize b.ty := by rw [sizes_tbl, hty]
  by_cases hstr : isStr a = true
  · have hl := hs hstr
    have hch : b.ty = .char := by
      rw [← hty]; simp only [isStr, Bool.and_eq_true, beq_iff_eq] at hstr; exact hstr.1
    have hsize : fsize a = b.size := by
      simp only [fsize, hstr, if_true, Spec.Msg.SField.size, hch, Spec.Msg.tySize, hl]; omega
    refine ⟨hsize, ?_⟩
    have hs' : (a.ftype == .char && !a.isEnum) = true := hstr
    simp only [fsize, hstr, if_true] at h
    simp only [decField, hs', if_true, decString, Spec.Msg.decField]
    have : ¬ buf.length < a.arrayLength.toNat := by omega
    simp only [this, if_false, hstr, if_true]
    rw [← hsize]; simp [fsize, hstr]
  · have hstr' : isStr a = false := by simpa using hstr
    have hne := hn hstr'
    have hsize : fsize a = b.size := by
      simp only [fsize, hstr', Bool.false_eq_true, if_false, Spec.Msg.SField.size, width, hw, hne]
    refine ⟨hsize, ?_⟩
    have hs' : (a.ftype == .char && !a.isEnum) = false := hstr'
    simp only [fsize, hstr', Bool.false_eq_true, if_false] at h
    simp only [decField, hs', Bool.false_eq_true, if_false, Spec.Msg.decField, hstr']
    have hx := decElems_explicit (width a) (nElems a) buf h
    unfold width nElems at hx
    rw [hx]
    simp only [Option.some.injEq, Prod.mk.injEq, FVal.num.injEq]
    refine ⟨?_, by simp [fsize, hstr', width, nElems]⟩
    have hne' : (if a.goIsArray then a.goArrLen else 1) = b.arr.getD 1 := hne
    rw [hne']
    apply List.map_congr_left
    intro k hk
    simp only [List.mem_range] at hk
    rw [hw]
    have hw8 : Spec.Msg.tySize b.ty ≤ 8 := by
      have := width_cases a.ftype
      rw [hw] at this
      rcases this with h | h | h | h <;> omega
    -- the k-th group of the slice is the k-th group of the buffer
    have hslice : ((buf.take b.size).drop (k * Spec.Msg.tySize b.ty)).take (Spec.Msg.tySize b.ty) =
        (buf.drop (k * Spec.Msg.tySize b.ty)).take (Spec.Msg.tySize b.ty) := by
      rw [List.drop_take, List.take_take]
      congr 1
      have : (k + 1) * Spec.Msg.tySize b.ty ≤ b.size := by
        simp only [Spec.Msg.SField.size]
        rw [Nat.mul_comm (Spec.Msg.tySize b.ty)]
        exact Nat.mul_le_mul_right _ (by omega)
      rw [Nat.add_mul, Nat.one_mul] at this
      omega
    rw [hslice]
    apply UInt64.toNat_inj.mp
    have hlen8 : ((buf.drop (k * Spec.Msg.tySize b.ty)).take (Spec.Msg.tySize b.ty)).length ≤ 8 := by
      simp [List.length_take]; omega
    rw [unLeN_toNat _ hlen8, UInt64.toNat_ofNat']
    have := unLeN_lt _ hlen8
    rw [unLeN_toNat _ hlen8] at this
    have : Spec.Msg.ofLe ((buf.drop (k * Spec.Msg.tySize b.ty)).take (Spec.Msg.tySize b.ty)) < 2 ^ 64 :=
      Nat.lt_of_lt_of_le this (Nat.pow_le_pow_right (by decide) (by omega))
    omega

/-! ### sequential consumption = fields at their offsets -/

/-- the pointwise facts that tie the k-th model field to the k-th specification field -/
def Tied (isS : Nat → Bool) (a : DField) (b : Spec.Msg.SField) : Prop :=
  a.index = b.idx ∧ a.ftype = b.ty ∧ (isStr a = false → nElems a = b.arr.getD 1) ∧
  (isStr a = true → a.arrayLength.toNat = b.arr.getD 1) ∧ isS b.idx = isStr a ∧ a.isExt = b.ext

/-- two lists related element by element -/
inductive All2 {α β} (R : α → β → Prop) : List α → List β → Prop
  | nil : All2 R [] []
  | cons {a b l1 l2} : R a b → All2 R l1 l2 → All2 R (a :: l1) (b :: l2)

theorem fold_align (isS : Nat → Bool) (l1 : List DField) (l2 : List Spec.Msg.SField) (hal : All2 (Tied isS) l1 l2) :
    ∀ (p : Bytes) (o : Nat) (acc : List FVal), o + total l1 ≤ p.length →
    decFields l1 (p.drop o) acc = some ((Spec.Msg.offsets o l2).foldl (fun acc (fo : Spec.Msg.SField × Nat) =>
      acc.set fo.1.idx (Spec.Msg.decField fo.1 (isS fo.1.idx) ((p.drop fo.2).take fo.1.size))) acc) := by
  induction hal with
  | nil => intro p o acc _; rfl
  | @cons a b r r2 hab _ ih =>
    intro p o acc hfit
    obtain ⟨hi, hty, hn, hs, hiss, _⟩ := hab
    simp only [total, List.map_cons, List.sum_cons] at hfit
    have hfa : fsize a ≤ (p.drop o).length := by simp; omega
    obtain ⟨hsize, hdec⟩ := field_dec_link a b hty hn hs (p.drop o) hfa
    simp only [decFields, hdec, Spec.Msg.offsets, List.foldl_cons, setAt, List.drop_drop]
    have := ih p (o + fsize a) (acc.set a.index (Spec.Msg.decField b (isStr a) ((p.drop o).take b.size)))
      (by simp only [total]; omega)
    rw [this, hi, hiss, hsize]

theorem forall2_of_pointwise {α β} (R : α → β → Prop) : ∀ (l1 : List α) (l2 : List β), l1.length = l2.length →
    (∀ (k : Nat) a b, l1[k]? = some a → l2[k]? = some b → R a b) → All2 R l1 l2 := by
  intro l1
  induction l1 with
  | nil => intro l2 hl _; cases l2 with | nil => exact .nil | cons _ _ => simp at hl
  | cons a r ih =>
    intro l2 hl hpt
    cases l2 with
    | nil => simp at hl
    | cons b r2 =>
      exact .cons (hpt 0 a b rfl rfl) (ih r2 (by simpa using hl)
        (fun k x y hx hy => hpt (k + 1) x y (by simpa using hx) (by simpa using hy)))

theorem forall2_filter {α β} (R : α → β → Prop) (e1 : α → Bool) (e2 : β → Bool) (he : ∀ a b, R a b → e1 a = e2 b)
    (l1 : List α) (l2 : List β) (h : All2 R l1 l2) : All2 R (l1.filter e1) (l2.filter e2) := by
  induction h with
  | nil => exact .nil
  | @cons a b r r2 hab _ ih =>
    have := he a b hab
    by_cases ha : e1 a = true
    · have hb : e2 b = true := by rw [← this]; exact ha
      simp only [List.filter_cons, ha, hb, if_true]
      exact .cons hab ih
    · have ha' : e1 a = false := by simpa using ha
      have hb : e2 b = false := by rw [← this]; exact ha'
      simp only [List.filter_cons, ha', hb, Bool.false_eq_true, if_false]
      exact ih

theorem forall2_sum {α β} (R : α → β → Prop) (f : α → Nat) (g : β → Nat) (hfg : ∀ a b, R a b → f a = g b)
    (l1 : List α) (l2 : List β) (h : All2 R l1 l2) : (l1.map f).sum = (l2.map g).sum := by
  induction h with
  | nil => rfl
  | @cons a b r r2 hab _ ih => simp [hfg a b hab, ih]

/-! ### assembling -/

/-- whether struct field i is a Go string (a fact about the Go type, which the specification takes as a parameter) -/
def isS (rw : RW) (i : Nat) : Bool :=
  match rw.fields.find? (·.index == i) with
  | some f => isStr f
  | none => false

theorem find_by_index : ∀ (l : List DField), (l.map (·.index)).Nodup → ∀ a ∈ l, l.find? (·.index == a.index) = some a := by
  intro l
  induction l with
  | nil => intro _ a ha; cases ha
  | cons x r ih =>
    intro hnd a ha
    simp only [List.map_cons, List.nodup_cons] at hnd
    cases ha with
    | head => simp
    | tail _ hm =>
      have hne : x.index ≠ a.index := by
        intro e
        exact hnd.1 (by rw [e]; exact List.mem_map_of_mem hm)
      have : (x.index == a.index) = false := by simpa using hne
      simp only [List.find?_cons, this]
      exact ih hnd.2 a hm

theorem tied_size (isS' : Nat → Bool) (a : DField) (b : Spec.Msg.SField) (h : Tied isS' a b) : fsize a = b.size := by
  obtain ⟨_, hty, hn, hs, _, _⟩ := h
  have hw : (Gen.fieldTypeSizes a.ftype).toNat = Spec.Msg.tySize b.ty := by rw [sizes_tbl, hty]
  by_cases hstr : isStr a = true
  · have hl := hs hstr
    have hch : b.ty = .char := by
      rw [← hty]; simp only [isStr, Bool.and_eq_true, beq_iff_eq] at hstr; exact hstr.1
    simp only [fsize, hstr, if_true, Spec.Msg.SField.size, hch, Spec.Msg.tySize, hl]; omega
  · have hstr' : isStr a = false := by simpa using hstr
    simp only [fsize, hstr', Bool.false_eq_true, if_false, Spec.Msg.SField.size, width, hw, hn hstr']

theorem tied_all (st : GoStruct) (rw : RW) (d : Spec.Msg.SDef) (h1 : Msg.init st = .ok rw) (h2 : Spec.Msg.ofGo st = some d) :
    All2 (Tied (isS rw)) rw.fields (Spec.Msg.wireOrder d) := by
  obtain ⟨hlen, hal⟩ := aligned st rw d h1 h2
  have hidx := accepted_idx_ok st rw h1
  apply forall2_of_pointwise _ _ _ hlen
  intro k a b ha hb
  obtain ⟨i, f, _, e1, e2, harr⟩ := hal k a b ha hb
  obtain ⟨hi, hext, _⟩ := field_link i f a b e1 e2
  obtain ⟨hty, hn, hs⟩ := enc_shape i f a b e1 e2 harr
  refine ⟨hi, hty, hn, hs, ?_, hext⟩
  unfold isS
  rw [← hi, find_by_index rw.fields hidx.1 a (List.mem_of_getElem? ha)]

theorem all2_right {α β} (R : α → β → Prop) (l1 : List α) (l2 : List β) (h : All2 R l1 l2) :
    ∀ b ∈ l2, ∃ a ∈ l1, R a b := by
  induction h with
  | nil => intro b hb; cases hb
  | @cons a0 b0 r r2 hab _ ih =>
    intro b hb
    cases hb with
    | head => exact ⟨a0, List.mem_cons_self, hab⟩
    | tail _ hm =>
      obtain ⟨a, ha, hr⟩ := ih b hm
      exact ⟨a, List.mem_cons_of_mem _ ha, hr⟩

theorem mem_wireOrder_of_mem (x : Spec.Msg.SField) (d : Spec.Msg.SDef) (h : x ∈ d.fields) : x ∈ Spec.Msg.wireOrder d := by
  unfold Spec.Msg.wireOrder
  simp only [List.mem_append, mem_stableSortDesc, List.mem_filter]
  by_cases hx : x.ext = true
  · exact Or.inr ⟨h, hx⟩
  · exact Or.inl ⟨h, by simpa using hx⟩

theorem sfs_pos : ∀ (gfs : List GoField) (i : Nat) (sfs : List Spec.Msg.SField), Spec.Msg.fieldsOfGo i gfs = some sfs →
    sfs.length = gfs.length ∧ ∀ (j : Nat) b, sfs[j]? = some b → b.idx = i + j := by
  intro gfs
  induction gfs with
  | nil => intro i sfs h; simp [Spec.Msg.fieldsOfGo] at h; subst h; exact ⟨rfl, by intro j b hb; simp at hb⟩
  | cons f r ih =>
    intro i sfs h
    simp only [Spec.Msg.fieldsOfGo, Option.bind_eq_bind] at h
    cases hsf : Spec.Msg.fieldOfGo i f with
    | none => simp [hsf] at h
    | some sf0 =>
      simp only [hsf, Option.bind_some] at h
      cases hsr : Spec.Msg.fieldsOfGo (i + 1) r with
      | none => simp [hsr] at h
      | some sfs' =>
        simp only [hsr, Option.bind_some, Option.pure_def, Option.some.injEq] at h
        subst h
        obtain ⟨hl, hp⟩ := ih (i + 1) sfs' hsr
        refine ⟨by simp [hl], ?_⟩
        intro j b hb
        cases j with
        | zero =>
          simp only [List.getElem?_cons_zero, Option.some.injEq] at hb
          subst hb; exact (fieldOfGo_char i f _ hsf).1
        | succ j =>
          simp only [List.getElem?_cons_succ] at hb
          have := hp j b hb; omega

/-- the zero value `reflect.New` gives each field is the specification's initial value of that field -/
theorem zeroVals_eq (st : GoStruct) (rw : RW) (d : Spec.Msg.SDef) (h1 : Msg.init st = .ok rw) (h2 : Spec.Msg.ofGo st = some d) :
    zeroVals rw = d.fields.map (fun f => if isS rw f.idx then FVal.str [] else FVal.num (List.replicate (f.arr.getD 1) 0)) := by
  have htied := tied_all st rw d h1 h2
  have hidx := accepted_idx_ok st rw h1
  obtain ⟨fs, sfs, hfs, hsfs, hd, hrw, _, _, _⟩ := unpack st rw d h1 h2
  obtain ⟨hsl, hsp⟩ := sfs_pos st.fields 0 sfs hsfs
  have hfl : fs.length = st.fields.length := by
    have := congrArg List.length (initFields_indexes st.fields 0 fs hfs)
    simpa using this
  have hn : rw.nfields = sfs.length := by rw [hrw]; simp only; omega
  have hdf : d.fields = sfs := by rw [hd]
  rw [hdf]
  unfold zeroVals
  apply List.ext_getElem?
  intro i
  simp only [List.getElem?_map]
  by_cases hi : i < sfs.length
  · have h1' : i < rw.nfields := by omega
    have hb : sfs[i]? = some sfs[i] := by simp [hi]
    have hbi : (sfs[i]).idx = i := by have := hsp i sfs[i] hb; omega
    have hbm : sfs[i] ∈ Spec.Msg.wireOrder d := mem_wireOrder_of_mem _ d (by rw [hdf]; exact List.getElem_mem hi)
    obtain ⟨a, ham, hi', hty, hne, hse, hiss, _⟩ := all2_right _ _ _ htied sfs[i] hbm
    have hfind : rw.fields.find? (·.index == i) = some a := by
      have := find_by_index rw.fields hidx.1 a ham
      rw [hi', hbi] at this; exact this
    have hr : (List.range rw.nfields)[i]? = some i := by simp [h1']
    rw [hr, hb]
    simp only [Option.map_some, hfind, Option.some.injEq]
    rw [hbi] at hiss
    rw [hbi, hiss]
    unfold zeroVal
    by_cases hs : isStr a = true
    · have hs' : (a.ftype == .char && !a.isEnum) = true := hs
      rw [if_pos hs', if_pos hs]
    · have hs0 : isStr a = false := by simpa using hs
      have hs' : ¬ (a.ftype == .char && !a.isEnum) = true := by
        have : (a.ftype == .char && !a.isEnum) = false := hs0
        simp [this]
      have := hne hs0
      unfold nElems at this
      rw [if_neg hs', if_neg hs, this]
  · have h1' : ¬ i < rw.nfields := by omega
    have hb : sfs[i]? = none := by simp; omega
    have hr : (List.range rw.nfields)[i]? = none := by simp; omega
    rw [hr, hb]; rfl

/-! ### sizes, through the alignment -/

theorem sum_insertStable (g : Spec.Msg.SField → Nat) (x : Spec.Msg.SField) (l : List Spec.Msg.SField) :
    ((Spec.Msg.insertStable x l).map g).sum = g x + (l.map g).sum := by
  induction l with
  | nil => simp [Spec.Msg.insertStable]
  | cons y r ih =>
    simp only [Spec.Msg.insertStable]
    split
    · simp only [List.map_cons, List.sum_cons, ih]; omega
    · simp

theorem sum_stableSortDesc (g : Spec.Msg.SField → Nat) (l : List Spec.Msg.SField) :
    ((Spec.Msg.stableSortDesc l).map g).sum = (l.map g).sum := by
  unfold Spec.Msg.stableSortDesc
  have : ∀ acc : List Spec.Msg.SField,
      ((l.foldl (fun acc x => Spec.Msg.insertStable x acc) acc).map g).sum = (l.map g).sum + (acc.map g).sum := by
    induction l with
    | nil => intro acc; simp
    | cons a r ih =>
      intro acc
      simp only [List.foldl_cons, List.map_cons, List.sum_cons]
      rw [ih, sum_insertStable]; omega
  simpa using this []

theorem sum_partition (g : Spec.Msg.SField → Nat) (l : List Spec.Msg.SField) :
    ((l.filter (!·.ext)).map g).sum + ((l.filter (·.ext)).map g).sum = (l.map g).sum := by
  induction l with
  | nil => rfl
  | cons x r ih =>
    by_cases hx : x.ext = true
    · simp only [List.filter_cons, hx, Bool.not_true, Bool.false_eq_true, if_false, if_true, List.map_cons, List.sum_cons]
      omega
    · have hx' : x.ext = false := by simpa using hx
      simp only [List.filter_cons, hx', Bool.not_false, if_true, Bool.false_eq_true, if_false, List.map_cons, List.sum_cons]
      omega

theorem sum_wireOrder (d : Spec.Msg.SDef) : ((Spec.Msg.wireOrder d).map Spec.Msg.SField.size).sum = Spec.Msg.sizeExt d := by
  unfold Spec.Msg.wireOrder Spec.Msg.sizeExt
  rw [List.map_append, List.sum_append, sum_stableSortDesc, sum_partition]

/-- the sizes `Initialize` stores are the guide's (no hypothesis on identifiers) -/
theorem sizes_eq (st : GoStruct) (rw : RW) (d : Spec.Msg.SDef) (h1 : Msg.init st = .ok rw) (h2 : Spec.Msg.ofGo st = some d) :
    rw.sizeExtended.toNat = Spec.Msg.sizeExt d ∧ rw.sizeNormal.toNat = Spec.Msg.sizeBase d := by
  have hok : RWok rw := rwOk_of_bool rw (accepted_never_wraps st rw h1)
  have htied := tied_all st rw d h1 h2
  constructor
  · rw [← hok.ext, ← sum_wireOrder]
    exact forall2_sum _ fsize Spec.Msg.SField.size (fun a b h => tied_size _ a b h) _ _ htied
  · rw [← hok.base]
    have hf := forall2_filter (Tied (isS rw)) (fun a => !a.isExt) (fun b => !b.ext)
      (fun a b h => by rw [h.2.2.2.2.2]) _ _ htied
    have hs := forall2_sum _ fsize Spec.Msg.SField.size (fun a b h => tied_size _ a b h) _ _ hf
    unfold total
    rw [hs, wo_filter_base, sum_stableSortDesc]
    rfl

/-! ### the theorem -/

def ofSpecRes : Spec.Msg.DecRes → Msg.DecRes
  | .ok v => .ok v
  | .errSize => .errSize

/-- **C03 (decoding reads the same layout, for every struct and every payload).** -/
theorem decode_eq_spec (st : GoStruct) (rw : RW) (d : Spec.Msg.SDef) (h1 : Msg.init st = .ok rw) (h2 : Spec.Msg.ofGo st = some d)
    (isV2 : Bool) (payload : Bytes) :
    Msg.decode rw isV2 payload = ofSpecRes (Spec.Msg.decode d (isS rw) isV2 payload) := by
  have hok : RWok rw := rwOk_of_bool rw (accepted_never_wraps st rw h1)
  have htied := tied_all st rw d h1 h2
  obtain ⟨hsx, hsn⟩ := sizes_eq st rw d h1 h2
  have hz := zeroVals_eq st rw d h1 h2
  cases isV2 with
  | true =>
    rw [decode_v2_eq]
    simp only [Spec.Msg.decode, if_true]
    have hp : padded rw payload = payload ++ List.replicate (Spec.Msg.sizeExt d - payload.length) 0 := by
      unfold padded
      by_cases hl : payload.length < rw.sizeExtended.toNat
      · rw [if_pos hl]; simp only [replicateZ, hsx]
      · have : Spec.Msg.sizeExt d - payload.length = 0 := by omega
        rw [if_neg hl, this]; simp
    have hfit : 0 + total rw.fields ≤ (padded rw payload).length := by
      have := padded_len rw payload
      rw [hok.ext]; omega
    have := fold_align (isS rw) _ _ htied (padded rw payload) 0 (zeroVals rw) hfit
    rw [List.drop_zero] at this
    rw [this, hp, hz]
    rfl
  | false =>
    simp only [Msg.decode, Bool.false_eq_true, if_false, Spec.Msg.decode]
    by_cases hl : payload.length ≠ rw.sizeNormal.toNat
    · have hl' : payload.length ≠ Spec.Msg.sizeBase d := by rw [← hsn]; exact hl
      simp only [hl, hl', if_true, ne_eq, not_false_eq_true]
      rfl
    · have hl' : ¬ payload.length ≠ Spec.Msg.sizeBase d := by rw [← hsn]; exact hl
      simp only [hl, hl', if_false]
      have hf := forall2_filter (Tied (isS rw)) (fun a => !a.isExt) (fun b => !b.ext)
        (fun a b h => by rw [h.2.2.2.2.2]) _ _ htied
      rw [wo_filter_base] at hf
      have hfit : 0 + total (rw.fields.filter (fun f => !f.isExt)) ≤ payload.length := by
        rw [hok.base]; omega
      have := fold_align (isS rw) _ _ hf payload 0 (zeroVals rw) hfit
      rw [List.drop_zero] at this
      rw [this, hz]
      rfl

end Mav.DecodeLink
