import Mav.Proofs.InitIdx
/-
  C03, payload bytes: for every struct `Initialize` accepts (exported identifiers) and every well-typed value assignment, the bytes
  the model of `ReadWriter.Write` produces are the bytes the serialization guide prescribes (`Spec.Msg.encode`): fields in wire
  order, little-endian scalars, arrays element by element, strings NUL-padded to their declared length, enum fields at their
  wire width; version 2 with trailing zeros removed down to one byte, version 1 without the extension fields.
-/
namespace Mav.PayloadLink
open Mav Msg SortLink LayoutLink InitSound

/-! ### little-endian bytes -/

theorem shr_byte (x : UInt64) (k : Nat) (hk : k ≤ 7) :
    (x >>> UInt64.ofNat (8 * k)).toUInt8 = UInt8.ofNat ((x.toNat / 256 ^ k) % 256) := by
  apply UInt8.toNat_inj.mp
  rw [UInt64.toNat_toUInt8, UInt64.toNat_shiftRight, UInt8.toNat_ofNat']
  have h1 : (UInt64.ofNat (8 * k)).toNat = 8 * k := by
    rw [UInt64.toNat_ofNat']; omega
  rw [h1]
  have h2 : 8 * k % 64 = 8 * k := by omega
  rw [h2, Nat.shiftRight_eq_div_pow]
  have h3 : (2 : Nat) ^ (8 * k) = 256 ^ k := by
    rw [Nat.pow_mul]
  rw [h3]
  omega

theorem leN_aux (x : UInt64) : ∀ (w k : Nat), k + w ≤ 8 →
    (List.range' k w).map (fun i => (x >>> UInt64.ofNat (8 * i)).toUInt8) = Spec.Msg.leBytes w (x.toNat / 256 ^ k) := by
  intro w
  induction w with
  | zero => intro k _; rfl
  | succ w ih =>
    intro k hk
    simp only [List.range'_succ, List.map_cons, Spec.Msg.leBytes]
    rw [shr_byte x k (by omega), ih (k + 1) (by omega)]
    congr 2
    rw [Nat.div_div_eq_div_mul, Nat.pow_succ]

theorem leN_eq_leBytes (w : Nat) (hw : w ≤ 8) (x : UInt64) : leN w x = Spec.Msg.leBytes w x.toNat := by
  unfold leN
  rw [List.range_eq_range']
  have := leN_aux x w 0 (by omega)
  simpa using this

/-! ### one field -/

/-- number of elements / string length of a field, as the model and as the specification see it -/
theorem enc_shape (i : Nat) (f : GoField) (d : DField) (sf : Spec.Msg.SField)
    (h1 : initField i f = .ok d) (h2 : Spec.Msg.fieldOfGo i f = some sf) (ha : arrOk sf) :
    d.ftype = sf.ty ∧ (isStr d = false → nElems d = sf.arr.getD 1) ∧ (isStr d = true → d.arrayLength.toNat = sf.arr.getD 1) := by
  have hty := (field_link i f d sf h1 h2).2.2
  refine ⟨hty, ?_, ?_⟩
  all_goals
    replace h1 := (initField_ok i f d h1).2.2
    replace h2 := (fieldOfGo_ok i f sf h2).2
    unfold initFieldCore at h1
    unfold Spec.Msg.fieldOfGoCore at h2
    by_cases he : f.mavenum ≠ ""
    · rw [if_pos he] at h1 h2
      by_cases hu : f.elemIsUint64 = true
      · simp only [hu, Bool.not_true, Bool.false_eq_true, if_false, Option.bind_eq_bind, Option.pure_def] at h1 h2
        cases ht : Gen.fieldTypeFromGo f.mavenum with
        | none => rw [ht] at h1; cases h1
        | some t =>
          rw [ht] at h1 h2
          simp only [Option.bind_some] at h1 h2
          by_cases hc : Gen.enumCapable t = true
          · simp only [hc, Bool.not_true, Bool.false_eq_true, if_false, pure, Except.pure, Except.ok.injEq] at h1
            split at h2
            · cases h2
            · simp only [Option.some.injEq] at h2
              subst h1; subst h2
              by_cases hi : f.isArray = true <;> simp [isStr, nElems, hi]
          · have : Gen.enumCapable t = false := by simpa using hc
            simp only [this, Bool.not_false, if_true] at h1; cases h1
      · have : f.elemIsUint64 = false := by simpa using hu
        simp only [this, Bool.not_false, if_true] at h1; cases h1
    · rw [if_neg he] at h1 h2
      cases ht : Gen.fieldTypeFromGo f.elemType with
      | none => rw [ht] at h1; cases h1
      | some t =>
        rw [ht] at h1
        simp only [bind, Except.bind] at h1
        by_cases hs : (f.elemType == "string") = true
        · have hs' : f.elemType = "string" := by simpa using hs
          have htc : t = .char := by
            rw [hs'] at ht; simp [Gen.fieldTypeFromGo] at ht; exact ht.symm
          rw [if_pos hs] at h1 h2
          simp only [Option.bind_eq_bind, Option.pure_def] at h2
          by_cases hi : f.isArray = true
          · simp [hi] at h2
          · have hi' : f.isArray = false := by simpa using hi
            simp only [hi', Bool.false_eq_true, if_false] at h2 h1
            by_cases hl : f.mavlen = ""
            · have hle : (f.mavlen == "") = true := by simp [hl]
              rw [if_pos hle] at h2
              simp only [hl, String.length_empty, beq_self_eq_true, if_true, pure, Except.pure, Except.ok.injEq] at h1
              simp only [Option.some.injEq] at h2
              subst h1; subst h2
              simp [isStr, htc]
            · have hl2 : (f.mavlen.length == 0) = false := by
                have : f.mavlen.length ≠ 0 := fun h0 => hl (String.length_eq_zero_iff.mp h0)
                simpa using this
              have hle : ¬ (f.mavlen == "") = true := by simpa using hl
              rw [if_neg hle] at h2
              simp only [hl2, Bool.false_eq_true, if_false] at h1
              cases hp : Spec.Msg.parseLen f.mavlen with
              | none => rw [hp] at h2; cases h2
              | some n =>
                rw [hp] at h2
                simp only [Option.bind_some, Option.some.injEq] at h2
                rw [atoi_of_parseLen _ _ hp] at h1
                by_cases hr : ((n : Int) < 1 || (n : Int) > 255) = true
                · simp only [hr, if_true] at h1; cases h1
                simp only [hr, Bool.false_eq_true, if_false, pure, Except.pure, Except.ok.injEq] at h1
                subst h1; subst h2
                simp only [Bool.or_eq_true, decide_eq_true_eq, not_or, Int.not_lt] at hr
                intro hst
                first
                | (simp [isStr, htc] at hst; done)
                | (show (byteOfInt (n : Int)).toNat = n
                   rw [byteOfInt_nat, UInt8.toNat_ofNat']
                   omega)
        · rw [if_neg hs] at h1 h2
          simp only [Option.bind_eq_bind, Option.pure_def, ht, Option.bind_some, Option.some.injEq] at h2
          simp only [pure, Except.pure, Except.ok.injEq] at h1
          subst h1; subst h2
          have : t ≠ .char := by
            intro e; subst e
            have hne : f.elemType ≠ "string" := by simpa using hs
            revert ht
            unfold Gen.fieldTypeFromGo
            split <;> simp_all
          by_cases hi : f.isArray = true <;> simp [isStr, nElems, hi, this]

theorem encField_link (d : DField) (sf : Spec.Msg.SField) (hty : d.ftype = sf.ty)
    (hn : isStr d = false → nElems d = sf.arr.getD 1) (hsn : isStr d = true → d.arrayLength.toNat = sf.arr.getD 1)
    (v : FVal) (hw : wellTyped d v = true) : Msg.encField d v = Spec.Msg.encField sf v := by
  cases v with
  | num xs =>
    simp only [wellTyped, Bool.and_eq_true, Bool.not_eq_true', beq_iff_eq] at hw
    obtain ⟨hs, hlen⟩ := hw
    have hne := hn hs
    have hw8 : (Gen.fieldTypeSizes d.ftype).toNat ≤ 8 := by
      rcases width_cases d.ftype with h | h | h | h <;> omega
    have htake : (if d.goIsArray then xs.take d.goArrLen else xs.take 1) = xs := by
      have : (if d.goIsArray then xs.take d.goArrLen else xs.take 1) = xs.take (nElems d) := by
        unfold nElems; split <;> rfl
      rw [this, ← hlen]; exact List.take_length
    simp only [Msg.encField, htake, Spec.Msg.encField]
    rw [← hne, ← hlen, List.take_length, Nat.sub_self]
    simp only [List.replicate_zero, List.append_nil]
    have hfun : (encElem d) = (fun (x : UInt64) => Spec.Msg.leBytes (Spec.Msg.tySize sf.ty) x.toNat) := by
      funext x
      simp only [encElem]
      rw [leN_eq_leBytes _ hw8, sizes_tbl, hty]
    rw [hfun]
  | str s =>
    simp only [wellTyped] at hw
    have hl := hsn hw
    simp only [Msg.encField, encString, Spec.Msg.encField, Spec.Msg.padTo, replicateZ, hl]

/-! ### all fields, by position, then in wire order -/

theorem fields_pos : ∀ (gfs : List GoField) (i : Nat) (ds : List DField) (sfs : List Spec.Msg.SField),
    initFields i gfs = .ok ds → Spec.Msg.fieldsOfGo i gfs = some sfs →
    ds.length = sfs.length ∧
    ∀ j a b, ds[j]? = some a → sfs[j]? = some b → ∃ f, f ∈ gfs ∧ initField (i + j) f = .ok a ∧ Spec.Msg.fieldOfGo (i + j) f = some b := by
  intro gfs
  induction gfs with
  | nil =>
    intro i ds sfs h1 h2
    simp [initFields, pure, Except.pure] at h1
    simp [Spec.Msg.fieldsOfGo] at h2
    subst h1; subst h2
    exact ⟨rfl, by intro j a b ha; simp at ha⟩
  | cons f r ih =>
    intro i ds sfs h1 h2
    simp only [initFields, bind, Except.bind] at h1
    simp only [Spec.Msg.fieldsOfGo, Option.bind_eq_bind] at h2
    cases hd : initField i f with
    | error e => simp [hd] at h1
    | ok d0 =>
      simp only [hd] at h1
      cases hr : initFields (i + 1) r with
      | error e => simp [hr] at h1
      | ok ds' =>
        simp only [hr, pure, Except.pure, Except.ok.injEq] at h1
        cases hsf : Spec.Msg.fieldOfGo i f with
        | none => simp [hsf] at h2
        | some sf0 =>
          simp only [hsf, Option.bind_some] at h2
          cases hsr : Spec.Msg.fieldsOfGo (i + 1) r with
          | none => simp [hsr] at h2
          | some sfs' =>
            simp only [hsr, Option.bind_some, Option.pure_def, Option.some.injEq] at h2
            subst h1; subst h2
            obtain ⟨hl, hp⟩ := ih (i + 1) ds' sfs' hr hsr
            refine ⟨by simp [hl], ?_⟩
            intro j a b ha hb
            cases j with
            | zero =>
              simp only [List.getElem?_cons_zero, Option.some.injEq] at ha hb
              subst ha; subst hb
              exact ⟨f, List.mem_cons_self, hd, hsf⟩
            | succ j =>
              simp only [List.getElem?_cons_succ] at ha hb
              obtain ⟨g, hg, e1, e2⟩ := hp j a b ha hb
              refine ⟨g, List.mem_cons_of_mem _ hg, ?_, ?_⟩
              · rw [show i + (j + 1) = i + 1 + j by omega]; exact e1
              · rw [show i + (j + 1) = i + 1 + j by omega]; exact e2

/-- the k-th field of the model's wire order and the k-th field of the specification's are two readings of the same struct field -/
theorem aligned (st : GoStruct) (rw : RW) (d : Spec.Msg.SDef) (h1 : Msg.init st = .ok rw) (h2 : Spec.Msg.ofGo st = some d) :
    rw.fields.length = (Spec.Msg.wireOrder d).length ∧
    ∀ (k : Nat) (a : DField) (b : Spec.Msg.SField), rw.fields[k]? = some a → (Spec.Msg.wireOrder d)[k]? = some b →
      ∃ i f, f ∈ st.fields ∧ initField i f = .ok a ∧ Spec.Msg.fieldOfGo i f = some b ∧ arrOk b := by
  have horder := wire_order_agrees st rw d h1 h2
  obtain ⟨fs, sfs, hfs, hsfs, hd, hrw, _, harr, _⟩ := unpack st rw d h1 h2
  obtain ⟨hlen, hpos⟩ := fields_pos st.fields 0 fs sfs hfs hsfs
  have hdf : d.fields = sfs := by rw [hd]
  have hrf : rw.fields = sortFields fs := by rw [hrw]
  rw [hrf] at horder ⊢
  refine ⟨by have := congrArg List.length horder; simpa using this, ?_⟩
  intro k a b ha hb
  have hidx : a.index = b.idx := by
    have e1 : ((sortFields fs).map (·.index))[k]? = some a.index := by simp [ha]
    have e2 : ((Spec.Msg.wireOrder d).map (·.idx))[k]? = some b.idx := by simp [hb]
    rw [horder] at e1
    rw [e1] at e2
    exact Option.some.inj e2
  have hamem : a ∈ fs := (mem_sortFields a fs).mp (List.mem_of_getElem? ha)
  have hbmem : b ∈ sfs := by
    have := mem_wireOrder b d (List.mem_of_getElem? hb)
    rwa [hdf] at this
  obtain ⟨j, hj⟩ := List.getElem?_of_mem hamem
  obtain ⟨j', hj'⟩ := List.getElem?_of_mem hbmem
  -- positions
  have hj2 : j < sfs.length := by
    have : j < fs.length := by
      rcases Nat.lt_or_ge j fs.length with hc | hc
      · exact hc
      · have : fs[j]? = none := by simp; omega
        simp [this] at hj
    omega
  obtain ⟨f1, _, e1, _⟩ := hpos j a sfs[j] hj (by simp [hj2])
  have ia : a.index = j := by have := (initField_char _ _ _ e1).1; omega
  have hj3 : j' < fs.length := by
    have : j' < sfs.length := by
      rcases Nat.lt_or_ge j' sfs.length with hc | hc
      · exact hc
      · have : sfs[j']? = none := by simp; omega
        simp [this] at hj'
    omega
  obtain ⟨f2, _, _, e2⟩ := hpos j' fs[j'] b (by simp [hj3]) hj'
  have ib : b.idx = j' := by have := (fieldOfGo_char _ _ _ e2).1; omega
  have : j = j' := by omega
  subst this
  obtain ⟨f, hf, e3, e4⟩ := hpos j a b hj hj'
  exact ⟨0 + j, f, hf, e3, e4, arrOk_of_all sfs harr b hbmem⟩

/-! ### truncation -/

theorem dropWhile_snoc {α} (p : α → Bool) (b : α) : ∀ (l : List α),
    (l ++ [b]).dropWhile p = if (l.dropWhile p).isEmpty then [b].dropWhile p else l.dropWhile p ++ [b] := by
  intro l
  induction l with
  | nil => simp
  | cons x r ih =>
    by_cases hx : p x = true
    · have e1 : (x :: r ++ [b]).dropWhile p = (r ++ [b]).dropWhile p := by simp [List.dropWhile_cons, hx]
      have e2 : (x :: r).dropWhile p = r.dropWhile p := by simp [List.dropWhile_cons, hx]
      rw [e1, e2]; exact ih
    · simp [List.dropWhile_cons, hx]

/-- the encoder's stripping is the guide's truncation: trailing zeros removed, never below one byte -/
theorem strip_eq_truncate (buf : Bytes) : removeEmptyBytes buf = Spec.Msg.truncate buf := by
  cases buf with
  | nil => rfl
  | cons b r =>
    unfold removeEmptyBytes Spec.Msg.truncate Spec.Msg.dropTrailingZeros
    rw [List.reverse_cons, dropWhile_snoc]
    by_cases he : (r.reverse.dropWhile (· == 0)).isEmpty = true
    · have hnil : r.reverse.dropWhile (· == 0) = [] := by simpa using he
      simp only [he, if_true, hnil, List.reverse_nil]
      by_cases hb : (b == 0) = true
      · simp [List.dropWhile_cons, hb]
      · simp [List.dropWhile_cons, hb]
    · simp only [he, Bool.false_eq_true, if_false, List.reverse_append, List.reverse_cons, List.reverse_nil, List.nil_append,
        List.singleton_append]

/-! ### the whole payload -/

theorem wo_filter_base (d : Spec.Msg.SDef) :
    (Spec.Msg.wireOrder d).filter (!·.ext) = Spec.Msg.stableSortDesc (d.fields.filter (!·.ext)) := by
  unfold Spec.Msg.wireOrder
  rw [List.filter_append]
  have h1 : (Spec.Msg.stableSortDesc (d.fields.filter (!·.ext))).filter (!·.ext) =
      Spec.Msg.stableSortDesc (d.fields.filter (!·.ext)) := by
    apply List.filter_eq_self.mpr
    intro x hx
    have := (mem_stableSortDesc x _).mp hx
    exact (List.mem_filter.mp this).2
  have h2 : (d.fields.filter (·.ext)).filter (!·.ext) = [] := by
    apply List.filter_eq_nil_iff.mpr
    intro x hx
    simp [(List.mem_filter.mp hx).2]
  rw [h1, h2, List.append_nil]

theorem filter_flatMap_pairs {α} (l : List α) (e : α → Bool) (g : α → Bytes) (c : Bool) :
    (l.filter (fun f => c || !e f)).flatMap g =
      ((l.map (fun f => (e f, g f))).filter (fun p => c || !p.1)).flatMap (·.2) := by
  induction l with
  | nil => rfl
  | cons x r ih =>
    by_cases hx : (c || !e x) = true
    · simp [List.filter_cons, hx, ih]
    · simp [List.filter_cons, hx, ih]

/-- **C03 (payload bytes, for every struct).** -/
theorem encode_eq_spec (st : GoStruct) (rw : RW) (d : Spec.Msg.SDef) (h1 : Msg.init st = .ok rw) (h2 : Spec.Msg.ofGo st = some d)
    (vals : List FVal) (hw : ∀ f ∈ rw.fields, wellTyped f (valAt vals f.index) = true) (isV2 : Bool) :
    Msg.encode rw isV2 vals = .ok (Spec.Msg.encode d isV2 vals) := by
  have hok : RWok rw := rwOk_of_bool rw (accepted_never_wraps st rw h1)
  obtain ⟨hlen, hal⟩ := aligned st rw d h1 h2
  -- the two wire orders, field by field: same extension flag, same bytes
  have hpairs : rw.fields.map (fun f => (f.isExt, Msg.encField f (valAt vals f.index))) =
      (Spec.Msg.wireOrder d).map (fun sf => (sf.ext, Spec.Msg.encField sf (Spec.Msg.valOf vals sf.idx))) := by
    apply map_eq_of_pointwise _ _ _ _ hlen
    intro k a b ha hb
    obtain ⟨i, f, _, e1, e2, harr⟩ := hal k a b ha hb
    obtain ⟨hi, he, _⟩ := field_link i f a b e1 e2
    obtain ⟨hty, hn, hs⟩ := enc_shape i f a b e1 e2 harr
    have hwa := hw a (List.mem_of_getElem? ha)
    rw [he, encField_link a b hty hn hs _ hwa, hi]
    rfl
  -- model side
  have hfull : ∀ c : Bool, (rw.fields.filter (fun f => c || !f.isExt)).flatMap (fun f => Msg.encField f (valAt vals f.index)) =
      ((Spec.Msg.wireOrder d).filter (fun sf => c || !sf.ext)).flatMap (fun sf => Spec.Msg.encField sf (Spec.Msg.valOf vals sf.idx)) := by
    intro c
    rw [filter_flatMap_pairs rw.fields (·.isExt) _ c, hpairs,
      ← filter_flatMap_pairs (Spec.Msg.wireOrder d) (·.ext) (fun sf => Spec.Msg.encField sf (Spec.Msg.valOf vals sf.idx)) c]
  cases isV2 with
  | true =>
    have hf := hfull true
    have hall : (Spec.Msg.wireOrder d).filter (fun sf => true || !sf.ext) = Spec.Msg.wireOrder d := by simp
    rw [hall] at hf
    have hl : ((rw.fields.filter (fun f => true || !f.isExt)).flatMap (fun f => Msg.encField f (valAt vals f.index))).length =
        rw.sizeExtended.toNat := by
      have e : rw.fields.filter (fun f => true || !f.isExt) = rw.fields := by simp
      rw [e, flatMap_len vals rw.fields hw, hok.ext]
    simp only [Msg.encode, if_true, hl, Spec.Msg.encode, Spec.Msg.encodeFull]
    rw [hf, strip_eq_truncate]
  | false =>
    have hf := hfull false
    have hbase : (Spec.Msg.wireOrder d).filter (fun sf => false || !sf.ext) =
        Spec.Msg.stableSortDesc (d.fields.filter (!·.ext)) := by
      have : (fun sf : Spec.Msg.SField => false || !sf.ext) = (fun sf => !sf.ext) := by funext sf; simp
      rw [this]; exact wo_filter_base d
    rw [hbase] at hf
    have hw' : ∀ f ∈ rw.fields.filter (fun f => !f.isExt), wellTyped f (valAt vals f.index) = true :=
      fun f hf => hw f (List.mem_filter.mp hf).1
    have e : rw.fields.filter (fun f => false || !f.isExt) = rw.fields.filter (fun f => !f.isExt) := by simp
    have hl : ((rw.fields.filter (fun f => false || !f.isExt)).flatMap (fun f => Msg.encField f (valAt vals f.index))).length =
        rw.sizeNormal.toNat := by
      rw [e, flatMap_len vals _ hw', hok.base]
    simp only [Msg.encode, Bool.false_eq_true, if_false, hl, if_true, Spec.Msg.encode, Spec.Msg.encodeFull]
    rw [hf]

end Mav.PayloadLink
