import Mav.Proofs.LayoutLink
/-
  What a successful `Initialize` guarantees (C17 "rejected when it is initialized, not at first use"; hypothesis of the C04
  theorems): after `fix: reject at initialization the message structs that cannot be encoded`, every struct the model of
  `Initialize` accepts has byte-wide sizes that did not wrap (`rwOkB`), and is a MAVLink definition in the specification's
  sense (`Spec.Msg.ofGo` is defined on it).
-/
namespace Mav.InitSound
open Mav Msg SortLink LayoutLink

theorem initFields_mem : ∀ (gfs : List GoField) (i : Nat) (ds : List DField), initFields i gfs = .ok ds →
    ∀ d ∈ ds, ∃ j f, f ∈ gfs ∧ initField j f = .ok d := by
  intro gfs
  induction gfs with
  | nil =>
    intro i ds h d hd
    simp [initFields, pure, Except.pure] at h
    subst h; cases hd
  | cons f r ih =>
    intro i ds h d hd
    simp only [initFields, bind, Except.bind] at h
    cases h0 : initField i f with
    | error e => simp [h0] at h
    | ok d0 =>
      simp only [h0] at h
      cases hr : initFields (i + 1) r with
      | error e => simp [hr] at h
      | ok ds' =>
        simp only [hr, pure, Except.pure, Except.ok.injEq] at h
        subst h
        cases hd with
        | head => exact ⟨i, f, List.mem_cons_self, h0⟩
        | tail _ hm =>
          obtain ⟨j, g, hg, hj⟩ := ih (i + 1) ds' hr d hm
          exact ⟨j, g, List.mem_cons_of_mem _ hg, hj⟩

/-- shape of a field `initField` produced: the array length byte is the Go array length (1..255) of an array, the tag value
    (1..255) or 1 of a string, 0 of a scalar -/
theorem initField_shape (i : Nat) (f : GoField) (d : DField) (h : initField i f = .ok d) :
    (isStr d = true → 1 ≤ d.arrayLength.toNat) ∧
    (isStr d = false → d.goIsArray = f.isArray ∧ d.goArrLen = f.arrLen ∧
      d.arrayLength = (if f.isArray then UInt8.ofNat f.arrLen else 0)) ∧
    (f.isArray = true → 1 ≤ f.arrLen ∧ f.arrLen ≤ 255) := by
  obtain ⟨_, harr, hc⟩ := initField_ok i f d h
  refine ⟨?_, ?_, harr⟩
  all_goals
    unfold initFieldCore at hc
    by_cases he : f.mavenum ≠ ""
    · rw [if_pos he] at hc
      by_cases hu : f.elemIsUint64 = true
      · simp only [hu, Bool.not_true, Bool.false_eq_true, if_false] at hc
        cases ht : Gen.fieldTypeFromGo f.mavenum with
        | none => rw [ht] at hc; cases hc
        | some t =>
          rw [ht] at hc
          simp only at hc
          by_cases hcap : Gen.enumCapable t = true
          · simp only [hcap, Bool.not_true, Bool.false_eq_true, if_false, pure, Except.pure, Except.ok.injEq] at hc
            subst hc
            simp [isStr]
          · have : Gen.enumCapable t = false := by simpa using hcap
            simp only [this, Bool.not_false, if_true] at hc; cases hc
      · have : f.elemIsUint64 = false := by simpa using hu
        simp only [this, Bool.not_false, if_true] at hc; cases hc
    · rw [if_neg he] at hc
      cases ht : Gen.fieldTypeFromGo f.elemType with
      | none => rw [ht] at hc; cases hc
      | some t =>
        rw [ht] at hc
        simp only [bind, Except.bind] at hc
        by_cases hs : (f.elemType == "string") = true
        · have hs' : f.elemType = "string" := by simpa using hs
          have htc : t = .char := by
            rw [hs'] at ht; simp [Gen.fieldTypeFromGo] at ht; exact ht.symm
          rw [if_pos hs] at hc
          by_cases ha : f.isArray = true
          · simp [ha, throw, throwThe, MonadExceptOf.throw] at hc
          · have ha' : f.isArray = false := by simpa using ha
            simp only [ha', Bool.false_eq_true, if_false] at hc
            by_cases hl : (f.mavlen.length == 0) = true
            · simp only [hl, if_true, pure, Except.pure, Except.ok.injEq] at hc
              subst hc
              simp [isStr, htc]
            · simp only [hl, Bool.false_eq_true, if_false] at hc
              cases hat : atoi f.mavlen with
              | none => rw [hat] at hc; simp [throw, throwThe, MonadExceptOf.throw] at hc
              | some n =>
                rw [hat] at hc
                simp only at hc
                by_cases hr : (n < 1 || n > 255) = true
                · simp [hr, throw, throwThe, MonadExceptOf.throw] at hc
                · simp only [hr, Bool.false_eq_true, if_false, pure, Except.pure, Except.ok.injEq] at hc
                  subst hc
                  simp only [isStr, htc, beq_self_eq_true, Bool.not_false, Bool.and_self, forall_const]
                  first
                  | (simp only [Bool.or_eq_true, decide_eq_true_eq, not_or, Int.not_lt] at hr
                     unfold byteOfInt
                     simp only [UInt8.toNat_ofNat']
                     omega)
                  | simp
        · rw [if_neg hs] at hc
          simp only [pure, Except.pure, Except.ok.injEq] at hc
          subst hc
          have : t ≠ .char := by
            intro e; subst e
            have hne : f.elemType ≠ "string" := by simpa using hs
            revert ht
            unfold Gen.fieldTypeFromGo
            split <;> simp_all
          simp [isStr, this]

/-- for a field `initField` produced, the bytes the codec consumes for it are the size `Initialize` accounts for it -/
theorem fsize_eq_sizeNat (i : Nat) (f : GoField) (d : DField) (h : initField i f = .ok d) : fsize d = sizeNat d := by
  obtain ⟨h1, h2, h3⟩ := initField_shape i f d h
  unfold fsize sizeNat
  by_cases hs : isStr d = true
  · have hpos := h1 hs
    have hch : d.ftype = .char := by
      simp only [isStr, Bool.and_eq_true, beq_iff_eq] at hs; exact hs.1
    have hgt : d.arrayLength > 0 := by
      rw [gt_iff_lt, UInt8.lt_iff_toNat_lt]; simp only [UInt8.toNat_zero]; omega
    simp only [hs, if_true, hgt, hch]
    show d.arrayLength.toNat = 1 * d.arrayLength.toNat
    omega
  · have hs' : isStr d = false := by simpa using hs
    obtain ⟨ga, gl, al⟩ := h2 hs'
    simp only [hs', Bool.false_eq_true, if_false, width, nElems, ga, gl, al]
    by_cases ha : f.isArray = true
    · obtain ⟨lo, hi⟩ := h3 ha
      have hgt : UInt8.ofNat f.arrLen > 0 := by
        rw [gt_iff_lt, UInt8.lt_iff_toNat_lt]
        simp only [UInt8.toNat_ofNat', UInt8.toNat_zero]; omega
      simp only [ha, if_true, hgt, UInt8.toNat_ofNat']
      have : f.arrLen % 2 ^ 8 = f.arrLen := by omega
      rw [this]
    · have ha' : f.isArray = false := by simpa using ha
      have : ¬ ((0 : UInt8) > 0) := by decide
      simp [ha', this]

theorem size_toNat (d : DField) : d.size.toNat = sizeNat d % 256 := by
  unfold DField.size sizeNat
  by_cases h : d.arrayLength > 0
  · simp only [h, if_true, UInt8.toNat_mul]
  · simp only [h, if_false, Nat.mul_one]
    have := tsz_lt d.ftype
    rw [← sizes_tbl] at this
    omega

theorem sum_insertBy (g : DField → Nat) (a : DField) (l : List DField) :
    ((Msg.insertBy a l).map g).sum = g a + (l.map g).sum := by
  induction l with
  | nil => simp [Msg.insertBy]
  | cons y r ih =>
    simp only [Msg.insertBy]
    split
    · simp only [List.map_cons, List.sum_cons, ih]; omega
    · simp

theorem sum_sortFields (g : DField → Nat) (l : List DField) : ((sortFields l).map g).sum = (l.map g).sum := by
  induction l with
  | nil => rfl
  | cons a r ih =>
    show ((Msg.insertBy a (sortFields r)).map g).sum = _
    rw [sum_insertBy, ih]; simp

theorem sum_filter_eq (p : DField → Bool) (g : DField → Nat) (l : List DField) :
    ((l.filter p).map g).sum = (l.map (fun x => if p x then g x else 0)).sum := by
  induction l with
  | nil => rfl
  | cons x r ih =>
    by_cases hx : p x = true
    · simp [hx, ih]
    · have : p x = false := by simpa using hx
      simp [this, ih]

theorem filter_sortFields_sum (p : DField → Bool) (g : DField → Nat) (l : List DField) :
    (((sortFields l).filter p).map g).sum = ((l.filter p).map g).sum := by
  rw [sum_filter_eq, sum_filter_eq, sum_sortFields]

theorem sum_cond_le (p : DField → Bool) (g : DField → Nat) (l : List DField) :
    (l.map (fun x => if p x then g x else 0)).sum ≤ (l.map g).sum := by
  induction l with
  | nil => simp
  | cons x r ih =>
    simp only [List.map_cons, List.sum_cons]
    split <;> omega

/-- **the byte-wide sizes of an accepted struct did not wrap** -/
theorem accepted_never_wraps (st : GoStruct) (rw : RW) (h : Msg.init st = .ok rw) : rwOkB rw = true := by
  obtain ⟨_, fs, hfs, _, hsz, hrw⟩ := init_ok st rw h
  have hmem := initFields_mem st.fields 0 fs hfs
  have hfsz : fs.map fsize = fs.map sizeNat := by
    apply List.map_congr_left
    intro d hd
    obtain ⟨j, f, _, hj⟩ := hmem d hd
    exact fsize_eq_sizeNat j f d hj
  have htot : total fs = sizeTotal fs := by unfold total sizeTotal; rw [hfsz]
  subst hrw
  unfold rwOkB mkRW
  simp only [Bool.and_eq_true, beq_iff_eq]
  constructor
  · -- extended size
    show total (sortFields fs) = (fs.foldl (fun a f => a + f.size) (0 : UInt8)).toNat
    have e1 : total (sortFields fs) = total fs := sum_sortFields fsize fs
    have e2 : fs.foldl (fun a f => a + f.size) (0 : UInt8) = (fs.map DField.size).foldl (· + ·) 0 := by
      rw [List.foldl_map]
    rw [e1, e2, foldl_add_toNat, List.map_map]
    have e3 : (UInt8.toNat ∘ DField.size) = (fun d => sizeNat d % 256) := by
      funext d; exact size_toNat d
    have e4 : fs.map (fun d => sizeNat d % 256) = (fs.map sizeNat).map (· % 256) := by rw [List.map_map]; rfl
    rw [e3, e4, UInt8.toNat_zero, Nat.zero_add, sum_mod, htot]
    unfold sizeTotal at hsz ⊢
    omega
  · -- base size
    show total ((sortFields fs).filter (fun f => !f.isExt)) =
      (fs.foldl (fun a f => if f.isExt then a else a + f.size) (0 : UInt8)).toNat
    have e1 : total ((sortFields fs).filter (fun f => !f.isExt)) = total (fs.filter (fun f => !f.isExt)) :=
      filter_sortFields_sum _ fsize fs
    have e2 : fs.foldl (fun a f => if f.isExt then a else a + f.size) (0 : UInt8) =
        (fs.map (fun f => if f.isExt then (0 : UInt8) else f.size)).foldl (· + ·) 0 := by
      rw [List.foldl_map]
      congr 1
      funext a f
      split <;> simp
    rw [e1, e2, foldl_add_toNat, List.map_map]
    have e3 : (UInt8.toNat ∘ fun f : DField => if f.isExt then (0 : UInt8) else f.size) =
        (fun d => (if (!d.isExt) then sizeNat d else 0) % 256) := by
      funext d
      simp only [Function.comp]
      by_cases hx : d.isExt = true
      · simp [hx]
      · have : d.isExt = false := by simpa using hx
        simp [this, size_toNat]
    have e4 : fs.map (fun d => (if (!d.isExt) then sizeNat d else 0) % 256) =
        (fs.map (fun d => if (!d.isExt) then sizeNat d else 0)).map (· % 256) := by rw [List.map_map]; rfl
    rw [e3, e4, UInt8.toNat_zero, Nat.zero_add, sum_mod]
    have e5 : total (fs.filter (fun f => !f.isExt)) = (fs.map (fun d => if (!d.isExt) then sizeNat d else 0)).sum := by
      unfold total
      rw [sum_filter_eq]
      congr 1
      apply List.map_congr_left
      intro d hd
      obtain ⟨j, f, _, hj⟩ := hmem d hd
      rw [fsize_eq_sizeNat j f d hj]
    rw [e5]
    have := sum_cond_le (fun f => !f.isExt) sizeNat fs
    unfold sizeTotal at hsz
    omega

/-! ### an accepted struct is a definition -/

theorem enumCapable_eq (t : Gen.FType) :
    Gen.enumCapable t = (t == .uint8 || t == .int8 || t == .uint16 || t == .uint32 || t == .int32 || t == .uint64) := by
  cases t <;> rfl

theorem fieldOfGo_of_init (i : Nat) (f : GoField) (d : DField) (h : initField i f = .ok d) :
    ∃ sf, Spec.Msg.fieldOfGo i f = some sf ∧ sf.ext = d.isExt ∧ sf.size = sizeNat d ∧ arrOk sf := by
  obtain ⟨hex, harr, hc⟩ := initField_ok i f d h
  unfold Spec.Msg.fieldOfGo
  simp only [hex, Bool.not_true, Bool.false_eq_true, if_false]
  unfold initFieldCore at hc
  unfold Spec.Msg.fieldOfGoCore
  have hts := fun t => sizes_tbl t
  by_cases he : f.mavenum ≠ ""
  · rw [if_pos he] at hc
    rw [if_pos he]
    by_cases hu : f.elemIsUint64 = true
    · simp only [hu, Bool.not_true, Bool.false_eq_true, if_false] at hc ⊢
      cases ht : Gen.fieldTypeFromGo f.mavenum with
      | none => rw [ht] at hc; cases hc
      | some t =>
        rw [ht] at hc
        simp only at hc
        by_cases hcap : Gen.enumCapable t = true
        · simp only [hcap, Bool.not_true, Bool.false_eq_true, if_false, pure, Except.pure, Except.ok.injEq] at hc
          have hcap' := hcap
          rw [enumCapable_eq] at hcap'
          simp only [Option.bind_eq_bind, Option.bind_some, hcap', Bool.not_true, Bool.false_eq_true, if_false,
            Option.pure_def]
          subst hc
          refine ⟨_, rfl, rfl, ?_, ?_⟩
          · unfold Spec.Msg.SField.size sizeNat
            by_cases ha : f.isArray = true
            · obtain ⟨lo, hi⟩ := harr ha
              have hgt : UInt8.ofNat f.arrLen > 0 := by
                rw [gt_iff_lt, UInt8.lt_iff_toNat_lt]
                simp only [UInt8.toNat_ofNat', UInt8.toNat_zero]; omega
              have : f.arrLen % 2 ^ 8 = f.arrLen := by omega
              simp [ha, hgt, hts, this]
            · have ha' : f.isArray = false := by simpa using ha
              have : ¬ ((0 : UInt8) > 0) := by decide
              simp [ha', this, hts]
          · unfold arrOk
            by_cases ha : f.isArray = true
            · simp only [ha, if_true]; exact harr ha
            · have ha' : f.isArray = false := by simpa using ha
              simp [ha']
        · have : Gen.enumCapable t = false := by simpa using hcap
          simp only [this, Bool.not_false, if_true] at hc; cases hc
    · have : f.elemIsUint64 = false := by simpa using hu
      simp only [this, Bool.not_false, if_true] at hc; cases hc
  · rw [if_neg he] at hc
    rw [if_neg he]
    cases ht : Gen.fieldTypeFromGo f.elemType with
    | none => rw [ht] at hc; cases hc
    | some t =>
      rw [ht] at hc
      simp only [bind, Except.bind] at hc
      by_cases hs : (f.elemType == "string") = true
      · have hs' : f.elemType = "string" := by simpa using hs
        have htc : t = .char := by
          rw [hs'] at ht; simp [Gen.fieldTypeFromGo] at ht; exact ht.symm
        rw [if_pos hs] at hc
        rw [if_pos hs]
        by_cases ha : f.isArray = true
        · simp [ha, throw, throwThe, MonadExceptOf.throw] at hc
        · have ha' : f.isArray = false := by simpa using ha
          simp only [ha', Bool.false_eq_true, if_false] at hc ⊢
          by_cases hl : f.mavlen = ""
          · have hle : (f.mavlen == "") = true := by simp [hl]
            rw [if_pos hle]
            simp only [hl, String.length_empty, beq_self_eq_true, if_true, pure, Except.pure, Except.ok.injEq] at hc
            subst hc
            refine ⟨_, rfl, rfl, ?_, trivial⟩
            unfold Spec.Msg.SField.size sizeNat
            have : ((1 : UInt8) > 0) := by decide
            simp [htc, this, Spec.Msg.tySize]
            rfl
          · have hle : ¬ (f.mavlen == "") = true := by simpa using hl
            rw [if_neg hle]
            have hl2 : (f.mavlen.length == 0) = false := by
              have : f.mavlen.length ≠ 0 := fun h0 => hl (String.length_eq_zero_iff.mp h0)
              simpa using this
            simp only [hl2, Bool.false_eq_true, if_false] at hc
            cases hat : atoi f.mavlen with
            | none => rw [hat] at hc; simp [throw, throwThe, MonadExceptOf.throw] at hc
            | some z =>
              rw [hat] at hc
              simp only at hc
              by_cases hr : (z < 1 || z > 255) = true
              · simp [hr, throw, throwThe, MonadExceptOf.throw] at hc
              · simp only [hr, Bool.false_eq_true, if_false, pure, Except.pure, Except.ok.injEq] at hc
                simp only [Bool.or_eq_true, decide_eq_true_eq, not_or, Int.not_lt] at hr
                obtain ⟨n, hpn, hzn⟩ := parseLen_of_atoi f.mavlen z hat hr.1
                simp only [Option.bind_eq_bind, hpn, Option.bind_some, Option.pure_def]
                subst hc
                have hn1 : 1 ≤ n := by omega
                have hn2 : n ≤ 255 := by omega
                refine ⟨_, rfl, rfl, ?_, ⟨hn1, hn2⟩⟩
                unfold Spec.Msg.SField.size sizeNat
                subst hzn
                have hb : byteOfInt (n : Int) = UInt8.ofNat n := byteOfInt_nat n
                have hgt : UInt8.ofNat n > 0 := by
                  rw [gt_iff_lt, UInt8.lt_iff_toNat_lt]
                  simp only [UInt8.toNat_ofNat', UInt8.toNat_zero]; omega
                have : n % 2 ^ 8 = n := by omega
                simp [htc, hb, hgt, this, Spec.Msg.tySize]
                have : (Gen.fieldTypeSizes Gen.FType.char).toNat = 1 := rfl
                rw [this]; omega
      · rw [if_neg hs] at hc
        rw [if_neg hs]
        simp only [pure, Except.pure, Except.ok.injEq] at hc
        simp only [Option.bind_eq_bind, ht, Option.bind_some, Option.pure_def]
        subst hc
        refine ⟨_, rfl, rfl, ?_, ?_⟩
        · unfold Spec.Msg.SField.size sizeNat
          by_cases ha : f.isArray = true
          · obtain ⟨lo, hi⟩ := harr ha
            have hgt : UInt8.ofNat f.arrLen > 0 := by
              rw [gt_iff_lt, UInt8.lt_iff_toNat_lt]
              simp only [UInt8.toNat_ofNat', UInt8.toNat_zero]; omega
            have : f.arrLen % 2 ^ 8 = f.arrLen := by omega
            simp [ha, hgt, hts, this]
          · have ha' : f.isArray = false := by simpa using ha
            have : ¬ ((0 : UInt8) > 0) := by decide
            simp [ha', this, hts]
        · unfold arrOk
          by_cases ha : f.isArray = true
          · simp only [ha, if_true]; exact harr ha
          · have ha' : f.isArray = false := by simpa using ha
            simp [ha']

theorem fieldsOfGo_of_init : ∀ (gfs : List GoField) (i : Nat) (ds : List DField), initFields i gfs = .ok ds →
    ∃ sfs, Spec.Msg.fieldsOfGo i gfs = some sfs ∧ sfs.map (·.ext) = ds.map (·.isExt) ∧
      sfs.map Spec.Msg.SField.size = ds.map sizeNat ∧ ∀ sf ∈ sfs, arrOk sf := by
  intro gfs
  induction gfs with
  | nil =>
    intro i ds h
    simp [initFields, pure, Except.pure] at h
    subst h
    exact ⟨[], rfl, rfl, rfl, by simp⟩
  | cons f r ih =>
    intro i ds h
    simp only [initFields, bind, Except.bind] at h
    cases h0 : initField i f with
    | error e => simp [h0] at h
    | ok d0 =>
      simp only [h0] at h
      cases hr : initFields (i + 1) r with
      | error e => simp [hr] at h
      | ok ds' =>
        simp only [hr, pure, Except.pure, Except.ok.injEq] at h
        subst h
        obtain ⟨sf, hsf, e1, e2, e3⟩ := fieldOfGo_of_init i f d0 h0
        obtain ⟨sfs, hsfs, l1, l2, l3⟩ := ih (i + 1) ds' hr
        refine ⟨sf :: sfs, ?_, by simp [e1, l1], by simp [e2, l2], ?_⟩
        · simp [Spec.Msg.fieldsOfGo, hsf, hsfs]
        · intro x hx
          cases hx with
          | head => exact e3
          | tail _ hm => exact l3 x hm

theorem dropWhile_all_map {α β} (p : α → Bool) (q : β → Bool) :
    ∀ (l1 : List α) (l2 : List β), l1.map p = l2.map q →
      (l1.dropWhile (fun x => !p x)).all p = (l2.dropWhile (fun x => !q x)).all q := by
  intro l1
  induction l1 with
  | nil => intro l2 h; cases l2 with | nil => rfl | cons _ _ => simp at h
  | cons a r ih =>
    intro l2 h
    cases l2 with
    | nil => simp at h
    | cons b r2 =>
      simp only [List.map_cons, List.cons.injEq] at h
      obtain ⟨hab, hr⟩ := h
      have hall : ∀ (l1 : List α) (l2 : List β), l1.map p = l2.map q → l1.all p = l2.all q := by
        intro l1
        induction l1 with
        | nil => intro l2 h; cases l2 with | nil => rfl | cons _ _ => simp at h
        | cons a r ih2 =>
          intro l2 h
          cases l2 with
          | nil => simp at h
          | cons b r2 =>
            simp only [List.map_cons, List.cons.injEq] at h
            simp [h.1, ih2 r2 h.2]
      by_cases hp : p a = true
      · have hq : q b = true := by rw [← hab]; exact hp
        simp only [List.dropWhile_cons, hp, hq, Bool.not_true, Bool.false_eq_true, if_false]
        simp [hp, hq, hall r r2 hr]
      · have hp' : p a = false := by simpa using hp
        have hq : q b = false := by rw [← hab]; exact hp'
        simp only [List.dropWhile_cons, hp', hq, Bool.not_false, if_true]
        exact ih r2 hr

/-- **C17 (a malformed struct is rejected when it is initialized).** Whatever struct the model of `Initialize` accepts is a
    MAVLink definition in the specification's sense: exported fields of a supported type, enum fields of an integer type enums
    may use, array and string lengths 1..255, extension fields after the base fields, at most 255 bytes. Contrapositive: every
    struct that is not such a definition is refused by `Initialize` — not at the first Write or Read. -/
theorem accepted_is_definition (st : GoStruct) (rw : RW) (h : Msg.init st = .ok rw) : (Spec.Msg.ofGo st).isSome = true := by
  obtain ⟨hname, fs, hfs, hext, hsz, _⟩ := init_ok st rw h
  obtain ⟨sfs, hsfs, e1, e2, e3⟩ := fieldsOfGo_of_init st.fields 0 fs hfs
  unfold Spec.Msg.ofGo
  simp only [hname, Bool.not_true, Bool.false_eq_true, if_false, Option.bind_eq_bind, hsfs, Option.bind_some,
    Option.pure_def]
  have c1 : (sfs.dropWhile (!·.ext)).all (·.ext) = true := by
    rw [dropWhile_all_map (·.ext) (·.isExt) sfs fs e1]; exact hext
  have c3 : Spec.Msg.sizeExt { name := Spec.Msg.snakeUpper (Msg.msgSuffix st.name), fields := sfs } ≤ 255 := by
    unfold Spec.Msg.sizeExt
    simp only [e2]
    exact hsz
  split
  · rfl
  · rename_i hneg
    refine absurd ?_ hneg
    rw [Bool.and_eq_true, Bool.and_eq_true]
    refine ⟨⟨c1, ?_⟩, by simpa using c3⟩
    rw [List.all_eq_true]
    intro sf hm
    have := e3 sf hm
    unfold arrOk at this
    cases ha : sf.arr with
    | none => rfl
    | some n => rw [ha] at this; simp [this.1, this.2]

/-! ### every definition is accepted (the converse) -/

theorem initField_of_fieldOfGo (i : Nat) (f : GoField) (sf : Spec.Msg.SField)
    (h : Spec.Msg.fieldOfGo i f = some sf) (ha : arrOk sf) :
    ∃ d, initField i f = .ok d ∧ d.isExt = sf.ext ∧ sizeNat d = sf.size := by
  obtain ⟨hex, hc⟩ := fieldOfGo_ok i f sf h
  unfold Spec.Msg.fieldOfGoCore at hc
  have hts := fun t => sizes_tbl t
  -- the two guards of initField, once the array length is known to be in range
  have guard : (f.isArray = true → 1 ≤ f.arrLen ∧ f.arrLen ≤ 255) → initField i f = initFieldCore i f := by
    intro hr
    unfold initField
    simp only [hex, Bool.not_true, Bool.false_eq_true, if_false]
    by_cases hi : f.isArray = true
    · obtain ⟨lo, hi2⟩ := hr hi
      have : (decide (f.arrLen < 1) || decide (f.arrLen > 255)) = false := by
        simp only [Bool.or_eq_false_iff, decide_eq_false_iff_not]; omega
      rw [hi, this]; rfl
    · have : f.isArray = false := by simpa using hi
      simp [this]
  by_cases he : f.mavenum ≠ ""
  · rw [if_pos he] at hc
    simp only [Option.bind_eq_bind, Option.pure_def] at hc
    split at hc
    · cases hc
    · rename_i hu
      have hu' : f.elemIsUint64 = true := by simpa using hu
      cases ht : Gen.fieldTypeFromGo f.mavenum with
      | none => rw [ht] at hc; cases hc
      | some t =>
        rw [ht] at hc
        simp only [Option.bind_some] at hc
        split at hc
        · cases hc
        · rename_i hcap
          simp only [Option.some.injEq] at hc
          subst hc
          have hcap' : Gen.enumCapable t = true := by
            rw [enumCapable_eq]
            cases hb : (t == Gen.FType.uint8 || t == Gen.FType.int8 || t == Gen.FType.uint16 || t == Gen.FType.uint32 ||
              t == Gen.FType.int32 || t == Gen.FType.uint64) with
            | true => rfl
            | false => rw [hb] at hcap; exact absurd rfl hcap
          have hr : f.isArray = true → 1 ≤ f.arrLen ∧ f.arrLen ≤ 255 := by
            intro hi; unfold arrOk at ha; simpa [hi] using ha
          rw [guard hr]
          unfold initFieldCore
          simp only [he, ne_eq, not_false_eq_true, if_true, hu', Bool.not_true, Bool.false_eq_true, if_false, ht, hcap',
            pure, Except.pure]
          refine ⟨_, rfl, rfl, ?_⟩
          unfold Spec.Msg.SField.size sizeNat
          by_cases hi : f.isArray = true
          · obtain ⟨lo, hi2⟩ := hr hi
            have hgt : UInt8.ofNat f.arrLen > 0 := by
              rw [gt_iff_lt, UInt8.lt_iff_toNat_lt]
              simp only [UInt8.toNat_ofNat', UInt8.toNat_zero]; omega
            have : f.arrLen % 2 ^ 8 = f.arrLen := by omega
            simp [hi, hgt, hts, this]
          · have hi' : f.isArray = false := by simpa using hi
            have : ¬ ((0 : UInt8) > 0) := by decide
            simp [hi', this, hts]
  · rw [if_neg he] at hc
    simp only [Option.bind_eq_bind, Option.pure_def] at hc
    by_cases hs : (f.elemType == "string") = true
    · have hs' : f.elemType = "string" := by simpa using hs
      rw [if_pos hs] at hc
      split at hc
      · cases hc
      · rename_i hna
        have hna' : f.isArray = false := by simpa using hna
        have hr : f.isArray = true → 1 ≤ f.arrLen ∧ f.arrLen ≤ 255 := by intro hi; rw [hna'] at hi; cases hi
        rw [guard hr]
        unfold initFieldCore
        have htc : Gen.fieldTypeFromGo f.elemType = some .char := by rw [hs']; rfl
        split at hc
        · rename_i hl
          have hl' : f.mavlen = "" := by simpa using hl
          simp only [Option.some.injEq] at hc
          subst hc
          simp only [he, if_false, htc, hs, if_true, hna', Bool.false_eq_true, hl', String.length_empty, beq_self_eq_true,
            bind, Except.bind, pure, Except.pure]
          refine ⟨_, rfl, rfl, ?_⟩
          unfold Spec.Msg.SField.size sizeNat
          have : ((1 : UInt8) > 0) := by decide
          simp [this, Spec.Msg.tySize]
          rfl
        · rename_i hl
          have hl' : ¬ f.mavlen = "" := by simpa using hl
          have hl2 : (f.mavlen.length == 0) = false := by
            have : f.mavlen.length ≠ 0 := fun h0 => hl' (String.length_eq_zero_iff.mp h0)
            simpa using this
          cases hp : Spec.Msg.parseLen f.mavlen with
          | none => rw [hp] at hc; cases hc
          | some n =>
            rw [hp] at hc
            simp only [Option.bind_some, Option.some.injEq] at hc
            subst hc
            unfold arrOk at ha
            simp only at ha
            obtain ⟨lo, hi2⟩ := ha
            have hat := atoi_of_parseLen _ _ hp
            have hrange : ((n : Int) < 1 || (n : Int) > 255) = false := by
              simp only [Bool.or_eq_false_iff, decide_eq_false_iff_not]; omega
            simp only [he, if_false, htc, hs, if_true, hna', Bool.false_eq_true, hl2, hat, hrange,
              bind, Except.bind, pure, Except.pure]
            refine ⟨_, rfl, rfl, ?_⟩
            unfold Spec.Msg.SField.size sizeNat
            have hb : byteOfInt (n : Int) = UInt8.ofNat n := byteOfInt_nat n
            have hgt : UInt8.ofNat n > 0 := by
              rw [gt_iff_lt, UInt8.lt_iff_toNat_lt]
              simp only [UInt8.toNat_ofNat', UInt8.toNat_zero]; omega
            have : n % 2 ^ 8 = n := by omega
            simp [hb, hgt, this, Spec.Msg.tySize]
            have : (Gen.fieldTypeSizes Gen.FType.char).toNat = 1 := rfl
            rw [this]; omega
    · rw [if_neg hs] at hc
      cases ht : Gen.fieldTypeFromGo f.elemType with
      | none => rw [ht] at hc; cases hc
      | some t =>
        rw [ht] at hc
        simp only [Option.bind_some, Option.some.injEq] at hc
        subst hc
        have hr : f.isArray = true → 1 ≤ f.arrLen ∧ f.arrLen ≤ 255 := by
          intro hi; unfold arrOk at ha; simpa [hi] using ha
        rw [guard hr]
        unfold initFieldCore
        simp only [he, if_false, ht, hs, Bool.false_eq_true, bind, Except.bind, pure, Except.pure]
        refine ⟨_, rfl, rfl, ?_⟩
        unfold Spec.Msg.SField.size sizeNat
        by_cases hi : f.isArray = true
        · obtain ⟨lo, hi2⟩ := hr hi
          have hgt : UInt8.ofNat f.arrLen > 0 := by
            rw [gt_iff_lt, UInt8.lt_iff_toNat_lt]
            simp only [UInt8.toNat_ofNat', UInt8.toNat_zero]; omega
          have : f.arrLen % 2 ^ 8 = f.arrLen := by omega
          simp [hi, hgt, hts, this]
        · have hi' : f.isArray = false := by simpa using hi
          have : ¬ ((0 : UInt8) > 0) := by decide
          simp [hi', this, hts]

theorem initFields_of_fieldsOfGo : ∀ (gfs : List GoField) (i : Nat) (sfs : List Spec.Msg.SField),
    Spec.Msg.fieldsOfGo i gfs = some sfs → (∀ sf ∈ sfs, arrOk sf) →
    ∃ ds, initFields i gfs = .ok ds ∧ ds.map (·.isExt) = sfs.map (·.ext) ∧ ds.map sizeNat = sfs.map Spec.Msg.SField.size := by
  intro gfs
  induction gfs with
  | nil =>
    intro i sfs h _
    simp [Spec.Msg.fieldsOfGo] at h
    subst h
    exact ⟨[], rfl, rfl, rfl⟩
  | cons f r ih =>
    intro i sfs h ha
    simp only [Spec.Msg.fieldsOfGo, Option.bind_eq_bind] at h
    cases hsf : Spec.Msg.fieldOfGo i f with
    | none => simp [hsf] at h
    | some sf =>
      simp only [hsf, Option.bind_some] at h
      cases hsr : Spec.Msg.fieldsOfGo (i + 1) r with
      | none => simp [hsr] at h
      | some sfs' =>
        simp only [hsr, Option.bind_some, Option.pure_def, Option.some.injEq] at h
        subst h
        obtain ⟨d, hd, e1, e2⟩ := initField_of_fieldOfGo i f sf hsf (ha sf List.mem_cons_self)
        obtain ⟨ds, hds, l1, l2⟩ := ih (i + 1) sfs' hsr (fun x hx => ha x (List.mem_cons_of_mem _ hx))
        refine ⟨d :: ds, ?_, by simp [e1, l1], by simp [e2, l2]⟩
        simp [initFields, hd, hds, bind, Except.bind, pure, Except.pure]

/-- **every definition is accepted.** Together with `accepted_is_definition`: the model of `Initialize` accepts a struct exactly
    when it is a MAVLink definition in the specification's sense. -/
theorem definition_is_accepted (st : GoStruct) (d : Spec.Msg.SDef) (h : Spec.Msg.ofGo st = some d) :
    ∃ rw, Msg.init st = .ok rw := by
  unfold Spec.Msg.ofGo at h
  simp only [Option.bind_eq_bind] at h
  split at h
  · cases h
  · rename_i hname
    cases hsf : Spec.Msg.fieldsOfGo 0 st.fields with
    | none => simp [hsf] at h
    | some sfs =>
      simp only [hsf, Option.bind_some] at h
      split at h
      · rename_i hchk
        simp only [Bool.and_eq_true, decide_eq_true_eq] at hchk
        obtain ⟨⟨c1, c2⟩, c3⟩ := hchk
        have harr : ∀ sf ∈ sfs, arrOk sf := by
          intro sf hm
          rw [List.all_eq_true] at c2
          have := c2 sf hm
          unfold arrOk
          cases ha : sf.arr with
          | none => trivial
          | some n => rw [ha] at this; simpa using this
        obtain ⟨fs, hfs, e1, e2⟩ := initFields_of_fieldsOfGo st.fields 0 sfs hsf harr
        have hext : extOrderOk fs = true := by
          unfold extOrderOk
          rw [dropWhile_all_map (·.isExt) (·.ext) fs sfs e1]; exact c1
        have hsz : ¬ sizeTotal fs > 255 := by
          unfold sizeTotal
          rw [e2]
          unfold Spec.Msg.sizeExt at c3
          simpa using c3
        refine ⟨mkRW st fs, ?_⟩
        unfold Msg.init
        have hn : Msg.hasMsgPrefix st.name = true := by simpa using hname
        simp [hn, hfs, hext, hsz]
      · cases h

/-- **C17: `Initialize` accepts exactly the definitions.** -/
theorem accepted_iff_definition (st : GoStruct) : (∃ rw, Msg.init st = .ok rw) ↔ (Spec.Msg.ofGo st).isSome = true := by
  constructor
  · rintro ⟨rw, h⟩; exact accepted_is_definition st rw h
  · intro h
    cases hd : Spec.Msg.ofGo st with
    | none => rw [hd] at h; cases h
    | some d => exact definition_is_accepted st d hd

end Mav.InitSound
