import Mav.Model.Race
/-
  Three synchronisation disciplines, each sufficient for the absence of data races on a variable — for every program,
  every number of goroutines, every interleaving.
-/
namespace Mav.Race

theorem setProg_same (s : St) (g : Gid) (p : List Op) : (s.setProg g p).progs g = p := by simp [St.setProg]
theorem setProg_other (s : St) (g g' : Gid) (p : List Op) (h : g' ≠ g) : (s.setProg g p).progs g' = s.progs g' := by
  simp [St.setProg, h]

/-- every step replaces one goroutine's program by its tail and leaves the other programs alone -/
theorem step_progs {s s' : St} (h : Step s s') :
    ∃ g o rest, s.progs g = o :: rest ∧ s'.progs g = rest ∧ ∀ g', g' ≠ g → s'.progs g' = s.progs g' := by
  cases h with
  | read g v rest _ hp => exact ⟨g, _, rest, hp, setProg_same .., fun g' hg => setProg_other _ _ _ _ hg⟩
  | write g v rest _ hp => exact ⟨g, _, rest, hp, setProg_same .., fun g' hg => setProg_other _ _ _ _ hg⟩
  | other g rest _ hp => exact ⟨g, _, rest, hp, setProg_same .., fun g' hg => setProg_other _ _ _ _ hg⟩
  | spawn g c rest _ hp => exact ⟨g, _, rest, hp, setProg_same .., fun g' hg => setProg_other _ _ _ _ hg⟩
  | lock g m rest _ hp _ _ => exact ⟨g, _, rest, hp, setProg_same .., fun g' hg => setProg_other _ _ _ _ hg⟩
  | unlock g m rest _ hp _ => exact ⟨g, _, rest, hp, setProg_same .., fun g' hg => setProg_other _ _ _ _ hg⟩
  | rlock g m rest _ hp _ => exact ⟨g, _, rest, hp, setProg_same .., fun g' hg => setProg_other _ _ _ _ hg⟩
  | runlock g m rest _ hp _ => exact ⟨g, _, rest, hp, setProg_same .., fun g' hg => setProg_other _ _ _ _ hg⟩

/-- a property of the operations still to be executed, once true of every goroutine, stays true -/
theorem reach_all_ops (P : Gid → Op → Prop) (s0 s : St) (h : Reach s0 s) (h0 : ∀ g, ∀ o ∈ s0.progs g, P g o) :
    ∀ g, ∀ o ∈ s.progs g, P g o := by
  induction h with
  | refl => exact h0
  | step _ hs ih =>
    obtain ⟨g, o, rest, hp, hp', hother⟩ := step_progs hs
    intro g' o' ho'
    by_cases hg : g' = g
    · subst hg
      rw [hp'] at ho'
      exact ih g' o' (by rw [hp]; exact List.mem_cons_of_mem _ ho')
    · rw [hother g' hg] at ho'
      exact ih g' o' ho'

/-- **Read-only after publication.** If no goroutine's program writes `v`, no execution has a data race on `v`. -/
theorem readonly_no_race (v : Var) (s0 s : St) (h : Reach s0 s)
    (h0 : ∀ g, ∀ o ∈ s0.progs g, writes v o = false) : ¬ RaceOn v s := by
  intro ⟨g1, g2, o1, o2, r1, r2, _, _, _, hp1, hp2, _, _, hw⟩
  have hall := reach_all_ops (fun _ o => writes v o = false) s0 s h h0
  rcases hw with hw | hw
  · have := hall g1 o1 (by rw [hp1]; exact List.mem_cons_self ..); rw [this] at hw; cases hw
  · have := hall g2 o2 (by rw [hp2]; exact List.mem_cons_self ..); rw [this] at hw; cases hw

/-- **Confinement.** If only goroutine `g0`'s program accesses `v`, no execution has a data race on `v`. -/
theorem confined_no_race (v : Var) (g0 : Gid) (s0 s : St) (h : Reach s0 s)
    (h0 : ∀ g, ∀ o ∈ s0.progs g, g ≠ g0 → accesses v o = false) : ¬ RaceOn v s := by
  intro ⟨g1, g2, o1, o2, r1, r2, hne, _, _, hp1, hp2, ha1, ha2, _⟩
  have hall := reach_all_ops (fun g o => g ≠ g0 → accesses v o = false) s0 s h h0
  by_cases h1 : g1 = g0
  · have : g2 ≠ g0 := fun h2 => hne (h1.trans h2.symm)
    have := hall g2 o2 (by rw [hp2]; exact List.mem_cons_self ..) this
    rw [this] at ha2; cases ha2
  · have := hall g1 o1 (by rw [hp1]; exact List.mem_cons_self ..) h1
    rw [this] at ha1; cases ha1

/-! ### lock discipline -/

/-- how goroutine `g` holds mutex `m`: 2 = exclusively, 1 = shared, 0 = not at all -/
def mode (s : St) (m : Mu) (g : Gid) : Nat :=
  if s.owner m = some g then 2 else if g ∈ s.readers m then 1 else 0

/-- the program accesses `v` only while holding `m` — exclusively for a write, at least shared for a read — and uses `m`
    in a well-bracketed way; `h` is how `m` is held at the start -/
def guarded (v : Var) (m : Mu) : Nat → List Op → Bool
  | _, [] => true
  | h, .read w :: r => (w != v || decide (1 ≤ h)) && guarded v m h r
  | h, .write w :: r => (w != v || h == 2) && guarded v m h r
  | h, .lock m' :: r => if m' = m then h == 0 && guarded v m 2 r else guarded v m h r
  | h, .unlock m' :: r => if m' = m then h == 2 && guarded v m 0 r else guarded v m h r
  | h, .rlock m' :: r => if m' = m then h == 0 && guarded v m 1 r else guarded v m h r
  | h, .runlock m' :: r => if m' = m then h == 1 && guarded v m 0 r else guarded v m h r
  | h, .spawn _ :: r => guarded v m h r
  | h, .other :: r => guarded v m h r

structure LockInv (v : Var) (m : Mu) (s : St) : Prop where
  g : ∀ g, guarded v m (mode s m g) (s.progs g) = true
  excl : ∀ g, s.owner m = some g → s.readers m = []
  nodup : (s.readers m).Nodup

theorem step_lockinv (v : Var) (m : Mu) {s s' : St} (hs : Step s s') (hi : LockInv v m s) : LockInv v m s' := by
  obtain ⟨hg, hex, hnd⟩ := hi
  cases hs with
  | read g w rest _ hp =>
    refine ⟨fun g' => ?_, hex, hnd⟩
    have hm : mode (s.setProg g rest) m g' = mode s m g' := rfl
    by_cases hgg : g' = g
    · subst hgg; rw [hm, setProg_same]
      have := hg g'; rw [hp] at this; simp [guarded] at this; exact this.2
    · rw [hm, setProg_other _ _ _ _ hgg]; exact hg g'
  | write g w rest _ hp =>
    refine ⟨fun g' => ?_, hex, hnd⟩
    have hm : mode (s.setProg g rest) m g' = mode s m g' := rfl
    by_cases hgg : g' = g
    · subst hgg; rw [hm, setProg_same]
      have := hg g'; rw [hp] at this; simp [guarded] at this; exact this.2
    · rw [hm, setProg_other _ _ _ _ hgg]; exact hg g'
  | other g rest _ hp =>
    refine ⟨fun g' => ?_, hex, hnd⟩
    have hm : mode (s.setProg g rest) m g' = mode s m g' := rfl
    by_cases hgg : g' = g
    · subst hgg; rw [hm, setProg_same]
      have := hg g'; rw [hp] at this; simpa [guarded] using this
    · rw [hm, setProg_other _ _ _ _ hgg]; exact hg g'
  | spawn g c rest _ hp =>
    refine ⟨fun g' => ?_, hex, hnd⟩
    have hm : mode { s.setProg g rest with started := fun i => if i = c then true else s.started i } m g' = mode s m g' := rfl
    show guarded v m (mode _ m g') ((s.setProg g rest).progs g') = true
    by_cases hgg : g' = g
    · subst hgg; rw [hm, setProg_same]
      have := hg g'; rw [hp] at this; simpa [guarded] using this
    · rw [hm, setProg_other _ _ _ _ hgg]; exact hg g'
  | lock g m' rest _ hp hfree hnor =>
    by_cases hmm : m' = m
    · subst hmm
      have hmode0 : ∀ g', mode s m' g' = 0 := by intro g'; simp [mode, hfree, hnor]
      refine ⟨fun g' => ?_, ?_, ?_⟩
      · show guarded v m' (mode _ m' g') ((s.setProg g rest).progs g') = true
        by_cases hgg : g' = g
        · subst hgg
          have hm2 : mode { s.setProg g' rest with owner := fun i => if i = m' then some g' else s.owner i } m' g' = 2 := by
            simp [mode]
          rw [hm2, setProg_same]
          have := hg g'; rw [hp, hmode0] at this; simpa [guarded] using this
        · have hm0 : mode { s.setProg g rest with owner := fun i => if i = m' then some g else s.owner i } m' g' = 0 := by
            have : (some g = some g') = False := by simp; exact fun h => hgg h.symm
            simp [mode, St.setProg, hnor, this]
          rw [hm0, setProg_other _ _ _ _ hgg]
          have := hg g'; rw [hmode0] at this; exact this
      · intro _ _; exact hnor
      · exact hnd
    · refine ⟨fun g' => ?_, ?_, hnd⟩
      · have hm : mode { s.setProg g rest with owner := fun i => if i = m' then some g else s.owner i } m g' = mode s m g' := by
          have : ¬ m = m' := fun h => hmm h.symm
          simp [mode, St.setProg, this]
          all_goals rfl
        show guarded v m (mode _ m g') ((s.setProg g rest).progs g') = true
        by_cases hgg : g' = g
        · subst hgg; rw [hm, setProg_same]
          have := hg g'; rw [hp] at this; simpa [guarded, hmm] using this
        · rw [hm, setProg_other _ _ _ _ hgg]; exact hg g'
      · intro g' ho
        have : ¬ m = m' := fun h => hmm h.symm
        simp [this] at ho
        exact hex g' ho
  | unlock g m' rest _ hp hown =>
    by_cases hmm : m' = m
    · subst hmm
      have hnor := hex g hown
      refine ⟨fun g' => ?_, ?_, hnd⟩
      · have hm0 : mode { s.setProg g rest with owner := fun i => if i = m' then none else s.owner i } m' g' = 0 := by
          simp [mode, St.setProg, hnor]
        show guarded v m' (mode _ m' g') ((s.setProg g rest).progs g') = true
        rw [hm0]
        by_cases hgg : g' = g
        · subst hgg; rw [setProg_same]
          have h2 : mode s m' g' = 2 := by simp [mode, hown]
          have := hg g'; rw [hp, h2] at this; simpa [guarded] using this
        · rw [setProg_other _ _ _ _ hgg]
          have h0 : mode s m' g' = 0 := by
            have : (some g = some g') = False := by simp; exact fun h => hgg h.symm
            simp [mode, hown, hnor, this]
          have := hg g'; rw [h0] at this; exact this
      · intro g' ho; simp at ho
      
    · refine ⟨fun g' => ?_, ?_, hnd⟩
      · have hm : mode { s.setProg g rest with owner := fun i => if i = m' then none else s.owner i } m g' = mode s m g' := by
          have : ¬ m = m' := fun h => hmm h.symm
          simp [mode, St.setProg, this]
          all_goals rfl
        show guarded v m (mode _ m g') ((s.setProg g rest).progs g') = true
        by_cases hgg : g' = g
        · subst hgg; rw [hm, setProg_same]
          have := hg g'; rw [hp] at this; simpa [guarded, hmm] using this
        · rw [hm, setProg_other _ _ _ _ hgg]; exact hg g'
      · intro g' ho
        have : ¬ m = m' := fun h => hmm h.symm
        simp [this] at ho
        exact hex g' ho
  | rlock g m' rest _ hp hfree =>
    by_cases hmm : m' = m
    · subst hmm
      have hgm := hg g
      rw [hp] at hgm
      simp only [guarded, if_true, Bool.and_eq_true, beq_iff_eq] at hgm
      have hnot : g ∉ s.readers m' := by
        have := hgm.1
        simp [mode, hfree] at this
        exact this
      refine ⟨fun g' => ?_, ?_, ?_⟩
      · show guarded v m' (mode _ m' g') ((s.setProg g rest).progs g') = true
        by_cases hgg : g' = g
        · subst hgg
          have h1 : mode { s.setProg g' rest with readers := fun i => if i = m' then g' :: s.readers i else s.readers i } m' g' = 1 := by
            simp [mode, St.setProg, hfree]
          rw [h1, setProg_same]; exact hgm.2
        · have hm : mode { s.setProg g rest with readers := fun i => if i = m' then g :: s.readers i else s.readers i } m' g' = mode s m' g' := by
            simp [mode, St.setProg, hgg]
          rw [hm, setProg_other _ _ _ _ hgg]; exact hg g'
      · intro g' ho
        have : s.owner m' = some g' := ho
        rw [hfree] at this; cases this
      · show ((fun i => if i = m' then g :: s.readers i else s.readers i) m').Nodup
        simp [hnot, hnd]
    · refine ⟨fun g' => ?_, ?_, ?_⟩
      · have hm : mode { s.setProg g rest with readers := fun i => if i = m' then g :: s.readers i else s.readers i } m g' = mode s m g' := by
          have : ¬ m = m' := fun h => hmm h.symm
          simp [mode, St.setProg, this]
          all_goals rfl
        show guarded v m (mode _ m g') ((s.setProg g rest).progs g') = true
        by_cases hgg : g' = g
        · subst hgg; rw [hm, setProg_same]
          have := hg g'; rw [hp] at this; simpa [guarded, hmm] using this
        · rw [hm, setProg_other _ _ _ _ hgg]; exact hg g'
      · intro g' ho
        have : ¬ m = m' := fun h => hmm h.symm
        show (if m = m' then g :: s.readers m else s.readers m) = []
        simp [this]; exact hex g' ho
      · have : ¬ m = m' := fun h => hmm h.symm
        show (if m = m' then g :: s.readers m else s.readers m).Nodup
        simp [this, hnd]
  | runlock g m' rest _ hp hin =>
    by_cases hmm : m' = m
    · subst hmm
      have hown : s.owner m' = none := by
        cases ho : s.owner m' with
        | none => rfl
        | some g' => have := hex g' ho; rw [this] at hin; cases hin
      have hgm := hg g
      rw [hp] at hgm
      simp only [guarded, if_true, Bool.and_eq_true, beq_iff_eq] at hgm
      refine ⟨fun g' => ?_, ?_, ?_⟩
      · show guarded v m' (mode _ m' g') ((s.setProg g rest).progs g') = true
        by_cases hgg : g' = g
        · subst hgg
          have h0 : mode { s.setProg g' rest with readers := fun i => if i = m' then (s.readers i).erase g' else s.readers i } m' g' = 0 := by
            simp [mode, St.setProg, hown, hnd.mem_erase_iff]
          rw [h0, setProg_same]; exact hgm.2
        · have hm : mode { s.setProg g rest with readers := fun i => if i = m' then (s.readers i).erase g else s.readers i } m' g' = mode s m' g' := by
            simp [mode, St.setProg, hown, List.mem_erase_of_ne hgg]
          rw [hm, setProg_other _ _ _ _ hgg]; exact hg g'
      · intro g' ho
        have : s.owner m' = some g' := ho
        rw [hown] at this; cases this
      · show ((fun i => if i = m' then (s.readers i).erase g else s.readers i) m').Nodup
        simp; exact hnd.erase g
    · refine ⟨fun g' => ?_, ?_, ?_⟩
      · have hm : mode { s.setProg g rest with readers := fun i => if i = m' then (s.readers i).erase g else s.readers i } m g' = mode s m g' := by
          have : ¬ m = m' := fun h => hmm h.symm
          simp [mode, St.setProg, this]
          all_goals rfl
        show guarded v m (mode _ m g') ((s.setProg g rest).progs g') = true
        by_cases hgg : g' = g
        · subst hgg; rw [hm, setProg_same]
          have := hg g'; rw [hp] at this; simpa [guarded, hmm] using this
        · rw [hm, setProg_other _ _ _ _ hgg]; exact hg g'
      · intro g' ho
        have : ¬ m = m' := fun h => hmm h.symm
        show (if m = m' then (s.readers m).erase g else s.readers m) = []
        simp [this]; exact hex g' ho
      · have : ¬ m = m' := fun h => hmm h.symm
        show (if m = m' then (s.readers m).erase g else s.readers m).Nodup
        simp [this, hnd]

theorem lockinv_no_race (v : Var) (m : Mu) (s : St) (hi : LockInv v m s) : ¬ RaceOn v s := by
  intro ⟨g1, g2, o1, o2, r1, r2, hne, _, _, hp1, hp2, ha1, ha2, hw⟩
  -- whoever writes holds the mutex exclusively; then the other one holds nothing and may not touch v
  have key : ∀ ga gb oa ob ra rb, ga ≠ gb → s.progs ga = oa :: ra → s.progs gb = ob :: rb → writes v oa = true →
      accesses v ob = true → False := by
    intro ga gb oa ob ra rb hne hpa hpb hwa hab
    have h1 := hi.g ga; rw [hpa] at h1
    have h2 := hi.g gb; rw [hpb] at h2
    cases oa <;> simp [writes] at hwa
    subst hwa
    simp [guarded] at h1
    have hown : s.owner m = some ga := by
      have := h1.1
      unfold mode at this
      split at this
      · assumption
      · split at this <;> simp at this
    have hb0 : mode s m gb = 0 := by
      have : (some ga = some gb) = False := by simp; exact hne
      simp [mode, hown, hi.excl ga hown, this]
    rw [hb0] at h2
    cases ob <;> simp [accesses] at hab <;> subst hab <;> simp [guarded] at h2
  rcases hw with hw | hw
  · exact key g1 g2 o1 o2 r1 r2 hne hp1 hp2 hw ha2
  · exact key g2 g1 o2 o1 r2 r1 (fun h => hne h.symm) hp2 hp1 hw ha1

/-- **Lock discipline.** If every goroutine's program accesses `v` only while holding `m` (exclusively for writes) and nobody holds
    `m` initially, no execution has a data race on `v`. An access under a shared (read) lock that writes is NOT covered. -/
theorem locked_no_race (v : Var) (m : Mu) (s0 s : St) (h : Reach s0 s)
    (h0 : ∀ g, guarded v m 0 (s0.progs g) = true) (hfree : s0.owner m = none) (hnor : s0.readers m = []) : ¬ RaceOn v s := by
  have hinv : LockInv v m s := by
    induction h with
    | refl =>
      refine ⟨fun g => ?_, fun g hg => (by rw [hfree] at hg; cases hg), (by rw [hnor]; exact List.nodup_nil)⟩
      have : mode s0 m g = 0 := by simp [mode, hfree, hnor]
      rw [this]; exact h0 g
    | step _ hs ih => exact step_lockinv v m hs ih
  exact lockinv_no_race v m s hinv

end Mav.Race
