import Mav.Proofs.Progress
/- Helper lemmas: inversion of the reader — what a successful read tells about the consumed bytes. -/
namespace Mav
open Spec

theorem takeBytes_len_le (n : Nat) (s : Stream) : (takeBytes n s).1.length ≤ n := by
  induction n generalizing s with
  | zero => simp [takeBytes]
  | succ n ih =>
    cases s with
    | nil => simp [takeBytes]
    | cons x r =>
      cases x with
      | e k => simp [takeBytes]
      | b x => simp [takeBytes]; exact ih r

theorem peekDiscard_ok (n : Nat) (s s' : Stream) (bs : Bytes) (h : peekDiscard n s = (.ok bs, s')) :
    s = bytesToItems bs ++ s' ∧ bs.length = n := by
  unfold peekDiscard peek at h
  have h2 := takeBytes_items_rest n s
  generalize takeBytes n s = tb at *
  obtain ⟨b, r⟩ := tb
  simp only at h h2
  by_cases hb : b.length = n
  · simp [hb] at h
    obtain ⟨h1, h3⟩ := h
    subst h1 h3
    exact ⟨h2.symm, hb⟩
  · simp only [hb, if_false] at h
    cases r with
    | nil => simp at h
    | cons x r' => cases x <;> simp at h

theorem readFull_ok (n : Nat) (s s' : Stream) (bs : Bytes) (h : readFull n s = (.ok bs, s')) :
    s = bytesToItems bs ++ s' ∧ bs.length = n := by
  unfold readFull at h
  have h2 := takeBytes_items_rest n s
  generalize takeBytes n s = tb at *
  obtain ⟨b, r⟩ := tb
  simp only at h h2
  by_cases hb : b.length = n
  · simp [hb] at h
    obtain ⟨h1, h3⟩ := h
    subst h1 h3
    exact ⟨h2.symm, hb⟩
  · simp only [hb, if_false] at h
    cases r with
    | nil => simp at h
    | cons x r' => cases x <;> simp at h

theorem readPayload_ok (l : UInt8) (s s' : Stream) (p : Bytes) (h : readPayload l s = (.ok p, s')) :
    s = bytesToItems p ++ s' ∧ UInt8.ofNat p.length = l ∧ p.length ≤ 255 := by
  unfold readPayload at h
  split at h
  · obtain ⟨h1, h2⟩ := readFull_ok _ _ _ _ h
    refine ⟨h1, ?_, ?_⟩
    · rw [h2]; simp
    · have := l.toNat_lt; omega
  · rename_i hl
    simp at h
    obtain ⟨h1, h2⟩ := h
    subst h1 h2
    refine ⟨by simp, ?_, by simp⟩
    have : l = 0 := by
      apply UInt8.toNat_inj.mp
      have : ¬ ((0 : UInt8).toNat < l.toNat) := fun h => hl (UInt8.lt_iff_toNat_lt.mpr h)
      simp at this ⊢; omega
    simp [this]

theorem wire_ts_lt' (b0 b1 b2 b3 b4 b5 : UInt8) : (uint48Decode b0 b1 b2 b3 b4 b5).toNat < 2 ^ 48 := by
  apply Nat.lt_pow_two_of_testBit
  intro i hi
  have : (uint48Decode b0 b1 b2 b3 b4 b5).toNat.testBit i = (uint48Decode b0 b1 b2 b3 b4 b5).toBitVec.getLsbD i := rfl
  rw [this]
  simp [uint48Decode, Gen.uint48Decode]
  have a0 : ¬ (i < 8) := by omega
  have a1 : ¬ (i - 8 < 8) := by omega
  have a2 : ¬ (i - 16 < 8) := by omega
  have a3 : ¬ (i - 24 < 8) := by omega
  have a4 : ¬ (i - 32 < 8) := by omega
  have a5 : ¬ (i - 40 < 8) := by omega
  repeat' constructor
  all_goals (intros; apply BitVec.getLsbD_of_ge; omega)

theorem unmarshalV1_ok (s s' : Stream) (f : V1Frame) (h : unmarshalV1 s = (.ok f, s')) :
    WF (.v1 f) ∧ s = bytesToItems ((specBytes (.v1 f)).drop 1) ++ s' := by
  unfold unmarshalV1 at h
  split at h
  · simp at h
  · rename_i len seq sys comp id s1 h5
    obtain ⟨e5, _⟩ := peekDiscard_ok _ _ _ _ h5
    split at h
    · simp at h
    · rename_i p s2 hp
      obtain ⟨ep, hlen, hp255⟩ := readPayload_ok _ _ _ _ hp
      split at h
      · simp at h
      · rename_i c0 c1 s3 h2
        obtain ⟨e2, _⟩ := peekDiscard_ok _ _ _ _ h2
        simp at h
        obtain ⟨hf, hs⟩ := h
        subst hf hs
        have hid : id.toUInt32 ≤ 0xFF := by
          rw [UInt32.le_iff_toNat_le]; simp; have := id.toNat_lt; omega
        refine ⟨by simp [WF, wfb, hid, hp255], ?_⟩
        subst e5 ep e2
        simp [specBytes, v1Bytes, hlen, le16_unLe16]
      · simp at h
  · simp at h

theorem unmarshalV2_ok (s s' : Stream) (f : V2Frame) (h : unmarshalV2 s = (.ok f, s')) :
    WF (.v2 f) ∧ s = bytesToItems ((specBytes (.v2 f)).drop 1) ++ s' := by
  unfold unmarshalV2 at h
  split at h
  · simp at h
  · rename_i len ic c seq sys comp i0 i1 i2 s1 h9
    obtain ⟨e9, _⟩ := peekDiscard_ok _ _ _ _ h9
    split at h
    · simp at h
    · rename_i hic
      split at h
      · simp at h
      · rename_i p s2 hp
        obtain ⟨ep, hlen, hp255⟩ := readPayload_ok _ _ _ _ hp
        split at h
        · simp at h
        · rename_i c0 c1 s3 h2
          obtain ⟨e2, _⟩ := peekDiscard_ok _ _ _ _ h2
          simp only [] at h
          have hicv : ic = 0 ∨ ic = 1 := by
            simp [Gen.v2FlagSigned] at hic
            by_cases h0 : ic = 0
            · exact Or.inl h0
            · exact Or.inr (hic h0)
          rcases hicv with hic0 | hic1
          · subst hic0
            simp [V2Frame.isSigned, Gen.v2FlagSigned] at h
            obtain ⟨hf, hs⟩ := h
            subst hf hs
            refine ⟨by simp [WF, wfb, uint24Decode_lt, hp255], ?_⟩
            subst e9 ep e2
            simp [specBytes, v2Bytes, hlen, le16_unLe16, le24]
            have := uint24_enc_dec i0 i1 i2
            simp [uint24Encode, Gen.uint24Encode] at this
            simp [this]
          · subst hic1
            simp [V2Frame.isSigned, Gen.v2FlagSigned] at h
            split at h
            · simp at h
            · rename_i l t0 t1 t2 t3 t4 t5 g0 g1 g2 g3 g4 g5 s4 h13
              obtain ⟨e13, _⟩ := peekDiscard_ok _ _ _ _ h13
              simp at h
              obtain ⟨hf, hs⟩ := h
              subst hf hs
              have hts : uint48Decode t0 t1 t2 t3 t4 t5 < 0x1000000000000 := by
                rw [UInt64.lt_iff_toNat_lt]
                exact wire_ts_lt' t0 t1 t2 t3 t4 t5
              refine ⟨by simp [WF, wfb, uint24Decode_lt, hp255, hts], ?_⟩
              subst e9 ep e2 e13
              simp [specBytes, v2Bytes, hlen, le16_unLe16, le24, le48]
              have h24 := uint24_enc_dec i0 i1 i2
              simp [uint24Encode, Gen.uint24Encode] at h24
              have h48 := uint48_enc_dec t0 t1 t2 t3 t4 t5
              simp [uint48Encode, Gen.uint48Encode] at h48
              simp [h24, h48]
            · simp at h
        · simp at h
  · simp at h
end Mav
