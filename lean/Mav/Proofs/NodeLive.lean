import Mav.Proofs.Node2
/-
  Towards termination of `Node.Close` in the node transition system: shape invariants, a measure that every step of a
  closing node decreases, and progress (a closing node is never stuck before the event channel is closed).
-/
namespace Mav.Nd

def wGone : CPc → Bool
  | .bRecvR | .closeWait | .sendCloseChan | .finished => true
  | _ => false

def rwcMust : CPc → Bool
  | .aTermW _ | .aRecvW _ | .bTermW | .bRecvW | .bRecvR => true
  | _ => false

def wtMust : CPc → Bool
  | .aRecvW _ | .bRecvW => true
  | _ => false

def rGone : CPc → Bool
  | .aCloseRwc _ | .aTermW _ | .aRecvW _ | .closeWait | .sendCloseChan | .finished => true
  | _ => false

/-- where the goroutines of a channel can be, relative to `Channel.run` -/
structure Shape (x : ChanSt) : Prop where
  l1a : wGone x.cp = true → x.wp = .exited
  l1b : x.wp = .exited → wGone x.cp = true
  l2 : rwcMust x.cp = true → x.rwcClosed = true
  l3 : wtMust x.cp = true → x.writerTerm = true
  l4 : x.rp = .exited → rGone x.cp = true

theorem init_shape (inputs : Cid → List RdRes) (c : Cid) : Shape ((init inputs).chans c) := by
  constructor <;> simp [init, wGone, rwcMust, wtMust, rGone]

theorem shape_congr (x y : ChanSt) (h1 : y.cp = x.cp) (h2 : y.wp = x.wp) (h3 : y.rp = x.rp) (h4 : y.rwcClosed = x.rwcClosed)
    (h5 : y.writerTerm = x.writerTerm) (h : Shape x) : Shape y := by
  obtain ⟨a, b, c, d, e⟩ := h
  refine ⟨?_, ?_, ?_, ?_, ?_⟩ <;> simp only [h1, h2, h3, h4, h5] <;> assumption

theorem shape_upd (s : St) (c : Cid) (f : ChanSt → ChanSt) (c' : Cid) (hinv : ∀ c, Shape (s.chans c))
    (hf : Shape (s.chans c) → Shape (f (s.chans c))) : Shape ((upd s c f).chans c') := by
  by_cases hc : c' = c
  · subst hc; rw [upd_same]; exact hf (hinv c')
  · rw [upd_other _ _ _ _ hc]; exact hinv c'

/-- a dispatch touches only the queue and the ghost histories of a channel -/
theorem enq_frame (s : St) (t : Tgt) (it : Item) (pick : Cid → Bool) (c : Cid) (x : ChanSt) :
    (enq s t it pick c x).cp = x.cp ∧ (enq s t it pick c x).wp = x.wp ∧ (enq s t it pick c x).rp = x.rp ∧
    (enq s t it pick c x).rwcClosed = x.rwcClosed ∧ (enq s t it pick c x).writerTerm = x.writerTerm ∧
    (enq s t it pick c x).push = x.push ∧ (enq s t it pick c x).inputs = x.inputs ∧ (enq s t it pick c x).ctxDone = x.ctxDone := by
  unfold enq
  by_cases h1 : (s.members.contains c && t.hits c) = true
  · simp only [h1, if_true]
    by_cases h2 : (decide (x.queue.length < qcap) && (!x.ctxDone || pick c)) = true
    · simp only [h2, if_true]; simp
    · simp only [h2]; simp
  · simp only [h1]; simp

theorem shape_enq (s : St) (t : Tgt) (it : Item) (pick : Cid → Bool) (c : Cid) (x : ChanSt) (h : Shape x) : Shape (enq s t it pick c x) := by
  obtain ⟨a, b, c', d, e, _, _, _⟩ := enq_frame s t it pick c x
  exact shape_congr x _ a b c' d e h

macro "onchanS" c:term : tactic => `(tactic| (
  try dsimp only []
  refine shape_upd _ $c _ _ (by assumption) ?_))

macro "shirr" : tactic => `(tactic| (
  intro hi
  refine shape_congr _ _ ?_ ?_ ?_ ?_ ?_ hi <;> rfl))

macro "shstep" : tactic => `(tactic| (
  intro hi
  obtain ⟨l1a, l1b, l2, l3, l4⟩ := hi
  refine ⟨?_, ?_, ?_, ?_, ?_⟩ <;> simp_all [wGone, rwcMust, wtMust, rGone]))

theorem step_shape {s s' : St} (h : Step s s') (ho : ∀ c, Own (s.chans c)) (hinv : ∀ c, Shape (s.chans c)) : ∀ c, Shape (s'.chans c) := by
  intro c'
  cases h with
  | dispatch t it pick _ => exact shape_enq s t it pick c' _ (hinv c')
  | closeNode => exact hinv c'
  | provExit _ => exact hinv c'
  | nodeBreak _ _ => exact hinv c'
  | nodeToWait _ _ => exact hinv c'
  | nodeFinish _ _ _ => exact hinv c'
  | nodeCloseChan c h1 h2 h3 => (onchanS c; shirr)
  | newChan c h1 h2 h3 h4 => (onchanS c; shstep)
  | newChanTerm c h1 h2 h3 h4 h5 h6 h7 => (onchanS c; shstep)
  | pBegin c ev h1 h2 h3 => (onchanS c; shirr)
  | pSkip c ev h1 h2 h3 => (onchanS c; shirr)
  | pDeliver c ev h1 h2 => (onchanS c; shirr)
  | pDrop c ev h1 h2 => (onchanS c; shirr)
  | rResume c h1 h2 => (onchanS c; shstep)
  | rReadOk c r rest ev h1 h2 h3 h4 => (onchanS c; shstep)
  | rReadFatal c e rest h1 h2 => (onchanS c; shstep)
  | rReadClosed c h1 h2 => (onchanS c; shstep)
  | wDequeue c it rest h1 h2 h3 => (onchanS c; shstep)
  | wOk c it h1 => (onchanS c; shstep)
  | wFail c it h1 => (onchanS c; shstep)
  | wTerm c h1 h2 => (onchanS c; shstep)
  | cReaderDone c e h1 h2 => (onchanS c; shstep)
  | cCtxDone c h1 h2 => (onchanS c; shstep)
  | cACloseRwc c e h1 => (onchanS c; shstep)
  | cATermW c e h1 => (onchanS c; shstep)
  | cARecvW c e h1 h2 h3 => (onchanS c; shstep)
  | cBTermW c h1 => (onchanS c; shstep)
  | cBRecvW c h1 h2 => (onchanS c; shstep)
  | cBCloseRwc c h1 => (onchanS c; shstep)
  | cBRecvR c e h1 h2 h3 => (onchanS c; shstep)
  | cCloseResume c h1 h2 => (onchanS c; shstep)
  | cUnregister c h1 h2 => (onchanS c; shstep)
  | cUnregisterTerm c h1 h2 => (onchanS c; shstep)

theorem reach_shape (inputs : Cid → List RdRes) (s : St) (h : Reach (init inputs) s) : ∀ c, Shape (s.chans c) := by
  induction h with
  | refl => exact init_shape inputs
  | step hr hs ih => exact step_shape hs (reach_struct inputs _ hr).2 ih

end Mav.Nd

namespace Mav.Nd

/-! ### the measure -/

def cpRank : CPc → Nat
  | .notStarted => 0 | .wait => 40 | .aCloseRwc _ => 36 | .aTermW _ => 32 | .aRecvW _ => 28
  | .bCloseRwc => 36 | .bTermW => 32 | .bRecvW => 28 | .bRecvR => 24 | .closeWait => 12 | .sendCloseChan => 6 | .finished => 0

def pushRank : PushPc → Nat
  | .idle => 0 | .begin _ => 2 | .pushing _ => 1

def rpRank : RPc → Nat
  | .waitPush => 2 | .read => 1 | .sendDone _ => 0 | .exited => 0

def wpRank : WPc → Nat
  | .idle => 2 | .writing _ => 3 | .sendDone => 1 | .exited => 0

/-- work a channel still has to do before `Channel.run` returns: bounded by its position, the input still to be read and
    the backlog still to be written -/
def kappa (x : ChanSt) : Nat :=
  cpRank x.cp + pushRank x.push + rpRank x.rp + 4 * x.inputs.length + wpRank x.wp + 2 * x.queue.length + (if x.ctxDone then 0 else 1)

def npcRank : NPc → Nat
  | .loop => 3 | .epilogue => 2 | .waiting => 1 | .done => 0

def ksum (s : St) (l : List Cid) : Nat := (l.map (fun c => kappa (s.chans c))).sum

def mu (s : St) : Nat := npcRank s.npc + (if s.provDone then 0 else 1) + ksum s s.members

theorem ksum_congr (s s' : St) (l : List Cid) (h : ∀ c ∈ l, s'.chans c = s.chans c) : ksum s' l = ksum s l := by
  induction l with
  | nil => rfl
  | cons a r ih =>
    simp only [ksum, List.map_cons, List.sum_cons] at ih ⊢
    rw [h a (List.mem_cons_self ..), ih (fun c hc => h c (List.mem_cons_of_mem _ hc))]

theorem ksum_upd_le (s : St) (c : Cid) (f : ChanSt → ChanSt) (l : List Cid) (h : kappa (f (s.chans c)) ≤ kappa (s.chans c)) :
    ksum (upd s c f) l ≤ ksum s l := by
  induction l with
  | nil => simp [ksum]
  | cons a r ih =>
    simp only [ksum, List.map_cons, List.sum_cons] at ih ⊢
    by_cases ha : a = c
    · subst ha; rw [upd_same]; omega
    · rw [upd_other _ _ _ _ ha]; omega

theorem ksum_upd_lt (s : St) (c : Cid) (f : ChanSt → ChanSt) (l : List Cid) (hc : c ∈ l)
    (h : kappa (f (s.chans c)) < kappa (s.chans c)) : ksum (upd s c f) l < ksum s l := by
  induction l with
  | nil => cases hc
  | cons a r ih =>
    simp only [ksum, List.map_cons, List.sum_cons] at ih ⊢
    have hle := ksum_upd_le s c f r (Nat.le_of_lt h)
    simp only [ksum] at hle
    by_cases ha : a = c
    · subst ha; rw [upd_same]; omega
    · rw [upd_other _ _ _ _ ha]
      have : c ∈ r := by
        rcases List.mem_cons.mp hc with h1 | h1
        · exact absurd h1.symm ha
        · exact h1
      have := ih this
      omega

/-- a step of one registered channel that lowers that channel's measure lowers the node's -/
theorem mu_upd_lt (s : St) (c : Cid) (f : ChanSt → ChanSt) (hc : c ∈ s.members)
    (h : kappa (f (s.chans c)) < kappa (s.chans c)) : mu (upd s c f) < mu s := by
  have := ksum_upd_lt s c f s.members hc h
  simp only [mu]
  have e1 : (upd s c f).npc = s.npc := rfl
  have e2 : (upd s c f).provDone = s.provDone := rfl
  have e3 : (upd s c f).members = s.members := rfl
  rw [e1, e2, e3]; omega

/-- a channel that has started and not finished is registered -/
theorem member_of_active (s : St) (hg : Glob s) (c : Cid) (h1 : (s.chans c).cp ≠ .notStarted) (h2 : (s.chans c).cp ≠ .finished) :
    c ∈ s.members := by
  rcases hg.g2 c h1 with h | h
  · exact h
  · exact absurd h h2

end Mav.Nd

namespace Mav.Nd

macro "active" hg:ident ho:ident hs:ident c:term : tactic => `(tactic| (
  refine member_of_active _ $hg $c ?_ ?_
  · intro hcp
    have h5 := ($ho $c).o5 hcp
    simp_all
  · intro hcp
    have h6 := ($ho $c).o6 (by rw [hcp]; rfl)
    have h3 := ($ho $c).o3 h6
    have hw := ($hs $c).l1a (by rw [hcp]; rfl)
    simp_all))

macro "chanlt" hg:ident ho:ident hs:ident c:term : tactic => `(tactic| (
  right
  try dsimp only []
  refine mu_upd_lt _ $c _ (by active $hg $ho $hs $c) ?_
  simp_all [kappa, cpRank, pushRank, rpRank, wpRank]
  try omega))

theorem closeNode_id (s : St) (h : s.terminate = true) : { s with terminate := true } = s := by
  cases s; simp_all

theorem provExit_id (s : St) (h : s.provDone = true) : { s with provDone := true } = s := by
  cases s; simp_all

/-- **Every step of a closing node whose loop has seen `terminate` and whose providers have returned makes progress**: it
    lowers the measure (or is a repeated `Close`, which changes nothing). -/
theorem step_decreases {s s' : St} (h : Step s s') (hg : Glob s) (ho : ∀ c, Own (s.chans c)) (hs : ∀ c, Shape (s.chans c))
    (ht : s.terminate = true) (hn : s.npc ≠ .loop) (hp : s.provDone = true) : s' = s ∨ mu s' < mu s := by
  cases h with
  | dispatch t it pick h1 => exact absurd h1 hn
  | newChan c h1 h2 h3 h4 => exact absurd h1 hn
  | newChanTerm c h1 h2 h3 h4 h5 h6 h7 => rw [hp] at h2; cases h2
  | closeNode => exact Or.inl (closeNode_id s ht)
  | provExit _ => exact Or.inl (provExit_id s hp)
  | nodeBreak h1 _ => exact absurd h1 hn
  | nodeToWait h1 _ => right; simp [mu, h1, npcRank, ksum]
  | nodeFinish h1 _ _ => right; simp [mu, h1, npcRank, ksum]
  | nodeCloseChan c h1 h2 h3 =>
    right
    refine mu_upd_lt _ c _ h2 ?_
    simp [kappa, h3]
  | pBegin c ev h1 h2 h3 => rw [ht] at h3; cases h3
  | pSkip c ev h1 h2 h3 => chanlt hg ho hs c
  | pDeliver c ev h1 h2 =>
    right
    have hm : c ∈ s.members := by active hg ho hs c
    have := mu_upd_lt s c (fun x => { x with push := .idle, delivered := x.delivered ++ [ev] }) hm
      (by simp [kappa, h1, pushRank])
    simpa [mu, ksum] using this
  | pDrop c ev h1 h2 => chanlt hg ho hs c
  | rResume c h1 h2 => chanlt hg ho hs c
  | rReadOk c r rest ev h1 h2 h3 h4 => chanlt hg ho hs c
  | rReadFatal c e rest h1 h2 => chanlt hg ho hs c
  | rReadClosed c h1 h2 => chanlt hg ho hs c
  | wDequeue c it rest h1 h2 h3 => chanlt hg ho hs c
  | wOk c it h1 => chanlt hg ho hs c
  | wFail c it h1 => chanlt hg ho hs c
  | wTerm c h1 h2 => chanlt hg ho hs c
  | cReaderDone c e h1 h2 => chanlt hg ho hs c
  | cCtxDone c h1 h2 => chanlt hg ho hs c
  | cACloseRwc c e h1 => chanlt hg ho hs c
  | cATermW c e h1 => chanlt hg ho hs c
  | cARecvW c e h1 h2 h3 => chanlt hg ho hs c
  | cBTermW c h1 => chanlt hg ho hs c
  | cBRecvW c h1 h2 => chanlt hg ho hs c
  | cBCloseRwc c h1 => chanlt hg ho hs c
  | cBRecvR c e h1 h2 h3 => chanlt hg ho hs c
  | cCloseResume c h1 h2 => chanlt hg ho hs c
  | cUnregister c h1 h2 => exact absurd h2 hn
  | cUnregisterTerm c h1 h2 => chanlt hg ho hs c

end Mav.Nd

namespace Mav.Nd

/-! ### progress -/

structure Glob2 (s : St) : Prop where
  k1 : s.npc = .waiting → ∀ c ∈ s.members, (s.chans c).ctxDone = true
  k2 : s.npc = .done → s.evClosed = true

theorem init_glob2 (inputs : Cid → List RdRes) : Glob2 (init inputs) := by
  constructor <;> simp [init]

/-- a channel step that never clears `ctxDone` keeps Glob2 -/
theorem glob2_upd (s : St) (c : Cid) (f : ChanSt → ChanSt) (h : Glob2 s)
    (hf : (f (s.chans c)).ctxDone = true ∨ (f (s.chans c)).ctxDone = (s.chans c).ctxDone) : Glob2 (upd s c f) := by
  refine ⟨fun hn c' hc' => ?_, h.k2⟩
  have := h.k1 hn c' hc'
  by_cases hcc : c' = c
  · subst hcc; rw [upd_same]; rcases hf with hf | hf
    · exact hf
    · rw [hf]; exact this
  · rw [upd_other _ _ _ _ hcc]; exact this

macro "g2same" h2:ident c:term : tactic => `(tactic| (
  try dsimp only []
  exact glob2_upd _ $c _ $h2 (Or.inr rfl)))

theorem step_glob2 {s s' : St} (h : Step s s') (h2 : Glob2 s) : Glob2 s' := by
  cases h with
  | dispatch t it pick h1 =>
    refine ⟨fun hn => ?_, h2.k2⟩
    have : s.npc = .waiting := hn
    rw [h1] at this; cases this
  | closeNode => exact ⟨h2.k1, h2.k2⟩
  | provExit _ => exact ⟨h2.k1, h2.k2⟩
  | nodeBreak h1 _ => exact ⟨fun hn => (by cases hn), fun hn => (by cases hn)⟩
  | nodeToWait h1 ha => exact ⟨fun _ => ha, fun hn => (by cases hn)⟩
  | nodeFinish _ _ _ => exact ⟨fun hn => (by cases hn), fun _ => rfl⟩
  | nodeCloseChan c h1 _ _ => exact glob2_upd _ c _ h2 (Or.inl rfl)
  | newChan c h1 _ _ _ =>
    refine ⟨fun hn => ?_, fun hn => ?_⟩
    · have : s.npc = .waiting := hn
      rw [h1] at this; cases this
    · have : s.npc = .done := hn
      rw [h1] at this; cases this
  | newChanTerm c _ _ _ _ _ _ _ => exact glob2_upd _ c _ h2 (Or.inl rfl)
  | pBegin c ev _ _ _ => g2same h2 c
  | pSkip c ev _ _ _ => g2same h2 c
  | pDeliver c ev _ _ =>
    have := glob2_upd s c (fun x => { x with push := .idle, delivered := x.delivered ++ [ev] }) h2 (Or.inr rfl)
    exact ⟨this.k1, this.k2⟩
  | pDrop c ev _ _ => g2same h2 c
  | rResume c _ _ => g2same h2 c
  | rReadOk c r rest ev _ _ _ _ => g2same h2 c
  | rReadFatal c e rest _ _ => g2same h2 c
  | rReadClosed c _ _ => g2same h2 c
  | wDequeue c it rest _ _ _ => g2same h2 c
  | wOk c it _ => g2same h2 c
  | wFail c it _ => g2same h2 c
  | wTerm c _ _ => g2same h2 c
  | cReaderDone c e _ _ => g2same h2 c
  | cCtxDone c _ _ => g2same h2 c
  | cACloseRwc c e _ => g2same h2 c
  | cATermW c e _ => g2same h2 c
  | cARecvW c e _ _ _ => exact glob2_upd _ c _ h2 (Or.inl rfl)
  | cBTermW c _ => g2same h2 c
  | cBRecvW c _ _ => g2same h2 c
  | cBCloseRwc c _ => g2same h2 c
  | cBRecvR c e _ _ _ => g2same h2 c
  | cCloseResume c _ _ => g2same h2 c
  | cUnregister c _ hl =>
    refine ⟨fun hn => ?_, fun hn => ?_⟩
    · have : s.npc = .waiting := hn
      rw [hl] at this; cases this
    · have : s.npc = .done := hn
      rw [hl] at this; cases this
  | cUnregisterTerm c _ _ => g2same h2 c

theorem reach_glob2 (inputs : Cid → List RdRes) (s : St) (h : Reach (init inputs) s) : Glob2 s := by
  induction h with
  | refl => exact init_glob2 inputs
  | step _ hs ih => exact step_glob2 hs ih

macro "viaStep" c:term "," hm:ident "," st:term : tactic => `(tactic| (
  refine ⟨_, $st, ?_⟩
  refine mu_upd_lt _ $c _ $hm ?_
  simp_all [kappa, cpRank, pushRank, rpRank, wpRank]
  try omega))

/-- a registered, unfinished channel of a closing node whose context has been cancelled can always take a step, and the step
    lowers the measure: whatever its reader, writer and `Channel.run` are doing -/
theorem chan_progress (s : St) (ho : ∀ c, Own (s.chans c)) (hs : ∀ c, Shape (s.chans c)) (c : Cid)
    (hm : c ∈ s.members) (hns : (s.chans c).cp ≠ .notStarted) (hnf : (s.chans c).cp ≠ .finished)
    (hctx : (s.chans c).ctxDone = true) (ht : s.terminate = true) : ∃ s', Step s s' ∧ mu s' < mu s := by
  have hO := ho c
  have hS := hs c
  cases hcp : (s.chans c).cp with
  | notStarted => exact absurd hcp hns
  | finished => exact absurd hcp hnf
  | wait => viaStep c, hm, Step.cCtxDone s c hcp hctx
  | aCloseRwc e => viaStep c, hm, Step.cACloseRwc s c e hcp
  | aTermW e => viaStep c, hm, Step.cATermW s c e hcp
  | bCloseRwc => viaStep c, hm, Step.cBCloseRwc s c hcp
  | bTermW => viaStep c, hm, Step.cBTermW s c hcp
  | sendCloseChan => viaStep c, hm, Step.cUnregisterTerm s c hcp ht
  | aRecvW e =>
    have hwt := hS.l3 (by rw [hcp]; rfl)
    cases hwp : (s.chans c).wp with
    | idle => viaStep c, hm, Step.wTerm s c hwp hwt
    | writing it => viaStep c, hm, Step.wFail s c it hwp
    | sendDone =>
      have hrp := hO.o6 (by rw [hcp]; rfl)
      have hpush : (s.chans c).push = .idle := by
        rcases hO.o3 hrp with h | h
        · rw [hcp] at h; cases h
        · exact h
      viaStep c, hm, Step.cARecvW s c e hcp hwp hpush
    | exited => have := hS.l1b hwp; rw [hcp] at this; cases this
  | bRecvW =>
    have hwt := hS.l3 (by rw [hcp]; rfl)
    cases hwp : (s.chans c).wp with
    | idle => viaStep c, hm, Step.wTerm s c hwp hwt
    | writing it => viaStep c, hm, Step.wFail s c it hwp
    | sendDone => viaStep c, hm, Step.cBRecvW s c hcp hwp
    | exited => have := hS.l1b hwp; rw [hcp] at this; cases this
  | bRecvR =>
    have hrwc := hS.l2 (by rw [hcp]; rfl)
    cases hrp : (s.chans c).rp with
    | waitPush =>
      cases hpu : (s.chans c).push with
      | idle => viaStep c, hm, Step.rResume s c hrp hpu
      | begin ev => viaStep c, hm, Step.pSkip s c ev hns hpu ht
      | pushing ev => viaStep c, hm, Step.pDrop s c ev hpu ht
    | read => viaStep c, hm, Step.rReadClosed s c hrp hrwc
    | sendDone e =>
      have hpush := hO.o2 e hrp
      viaStep c, hm, Step.cBRecvR s c e hcp hrp hpush
    | exited => have := hS.l4 hrp; rw [hcp] at this; cases this
  | closeWait =>
    cases hpu : (s.chans c).push with
    | idle => viaStep c, hm, Step.cCloseResume s c hcp hpu
    | begin ev => viaStep c, hm, Step.pSkip s c ev hns hpu ht
    | pushing ev => viaStep c, hm, Step.pDrop s c ev hpu ht

/-- **A closing node is never stuck.** In every reachable state in which `Close` has been called and the event channel is
    not closed yet, some goroutine can take a step that lowers the measure. -/
theorem close_progress (inputs : Cid → List RdRes) (s : St) (hr : Reach (init inputs) s)
    (ht : s.terminate = true) (he : s.evClosed = false) : ∃ s', Step s s' ∧ mu s' < mu s := by
  obtain ⟨hg, ho⟩ := reach_struct inputs s hr
  have hs := reach_shape inputs s hr
  have h2 := reach_glob2 inputs s hr
  cases hn : s.npc with
  | loop => exact ⟨_, Step.nodeBreak s hn ht, by simp [mu, hn, npcRank, ksum]⟩
  | done => have := h2.k2 hn; rw [he] at this; cases this
  | epilogue =>
    by_cases hall : ∀ c ∈ s.members, (s.chans c).ctxDone = true
    · exact ⟨_, Step.nodeToWait s hn hall, by simp [mu, hn, npcRank, ksum]⟩
    · have : ∃ c, c ∈ s.members ∧ (s.chans c).ctxDone = false := by
        apply Classical.byContradiction
        intro hne
        apply hall
        intro c hc
        cases hcd : (s.chans c).ctxDone with
        | true => rfl
        | false => exact absurd ⟨c, hc, hcd⟩ hne
      obtain ⟨c, hc, hcd⟩ := this
      exact ⟨_, Step.nodeCloseChan s c hn hc hcd, mu_upd_lt _ c _ hc (by simp [kappa, hcd])⟩
  | waiting =>
    cases hp : s.provDone with
    | false => exact ⟨_, Step.provExit s ht, by simp [mu, hp, ksum]⟩
    | true =>
      by_cases hall : ∀ c ∈ s.members, (s.chans c).cp = .finished
      · exact ⟨_, Step.nodeFinish s hn hp hall, by simp [mu, hn, npcRank, ksum]⟩
      · have : ∃ c, c ∈ s.members ∧ (s.chans c).cp ≠ .finished := by
          apply Classical.byContradiction
          intro hne
          apply hall
          intro c hc
          apply Classical.byContradiction
          intro hcf
          exact hne ⟨c, hc, hcf⟩
        obtain ⟨c, hc, hcf⟩ := this
        have hns : (s.chans c).cp ≠ .notStarted := fun h => hg.g1 c h hc
        exact chan_progress s ho hs c hc hns hcf (h2.k1 hn c hc) ht

end Mav.Nd

namespace Mav.Nd

/-- once the loop has been left, the providers have returned and Close has been called, it stays so -/
theorem closing_stable {s s' : St} (h : Step s s') (ht : s.terminate = true) (hn : s.npc ≠ .loop) (hp : s.provDone = true) :
    s'.terminate = true ∧ s'.npc ≠ .loop ∧ s'.provDone = true := by
  cases h <;> simp_all [upd, dispatch]

/-- `n` steps that change the state -/
inductive Chain : St → Nat → St → Prop
  | nil (s) : Chain s 0 s
  | cons {s s' s'' n} : Step s s' → s' ≠ s → Chain s' n s'' → Chain s (n + 1) s''

/-- **Close terminates (bounded).** Once the node loop has seen `terminate` and the providers have returned, at most `mu s`
    state-changing steps can follow, whatever the interleaving. -/
theorem closing_bounded (inputs : Cid → List RdRes) (s : St) (n : Nat) (s'' : St) (hc : Chain s n s'') :
    Reach (init inputs) s → s.terminate = true → s.npc ≠ .loop → s.provDone = true → n ≤ mu s := by
  induction hc with
  | nil s => intro _ _ _ _; exact Nat.zero_le _
  | @cons s1 s2 s3 m hs hne _ ih =>
    intro hr ht hn hp
    obtain ⟨hg, ho⟩ := reach_struct inputs s1 hr
    have hsh := reach_shape inputs s1 hr
    rcases step_decreases hs hg ho hsh ht hn hp with h | h
    · exact absurd h hne
    · obtain ⟨a, b, c⟩ := closing_stable hs ht hn hp
      have := ih (Reach.step hr hs) a b c
      omega

end Mav.Nd
