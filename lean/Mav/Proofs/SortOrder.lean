/-
  Ordering of message fields: the model's sort (insertion with the comparator of `sort.Slice` in ReadWriter.Initialize) and
  the specification's (stable sort of the base fields by decreasing primitive size, extensions after them as declared)
  produce the same order, for every field list whose extensions come after its base fields.
  Abstract setting: an item is (declaration index, extension?, primitive size).
-/
namespace Mav.SortOrder

structure Item where
  idx : Nat
  ext : Bool
  sz : Nat
deriving DecidableEq, Repr

/-- the comparator of ReadWriter.Initialize -/
def less (a b : Item) : Bool :=
  if !a.ext && !b.ext && a.sz != b.sz then decide (a.sz > b.sz) else decide (a.idx < b.idx)

def insertBy (x : Item) : List Item → List Item
  | [] => [x]
  | y :: r => if less y x then y :: insertBy x r else x :: y :: r

def isort (l : List Item) : List Item := l.foldr insertBy []

/-- the specification: stable insertion by decreasing size … -/
def insertStable (x : Item) : List Item → List Item
  | [] => [x]
  | y :: r => if y.sz ≥ x.sz then y :: insertStable x r else x :: y :: r

def stableSortDesc (l : List Item) : List Item := l.foldl (fun acc x => insertStable x acc) []

/-- … of the base fields, then the extensions as declared -/
def specOrder (l : List Item) : List Item := stableSortDesc (l.filter (!·.ext)) ++ l.filter (·.ext)

/-- well-formed field list: indices strictly increasing (declaration order), extensions after base fields -/
def IdxSorted : List Item → Prop
  | [] => True
  | a :: r => (∀ b ∈ r, a.idx < b.idx) ∧ IdxSorted r

def ExtAfterBase : List Item → Prop
  | [] => True
  | a :: r => (a.ext = true → ∀ b ∈ r, b.ext = true) ∧ ExtAfterBase r

/-! ### the comparator is a strict total order on a well-formed list -/

/-- the property of the universe of items that makes `less` an order: distinct indices, and every base item is declared
    before every extension -/
structure Good (U : List Item) : Prop where
  inj : ∀ a ∈ U, ∀ b ∈ U, a.idx = b.idx → a = b
  be : ∀ a ∈ U, ∀ b ∈ U, a.ext = false → b.ext = true → a.idx < b.idx

theorem less_irrefl (a : Item) : less a a = false := by simp [less]

theorem less_asymm (a b : Item) (h : less a b = true) : less b a = false := by
  unfold less at *
  by_cases hc : (!a.ext && !b.ext && a.sz != b.sz) = true
  · have hc' : (!b.ext && !a.ext && b.sz != a.sz) = true := by
      simp only [Bool.and_eq_true, Bool.not_eq_true', bne_iff_ne, ne_eq] at hc ⊢
      exact ⟨⟨hc.1.2, hc.1.1⟩, fun h => hc.2 h.symm⟩
    simp only [hc, hc', if_true, decide_eq_true_eq, decide_eq_false_iff_not] at h ⊢; omega
  · have hc' : (!b.ext && !a.ext && b.sz != a.sz) = false := by
      simp only [Bool.and_eq_true, Bool.not_eq_true', bne_iff_ne, ne_eq, not_and, Bool.not_eq_true] at hc
      cases hb : b.ext <;> cases ha : a.ext <;> simp_all
      try (intro h; exact hc h.symm)
    simp only [hc, hc', Bool.false_eq_true, if_false, decide_eq_true_eq, decide_eq_false_iff_not] at h ⊢; omega

theorem less_total (U : List Item) (hU : Good U) (a b : Item) (ha : a ∈ U) (hb : b ∈ U) (hne : a ≠ b) :
    less a b = true ∨ less b a = true := by
  have hidx : a.idx ≠ b.idx := fun h => hne (hU.inj a ha b hb h)
  unfold less
  by_cases hc : (!a.ext && !b.ext && a.sz != b.sz) = true
  · have hc' : (!b.ext && !a.ext && b.sz != a.sz) = true := by
      simp only [Bool.and_eq_true, Bool.not_eq_true', bne_iff_ne, ne_eq] at hc ⊢
      exact ⟨⟨hc.1.2, hc.1.1⟩, fun h => hc.2 h.symm⟩
    simp only [hc, hc', if_true, decide_eq_true_eq]
    simp only [Bool.and_eq_true, bne_iff_ne, ne_eq] at hc
    omega
  · have hc' : (!b.ext && !a.ext && b.sz != a.sz) = false := by
      simp only [Bool.and_eq_true, Bool.not_eq_true', bne_iff_ne, ne_eq, not_and, Bool.not_eq_true] at hc
      cases hb : b.ext <;> cases ha : a.ext <;> simp_all
      try (intro h; exact hc h.symm)
    simp only [hc, hc', Bool.false_eq_true, if_false, decide_eq_true_eq]; omega

theorem less_trans (U : List Item) (hU : Good U) (a b c : Item) (ha : a ∈ U) (hb : b ∈ U) (hc : c ∈ U)
    (h1 : less a b = true) (h2 : less b c = true) : less a c = true := by
  unfold less at *
  cases hae : a.ext <;> cases hbe : b.ext <;> cases hce : c.ext <;>
    simp only [hae, hbe, hce, Bool.not_true, Bool.not_false, Bool.true_and, Bool.false_and, Bool.and_false, Bool.false_eq_true, if_false] at h1 h2 ⊢
  · -- all base
    by_cases hab : a.sz = b.sz <;> by_cases hbc : b.sz = c.sz <;> by_cases hac : a.sz = c.sz <;>
      simp_all <;> omega
  · -- a, b base; c ext: by index, and a is base so a.idx < c.idx
    have := hU.be a ha c hc hae hce
    simp; exact this
  · -- a base, b ext, c base: b < c by index contradicts base-before-ext
    have := hU.be c hc b hb hce hbe
    simp at h2; omega
  · have := hU.be a ha c hc hae hce
    simp; exact this
  · -- a ext, b base: a < b by index contradicts
    have := hU.be b hb a ha hbe hae
    simp at h1; omega
  · have := hU.be b hb a ha hbe hae
    simp at h1; omega
  · have := hU.be c hc b hb hce hbe
    simp at h2; omega
  · simp at h1 h2 ⊢; omega

end Mav.SortOrder

namespace Mav.SortOrder

def Sorted (l : List Item) : Prop := l.Pairwise (fun a b => less a b = true)

theorem insertBy_perm (x : Item) (l : List Item) : (insertBy x l).Perm (x :: l) := by
  induction l with
  | nil => exact List.Perm.refl _
  | cons y r ih =>
    simp only [insertBy]
    split
    · exact (List.Perm.cons y ih).trans (List.Perm.swap x y r)
    · exact List.Perm.refl _

theorem mem_insertBy (x z : Item) (l : List Item) : z ∈ insertBy x l ↔ z = x ∨ z ∈ l := by
  rw [(insertBy_perm x l).mem_iff]; simp

theorem insertBy_sorted (U : List Item) (hU : Good U) (x : Item) (l : List Item) (hx : x ∈ U) (hl : ∀ y ∈ l, y ∈ U)
    (hnx : x ∉ l) (hs : Sorted l) : Sorted (insertBy x l) := by
  induction l with
  | nil => simp [insertBy, Sorted]
  | cons y r ih =>
    have hy : y ∈ U := hl y (List.mem_cons_self ..)
    have hr : ∀ z ∈ r, z ∈ U := fun z hz => hl z (List.mem_cons_of_mem _ hz)
    have hne : x ≠ y := fun h => hnx (h ▸ List.mem_cons_self ..)
    have hnr : x ∉ r := fun h => hnx (List.mem_cons_of_mem _ h)
    unfold Sorted at hs ⊢
    rw [List.pairwise_cons] at hs
    simp only [insertBy]
    by_cases hc : less y x = true
    · simp only [hc, if_true, List.pairwise_cons]
      refine ⟨?_, ih hr hnr hs.2⟩
      intro z hz
      rcases (mem_insertBy x z r).mp hz with h | h
      · rw [h]; exact hc
      · exact hs.1 z h
    · have hcf : less y x = false := by simpa using hc
      simp only [hcf, Bool.false_eq_true, if_false, List.pairwise_cons]
      have hxy : less x y = true := by
        rcases less_total U hU x y hx hy hne with h | h
        · exact h
        · exact absurd h hc
      refine ⟨?_, hs.1, hs.2⟩
      intro z hz
      rcases List.mem_cons.mp hz with h | h
      · rw [h]; exact hxy
      · exact less_trans U hU x y z hx hy (hr z h) hxy (hs.1 z h)

theorem isort_perm (l : List Item) : (isort l).Perm l := by
  induction l with
  | nil => exact List.Perm.refl _
  | cons a r ih => exact (insertBy_perm a (isort r)).trans (List.Perm.cons a ih)

theorem isort_sorted (U : List Item) (hU : Good U) (l : List Item) (hl : ∀ y ∈ l, y ∈ U) (hnd : l.Nodup) : Sorted (isort l) := by
  induction l with
  | nil => simp [isort, Sorted]
  | cons a r ih =>
    rw [List.nodup_cons] at hnd
    have hr : ∀ y ∈ r, y ∈ U := fun y hy => hl y (List.mem_cons_of_mem _ hy)
    show Sorted (insertBy a (isort r))
    refine insertBy_sorted U hU a (isort r) (hl a (List.mem_cons_self ..)) ?_ ?_ (ih hr hnd.2)
    · intro y hy; exact hr y ((isort_perm r).mem_iff.mp hy)
    · intro h; exact hnd.1 ((isort_perm r).mem_iff.mp h)

/-- a strict total order has one sorted arrangement of a set -/
theorem sorted_unique : ∀ (l1 l2 : List Item), Sorted l1 → Sorted l2 → l1.Perm l2 → l1 = l2 := by
  intro l1
  induction l1 with
  | nil => intro l2 _ _ hp; exact (List.Perm.nil_eq hp)
  | cons a r1 ih =>
    intro l2 h1 h2 hp
    cases l2 with
    | nil => exact absurd hp.symm (by intro h; have := h.length_eq; simp at this)
    | cons b r2 =>
      unfold Sorted at h1 h2
      rw [List.pairwise_cons] at h1 h2
      have hab : a = b := by
        apply Classical.byContradiction
        intro hne
        have ha : a ∈ b :: r2 := hp.mem_iff.mp (List.mem_cons_self ..)
        have hb : b ∈ a :: r1 := hp.mem_iff.mpr (List.mem_cons_self ..)
        have ha' : a ∈ r2 := by
          rcases List.mem_cons.mp ha with h | h
          · exact absurd h hne
          · exact h
        have hb' : b ∈ r1 := by
          rcases List.mem_cons.mp hb with h | h
          · exact absurd h.symm hne
          · exact h
        have x1 := h1.1 b hb'
        have x2 := h2.1 a ha'
        rw [less_asymm a b x1] at x2; cases x2
      subst hab
      rw [ih r2 h1.2 h2.2 (List.Perm.cons_inv hp)]

end Mav.SortOrder

namespace Mav.SortOrder

/-- order of the base fields in the specification: size decreasing, declaration order within a size -/
def precS (a b : Item) : Prop := a.sz > b.sz ∨ (a.sz = b.sz ∧ a.idx < b.idx)

theorem insertStable_perm (x : Item) (l : List Item) : (insertStable x l).Perm (x :: l) := by
  induction l with
  | nil => exact List.Perm.refl _
  | cons y r ih =>
    simp only [insertStable]
    split
    · exact (List.Perm.cons y ih).trans (List.Perm.swap x y r)
    · exact List.Perm.refl _

/-- inserting an item declared after everything already there keeps the order -/
theorem insertStable_sorted (x : Item) (l : List Item) (hs : l.Pairwise precS) (hlate : ∀ y ∈ l, y.idx < x.idx) :
    (insertStable x l).Pairwise precS := by
  induction l with
  | nil => simp [insertStable]
  | cons y r ih =>
    rw [List.pairwise_cons] at hs
    simp only [insertStable]
    by_cases hc : y.sz ≥ x.sz
    · simp only [hc, if_true, List.pairwise_cons]
      refine ⟨?_, ih hs.2 (fun z hz => hlate z (List.mem_cons_of_mem _ hz))⟩
      intro z hz
      rcases ((insertStable_perm x r).mem_iff.mp hz |> List.mem_cons.mp) with h | h
      · rw [h]
        have := hlate y (List.mem_cons_self ..)
        unfold precS
        by_cases he : y.sz = x.sz
        · exact Or.inr ⟨he, this⟩
        · left; omega
      · exact hs.1 z h
    · simp only [hc, if_false, List.pairwise_cons]
      refine ⟨?_, hs.1, hs.2⟩
      intro z hz
      rcases List.mem_cons.mp hz with h | h
      · rw [h]; left; omega
      · have := hs.1 z h
        unfold precS at this ⊢
        left; rcases this with h1 | h1 <;> omega

theorem stableSortDesc_aux (acc l : List Item) (hs : acc.Pairwise precS) (hl : IdxSorted l)
    (hlate : ∀ y ∈ acc, ∀ x ∈ l, y.idx < x.idx) :
    (l.foldl (fun acc x => insertStable x acc) acc).Pairwise precS ∧ (l.foldl (fun acc x => insertStable x acc) acc).Perm (acc ++ l) := by
  induction l generalizing acc with
  | nil => simp [hs]
  | cons x r ih =>
    simp only [List.foldl_cons]
    have h1 := insertStable_sorted x acc hs (fun y hy => hlate y hy x (List.mem_cons_self ..))
    have hp := insertStable_perm x acc
    have := ih (insertStable x acc) h1 hl.2 (by
      intro y hy z hz
      rcases List.mem_cons.mp (hp.mem_iff.mp hy) with h | h
      · rw [h]; exact hl.1 z hz
      · exact hlate y h z (List.mem_cons_of_mem _ hz))
    refine ⟨this.1, this.2.trans ?_⟩
    have : (insertStable x acc ++ r).Perm (x :: acc ++ r) := List.Perm.append_right r hp
    refine this.trans ?_
    simp only [List.cons_append]
    exact (List.perm_middle (l₁ := acc) (a := x) (l₂ := r)).symm

theorem idxSorted_filter (p : Item → Bool) (l : List Item) (h : IdxSorted l) : IdxSorted (l.filter p) := by
  induction l with
  | nil => simp [IdxSorted]
  | cons a r ih =>
    simp only [List.filter_cons]
    split
    · exact ⟨fun b hb => h.1 b (List.mem_filter.mp hb).1, ih h.2⟩
    · exact ih h.2

theorem idxSorted_nodup (l : List Item) (h : IdxSorted l) : l.Nodup := by
  induction l with
  | nil => exact List.nodup_nil
  | cons a r ih =>
    rw [List.nodup_cons]
    refine ⟨fun ha => ?_, ih h.2⟩
    have := h.1 a ha; omega

theorem idxSorted_pairwise (l : List Item) (h : IdxSorted l) : l.Pairwise (fun a b => a.idx < b.idx) := by
  induction l with
  | nil => exact List.Pairwise.nil
  | cons a r ih => exact List.Pairwise.cons h.1 (ih h.2)

/-- a declaration-ordered list with extensions last is a good universe -/
theorem good_of (l : List Item) (h1 : IdxSorted l) (h2 : ExtAfterBase l) : Good l := by
  induction l with
  | nil => exact ⟨by simp, by simp⟩
  | cons a r ih =>
    obtain ⟨gi, gb⟩ := ih h1.2 h2.2
    constructor
    · intro x hx y hy hxy
      rcases List.mem_cons.mp hx with hx1 | hx1
      · rcases List.mem_cons.mp hy with hy1 | hy1
        · rw [hx1, hy1]
        · subst hx1; have := h1.1 y hy1; omega
      · rcases List.mem_cons.mp hy with hy1 | hy1
        · subst hy1; have := h1.1 x hx1; omega
        · exact gi x hx1 y hy1 hxy
    · intro x hx y hy hxe hye
      rcases List.mem_cons.mp hx with hx1 | hx1
      · rcases List.mem_cons.mp hy with hy1 | hy1
        · subst hx1; subst hy1; rw [hxe] at hye; cases hye
        · subst hx1; exact h1.1 y hy1
      · rcases List.mem_cons.mp hy with hy1 | hy1
        · subst hy1; have := h2.1 hye x hx1; rw [hxe] at this; cases this
        · exact gb x hx1 y hy1 hxe hye

/-- **the model's order is the specification's**, for every declaration-ordered field list with the extensions last -/
theorem isort_eq_spec (l : List Item) (h1 : IdxSorted l) (h2 : ExtAfterBase l) : isort l = specOrder l := by
  have hG := good_of l h1 h2
  have hsb := stableSortDesc_aux [] (l.filter (!·.ext)) List.Pairwise.nil (idxSorted_filter _ l h1) (by simp)
  simp only [List.nil_append] at hsb
  have hperm : (specOrder l).Perm l := by
    unfold specOrder stableSortDesc
    refine (List.Perm.append_right _ hsb.2).trans ?_
    have := List.filter_append_perm (fun (x : Item) => !x.ext) l
    simpa using this
  apply sorted_unique
  · exact isort_sorted l hG l (fun _ h => h) (idxSorted_nodup l h1)
  · -- the specification's list is sorted for the comparator
    unfold Sorted specOrder stableSortDesc
    rw [List.pairwise_append]
    refine ⟨?_, ?_, ?_⟩
    · refine hsb.1.imp_of_mem ?_
      intro a b ha hb hab
      have hae : a.ext = false := by
        have := (List.mem_filter.mp (hsb.2.mem_iff.mp ha)).2; simpa using this
      have hbe : b.ext = false := by
        have := (List.mem_filter.mp (hsb.2.mem_iff.mp hb)).2; simpa using this
      unfold less precS at *
      simp only [hae, hbe, Bool.not_false, Bool.true_and]
      rcases hab with h | ⟨h, h'⟩
      · have : (a.sz != b.sz) = true := by simp; omega
        simp [this, h]
      · have : (a.sz != b.sz) = false := by simp [h]
        simp [this, h']
    · refine (idxSorted_pairwise _ (idxSorted_filter _ l h1)).imp_of_mem ?_
      intro a b ha _ hab
      have hae : a.ext = true := (List.mem_filter.mp ha).2
      simp [less, hae, hab]
    · intro a ha b hb
      have hae : a.ext = false := by
        have := (List.mem_filter.mp (hsb.2.mem_iff.mp ha)).2; simpa using this
      have ha' : a ∈ l := (List.mem_filter.mp (hsb.2.mem_iff.mp ha)).1
      have hb' := List.mem_filter.mp hb
      have := hG.be a ha' b hb'.1 hae hb'.2
      simp [less, hb'.2, this]
  · exact (isort_perm l).trans hperm.symm

end Mav.SortOrder
