import Mav.Proofs.X25
import Mav.Model.X25
namespace Mav
open Spec

theorem x25_step_uint (c : UInt16) (b : UInt8) : (Gen.x25Step c b).toBitVec = crcByte c.toBitVec b.toBitVec := by
  have := x25_step_eq_ref c.toBitVec b.toBitVec
  simpa [stepBV] using this

theorem x25_write_eq (bs : Bytes) (c : UInt16) :
    (X25.write c bs).toBitVec = bs.foldl (fun c b => crcByte c b.toBitVec) c.toBitVec := by
  induction bs generalizing c with
  | nil => simp [X25.write]
  | cons b r ih =>
    simp only [X25.write, List.foldl_cons] at ih ⊢
    rw [ih, x25_step_uint]

/-- the model's X25 equals the bitwise CRC-16/MCRF4XX on every byte string -/
theorem x25_sum_eq_crc16 (bs : Bytes) : (X25.sum bs).toBitVec = crc16 bs := by
  simp [X25.sum, crc16, x25_write_eq, X25.init, crcInit]
end Mav
