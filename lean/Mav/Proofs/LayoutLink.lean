import Mav.Proofs.SortLink
import Mav.Proofs.Crc
/-
  Sizes and CRC_EXTRA for EVERY struct (C03): whenever the model of `ReadWriter.Initialize` accepts a Go struct, the struct is a
  MAVLink definition in the specification's sense and its identifiers are exported Go identifiers (first letter A-Z), the
  payload sizes and the CRC_EXTRA the model computes are those the specification derives from the definition.
-/
namespace Mav.LayoutLink
open Mav Msg SortOrder SortLink

/-! ### names -/

def firstUpper (s : String) : Prop := ∃ c r, s.toList = c :: r ∧ isUpper c = true

theorem isUpper_iff (c : Char) : isUpper c = c.isUpper := by
  simp only [isUpper, Char.isUpper]
  rw [Bool.eq_iff_iff]
  simp only [Bool.and_eq_true, decide_eq_true_eq]
  constructor
  · intro ⟨a, b⟩; exact ⟨UInt32.le_iff_toNat_le.mp a, UInt32.le_iff_toNat_le.mp b⟩
  · intro ⟨a, b⟩; exact ⟨UInt32.le_iff_toNat_le.mpr a, UInt32.le_iff_toNat_le.mpr b⟩

theorem toLower_of_not_upper (c : Char) (h : c.isUpper = false) : c.toLower = c := by
  unfold Char.toLower
  have : ¬ (c.val ≥ 65 ∧ c.val ≤ 90) := by
    simp only [Char.isUpper, decide_eq_false_iff_not] at h
    exact h
  simp [this]

theorem toUpper_of_upper (c : Char) (h : c.isUpper = true) : c.toUpper = c := by
  unfold Char.toUpper
  have h' : c.val ≥ 65 ∧ c.val ≤ 90 := by simpa [Char.isUpper] using h
  have : ¬ (c.val ≥ 97 ∧ c.val ≤ 122) := by
    intro ⟨a, _⟩
    have h1 := UInt32.le_iff_toNat_le.mp a
    have h2 := UInt32.le_iff_toNat_le.mp h'.2
    simp at h1 h2; omega
  simp [this]

theorem underscores_lower (r : List Char) :
    (underscores r).map Char.toLower = r.flatMap (fun x => if x.isUpper then ['_', x.toLower] else [x]) := by
  induction r with
  | nil => rfl
  | cons x r ih =>
    simp only [underscores, List.flatMap_cons]
    by_cases hx : isUpper x = true
    · have hx' : x.isUpper = true := by rw [← isUpper_iff]; exact hx
      simp only [hx, if_true, hx', List.map_cons, ih]
      rfl
    · have hx0 : isUpper x = false := by simpa using hx
      have hx' : x.isUpper = false := by rw [← isUpper_iff]; exact hx0
      simp only [hx0, Bool.false_eq_true, if_false, hx', List.map_cons, ih, toLower_of_not_upper x hx']
      rfl

theorem underscores_upper (r : List Char) :
    (underscores r).map Char.toUpper = r.flatMap (fun x => if x.isUpper then ['_', x] else [x.toUpper]) := by
  induction r with
  | nil => rfl
  | cons x r ih =>
    simp only [underscores, List.flatMap_cons]
    by_cases hx : isUpper x = true
    · have hx' : x.isUpper = true := by rw [← isUpper_iff]; exact hx
      simp only [hx, if_true, hx', List.map_cons, ih, toUpper_of_upper x hx']
      rfl
    · have hx0 : isUpper x = false := by simpa using hx
      have hx' : x.isUpper = false := by rw [← isUpper_iff]; exact hx0
      simp only [hx0, Bool.false_eq_true, if_false, hx', List.map_cons, ih]
      rfl

/-- for an exported identifier the run-time's name conversion is the documented one (lower snake case) -/
theorem field_name_conv (s : String) (h : firstUpper s) : fieldGoToDef s = Spec.Msg.snakeLower s := by
  obtain ⟨c, r, hs, hc⟩ := h
  unfold fieldGoToDef Spec.Msg.snakeLower
  rw [hs]
  simp only [underscores, hc, if_true, List.drop_succ_cons, List.drop_zero, List.map_cons, underscores_lower]

theorem msg_name_conv (s : String) (h : firstUpper s) : msgGoToDef s = Spec.Msg.snakeUpper s := by
  obtain ⟨c, r, hs, hc⟩ := h
  unfold msgGoToDef Spec.Msg.snakeUpper
  rw [hs]
  simp only [underscores, hc, if_true, List.drop_succ_cons, List.drop_zero, List.map_cons, underscores_upper]

/-! ### one field -/

/-- everything the model's and the specification's reading of one struct field have in common -/
def Linked (d : DField) (sf : Spec.Msg.SField) : Prop :=
  d.index = sf.idx ∧ d.isExt = sf.ext ∧ d.ftype = sf.ty ∧ d.name = sf.name ∧ d.isArray = sf.arr.isSome ∧
  (∀ n, sf.arr = some n → d.arrayLength = UInt8.ofNat n) ∧ (sf.arr = none → d.arrayLength = 0 ∨ d.arrayLength = 1)

def nameOk (f : GoField) : Prop := f.mavname = "" → firstUpper f.goName

theorem name_link (f : GoField) (h : nameOk f) :
    (if f.mavname ≠ "" then f.mavname else fieldGoToDef f.goName) =
    (if f.mavname ≠ "" then f.mavname else Spec.Msg.snakeLower f.goName) := by
  by_cases hm : f.mavname ≠ ""
  · simp [hm]
  · have : f.mavname = "" := by simpa using hm
    simp only [hm, if_false]
    exact field_name_conv _ (h this)

theorem fold_none {α β} (f : Option α → β → Option α) (hf : ∀ c, f none c = none) (cs : List β) :
    cs.foldl f none = none := by
  induction cs with
  | nil => rfl
  | cons c r ih => simp only [List.foldl_cons, hf, ih]

theorem digitsL_eq (cs : List Char) : Spec.Msg.digitsL cs = atoiDigits cs := by
  cases cs <;> rfl

theorem digitsL_head (c : Char) (r : List Char) (n : Nat) (h : Spec.Msg.digitsL (c :: r) = some n) : '0' ≤ c ∧ c ≤ '9' := by
  unfold Spec.Msg.digitsL at h
  simp only [List.foldl_cons] at h
  by_cases hd : '0' ≤ c ∧ c ≤ '9'
  · exact hd
  · simp only [hd, if_false] at h
    rw [fold_none _ (fun _ => rfl)] at h
    cases h

/-- a length tag the specification can read is read by `strconv.Atoi` as the same number -/
theorem atoi_of_parseLen (s : String) (n : Nat) (h : Spec.Msg.parseLen s = some n) : atoi s = some (n : Int) := by
  unfold Spec.Msg.parseLen at h
  unfold atoi
  split at h
  · rename_i r heq
    rw [heq]
    rw [digitsL_eq] at h
    simp [h]
  · rename_i cs hne
    cases hs : s.toList with
    | nil => rw [hs] at h; cases h
    | cons c r =>
      rw [hs] at h
      have hd := digitsL_head c r n h
      have hm : c ≠ '-' := by
        intro e; subst e; exact absurd hd (by decide)
      have hp : c ≠ '+' := by
        intro e; subst e; exact absurd hd (by decide)
      rw [digitsL_eq] at h
      split
      · rename_i heq; cases heq; exact absurd rfl hm
      · rename_i heq; cases heq; exact absurd rfl hp
      · simp [h]

/-- and conversely: a positive number `strconv.Atoi` reads from a tag is what the specification reads -/
theorem parseLen_of_atoi (s : String) (z : Int) (h : atoi s = some z) (hz : 1 ≤ z) :
    ∃ n : Nat, Spec.Msg.parseLen s = some n ∧ z = (n : Int) := by
  unfold atoi at h
  unfold Spec.Msg.parseLen
  split at h
  · rename_i r heq
    cases hr : atoiDigits r with
    | none => simp [hr] at h
    | some m => simp [hr] at h; omega
  · rename_i r heq
    rw [heq]
    cases hr : atoiDigits r with
    | none => simp [hr] at h
    | some m =>
      simp [hr] at h
      exact ⟨m, by show Spec.Msg.digitsL r = some m; rw [digitsL_eq]; exact hr, h.symm⟩
  · rename_i cs hm hp
    cases hr : atoiDigits s.toList with
    | none => simp [hr] at h
    | some m =>
      simp [hr] at h
      refine ⟨m, ?_, h.symm⟩
      split
      · rename_i r heq; exact absurd heq (hp r)
      · rw [digitsL_eq]; exact hr

theorem byteOfInt_nat (n : Nat) : byteOfInt (n : Int) = UInt8.ofNat n := by
  unfold byteOfInt
  apply UInt8.toNat_inj.mp
  simp only [UInt8.toNat_ofNat']
  have : ((n : Int) % 256).toNat = n % 256 := by omega
  rw [this]; simp

theorem field_full (i : Nat) (f : GoField) (d : DField) (sf : Spec.Msg.SField)
    (h1 : initField i f = .ok d) (h2 : Spec.Msg.fieldOfGo i f = some sf) (hn : nameOk f) : Linked d sf := by
  have hname := name_link f hn
  replace h1 := (initField_ok i f d h1).2.2
  replace h2 := (fieldOfGo_ok i f sf h2).2
  unfold initFieldCore at h1
  unfold Spec.Msg.fieldOfGoCore at h2
  by_cases he : f.mavenum ≠ ""
  · rw [if_pos he] at h1 h2
    by_cases hu : f.elemIsUint64 = true
    · simp only [hu, Bool.not_true, Bool.false_eq_true, if_false, Option.bind_eq_bind, Option.pure_def] at h1 h2
      cases ht : Gen.fieldTypeFromGo f.mavenum with
      | none => rw [ht] at h1; cases h1
      | some t =>
        rw [ht] at h1 h2
        simp only [Option.bind_some] at h1 h2
        by_cases hc : Gen.enumCapable t = true
        · simp only [hc, Bool.not_true, Bool.false_eq_true, if_false, pure, Except.pure, Except.ok.injEq] at h1
          split at h2
          · cases h2
          · simp only [Option.some.injEq] at h2
            subst h1; subst h2
            refine ⟨rfl, rfl, rfl, hname, ?_, ?_, ?_⟩
            · by_cases ha : f.isArray = true <;> simp [ha]
            · intro n hn'
              by_cases ha : f.isArray = true
              · simp only [ha, if_true, Option.some.injEq] at hn' ⊢; rw [hn']
              · simp [ha] at hn'
            · intro hn'
              by_cases ha : f.isArray = true
              · simp [ha] at hn'
              · left; simp [ha]
        · have : Gen.enumCapable t = false := by simpa using hc
          simp only [this, Bool.not_false, if_true] at h1; cases h1
    · have : f.elemIsUint64 = false := by simpa using hu
      simp only [this, Bool.not_false, if_true] at h1; cases h1
  · rw [if_neg he] at h1 h2
    cases ht : Gen.fieldTypeFromGo f.elemType with
    | none => rw [ht] at h1; cases h1
    | some t =>
      rw [ht] at h1
      simp only [bind, Except.bind] at h1
      by_cases hs : (f.elemType == "string") = true
      · have hs' : f.elemType = "string" := by simpa using hs
        have htc : t = .char := by
          rw [hs'] at ht; simp [Gen.fieldTypeFromGo] at ht; exact ht.symm
        rw [if_pos hs] at h1 h2
        simp only [Option.bind_eq_bind, Option.pure_def] at h2
        by_cases ha : f.isArray = true
        · simp [ha] at h2
        · have ha' : f.isArray = false := by simpa using ha
          simp only [ha', Bool.false_eq_true, if_false] at h2 h1
          by_cases hl : f.mavlen = ""
          · have hle : (f.mavlen == "") = true := by simp [hl]
            rw [if_pos hle] at h2
            simp only [hl, String.length_empty, beq_self_eq_true, if_true, pure, Except.pure, Except.ok.injEq] at h1
            simp only [Option.some.injEq] at h2
            subst h1; subst h2
            exact ⟨rfl, rfl, htc, hname, by simp [ha'], by intro n hn'; simp at hn', fun _ => Or.inr rfl⟩
          · have hl2 : (f.mavlen.length == 0) = false := by
              have : f.mavlen.length ≠ 0 := by
                intro h0; exact hl (String.length_eq_zero_iff.mp h0)
              simpa using this
            have hle : ¬ (f.mavlen == "") = true := by simpa using hl
            rw [if_neg hle] at h2
            simp only [hl2, Bool.false_eq_true, if_false] at h1
            cases hp : Spec.Msg.parseLen f.mavlen with
            | none => rw [hp] at h2; cases h2
            | some n =>
              rw [hp] at h2
              simp only [Option.bind_some, Option.some.injEq] at h2
              rw [atoi_of_parseLen _ _ hp] at h1
              by_cases hr : ((n : Int) < 1 || (n : Int) > 255) = true
              · simp only [hr, if_true] at h1; cases h1
              simp only [hr, Bool.false_eq_true, if_false, pure, Except.pure, Except.ok.injEq] at h1
              subst h1; subst h2
              refine ⟨rfl, rfl, htc, hname, by simp, ?_, by intro hn'; simp at hn'⟩
              intro m hm
              simp only [Option.some.injEq] at hm
              rw [← hm]; exact byteOfInt_nat n
      · rw [if_neg hs] at h1 h2
        simp only [Option.bind_eq_bind, Option.pure_def, ht, Option.bind_some, Option.some.injEq] at h2
        simp only [pure, Except.pure, Except.ok.injEq] at h1
        subst h1; subst h2
        refine ⟨rfl, rfl, rfl, hname, ?_, ?_, ?_⟩
        · by_cases ha : f.isArray = true <;> simp [ha]
        · intro n hn'
          by_cases ha : f.isArray = true
          · simp only [ha, if_true, Option.some.injEq] at hn' ⊢; rw [hn']
          · simp [ha] at hn'
        · intro hn'
          by_cases ha : f.isArray = true
          · simp [ha] at hn'
          · left; simp [ha]

/-! ### all fields, by position -/

theorem fields_full : ∀ (gfs : List GoField) (i : Nat) (ds : List DField) (sfs : List Spec.Msg.SField),
    initFields i gfs = .ok ds → Spec.Msg.fieldsOfGo i gfs = some sfs → (∀ f ∈ gfs, nameOk f) →
    ds.length = sfs.length ∧
    ∀ j d sf, ds[j]? = some d → sfs[j]? = some sf → Linked d sf ∧ d.index = i + j := by
  intro gfs
  induction gfs with
  | nil =>
    intro i ds sfs h1 h2 _
    simp [initFields, pure, Except.pure] at h1
    simp [Spec.Msg.fieldsOfGo] at h2
    subst h1; subst h2
    exact ⟨rfl, by intro j d sf hd; simp at hd⟩
  | cons f r ih =>
    intro i ds sfs h1 h2 hn
    simp only [initFields, bind, Except.bind] at h1
    simp only [Spec.Msg.fieldsOfGo, Option.bind_eq_bind] at h2
    cases hd : initField i f with
    | error e => simp [hd] at h1
    | ok d0 =>
      simp only [hd] at h1
      cases hr : initFields (i + 1) r with
      | error e => simp [hr] at h1
      | ok ds' =>
        simp only [hr, pure, Except.pure, Except.ok.injEq] at h1
        cases hsf : Spec.Msg.fieldOfGo i f with
        | none => simp [hsf] at h2
        | some sf0 =>
          simp only [hsf, Option.bind_some] at h2
          cases hsr : Spec.Msg.fieldsOfGo (i + 1) r with
          | none => simp [hsr] at h2
          | some sfs' =>
            simp only [hsr, Option.bind_some, Option.pure_def, Option.some.injEq] at h2
            subst h1; subst h2
            obtain ⟨hl, hp⟩ := ih (i + 1) ds' sfs' hr hsr (fun g hg => hn g (List.mem_cons_of_mem _ hg))
            refine ⟨by simp [hl], ?_⟩
            intro j d sf hdj hsj
            cases j with
            | zero =>
              simp only [List.getElem?_cons_zero, Option.some.injEq] at hdj hsj
              subst hdj; subst hsj
              exact ⟨field_full i f _ _ hd hsf (hn f (List.mem_cons_self)), (initField_char i f _ hd).1⟩
            | succ j =>
              simp only [List.getElem?_cons_succ] at hdj hsj
              obtain ⟨a, b⟩ := hp j d sf hdj hsj
              exact ⟨a, by omega⟩

/-! ### sizes -/

theorem map_eq_of_pointwise {α β γ} (l1 : List α) (l2 : List β) (f : α → γ) (g : β → γ) (hl : l1.length = l2.length)
    (h : ∀ (j : Nat) a b, l1[j]? = some a → l2[j]? = some b → f a = g b) : l1.map f = l2.map g := by
  apply List.ext_getElem?
  intro j
  simp only [List.getElem?_map]
  cases h1 : l1[j]? with
  | none =>
    have : l1.length ≤ j := by simpa using h1
    have h2 : l2[j]? = none := by simp; omega
    simp [h2]
  | some a =>
    have : j < l1.length := by
      rcases Nat.lt_or_ge j l1.length with hc | hc
      · exact hc
      · have : l1[j]? = none := by simp; omega
        simp [this] at h1
    have hj2 : j < l2.length := by omega
    have h2 : l2[j]? = some l2[j] := by simp [hj2]
    simp [h2, h j a l2[j] h1 h2]

def arrOk (sf : Spec.Msg.SField) : Prop := match sf.arr with | some n => 1 ≤ n ∧ n ≤ 255 | none => True

theorem C03names (t : Gen.FType) : Gen.fieldTypeString t = Spec.Msg.tyName t := by cases t <;> rfl

theorem tsz_lt (t : Gen.FType) : Spec.Msg.tySize t < 256 := by cases t <;> decide

theorem size_link (d : DField) (sf : Spec.Msg.SField) (h : Linked d sf) (ha : arrOk sf) :
    d.size.toNat = sf.size % 256 := by
  obtain ⟨_, _, ht, _, _, hsome, hnone⟩ := h
  unfold DField.size Spec.Msg.SField.size
  rw [ht]
  have hts := sizes_tbl sf.ty
  have hlt := tsz_lt sf.ty
  cases harr : sf.arr with
  | none =>
    simp only [Option.getD_none, Nat.mul_one]
    cases hnone harr with
    | inl h0 =>
      rw [h0]
      have : ¬ ((0 : UInt8) > 0) := by decide
      simp only [this, if_false, hts]; omega
    | inr h1 =>
      rw [h1]
      have : ((1 : UInt8) > 0) := by decide
      simp only [this, if_true, UInt8.toNat_mul, hts]
      show Spec.Msg.tySize sf.ty * 1 % 256 = _
      omega
  | some n =>
    unfold arrOk at ha
    rw [harr] at ha
    simp only [Option.getD_some]
    rw [hsome n harr]
    have hpos : (UInt8.ofNat n > 0) := by
      rw [gt_iff_lt, UInt8.lt_iff_toNat_lt]
      simp only [UInt8.toNat_ofNat', UInt8.toNat_zero]
      omega
    simp only [hpos, if_true, UInt8.toNat_mul, hts, UInt8.toNat_ofNat']
    have : n % 2 ^ 8 = n := by omega
    rw [this]

theorem foldl_add_toNat (l : List UInt8) (a : UInt8) :
    (l.foldl (· + ·) a).toNat = (a.toNat + (l.map UInt8.toNat).sum) % 256 := by
  induction l generalizing a with
  | nil => simp
  | cons x r ih =>
    simp only [List.foldl_cons, List.map_cons, List.sum_cons]
    rw [ih, UInt8.toNat_add]
    omega

theorem sum_mod (l : List Nat) : (l.map (· % 256)).sum % 256 = l.sum % 256 := by
  induction l with
  | nil => rfl
  | cons x r ih => simp only [List.map_cons, List.sum_cons]; omega

/-! ### the two readings of a struct, unpacked -/

theorem unpack (st : GoStruct) (rw : RW) (d : Spec.Msg.SDef)
    (h1 : Msg.init st = .ok rw) (h2 : Spec.Msg.ofGo st = some d) :
    ∃ fs sfs, initFields 0 st.fields = .ok fs ∧ Spec.Msg.fieldsOfGo 0 st.fields = some sfs ∧
      d = { name := Spec.Msg.snakeUpper (Msg.msgSuffix st.name), fields := sfs } ∧
      rw = { fields := sortFields fs,
             sizeNormal := fs.foldl (fun a f => if f.isExt then a else a + f.size) (0 : UInt8),
             sizeExtended := fs.foldl (fun a f => a + f.size) (0 : UInt8),
             crcExtra := crcExtraOf (msgGoToDef (Msg.msgSuffix st.name)) (sortFields fs), nfields := fs.length } ∧
      (sfs.dropWhile (!·.ext)).all (·.ext) = true ∧
      sfs.all (fun f => match f.arr with | some n => decide (1 ≤ n) && decide (n ≤ 255) | none => true) = true ∧
      Spec.Msg.sizeExt d ≤ 255 := by
  obtain ⟨_, fs, hfs, _, _, h1⟩ := init_ok st rw h1
  unfold Spec.Msg.ofGo at h2
  simp only [Option.bind_eq_bind] at h2
  split at h2
  · cases h2
  · cases hsf : Spec.Msg.fieldsOfGo 0 st.fields with
    | none => simp [hsf] at h2
    | some sfs =>
      simp only [hsf, Option.bind_some] at h2
      split at h2
      · rename_i hchk
        simp only [Option.some.injEq] at h2
        simp only [Bool.and_eq_true, decide_eq_true_eq] at hchk
        refine ⟨fs, sfs, hfs, rfl, h2.symm, h1, hchk.1.1, hchk.1.2, ?_⟩
        rw [← h2]; exact hchk.2
      · cases h2

theorem sum_filter_ext (l : List Spec.Msg.SField) :
    ((l.filter (!·.ext)).map Spec.Msg.SField.size).sum = (l.map (fun f => if f.ext then 0 else f.size)).sum := by
  induction l with
  | nil => rfl
  | cons x r ih =>
    by_cases hx : x.ext = true
    · simp [List.filter_cons, hx, ih]
    · have : x.ext = false := by simpa using hx
      simp [List.filter_cons, this, ih]

theorem sum_le_of_pointwise (l : List Spec.Msg.SField) :
    (l.map (fun f => if f.ext then 0 else f.size)).sum ≤ (l.map Spec.Msg.SField.size).sum := by
  induction l with
  | nil => simp
  | cons x r ih =>
    simp only [List.map_cons, List.sum_cons]
    split <;> omega

theorem arrOk_of_all (sfs : List Spec.Msg.SField)
    (h : sfs.all (fun f => match f.arr with | some n => decide (1 ≤ n) && decide (n ≤ 255) | none => true) = true)
    (sf : Spec.Msg.SField) (hm : sf ∈ sfs) : arrOk sf := by
  rw [List.all_eq_true] at h
  have := h sf hm
  unfold arrOk
  cases ha : sf.arr with
  | none => trivial
  | some n => rw [ha] at this; simpa using this

/-- **C03 (sizes, for every struct).** -/
theorem sizes_universal (st : GoStruct) (rw : RW) (d : Spec.Msg.SDef)
    (h1 : Msg.init st = .ok rw) (h2 : Spec.Msg.ofGo st = some d) (hn : ∀ f ∈ st.fields, nameOk f) :
    rw.sizeExtended.toNat = Spec.Msg.sizeExt d ∧ rw.sizeNormal.toNat = Spec.Msg.sizeBase d := by
  obtain ⟨fs, sfs, hfs, hsfs, hd, hrw, _, harr, hle⟩ := unpack st rw d h1 h2
  obtain ⟨hlen, hpt⟩ := fields_full st.fields 0 fs sfs hfs hsfs hn
  have hsz : fs.map (fun f => f.size.toNat) = sfs.map (fun sf => sf.size % 256) := by
    apply map_eq_of_pointwise _ _ _ _ hlen
    intro j a b ha hb
    exact size_link a b (hpt j a b ha hb).1 (arrOk_of_all sfs harr b (List.mem_of_getElem? hb))
  have hszN : fs.map (fun f => (if f.isExt then (0 : UInt8) else f.size).toNat) =
      sfs.map (fun sf => (if sf.ext then 0 else sf.size) % 256) := by
    apply map_eq_of_pointwise _ _ _ _ hlen
    intro j a b ha hb
    have hl := (hpt j a b ha hb).1
    have := size_link a b hl (arrOk_of_all sfs harr b (List.mem_of_getElem? hb))
    rw [hl.2.1]
    split <;> simp [this]
  subst hrw
  have hdx : Spec.Msg.sizeExt d = (sfs.map Spec.Msg.SField.size).sum := by rw [hd]; rfl
  have hdn : Spec.Msg.sizeBase d = (sfs.map (fun f => if f.ext then 0 else f.size)).sum := by
    rw [hd]; exact sum_filter_ext sfs
  constructor
  · show (fs.foldl (fun a f => a + f.size) (0 : UInt8)).toNat = _
    have : fs.foldl (fun a f => a + f.size) (0 : UInt8) = (fs.map DField.size).foldl (· + ·) 0 := by
      rw [List.foldl_map]
    rw [this, foldl_add_toNat, List.map_map]
    have e : (UInt8.toNat ∘ DField.size) = (fun f => f.size.toNat) := rfl
    rw [e, hsz]
    have e2 : sfs.map (fun sf => sf.size % 256) = (sfs.map Spec.Msg.SField.size).map (· % 256) := by
      rw [List.map_map]; rfl
    rw [e2, UInt8.toNat_zero, Nat.zero_add, sum_mod, ← hdx]
    omega
  · show (fs.foldl (fun a f => if f.isExt then a else a + f.size) (0 : UInt8)).toNat = _
    have : fs.foldl (fun a f => if f.isExt then a else a + f.size) (0 : UInt8) =
        (fs.map (fun f => if f.isExt then (0 : UInt8) else f.size)).foldl (· + ·) 0 := by
      rw [List.foldl_map]
      congr 1
      funext a f
      split <;> simp
    rw [this, foldl_add_toNat, List.map_map]
    have e : (UInt8.toNat ∘ fun f : DField => if f.isExt then (0 : UInt8) else f.size) =
        (fun f => (if f.isExt then (0 : UInt8) else f.size).toNat) := rfl
    rw [e, hszN]
    have e2 : sfs.map (fun sf => (if sf.ext then 0 else sf.size) % 256) =
        (sfs.map (fun f => if f.ext then 0 else f.size)).map (· % 256) := by
      rw [List.map_map]; rfl
    rw [e2, UInt8.toNat_zero, Nat.zero_add, sum_mod, ← hdn]
    have := sum_le_of_pointwise sfs
    rw [← hdn, ← hdx] at this
    omega

/-! ### CRC_EXTRA -/

def bytesD (f : DField) : Bytes :=
  if f.isExt then [] else
    strBytes (Gen.fieldTypeString f.ftype ++ " ") ++ strBytes (f.name ++ " ") ++ (if f.isArray then [f.arrayLength] else [])

def bytesS (f : Spec.Msg.SField) : Bytes :=
  if f.ext then [] else Spec.Msg.fieldCrcBytes f

theorem bytes_link (d : DField) (sf : Spec.Msg.SField) (h : Linked d sf) : bytesD d = bytesS sf := by
  obtain ⟨_, he, ht, hname, harr, hsome, _⟩ := h
  unfold bytesD bytesS Spec.Msg.fieldCrcBytes
  rw [he, ht, hname, harr, C03names sf.ty]
  cases ha : sf.arr with
  | none => simp [Spec.Msg.sbytes, strBytes]
  | some n => simp [Spec.Msg.sbytes, strBytes, hsome n ha]

theorem crc_fold_bytes (sorted : List DField) (h : UInt16) :
    sorted.foldl (fun h f =>
      if f.isExt then h else
        let h := X25.write h (strBytes (Gen.fieldTypeString f.ftype ++ " "))
        let h := X25.write h (strBytes (f.name ++ " "))
        if f.isArray then X25.write h [f.arrayLength] else h) h = X25.write h (sorted.flatMap bytesD) := by
  induction sorted generalizing h with
  | nil => simp [X25.write]
  | cons f r ih =>
    simp only [List.foldl_cons, List.flatMap_cons, X25.write_append]
    rw [ih]
    congr 1
    unfold bytesD
    by_cases he : f.isExt = true
    · simp [he, X25.write]
    · have he' : f.isExt = false := by simpa using he
      simp only [he', Bool.false_eq_true, if_false, X25.write_append]
      by_cases ha : f.isArray = true
      · simp [ha]
      · have ha' : f.isArray = false := by simpa using ha
        simp [ha', X25.write]

theorem crcExtraOf_eq (msgName : String) (sorted : List DField) :
    crcExtraOf msgName sorted = Gen.crcExtraFold (X25.sum (strBytes (msgName ++ " ") ++ sorted.flatMap bytesD)) := by
  unfold crcExtraOf
  simp only [crc_fold_bytes, X25.sum, X25.write_append]

theorem mem_insertBy (x a : DField) (l : List DField) : x ∈ Msg.insertBy a l ↔ x = a ∨ x ∈ l := by
  induction l with
  | nil => simp [Msg.insertBy]
  | cons y r ih =>
    simp only [Msg.insertBy]
    split
    · simp only [List.mem_cons, ih]
      constructor
      · rintro (h | h | h)
        · exact Or.inr (Or.inl h)
        · exact Or.inl h
        · exact Or.inr (Or.inr h)
      · rintro (h | h | h)
        · exact Or.inr (Or.inl h)
        · exact Or.inl h
        · exact Or.inr (Or.inr h)
    · simp

theorem mem_sortFields (x : DField) (l : List DField) : x ∈ sortFields l ↔ x ∈ l := by
  induction l with
  | nil => simp [sortFields]
  | cons a r ih =>
    show x ∈ Msg.insertBy a (sortFields r) ↔ _
    rw [mem_insertBy, ih]; simp

theorem mem_insertStable (x a : Spec.Msg.SField) (l : List Spec.Msg.SField) :
    x ∈ Spec.Msg.insertStable a l ↔ x = a ∨ x ∈ l := by
  induction l with
  | nil => simp [Spec.Msg.insertStable]
  | cons y r ih =>
    simp only [Spec.Msg.insertStable]
    split
    · simp only [List.mem_cons, ih]
      constructor
      · rintro (h | h | h)
        · exact Or.inr (Or.inl h)
        · exact Or.inl h
        · exact Or.inr (Or.inr h)
      · rintro (h | h | h)
        · exact Or.inr (Or.inl h)
        · exact Or.inl h
        · exact Or.inr (Or.inr h)
    · simp

theorem mem_stableSortDesc (x : Spec.Msg.SField) (l : List Spec.Msg.SField) :
    x ∈ Spec.Msg.stableSortDesc l ↔ x ∈ l := by
  unfold Spec.Msg.stableSortDesc
  have : ∀ acc : List Spec.Msg.SField,
      x ∈ l.foldl (fun acc x => Spec.Msg.insertStable x acc) acc ↔ x ∈ l ∨ x ∈ acc := by
    induction l with
    | nil => intro acc; simp
    | cons a r ih =>
      intro acc
      simp only [List.foldl_cons, ih, mem_insertStable, List.mem_cons]
      constructor
      · rintro (h | h | h)
        · exact Or.inl (Or.inr h)
        · exact Or.inl (Or.inl h)
        · exact Or.inr h
      · rintro ((h | h) | h)
        · exact Or.inr (Or.inl h)
        · exact Or.inl h
        · exact Or.inr (Or.inr h)
  simpa using this []

theorem mem_wireOrder (x : Spec.Msg.SField) (d : Spec.Msg.SDef) : x ∈ Spec.Msg.wireOrder d → x ∈ d.fields := by
  unfold Spec.Msg.wireOrder
  simp only [List.mem_append, mem_stableSortDesc, List.mem_filter]
  rintro (h | h) <;> exact h.1

/-- the specification's CRC input, with the extension fields written out as contributing nothing -/
theorem crcExtraInput_eq (d : Spec.Msg.SDef) :
    Spec.Msg.crcExtraInput d = Spec.Msg.sbytes (d.name ++ " ") ++ (Spec.Msg.wireOrder d).flatMap bytesS := by
  unfold Spec.Msg.crcExtraInput Spec.Msg.wireOrder
  rw [List.flatMap_append]
  have h1 : ∀ l : List Spec.Msg.SField, (∀ x ∈ l, x.ext = false) →
      l.flatMap bytesS = l.flatMap Spec.Msg.fieldCrcBytes := by
    intro l hl
    induction l with
    | nil => rfl
    | cons a r ih =>
      simp only [List.flatMap_cons]
      rw [ih (fun x hx => hl x (List.mem_cons_of_mem _ hx))]
      congr 1
      unfold bytesS
      simp [hl a List.mem_cons_self]
  have h2 : ∀ l : List Spec.Msg.SField, (∀ x ∈ l, x.ext = true) → l.flatMap bytesS = [] := by
    intro l hl
    induction l with
    | nil => rfl
    | cons a r ih =>
      simp only [List.flatMap_cons]
      rw [ih (fun x hx => hl x (List.mem_cons_of_mem _ hx))]
      unfold bytesS
      simp [hl a List.mem_cons_self]
  rw [h1, h2]
  · simp
  · intro x hx; simpa using (List.mem_filter.mp hx).2
  · intro x hx
    have := (mem_stableSortDesc x _).mp hx
    simpa using (List.mem_filter.mp this).2

theorem fold_link (s : UInt16) :
    (Gen.crcExtraFold s).toNat = ((s.toBitVec &&& 0xFF#16) ^^^ (s.toBitVec >>> 8)).toNat := by
  unfold Gen.crcExtraFold
  rw [UInt16.toNat_toUInt8]
  have h1 : ((s &&& (255 : UInt16)) ^^^ (s >>> (8 : UInt16))).toNat =
      ((s.toBitVec &&& 0xFF#16) ^^^ (s.toBitVec >>> 8)).toNat := by
    rfl
  rw [h1]
  apply Nat.mod_eq_of_lt
  rw [BitVec.toNat_xor]
  apply Nat.xor_lt_two_pow (n := 8)
  · rw [BitVec.toNat_and]
    exact Nat.lt_of_le_of_lt Nat.and_le_right (by decide)
  · rw [BitVec.toNat_ushiftRight]
    have := s.toBitVec.isLt
    rw [Nat.shiftRight_eq_div_pow]
    omega

/-- **C03 (CRC_EXTRA, for every struct).** -/
theorem crc_universal (st : GoStruct) (rw : RW) (d : Spec.Msg.SDef)
    (h1 : Msg.init st = .ok rw) (h2 : Spec.Msg.ofGo st = some d) (hn : ∀ f ∈ st.fields, nameOk f)
    (hm : firstUpper (Msg.msgSuffix st.name)) :
    rw.crcExtra.toNat = Spec.Msg.crcExtra d := by
  have horder := wire_order_agrees st rw d h1 h2
  obtain ⟨fs, sfs, hfs, hsfs, hd, hrw, _, _, _⟩ := unpack st rw d h1 h2
  obtain ⟨hlen, hpt⟩ := fields_full st.fields 0 fs sfs hfs hsfs hn
  have hdf : d.fields = sfs := by rw [hd]
  have hrf : rw.fields = sortFields fs := by rw [hrw]
  rw [hrf] at horder
  -- positions
  have hposD : ∀ (j : Nat) (a : DField), fs[j]? = some a → a.index = j := by
    intro j a ha
    have hj : j < sfs.length := by
      have : j < fs.length := by
        rcases Nat.lt_or_ge j fs.length with hc | hc
        · exact hc
        · have : fs[j]? = none := by simp; omega
          simp [this] at ha
      omega
    have := (hpt j a sfs[j] ha (by simp [hj])).2
    omega
  have hposS : ∀ (j : Nat) (b : Spec.Msg.SField), sfs[j]? = some b → b.idx = j := by
    intro j b hb
    have hj : j < fs.length := by
      have : j < sfs.length := by
        rcases Nat.lt_or_ge j sfs.length with hc | hc
        · exact hc
        · have : sfs[j]? = none := by simp; omega
          simp [this] at hb
      omega
    have hh := hpt j fs[j] b (by simp [hj]) hb
    have := hh.1.1
    omega
  -- the two wire orders carry the same bytes, position by position
  have hmaps : (sortFields fs).map bytesD = (Spec.Msg.wireOrder d).map bytesS := by
    apply map_eq_of_pointwise
    · have := congrArg List.length horder
      simpa using this
    · intro k a b ha hb
      have hidx : a.index = b.idx := by
        have e1 : ((sortFields fs).map (·.index))[k]? = some a.index := by simp [ha]
        have e2 : ((Spec.Msg.wireOrder d).map (·.idx))[k]? = some b.idx := by simp [hb]
        rw [horder] at e1
        rw [e1] at e2
        exact Option.some.inj e2
      have hamem : a ∈ fs := (mem_sortFields a fs).mp (List.mem_of_getElem? ha)
      have hbmem : b ∈ sfs := by
        have := mem_wireOrder b d (List.mem_of_getElem? hb)
        rwa [hdf] at this
      obtain ⟨j, hj⟩ := List.getElem?_of_mem hamem
      obtain ⟨j', hj'⟩ := List.getElem?_of_mem hbmem
      have ej := hposD j a hj
      have ej' := hposS j' b hj'
      have : j = j' := by omega
      subst this
      exact bytes_link a b (hpt j a b hj hj').1
  have hflat : (sortFields fs).flatMap bytesD = (Spec.Msg.wireOrder d).flatMap bytesS := by
    rw [List.flatMap_def, List.flatMap_def, hmaps]
  -- assemble
  have hcrc : rw.crcExtra = crcExtraOf (msgGoToDef (Msg.msgSuffix st.name)) (sortFields fs) := by rw [hrw]
  rw [hcrc, crcExtraOf_eq, fold_link, x25_sum_eq_crc16, hflat, msg_name_conv _ hm]
  unfold Spec.Msg.crcExtra
  rw [crcExtraInput_eq]
  have : d.name = Spec.Msg.snakeUpper (Msg.msgSuffix st.name) := by rw [hd]
  rw [this]
  rfl

end Mav.LayoutLink
