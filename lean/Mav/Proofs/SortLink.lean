import Mav.Proofs.SortOrder
import Mav.Spec.Msg
/-
  The abstract ordering theorem (Mav/Proofs/SortOrder.lean) applied to the model of ReadWriter.Initialize and to the
  specification's wireOrder: for every Go struct that both accept, the wire orders are the same.
-/
namespace Mav.SortLink
open Mav Msg SortOrder

def projD (f : DField) : Item := ⟨f.index, f.isExt, (Gen.fieldTypeSizes f.ftype).toNat⟩
def projS (f : Spec.Msg.SField) : Item := ⟨f.idx, f.ext, Spec.Msg.tySize f.ty⟩

theorem less_proj (a b : DField) : Msg.less a b = SortOrder.less (projD a) (projD b) := by
  unfold Msg.less SortOrder.less projD
  have h1 : (Gen.fieldTypeSizes a.ftype != Gen.fieldTypeSizes b.ftype) =
      ((Gen.fieldTypeSizes a.ftype).toNat != (Gen.fieldTypeSizes b.ftype).toNat) := by
    generalize Gen.fieldTypeSizes a.ftype = x
    generalize Gen.fieldTypeSizes b.ftype = y
    by_cases h : x = y
    · subst h; simp
    · have : x.toNat ≠ y.toNat := fun hn => h (UInt8.toNat_inj.mp hn)
      have e1 : (x == y) = false := by simpa using h
      have e2 : (x.toNat == y.toNat) = false := by simpa using this
      simp [bne, e1, e2]
  have h2 : decide (Gen.fieldTypeSizes a.ftype > Gen.fieldTypeSizes b.ftype) =
      decide ((Gen.fieldTypeSizes a.ftype).toNat > (Gen.fieldTypeSizes b.ftype).toNat) := by
    simp [UInt8.lt_iff_toNat_lt]
  simp only [h1, h2]

theorem insertBy_map (x : DField) (l : List DField) :
    (Msg.insertBy x l).map projD = SortOrder.insertBy (projD x) (l.map projD) := by
  induction l with
  | nil => rfl
  | cons y r ih =>
    simp only [Msg.insertBy, SortOrder.insertBy, List.map_cons, less_proj]
    split <;> simp [ih]

theorem sortFields_map (l : List DField) : (Msg.sortFields l).map projD = isort (l.map projD) := by
  induction l with
  | nil => rfl
  | cons a r ih =>
    show (Msg.insertBy a (Msg.sortFields r)).map projD = SortOrder.insertBy (projD a) (isort (r.map projD))
    rw [insertBy_map, ih]

theorem insertStable_map (x : Spec.Msg.SField) (l : List Spec.Msg.SField) :
    (Spec.Msg.insertStable x l).map projS = SortOrder.insertStable (projS x) (l.map projS) := by
  induction l with
  | nil => rfl
  | cons y r ih =>
    simp only [Spec.Msg.insertStable, SortOrder.insertStable, List.map_cons, projS]
    split <;> simp_all [projS]

theorem stableSort_map (l : List Spec.Msg.SField) :
    (Spec.Msg.stableSortDesc l).map projS = SortOrder.stableSortDesc (l.map projS) := by
  unfold Spec.Msg.stableSortDesc SortOrder.stableSortDesc
  have : ∀ (acc : List Spec.Msg.SField), (l.foldl (fun acc x => Spec.Msg.insertStable x acc) acc).map projS =
      (l.map projS).foldl (fun acc x => SortOrder.insertStable x acc) (acc.map projS) := by
    induction l with
    | nil => intro acc; rfl
    | cons a r ih => intro acc; simp only [List.foldl_cons, List.map_cons]; rw [ih, insertStable_map]
  exact this []

theorem wireOrder_map (d : Spec.Msg.SDef) : (Spec.Msg.wireOrder d).map projS = specOrder (d.fields.map projS) := by
  unfold Spec.Msg.wireOrder specOrder
  rw [List.map_append, stableSort_map]
  congr 1
  · congr 1; rw [List.filter_map]; rfl
  · rw [List.filter_map]; rfl

end Mav.SortLink

namespace Mav.SortLink
open Mav Msg SortOrder

theorem sizes_tbl (t : Gen.FType) : (Gen.fieldTypeSizes t).toNat = Spec.Msg.tySize t := by cases t <;> rfl

/-- what the two guards of `initField` establish -/
theorem initField_ok (i : Nat) (f : GoField) (d : DField) (h : initField i f = .ok d) :
    f.exported = true ∧ (f.isArray = true → 1 ≤ f.arrLen ∧ f.arrLen ≤ 255) ∧ initFieldCore i f = .ok d := by
  unfold initField at h
  split at h
  · cases h
  · rename_i he
    split at h
    · cases h
    · rename_i ha
      refine ⟨by simpa using he, ?_, h⟩
      intro hi
      simp only [hi, Bool.true_and, Bool.or_eq_true, decide_eq_true_eq, not_or, Nat.not_lt] at ha
      omega

theorem initField_char (i : Nat) (f : GoField) (d : DField) (h : initField i f = .ok d) :
    d.index = i ∧ d.isExt = (f.mavext == "true") ∧
    Gen.fieldTypeFromGo (if f.mavenum ≠ "" then f.mavenum else f.elemType) = some d.ftype := by
  replace h := (initField_ok i f d h).2.2
  unfold initFieldCore at h
  by_cases he : f.mavenum ≠ ""
  · rw [if_pos he] at h
    rw [if_pos he]
    by_cases hu : f.elemIsUint64 = true
    · simp only [hu, Bool.not_true, Bool.false_eq_true, if_false] at h
      cases ht : Gen.fieldTypeFromGo f.mavenum with
      | none => rw [ht] at h; cases h
      | some t =>
        rw [ht] at h
        simp only at h
        by_cases hc : Gen.enumCapable t = true
        · simp only [hc, Bool.not_true, Bool.false_eq_true, if_false, pure, Except.pure, Except.ok.injEq] at h
          subst h; exact ⟨rfl, rfl, rfl⟩
        · have : Gen.enumCapable t = false := by simpa using hc
          simp only [this, Bool.not_false, if_true] at h; cases h
    · have : f.elemIsUint64 = false := by simpa using hu
      simp only [this, Bool.not_false, if_true] at h; cases h
  · rw [if_neg he] at h
    rw [if_neg he]
    cases ht : Gen.fieldTypeFromGo f.elemType with
    | none => rw [ht] at h; cases h
    | some t =>
      rw [ht] at h
      simp only [bind, Except.bind] at h
      split at h
      · cases h
      · simp only [pure, Except.pure, Except.ok.injEq] at h
        subst h; exact ⟨rfl, rfl, rfl⟩

theorem fieldOfGo_ok (i : Nat) (f : GoField) (sf : Spec.Msg.SField) (h : Spec.Msg.fieldOfGo i f = some sf) :
    f.exported = true ∧ Spec.Msg.fieldOfGoCore i f = some sf := by
  unfold Spec.Msg.fieldOfGo at h
  split at h
  · cases h
  · rename_i he; exact ⟨by simpa using he, h⟩

theorem fieldOfGo_char (i : Nat) (f : GoField) (sf : Spec.Msg.SField) (h : Spec.Msg.fieldOfGo i f = some sf) :
    sf.idx = i ∧ sf.ext = (f.mavext == "true") ∧
    (if f.mavenum ≠ "" then Gen.fieldTypeFromGo f.mavenum = some sf.ty
     else if f.elemType == "string" then sf.ty = .char else Gen.fieldTypeFromGo f.elemType = some sf.ty) := by
  replace h := (fieldOfGo_ok i f sf h).2
  unfold Spec.Msg.fieldOfGoCore at h
  by_cases he : f.mavenum ≠ ""
  · rw [if_pos he] at h
    rw [if_pos he]
    simp only [Option.bind_eq_bind, Option.pure_def] at h
    split at h
    · cases h
    · cases ht : Gen.fieldTypeFromGo f.mavenum with
      | none => rw [ht] at h; cases h
      | some t =>
        rw [ht] at h
        simp only [Option.bind_some] at h
        split at h
        · cases h
        · simp only [Option.some.injEq] at h; subst h; exact ⟨rfl, rfl, rfl⟩
  · rw [if_neg he] at h
    rw [if_neg he]
    simp only [Option.bind_eq_bind, Option.pure_def] at h
    by_cases hs : (f.elemType == "string") = true
    · rw [if_pos hs] at h
      rw [if_pos hs]
      split at h
      · cases h
      · split at h
        · simp only [Option.some.injEq] at h; subst h; exact ⟨rfl, rfl, rfl⟩
        · cases hn : Spec.Msg.parseLen f.mavlen with
          | none => rw [hn] at h; cases h
          | some n => rw [hn] at h; simp only [Option.bind_some, Option.some.injEq] at h; subst h; exact ⟨rfl, rfl, rfl⟩
    · rw [if_neg hs] at h
      rw [if_neg hs]
      cases ht : Gen.fieldTypeFromGo f.elemType with
      | none => rw [ht] at h; cases h
      | some t => rw [ht] at h; simp only [Option.bind_some, Option.some.injEq] at h; subst h; exact ⟨rfl, rfl, rfl⟩

/-- the model's and the specification's reading of one struct field agree on index, extension flag and type -/
theorem field_link (i : Nat) (f : GoField) (d : DField) (sf : Spec.Msg.SField)
    (h1 : initField i f = .ok d) (h2 : Spec.Msg.fieldOfGo i f = some sf) :
    d.index = sf.idx ∧ d.isExt = sf.ext ∧ d.ftype = sf.ty := by
  obtain ⟨a1, a2, a3⟩ := initField_char i f d h1
  obtain ⟨b1, b2, b3⟩ := fieldOfGo_char i f sf h2
  refine ⟨by rw [a1, b1], by rw [a2, b2], ?_⟩
  by_cases he : f.mavenum ≠ ""
  · rw [if_pos he] at a3 b3
    rw [a3] at b3; exact Option.some.inj b3
  · rw [if_neg he] at a3 b3
    by_cases hs : (f.elemType == "string") = true
    · rw [if_pos hs] at b3
      have : f.elemType = "string" := by simpa using hs
      rw [this] at a3
      simp [Gen.fieldTypeFromGo] at a3
      rw [b3]; exact a3.symm
    · rw [if_neg hs] at b3
      rw [a3] at b3; exact Option.some.inj b3

theorem fields_link : ∀ (gfs : List GoField) (i : Nat) (ds : List DField) (sfs : List Spec.Msg.SField),
    initFields i gfs = .ok ds → Spec.Msg.fieldsOfGo i gfs = some sfs → ds.map projD = sfs.map projS := by
  intro gfs
  induction gfs with
  | nil =>
    intro i ds sfs h1 h2
    simp [initFields, pure, Except.pure] at h1
    simp [Spec.Msg.fieldsOfGo] at h2
    subst h1; subst h2; rfl
  | cons f r ih =>
    intro i ds sfs h1 h2
    simp only [initFields, bind, Except.bind] at h1
    simp only [Spec.Msg.fieldsOfGo, Option.bind_eq_bind] at h2
    cases hd : initField i f with
    | error e => simp [hd] at h1
    | ok d =>
      simp only [hd] at h1
      cases hr : initFields (i + 1) r with
      | error e => simp [hr] at h1
      | ok ds' =>
        simp only [hr, pure, Except.pure, Except.ok.injEq] at h1
        cases hsf : Spec.Msg.fieldOfGo i f with
        | none => simp [hsf] at h2
        | some sf =>
          simp only [hsf, Option.bind_some] at h2
          cases hsr : Spec.Msg.fieldsOfGo (i + 1) r with
          | none => simp [hsr] at h2
          | some sfs' =>
            simp only [hsr, Option.bind_some, Option.pure_def, Option.some.injEq] at h2
            subst h1; subst h2
            obtain ⟨a, b, c⟩ := field_link i f d sf hd hsf
            simp only [List.map_cons, ih (i + 1) ds' sfs' hr hsr]
            congr 1
            simp [projD, projS, a, b, c, sizes_tbl]

end Mav.SortLink

namespace Mav.SortLink
open Mav Msg SortOrder

theorem fieldsOfGo_idx : ∀ (gfs : List GoField) (i : Nat) (sfs : List Spec.Msg.SField),
    Spec.Msg.fieldsOfGo i gfs = some sfs → IdxSorted (sfs.map projS) ∧ ∀ x ∈ sfs, i ≤ x.idx := by
  intro gfs
  induction gfs with
  | nil => intro i sfs h; simp [Spec.Msg.fieldsOfGo] at h; subst h; simp [IdxSorted]
  | cons f r ih =>
    intro i sfs h
    simp only [Spec.Msg.fieldsOfGo, Option.bind_eq_bind] at h
    cases hsf : Spec.Msg.fieldOfGo i f with
    | none => simp [hsf] at h
    | some sf =>
      simp only [hsf, Option.bind_some] at h
      cases hsr : Spec.Msg.fieldsOfGo (i + 1) r with
      | none => simp [hsr] at h
      | some sfs' =>
        simp only [hsr, Option.bind_some, Option.pure_def, Option.some.injEq] at h
        subst h
        obtain ⟨a, b⟩ := ih (i + 1) sfs' hsr
        have hi := (fieldOfGo_char i f sf hsf).1
        refine ⟨⟨?_, a⟩, ?_⟩
        · intro x hx
          obtain ⟨y, hy, rfl⟩ := List.mem_map.mp hx
          have := b y hy
          simp [projS, hi]; omega
        · intro x hx
          rcases List.mem_cons.mp hx with h | h
          · rw [h, hi]; exact Nat.le_refl _
          · have := b x h; omega

theorem allExt_extAfterBase (l : List Spec.Msg.SField) (h : l.all (·.ext) = true) : ExtAfterBase (l.map projS) := by
  induction l with
  | nil => simp [ExtAfterBase]
  | cons a r ih =>
    simp only [List.all_cons, Bool.and_eq_true] at h
    refine ⟨fun _ b hb => ?_, ih h.2⟩
    obtain ⟨y, hy, rfl⟩ := List.mem_map.mp hb
    exact List.all_eq_true.mp h.2 y hy

theorem extAfterBase_of_check (l : List Spec.Msg.SField) (h : (l.dropWhile (!·.ext)).all (·.ext) = true) :
    ExtAfterBase (l.map projS) := by
  induction l with
  | nil => simp [ExtAfterBase]
  | cons a r ih =>
    cases hae : a.ext with
    | false =>
      have hd : (a :: r).dropWhile (!·.ext) = r.dropWhile (!·.ext) := by simp [List.dropWhile, hae]
      rw [hd] at h
      exact ⟨fun h' => by simp [projS, hae] at h', ih h⟩
    | true =>
      have hd : (a :: r).dropWhile (!·.ext) = a :: r := by simp [List.dropWhile, hae]
      rw [hd] at h
      exact allExt_extAfterBase (a :: r) h

/-- what `init` has established when it succeeds -/
theorem init_ok (st : GoStruct) (rw : RW) (h : Msg.init st = .ok rw) :
    Msg.hasMsgPrefix st.name = true ∧ ∃ fs, initFields 0 st.fields = .ok fs ∧ extOrderOk fs = true ∧
      sizeTotal fs ≤ 255 ∧ rw = mkRW st fs := by
  unfold Msg.init at h
  split at h
  · cases h
  · rename_i hname
    split at h
    · cases h
    · rename_i fs hfs
      split at h
      · cases h
      · rename_i hext
        split at h
        · cases h
        · rename_i hsz
          simp only [Except.ok.injEq] at h
          exact ⟨by simpa using hname, fs, hfs, by simpa using hext, by omega, h.symm⟩

/-- **C03 (ordering, for every struct).** Whenever `Initialize` accepts a struct and the struct is a MAVLink definition in the
    specification's sense (in particular: extensions declared after the base fields), the order in which the model puts
    the fields on the wire is the specification's: base fields by decreasing primitive size, declaration order within a size,
    then the extension fields as declared. -/
theorem wire_order_agrees (st : GoStruct) (rw : RW) (d : Spec.Msg.SDef)
    (h1 : Msg.init st = .ok rw) (h2 : Spec.Msg.ofGo st = some d) :
    rw.fields.map (·.index) = (Spec.Msg.wireOrder d).map (·.idx) := by
  obtain ⟨_, fs, hfs, _, _, h1⟩ := init_ok st rw h1
  -- unpack the specification
  unfold Spec.Msg.ofGo at h2
  simp only [Option.bind_eq_bind, Option.pure_def] at h2
  split at h2
  · cases h2
  · cases hsf : Spec.Msg.fieldsOfGo 0 st.fields with
    | none => simp [hsf] at h2
    | some sfs =>
      simp only [hsf, Option.bind_some] at h2
      split at h2
      · rename_i hchk
        simp only [Option.some.injEq] at h2
        simp only [Bool.and_eq_true] at hchk
        have hlink := fields_link st.fields 0 fs sfs hfs hsf
        have hidx := (fieldsOfGo_idx st.fields 0 sfs hsf).1
        have hext := extAfterBase_of_check sfs hchk.1.1
        have hmain : (sortFields fs).map projD = (Spec.Msg.wireOrder d).map projS := by
          rw [sortFields_map, hlink, isort_eq_spec _ hidx hext, wireOrder_map, ← h2]
        have := congrArg (List.map (·.idx)) hmain
        simp only [List.map_map] at this
        rw [h1]
        exact this
      · cases h2

end Mav.SortLink
