import Mav.Model.Node
/- Helper lemmas for C10–C13: invariants of the node transition system, proved inductive over all steps. -/
namespace Mav.Nd

/-- the event pushEvent is about to test `terminate` for -/
def pend (x : ChanSt) : List Ev := match x.push with | .begin ev => [ev] | _ => []

/-- the event blocked in pushEvent's second select -/
def inflight (x : ChanSt) : List Ev := match x.push with | .pushing ev => [ev] | _ => []

/-- per-channel event invariant -/
structure EvInv (term : Bool) (x : ChanSt) : Prop where
  /-- delivered events + the one in flight are exactly the produced ones, unless (after Close) the one in flight was abandoned -/
  deliv : x.delivered ++ inflight x = x.produced ∨
          (term = true ∧ inflight x = [] ∧ ∃ ev, x.delivered ++ [ev] = x.produced)
  /-- produced events + the one about to be pushed are exactly the wanted ones, unless (after Close) pushes were skipped -/
  prod : x.produced ++ pend x = x.want ∨ (term = true ∧ x.produced <+: x.want)

theorem upd_same (s : St) (c : Cid) (f : ChanSt → ChanSt) : (upd s c f).chans c = f (s.chans c) := by simp [upd]
theorem upd_other (s : St) (c c' : Cid) (f : ChanSt → ChanSt) (h : c' ≠ c) : (upd s c f).chans c' = s.chans c' := by simp [upd, h]

theorem init_evinv (inputs : Cid → List RdRes) (c : Cid) : EvInv (init inputs).terminate ((init inputs).chans c) := by
  constructor <;> simp [init, inflight, pend]

/-- EvInv only looks at these fields -/
theorem evinv_congr (term : Bool) (x y : ChanSt) (h1 : y.push = x.push) (h3 : y.want = x.want)
    (h4 : y.produced = x.produced) (h5 : y.delivered = x.delivered) (h : EvInv term x) : EvInv term y := by
  obtain ⟨a, b⟩ := h
  refine ⟨?_, ?_⟩
  · simpa [inflight, h1, h4, h5] using a
  · simpa [pend, h1, h3, h4] using b

theorem dispatch_chan (b : Bool) (s : St) (t : Tgt) (it : Item) (pick : Cid → Bool) (c : Cid) (h : EvInv b (s.chans c)) :
    EvInv b ((dispatch s t it pick).chans c) := by
  apply evinv_congr b (s.chans c) <;> try exact h
  all_goals (simp only [dispatch, enq]; split <;> (try split) <;> rfl)

theorem evinv_upd (s : St) (c : Cid) (f : ChanSt → ChanSt) (c' : Cid) (hinv : ∀ c, EvInv s.terminate (s.chans c))
    (hf : EvInv s.terminate (s.chans c) → EvInv s.terminate (f (s.chans c))) :
    EvInv s.terminate ((upd s c f).chans c') := by
  by_cases hc : c' = c
  · subst hc; rw [upd_same]; exact hf (hinv c')
  · rw [upd_other _ _ _ _ hc]; exact hinv c'

macro "irrelevant" : tactic => `(tactic| (
  intro hi
  refine evinv_congr _ _ _ ?_ ?_ ?_ ?_ hi <;> rfl))

macro "evstep" : tactic => `(tactic| (
  intro hi
  obtain ⟨hA, hB⟩ := hi
  refine ⟨?_, ?_⟩ <;> simp_all [inflight, pend]))

macro "onchan" c:term : tactic => `(tactic| (
  try dsimp only []
  refine evinv_upd _ $c _ _ (by assumption) ?_))

set_option maxHeartbeats 2000000 in
theorem step_evinv {s s' : St} (h : Step s s') (hinv : ∀ c, EvInv s.terminate (s.chans c)) :
    ∀ c, EvInv s'.terminate (s'.chans c) := by
  intro c'
  cases h with
  | dispatch t it pick _ => exact dispatch_chan _ s t it pick c' (hinv c')
  | closeNode =>
    obtain ⟨a, b⟩ := hinv c'
    refine ⟨?_, ?_⟩
    · rcases a with a | ⟨_, a2, a3⟩
      · exact Or.inl a
      · exact Or.inr ⟨rfl, a2, a3⟩
    · rcases b with b | ⟨_, b2⟩
      · exact Or.inl b
      · exact Or.inr ⟨rfl, b2⟩
  | provExit _ => exact hinv c'
  | nodeBreak _ _ => exact hinv c'
  | nodeToWait _ _ => exact hinv c'
  | nodeFinish _ _ _ => exact hinv c'
  | nodeCloseChan c h1 h2 h3 => (onchan c; irrelevant)
  | newChan c h1 h2 h3 h4 => (onchan c; irrelevant)
  | newChanTerm c h1 h2 h3 h4 h5 h6 h7 =>
    onchan c
    intro ⟨hA, hB⟩
    refine ⟨Or.inl (by simp [inflight, h6, h7]), Or.inr ⟨h1, ?_⟩⟩
    simp [h6]
  | pBegin c ev h1 h2 h3 => (onchan c; evstep)
  | pSkip c ev h1 h2 h3 =>
    onchan c
    intro ⟨hA, hB⟩
    refine ⟨by simpa [inflight, h2] using hA, ?_⟩
    rcases hB with hB | ⟨ht, hp⟩
    · exact Or.inr ⟨h3, ⟨[ev], by simpa [pend, h2] using hB⟩⟩
    · exact Or.inr ⟨ht, hp⟩
  | pDeliver c ev h1 h2 => (onchan c; evstep)
  | pDrop c ev h1 h2 =>
    onchan c
    intro ⟨hA, hB⟩
    refine ⟨?_, by simpa [pend, h1] using hB⟩
    rcases hA with hA | ⟨_, hi, _⟩
    · exact Or.inr ⟨h2, by simp [inflight], ⟨ev, by simpa [inflight, h1] using hA⟩⟩
    · simp [inflight, h1] at hi
  | rResume c h1 h2 => (onchan c; irrelevant)
  | rReadOk c r rest ev h1 h2 h3 h4 =>
    onchan c
    intro ⟨hA, hB⟩
    refine ⟨by simpa [inflight, h2] using hA, ?_⟩
    rcases hB with hB | ⟨ht, hp⟩
    · left; simp [pend, h2] at hB; simp [pend, hB]
    · exact Or.inr ⟨ht, hp.trans (List.prefix_append _ _)⟩
  | rReadFatal c e rest h1 h2 => (onchan c; irrelevant)
  | rReadClosed c h1 h2 => (onchan c; irrelevant)
  | wDequeue c it rest h1 h2 h3 => (onchan c; irrelevant)
  | wOk c it h1 => (onchan c; irrelevant)
  | wFail c it h1 => (onchan c; irrelevant)
  | wTerm c h1 h2 => (onchan c; irrelevant)
  | cReaderDone c e h1 h2 => (onchan c; irrelevant)
  | cCtxDone c h1 h2 => (onchan c; irrelevant)
  | cACloseRwc c e h1 => (onchan c; irrelevant)
  | cATermW c e h1 => (onchan c; irrelevant)
  | cARecvW c e h1 h2 h3 =>
    onchan c
    intro ⟨hA, hB⟩
    refine ⟨by simpa [inflight, h3] using hA, ?_⟩
    rcases hB with hB | ⟨ht, hp⟩
    · left; simp [pend, h3] at hB; simp [pend, hB]
    · exact Or.inr ⟨ht, hp.trans (List.prefix_append _ _)⟩
  | cBTermW c h1 => (onchan c; irrelevant)
  | cBRecvW c h1 h2 => (onchan c; irrelevant)
  | cBCloseRwc c h1 => (onchan c; irrelevant)
  | cBRecvR c e h1 h2 h3 =>
    onchan c
    intro ⟨hA, hB⟩
    refine ⟨by simpa [inflight, h3] using hA, ?_⟩
    rcases hB with hB | ⟨ht, hp⟩
    · left; simp [pend, h3] at hB; simp [pend, hB]
    · exact Or.inr ⟨ht, hp.trans (List.prefix_append _ _)⟩
  | cCloseResume c h1 h2 => (onchan c; irrelevant)
  | cUnregister c h1 h2 => (onchan c; irrelevant)
  | cUnregisterTerm c h1 h2 => (onchan c; irrelevant)

theorem reach_evinv (inputs : Cid → List RdRes) (s : St) (h : Reach (init inputs) s) : ∀ c, EvInv s.terminate (s.chans c) := by
  induction h with
  | refl => exact init_evinv inputs
  | step _ hs ih => exact step_evinv hs ih


/-- the item handed to the transport and not yet completed -/
def inflightW (x : ChanSt) : List Item := match x.wp with | .writing it => [it] | _ => []

/-- per-channel output invariant -/
structure FanInv (x : ChanSt) : Prop where
  /-- everything accepted is: already written (or failed), being written, or still queued — in acceptance order -/
  flow : x.acc = x.done.map (·.1) ++ inflightW x ++ x.queue
  /-- the backlog never exceeds the bound -/
  bound : x.queue.length ≤ qcap
  /-- what was accepted is a sub-sequence of what was addressed to the channel -/
  sub : x.acc.Sublist x.seen
  /-- the writer goroutine only stops after writerTerminate was closed (it survives failed writes) -/
  alive : (x.wp = .sendDone ∨ x.wp = .exited) → x.writerTerm = true

theorem init_faninv (inputs : Cid → List RdRes) (c : Cid) : FanInv ((init inputs).chans c) := by
  constructor <;> simp [init, inflightW, qcap, Gen.writeBufferSize]

theorem faninv_congr (x y : ChanSt) (h1 : y.wp = x.wp) (h2 : y.queue = x.queue) (h3 : y.acc = x.acc) (h4 : y.done = x.done)
    (h5 : y.seen = x.seen) (h6 : y.writerTerm = x.writerTerm) (h : FanInv x) : FanInv y := by
  obtain ⟨a, b, c, d⟩ := h
  refine ⟨?_, ?_, ?_, ?_⟩
  · simpa [inflightW, h1, h2, h3, h4] using a
  · simpa [h2] using b
  · simpa [h3, h5] using c
  · simpa [h1, h6] using d

theorem faninv_enq (s : St) (t : Tgt) (it : Item) (pick : Cid → Bool) (c : Cid) (x : ChanSt) (h : FanInv x) :
    FanInv (enq s t it pick c x) := by
  obtain ⟨a, b, c', d⟩ := h
  unfold enq
  by_cases h1 : (s.members.contains c && t.hits c) = true
  · simp only [h1, if_true]
    by_cases h2 : (decide (x.queue.length < qcap) && (!x.ctxDone || pick c)) = true
    · simp only [h2, if_true]
      have hlt : x.queue.length < qcap := by
        simp only [Bool.and_eq_true, decide_eq_true_eq] at h2; exact h2.1
      refine ⟨?_, ?_, ?_, d⟩
      · simp [inflightW] at a ⊢; rw [a]; simp
      · simp; omega
      · exact List.Sublist.append c' (List.Sublist.refl _)
    · simp only [h2]
      refine ⟨a, b, ?_, d⟩
      exact c'.trans (List.sublist_append_left _ _)
  · simp only [h1]; exact ⟨a, b, c', d⟩

theorem faninv_upd (s : St) (c : Cid) (f : ChanSt → ChanSt) (c' : Cid) (hinv : ∀ c, FanInv (s.chans c))
    (hf : FanInv (s.chans c) → FanInv (f (s.chans c))) : FanInv ((upd s c f).chans c') := by
  by_cases hc : c' = c
  · subst hc; rw [upd_same]; exact hf (hinv c')
  · rw [upd_other _ _ _ _ hc]; exact hinv c'

macro "fanirr" : tactic => `(tactic| (
  intro hi
  refine faninv_congr _ _ ?_ ?_ ?_ ?_ ?_ ?_ hi <;> rfl))

macro "onchanF" c:term : tactic => `(tactic| (
  try dsimp only []
  refine faninv_upd _ $c _ _ (by assumption) ?_))

theorem step_faninv {s s' : St} (h : Step s s') (hinv : ∀ c, FanInv (s.chans c)) : ∀ c, FanInv (s'.chans c) := by
  intro c'
  cases h with
  | dispatch t it pick _ => exact faninv_enq s t it pick c' _ (hinv c')
  | closeNode => exact hinv c'
  | provExit _ => exact hinv c'
  | nodeBreak _ _ => exact hinv c'
  | nodeToWait _ _ => exact hinv c'
  | nodeFinish _ _ _ => exact hinv c'
  | nodeCloseChan c h1 h2 h3 => (onchanF c; fanirr)
  | newChan c h1 h2 h3 h4 => (onchanF c; fanirr)
  | newChanTerm c h1 h2 h3 h4 h5 h6 h7 =>
    onchanF c
    intro ⟨a, b, c2, d⟩
    refine ⟨?_, b, c2, by simp⟩
    simp [inflightW, h5] at a ⊢; exact a
  | pBegin c ev h1 h2 h3 => (onchanF c; fanirr)
  | pSkip c ev h1 h2 h3 => (onchanF c; fanirr)
  | pDeliver c ev h1 h2 => (onchanF c; fanirr)
  | pDrop c ev h1 h2 => (onchanF c; fanirr)
  | rResume c h1 h2 => (onchanF c; fanirr)
  | rReadOk c r rest ev h1 h2 h3 h4 => (onchanF c; fanirr)
  | rReadFatal c e rest h1 h2 => (onchanF c; fanirr)
  | rReadClosed c h1 h2 => (onchanF c; fanirr)
  | wDequeue c it rest h1 h2 h3 =>
    onchanF c
    intro ⟨a, b, c2, d⟩
    refine ⟨?_, ?_, c2, by simp⟩
    · simp [inflightW, h1, h3] at a ⊢; exact a
    · simp [h3] at b ⊢; omega
  | wOk c it h1 =>
    onchanF c
    intro ⟨a, b, c2, d⟩
    refine ⟨?_, b, c2, by simp⟩
    simp [inflightW, h1] at a ⊢; exact a
  | wFail c it h1 =>
    onchanF c
    intro ⟨a, b, c2, d⟩
    refine ⟨?_, b, c2, by simp⟩
    simp [inflightW, h1] at a ⊢; exact a
  | wTerm c h1 h2 =>
    onchanF c
    intro ⟨a, b, c2, d⟩
    refine ⟨?_, b, c2, fun _ => h2⟩
    simp [inflightW, h1] at a ⊢; exact a
  | cReaderDone c e h1 h2 => (onchanF c; fanirr)
  | cCtxDone c h1 h2 => (onchanF c; fanirr)
  | cACloseRwc c e h1 => (onchanF c; fanirr)
  | cATermW c e h1 =>
    onchanF c
    intro ⟨a, b, c2, d⟩
    exact ⟨a, b, c2, fun _ => rfl⟩
  | cARecvW c e h1 h2 h3 =>
    onchanF c
    intro ⟨a, b, c2, d⟩
    refine ⟨?_, b, c2, fun _ => d (Or.inl h2)⟩
    simp [inflightW, h2] at a ⊢; exact a
  | cBTermW c h1 =>
    onchanF c
    intro ⟨a, b, c2, d⟩
    exact ⟨a, b, c2, fun _ => rfl⟩
  | cBRecvW c h1 h2 =>
    onchanF c
    intro ⟨a, b, c2, d⟩
    refine ⟨?_, b, c2, fun _ => d (Or.inl h2)⟩
    simp [inflightW, h2] at a ⊢; exact a
  | cBCloseRwc c h1 => (onchanF c; fanirr)
  | cBRecvR c e h1 h2 h3 => (onchanF c; fanirr)
  | cCloseResume c h1 h2 => (onchanF c; fanirr)
  | cUnregister c h1 h2 => (onchanF c; fanirr)
  | cUnregisterTerm c h1 h2 => (onchanF c; fanirr)

theorem reach_faninv (inputs : Cid → List RdRes) (s : St) (h : Reach (init inputs) s) : ∀ c, FanInv (s.chans c) := by
  induction h with
  | refl => exact init_faninv inputs
  | step _ hs ih => exact step_faninv hs ih


/-- positions of Channel.run at which the reader goroutine has returned and run is not (yet / any more) pushing the close event -/
def readerGoneQuiet : CPc → Bool
  | .aCloseRwc _ | .aTermW _ | .aRecvW _ | .sendCloseChan | .finished => true
  | _ => false

/-- who may be inside pushEvent -/
structure Own (x : ChanSt) : Prop where
  o1 : x.rp = .read → x.push = .idle
  o2 : ∀ e, x.rp = .sendDone e → x.push = .idle
  o3 : x.rp = .exited → x.cp = .closeWait ∨ x.push = .idle
  o4 : x.cp = .closeWait → x.rp = .exited
  o5 : x.cp = .notStarted → x.push = .begin .opn ∧ x.rp = .waitPush ∧ x.wp = .idle ∧ x.produced = [] ∧ x.delivered = [] ∧
        x.queue = [] ∧ x.writerTerm = false
  o6 : readerGoneQuiet x.cp = true → x.rp = .exited

theorem init_own (inputs : Cid → List RdRes) (c : Cid) : Own ((init inputs).chans c) := by
  constructor <;> simp [init, readerGoneQuiet]

theorem own_congr (x y : ChanSt) (h1 : y.rp = x.rp) (h2 : y.push = x.push) (h3 : y.cp = x.cp) (h4 : y.wp = x.wp)
    (h5 : y.produced = x.produced) (h6 : y.delivered = x.delivered) (h7 : y.queue = x.queue) (h8 : y.writerTerm = x.writerTerm)
    (h : Own x) : Own y := by
  obtain ⟨a, b, c, d, e, f⟩ := h
  refine ⟨?_, ?_, ?_, ?_, ?_, ?_⟩ <;> simp only [h1, h2, h3, h4, h5, h6, h7, h8] <;> assumption

theorem own_upd (s : St) (c : Cid) (f : ChanSt → ChanSt) (c' : Cid) (hinv : ∀ c, Own (s.chans c))
    (hf : Own (s.chans c) → Own (f (s.chans c))) : Own ((upd s c f).chans c') := by
  by_cases hc : c' = c
  · subst hc; rw [upd_same]; exact hf (hinv c')
  · rw [upd_other _ _ _ _ hc]; exact hinv c'

macro "ownirr" : tactic => `(tactic| (
  intro hi
  refine own_congr _ _ ?_ ?_ ?_ ?_ ?_ ?_ ?_ ?_ hi <;> rfl))

macro "onchanO" c:term : tactic => `(tactic| (
  try dsimp only []
  refine own_upd _ $c _ _ (by assumption) ?_))

macro "ownstep" : tactic => `(tactic| (
  intro hi
  obtain ⟨o1, o2, o3, o4, o5, o6⟩ := hi
  refine ⟨?_, ?_, ?_, ?_, ?_, ?_⟩ <;> simp_all [readerGoneQuiet]))

theorem own_enq (s : St) (t : Tgt) (it : Item) (pick : Cid → Bool) (c : Cid) (x : ChanSt) (hm : x.cp = .notStarted → c ∉ s.members)
    (h : Own x) : Own (enq s t it pick c x) := by
  unfold enq
  by_cases h1 : (s.members.contains c && t.hits c) = true
  · simp only [h1, if_true]
    have hmem : c ∈ s.members := by
      simp only [Bool.and_eq_true] at h1
      simpa using h1.1
    have hns : x.cp ≠ .notStarted := fun hn => hm hn hmem
    obtain ⟨a, b, c2, d, e, f⟩ := h
    by_cases h2 : (decide (x.queue.length < qcap) && (!x.ctxDone || pick c)) = true
    · simp only [h2, if_true]
      exact ⟨a, b, c2, d, fun hn => absurd hn hns, f⟩
    · simp only [h2]
      exact ⟨a, b, c2, d, fun hn => absurd hn hns, f⟩
  · simp only [h1]; exact h

/-- global structure: membership, monotone flags -/
structure Glob (s : St) : Prop where
  g1 : ∀ c, (s.chans c).cp = .notStarted → c ∉ s.members
  g2 : ∀ c, (s.chans c).cp ≠ .notStarted → c ∈ s.members ∨ (s.chans c).cp = .finished
  g3 : s.npc ≠ .loop → s.terminate = true
  g4 : s.provDone = true → s.terminate = true
  g5 : s.evClosed = true → s.npc = .done ∧ s.provDone = true ∧ ∀ c, (s.chans c).cp = .notStarted ∨ (s.chans c).cp = .finished
  g6 : s.npc = .done → s.provDone = true ∧ ∀ c ∈ s.members, (s.chans c).cp = .finished

theorem init_glob (inputs : Cid → List RdRes) : Glob (init inputs) := by
  constructor <;> simp [init]


theorem step_own {s s' : St} (h : Step s s') (hg : Glob s) (hinv : ∀ c, Own (s.chans c)) : ∀ c, Own (s'.chans c) := by
  intro c'
  cases h with
  | dispatch t it pick _ => exact own_enq s t it pick c' _ (hg.g1 c') (hinv c')
  | closeNode => exact hinv c'
  | provExit _ => exact hinv c'
  | nodeBreak _ _ => exact hinv c'
  | nodeToWait _ _ => exact hinv c'
  | nodeFinish _ _ _ => exact hinv c'
  | nodeCloseChan c h1 h2 h3 => (onchanO c; ownirr)
  | newChan c h1 h2 h3 h4 => (onchanO c; ownstep)
  | newChanTerm c h1 h2 h3 h4 h5 h6 h7 => (onchanO c; ownstep)
  | pBegin c ev h1 h2 h3 => (onchanO c; ownstep)
  | pSkip c ev h1 h2 h3 => (onchanO c; ownstep)
  | pDeliver c ev h1 h2 => (onchanO c; ownstep)
  | pDrop c ev h1 h2 => (onchanO c; ownstep)
  | rResume c h1 h2 => (onchanO c; ownstep)
  | rReadOk c r rest ev h1 h2 h3 h4 => (onchanO c; ownstep)
  | rReadFatal c e rest h1 h2 => (onchanO c; ownstep)
  | rReadClosed c h1 h2 => (onchanO c; ownstep)
  | wDequeue c it rest h1 h2 h3 => (onchanO c; ownstep)
  | wOk c it h1 => (onchanO c; ownstep)
  | wFail c it h1 => (onchanO c; ownstep)
  | wTerm c h1 h2 => (onchanO c; ownstep)
  | cReaderDone c e h1 h2 => (onchanO c; ownstep)
  | cCtxDone c h1 h2 => (onchanO c; ownstep)
  | cACloseRwc c e h1 => (onchanO c; ownstep)
  | cATermW c e h1 => (onchanO c; ownstep)
  | cARecvW c e h1 h2 h3 => (onchanO c; ownstep)
  | cBTermW c h1 => (onchanO c; ownstep)
  | cBRecvW c h1 h2 => (onchanO c; ownstep)
  | cBCloseRwc c h1 => (onchanO c; ownstep)
  | cBRecvR c e h1 h2 h3 => (onchanO c; ownstep)
  | cCloseResume c h1 h2 => (onchanO c; ownstep)
  | cUnregister c h1 h2 => (onchanO c; ownstep)
  | cUnregisterTerm c h1 h2 => (onchanO c; ownstep)

theorem upd_chans (s : St) (c : Cid) (f : ChanSt → ChanSt) (c' : Cid) :
    (upd s c f).chans c' = if c' = c then f (s.chans c') else s.chans c' := by
  unfold upd; simp only []

/-- a step that leaves every channel's run-position and all global control fields unchanged -/
theorem glob_same (s s' : St) (hg : Glob s) (hcp : ∀ c, (s'.chans c).cp = (s.chans c).cp) (hm : s'.members = s.members)
    (hn : s'.npc = s.npc) (ht : s'.terminate = s.terminate) (hp : s'.provDone = s.provDone) (he : s'.evClosed = s.evClosed) :
    Glob s' := by
  obtain ⟨g1, g2, g3, g4, g5, g6⟩ := hg
  refine ⟨?_, ?_, ?_, ?_, ?_, ?_⟩
  · intro c hc; rw [hcp] at hc; rw [hm]; exact g1 c hc
  · intro c hc; rw [hcp] at hc ⊢; rw [hm]; exact g2 c hc
  · rw [hn, ht]; exact g3
  · rw [hp, ht]; exact g4
  · rw [he, hn, hp]; intro h; obtain ⟨a, b, c⟩ := g5 h; exact ⟨a, b, fun x => by rw [hcp]; exact c x⟩
  · rw [hn, hp, hm]; intro h; obtain ⟨a, b⟩ := g6 h; exact ⟨a, fun x hx => by rw [hcp]; exact b x hx⟩

/-- a step of a started, not yet finished channel to another started, not finished position -/
theorem glob_move (s s' : St) (c : Cid) (hg : Glob s) (hother : ∀ c', c' ≠ c → (s'.chans c').cp = (s.chans c').cp)
    (hold1 : (s.chans c).cp ≠ .notStarted) (hold2 : (s.chans c).cp ≠ .finished)
    (hnew1 : (s'.chans c).cp ≠ .notStarted) (hnew2 : (s'.chans c).cp ≠ .finished)
    (hm : s'.members = s.members)
    (hn : s'.npc = s.npc) (ht : s'.terminate = s.terminate) (hp : s'.provDone = s.provDone) (he : s'.evClosed = s.evClosed) :
    Glob s' := by
  obtain ⟨g1, g2, g3, g4, g5, g6⟩ := hg
  have hmem : c ∈ s.members := by
    rcases g2 c hold1 with h | h
    · exact h
    · exact absurd h hold2
  refine ⟨?_, ?_, ?_, ?_, ?_, ?_⟩
  · intro c' hc'
    by_cases hcc : c' = c
    · subst hcc; exact absurd hc' hnew1
    · rw [hother c' hcc] at hc'; rw [hm]; exact g1 c' hc'
  · intro c' hc'
    by_cases hcc : c' = c
    · subst hcc; rw [hm]; exact Or.inl hmem
    · rw [hother c' hcc] at hc' ⊢; rw [hm]; exact g2 c' hc'
  · rw [hn, ht]; exact g3
  · rw [hp, ht]; exact g4
  · rw [he, hn, hp]; intro h
    obtain ⟨a, b, d⟩ := g5 h
    rcases d c with h1 | h1
    · exact absurd h1 hold1
    · exact absurd h1 hold2
  · rw [hn, hp, hm]; intro h
    obtain ⟨a, b⟩ := g6 h
    exact absurd (b c hmem) hold2

theorem upd_cp_other (s : St) (c : Cid) (f : ChanSt → ChanSt) (c' : Cid) (h : c' ≠ c) :
    ((upd s c f).chans c').cp = (s.chans c').cp := by rw [upd_other _ _ _ _ h]

macro "gsame" hg:ident c:term : tactic => `(tactic| (
  refine glob_same _ _ $hg ?_ rfl rfl rfl rfl rfl
  intro c'
  by_cases hcc : c' = $c
  · subst hcc; simp [upd_same]
  · simp [upd_other _ _ _ _ hcc]))

macro "gmove" hg:ident c:term : tactic => `(tactic| (
  refine glob_move _ _ $c $hg (fun c' hc' => by simp [upd_other _ _ _ _ hc']) ?_ ?_ ?_ ?_ rfl rfl rfl rfl rfl
  all_goals (simp_all [upd_same])))

set_option maxHeartbeats 4000000 in
theorem step_glob {s s' : St} (h : Step s s') (hg : Glob s) : Glob s' := by
  cases h with
  | dispatch t it pick h1 =>
    refine glob_same _ _ hg ?_ rfl rfl rfl rfl rfl
    intro c; simp only [dispatch, enq]; split <;> (try split) <;> rfl
  | closeNode =>
    obtain ⟨g1, g2, g3, g4, g5, g6⟩ := hg
    exact ⟨g1, g2, fun _ => rfl, fun _ => rfl, g5, g6⟩
  | provExit h1 =>
    obtain ⟨g1, g2, g3, g4, g5, g6⟩ := hg
    refine ⟨g1, g2, g3, fun _ => h1, ?_, ?_⟩
    · intro h; obtain ⟨a, b, c⟩ := g5 h; exact ⟨a, rfl, c⟩
    · intro h; obtain ⟨a, b⟩ := g6 h; exact ⟨rfl, b⟩
  | nodeBreak h1 h2 =>
    obtain ⟨g1, g2, g3, g4, g5, g6⟩ := hg
    refine ⟨g1, g2, fun _ => h2, g4, ?_, ?_⟩
    · intro h; obtain ⟨a, b, c⟩ := g5 h; rw [h1] at a; cases a
    · intro h; cases h
  | nodeToWait h1 h2 =>
    obtain ⟨g1, g2, g3, g4, g5, g6⟩ := hg
    refine ⟨g1, g2, fun _ => g3 (by rw [h1]; decide), g4, ?_, ?_⟩
    · intro h; obtain ⟨a, b, c⟩ := g5 h; rw [h1] at a; cases a
    · intro h; cases h
  | nodeFinish h1 h2 h3 =>
    obtain ⟨g1, g2, g3, g4, g5, g6⟩ := hg
    refine ⟨g1, g2, fun _ => g3 (by rw [h1]; decide), g4, ?_, ?_⟩
    · intro _
      refine ⟨rfl, h2, ?_⟩
      intro c
      by_cases hc : (s.chans c).cp = .notStarted
      · exact Or.inl hc
      · rcases g2 c hc with hm | hf
        · exact Or.inr (h3 c hm)
        · exact Or.inr hf
    · intro _; exact ⟨h2, h3⟩
  | nodeCloseChan c h1 h2 h3 => gsame hg c
  | newChan c h1 h2 h3 h4 =>
    obtain ⟨g1, g2, g3, g4, g5, g6⟩ := hg
    refine ⟨?_, ?_, g3, g4, ?_, ?_⟩
    · intro c' hc'
      by_cases hcc : c' = c
      · subst hcc; simp [upd_same] at hc'
      · simp only [upd_other _ _ _ _ hcc] at hc'
        simp only [List.mem_cons, not_or]
        exact ⟨hcc, g1 c' hc'⟩
    · intro c' hc'
      by_cases hcc : c' = c
      · subst hcc; exact Or.inl (by simp)
      · simp only [upd_other _ _ _ _ hcc] at hc' ⊢
        rcases g2 c' hc' with h | h
        · exact Or.inl (by simp [h])
        · exact Or.inr h
    · intro h; obtain ⟨a, b, d⟩ := g5 h; rw [h1] at a; cases a
    · intro h; have h' : s.npc = .done := h; rw [h1] at h'; cases h'
  | newChanTerm c h1 h2 h3 h4 h5 h6 h7 =>
    obtain ⟨g1, g2, g3, g4, g5, g6⟩ := hg
    refine ⟨?_, ?_, g3, g4, ?_, ?_⟩
    · intro c' hc'
      by_cases hcc : c' = c
      · subst hcc; simp [upd_same] at hc'
      · simp only [upd_other _ _ _ _ hcc] at hc'; exact g1 c' hc'
    · intro c' hc'
      by_cases hcc : c' = c
      · subst hcc; exact Or.inr (by simp [upd_same])
      · simp only [upd_other _ _ _ _ hcc] at hc' ⊢; exact g2 c' hc'
    · intro h; obtain ⟨a, b, d⟩ := g5 h; rw [h2] at b; cases b
    · intro h; obtain ⟨a, b⟩ := g6 h; rw [h2] at a; cases a
  | pBegin c ev h1 h2 h3 => gsame hg c
  | pSkip c ev h1 h2 h3 => gsame hg c
  | pDeliver c ev h1 h2 => gsame hg c
  | pDrop c ev h1 h2 => gsame hg c
  | rResume c h1 h2 => gsame hg c
  | rReadOk c r rest ev h1 h2 h3 h4 => gsame hg c
  | rReadFatal c e rest h1 h2 => gsame hg c
  | rReadClosed c h1 h2 => gsame hg c
  | wDequeue c it rest h1 h2 h3 => gsame hg c
  | wOk c it h1 => gsame hg c
  | wFail c it h1 => gsame hg c
  | wTerm c h1 h2 => gsame hg c
  | cReaderDone c e h1 h2 => gmove hg c
  | cCtxDone c h1 h2 => gmove hg c
  | cACloseRwc c e h1 => gmove hg c
  | cATermW c e h1 => gmove hg c
  | cARecvW c e h1 h2 h3 => gmove hg c
  | cBTermW c h1 => gmove hg c
  | cBRecvW c h1 h2 => gmove hg c
  | cBCloseRwc c h1 => gmove hg c
  | cBRecvR c e h1 h2 h3 => gmove hg c
  | cCloseResume c h1 h2 => gmove hg c
  | cUnregister c h1 h2 =>
    obtain ⟨g1, g2, g3, g4, g5, g6⟩ := hg
    refine ⟨?_, ?_, g3, g4, ?_, ?_⟩
    · intro c' hc'
      by_cases hcc : c' = c
      · subst hcc; simp [upd_same] at hc'
      · simp only [upd_other _ _ _ _ hcc] at hc'
        intro hmem
        exact g1 c' hc' (List.mem_filter.mp hmem).1
    · intro c' hc'
      by_cases hcc : c' = c
      · subst hcc; exact Or.inr (by simp [upd_same])
      · simp only [upd_other _ _ _ _ hcc] at hc' ⊢
        rcases g2 c' hc' with h | h
        · exact Or.inl (List.mem_filter.mpr ⟨h, by simpa using hcc⟩)
        · exact Or.inr h
    · intro h; obtain ⟨a, b, d⟩ := g5 h; rw [h2] at a; cases a
    · intro h; have h' : s.npc = .done := h; rw [h2] at h'; cases h'
  | cUnregisterTerm c h1 h2 =>
    obtain ⟨g1, g2, g3, g4, g5, g6⟩ := hg
    have hns : (s.chans c).cp ≠ .notStarted := by rw [h1]; simp
    refine ⟨?_, ?_, g3, g4, ?_, ?_⟩
    · intro c' hc'
      by_cases hcc : c' = c
      · subst hcc; simp [upd_same] at hc'
      · simp only [upd_other _ _ _ _ hcc] at hc'; exact g1 c' hc'
    · intro c' hc'
      by_cases hcc : c' = c
      · subst hcc; exact Or.inr (by simp [upd_same])
      · simp only [upd_other _ _ _ _ hcc] at hc' ⊢; exact g2 c' hc'
    · intro h
      obtain ⟨a, b, d⟩ := g5 h
      rcases d c with hd | hd
      · exact absurd hd hns
      · rw [h1] at hd; cases hd
    · intro h
      obtain ⟨a, b⟩ := g6 h
      refine ⟨a, ?_⟩
      intro c' hc'
      by_cases hcc : c' = c
      · subst hcc; simp [upd_same]
      · simp only [upd_other _ _ _ _ hcc]; exact b c' hc'

theorem reach_struct (inputs : Cid → List RdRes) (s : St) (h : Reach (init inputs) s) : Glob s ∧ ∀ c, Own (s.chans c) := by
  induction h with
  | refl => exact ⟨init_glob inputs, init_own inputs⟩
  | step _ hs ih => exact ⟨step_glob hs ih.1, step_own hs ih.1 ih.2⟩

/-- the extra premises of rReadOk / cARecvW / cBRecvR / newChanTerm hold in every reachable state in which the rest of the
    step's premises hold: they do not restrict the behaviours of the model -/
theorem premises_redundant (inputs : Cid → List RdRes) (s : St) (h : Reach (init inputs) s) (c : Cid) :
    ((s.chans c).rp = .read → (s.chans c).push = .idle) ∧
    (∀ e, (s.chans c).cp = .aRecvW e → (s.chans c).push = .idle) ∧
    (∀ e, (s.chans c).cp = .bRecvR → (s.chans c).rp = .sendDone e → (s.chans c).push = .idle) ∧
    ((s.chans c).cp = .notStarted → (s.chans c).wp = .idle ∧ (s.chans c).produced = [] ∧ (s.chans c).delivered = []) := by
  obtain ⟨_, ho⟩ := reach_struct inputs s h
  obtain ⟨o1, o2, o3, o4, o5, o6⟩ := ho c
  refine ⟨o1, ?_, ?_, ?_⟩
  · intro e he
    have hr := o6 (by rw [he]; rfl)
    rcases o3 hr with h | h
    · rw [he] at h; cases h
    · exact h
  · intro e _ hr; exact o2 e hr
  · intro hn; obtain ⟨_, _, a, b, c2, _⟩ := o5 hn; exact ⟨a, b, c2⟩


/-- shape of the wanted event sequence and relation to the transport's input -/
structure WantInv (inputs0 : List RdRes) (x : ChanSt) : Prop where
  w1 : x.want = .opn :: evsOf x.consumed ++ x.closeEv
  w2 : x.closeEv ≠ [] → x.rp = .exited
  w3 : x.closeEv = [] ∨ ∃ e, x.closeEv = [.close e]
  w4 : x.taken ++ x.inputs = inputs0
  w5 : x.taken = x.consumed ∨ ∃ e, x.taken = x.consumed ++ [.fatal e]
  w6 : (∃ e, x.taken = x.consumed ++ [.fatal e]) → x.rp ≠ .read ∧ x.rp ≠ .waitPush
  w7 : ∀ r ∈ x.consumed, ∃ ev, toEv r = some ev
  w8 : x.closeEv ≠ [] → x.cp = .closeWait ∨ x.cp = .sendCloseChan ∨ x.cp = .finished

theorem init_wantinv (inputs : Cid → List RdRes) (c : Cid) : WantInv (inputs c) ((init inputs).chans c) := by
  constructor <;> simp [init, evsOf]

theorem wantinv_congr (i0 : List RdRes) (x y : ChanSt) (h1 : y.want = x.want) (h2 : y.consumed = x.consumed) (h3 : y.closeEv = x.closeEv)
    (h4 : y.rp = x.rp) (h5 : y.taken = x.taken) (h6 : y.inputs = x.inputs) (h7 : y.cp = x.cp) (h : WantInv i0 x) : WantInv i0 y := by
  obtain ⟨a, b, c, d, e, f, g, i⟩ := h
  refine ⟨?_, ?_, ?_, ?_, ?_, ?_, ?_, ?_⟩ <;> simp only [h1, h2, h3, h4, h5, h6, h7] <;> assumption

theorem wantinv_upd (inputs : Cid → List RdRes) (s : St) (c : Cid) (f : ChanSt → ChanSt) (c' : Cid)
    (hinv : ∀ c, WantInv (inputs c) (s.chans c))
    (hf : WantInv (inputs c) (s.chans c) → WantInv (inputs c) (f (s.chans c))) : WantInv (inputs c') ((upd s c f).chans c') := by
  by_cases hc : c' = c
  · subst hc; rw [upd_same]; exact hf (hinv c')
  · rw [upd_other _ _ _ _ hc]; exact hinv c'

macro "wirr" : tactic => `(tactic| (
  intro hi
  refine wantinv_congr _ _ _ ?_ ?_ ?_ ?_ ?_ ?_ ?_ hi <;> rfl))

macro "onchanW" c:term : tactic => `(tactic| (
  try dsimp only []
  refine wantinv_upd _ _ $c _ _ (by assumption) ?_))

macro "wstep" : tactic => `(tactic| (
  intro hi
  obtain ⟨w1, w2, w3, w4, w5, w6, w7, w8⟩ := hi
  refine ⟨?_, ?_, ?_, ?_, ?_, ?_, ?_, ?_⟩ <;> simp_all [evsOf]))

theorem step_wantinv (inputs : Cid → List RdRes) {s s' : St} (h : Step s s') (ho : ∀ c, Own (s.chans c))
    (hinv : ∀ c, WantInv (inputs c) (s.chans c)) : ∀ c, WantInv (inputs c) (s'.chans c) := by
  intro c'
  cases h with
  | dispatch t it pick _ =>
    refine wantinv_congr _ (s.chans c') _ ?_ ?_ ?_ ?_ ?_ ?_ ?_ (hinv c') <;>
      (simp only [dispatch, enq]; split <;> (try split) <;> rfl)
  | closeNode => exact hinv c'
  | provExit _ => exact hinv c'
  | nodeBreak _ _ => exact hinv c'
  | nodeToWait _ _ => exact hinv c'
  | nodeFinish _ _ _ => exact hinv c'
  | nodeCloseChan c h1 h2 h3 => (onchanW c; wirr)
  | newChan c h1 h2 h3 h4 => (onchanW c; wstep)
  | newChanTerm c h1 h2 h3 h4 h5 h6 h7 => (onchanW c; wstep)
  | pBegin c ev h1 h2 h3 => (onchanW c; wirr)
  | pSkip c ev h1 h2 h3 => (onchanW c; wirr)
  | pDeliver c ev h1 h2 => (onchanW c; wirr)
  | pDrop c ev h1 h2 => (onchanW c; wirr)
  | rResume c h1 h2 => (onchanW c; wstep)
  | rReadOk c r rest ev h1 h2 h3 h4 =>
    onchanW c
    intro ⟨w1, w2, w3, w4, w5, w6, w7, w8⟩
    have hce : (s.chans c).closeEv = [] := by
      by_cases h : (s.chans c).closeEv = []
      · exact h
      · have := w2 h; rw [h1] at this; cases this
    have htk : (s.chans c).taken = (s.chans c).consumed := by
      rcases w5 with h | ⟨e, h⟩
      · exact h
      · exact absurd h1 (w6 ⟨e, h⟩).1
    refine ⟨?_, ?_, ?_, ?_, ?_, ?_, ?_, ?_⟩
    · simp [w1, hce, evsOf, List.filterMap_append, h4]
    · simp [hce]
    · exact Or.inl hce
    · simp [← w4, h3]
    · exact Or.inl (by simp [htk])
    · rintro ⟨e, h⟩; simp [htk] at h
    · intro r' hr'
      simp at hr'
      rcases hr' with hr' | rfl
      · exact w7 r' hr'
      · exact ⟨ev, h4⟩
    · simp [hce]
  | rReadFatal c e rest h1 h2 => (onchanW c; wstep)
  | rReadClosed c h1 h2 => (onchanW c; wstep)
  | wDequeue c it rest h1 h2 h3 => (onchanW c; wirr)
  | wOk c it h1 => (onchanW c; wirr)
  | wFail c it h1 => (onchanW c; wirr)
  | wTerm c h1 h2 => (onchanW c; wirr)
  | cReaderDone c e h1 h2 => (onchanW c; wstep)
  | cCtxDone c h1 h2 => (onchanW c; wstep)
  | cACloseRwc c e h1 => (onchanW c; wstep)
  | cATermW c e h1 => (onchanW c; wstep)
  | cARecvW c e h1 h2 h3 =>
    onchanW c
    intro ⟨w1, w2, w3, w4, w5, w6, w7, w8⟩
    have hce : (s.chans c).closeEv = [] := by
      by_cases h : (s.chans c).closeEv = []
      · exact h
      · have := w8 h; rw [h1] at this; simp at this
    refine ⟨?_, ?_, ?_, ?_, ?_, ?_, w7, ?_⟩
    · simp [w1, hce]
    · intro _; exact (ho c).o6 (by rw [h1]; rfl)
    · exact Or.inr ⟨_, rfl⟩
    · exact w4
    · exact w5
    · intro h; exact w6 h
    · intro _; exact Or.inl rfl
  | cBTermW c h1 => (onchanW c; wstep)
  | cBRecvW c h1 h2 => (onchanW c; wstep)
  | cBCloseRwc c h1 => (onchanW c; wstep)
  | cBRecvR c e h1 h2 h3 =>
    onchanW c
    intro ⟨w1, w2, w3, w4, w5, w6, w7, w8⟩
    have hce : (s.chans c).closeEv = [] := by
      by_cases h : (s.chans c).closeEv = []
      · exact h
      · have := w8 h; rw [h1] at this; simp at this
    refine ⟨?_, ?_, ?_, ?_, ?_, ?_, w7, ?_⟩
    · simp [w1, hce]
    · intro _; rfl
    · exact Or.inr ⟨_, rfl⟩
    · exact w4
    · exact w5
    · intro _; simp
    · intro _; exact Or.inl rfl
  | cCloseResume c h1 h2 => (onchanW c; wstep)
  | cUnregister c h1 h2 => (onchanW c; wstep)
  | cUnregisterTerm c h1 h2 => (onchanW c; wstep)

theorem reach_wantinv (inputs : Cid → List RdRes) (s : St) (h : Reach (init inputs) s) : ∀ c, WantInv (inputs c) (s.chans c) := by
  induction h with
  | refl => exact init_wantinv inputs
  | step hr hs ih => exact step_wantinv inputs hs (reach_struct inputs _ hr).2 ih

/-- the global log restricted to a channel is that channel's delivered list -/
def logOf (l : List (Cid × Ev)) (c : Cid) : List Ev := (l.filter (fun e => e.1 == c)).map (·.2)

theorem log_same (s : St) (c : Cid) (f : ChanSt → ChanSt) (hf : ∀ x, (f x).delivered = x.delivered)
    (hinv : ∀ c, logOf s.log c = (s.chans c).delivered) (c' : Cid) :
    logOf s.log c' = ((upd s c f).chans c').delivered := by
  by_cases hc : c' = c
  · subst hc; rw [upd_same, hf]; exact hinv c'
  · rw [upd_other _ _ _ _ hc]; exact hinv c'

theorem step_log {s s' : St} (h : Step s s') (hinv : ∀ c, logOf s.log c = (s.chans c).delivered) :
    ∀ c, logOf s'.log c = (s'.chans c).delivered := by
  intro c'
  cases h with
  | dispatch t it pick _ =>
    have : ((dispatch s t it pick).chans c').delivered = (s.chans c').delivered := by
      simp only [dispatch, enq]; split <;> (try split) <;> rfl
    rw [this]; exact hinv c'
  | pDeliver c ev h1 h2 =>
    by_cases hc : c' = c
    · subst hc
      simp only [logOf, List.filter_append, List.map_append] at *
      simp [upd_same, ← hinv c']
    · simp only [logOf, List.filter_append, List.map_append] at *
      have : ((c, ev).1 == c') = false := by simpa using fun h => hc h.symm
      simp [upd_other _ _ _ _ hc, this, hinv c']
  | closeNode => exact hinv c'
  | provExit _ => exact hinv c'
  | nodeBreak _ _ => exact hinv c'
  | nodeToWait _ _ => exact hinv c'
  | nodeFinish _ _ _ => exact hinv c'
  | nodeCloseChan c h1 h2 h3 => (refine log_same s c _ ?_ hinv c'; exact fun _ => rfl)
  | newChan c h1 h2 h3 h4 => (dsimp only []; refine log_same s c _ ?_ hinv c'; exact fun _ => rfl)
  | newChanTerm c h1 h2 h3 h4 h5 h6 h7 => (refine log_same s c _ ?_ hinv c'; exact fun _ => rfl)
  | pBegin c ev h1 h2 h3 => (refine log_same s c _ ?_ hinv c'; exact fun _ => rfl)
  | pSkip c ev h1 h2 h3 => (refine log_same s c _ ?_ hinv c'; exact fun _ => rfl)
  | pDrop c ev h1 h2 => (refine log_same s c _ ?_ hinv c'; exact fun _ => rfl)
  | rResume c h1 h2 => (refine log_same s c _ ?_ hinv c'; exact fun _ => rfl)
  | rReadOk c r rest ev h1 h2 h3 h4 => (refine log_same s c _ ?_ hinv c'; exact fun _ => rfl)
  | rReadFatal c e rest h1 h2 => (refine log_same s c _ ?_ hinv c'; exact fun _ => rfl)
  | rReadClosed c h1 h2 => (refine log_same s c _ ?_ hinv c'; exact fun _ => rfl)
  | wDequeue c it rest h1 h2 h3 => (refine log_same s c _ ?_ hinv c'; exact fun _ => rfl)
  | wOk c it h1 => (refine log_same s c _ ?_ hinv c'; exact fun _ => rfl)
  | wFail c it h1 => (refine log_same s c _ ?_ hinv c'; exact fun _ => rfl)
  | wTerm c h1 h2 => (refine log_same s c _ ?_ hinv c'; exact fun _ => rfl)
  | cReaderDone c e h1 h2 => (refine log_same s c _ ?_ hinv c'; exact fun _ => rfl)
  | cCtxDone c h1 h2 => (refine log_same s c _ ?_ hinv c'; exact fun _ => rfl)
  | cACloseRwc c e h1 => (refine log_same s c _ ?_ hinv c'; exact fun _ => rfl)
  | cATermW c e h1 => (refine log_same s c _ ?_ hinv c'; exact fun _ => rfl)
  | cARecvW c e h1 h2 h3 => (refine log_same s c _ ?_ hinv c'; exact fun _ => rfl)
  | cBTermW c h1 => (refine log_same s c _ ?_ hinv c'; exact fun _ => rfl)
  | cBRecvW c h1 h2 => (refine log_same s c _ ?_ hinv c'; exact fun _ => rfl)
  | cBCloseRwc c h1 => (refine log_same s c _ ?_ hinv c'; exact fun _ => rfl)
  | cBRecvR c e h1 h2 h3 => (refine log_same s c _ ?_ hinv c'; exact fun _ => rfl)
  | cCloseResume c h1 h2 => (refine log_same s c _ ?_ hinv c'; exact fun _ => rfl)
  | cUnregister c h1 h2 => (dsimp only []; refine log_same s c _ ?_ hinv c'; exact fun _ => rfl)
  | cUnregisterTerm c h1 h2 => (refine log_same s c _ ?_ hinv c'; exact fun _ => rfl)

theorem reach_log (inputs : Cid → List RdRes) (s : St) (h : Reach (init inputs) s) : ∀ c, logOf s.log c = (s.chans c).delivered := by
  induction h with
  | refl => intro c; simp [logOf, init]
  | step _ hs ih => exact step_log hs ih

end Mav.Nd
