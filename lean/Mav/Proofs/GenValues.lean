import Mav.Proofs.GenLink
/-
  C18, enum values: a decimal `value` attribute — any number of leading zeros included, as the schema's `\d{1,10}` allows — is read
  by the generator model as the decimal number it denotes (never as octal), for every value below 2^64.
-/
namespace Mav.GenValues
open Mav Gen18 EnumText

theorem digitVal_digitChar (d : Nat) (h : d < 10) : Gen18.digitVal (digitChar d) = some d := by
  have : d = 0 ∨ d = 1 ∨ d = 2 ∨ d = 3 ∨ d = 4 ∨ d = 5 ∨ d = 6 ∨ d = 7 ∨ d = 8 ∨ d = 9 := by omega
  rcases this with rfl|rfl|rfl|rfl|rfl|rfl|rfl|rfl|rfl|rfl <;> decide

def ustep (base : Nat) (acc : Option Nat) (c : Char) : Option Nat :=
  match acc, Gen18.digitVal c with
  | some n, some d => if d < base ∧ n * base + d < 2 ^ 64 then some (n * base + d) else none
  | _, _ => none

theorem parseUint_eq (base : Nat) (s : List Char) :
    parseUint base s = if s.isEmpty then none else s.foldl (ustep base) (some 0) := rfl

theorem valMsf_ge (ds : List Nat) (acc : Nat) : acc ≤ valMsf ds acc := by
  induction ds generalizing acc with
  | nil => simp [valMsf]
  | cons d r ih =>
    simp only [valMsf, List.foldl_cons] at ih ⊢
    have := ih (acc * 10 + d)
    omega

theorem fold_digits (ds : List Nat) (h : ∀ d ∈ ds, d < 10) (acc : Nat) (hb : valMsf ds acc < 2 ^ 64) :
    (ds.map digitChar).foldl (ustep 10) (some acc) = some (valMsf ds acc) := by
  induction ds generalizing acc with
  | nil => simp [valMsf]
  | cons d r ih =>
    have hd := h d (by simp)
    have hr : ∀ x ∈ r, x < 10 := fun x hx => h x (by simp [hx])
    have hb' : valMsf r (acc * 10 + d) < 2 ^ 64 := by simpa [valMsf] using hb
    have hstep : acc * 10 + d < 2 ^ 64 := Nat.lt_of_le_of_lt (valMsf_ge r _) hb'
    simp only [List.map_cons, List.foldl_cons, ustep, digitVal_digitChar d hd, hd, hstep, and_self, if_true]
    rw [ih hr _ hb']
    simp [valMsf]

theorem fold_zeros (k : Nat) (rest : List Char) :
    (List.replicate k '0' ++ rest).foldl (ustep 10) (some 0) = rest.foldl (ustep 10) (some 0) := by
  induction k with
  | zero => simp
  | succ k ih =>
    simp only [List.replicate_succ, List.cons_append, List.foldl_cons]
    have : ustep 10 (some 0) '0' = some 0 := by decide
    rw [this]; exact ih

theorem splitStars_digits (cs : List Char) (h : cs.all isDigit = true) : splitStars cs = none := by
  induction cs with
  | nil => rfl
  | cons c r ih =>
    simp only [List.all_cons, Bool.and_eq_true] at h
    have hc : c ≠ '*' := by
      intro e; rw [e] at h; exact absurd h.1 (by decide)
    have ihr := ih h.2
    cases r with
    | nil => simp [splitStars, hc]
    | cons d r' =>
      unfold splitStars
      split
      · rename_i heq; cases heq
      · rename_i heq; cases heq; exact absurd rfl hc
      · rename_i c' r'' _ heq
        cases heq
        simp [ihr]

/-- a text made of decimal digits is parsed in base ten: no prefix, no power -/
theorem parseValue_digits (cs : List Char) (h : cs.all isDigit = true) :
    parseValue (String.ofList cs) = parseUint 10 cs := by
  unfold parseValue
  rw [String.toList_ofList]
  have hs := splitStars_digits cs h
  match cs, h, hs with
  | [], _, hs => simp [hs]
  | [c], _, hs => simp [hs]
  | c :: d :: r, h, hs =>
    simp only [List.all_cons, Bool.and_eq_true] at h
    have hb : d ≠ 'b' := by intro e; rw [e] at h; exact absurd h.2.1 (by decide)
    have hx : d ≠ 'x' := by intro e; rw [e] at h; exact absurd h.2.1 (by decide)
    split
    · rename_i heq; simp only [List.cons.injEq] at heq; exact absurd heq.2.1 hb
    · rename_i heq; simp only [List.cons.injEq] at heq; exact absurd heq.2.1 hx
    · rw [hs]

theorem zeros_digits (k : Nat) : (List.replicate k '0').all isDigit = true := by
  induction k with
  | zero => rfl
  | succ k ih => simp only [List.replicate_succ, List.all_cons, ih, Bool.and_true]; decide

/-- **C18 (decimal enum values).** `value="000…0<decimal numeral of n>"`, any number of leading zeros, n below 2^64: the
    generator model reads n. -/
theorem decimal_value (k n : Nat) (hn : n < 2 ^ 64) :
    parseValue (String.ofList (List.replicate k '0' ++ natToDec n)) = some n := by
  obtain ⟨hdig, hne⟩ := GenLink.natToDec_digits n
  have hall : (List.replicate k '0' ++ natToDec n).all isDigit = true := by
    rw [List.all_append, zeros_digits, hdig]; rfl
  rw [parseValue_digits _ hall, parseUint_eq]
  have hemp : (List.replicate k '0' ++ natToDec n).isEmpty = false := by
    cases hd : natToDec n with
    | nil => exact absurd hd hne
    | cons c r => cases k <;> simp [List.replicate_succ]
  rw [hemp]
  simp only [Bool.false_eq_true, if_false]
  rw [fold_zeros]
  obtain ⟨h1, h2, _⟩ := digitsRev_spec (n + 1) n (by omega)
  unfold natToDec
  have hv : valMsf (digitsRev (n + 1) n).reverse 0 = n := by rw [valMsf_reverse, h1]
  rw [fold_digits _ (by intro d hd; exact h2 d (by simpa using hd)) 0 (by rw [hv]; exact hn), hv]

/-- in particular "010" is ten and "008" is eight (a base-detecting parser would say 8 and fail) -/
example : parseValue "010" = some 10 ∧ parseValue "008" = some 8 ∧ parseValue "0" = some 0 := by decide

end Mav.GenValues
