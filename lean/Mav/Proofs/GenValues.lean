import Mav.Proofs.GenLink
/-
  C18, enum values: a decimal `value` attribute — any number of leading zeros included, as the schema's `\d{1,10}` allows — is read
  by the generator model as the decimal number it denotes (never as octal), for every value below 2^64.
-/
namespace Mav.GenValues
open Mav Gen18 EnumText

theorem digitVal_digitChar (d : Nat) (h : d < 10) : Gen18.digitVal (digitChar d) = some d := by
  have : d = 0 ∨ d = 1 ∨ d = 2 ∨ d = 3 ∨ d = 4 ∨ d = 5 ∨ d = 6 ∨ d = 7 ∨ d = 8 ∨ d = 9 := by omega
  rcases this with rfl|rfl|rfl|rfl|rfl|rfl|rfl|rfl|rfl|rfl <;> decide

def ustep (base : Nat) (acc : Option Nat) (c : Char) : Option Nat :=
  match acc, Gen18.digitVal c with
  | some n, some d => if d < base ∧ n * base + d < 2 ^ 64 then some (n * base + d) else none
  | _, _ => none

theorem parseUint_eq (base : Nat) (s : List Char) :
    parseUint base s = if s.isEmpty then none else s.foldl (ustep base) (some 0) := rfl

theorem valMsf_ge (ds : List Nat) (acc : Nat) : acc ≤ valMsf ds acc := by
  induction ds generalizing acc with
  | nil => simp [valMsf]
  | cons d r ih =>
    simp only [valMsf, List.foldl_cons] at ih ⊢
    have := ih (acc * 10 + d)
    omega

theorem fold_digits (ds : List Nat) (h : ∀ d ∈ ds, d < 10) (acc : Nat) (hb : valMsf ds acc < 2 ^ 64) :
    (ds.map digitChar).foldl (ustep 10) (some acc) = some (valMsf ds acc) := by
  induction ds generalizing acc with
  | nil => simp [valMsf]
  | cons d r ih =>
    have hd := h d (by simp)
    have hr : ∀ x ∈ r, x < 10 := fun x hx => h x (by simp [hx])
    have hb' : valMsf r (acc * 10 + d) < 2 ^ 64 := by simpa [valMsf] using hb
    have hstep : acc * 10 + d < 2 ^ 64 := Nat.lt_of_le_of_lt (valMsf_ge r _) hb'
    simp only [List.map_cons, List.foldl_cons, ustep, digitVal_digitChar d hd, hd, hstep, and_self, if_true]
    rw [ih hr _ hb']
    simp [valMsf]

theorem fold_zeros (k : Nat) (rest : List Char) :
    (List.replicate k '0' ++ rest).foldl (ustep 10) (some 0) = rest.foldl (ustep 10) (some 0) := by
  induction k with
  | zero => simp
  | succ k ih =>
    simp only [List.replicate_succ, List.cons_append, List.foldl_cons]
    have : ustep 10 (some 0) '0' = some 0 := by decide
    rw [this]; exact ih

theorem splitStars_digits (cs : List Char) (h : cs.all isDigit = true) : splitStars cs = none := by
  induction cs with
  | nil => rfl
  | cons c r ih =>
    simp only [List.all_cons, Bool.and_eq_true] at h
    have hc : c ≠ '*' := by
      intro e; rw [e] at h; exact absurd h.1 (by decide)
    have ihr := ih h.2
    cases r with
    | nil => simp [splitStars, hc]
    | cons d r' =>
      unfold splitStars
      split
      · rename_i heq; cases heq
      · rename_i heq; cases heq; exact absurd rfl hc
      · rename_i c' r'' _ heq
        cases heq
        simp [ihr]

/-- a text made of decimal digits is parsed in base ten: no prefix, no power -/
theorem parseValue_digits (cs : List Char) (h : cs.all isDigit = true) :
    parseValue (String.ofList cs) = parseUint 10 cs := by
  unfold parseValue
  rw [String.toList_ofList]
  have hs := splitStars_digits cs h
  match cs, h, hs with
  | [], _, hs => simp [hs]
  | [c], _, hs => simp [hs]
  | c :: d :: r, h, hs =>
    simp only [List.all_cons, Bool.and_eq_true] at h
    have hb : d ≠ 'b' := by intro e; rw [e] at h; exact absurd h.2.1 (by decide)
    have hx : d ≠ 'x' := by intro e; rw [e] at h; exact absurd h.2.1 (by decide)
    split
    · rename_i heq; simp only [List.cons.injEq] at heq; exact absurd heq.2.1 hb
    · rename_i heq; simp only [List.cons.injEq] at heq; exact absurd heq.2.1 hx
    · rw [hs]

theorem zeros_digits (k : Nat) : (List.replicate k '0').all isDigit = true := by
  induction k with
  | zero => rfl
  | succ k ih => simp only [List.replicate_succ, List.all_cons, ih, Bool.and_true]; decide

/-- **C18 (decimal enum values).** `value="000…0<decimal numeral of n>"`, any number of leading zeros, n below 2^64: the
    generator model reads n. -/
theorem decimal_value (k n : Nat) (hn : n < 2 ^ 64) :
    parseValue (String.ofList (List.replicate k '0' ++ natToDec n)) = some n := by
  obtain ⟨hdig, hne⟩ := GenLink.natToDec_digits n
  have hall : (List.replicate k '0' ++ natToDec n).all isDigit = true := by
    rw [List.all_append, zeros_digits, hdig]; rfl
  rw [parseValue_digits _ hall, parseUint_eq]
  have hemp : (List.replicate k '0' ++ natToDec n).isEmpty = false := by
    cases hd : natToDec n with
    | nil => exact absurd hd hne
    | cons c r => cases k <;> simp [List.replicate_succ]
  rw [hemp]
  simp only [Bool.false_eq_true, if_false]
  rw [fold_zeros]
  obtain ⟨h1, h2, _⟩ := digitsRev_spec (n + 1) n (by omega)
  unfold natToDec
  have hv : valMsf (digitsRev (n + 1) n).reverse 0 = n := by rw [valMsf_reverse, h1]
  rw [fold_digits _ (by intro d hd; exact h2 d (by simpa using hd)) 0 (by rw [hv]; exact hn), hv]

/-- in particular "010" is ten and "008" is eight (a base-detecting parser would say 8 and fail) -/
example : parseValue "010" = some 10 ∧ parseValue "008" = some 8 ∧ parseValue "0" = some 0 := by decide

/-! ### hexadecimal and binary values -/

/-- positional value of a digit list, most significant first -/
def valB (base : Nat) (ds : List Nat) (acc : Nat) : Nat := ds.foldl (fun a d => a * base + d) acc

theorem valB_ge (base : Nat) (ds : List Nat) (acc : Nat) (hb : 1 ≤ base) : acc ≤ valB base ds acc := by
  induction ds generalizing acc with
  | nil => simp [valB]
  | cons d r ih =>
    simp only [valB, List.foldl_cons] at ih ⊢
    have := ih (acc * base + d)
    have : acc ≤ acc * base := Nat.le_mul_of_pos_right acc hb
    omega

theorem fold_base (base : Nat) (hb : 1 ≤ base) (ch : Nat → Char) (hch : ∀ d, d < base → Gen18.digitVal (ch d) = some d)
    (ds : List Nat) (h : ∀ d ∈ ds, d < base) (acc : Nat) (hv : valB base ds acc < 2 ^ 64) :
    (ds.map ch).foldl (ustep base) (some acc) = some (valB base ds acc) := by
  induction ds generalizing acc with
  | nil => simp [valB]
  | cons d r ih =>
    have hd := h d (by simp)
    have hr : ∀ x ∈ r, x < base := fun x hx => h x (by simp [hx])
    have hv' : valB base r (acc * base + d) < 2 ^ 64 := by simpa [valB] using hv
    have hstep : acc * base + d < 2 ^ 64 := Nat.lt_of_le_of_lt (valB_ge base r _ hb) hv'
    simp only [List.map_cons, List.foldl_cons, ustep, hch d hd, hd, hstep, and_self, if_true]
    rw [ih hr _ hv']
    simp [valB]

/-- a hexadecimal digit, in either case -/
def hexChar (d : Nat × Bool) : Char :=
  if d.1 < 10 then digitChar d.1 else if d.2 then Char.ofNat (55 + d.1) else Char.ofNat (87 + d.1)

theorem digitVal_hexChar (d : Nat) (up : Bool) (h : d < 16) : Gen18.digitVal (hexChar (d, up)) = some d := by
  have : d = 0 ∨ d = 1 ∨ d = 2 ∨ d = 3 ∨ d = 4 ∨ d = 5 ∨ d = 6 ∨ d = 7 ∨ d = 8 ∨ d = 9 ∨ d = 10 ∨ d = 11 ∨ d = 12 ∨
      d = 13 ∨ d = 14 ∨ d = 15 := by omega
  cases up <;> rcases this with rfl|rfl|rfl|rfl|rfl|rfl|rfl|rfl|rfl|rfl|rfl|rfl|rfl|rfl|rfl|rfl <;> decide

theorem fold_hex (ds : List (Nat × Bool)) (h : ∀ d ∈ ds, d.1 < 16) (acc : Nat) (hv : valB 16 (ds.map (·.1)) acc < 2 ^ 64) :
    (ds.map hexChar).foldl (ustep 16) (some acc) = some (valB 16 (ds.map (·.1)) acc) := by
  induction ds generalizing acc with
  | nil => simp [valB]
  | cons d r ih =>
    have hd := h d (by simp)
    have hr : ∀ x ∈ r, x.1 < 16 := fun x hx => h x (by simp [hx])
    have hv' : valB 16 (r.map (·.1)) (acc * 16 + d.1) < 2 ^ 64 := by simpa [valB] using hv
    have hstep : acc * 16 + d.1 < 2 ^ 64 := Nat.lt_of_le_of_lt (valB_ge 16 _ _ (by omega)) hv'
    have hdv : Gen18.digitVal (hexChar d) = some d.1 := digitVal_hexChar d.1 d.2 hd
    simp only [List.map_cons, List.foldl_cons, ustep, hdv, hd, hstep, and_self, if_true]
    rw [ih hr _ hv']
    simp [valB]

/-- **C18 (hexadecimal enum values).** `value="0x<hex digits>"`, digits in either case, at least one, value below 2^64: the
    generator model reads the number the digits denote in base sixteen. -/
theorem hex_value (ds : List (Nat × Bool)) (hne : ds ≠ []) (h : ∀ d ∈ ds, d.1 < 16) (hv : valB 16 (ds.map (·.1)) 0 < 2 ^ 64) :
    parseValue (String.ofList ('0' :: 'x' :: ds.map hexChar)) = some (valB 16 (ds.map (·.1)) 0) := by
  unfold parseValue
  rw [String.toList_ofList]
  show parseUint 16 (ds.map hexChar) = _
  rw [parseUint_eq]
  have : (ds.map hexChar).isEmpty = false := by
    cases ds with
    | nil => exact absurd rfl hne
    | cons _ _ => rfl
  rw [this]
  simp only [Bool.false_eq_true, if_false]
  exact fold_hex ds h 0 hv

/-- **C18 (binary enum values).** `value="0b<binary digits>"`. -/
theorem binary_value (ds : List Nat) (hne : ds ≠ []) (h : ∀ d ∈ ds, d < 2) (hv : valB 2 ds 0 < 2 ^ 64) :
    parseValue (String.ofList ('0' :: 'b' :: ds.map digitChar)) = some (valB 2 ds 0) := by
  unfold parseValue
  rw [String.toList_ofList]
  show parseUint 2 (ds.map digitChar) = _
  rw [parseUint_eq]
  have : (ds.map digitChar).isEmpty = false := by
    cases ds with
    | nil => exact absurd rfl hne
    | cons _ _ => rfl
  rw [this]
  simp only [Bool.false_eq_true, if_false]
  exact fold_base 2 (by omega) digitChar (fun d hd => digitVal_digitChar d (by omega)) ds h 0 hv

example : parseValue "0x1F" = some 31 ∧ parseValue "0xfF" = some 255 ∧ parseValue "0b101" = some 5 ∧
    parseValue "0x10000000000000000" = none := by decide

/-! ### values that do not fit are refused -/

theorem ustep_none (base : Nat) (cs : List Char) : cs.foldl (ustep base) none = none := by
  induction cs with
  | nil => rfl
  | cons c r ih => simp only [List.foldl_cons, ustep, ih]

theorem fold_digits_overflow (ds : List Nat) (h : ∀ d ∈ ds, d < 10) (acc : Nat) (hb : 2 ^ 64 ≤ valMsf ds acc) (hacc : acc < 2 ^ 64) :
    (ds.map digitChar).foldl (ustep 10) (some acc) = none := by
  induction ds generalizing acc with
  | nil => simp [valMsf] at hb; omega
  | cons d r ih =>
    have hd := h d (by simp)
    have hr : ∀ x ∈ r, x < 10 := fun x hx => h x (by simp [hx])
    have hb' : 2 ^ 64 ≤ valMsf r (acc * 10 + d) := by simpa [valMsf] using hb
    simp only [List.map_cons, List.foldl_cons, ustep, digitVal_digitChar d hd, hd, true_and]
    by_cases hstep : acc * 10 + d < 2 ^ 64
    · simp only [hstep, if_true]
      exact ih hr _ hb' hstep
    · simp only [hstep, if_false]
      exact ustep_none 10 _

/-- **C18 (a value the generated constant cannot hold is an error).** A decimal `value` of 2^64 or more makes the conversion fail —
    it is never wrapped into a different constant. -/
theorem decimal_value_too_big (n : Nat) (hn : 2 ^ 64 ≤ n) : parseValue (String.ofList (natToDec n)) = none := by
  obtain ⟨hdig, hne⟩ := GenLink.natToDec_digits n
  rw [parseValue_digits _ hdig, parseUint_eq]
  have hemp : (natToDec n).isEmpty = false := by
    cases hd : natToDec n with
    | nil => exact absurd hd hne
    | cons c r => rfl
  rw [hemp]
  simp only [Bool.false_eq_true, if_false]
  obtain ⟨h1, h2, _⟩ := digitsRev_spec (n + 1) n (by omega)
  unfold natToDec
  have hv : valMsf (digitsRev (n + 1) n).reverse 0 = n := by rw [valMsf_reverse, h1]
  exact fold_digits_overflow _ (by intro d hd; exact h2 d (by simpa using hd)) 0 (by rw [hv]; exact hn) (by decide)

end Mav.GenValues
