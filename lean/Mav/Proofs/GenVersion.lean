import Mav.Model.Gen18
import Mav.Spec.Gen18
/-
  C18, dialect version: what the generator model writes as `Version` is what the specification says — the <version> of the last
  processed file that has one; the dialect file itself is processed last, so its own <version> (an explicit 0 included) wins
  over whatever the included files declare.
-/
namespace Mav.GenVersion
open Mav Gen18

theorem foldl_version (order : List XFile) (v0 : String) :
    order.foldl (fun v f => if f.version != "" then f.version else v) v0 =
      ((order.reverse.find? (·.version != "")).map (·.version)).getD v0 := by
  induction order generalizing v0 with
  | nil => rfl
  | cons f r ih =>
    simp only [List.foldl_cons, List.reverse_cons, List.find?_append]
    rw [ih]
    cases hr : r.reverse.find? (·.version != "") with
    | some g => simp
    | none =>
      by_cases hf : (f.version != "") = true
      · simp [hf]
      · simp [hf]

theorem parseNat_eq_atoiDigits (s : String) : Spec.Msg.parseNat s = Msg.atoiDigits s.toList := by
  unfold Spec.Msg.parseNat
  cases s.toList <;> rfl

/-- **C18 (version).** The number the generator model writes into the dialect is the specification's. -/
theorem version_eq_spec (order : List XFile) : versionNum (versionOf order) = Spec.Gen18.versionOf order := by
  unfold versionNum versionOf Spec.Gen18.versionOf
  rw [foldl_version]
  cases h : order.reverse.find? (·.version != "") with
  | none => simp [Msg.atoiDigits]
  | some f => simp [parseNat_eq_atoiDigits]

/-- a file that declares a version, processed last, decides (whatever was processed before it) -/
theorem last_file_decides (pre : List XFile) (f : XFile) (h : f.version ≠ "") :
    versionOf (pre ++ [f]) = f.version := by
  unfold versionOf
  rw [List.foldl_append]
  simp [h]

/-- the file being converted is the last one processed -/
theorem processDef_appends (fs : List XFile) (fuel : Nat) (name : String) (v : List String) (o : List XFile)
    (v' : List String) (o' : List XFile) (hnv : v.contains name = false)
    (h : processDef fs (fuel + 1) name (v, o) = some (v', o')) :
    ∃ f pre, lookupFile fs name = some f ∧ o' = pre ++ [f] := by
  unfold processDef at h
  simp only [hnv, Bool.false_eq_true, if_false] at h
  cases hl : lookupFile fs name with
  | none => simp [hl] at h
  | some f =>
    simp only [hl] at h
    cases hst : f.includes.foldl (fun st inc => st.bind (processDef fs fuel inc)) (some (name :: v, o)) with
    | none => simp [hst] at h
    | some p =>
      simp only [hst, Option.map_some, Option.some.injEq, Prod.mk.injEq] at h
      exact ⟨f, p.2, rfl, h.2.symm⟩

/-- **C18 (the dialect's own version wins).** When conversion succeeds and the dialect file declares a version — any text, "0"
    included — that is the version written, whatever the included files declare. -/
theorem own_version_wins (root : XFile) (rest : List XFile) (order : List XFile)
    (h : processed (root :: rest) = some order) (hv : root.version ≠ "") :
    versionOf order = root.version := by
  unfold processed at h
  simp only [List.length_cons] at h
  cases hp : processDef (root :: rest) (rest.length + 1 + 1) root.name ([], []) with
  | none => simp [hp] at h
  | some p =>
    simp only [hp, Option.map_some, Option.some.injEq] at h
    obtain ⟨f, pre, hl, ho⟩ := processDef_appends (root :: rest) (rest.length + 1) root.name [] [] p.1 p.2 (by simp) (by simpa using hp)
    have hf : f = root := by
      unfold lookupFile at hl
      simp at hl
      exact hl.symm
    subst hf
    rw [← h, ho]
    exact last_file_decides pre f hv

example : versionNum (versionOf [{ name := "inc", version := "3", includes := [], enums := [], msgs := [] },
                                  { name := "main", version := "0", includes := ["inc"], enums := [], msgs := [] }]) = 0 := by decide

end Mav.GenVersion
