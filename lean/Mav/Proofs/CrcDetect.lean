import Mav.Proofs.X25
/-
  CRC-16/MCRF4XX detects every error confined to one byte: the per-byte state map is a bijection, so two inputs that
  differ in exactly one byte have different CRCs (whatever precedes and follows).
-/
namespace Mav.Spec

theorem crcBit_inj (x y : BitVec 16) (h : crcBit x = crcBit y) : x = y := by
  have hlin : crcBit (x ^^^ y) = 0#16 := by rw [crcBit_xor, h]; simp
  have hz : x ^^^ y = 0#16 := by
    generalize x ^^^ y = d at hlin
    unfold crcBit at hlin
    by_cases hl : d.getLsbD 0 = true
    · simp only [hl, if_true] at hlin
      -- bit 15 of (d >>> 1) is 0, bit 15 of 0x8408 is 1
      have := congrArg (fun v => v.getLsbD 15) hlin
      simp at this
    · simp only [hl, Bool.false_eq_true, if_false] at hlin
      apply BitVec.eq_of_getLsbD_eq
      intro i hi
      by_cases h0 : i = 0
      · subst h0; simpa using hl
      · have := congrArg (fun v => v.getLsbD (i - 1)) hlin
        simp at this
        have hi' : 1 + (i - 1) = i := by omega
        rw [hi'] at this
        simpa using this
  have : x = x ^^^ y ^^^ y := by rw [BitVec.xor_assoc, BitVec.xor_self, BitVec.xor_zero]
  rw [this, hz]; simp

theorem crcBit8_inj (x y : BitVec 16) (h : crcBit8 x = crcBit8 y) : x = y := by
  unfold crcBit8 at h
  exact crcBit_inj _ _ (crcBit_inj _ _ (crcBit_inj _ _ (crcBit_inj _ _ (crcBit_inj _ _ (crcBit_inj _ _ (crcBit_inj _ _ (crcBit_inj _ _ h)))))))

theorem crcByte_inj_state (c c' : BitVec 16) (b : BitVec 8) (h : crcByte c b = crcByte c' b) : c = c' := by
  have := crcBit8_inj _ _ h
  have h2 : c = c ^^^ b.zeroExtend 16 ^^^ b.zeroExtend 16 := by rw [BitVec.xor_assoc, BitVec.xor_self, BitVec.xor_zero]
  rw [h2, this, BitVec.xor_assoc, BitVec.xor_self, BitVec.xor_zero]

theorem crcByte_inj_byte (c : BitVec 16) (b b' : BitVec 8) (h : crcByte c b = crcByte c b') : b = b' := by
  have := crcBit8_inj _ _ h
  have h2 : b.zeroExtend 16 = b'.zeroExtend 16 := by
    have e : b.zeroExtend 16 = c ^^^ (c ^^^ b.zeroExtend 16) := by rw [← BitVec.xor_assoc, BitVec.xor_self, BitVec.zero_xor]
    rw [e, this, ← BitVec.xor_assoc, BitVec.xor_self, BitVec.zero_xor]
  apply BitVec.eq_of_getLsbD_eq
  intro i hi
  have := congrArg (fun v => v.getLsbD i) h2
  have hi16 : i < 16 := by omega
  simpa [hi, hi16] using this

theorem fold_inj (post : Bytes) : ∀ (c c' : BitVec 16), c ≠ c' →
    post.foldl (fun c b => crcByte c b.toBitVec) c ≠ post.foldl (fun c b => crcByte c b.toBitVec) c' := by
  induction post with
  | nil => intro c c' h; exact h
  | cons b r ih =>
    intro c c' h
    simp only [List.foldl_cons]
    exact ih _ _ (fun he => h (crcByte_inj_state c c' _ he))

/-- **every error confined to one byte is detected** -/
theorem crc16_one_byte (pre post : Bytes) (x x' : UInt8) (h : x ≠ x') :
    crc16 (pre ++ x :: post) ≠ crc16 (pre ++ x' :: post) := by
  unfold crc16
  simp only [List.foldl_append, List.foldl_cons]
  apply fold_inj
  intro he
  have := crcByte_inj_byte _ _ _ he
  exact h (UInt8.toBitVec_inj.mp this)

end Mav.Spec
