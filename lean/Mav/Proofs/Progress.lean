import Mav.Proofs.Reader
/- Helper lemmas: every reader primitive consumes a prefix; progress of readOne. -/
namespace Mav

theorem takeBytes_len (n : Nat) (s : Stream) : (takeBytes n s).2.length + (takeBytes n s).1.length = s.length := by
  induction n generalizing s with
  | zero => simp [takeBytes]
  | succ n ih =>
    cases s with
    | nil => simp [takeBytes]
    | cons x r =>
      cases x with
      | e k => simp [takeBytes]
      | b x =>
        simp only [takeBytes]
        have := ih r
        simp only [List.length_cons]
        omega

theorem takeBytes_items_rest (n : Nat) (s : Stream) :
    bytesToItems (takeBytes n s).1 ++ (takeBytes n s).2 = s := by
  induction n generalizing s with
  | zero => simp [takeBytes]
  | succ n ih =>
    cases s with
    | nil => simp [takeBytes]
    | cons x r =>
      cases x with
      | e k => simp [takeBytes]
      | b x => simp [takeBytes, ih r]

theorem peekDiscard_le (n : Nat) (s : Stream) : (peekDiscard n s).2.length ≤ s.length := by
  unfold peekDiscard peek
  have h1 := takeBytes_len n s
  have h2 := takeBytes_items_rest n s
  generalize takeBytes n s = tb at *
  obtain ⟨bs, r⟩ := tb
  simp only at *
  by_cases hb : bs.length = n
  · simp [hb]; omega
  · simp only [hb, if_false]
    cases r with
    | nil => simp
    | cons x r' =>
      cases x with
      | b y => simp
      | e k =>
        simp [bytesToItems] at *
        omega

theorem readFull_le (n : Nat) (s : Stream) : (readFull n s).2.length ≤ s.length := by
  unfold readFull
  have h1 := takeBytes_len n s
  generalize takeBytes n s = tb at *
  obtain ⟨bs, r⟩ := tb
  simp only at *
  by_cases hb : bs.length = n
  · simp [hb]; omega
  · simp only [hb, if_false]
    cases r with
    | nil => simp
    | cons x r' =>
      cases x with
      | b y => simp only [List.length_cons] at *; omega
      | e k => simp only [List.length_cons] at *; omega

theorem readPayload_le (l : UInt8) (s : Stream) : (readPayload l s).2.length ≤ s.length := by
  unfold readPayload
  split
  · exact readFull_le _ _
  · simp


theorem unmarshalV1_le (s : Stream) : (unmarshalV1 s).2.length ≤ s.length := by
  unfold unmarshalV1
  have h5 := peekDiscard_le 5 s
  split
  · simp_all
  · rename_i len seq sys comp id s1 heq
    have : s1.length ≤ s.length := by rw [heq] at h5; exact h5
    have hp := readPayload_le len s1
    split
    · rename_i e s2 heq2; rw [heq2] at hp; simp at hp ⊢; omega
    · rename_i p s2 heq2
      rw [heq2] at hp
      have h2 := peekDiscard_le 2 s2
      split <;> rename_i heq3 <;> rw [heq3] at h2 <;> simp at h2 hp ⊢ <;> omega
  · rename_i s1 heq; rw [heq] at h5; exact h5

theorem unmarshalV2_le (s : Stream) : (unmarshalV2 s).2.length ≤ s.length := by
  unfold unmarshalV2
  have h9 := peekDiscard_le 9 s
  split
  · simp_all
  · rename_i len ic c seq sys comp i0 i1 i2 s1 heq
    have : s1.length ≤ s.length := by rw [heq] at h9; exact h9
    split
    · simpa using this
    · have hp := readPayload_le len s1
      split
      · rename_i e s2 heq2; rw [heq2] at hp; simp at hp ⊢; omega
      · rename_i p s2 heq2
        rw [heq2] at hp
        have h2 := peekDiscard_le 2 s2
        split
        · rename_i heq3; rw [heq3] at h2; simp at h2 hp ⊢; omega
        · rename_i c0 c1 s3 heq3
          rw [heq3] at h2
          simp at h2 hp
          have h13 := peekDiscard_le 13 s3
          simp only []
          split
          · split <;> rename_i heq4 <;> rw [heq4] at h13 <;> simp at h13 ⊢ <;> omega
          · simp; omega
        · rename_i heq3; rw [heq3] at h2; simp at h2 hp ⊢; omega
  · rename_i s1 heq; rw [heq] at h9; exact h9

/-- every call that does not return a raw transport error / EOF consumes at least one item -/
theorem readOne_progress (cfg : RCfg) (st : RState) (s : Stream) :
    (s = [] ∧ readOne cfg st s = (.terr .eof, [], st)) ∨ (readOne cfg st s).2.1.length < s.length := by
  unfold readOne readByte
  cases s with
  | nil => left; exact ⟨rfl, rfl⟩
  | cons x r =>
    cases x with
    | e k => right; simp
    | b m =>
      right
      simp only
      have h1 := unmarshalV1_le r
      have h2 := unmarshalV2_le r
      split
      · split
        · rename_i heq; rw [heq] at h1; simp at h1 ⊢; omega
        · rename_i heq; rw [heq] at h1; simp at h1
          split <;> simp <;> omega
      · split
        · split
          · rename_i heq; rw [heq] at h2; simp at h2 ⊢; omega
          · rename_i heq; rw [heq] at h2; simp at h2
            split <;> simp <;> omega
        · simp
end Mav
