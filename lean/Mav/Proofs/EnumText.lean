import Mav.Proofs.Decimal
import Mav.Model.EnumCheck
/- Helper lemmas for C19: table well-formedness, split/join, bit-set lattice facts on UInt64. -/
namespace Mav.EnumText

theorem find_of_distinct {α β} [BEq β] [LawfulBEq β] (f : α → β) (l : List α) (h : distinctBy f l = true) (x : α) (hx : x ∈ l) :
    l.find? (fun y => f y == f x) = some x := by
  induction l with
  | nil => simp at hx
  | cons y r ih =>
    simp only [distinctBy, Bool.and_eq_true, List.all_eq_true] at h
    simp only [List.mem_cons] at hx
    rcases hx with rfl | hx
    · simp
    · have hne : (f y == f x) = false := by
        have := h.1 x hx
        simpa using this
      simp [List.find?_cons, hne, ih h.2 hx]

theorem toInt64_range (v : UInt64) : -9223372036854775808 ≤ toInt64 v ∧ toInt64 v ≤ 9223372036854775807 := by
  unfold toInt64
  have h1 := Int64.le_toInt v.toInt64
  have h2 := Int64.toInt_lt v.toInt64
  omega

theorem ofInt64_toInt64 (v : UInt64) : ofInt64 (toInt64 v) = v := by
  unfold ofInt64 toInt64
  simp


theorem splitSep_char (c : Char) (hc : c ≠ ' ') (r cur : List Char) : splitSep (c :: r) cur = splitSep r (c :: cur) := by
  simp [splitSep, hc]

theorem splitSep_sep (r cur : List Char) : splitSep (sep ++ r) cur = cur.reverse :: splitSep r [] := by
  have h : sepTail ('|' :: ' ' :: r) = some r := rfl
  simp only [sep, List.cons_append, List.nil_append]
  rw [splitSep]
  simp only [if_true]
  split
  · rename_i r' h'; rw [h] at h'; simp at h'; subst h'; rfl
  · rename_i h'; rw [h] at h'; simp at h'

theorem splitSep_nospace (x : List Char) (hx : ∀ c ∈ x, c ≠ ' ') (rest cur : List Char) :
    splitSep (x ++ rest) cur = splitSep rest (x.reverse ++ cur) := by
  induction x generalizing cur with
  | nil => simp
  | cons c r ih =>
    have hc : c ≠ ' ' := hx c (by simp)
    have hr : ∀ y ∈ r, y ≠ ' ' := fun y hy => hx y (by simp [hy])
    simp only [List.cons_append, splitSep_char c hc, ih hr]
    simp

theorem splitSep_join (names : List (List Char)) (hn : ∀ n ∈ names, ∀ c ∈ n, c ≠ ' ') (x : List Char) (hx : ∀ c ∈ x, c ≠ ' ')
    (cur : List Char) :
    splitSep (joinSep (x :: names)) cur = (cur.reverse ++ x) :: names := by
  induction names generalizing x cur with
  | nil =>
    have := splitSep_nospace x hx [] cur
    simp only [List.append_nil] at this
    simp [joinSep, this, splitSep]
  | cons y s ih =>
    simp only [joinSep]
    rw [List.append_assoc, splitSep_nospace x hx, splitSep_sep]
    rw [ih (fun n hn' => hn n (by simp [hn'])) y (hn y (by simp)) []]
    simp

theorem u64_and_or_distrib (v a b : UInt64) : v &&& (a ||| b) = (v &&& a) ||| (v &&& b) := by
  apply UInt64.toBitVec_inj.mp
  apply BitVec.eq_of_getLsbD_eq
  intro i hi
  simp
  cases v.toBitVec.getLsbD i <;> cases a.toBitVec.getLsbD i <;> cases b.toBitVec.getLsbD i <;> rfl

theorem u64_absorb (a m : UInt64) : (a ||| m) &&& m = m := by
  apply UInt64.toBitVec_inj.mp
  apply BitVec.eq_of_getLsbD_eq
  intro i hi
  simp
  cases a.toBitVec.getLsbD i <;> cases m.toBitVec.getLsbD i <;> simp

/-- m ⊆ v as bit sets -/
def sub (m v : UInt64) : Prop := v &&& m = m

theorem sub_or {a b v : UInt64} (ha : sub a v) (hb : sub b v) : sub (a ||| b) v := by
  unfold sub at *; rw [u64_and_or_distrib, ha, hb]

theorem sub_antisymm {a b : UInt64} (h1 : sub a b) (h2 : sub b a) : a = b := by
  unfold sub at *; rw [← h1, UInt64.and_comm, h2]

theorem sub_trans {a b c : UInt64} (h1 : sub a b) (h2 : sub b c) : sub a c := by
  unfold sub at *
  calc c &&& a = c &&& (b &&& a) := by rw [h1]
    _ = (c &&& b) &&& a := by rw [UInt64.and_assoc]
    _ = b &&& a := by rw [h2]
    _ = a := h1

theorem sub_zero (v : UInt64) : sub 0 v := by simp [sub]
theorem sub_refl (v : UInt64) : sub v v := by simp [sub]
theorem sub_or_right (a m : UInt64) : sub m (a ||| m) := u64_absorb a m
theorem sub_or_left (a m : UInt64) : sub a (a ||| m) := by rw [UInt64.or_comm]; exact u64_absorb m a

def orAll (l : List UInt64) (acc : UInt64) : UInt64 := l.foldl (· ||| ·) acc

theorem orAll_sub (l : List UInt64) (acc v : UInt64) (hacc : sub acc v) (hl : ∀ m ∈ l, sub m v) : sub (orAll l acc) v := by
  induction l generalizing acc with
  | nil => simpa [orAll]
  | cons m r ih =>
    simp only [orAll, List.foldl_cons]
    exact ih _ (sub_or hacc (hl m (by simp))) (fun x hx => hl x (by simp [hx]))

theorem acc_sub_orAll (l : List UInt64) (acc : UInt64) : sub acc (orAll l acc) := by
  induction l generalizing acc with
  | nil => simp [orAll, sub_refl]
  | cons m r ih =>
    simp only [orAll, List.foldl_cons]
    exact sub_trans (sub_or_left acc m) (ih _)

theorem mem_sub_orAll (l : List UInt64) (acc m : UInt64) (hm : m ∈ l) : sub m (orAll l acc) := by
  induction l generalizing acc with
  | nil => simp at hm
  | cons x r ih =>
    simp only [orAll, List.foldl_cons]
    simp at hm
    rcases hm with rfl | hm
    · exact sub_trans (sub_or_right acc m) (acc_sub_orAll r _)
    · exact ih _ hm

/-- the value is the union of the declared masks it contains, whenever it is a union of declared masks at all -/
theorem orAll_filter (masks S : List UInt64) (hS : ∀ s ∈ S, s ∈ masks) (v : UInt64) (hv : v = orAll S 0) :
    orAll (masks.filter (fun m => v &&& m == m)) 0 = v := by
  apply sub_antisymm
  · apply orAll_sub _ _ _ (sub_zero v)
    intro m hm
    simp at hm
    exact hm.2
  · rw [hv]
    apply orAll_sub _ _ _ (sub_zero _)
    intro s hs
    apply mem_sub_orAll
    simp
    refine ⟨hS s hs, ?_⟩
    exact mem_sub_orAll S 0 s hs
theorem fold_labels (d : EnumDef) (F : List UInt64) (label : UInt64 → List Char)
    (h : ∀ m ∈ F, parseLabel d (label m) = some m) (acc : UInt64) :
    (F.map label).foldl (orStep d) (some acc) = some (orAll F acc) := by
  induction F generalizing acc with
  | nil => simp [orAll]
  | cons m r ih =>
    simp only [List.map_cons, List.foldl_cons, orStep, h m (by simp)]
    rw [ih (fun x hx => h x (by simp [hx]))]
    simp [orAll]

theorem label_parse (d : EnumDef) (hok : tableOk d = true) (c : String × Nat) (hc : c ∈ d.consts) :
    labelOf d (UInt64.ofNat c.2) = some c.1.toList ∧ parseLabel d c.1.toList = some (UInt64.ofNat c.2) := by
  simp only [tableOk, Bool.and_eq_true, List.all_eq_true] at hok
  obtain ⟨⟨hnames, hdn⟩, hdv⟩ := hok
  have hlt : c.2 < 2 ^ 64 := by
    have := (hnames c hc); simp only [Bool.and_eq_true, decide_eq_true_eq] at this; exact this.2
  have hto : (UInt64.ofNat c.2).toNat = c.2 := by simp; omega
  constructor
  · have := find_of_distinct (fun c : String × Nat => c.2) d.consts hdv c hc
    simp only [labelOf, hto, this, Option.map_some]
  · have := find_of_distinct (fun c : String × Nat => c.1.toList) d.consts hdn c hc
    simp only [parseLabel, valueOf, this, Option.map_some]

theorem valueOf_digit_none (d : EnumDef) (hok : tableOk d = true) (c : Char) (r : List Char) (h0 : '0' ≤ c) (h9 : c ≤ '9') :
    valueOf d (c :: r) = none := by
  simp only [tableOk, Bool.and_eq_true, List.all_eq_true] at hok
  obtain ⟨⟨hnames, _⟩, _⟩ := hok
  simp only [valueOf]
  cases hfind : d.consts.find? (fun x => x.1.toList == c :: r) with
  | none => rfl
  | some x =>
    exfalso
    have hmem := List.mem_of_find?_eq_some hfind
    have heq : x.1.toList = c :: r := by
      have := List.find?_some hfind; simpa using this
    have hn := (hnames x hmem)
    simp only [Bool.and_eq_true, nameOk] at hn
    have hn1 := hn.1
    rw [heq] at hn1
    simp [h0, h9] at hn1

theorem bitmask_roundtrip (d : EnumDef) (vs : List Nat) (hf : d.form = .valueList vs) (hlist : listOk d = true)
    (hok : tableOk d = true) (hsp : noSpace d = true)
    (S : List UInt64) (hS : ∀ s ∈ S, s ∈ masks d) (v : UInt64) (hv : v = orAll S 0) :
    unmarshal d (marshal d v) = some v := by
  have hvs : vs = d.consts.map (·.2) := by simpa [listOk, hf] using hlist
  -- every mask is the value of a declared constant
  have hmask : ∀ m ∈ masks d, ∃ c ∈ d.consts, m = UInt64.ofNat c.2 := by
    intro m hm
    simp only [masks, hf, hvs, List.mem_filter, List.mem_map] at hm
    obtain ⟨⟨n, ⟨c, hc, hcn⟩, hnm⟩, _⟩ := hm
    exact ⟨c, hc, by rw [← hnm, ← hcn]⟩
  by_cases hz : v = 0
  · subst hz
    have h0 : valueOf d ['0'] = none := valueOf_digit_none d hok '0' [] (by decide) (by decide)
    have hsplit : splitSep ['0'] [] = [['0']] := by simp [splitSep]
    simp only [unmarshal, marshal, hf, beq_self_eq_true, if_true, hsplit, List.foldl_cons, List.foldl_nil, orStep, parseLabel, h0]
    decide
  · have hne : (v == 0) = false := by simpa using hz
    let F := (masks d).filter (fun m => v &&& m == m)
    have hF : orAll F 0 = v := orAll_filter (masks d) S hS v hv
    have hFne : F ≠ [] := by
      intro h
      rw [h] at hF
      simp [orAll] at hF
      exact hz hF.symm
    have hlabel : ∀ m ∈ F, parseLabel d ((labelOf d m).getD []) = some m ∧ ∀ ch ∈ (labelOf d m).getD [], ch ≠ ' ' := by
      intro m hm
      have hm' : m ∈ masks d := (List.mem_filter.mp hm).1
      obtain ⟨c, hc, hmc⟩ := hmask m hm'
      obtain ⟨h1, h2⟩ := label_parse d hok c hc
      subst hmc
      refine ⟨by simp [h1, h2], ?_⟩
      simp only [h1, Option.getD_some]
      simp only [noSpace, List.all_eq_true] at hsp
      intro ch hch
      have := hsp c hc ch hch
      simpa using this
    simp only [unmarshal, marshal, hf, hne]
    show (splitSep (joinSep (F.map fun m => (labelOf d m).getD [])) []).foldl _ (some 0) = some v
    cases hFc : F with
    | nil => exact absurd hFc hFne
    | cons x r =>
      have hx := hlabel x (by simp [hFc])
      rw [List.map_cons, splitSep_join _ (by
        intro n hn c hc
        simp only [List.mem_map] at hn
        obtain ⟨m, hm, rfl⟩ := hn
        exact (hlabel m (by simp [hFc, hm])).2 c hc) _ hx.2 []]
      simp only [List.reverse_nil, List.nil_append]
      rw [← List.map_cons (f := fun m => (labelOf d m).getD []), fold_labels d (x :: r) _ (by
        intro m hm
        exact (hlabel m (by simpa [hFc] using hm)).1) 0]
      rw [← hFc, hF]

theorem plain_roundtrip (d : EnumDef) (hf : d.form = .plain) (hok : tableOk d = true) (v : UInt64) :
    unmarshal d (marshal d v) = some v := by
  simp only [tableOk, Bool.and_eq_true, List.all_eq_true] at hok
  obtain ⟨⟨hnames, hdn⟩, hdv⟩ := hok
  simp only [unmarshal, marshal, hf]
  cases hl : labelOf d v with
  | some n =>
    simp only [labelOf] at hl
    cases hfind : d.consts.find? (fun c => c.2 == v.toNat) with
    | none => simp [hfind] at hl
    | some c =>
      simp [hfind] at hl
      subst hl
      have hmem := List.mem_of_find?_eq_some hfind
      have hval : c.2 = v.toNat := by
        have := List.find?_some hfind; simpa using this
      have := find_of_distinct (fun c : String × Nat => c.1.toList) d.consts hdn c hmem
      simp only [parseLabel, valueOf, this, Option.map_some]
      congr 1
      apply UInt64.toNat_inj.mp
      simp [hval]
  | none =>
    have hrange := toInt64_range v
    simp only []
    -- the numeral is not a name
    have hnotname : valueOf d (itoa (toInt64 v)) = none := by
      simp only [valueOf]
      cases hfind : d.consts.find? (fun c => c.1.toList == itoa (toInt64 v)) with
      | none => rfl
      | some c =>
        exfalso
        have hmem := List.mem_of_find?_eq_some hfind
        have heq : c.1.toList = itoa (toInt64 v) := by
          have := List.find?_some hfind; simpa using this
        have hn := (hnames c hmem)
        simp only [Bool.and_eq_true, nameOk] at hn
        have hn1 := hn.1
        rw [heq] at hn1
        unfold itoa at hn1
        by_cases hneg : toInt64 v < 0
        · simp [hneg] at hn1
        · simp only [hneg, if_false] at hn1
          obtain ⟨ch, r, hc, hc0, hc9⟩ := natToDec_head (toInt64 v).toNat
          rw [hc] at hn1
          simp [hc0, hc9] at hn1
    simp only [parseLabel, hnotname, atoi_itoa _ hrange.1 hrange.2, Option.map_some, ofInt64_toInt64]

end Mav.EnumText
