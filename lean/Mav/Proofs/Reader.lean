import Mav.Proofs.Bytes
import Mav.Model.Reader
import Mav.Spec.Frame
namespace Mav
open Spec

@[simp] theorem bytesToItems_nil : bytesToItems [] = [] := rfl
@[simp] theorem bytesToItems_cons (x : UInt8) (r : Bytes) : bytesToItems (x :: r) = Item.b x :: bytesToItems r := rfl
@[simp] theorem bytesToItems_append (a b : Bytes) : bytesToItems (a ++ b) = bytesToItems a ++ bytesToItems b := by
  simp [bytesToItems]

theorem takeBytes_items (a : Bytes) (r : Stream) : takeBytes a.length (bytesToItems a ++ r) = (a, r) := by
  induction a with
  | nil => simp [takeBytes]
  | cons x a ih => simp [takeBytes, ih]

theorem peekDiscard_items (a : Bytes) (r : Stream) (n : Nat) (h : a.length = n) :
    peekDiscard n (bytesToItems a ++ r) = (.ok a, r) := by
  subst h
  simp [peekDiscard, peek, takeBytes_items]

theorem readFull_items (a : Bytes) (r : Stream) (n : Nat) (h : a.length = n) :
    readFull n (bytesToItems a ++ r) = (.ok a, r) := by
  subst h
  simp [readFull, takeBytes_items]

theorem readPayload_items (p : Bytes) (r : Stream) (h : p.length ≤ 255) :
    readPayload (UInt8.ofNat p.length) (bytesToItems p ++ r) = (.ok p, r) := by
  unfold readPayload
  by_cases h0 : p.length = 0
  · have : p = [] := List.eq_nil_of_length_eq_zero h0
    subst this; simp
  · have hpos : (UInt8.ofNat p.length) > 0 := by
      rw [gt_iff_lt, UInt8.lt_iff_toNat_lt]; simp; omega
    have hn : (UInt8.ofNat p.length).toNat = p.length := by simp; omega
    simp [hpos, hn, readFull_items]

end Mav
