import Mav.Spec.Writer
import Mav.Props.C01
import Mav.Props.C02
/- Helper lemmas for C09/C06: one write of the stream writer model refines the spec writer. -/
namespace Mav
open Spec

theorem x25_sum_ofBitVec (bs : Bytes) : UInt16.ofBitVec (crc16 bs) = X25.sum bs := by
  apply UInt16.toBitVec_inj.mp
  simp [x25_sum_eq_crc16]

/-- domain of the writer theorems -/
structure CfgOk (c : SWCfg) : Prop where
  ver : c.version = 1 ∨ c.version = 2
  comp : c.compId ≠ 0
  key : c.key.isSome → c.version = 2

theorem initialize_ok (c0 c : SWCfg) (h : swInitialize c0 = .ok c) (hv : c0.version ≤ 2) : CfgOk c := by
  unfold swInitialize at h
  split at h
  · simp at h
  · split at h
    · simp at h
    · split at h
      · simp at h
      · rename_i hv0 hs hk
        simp at h
        subst h
        refine ⟨?_, ?_, ?_⟩
        · simp; omega
        · simp only
          split
          · decide
          · rename_i hc
            intro h0
            apply hc
            rw [h0]
        · intro hks
          simp at hk hks
          simp_all

theorem seq_succ (count : Nat) : UInt8.ofNat (count % 256) + 1 = UInt8.ofNat ((count + 1) % 256) := by
  apply UInt8.toNat_inj.mp
  simp

theorem ticks_eq (t : UInt64) : sigTicks t = UInt64.ofNat (t.toNat / 10000) := by
  apply UInt64.toNat_inj.mp
  simp [sigTicks, Gen.sigTickNs]
  have := t.toNat_lt
  rw [Nat.mod_eq_of_lt]; omega

/-- raw message, version 1 -/
theorem swWrite_raw_v1 (H : Bytes → Bytes) (dd : UInt32 → Option WCodec) (c : SWCfg) (hv : c.version = 1) (_hk : c.key = none)
    (hcomp : c.compId ≠ 0) (st : SWState) (count : Nat) (hseq : st.nextSeq = UInt8.ofNat (count % 256)) (t : UInt64)
    (id : UInt32) (p : Bytes) (hp : p.length ≤ 255) (codec : WCodec) (hd : dd id = some codec) :
    (swWrite H (some dd) c st t (.raw id p)).2 = (Spec.swWrite H (some dd) c count t (.raw id p)).2 ∧
    (swWrite H (some dd) c st t (.raw id p)).1.nextSeq = UInt8.ofNat ((Spec.swWrite H (some dd) c count t (.raw id p)).1 % 256) := by
  by_cases hid : id > 0xFF
  · simp [swWrite, Spec.swWrite, hv, hd, Msg.id, encodeInFrame, Frame.msg, Frame.genChecksum, frameWrite, Frame.marshal, hid, hseq]
  · have hid' : id ≤ 0xFF := by simpa using hid
    have hwf : WF (.v1 { seq := st.nextSeq, sys := c.sysId, comp := c.compId, msg := .raw id p,
                          crc := X25.sum (([lenByte p, st.nextSeq, c.sysId, c.compId, id.toUInt8] ++ p) ++ [codec.crcExtra]) }) := by
      simp [WF, wfb, hid', hp]
    have hw := C01.write_emits_spec _ hwf (some dd)
    simp [swWrite, Spec.swWrite, hv, hd, Msg.id, encodeInFrame, Frame.msg, Frame.genChecksum, hid, hseq, V1Frame.crcInput, hcomp] at hw ⊢
    rw [hw]
    simp [specBytes, v1Bytes, x25_sum_ofBitVec, seq_succ, lenByte, le16]

/-- raw message, version 2 -/
theorem swWrite_raw_v2 (H : Bytes → Bytes) (hH : ∀ x, 6 ≤ (H x).length) (dd : UInt32 → Option WCodec) (c : SWCfg) (hv : c.version = 2)
    (hcomp : c.compId ≠ 0) (st : SWState) (count : Nat) (hseq : st.nextSeq = UInt8.ofNat (count % 256)) (t : UInt64)
    (ht : t.toNat < 2 ^ 48 * 10000)
    (id : UInt32) (p : Bytes) (hp : p.length ≤ 255) (hid : id < 0x1000000) (codec : WCodec) (hd : dd id = some codec) :
    (swWrite H (some dd) c st t (.raw id p)).2 = (Spec.swWrite H (some dd) c count t (.raw id p)).2 ∧
    (swWrite H (some dd) c st t (.raw id p)).1.nextSeq = UInt8.ofNat ((Spec.swWrite H (some dd) c count t (.raw id p)).1 % 256) := by
  cases hk : c.key with
  | none =>
    have hwf : WF (.v2 { incompat := 0, compat := 0, seq := st.nextSeq, sys := c.sysId, comp := c.compId, msg := .raw id p,
                          crc := X25.sum (([lenByte p, 0, 0, st.nextSeq, c.sysId, c.compId] ++ uint24Encode id ++ p) ++ [codec.crcExtra]) }) := by
      simp [WF, wfb, hid, hp]
    have hw := C01.write_emits_spec _ hwf (some dd)
    simp [swWrite, Spec.swWrite, hv, hk, hd, Msg.id, encodeInFrame, Frame.msg, Frame.genChecksum, hseq, V2Frame.crcInput, hcomp] at hw ⊢
    rw [hw]
    simp [specBytes, v2Bytes, x25_sum_ofBitVec, seq_succ, lenByte, le16, le24, Gen.uint24Encode]
  | some k =>
    have hts : sigTicks t < 0x1000000000000 := by
      rw [ticks_eq, UInt64.lt_iff_toNat_lt]
      have := t.toNat_lt
      have h1 : t.toNat / 10000 < 2 ^ 48 := by omega
      simp
      rw [Nat.mod_eq_of_lt (by omega)]
      exact h1
    let crc := X25.sum (([lenByte p, 1, 0, st.nextSeq, c.sysId, c.compId] ++ uint24Encode id ++ p) ++ [codec.crcExtra])
    let g : V2Frame := { incompat := 1, compat := 0, seq := st.nextSeq, sys := c.sysId, comp := c.compId, msg := .raw id p,
                          crc := crc, linkId := c.linkId, ts := sigTicks t }
    have hwf : WF (.v2 { g with sig := some ((H (k ++ g.sigInput p)).take 6) }) := by
      simp [WF, wfb, hid, hp, hts, g]
      exact Nat.min_eq_left (hH _)
    have hw := C01.write_emits_spec _ hwf (some dd)
    simp [swWrite, Spec.swWrite, hv, hk, hd, Msg.id, encodeInFrame, Frame.msg, Frame.genChecksum, hseq, V2Frame.crcInput, hcomp,
      V2Frame.genSignature, Gen.v2FlagSigned, g, crc] at hw ⊢
    rw [hw]
    simp [specBytes, v2Bytes, x25_sum_ofBitVec, seq_succ, lenByte, le16, le24, le48, Gen.uint24Encode, Gen.uint48Encode, V2Frame.sigInput,
      Gen.v2MagicByte, ticks_eq, Msg.id]

theorem swWrite_dec (H : Bytes → Bytes) (dd : UInt32 → Option WCodec) (c : SWCfg) (hv : c.version = 1 ∨ c.version = 2)
    (st : SWState) (t : UInt64) (id : UInt32) (vals : List Msg.FVal) (codec : WCodec) (hd : dd id = some codec) :
    swWrite H (some dd) c st t (.dec id vals) =
      match codec.encode (c.version != 1) vals with
      | .panic => (st, .error .panic)
      | .ok p => swWrite H (some dd) c st t (.raw id p) := by
  rcases hv with hv | hv
  · cases he : codec.encode false vals <;>
      simp [swWrite, hv, hd, Msg.id, encodeInFrame, Frame.msg, Frame.isV2, Frame.setMsg, he]
  · cases he : codec.encode true vals <;>
      simp [swWrite, hv, hd, Msg.id, encodeInFrame, Frame.msg, Frame.isV2, Frame.setMsg, he]

theorem spec_swWrite_dec (H : Bytes → Bytes) (dd : UInt32 → Option WCodec) (c : SWCfg)
    (count : Nat) (t : UInt64) (id : UInt32) (vals : List Msg.FVal) (codec : WCodec) (hd : dd id = some codec) :
    Spec.swWrite H (some dd) c count t (.dec id vals) =
      match codec.encode (c.version != 1) vals with
      | .panic => (count, .error .panic)
      | .ok p => Spec.swWrite H (some dd) c count t (.raw id p) := by
  cases he : codec.encode (c.version != 1) vals <;> simp [Spec.swWrite, hd, Msg.id, he]

/-- the messages the theorems quantify over: payload (given or produced by the codec) of at most 255 bytes,
    id representable in 24 bits on a v2 link -/
def MsgOk (dd : UInt32 → Option WCodec) (c : SWCfg) : Mav.Msg → Prop
  | .raw id p => p.length ≤ 255 ∧ (c.version = 2 → id < 0x1000000)
  | .dec id vals => (c.version = 2 → id < 0x1000000) ∧
      ∀ codec p, dd id = some codec → codec.encode (c.version != 1) vals = .ok p → p.length ≤ 255

theorem swWrite_refines (H : Bytes → Bytes) (hH : ∀ x, 6 ≤ (H x).length) (d : WDialect) (c : SWCfg) (hc : CfgOk c)
    (st : SWState) (count : Nat) (hseq : st.nextSeq = UInt8.ofNat (count % 256)) (t : UInt64) (ht : t.toNat < 2 ^ 48 * 10000)
    (m : Mav.Msg) (hm : ∀ dd, d = some dd → MsgOk dd c m) :
    (swWrite H d c st t m).2 = (Spec.swWrite H d c count t m).2 ∧
    (swWrite H d c st t m).1.nextSeq = UInt8.ofNat ((Spec.swWrite H d c count t m).1 % 256) := by
  cases d with
  | none => simp [swWrite, Spec.swWrite, hseq]
  | some dd =>
    have hm := hm dd rfl
    cases hd : dd m.id with
    | none => simp [swWrite, Spec.swWrite, hd, hseq]
    | some codec =>
      have hraw : ∀ id p, dd id = some codec → p.length ≤ 255 → (c.version = 2 → id < 0x1000000) →
          (swWrite H (some dd) c st t (.raw id p)).2 = (Spec.swWrite H (some dd) c count t (.raw id p)).2 ∧
          (swWrite H (some dd) c st t (.raw id p)).1.nextSeq = UInt8.ofNat ((Spec.swWrite H (some dd) c count t (.raw id p)).1 % 256) := by
        intro id p hd' hp hid
        rcases hc.ver with hv | hv
        · have hk : c.key = none := by
            cases hk : c.key with
            | none => rfl
            | some k => have := hc.key (by simp [hk]); omega
          exact swWrite_raw_v1 H dd c hv hk hc.comp st count hseq t id p hp codec hd'
        · exact swWrite_raw_v2 H hH dd c hv hc.comp st count hseq t ht id p hp (hid hv) codec hd'
      cases m with
      | raw id p => exact hraw id p hd hm.1 hm.2
      | dec id vals =>
        simp only [Msg.id] at hd
        rw [swWrite_dec H dd c hc.ver st t id vals codec hd, spec_swWrite_dec H dd c count t id vals codec hd]
        cases he : codec.encode (c.version != 1) vals with
        | panic => simp [hseq]
        | ok p => exact hraw id p hd (hm.2 codec p hd he) hm.1
end Mav
