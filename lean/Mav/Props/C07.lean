import Mav.Model.Writer
/-
  C07 — signature replay window. Property theorems only.
  Model: `Gen.windowRefuse` / `Gen.windowUpdate`, regenerated from reader.go (TIE-G, G-expr);
  Spec: `Spec.refuse` / `Spec.newest` over ℕ (Mav/Spec/Window.lean).
-/
namespace Mav.C07
open Mav

/-- the remembered value is the maximum of the accepted timestamps -/
theorem update_is_max (cur ts : UInt64) : windowUpdate cur ts = Spec.newest cur ts := by
  simp [windowUpdate, Gen.windowUpdate, Spec.newest, UInt64.lt_iff_toNat_lt]

/-- **C07 (one decision).** For every 48-bit timestamp and every remembered value the code's decision is the
    spec's: refuse iff `ts + 1 000 000 < newest` (over ℕ — no wrap-around). -/
theorem window_exact (cur ts : UInt64) (hts : ts.toNat < 2 ^ 48) : windowRefuse cur ts = Spec.refuse cur ts := by
  have hadd : (ts + 1000000).toNat = ts.toNat + 1000000 := by
    rw [UInt64.toNat_add]
    have : ts.toNat + (1000000 : UInt64).toNat < 2 ^ 64 := by
      have : (1000000 : UInt64).toNat = 1000000 := rfl
      omega
    simpa using Nat.mod_eq_of_lt this
  simp only [windowRefuse, Gen.windowRefuse, Spec.refuse, UInt64.lt_iff_toNat_lt, hadd]
  have h0 : (0 : UInt64).toNat = 0 := rfl
  rw [h0]
  by_cases h : ts.toNat + 1000000 < cur.toNat
  · have : 0 < cur.toNat := by omega
    simp [h, this]
  · simp [h]

/-- decisions of the code over a history of correctly signed timestamps (true = refused) -/
def runModel : UInt64 → List UInt64 → List Bool
  | _, [] => []
  | cur, ts :: r => if windowRefuse cur ts then true :: runModel cur r else false :: runModel (windowUpdate cur ts) r

/-- decisions of the specification -/
def runSpec : UInt64 → List UInt64 → List Bool
  | _, [] => []
  | cur, ts :: r => if Spec.refuse cur ts then true :: runSpec cur r else false :: runSpec (Spec.newest cur ts) r

/-- **C07 (every history).** For every remembered start value and every finite history of 48-bit timestamps,
    the sequence of accept/refuse decisions of the code equals the specification's — reordered and equal
    timestamps included. Unbounded in the length of the history. -/
theorem history_exact (cur : UInt64) (hist : List UInt64) (h : ∀ ts ∈ hist, ts.toNat < 2 ^ 48) :
    runModel cur hist = runSpec cur hist := by
  induction hist generalizing cur with
  | nil => rfl
  | cons ts r ih =>
    have hts := h ts (by simp)
    have hr : ∀ t ∈ r, t.toNat < 2 ^ 48 := fun t ht => h t (by simp [ht])
    simp only [runModel, runSpec, window_exact cur ts hts, update_is_max]
    split
    · rw [ih cur hr]
    · rw [ih _ hr]

/-- the reader's gate uses exactly these two functions (so `history_exact` is about `Reader.Read`) -/
theorem gate_uses_window (cfg : RCfg) (key : Bytes) (hk : cfg.key = some key) (hw : cfg.specWindow = false)
    (st : RState) (g : V2Frame) (id : UInt32) (p sg : Bytes) (hm : g.msg = .raw id p) (hs : g.sig = some sg)
    (hsig : sg = (cfg.H (key ++ g.sigInput p)).take 6) :
    sigGate cfg st (.v2 g) = if windowRefuse st.cur g.ts then .error .sigOld else .ok { cur := windowUpdate st.cur g.ts } := by
  subst hsig
  simp [sigGate, hk, hs, V2Frame.genSignature, hm, hw]

/-- timestamps decoded from the wire are always below 2^48 (six bytes) — the hypothesis of `window_exact` -/
theorem wire_ts_lt (b0 b1 b2 b3 b4 b5 : UInt8) : (uint48Decode b0 b1 b2 b3 b4 b5).toNat < 2 ^ 48 := by
  apply Nat.lt_pow_two_of_testBit
  intro i hi
  have : (uint48Decode b0 b1 b2 b3 b4 b5).toNat.testBit i = (uint48Decode b0 b1 b2 b3 b4 b5).toBitVec.getLsbD i := rfl
  rw [this]
  simp [uint48Decode, Gen.uint48Decode]
  have a0 : ¬ (i < 8) := by omega
  have a1 : ¬ (i - 8 < 8) := by omega
  have a2 : ¬ (i - 16 < 8) := by omega
  have a3 : ¬ (i - 24 < 8) := by omega
  have a4 : ¬ (i - 32 < 8) := by omega
  have a5 : ¬ (i - 40 < 8) := by omega
  repeat' constructor
  all_goals (intros; apply BitVec.getLsbD_of_ge; omega)

/-- **C07 (writer units).** Outgoing timestamps are nanoseconds since 2015-01-01 divided by 10 000 (10 µs ticks),
    hence non-decreasing when the clock is: `a ≤ b → ticks a ≤ ticks b`. -/
theorem writer_ts_monotone (a b : UInt64) (h : a ≤ b) : sigTicks a ≤ sigTicks b := by
  simp only [sigTicks, UInt64.le_iff_toNat_le, UInt64.toNat_div] at *
  exact Nat.div_le_div_right h

theorem writer_ts_units : Gen.sigTickNs = 10000 ∧ Gen.sigTickNsFrameWriter = 10000 ∧ Gen.sigRefUnix = 1420070400 := by decide

/- non-vacuity / regression: the history that the unchanged tree got wrong (newest = 5, then 10) -/
example : runModel 0 [5, 10, 999999, 2000000, 999999] = [false, false, false, false, true] := by decide

end Mav.C07
