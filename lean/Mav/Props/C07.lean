import Mav.Model.Reader
/-
  C07 — signature replay window. Property theorems only.
  Model: `windowRefuse` / `windowUpdate` (reader.go); Spec: `Spec.refuse` / `Spec.newest` over ℕ.
-/
namespace Mav.C07
open Mav

/-- the remembered value is the maximum of the accepted timestamps -/
theorem update_is_max (cur ts : UInt64) : windowUpdate cur ts = Spec.newest cur ts := by
  simp [windowUpdate, Spec.newest, UInt64.lt_iff_toNat_lt]

/-- PARTIAL (unchanged tree): the model's decision equals the spec's when the remembered timestamp is 0
    (nothing accepted yet, or only timestamp 0) or at least 10^6. -/
theorem window_exact_partial (cur ts : UInt64) (h : cur = 0 ∨ cur.toNat ≥ 1000000) :
    windowRefuse cur ts = Spec.refuse cur ts := by
  rcases h with h | h
  · subst h; simp [windowRefuse, Spec.refuse]
  · have hpos : cur > 0 := by rw [gt_iff_lt, UInt64.lt_iff_toNat_lt]; simp; omega
    have hsub : (cur - Gen.replayWindow).toNat = cur.toNat - 1000000 := by
      rw [UInt64.toNat_sub_of_le]
      · rfl
      · rw [UInt64.le_iff_toNat_le]; exact h
    simp only [windowRefuse, Spec.refuse, hpos, decide_true, Bool.true_and, UInt64.lt_iff_toNat_lt, hsub]
    congr 1
    apply propext
    omega

end Mav.C07
