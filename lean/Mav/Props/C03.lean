import Mav.Gen.MsgsAll
import Mav.Gen.Consts
/-
  C03 — payload layout, sizes and CRC_EXTRA. Property theorems only.
  `layoutAgrees st` (Mav/Model/MsgCheck.lean) says: the MODEL of `ReadWriter.Initialize` accepts `st`, `st` is in the
  SPEC's domain (name `Message…`, extensions after base fields, arrays 1..255, total ≤ 255 bytes), and wire order,
  base/extended sizes and CRC_EXTRA computed by the model equal those the serialization guide derives.
-/
namespace Mav.C03
open Mav

/-- **C03 (tables).** The code's size and type-name tables (regenerated from pkg/message) are the guide's. -/
theorem sizes_table (t : Gen.FType) : (Gen.fieldTypeSizes t).toNat = Spec.Msg.tySize t := by cases t <;> rfl

theorem names_table (t : Gen.FType) : Gen.fieldTypeString t = Spec.Msg.tyName t := by cases t <;> rfl

/-- **C03 (every shipped definition; enumerated, kernel-decided).** For each of the message structs defined under
    pkg/dialects (regenerated from the source on every run) layout, sizes and CRC_EXTRA of the model equal the spec's. -/
theorem shipped_layout_agrees : ∀ m ∈ Gen.allMsgs, layoutAgrees m.2.2 = true := by
  have h := Gen.all_layout
  rw [List.all_eq_true] at h
  exact h

/-- anchors pinned by the repository itself (node_heartbeat.go / node_stream_request.go): HEARTBEAT 50, REQUEST_DATA_STREAM 148 -/
theorem heartbeat_crc_extra :
    (Spec.Msg.ofGo Gen.m_minimal_MessageHeartbeat).map Spec.Msg.crcExtra = some Gen.heartbeatCRC := by
  set_option maxRecDepth 100000 in decide +kernel

theorem request_data_stream_crc_extra :
    (Spec.Msg.ofGo Gen.m_common_MessageRequestDataStream).map Spec.Msg.crcExtra = some Gen.requestDataStreamCRC := by
  set_option maxRecDepth 100000 in decide +kernel

/-- the bare `char` of the test dialect: not an array, CRC_EXTRA 103 as published with the C library's test dialect -/
theorem test_types_crc_extra :
    (Msg.init Gen.m_test_MessageTestTypes).toOption.map (·.crcExtra) = some 103 := by
  set_option maxRecDepth 1000000 in decide +kernel

end Mav.C03
