import Mav.Gen.MsgsAll
import Mav.Gen.Consts
import Mav.Proofs.SortLink
import Mav.Proofs.LayoutLink
import Mav.Proofs.PayloadLink
import Mav.Proofs.DecodeLink
/-
  C03 — payload layout, sizes and CRC_EXTRA. Property theorems only.
  `layoutAgrees st` (Mav/Model/MsgCheck.lean) says: the MODEL of `ReadWriter.Initialize` accepts `st`, `st` is in the
  SPEC's domain (name `Message…`, extensions after base fields, arrays 1..255, total ≤ 255 bytes), and wire order,
  base/extended sizes and CRC_EXTRA computed by the model equal those the serialization guide derives.
-/
namespace Mav.C03
open Mav

/-- **C03 (tables).** The code's size and type-name tables (regenerated from pkg/message) are the guide's. -/
theorem sizes_table (t : Gen.FType) : (Gen.fieldTypeSizes t).toNat = Spec.Msg.tySize t := by cases t <;> rfl

theorem names_table (t : Gen.FType) : Gen.fieldTypeString t = Spec.Msg.tyName t := by cases t <;> rfl

/-- **C03 (field order, for every struct).** Not only for the shipped definitions: whenever `Initialize` accepts a struct and the
    struct is a MAVLink definition in the specification's sense (extensions declared after the base fields), the model
    puts the fields on the wire in the specification's order — base fields by decreasing primitive size, declaration order
    within a size, then the extensions as declared. The model's sort is insertion with the comparator of the Go code; the
    comparator is proved to be a strict total order on such structs, so ANY correct sort (Go's `sort.Slice` included) yields
    this same order (`SortOrder.sorted_unique`). -/
theorem wire_order_universal (st : Msg.GoStruct) (rw : Msg.RW) (d : Spec.Msg.SDef)
    (h1 : Msg.init st = .ok rw) (h2 : Spec.Msg.ofGo st = some d) :
    rw.fields.map (·.index) = (Spec.Msg.wireOrder d).map (·.idx) := SortLink.wire_order_agrees st rw d h1 h2

/-- identifiers of the struct are exported Go identifiers: the type name after `Message` and every field name that is not
    overridden by a `mavname` tag begin with a letter A-Z (decidable form of `LayoutLink.firstUpper` / `nameOk`) -/
def firstUpperB (s : String) : Bool := match s.toList with | c :: _ => Msg.isUpper c | [] => false

def exportedB (st : Msg.GoStruct) : Bool :=
  firstUpperB (Msg.msgSuffix st.name) && st.fields.all (fun f => f.mavname != "" || firstUpperB f.goName)

theorem firstUpper_of_B (s : String) (h : firstUpperB s = true) : LayoutLink.firstUpper s := by
  unfold firstUpperB at h
  cases hs : s.toList with
  | nil => rw [hs] at h; cases h
  | cons c r => rw [hs] at h; exact ⟨c, r, hs, h⟩

/-- **C03 (sizes and CRC_EXTRA, for every struct).** Whenever `Initialize` accepts a struct, the struct is a MAVLink definition in
    the specification's sense (`Spec.Msg.ofGo`: name `Message…`, extensions after the base fields, array lengths 1..255, at most
    255 bytes) and its identifiers are exported, then the field order, the base and the extended payload size and the CRC_EXTRA
    the model of `Initialize` computes — byte-wide size arithmetic, `sort.Slice` comparator, X25 over the run-time's name
    conversion — are exactly those the serialization guide derives from the definition. No enumeration: any struct, any number
    of fields. -/
theorem layout_universal (st : Msg.GoStruct) (rw : Msg.RW) (d : Spec.Msg.SDef)
    (h1 : Msg.init st = .ok rw) (h2 : Spec.Msg.ofGo st = some d) (hx : exportedB st = true) :
    rw.fields.map (·.index) = (Spec.Msg.wireOrder d).map (·.idx) ∧
    rw.sizeNormal.toNat = Spec.Msg.sizeBase d ∧ rw.sizeExtended.toNat = Spec.Msg.sizeExt d ∧
    rw.crcExtra.toNat = Spec.Msg.crcExtra d := by
  unfold exportedB at hx
  simp only [Bool.and_eq_true, List.all_eq_true, Bool.or_eq_true, bne_iff_ne, ne_eq] at hx
  have hn : ∀ f ∈ st.fields, LayoutLink.nameOk f := by
    intro f hf hm
    cases hx.2 f hf with
    | inl h => exact absurd hm h
    | inr h => exact firstUpper_of_B _ h
  have hs := LayoutLink.sizes_universal st rw d h1 h2 hn
  exact ⟨SortLink.wire_order_agrees st rw d h1 h2, hs.2, hs.1,
    LayoutLink.crc_universal st rw d h1 h2 hn (firstUpper_of_B _ hx.1)⟩

/-- **C03 (payload bytes, for every struct).** For every struct `Initialize` accepts that is a definition in the specification's
    sense, every assignment of well-typed values and both protocol versions: the bytes the model of `ReadWriter.Write` produces
    are exactly the bytes the serialization guide prescribes (`Spec.Msg.encode`, written from the guide): fields in wire order,
    scalars little-endian, arrays element by element, strings cut / NUL-padded to their declared length, enum fields at their
    declared wire width; in version 2 trailing zero bytes removed but never below one byte, in version 1 the base fields only. -/
theorem payload_bytes_universal (st : Msg.GoStruct) (rw : Msg.RW) (d : Spec.Msg.SDef)
    (h1 : Msg.init st = .ok rw) (h2 : Spec.Msg.ofGo st = some d) (vals : List Msg.FVal)
    (hw : ∀ f ∈ rw.fields, Msg.wellTyped f (Msg.valAt vals f.index) = true) (isV2 : Bool) :
    Msg.encode rw isV2 vals = .ok (Spec.Msg.encode d isV2 vals) :=
  PayloadLink.encode_eq_spec st rw d h1 h2 vals hw isV2

/-- **C03 (decoding reads the same layout, for every struct and every payload).** For every struct `Initialize` accepts that is a
    definition, both versions and EVERY payload (any length, any bytes): the model of `ReadWriter.Read` returns what the
    serialization guide prescribes (`Spec.Msg.decode`) — a short version-2 payload zero-extended to the extended size, each field
    taken at its offset in wire order, scalars little-endian, arrays element by element, strings cut at the first NUL; in
    version 1 exactly the base payload length or a size error. (`isS rw i`: whether struct field i is a Go string — the one fact
    about the Go type the wire does not carry.) -/
theorem decoding_universal (st : Msg.GoStruct) (rw : Msg.RW) (d : Spec.Msg.SDef)
    (h1 : Msg.init st = .ok rw) (h2 : Spec.Msg.ofGo st = some d) (isV2 : Bool) (payload : Bytes) :
    Msg.decode rw isV2 payload = DecodeLink.ofSpecRes (Spec.Msg.decode d (DecodeLink.isS rw) isV2 payload) :=
  DecodeLink.decode_eq_spec st rw d h1 h2 isV2 payload

/-- **C03 (sizes, no hypothesis on identifiers).** -/
theorem sizes_universal (st : Msg.GoStruct) (rw : Msg.RW) (d : Spec.Msg.SDef)
    (h1 : Msg.init st = .ok rw) (h2 : Spec.Msg.ofGo st = some d) :
    rw.sizeExtended.toNat = Spec.Msg.sizeExt d ∧ rw.sizeNormal.toNat = Spec.Msg.sizeBase d :=
  DecodeLink.sizes_eq st rw d h1 h2

/-- an instance: a HEARTBEAT value, version 2 (the trailing zero of `mavlink_version` = 0 … is kept: never below the last non-zero byte) -/
example : (Msg.init Gen.m_minimal_MessageHeartbeat).toOption.bind (fun rw =>
      match Msg.encode rw true [.num [6], .num [8], .num [0x81], .num [0x01020304], .num [4], .num [3]] with
      | .ok p => some p | .panic => none) =
    (Spec.Msg.ofGo Gen.m_minimal_MessageHeartbeat).map (fun d =>
      Spec.Msg.encode d true [.num [6], .num [8], .num [0x81], .num [0x01020304], .num [4], .num [3]]) := by
  set_option maxRecDepth 100000 in decide +kernel

/-- the hypotheses are satisfiable: the standard heartbeat meets all three -/
example : (Msg.init Gen.m_minimal_MessageHeartbeat).toOption.isSome = true ∧
    (Spec.Msg.ofGo Gen.m_minimal_MessageHeartbeat).isSome = true ∧ exportedB Gen.m_minimal_MessageHeartbeat = true := by
  set_option maxRecDepth 100000 in decide +kernel

/-- why `exportedB` is needed: the run-time's conversion drops the first character of an identifier that does not begin with a
    capital letter (`regexp ([A-Z]) → _$1`, then `[1:]`), the documented convention does not — an unexported field is outside the
    property's domain (reflection cannot set it) -/
example : Msg.fieldGoToDef "fooBar" = "oo_bar" ∧ Spec.Msg.snakeLower "fooBar" = "foo_bar" := by decide

/-- without "extensions after base fields" the comparator of the Go code is not transitive (a base field declared after an
    extension): the result of `sort.Slice` would be unspecified; the specification's domain excludes such structs -/
example : SortOrder.less ⟨0, false, 1⟩ ⟨1, true, 1⟩ = true ∧ SortOrder.less ⟨1, true, 1⟩ ⟨2, false, 8⟩ = true ∧
    SortOrder.less ⟨0, false, 1⟩ ⟨2, false, 8⟩ = false := by decide

/-- **C03 (every shipped definition; enumerated, kernel-decided).** For each of the message structs defined under
    pkg/dialects (regenerated from the source on every run) layout, sizes and CRC_EXTRA of the model equal the spec's. -/
theorem shipped_layout_agrees : ∀ m ∈ Gen.allMsgs, layoutAgrees m.2.2 = true := by
  have h := Gen.all_layout
  rw [List.all_eq_true] at h
  exact h

/-- anchors pinned by the repository itself (node_heartbeat.go / node_stream_request.go): HEARTBEAT 50, REQUEST_DATA_STREAM 148 -/
theorem heartbeat_crc_extra :
    (Spec.Msg.ofGo Gen.m_minimal_MessageHeartbeat).map Spec.Msg.crcExtra = some Gen.heartbeatCRC := by
  set_option maxRecDepth 100000 in decide +kernel

theorem request_data_stream_crc_extra :
    (Spec.Msg.ofGo Gen.m_common_MessageRequestDataStream).map Spec.Msg.crcExtra = some Gen.requestDataStreamCRC := by
  set_option maxRecDepth 100000 in decide +kernel

/-- the bare `char` of the test dialect: not an array, CRC_EXTRA 103 as published with the C library's test dialect -/
theorem test_types_crc_extra :
    (Msg.init Gen.m_test_MessageTestTypes).toOption.map (·.crcExtra) = some 103 := by
  set_option maxRecDepth 1000000 in decide +kernel

end Mav.C03
