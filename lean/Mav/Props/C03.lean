import Mav.Gen.MsgsAll
import Mav.Gen.Consts
import Mav.Proofs.SortLink
/-
  C03 — payload layout, sizes and CRC_EXTRA. Property theorems only.
  `layoutAgrees st` (Mav/Model/MsgCheck.lean) says: the MODEL of `ReadWriter.Initialize` accepts `st`, `st` is in the
  SPEC's domain (name `Message…`, extensions after base fields, arrays 1..255, total ≤ 255 bytes), and wire order,
  base/extended sizes and CRC_EXTRA computed by the model equal those the serialization guide derives.
-/
namespace Mav.C03
open Mav

/-- **C03 (tables).** The code's size and type-name tables (regenerated from pkg/message) are the guide's. -/
theorem sizes_table (t : Gen.FType) : (Gen.fieldTypeSizes t).toNat = Spec.Msg.tySize t := by cases t <;> rfl

theorem names_table (t : Gen.FType) : Gen.fieldTypeString t = Spec.Msg.tyName t := by cases t <;> rfl

/-- **C03 (field order, for every struct).** Not only for the shipped definitions: whenever `Initialize` accepts a struct and the
    struct is a MAVLink definition in the specification's sense (extensions declared after the base fields), the model
    puts the fields on the wire in the specification's order — base fields by decreasing primitive size, declaration order
    within a size, then the extensions as declared. The model's sort is insertion with the comparator of the Go code; the
    comparator is proved to be a strict total order on such structs, so ANY correct sort (Go's `sort.Slice` included) yields
    this same order (`SortOrder.sorted_unique`). -/
theorem wire_order_universal (st : Msg.GoStruct) (rw : Msg.RW) (d : Spec.Msg.SDef)
    (h1 : Msg.init st = .ok rw) (h2 : Spec.Msg.ofGo st = some d) :
    rw.fields.map (·.index) = (Spec.Msg.wireOrder d).map (·.idx) := SortLink.wire_order_agrees st rw d h1 h2

/-- without "extensions after base fields" the comparator of the Go code is not transitive (a base field declared after an
    extension): the result of `sort.Slice` would be unspecified; the specification's domain excludes such structs -/
example : SortOrder.less ⟨0, false, 1⟩ ⟨1, true, 1⟩ = true ∧ SortOrder.less ⟨1, true, 1⟩ ⟨2, false, 8⟩ = true ∧
    SortOrder.less ⟨0, false, 1⟩ ⟨2, false, 8⟩ = false := by decide

/-- **C03 (every shipped definition; enumerated, kernel-decided).** For each of the message structs defined under
    pkg/dialects (regenerated from the source on every run) layout, sizes and CRC_EXTRA of the model equal the spec's. -/
theorem shipped_layout_agrees : ∀ m ∈ Gen.allMsgs, layoutAgrees m.2.2 = true := by
  have h := Gen.all_layout
  rw [List.all_eq_true] at h
  exact h

/-- anchors pinned by the repository itself (node_heartbeat.go / node_stream_request.go): HEARTBEAT 50, REQUEST_DATA_STREAM 148 -/
theorem heartbeat_crc_extra :
    (Spec.Msg.ofGo Gen.m_minimal_MessageHeartbeat).map Spec.Msg.crcExtra = some Gen.heartbeatCRC := by
  set_option maxRecDepth 100000 in decide +kernel

theorem request_data_stream_crc_extra :
    (Spec.Msg.ofGo Gen.m_common_MessageRequestDataStream).map Spec.Msg.crcExtra = some Gen.requestDataStreamCRC := by
  set_option maxRecDepth 100000 in decide +kernel

/-- the bare `char` of the test dialect: not an array, CRC_EXTRA 103 as published with the C library's test dialect -/
theorem test_types_crc_extra :
    (Msg.init Gen.m_test_MessageTestTypes).toOption.map (·.crcExtra) = some 103 := by
  set_option maxRecDepth 1000000 in decide +kernel

end Mav.C03
