import Mav.Spec.PublishedCrc
import Mav.Proofs.Dialect
import Mav.Proofs.InitSound
import Mav.Proofs.Codec
import Mav.Gen.Dialects
import Mav.Gen.MsgsAll
import Mav.Gen.EnumsAll
/-
  C17 — shipped dialects are well-formed and mutually consistent. Property theorems only.
  Model: Mav/Model/Dialect.lean (dialect.ReadWriter.Initialize / GetMessage); tables regenerated from pkg/dialects.
-/
namespace Mav.C17
open Mav Dialect

/-- **C17 (initialisation decides).** A dialect initialises exactly when its message ids are pairwise distinct and every
    message struct is accepted by `message.ReadWriter.Initialize` — so duplicates and malformed structs are rejected
    when the dialect is initialised, not at first use. -/
theorem dialect_init_iff (msgs : List (UInt32 × Msg.GoStruct)) :
    (∃ tbl, Dialect.init msgs [] = .ok tbl) ↔
      (msgs.map (·.1)).Nodup ∧ ∀ m ∈ msgs, ∃ rw, Msg.init m.2 = .ok rw := by
  constructor
  · rintro ⟨tbl, h⟩
    obtain ⟨rws, _, h2, h3, _⟩ := init_inv msgs [] tbl h
    exact ⟨h3, allRel_mem msgs rws h2⟩
  · rintro ⟨h1, h2⟩
    exact ⟨[] ++ rwsOf msgs, init_complete msgs [] (rwsOf msgs) (allRel_rwsOf msgs h2) h1 (by simp [Table.has])⟩

/-- **C17 (what "malformed" means, and that it is refused at initialisation).** A struct the model of
    `message.ReadWriter.Initialize` accepts is a MAVLink definition in the specification's sense (`Spec.Msg.ofGo`: name
    `Message…`, exported fields of supported types, enum fields of an integer type, array and string lengths 1..255,
    extension fields after the base fields, at most 255 bytes). So a struct that is NOT such a definition is refused by
    `Initialize` (`fix: reject at initialization the message structs that cannot be encoded`). -/
theorem malformed_struct_rejected_at_init (st : Msg.GoStruct) (h : Spec.Msg.ofGo st = none) :
    ∃ e, Msg.init st = .error e := by
  cases hi : Msg.init st with
  | error e => exact ⟨e, rfl⟩
  | ok rw =>
    have := InitSound.accepted_is_definition st rw hi
    rw [h] at this; cases this

/-- **C17 (nothing well-formed is refused either).** The model of `Initialize` accepts a struct exactly when it is a definition in
    the specification's sense. -/
theorem initialize_accepts_exactly_definitions (st : Msg.GoStruct) :
    (∃ rw, Msg.init st = .ok rw) ↔ (Spec.Msg.ofGo st).isSome = true := InitSound.accepted_iff_definition st

/-- **C17 (initialisation decides, in terms of definitions).** A dialect initialises exactly when its message ids are pairwise
    distinct and every message struct is a MAVLink definition. -/
theorem dialect_init_iff_definitions (msgs : List (UInt32 × Msg.GoStruct)) :
    (∃ tbl, Dialect.init msgs [] = .ok tbl) ↔
      (msgs.map (·.1)).Nodup ∧ ∀ m ∈ msgs, (Spec.Msg.ofGo m.2).isSome = true := by
  rw [dialect_init_iff]
  constructor
  · rintro ⟨h1, h2⟩
    exact ⟨h1, fun m hm => (initialize_accepts_exactly_definitions m.2).mp (h2 m hm)⟩
  · rintro ⟨h1, h2⟩
    exact ⟨h1, fun m hm => (initialize_accepts_exactly_definitions m.2).mpr (h2 m hm)⟩

/-- **C17 (… not at first use).** For a struct `Initialize` accepts the byte-wide sizes did not wrap: the hypothesis `RWok` of
    every C04 theorem (decoding never panics, encoding a well-typed value succeeds and round-trips; `C04.accepted_struct_usable`). -/
theorem accepted_struct_sizes_exact (st : Msg.GoStruct) (rw : Msg.RW) (h : Msg.init st = .ok rw) : Msg.RWok rw :=
  Msg.rwOk_of_bool rw (InitSound.accepted_never_wraps st rw h)

/-- the rejection is not vacuous: structs of each malformed kind, refused by the model (and, in every run, by the code:
    dialects `badform*` of the harness) -/
example :
    (Msg.init { name := "MessageX", fields := [{ goName := "count", elemType := "uint16", exported := false }] }).toOption = none ∧
    (Msg.init { name := "MessageX", fields := [{ goName := "S", isArray := true, arrLen := 3, elemType := "string" }] }).toOption = none ∧
    (Msg.init { name := "MessageX", fields := [{ goName := "A", isArray := true, arrLen := 300, elemType := "uint8" }] }).toOption = none ∧
    (Msg.init { name := "MessageX", fields := [{ goName := "A", isArray := true, arrLen := 200, elemType := "uint8" },
                                                { goName := "B", isArray := true, arrLen := 14, elemType := "uint32" }] }).toOption = none ∧
    (Msg.init { name := "MessageX", fields := [{ goName := "A", elemType := "uint8", mavext := "true" },
                                                { goName := "B", elemType := "uint32" }] }).toOption = none := by
  set_option maxRecDepth 100000 in decide +kernel

/-- **C17 (lookup).** After a successful initialisation, looking an id up returns the codec of the (unique) message with
    that id, and nothing for an absent id — for every 32-bit id. -/
theorem getMessage_spec (msgs : List (UInt32 × Msg.GoStruct)) (tbl : Table) (h : Dialect.init msgs [] = .ok tbl) (id : UInt32) :
    getMessage tbl id = (msgs.find? (fun m => m.1 == id)).bind (fun m => (Msg.init m.2).toOption) := by
  obtain ⟨rws, h1, h2, _, _⟩ := init_inv msgs [] tbl h
  simp only [List.nil_append] at h1
  rw [h1]
  exact allRel_find msgs rws h2 id

/-- **C17 (ids unique; enumerated, kernel-decided).** In every shipped dialect the message ids are pairwise distinct. -/
theorem shipped_ids_distinct : ∀ d ∈ Gen.dialectIds, idsDistinct d.2 = true := by
  have h := Gen.ids_distinct
  rw [List.all_eq_true] at h
  exact h

/-- **C17 (every message well-formed and ≤ 255 bytes; enumerated).** Every message struct defined under pkg/dialects is in
    the spec's domain (which includes: total payload ≤ 255 bytes) and the model's layout / CRC_EXTRA equal the spec's. -/
theorem shipped_messages_ok : ∀ m ∈ Gen.allMsgs, layoutAgrees m.2.2 = true := by
  have h := Gen.all_layout
  rw [List.all_eq_true] at h
  exact h

/-- **C17 (enum constants agree; enumerated, kernel-decided).** Every enum constant has the same numeric value in every
    dialect package that declares it (alias constants resolved to their definitions). -/
theorem shipped_constants_consistent : ∀ ch ∈ Gen.allConstGroups, ∀ g ∈ ch, groupConsistent g = true := by
  have h := Gen.consts_consistent
  rw [List.all_eq_true] at h
  intro ch hch g hg
  have := h ch hch
  rw [List.all_eq_true] at this
  exact this g hg

/-- **C17 (a message shared by dialects is the very same Go type; enumerated, kernel-decided).** For every message name that occurs
    in the message lists of several shipped dialects, all of them resolve it (through their alias declarations) to the type
    defined in one and the same package, under one id — so a value decoded with one dialect is a value of the other. -/
theorem shipped_messages_shared : ∀ ch ∈ Gen.allMsgGroups, ∀ g ∈ ch, sameDefinition g = true := by
  have h := Gen.msgs_shared
  rw [List.all_eq_true] at h
  intro ch hch g hg
  have := h ch hch
  rw [List.all_eq_true] at this
  exact this g hg

/-- one published value against the regenerated definition of that id in the dialect `common` -/
def publishedOk (p : Nat × Nat) : Bool :=
  match Gen.commonById.lookup p.1 with
  | some st => (Spec.Msg.ofGo st).map Spec.Msg.crcExtra == some p.2
  | none => false

set_option maxRecDepth 1000000 in
/-- **C17 (CRC_EXTRA values of standard messages equal the published ones; enumerated, kernel-decided).** For each of the 138
    message ids of the reference table, the CRC_EXTRA that the specification derives from the shipped definition (regenerated from
    the source on every run) — and hence, by `shipped_messages_ok`, the one the code computes — is the published value. -/
theorem published_crc_extra : Spec.publishedCrcExtra.all publishedOk = true := by decide +kernel

/-- **C17 (struct names).** A struct that `Initialize` accepts is named `Message` followed by an uppercase letter: the message name
    the run-time derives (it drops the first character of the converted rest) is then the converted rest itself … -/
theorem accepted_struct_name (st : Msg.GoStruct) (rw : Msg.RW) (h : Msg.init st = .ok rw) :
    ∃ c r, st.name.toList = "Message".toList ++ c :: r ∧ Msg.isUpper c = true := by
  have hp := (SortLink.init_ok st rw h).1
  unfold Msg.hasMsgPrefix at hp
  rw [Bool.and_eq_true] at hp
  obtain ⟨h1, h2⟩ := hp
  obtain ⟨t, ht⟩ := List.isPrefixOf_iff_prefix.mp h1
  rw [← ht] at h2 ⊢
  have hd : ("Message".toList ++ t).drop 7 = t := by simp
  rw [hd] at h2
  cases t with
  | nil => simp [Msg.suffixUpper] at h2
  | cons c r => exact ⟨c, r, rfl, by simpa [Msg.suffixUpper] using h2⟩

/-- … and any other name is refused at initialisation: `Message` alone (the code before d4b63a4 panicked), `Messagex`, `Message9`,
    `Message_` (accepted before, all with an empty message name) -/
theorem malformed_struct_name_rejected (st : Msg.GoStruct) (h : Msg.hasMsgPrefix st.name = false) :
    Msg.init st = .error .namePrefix := by
  unfold Msg.init
  simp [h]
  rfl

example : Msg.hasMsgPrefix "Message" = false ∧ Msg.hasMsgPrefix "Messagex" = false ∧ Msg.hasMsgPrefix "Message9" = false ∧
    Msg.hasMsgPrefix "Message_" = false ∧ Msg.hasMsgPrefix "MessageX" = true ∧ Msg.hasMsgPrefix "Heartbeat" = false := by decide

end Mav.C17
