import Mav.Proofs.Reader
import Mav.Model.Writer
/-
  C01 — frame wire format and round trip. Property theorems only (helpers in Mav/Proofs).
  Domain: `Spec.WF` (v1: id ≤ 255; v2: id < 2^24, incompat ∈ {0,1} with the signature block present
  iff incompat = 1, ts < 2^48, 6-byte signature; payload 0..255 bytes, every header byte arbitrary).
-/
namespace Mav.C01
open Mav Spec

/-- The writer's scratch buffer holds the largest well-formed frame (10 + 255 + 2 + 13). -/
theorem buffer_fits : 10 + 255 + 2 + 13 ≤ Gen.bufferSize := by decide

/-- **C01 (layout).** For every well-formed frame the marshalled bytes are exactly the spec layout. -/
theorem marshal_eq_spec (f : Frame) (h : WF f) : f.marshal Gen.bufferSize = .ok (specBytes f) := by
  cases f with
  | v1 g =>
    obtain ⟨seq, sys, comp, msg, crc⟩ := g
    cases msg with
    | dec id v => simp [WF, wfb] at h
    | raw id p =>
      simp [WF, wfb] at h
      obtain ⟨hid, hp⟩ := h
      have hid' : ¬ id > 0xFF := by simpa using hid
      have h1 : p.length ≤ 504 := by omega
      have h2 : List.take 506 p = p := List.take_of_length_le (by omega)
      simp [Frame.marshal, putInto, copyInto, Gen.bufferSize, le16, specBytes, v1Bytes, Gen.v1MagicByte, lenByte, hid', h1, h2]
  | v2 g =>
    obtain ⟨ic, c, seq, sys, comp, msg, crc, link, ts, sig⟩ := g
    cases msg with
    | dec id v => simp [WF, wfb] at h
    | raw id p =>
      simp [WF, wfb] at h
      obtain ⟨⟨hid, hp⟩, h⟩ := h
      have h1 : p.length ≤ 500 := by omega
      have h2 : List.take 502 p = p := List.take_of_length_le (by omega)
      rcases h with ⟨⟨⟨hic, hs⟩, hl⟩, hts⟩ | ⟨⟨hic, hts⟩, hs⟩
      · subst hic hs hl hts
        simp [Frame.marshal, putInto, copyInto, Gen.bufferSize, le16, specBytes, v2Bytes, Gen.v2MagicByte, lenByte, h1, h2,
          V2Frame.isSigned, Gen.v2FlagSigned, uint24Encode, Gen.uint24Encode, le24]
      · subst hic
        cases sig with
        | none => simp at hs
        | some s =>
          simp at hs
          have h3 : p.length ≤ 493 := by omega
          have h4 : List.take (512 - (p.length + 19)) s = s := List.take_of_length_le (by omega)
          simp [Frame.marshal, putInto, copyInto, Gen.bufferSize, le16, specBytes, v2Bytes, Gen.v2MagicByte, lenByte, h1, h2,
            V2Frame.isSigned, Gen.v2FlagSigned, uint24Encode, Gen.uint24Encode, le24, uint48Encode, Gen.uint48Encode, le48, h3]
          exact List.take_of_length_le (by omega)

/-- a reader without key and dialect -/
def plainCfg (H : Bytes → Bytes) : RCfg := { H := H }

theorem read_marshal (H : Bytes → Bytes) (f : Frame) (h : WF f) (rest : Stream) (st : RState) :
    readOne (plainCfg H) st (bytesToItems (specBytes f) ++ rest) = (.frame f, rest, st) := by
  cases f with
  | v1 g =>
    obtain ⟨seq, sys, comp, msg, crc⟩ := g
    cases msg with
    | dec id v => simp [WF, wfb] at h
    | raw id p =>
      simp [WF, wfb] at h
      obtain ⟨hid, hp⟩ := h
      have hidr : id.toUInt8.toUInt32 = id := by
        have : id.toNat ≤ 255 := by simpa [UInt32.le_iff_toNat_le] using hid
        apply UInt32.toNat_inj.mp
        simp
        omega
      have e1 := peekDiscard_items [UInt8.ofNat p.length, seq, sys, comp, id.toUInt8] (bytesToItems p ++ (bytesToItems (le16 crc) ++ rest)) 5 rfl
      have e2 := readPayload_items p (bytesToItems (le16 crc) ++ rest) hp
      have e3 := peekDiscard_items (le16 crc) rest 2 rfl
      simp [le16] at e3
      simp [le16] at e2
      simp [le16] at e1
      simp [specBytes, v1Bytes, readOne, readByte, Gen.v1MagicByte, unmarshalV1, e1, e2, e3, le16, sigGate, plainCfg,
        dialectGate, unLe16_le16, hidr]
  | v2 g =>
    obtain ⟨ic, c, seq, sys, comp, msg, crc, link, ts, sig⟩ := g
    cases msg with
    | dec id v => simp [WF, wfb] at h
    | raw id p =>
      simp [WF, wfb] at h
      obtain ⟨⟨hid, hp⟩, h⟩ := h
      have e2 := readPayload_items p
      have e3 := peekDiscard_items (le16 crc)
      simp [le16] at e3
      rcases h with ⟨⟨⟨hic, hs⟩, hl⟩, hts⟩ | ⟨⟨hic, hts⟩, hs⟩
      · subst hic hs hl hts
        have e1 := peekDiscard_items ([UInt8.ofNat p.length, 0, c, seq, sys, comp] ++ le24 id) (bytesToItems p ++ (bytesToItems (le16 crc) ++ rest)) 9 rfl
        simp [le16, le24] at e1
        simp [specBytes, v2Bytes, readOne, readByte, Gen.v1MagicByte, Gen.v2MagicByte, unmarshalV2, e1, e2 _ hp, e3, le16, le24, sigGate, plainCfg,
          dialectGate, unLe16_le16, uint24_rt id hid, V2Frame.isSigned, Gen.v2FlagSigned]
      · subst hic
        cases sig with
        | none => simp at hs
        | some s =>
          simp at hs
          match s, hs with
          | [g0, g1, g2, g3, g4, g5], _ =>
            have e1 := peekDiscard_items ([UInt8.ofNat p.length, 1, c, seq, sys, comp] ++ le24 id) (bytesToItems p ++ (bytesToItems (le16 crc) ++ (bytesToItems ([link] ++ le48 ts ++ [g0, g1, g2, g3, g4, g5]) ++ rest))) 9 rfl
            simp [le16, le24, le48] at e1
            have e4 := peekDiscard_items ([link] ++ le48 ts ++ [g0, g1, g2, g3, g4, g5]) rest 13 rfl
            simp [le48] at e4
            simp [specBytes, v2Bytes, readOne, readByte, Gen.v1MagicByte, Gen.v2MagicByte, unmarshalV2, e1, e2 _ hp, e3, e4, le16, le24, le48, sigGate, plainCfg,
              dialectGate, unLe16_le16, uint24_rt id hid, uint48_rt ts hts, V2Frame.isSigned, Gen.v2FlagSigned]

/-- **C01 (refusal).** A v1 frame whose id exceeds 255 is refused; nothing is emitted
    (`frameWrite` returns an error, no bytes), whatever the buffer size. -/
theorem v1_big_id_refused (g : V1Frame) (id : UInt32) (p : Bytes) (hm : g.msg = .raw id p) (h : id > 0xFF) (cap : Nat) :
    (Frame.v1 g).marshal cap = .errV1Id ∧ frameWrite none (.v1 g) = .error .v1Id := by
  obtain ⟨seq, sys, comp, msg, crc⟩ := g
  simp at hm; subst hm
  simp [Frame.marshal, h, frameWrite, encodeInFrame, Frame.msg]

/-- **C01 (single write).** A successful `frameWrite` of a well-formed frame emits exactly its spec bytes. -/
theorem write_emits_spec (f : Frame) (h : WF f) (d : WDialect) : frameWrite d f = .ok (specBytes f, f) := by
  have hm := marshal_eq_spec f h
  cases f with
  | v1 g =>
    obtain ⟨seq, sys, comp, msg, crc⟩ := g
    cases msg with
    | dec id v => simp [WF, wfb] at h
    | raw id p => simp [frameWrite, encodeInFrame, Frame.msg, hm]
  | v2 g =>
    obtain ⟨ic, c, seq, sys, comp, msg, crc, link, ts, sig⟩ := g
    cases msg with
    | dec id v => simp [WF, wfb] at h
    | raw id p => simp [frameWrite, encodeInFrame, Frame.msg, hm]

/- non-vacuity: concrete well-formed frames (a signed v2 frame with a 255-byte payload, id 2^24-1;
    a v1 frame with id 255) satisfy the hypotheses. -/
set_option maxRecDepth 20000 in
example : WF (.v2 { incompat := 1, compat := 7, seq := 255, sys := 0, comp := 254, msg := .raw 0xFFFFFF (List.replicate 255 0xFD),
                     crc := 0xBEEF, linkId := 9, ts := 0xFFFFFFFFFFFF, sig := some [1, 2, 3, 4, 5, 6] }) := by simp [WF, wfb]
example : WF (.v1 { seq := 1, sys := 2, comp := 3, msg := .raw 255 [], crc := 0 }) := by unfold WF; decide

end Mav.C01
