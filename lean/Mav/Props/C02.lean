import Mav.Proofs.CrcDetect
import Mav.Proofs.Crc
import Mav.Proofs.Reader
/-
  C02 — checksum gate. Property theorems only.
-/
namespace Mav.C02
open Mav Spec

/-- **C02 (algorithm).** The per-byte step of `x25.Write` (regenerated from /repo) is one byte of the bitwise
    reflected CRC with polynomial 0x8408 — for all 2^16 states and 2^8 bytes. -/
theorem x25_step_eq_ref (c : UInt16) (b : UInt8) : (Gen.x25Step c b).toBitVec = crcByte c.toBitVec b.toBitVec :=
  x25_step_uint c b

/-- **C02 (algorithm).** `X25` over any byte string equals CRC-16/MCRF4XX (init 0xFFFF, no final xor). -/
theorem x25_eq_crc16 (bs : Bytes) : (X25.sum bs).toBitVec = crc16 bs := x25_sum_eq_crc16 bs

/-- the running hash may be fed in pieces -/
theorem x25_split (c : UInt16) (a b : Bytes) : X25.write (X25.write c a) b = X25.write c (a ++ b) :=
  (X25.write_append c a b).symm

theorem x25_reset : X25.init = 0xFFFF := rfl

/-- **C02 (coverage).** The frame checksum is the CRC over length..payload followed by CRC_EXTRA. -/
theorem checksum_eq_spec (f : Frame) (id : UInt32) (p : Bytes) (hm : f.msg = .raw id p) (extra : UInt8) :
    ∃ s, f.genChecksum extra = .ok s ∧ s.toBitVec = crc16 (crcInput f ++ [extra]) := by
  cases f with
  | v1 g =>
    obtain ⟨seq, sys, comp, msg, crc⟩ := g
    simp [Frame.msg] at hm; subst hm
    refine ⟨_, rfl, ?_⟩
    simp [x25_sum_eq_crc16, crcInput, V1Frame.crcInput, lenByte, Msg.id]
  | v2 g =>
    obtain ⟨ic, c, seq, sys, comp, msg, crc, link, ts, sig⟩ := g
    simp [Frame.msg] at hm; subst hm
    refine ⟨_, rfl, ?_⟩
    simp [x25_sum_eq_crc16, crcInput, V2Frame.crcInput, lenByte, Msg.id, uint24Encode, Gen.uint24Encode, le24]

/-- **C02 (gate).** With a dialect containing the frame's id, the reader's dialect gate delivers a frame
    exactly when the carried checksum equals the CRC (with that message's CRC_EXTRA) and the payload decodes (and the
    decoded value re-encodes — always true of a consistent codec, C04); a checksum mismatch is reported as the
    non-fatal parse error `crcWrong`, nothing delivered. -/
theorem gate_iff (cfg : RCfg) (d : UInt32 → Option Codec) (hd : cfg.dialect = some d) (ho : cfg.specWindow = false)
    (f : Frame) (id : UInt32) (p : Bytes) (hm : f.msg = .raw id p) (c : Codec) (hc : d id = some c) :
    ((∃ g, dialectGate cfg f = .frame g) ↔
      (f.crc.toBitVec = crc16 (crcInput f ++ [c.crcExtra]) ∧
        ∃ v p', c.decode f.isV2 p = .ok v ∧ c.encode f.isV2 v = .ok p')) ∧
    (f.crc.toBitVec ≠ crc16 (crcInput f ++ [c.crcExtra]) → dialectGate cfg f = .perr .crcWrong) := by
  obtain ⟨s, hs, hs2⟩ := checksum_eq_spec f id p hm c.crcExtra
  rw [← hs2]
  have hne : (s != f.crc) = true ↔ f.crc.toBitVec ≠ s.toBitVec := by
    simp [bne_iff_ne, ← UInt16.toBitVec_inj]; exact ne_comm
  constructor
  · constructor
    · rintro ⟨g, hg⟩
      simp only [dialectGate, hd, hm, hc, ho, Bool.false_eq_true, ↓reduceIte, hs] at hg
      by_cases hcrc : (s != f.crc) = true
      · simp [hcrc] at hg
      · have : f.crc.toBitVec = s.toBitVec := by
          have := mt hne.mpr hcrc; simpa using this
        refine ⟨this, ?_⟩
        simp [hcrc] at hg
        cases hdec : c.decode f.isV2 p with
        | ok v =>
          cases henc : c.encode f.isV2 v with
          | ok q => exact ⟨v, q, rfl, henc⟩
          | panic => simp [hdec, henc] at hg
        | errSize => simp [hdec] at hg
        | panic => simp [hdec] at hg
    · rintro ⟨hcrc, v, p', hv, he⟩
      have hcrc' : ¬ ((s != f.crc) = true) := fun h => (hne.mp h) hcrc
      simp only [dialectGate, hd, hm, hc, ho, Bool.false_eq_true, ↓reduceIte, hs, hv, he]
      cases f with
      | v1 g =>
        simp [hcrc']
        split <;> exact ⟨_, rfl⟩
      | v2 g =>
        simp [hcrc']
        split <;> exact ⟨_, rfl⟩
  · intro hcrc
    have : (s != f.crc) = true := hne.mpr hcrc
    simp [dialectGate, hd, hm, hc, ho, hs, this]

/-- an id outside the dialect passes through undecoded (no CRC_EXTRA is known for it) -/
theorem gate_unknown_id (cfg : RCfg) (d : UInt32 → Option Codec) (hd : cfg.dialect = some d)
    (f : Frame) (id : UInt32) (p : Bytes) (hm : f.msg = .raw id p) (hc : d id = none) :
    dialectGate cfg f = .frame f := by
  simp [dialectGate, hd, hm, hc]

/-- **C02 (a damaged frame is never delivered).** Two frames with the same carried checksum whose CRC-covered bytes
    (length, header, message id, payload) differ in exactly one byte — any number of bits of it — cannot both pass: if the
    original carried the right checksum, the damaged one is reported as `crcWrong`. (Damage to the checksum bytes themselves
    is the trivial case: the carried value changes while the computed one does not.) -/
theorem one_damaged_byte_refused (cfg : RCfg) (d : UInt32 → Option Codec) (hd : cfg.dialect = some d) (ho : cfg.specWindow = false)
    (f f' : Frame) (id : UInt32) (p p' : Bytes) (hm : f.msg = .raw id p) (hm' : f'.msg = .raw id p') (c : Codec) (hc : d id = some c)
    (pre post : Bytes) (x x' : UInt8) (hx : x ≠ x')
    (hin : crcInput f = pre ++ x :: post) (hin' : crcInput f' = pre ++ x' :: post)
    (hsame : f'.crc = f.crc) (hgood : f.crc.toBitVec = crc16 (crcInput f ++ [c.crcExtra])) :
    dialectGate cfg f' = .perr .crcWrong := by
  apply (gate_iff cfg d hd ho f' id p' hm' c hc).2
  rw [hsame, hgood, hin, hin']
  have := Spec.crc16_one_byte pre (post ++ [c.crcExtra]) x x' hx
  simpa [List.append_assoc] using this

end Mav.C02
