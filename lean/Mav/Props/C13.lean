import Mav.Proofs.Node2
import Mav.Props.C11
import Mav.Spec.Fanout
/-
  C13 — a stalled or failing channel neither stalls the node nor dies silently. Property theorems only.
  Model: Mav/Model/Node.lean after `fix: keep a channel's writer running after a failed write`.
  A transport that stops accepting writes is a channel whose writer stays in `writing it` forever (wOk / wFail never
  fire for it); a failing transport is `wFail`; an unencodable item is a `wFail` too (the encoder runs in the writer).
-/
namespace Mav.C13
open Mav Nd

/-- **C13 (the node loop never waits for a channel).** A dispatch is enabled in the running node whatever the state of
    any channel — full queue, writer blocked in the transport, channel closing. `Channel.write` never blocks. -/
theorem dispatch_never_blocks (s : St) (h : s.npc = .loop) (t : Tgt) (it : Item) (pick : Cid → Bool) :
    Step s (dispatch s t it pick) := Step.dispatch s t it pick h

/-- **C13 (isolation).** What a dispatch does to channel c depends on the membership list, the target and c's own state
    only: no other channel's queue, writer or transport can influence it. -/
theorem dispatch_local (s s2 : St) (t : Tgt) (it : Item) (pick : Cid → Bool) (c : Cid)
    (hm : s2.members = s.members) (hc : s2.chans c = s.chans c) :
    (dispatch s2 t it pick).chans c = (dispatch s t it pick).chans c := by
  simp [dispatch, enq, hm, hc]

/-- **C13 (other channels keep being served).** The writer of a channel takes its next item whatever any other channel is
    doing: the step's premises mention channel c only. -/
theorem writer_independent (s : St) (c : Cid) (it : Item) (rest : List Item)
    (h1 : (s.chans c).wp = .idle) (h2 : (s.chans c).cp ≠ .notStarted) (h3 : (s.chans c).queue = it :: rest) :
    ∃ s', Step s s' ∧ (s'.chans c).wp = .writing it ∧ ∀ c', c' ≠ c → s'.chans c' = s.chans c' :=
  ⟨_, Step.wDequeue s c it rest h1 h2 h3, by simp [upd], fun c' h => by simp [upd, h]⟩

/-- **C13 (bounded backlog).** In every reachable state a channel holds at most 64 queued items. -/
theorem backlog_bounded (inputs : Cid → List RdRes) (s : St) (hr : Reach (init inputs) s) (c : Cid) :
    (s.chans c).queue.length ≤ 64 := (reach_faninv inputs s hr c).bound

/-- **C13 (discarded for that channel only, order preserved).** A dispatch to a full (or closing) channel leaves its queue
    and everything it accepted untouched; the item is only recorded as offered. -/
theorem dispatch_full (s : St) (t : Tgt) (it : Item) (pick : Cid → Bool) (c : Cid)
    (hq : ¬ (s.chans c).queue.length < qcap) :
    ((dispatch s t it pick).chans c).queue = (s.chans c).queue ∧ ((dispatch s t it pick).chans c).acc = (s.chans c).acc := by
  simp only [dispatch, enq]
  by_cases h1 : (s.members.contains c && t.hits c) = true
  · simp only [h1, if_true]
    have : (decide ((s.chans c).queue.length < qcap) && (!(s.chans c).ctxDone || pick c)) = false := by simp [hq]
    simp only [this]; exact ⟨rfl, rfl⟩
  · simp only [h1]; exact ⟨rfl, rfl⟩

/-- order on the wire of a channel that lost items is still the dispatch order (C11.wire_sublist_of_offered) -/
theorem lossy_channel_keeps_order (inputs : Cid → List RdRes) (s : St) (hr : Reach (init inputs) s) (c : Cid) :
    (C11.wire (s.chans c)).Sublist (s.chans c).seen := C11.wire_sublist_of_offered inputs s hr c

/-- **C13 (a failed write does not kill the writer).** After a failed transport write or an unencodable item the writer is
    back at its loop head and the rest of the queue is intact … -/
theorem writer_survives_failure (s : St) (c : Cid) (it : Item) (h : (s.chans c).wp = .writing it) :
    ∃ s', Step s s' ∧ (s'.chans c).wp = .idle ∧ (s'.chans c).queue = (s.chans c).queue ∧
      (s'.chans c).done = (s.chans c).done ++ [(it, false)] :=
  ⟨_, Step.wFail s c it h, by simp [upd], by simp [upd], by simp [upd]⟩

/-- **C13 (never open while discarding all output).** In every reachable state a channel that is open — `Channel.run` is
    waiting for the reader or the context, no close event decided — has a live writer goroutine: idle (about to take the
    next queued item) or inside a transport write. The writer ends only after `Channel.run` asked it to, which
    happens only on the path that ends in the close event. -/
theorem open_channel_has_live_writer (inputs : Cid → List RdRes) (s : St) (hr : Reach (init inputs) s) (c : Cid)
    (ho : (s.chans c).cp = .wait) : (s.chans c).wp = .idle ∨ ∃ it, (s.chans c).wp = .writing it := by
  have hw := reach_wt inputs s hr c (Or.inr ho)
  have ha := (reach_faninv inputs s hr c).alive
  cases hwp : (s.chans c).wp with
  | idle => exact Or.inl rfl
  | writing it => exact Or.inr ⟨it, rfl⟩
  | sendDone => rw [ha (Or.inl hwp)] at hw; cases hw
  | exited => rw [ha (Or.inr hwp)] at hw; cases hw

/-- … and a writer that has stopped belongs to a channel whose close event has been decided, is being decided, or that
    was never opened to the application (created while the node was closing). -/
theorem stopped_writer_means_closing (inputs : Cid → List RdRes) (s : St) (hr : Reach (init inputs) s) (c : Cid)
    (h : (s.chans c).wp = .sendDone ∨ (s.chans c).wp = .exited) :
    (s.chans c).cp ≠ .wait ∧ (s.chans c).cp ≠ .notStarted := by
  have ha := (reach_faninv inputs s hr c).alive h
  have hw := reach_wt inputs s hr c
  constructor
  · intro hc; rw [hw (Or.inr hc)] at ha; cases ha
  · intro hc; rw [hw (Or.inl hc)] at ha; cases ha

/-- non-vacuity: a reachable state in which a write has failed and the channel is still open with a live writer -/
example : ∃ s, Reach (init (fun _ => [])) s ∧ (s.chans 0).cp = .wait ∧ (s.chans 0).done = [(5, false)] ∧ (s.chans 0).wp = .idle := by
  let i : Cid → List RdRes := fun _ => []
  have r0 : Reach (init i) (init i) := .refl
  have r1 := Reach.step r0 (Step.newChan (init i) 0 rfl rfl rfl (by simp [init]))
  have r2 := Reach.step r1 (Step.dispatch _ .all 5 (fun _ => true) rfl)
  have r3 := Reach.step r2 (Step.wDequeue _ 0 5 [] (by simp [dispatch, enq, upd, init, Tgt.hits, qcap, Gen.writeBufferSize])
    (by simp [dispatch, enq, upd, init, Tgt.hits, qcap, Gen.writeBufferSize])
    (by simp [dispatch, enq, upd, init, Tgt.hits, qcap, Gen.writeBufferSize]))
  have r4 := Reach.step r3 (Step.wFail _ 0 5 (by simp [upd]))
  exact ⟨_, r4, by simp [dispatch, enq, upd, init, Tgt.hits, qcap, Gen.writeBufferSize],
    by simp [dispatch, enq, upd, init, Tgt.hits, qcap, Gen.writeBufferSize], by simp [upd]⟩

end Mav.C13
