import Mav.Spec.Fanout
namespace Mav.C13
theorem placeholder : True := trivial
end Mav.C13
