import Mav.Spec.Events
namespace Mav.C10
theorem placeholder : True := trivial
end Mav.C10
