import Mav.Proofs.Node
import Mav.Spec.Events
/-
  C10 — per-channel event stream. Property theorems only.
  Model: the transition system Mav/Model/Node.lean (any number of channels, any interleaving of readers, writers,
  Channel.run, providers, the node loop, the application's Close), after `fix: deliver the events of a channel as a
  prefix when the node is closing`. Every theorem quantifies over every REACHABLE state.
-/
namespace Mav.C10
open Mav Nd


/-- the channel's ideal event sequence at this point: open, one event per non-fatal read result in arrival order, and
    the close event once Channel.run has decided on it -/
def ideal (x : ChanSt) : List Ev := .opn :: evsOf x.consumed ++ x.closeEv

/-- **C10 (never a hole, a duplicate, a reordering or an invented event).** In every reachable state, what the application
    has received from a channel is a prefix of the channel's ideal sequence — whatever the interleaving, whether or not
    Close has been called, whether or not the application keeps receiving. -/
theorem delivered_prefix_of_ideal (inputs : Cid → List RdRes) (s : St) (hr : Reach (init inputs) s) (c : Cid) : (s.chans c).delivered <+: ideal (s.chans c) := by
  obtain ⟨hA, hB⟩ := reach_evinv inputs s hr c
  have hw := (reach_wantinv inputs s hr c).w1
  have h1 : (s.chans c).delivered <+: (s.chans c).produced := by
    rcases hA with h | ⟨_, _, ev, h⟩
    · exact ⟨_, h⟩
    · exact ⟨_, h⟩
  have h2 : (s.chans c).produced <+: (s.chans c).want := by
    rcases hB with h | ⟨_, h⟩
    · exact ⟨_, h⟩
    · exact h
  unfold ideal
  rw [← hw]
  exact h1.trans h2

/-- **C10 (nothing lost while the node is not being closed).** Before `Close` is called, every event the channel has decided
    to emit has been received, is blocked in `pushEvent` waiting for the application, or is the one about to be pushed:
    delivered ++ in flight ++ pending = ideal. Nothing is dropped, whatever traffic flows on other channels. -/
theorem nothing_lost_before_close (inputs : Cid → List RdRes) (s : St) (hr : Reach (init inputs) s) (c : Cid) (ht : s.terminate = false) :
    (s.chans c).delivered ++ inflight (s.chans c) ++ pend (s.chans c) = ideal (s.chans c) := by
  obtain ⟨hA, hB⟩ := reach_evinv inputs s hr c
  have hw := (reach_wantinv inputs s hr c).w1
  rcases hA with hA | ⟨h, _⟩
  · rcases hB with hB | ⟨h, _⟩
    · unfold ideal; rw [← hw, ← hB, ← hA]
    · rw [ht] at h; cases h
  · rw [ht] at h; cases h

/-- **C10 (open first).** The first event of a channel, if any, is its open event. -/
theorem open_first (inputs : Cid → List RdRes) (s : St) (hr : Reach (init inputs) s) (c : Cid) (ev : Ev) (rest : List Ev) (h : (s.chans c).delivered = ev :: rest) : ev = .opn := by
  have hp := delivered_prefix_of_ideal inputs s hr c
  rw [h] at hp
  obtain ⟨t, ht⟩ := hp
  simp [ideal] at ht
  exact ht.1

/-- **C10 (close last, at most once).** Nothing is ever received after a channel's close event. -/
theorem nothing_after_close (inputs : Cid → List RdRes) (s : St) (hr : Reach (init inputs) s) (c : Cid) (e : Option Nat) (pre post : List Ev)
    (h : (s.chans c).delivered = pre ++ [.close e] ++ post) : post = [] := by
  have hp := delivered_prefix_of_ideal inputs s hr c
  have hw := reach_wantinv inputs s hr c
  rw [h] at hp
  obtain ⟨t, ht⟩ := hp
  -- the ideal sequence contains a close event only as its last element
  have hnc : ∀ ev ∈ (Ev.opn :: evsOf (s.chans c).consumed), ∀ e', ev ≠ .close e' := by
    intro ev hev e'
    simp at hev
    rcases hev with rfl | hev
    · simp
    · simp [evsOf, List.mem_filterMap] at hev
      obtain ⟨r, _, hr'⟩ := hev
      cases r <;> simp [toEv] at hr' <;> subst hr' <;> simp
  rcases hw.w3 with hce | ⟨e', hce⟩
  · -- no close event in the ideal sequence at all
    exfalso
    simp only [ideal, hce, List.append_nil] at ht
    have : Ev.close e ∈ (Ev.opn :: evsOf (s.chans c).consumed) := by
      rw [← ht]; simp
    exact hnc _ this e rfl
  · simp only [ideal, hce] at ht
    -- (pre ++ [close e] ++ post) ++ t = body ++ [close e'] with no close in body: close e is the last element
    have hlen : ∀ (body : List Ev), (∀ ev ∈ body, ∀ e', ev ≠ .close e') →
        ∀ pre post t : List Ev, pre ++ [Ev.close e] ++ post ++ t = body ++ [Ev.close e'] → post = [] := by
      intro body
      induction body with
      | nil =>
        intro _ pre post t h
        cases pre with
        | nil => simp at h; first | exact h.2.1 | exact h.2 | simp_all
        | cons p ps => simp at h
      | cons b bs ih =>
        intro hb pre post t h
        cases pre with
        | nil =>
          simp at h
          exact absurd h.1.symm (hb b (by simp) e)
        | cons p ps =>
          simp only [List.cons_append, List.cons.injEq] at h
          exact ih (fun ev hev => hb ev (by simp [hev])) ps post t h.2
    exact hlen _ hnc pre post t ht

/-- **C10 (attribution and global order).** The events the application has received from channel c, in the order of the
    node's single event stream, are exactly c's delivered list: events are attributed to their channel and the per-channel
    order is the order in the global stream. -/
theorem log_projection (inputs : Cid → List RdRes) (s : St) (hr : Reach (init inputs) s) (c : Cid) : logOf s.log c = (s.chans c).delivered := reach_log inputs s hr c

/-- **C10 (frames correspond to the input).** The read results behind the events are a prefix of what the transport
    delivered, in order; each non-fatal result yields exactly one event. -/
theorem consumed_prefix_of_input (inputs : Cid → List RdRes) (s : St) (hr : Reach (init inputs) s) (c : Cid) : (s.chans c).consumed <+: inputs c := by
  have hw := reach_wantinv inputs s hr c
  rcases hw.w5 with h | ⟨e, h⟩
  · exact ⟨(s.chans c).inputs, by rw [← h]; exact hw.w4⟩
  · refine ⟨[.fatal e] ++ (s.chans c).inputs, ?_⟩
    rw [← List.append_assoc, ← h]; exact hw.w4

/-- the executable judge used on real runs (Spec.evLegal, early mode) accepts every observation the model can produce:
    a prefix of body ++ [close] -/
theorem model_observation_is_legal (closeEvt : Ev) (body obs : List Ev) (h : obs <+: body ++ [closeEvt]) :
    obs <+: body ∨ ∃ pre, obs = pre ++ [closeEvt] ∧ pre <+: body := by
  obtain ⟨t, ht⟩ := h
  by_cases hl : obs.length ≤ body.length
  · left
    have := List.prefix_of_prefix_length_le ⟨t, ht⟩ (List.prefix_append body [closeEvt]) hl
    exact this
  · right
    have hlen := congrArg List.length ht
    simp at hlen
    have ht0 : t = [] := by
      cases t with
      | nil => rfl
      | cons a b => simp at hlen; omega
    subst ht0
    simp at ht
    exact ⟨body, ht, List.prefix_refl _⟩

end Mav.C10

namespace Mav.C10
open Mav Nd
/-- non-vacuity: the hypotheses are met by a state in which a channel was opened, its open event received and a frame read. -/
example : ∃ s, Reach (init (fun _ => [.frame 7, .fatal 3])) s ∧ (s.chans 0).delivered = [.opn] ∧ s.terminate = false ∧
    (s.chans 0).consumed = [.frame 7] := by
  let i : Cid → List RdRes := fun _ => [.frame 7, .fatal 3]
  have r0 : Reach (init i) (init i) := .refl
  have r1 := Reach.step r0 (Step.newChan (init i) 0 rfl rfl rfl (by simp [init]))
  have r2 := Reach.step r1 (Step.pBegin _ 0 .opn (by simp [upd, init]) (by simp [upd, init]) rfl)
  have r3 := Reach.step r2 (Step.pDeliver _ 0 .opn (by simp [upd, init]) rfl)
  have r4 := Reach.step r3 (Step.rResume _ 0 (by simp [upd, init]) (by simp [upd, init]))
  have r5 := Reach.step r4 (Step.rReadOk _ 0 (.frame 7) [.fatal 3] (.frame 7) (by simp [upd, init]) (by simp [upd, init])
    (by simp [upd, init, i]) rfl)
  exact ⟨_, r5, by simp [upd, init], rfl, by simp [upd, init]⟩
end Mav.C10
