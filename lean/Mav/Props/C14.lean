import Mav.Spec.Lifecycle
/-
  C14 — channel lifecycle under faults. Property theorems only.
  Model: Mav/Model/Provider.lean (provider loop with the `first` flag and the inner retry loop; timednetconn; idle read loop).
  Spec: Mav/Spec/Lifecycle.lean. All theorems are for EVERY fault script: any number of consecutive failed attempts,
  channel deaths of any kind, in any order.
-/
namespace Mav.C14
open Mav.Prov Mav.Spec.Life

/-! ### the provider loop does what the spec says -/

/-- acts of the provider loop, waits included (a wait follows every failure, and every channel end that is not the end of the history) -/
def core : List Outcome → List Act
  | [] => []
  | .fail :: rest => .attempt false :: .wait :: core rest
  | .ok n e :: rest => [.attempt true, .opn, .frames n, .close e] ++ (if rest ≠ [] then [Act.wait] else []) ++ core rest

theorem connectLoop_core (s : List Outcome) :
    match connectLoop s with
    | (a, none) => core s = a
    | (a, some (n, e, rest)) => core s = a ++ [.opn, .frames n, .close e] ++ (if rest ≠ [] then [Act.wait] else []) ++ core rest ∧
        rest.length < s.length := by
  induction s with
  | nil => simp [connectLoop, core]
  | cons o rest ih =>
    cases o with
    | fail =>
      simp only [connectLoop, core]
      cases h : connectLoop rest with
      | mk a r =>
        rw [h] at ih
        cases r with
        | none => simp at ih ⊢; exact ih
        | some x =>
          obtain ⟨n, e, rest'⟩ := x
          simp at ih ⊢
          exact ⟨ih.1, by omega⟩
    | ok n e => simp [connectLoop, core]

theorem providerLoop_core (fuel : Nat) : ∀ (first : Bool) (s : List Outcome), s.length < fuel →
    providerLoop fuel first s = (if first = true ∧ s ≠ [] then [Act.wait] else []) ++ core s := by
  induction fuel with
  | zero => intro _ s h; omega
  | succ fuel ih =>
    intro first s hl
    cases s with
    | nil => simp [providerLoop, core]
    | cons o rest =>
      have hc := connectLoop_core (o :: rest)
      simp only [providerLoop, List.isEmpty_cons, Bool.false_eq_true, if_false]
      cases h : connectLoop (o :: rest) with
      | mk a r =>
        rw [h] at hc
        cases r with
        | none =>
          simp at hc
          cases first <;> simp [hc]
        | some x =>
          obtain ⟨n, e, rest'⟩ := x
          simp only at hc
          have h2 := hc.2
          have := ih true rest' (by simp at hl h2; omega)
          simp only [this, hc.1]
          cases first <;> simp

theorem specTrace_true (s : List Outcome) :
    specTrace true s = (if s ≠ [] then [Act.wait] else []) ++ specTrace false s := by
  cases s with
  | nil => simp [specTrace]
  | cons o rest => cases o <;> simp [specTrace]

/-- the wait that follows a final failed attempt (nothing observable comes after it) -/
def tailWait (s : List Outcome) : List Act := if s.getLast? = some .fail then [.wait] else []

theorem core_eq_spec (s : List Outcome) : core s = specTrace false s ++ tailWait s := by
  induction s with
  | nil => simp [core, specTrace, tailWait]
  | cons o rest ih =>
    cases o with
    | fail =>
      simp only [core, specTrace, ih, specTrace_true]
      cases rest with
      | nil => simp [tailWait, specTrace]
      | cons o2 r2 => simp [tailWait, List.getLast?_cons_cons]
    | ok n e =>
      simp only [core, specTrace, ih, specTrace_true]
      cases rest with
      | nil => simp [tailWait, specTrace]
      | cons o2 r2 => simp [tailWait, List.getLast?_cons_cons]

/-- what the spec emits never ends with a wait … -/
theorem specTrace_last (b : Bool) (s : List Outcome) : (specTrace b s).getLast? ≠ some .wait := by
  induction s generalizing b with
  | nil => simp [specTrace]
  | cons o rest ih =>
    cases rest with
    | nil => cases o <;> cases b <;> simp [specTrace]
    | cons o2 r2 =>
      have h2 : ∃ x, (specTrace true (o2 :: r2)).getLast? = some x := by
        cases hg : (specTrace true (o2 :: r2)).getLast? with
        | some x => exact ⟨x, rfl⟩
        | none =>
          rw [List.getLast?_eq_none_iff] at hg
          cases o2 <;> simp [specTrace] at hg
      obtain ⟨x, hx⟩ := h2
      have hne := ih true
      cases o <;> simp only [specTrace]
      all_goals
        rw [List.getLast?_append, hx]
        simp only [Option.some_or]
        rw [← hx]; exact hne

theorem trimWaits_of_last (l : List Act) (h : l.getLast? ≠ some .wait) : trimWaits l = l := by
  induction l with
  | nil => rfl
  | cons a rest ih =>
    cases rest with
    | nil =>
      simp [trimWaits]
      intro ha; subst ha; simp at h
    | cons b r =>
      have : (b :: r).getLast? ≠ some .wait := by simpa [List.getLast?_cons_cons] using h
      have h2 := ih this
      simp only [trimWaits] at h2 ⊢
      rw [h2]

theorem trimWaits_snoc_wait (l : List Act) : trimWaits (l ++ [.wait]) = trimWaits l := by
  induction l with
  | nil => simp [trimWaits]
  | cons a rest ih => simp only [List.cons_append, trimWaits, ih]

/-- **C14 (reconnects, for any number of consecutive failures).** For every fault script the provider loop — `first` flag,
    inner retry loop, wait for the channel's end — produces exactly the specified trace: the first attempt at once, every
    later attempt after exactly one reconnect delay, one channel per successful attempt, closed with its cause before the
    next attempt. -/
theorem model_eq_spec (s : List Outcome) : modelTrace s = specTrace false s := by
  unfold modelTrace
  rw [providerLoop_core _ false s (by omega)]
  simp only [Bool.false_eq_true, false_and, if_false, List.nil_append, core_eq_spec]
  unfold tailWait
  split
  · rw [trimWaits_snoc_wait]; exact trimWaits_of_last _ (specTrace_last _ _)
  · simp; exact trimWaits_of_last _ (specTrace_last _ _)

/-! ### consequences, in the property's words -/

/-- opens and closes alternate strictly, starting with an open: `k` = channels currently open -/
def alternates : Nat → List Act → Bool
  | _, [] => true
  | k, .opn :: r => k == 0 && alternates 1 r
  | k, .close _ :: r => k == 1 && alternates 0 r
  | k, _ :: r => alternates k r

/-- **C14 (never two channels open at once).** In the trace of a client-type endpoint a channel is opened only when none
    is open, and closed only when one is. -/
theorem never_two_open (b : Bool) (s : List Outcome) : alternates 0 (specTrace b s) = true := by
  induction s generalizing b with
  | nil => simp [specTrace, alternates]
  | cons o rest ih =>
    cases o <;> cases b <;> simp [specTrace, alternates, ih]

/-- the first attempt is immediate; every later attempt is preceded by exactly one reconnect delay; no delay is wasted -/
def wellSpaced : Bool → List Act → Bool
  | _, [] => true
  | true, .attempt _ :: r => wellSpaced false r
  | false, .wait :: .attempt _ :: r => wellSpaced false r
  | f, .opn :: r => wellSpaced f r
  | f, .frames _ :: r => wellSpaced f r
  | f, .close _ :: r => wellSpaced f r
  | _, _ => false

/-- **C14 (after the reconnect delay).** -/
theorem attempts_well_spaced (s : List Outcome) : wellSpaced true (specTrace false s) = true := by
  have h : ∀ s, wellSpaced false (specTrace true s) = true := by
    intro s
    induction s with
    | nil => simp [specTrace, wellSpaced]
    | cons o rest ih => cases o <;> simp [specTrace, wellSpaced, ih]
  cases s with
  | nil => simp [specTrace, wellSpaced]
  | cons o rest => cases o <;> simp [specTrace, wellSpaced, h]

def closeCauses : List Act → List End
  | [] => []
  | .close e :: r => e :: closeCauses r
  | _ :: r => closeCauses r

def scriptedCauses : List Outcome → List End
  | [] => []
  | .ok _ e :: r => e :: scriptedCauses r
  | .fail :: r => scriptedCauses r

/-- **C14 (the close event carries the cause; every successful attempt yields a channel).** The causes reported by the
    close events are the causes of the channel deaths, one per successful connection attempt, in order — however many failed
    attempts lie in between. -/
theorem causes_reported (b : Bool) (s : List Outcome) : closeCauses (specTrace b s) = scriptedCauses s := by
  induction s generalizing b with
  | nil => simp [specTrace, closeCauses, scriptedCauses]
  | cons o rest ih => cases o <;> cases b <;> simp [specTrace, closeCauses, scriptedCauses, ih]

/-- **C14 (any number of consecutive failures).** k failed attempts followed by a reachable peer: k + 1 attempts, k delays,
    then the channel — for every k. -/
theorem after_k_failures (k n : Nat) (e : End) :
    specTrace false (List.replicate k .fail ++ [.ok n e]) =
      (List.replicate k [Act.attempt false, .wait]).flatten ++ [.attempt true, .opn, .frames n, .close e] := by
  have h : ∀ k, specTrace true (List.replicate k .fail ++ [.ok n e]) =
      [Act.wait] ++ (List.replicate k [Act.attempt false, .wait]).flatten ++ [.attempt true, .opn, .frames n, .close e] := by
    intro k
    induction k with
    | zero => simp [specTrace]
    | succ k ih => simp [List.replicate_succ, specTrace, ih]
  cases k with
  | zero => simp [specTrace]
  | succ k => simp [List.replicate_succ, specTrace, h]

/-! ### deadlines -/

/-- **C14 (every read and write is bounded by a deadline armed afresh for that call).** For every call sequence the wrapper
    does what the spec says … -/
theorem tnc_eq_spec (failAt : Option Nat) (calls : List Call) : tncRun failAt 0 calls = tncSpec failAt calls := by
  have h : ∀ (calls : List Call) (k : Nat) (acc : List Low),
      (calls.foldl (tncStep failAt) (k, acc)).2 = acc ++ tncRun failAt k calls := by
    intro calls
    induction calls with
    | nil => intro k acc; simp [tncRun]
    | cons c rest ih =>
      intro k acc
      cases c <;> simp only [List.foldl_cons, tncStep, tncRun, ih]
      · split <;> simp
      · split <;> simp
      · simp
  unfold tncSpec
  rw [h]; simp

/-- … and in what it does, a Read or Write of the wrapped connection is always immediately preceded by the arming of its own
    deadline. -/
def armed : List Low → Bool
  | [] => true
  | .setRead true :: .read :: r => armed r
  | .setWrite true :: .write :: r => armed r
  | .setRead false :: r => armed r
  | .setWrite false :: r => armed r
  | .close :: r => armed r
  | _ => false

theorem every_io_armed (failAt : Option Nat) (k : Nat) (calls : List Call) : armed (tncRun failAt k calls) = true := by
  induction calls generalizing k with
  | nil => simp [tncRun, armed]
  | cons c rest ih =>
    cases c <;> simp only [tncRun]
    · split <;> simp [armed, ih]
    · split <;> simp [armed, ih]
    · simp [armed, ih]
    · exact ih k

/-! ### idle expiry -/

/-- consecutive gaps between the start of the read loop and the arrivals -/
def gapsOk (idle : Nat) : Nat → List Nat → Bool
  | _, [] => true
  | t, a :: rest => a ≤ t + idle && gapsOk idle (max t a) rest

/-- **C14 (one that keeps receiving is not closed).** If data keeps arriving with gaps of at most the idle timeout, no Read
    times out while the traffic lasts: the channel expires only one idle timeout after the LAST arrival. -/
theorem busy_channel_not_expired (idle t : Nat) (arr : List Nat) (h : gapsOk idle t arr = true) :
    idleExpiry idle t arr = (arr.foldl max t) + idle := by
  induction arr generalizing t with
  | nil => simp [idleExpiry]
  | cons a rest ih =>
    simp only [gapsOk, Bool.and_eq_true, decide_eq_true_eq] at h
    simp only [idleExpiry, h.1, if_true, List.foldl_cons]
    exact ih _ h.2

/-- **C14 (a channel that receives nothing for the idle timeout is closed).** At the first gap longer than the idle timeout the
    Read in progress fails: the channel is closed one idle timeout after the last data before the gap, whatever arrives later. -/
theorem silent_channel_expires (idle t : Nat) (pre : List Nat) (a : Nat) (post : List Nat)
    (hpre : gapsOk idle t pre = true) (hgap : (pre.foldl max t) + idle < a) :
    idleExpiry idle t (pre ++ a :: post) = (pre.foldl max t) + idle := by
  induction pre generalizing t with
  | nil =>
    simp only [List.foldl_nil] at hgap
    simp only [List.nil_append, idleExpiry, List.foldl_nil]
    rw [if_neg (by omega)]
  | cons b rest ih =>
    simp only [gapsOk, Bool.and_eq_true, decide_eq_true_eq] at hpre
    simp only [List.cons_append, idleExpiry, hpre.1, if_true, List.foldl_cons] at hgap ⊢
    exact ih _ hpre.2 hgap

/-- had the deadline been armed once, when the connection was made, a busy channel would be closed too: the two designs differ -/
example : idleExpiry 10 0 [5, 12, 20, 28] = 38 ∧ (0 : Nat) + 10 < 38 := by decide

/-- non-vacuity -/
example : specTrace false [.fail, .fail, .ok 3 (.err 2), .fail, .ok 0 .eof] =
    [.attempt false, .wait, .attempt false, .wait, .attempt true, .opn, .frames 3, .close (.err 2),
     .wait, .attempt false, .wait, .attempt true, .opn, .frames 0, .close .eof] := by decide
example : modelTrace [.fail, .ok 1 .reset, .fail] = [.attempt false, .wait, .attempt true, .opn, .frames 1, .close .reset, .wait, .attempt false] := by decide

end Mav.C14
