import Mav.Proofs.Tlog
import Mav.Props.C05
import Mav.Proofs.Prefix
/-
  C20 — telemetry logs. Property theorems only.
  Model: Mav/Model/Tlog.lean (tlog.Writer.Write after `fix: tlog.Writer must not leave a partial entry…`, tlog.Reader.Read).
-/
namespace Mav.C20
open Mav Spec Tlog

/-- **C20 (layout).** A successfully written entry is the 8-byte big-endian microsecond timestamp followed by the frame's
    spec bytes, handed to the file in one piece. -/
theorem entry_layout (d : WDialect) (e : Int) (f : Frame) (hwf : WF f) :
    writeEntry d e f none = .wrote (int64Bytes e ++ specBytes f) := by
  simp [writeEntry, C01.write_emits_spec f hwf d]

/-- **C20 (no partial entries).** An entry whose frame cannot be encoded hands no byte to the file and reports the error. -/
theorem unencodable_leaves_nothing (d : WDialect) (e : Int) (f : Frame) (err : WErr) (fa : Option Nat)
    (h : frameWrite d f = .error err) : writeEntry d e f fa = .failed [] err := by
  simp [writeEntry, h]

/-- **C20 (write errors are reported).** If the transport fails the (single) write of the entry, the error is returned. -/
theorem write_error_reported (d : WDialect) (e : Int) (f : Frame) (hwf : WF f) :
    writeEntry d e f (some 0) = .failed [] (.transport 0) := by
  simp [writeEntry, C01.write_emits_spec f hwf d]

/-- **C20 (timestamps, reader side).** `time.Unix(e/1e6, (e%1e6)*1e3).UnixMicro() = e` for every integer e, with Go's
    truncated division — negative (pre-1970) values included. -/
theorem time_roundtrip (e : Int) : unixMicro (timeOfEpoch e) = e := time_roundtrip' e

/-- **C20 (timestamps, bytes).** The eight bytes written for a timestamp read back as the same int64. -/
theorem timestamp_bytes_roundtrip (e : Int) (h1 : -2^63 ≤ e) (h2 : e < 2^63) : int64OfBytes (int64Bytes e) = e :=
  ts_bytes_roundtrip e h1 h2

theorem int64Bytes_length (e : Int) : (int64Bytes e).length = 8 := by simp [int64Bytes, be64]

/-- **C20 (one entry reads back).** Reading the bytes of a written entry (followed by anything) returns that entry —
    same microsecond count, frame equal field for field — and leaves exactly what followed. -/
theorem entry_roundtrip (H : Bytes → Bytes) (e : Int) (h1 : -2^63 ≤ e) (h2 : e < 2^63) (f : Frame) (hwf : WF f) (rest : Stream) :
    readEntry (C01.plainCfg H) (bytesToItems (int64Bytes e ++ specBytes f) ++ rest) =
      (.entry e (timeOfEpoch e) f, rest) := by
  have hr := readFull_items (int64Bytes e) (bytesToItems (specBytes f) ++ rest) 8 (int64Bytes_length e)
  simp only [readEntry, bytesToItems_append, List.append_assoc, hr, ts_bytes_roundtrip e h1 h2,
    C01.read_marshal H f hwf rest {}]

/-- the file written for a sequence of entries -/
def logBytes : List (Int × Frame) → Bytes
  | [] => []
  | (e, f) :: r => int64Bytes e ++ specBytes f ++ logBytes r

/-- repeated Read until the reader reports an error (what a log consumer does) -/
def readLog (cfg : RCfg) : Nat → Stream → List (Int × Frame)
  | 0, _ => []
  | fuel + 1, s =>
    match readEntry cfg s with
    | (.entry e _ f, s') => (e, f) :: readLog cfg fuel s'
    | _ => []

/-- **C20 (round trip of a whole log).** Any sequence of entries (64-bit timestamps, well-formed frames) written to a log
    is read back as the same sequence, for logs of any length. -/
theorem log_roundtrip (H : Bytes → Bytes) (l : List (Int × Frame))
    (hl : ∀ ef ∈ l, -2^63 ≤ ef.1 ∧ ef.1 < 2^63 ∧ WF ef.2) (fuel : Nat) (hf : l.length < fuel) :
    readLog (C01.plainCfg H) fuel (bytesToItems (logBytes l)) = l := by
  induction l generalizing fuel with
  | nil =>
    cases fuel with
    | zero => omega
    | succ n => simp [logBytes, readLog, readEntry, readFull, takeBytes]
  | cons ef r ih =>
    obtain ⟨e, f⟩ := ef
    have h0 := hl (e, f) (by simp)
    cases fuel with
    | zero => simp at hf
    | succ n =>
      have := entry_roundtrip H e h0.1 h0.2.1 f h0.2.2 (bytesToItems (logBytes r))
      simp only [logBytes, bytesToItems_append, List.append_assoc] at this ⊢
      simp only [readLog, this]
      congr 1
      exact ih (fun x hx => hl x (List.mem_cons_of_mem _ hx)) n (by simp at hf; omega)


/-- the complete entries that lie wholly before byte offset k -/
def entriesBefore : Nat → List (Int × Frame) → List (Int × Frame)
  | _, [] => []
  | k, (e, f) :: r => if 8 + (specBytes f).length ≤ k then (e, f) :: entriesBefore (k - (8 + (specBytes f).length)) r else []

theorem readEntry_short (H : Bytes → Bytes) (e : Int) (f : Frame) (hf : WF f) (k : Nat) (hk : k < 8 + (specBytes f).length)
    (ep : Int) (t : Int × Int) (g : Frame) (rest : Stream) :
    readEntry (C01.plainCfg H) (bytesToItems ((int64Bytes e ++ specBytes f).take k)) ≠ (.entry ep t g, rest) := by
  intro h
  have hl := int64Bytes_length e
  by_cases h8 : k < 8
  · -- not even the timestamp
    have hlen : ((int64Bytes e ++ specBytes f).take k).length = k := by simp; omega
    unfold readEntry readFull at h
    have hx := takeBytes_items ((int64Bytes e ++ specBytes f).take k) []
    simp only [List.append_nil] at hx
    have htb : takeBytes 8 (bytesToItems ((int64Bytes e ++ specBytes f).take k)) =
        ((int64Bytes e ++ specBytes f).take k, []) := by
      have : ∀ (a : Bytes) (n : Nat), a.length ≤ n → takeBytes n (bytesToItems a) = (a, []) := by
        intro a
        induction a with
        | nil => intro n _; cases n <;> simp [takeBytes]
        | cons x r ih => intro n hn; cases n with
          | zero => simp at hn
          | succ m => simp [takeBytes, ih m (by simpa using hn)]
      exact this _ 8 (by omega)
    rw [htb] at h
    have : ¬ (((int64Bytes e ++ specBytes f).take k).length = 8) := by omega
    simp only [this, ↓reduceIte] at h
    simp at h
  · have hk8 : 8 ≤ k := by omega
    have hsplit : (int64Bytes e ++ specBytes f).take k = int64Bytes e ++ (specBytes f).take (k - 8) := by
      rw [List.take_append]
      simp [hl, List.take_of_length_le (show (int64Bytes e).length ≤ k by omega)]
    rw [hsplit] at h
    have hr := readFull_items (int64Bytes e) (bytesToItems ((specBytes f).take (k - 8))) 8 hl
    simp only [readEntry, bytesToItems_append, hr] at h
    split at h
    · rename_i g' s' st' hread
      exact prefix_not_frame H f hf (k - 8) (by omega) {} g' s' st' hread
    · simp at h

/-- **C20 (crash-truncation safety).** For every valid log and every cut offset k, a consumer reading the truncated file
    until the first error obtains exactly the entries that lie wholly before the cut — never a fabricated entry. -/
theorem truncation_safe (H : Bytes → Bytes) (l : List (Int × Frame))
    (hl : ∀ ef ∈ l, -2^63 ≤ ef.1 ∧ ef.1 < 2^63 ∧ WF ef.2) (k : Nat) (fuel : Nat) (hf : l.length < fuel) :
    readLog (C01.plainCfg H) fuel (bytesToItems ((logBytes l).take k)) = entriesBefore k l := by
  induction l generalizing k fuel with
  | nil =>
    cases fuel with
    | zero => omega
    | succ n => simp [logBytes, readLog, readEntry, readFull, takeBytes, entriesBefore]
  | cons ef r ih =>
    obtain ⟨e, f⟩ := ef
    have h0 := hl (e, f) (by simp)
    cases fuel with
    | zero => simp at hf
    | succ n =>
      have hlen := int64Bytes_length e
      by_cases hk : 8 + (specBytes f).length ≤ k
      · have hsplit : (logBytes ((e, f) :: r)).take k =
            (int64Bytes e ++ specBytes f) ++ (logBytes r).take (k - (8 + (specBytes f).length)) := by
          simp only [logBytes]
          rw [List.take_append]
          have : (int64Bytes e ++ specBytes f).length = 8 + (specBytes f).length := by simp [hlen]
          rw [this, List.take_of_length_le (by simp [hlen]; omega)]
        rw [hsplit]
        have := entry_roundtrip H e h0.1 h0.2.1 f h0.2.2 (bytesToItems ((logBytes r).take (k - (8 + (specBytes f).length))))
        simp only [bytesToItems_append, List.append_assoc] at this ⊢
        simp only [readLog, this, entriesBefore, hk, if_true]
        congr 1
        exact ih (fun x hx => hl x (List.mem_cons_of_mem _ hx)) _ n (by simp at hf; omega)
      · have hsplit : (logBytes ((e, f) :: r)).take k = (int64Bytes e ++ specBytes f).take k := by
          simp only [logBytes]
          rw [List.take_append]
          have : (int64Bytes e ++ specBytes f).length = 8 + (specBytes f).length := by simp [hlen]
          have hz : k - (int64Bytes e ++ specBytes f).length = 0 := by omega
          rw [hz]; simp
        rw [hsplit]
        simp only [entriesBefore, hk, if_false]
        unfold readLog
        split
        · rename_i ep t g s' hread
          exact absurd hread (readEntry_short H e f h0.2.2 k (by omega) ep t g s')
        · rfl

end Mav.C20
