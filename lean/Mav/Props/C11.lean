import Mav.Spec.Fanout
namespace Mav.C11
theorem placeholder : True := trivial
end Mav.C11
