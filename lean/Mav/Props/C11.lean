import Mav.Proofs.Node2
import Mav.Spec.Fanout
/-
  C11 — write fan-out. Property theorems only.
  Model: transition system Mav/Model/Node.lean. A `dispatch` step is the node loop taking one request from
  chWriteTo / chWriteAll / chWriteExcept and calling Channel.write on the selected channels; `disp` is the resulting
  linearisation of all Write* calls of all goroutines (Go channel receive order). wDequeue / wOk / wFail are the single
  writer goroutine of a channel handing one whole item to the transport.
  The executable judge of real runs is Spec.Fan.fanLegal (Mav/Spec/Fanout.lean); the theorems below are what the model
  guarantees for every reachable state, any number of channels and writers, any interleaving.
-/
namespace Mav.C11
open Mav Nd

/-- what channel c's transport has been handed so far, in order (each element one whole item) -/
def wire (x : ChanSt) : List Item := x.done.map (·.1) ++ inflightW x

/-- **C11 (exactly once, in order, whole items).** On every channel, in every reachable state: the items handed to the
    transport followed by the backlog are exactly the items the channel accepted, in acceptance order — nothing is
    duplicated, reordered, split or lost between Channel.write and the transport. -/
theorem wire_then_backlog_is_accepted (inputs : Cid → List RdRes) (s : St) (hr : Reach (init inputs) s) (c : Cid) :
    wire (s.chans c) ++ (s.chans c).queue = (s.chans c).acc := by
  have := (reach_faninv inputs s hr c).flow
  unfold wire; rw [this]

/-- **C11 (nothing invented, submission order kept).** What a channel accepted is a sub-sequence of what was dispatched to it,
    so (with the theorem above) the wire order on every channel is a sub-sequence of the single dispatch order: two items
    submitted by one goroutine (whose Write* calls return in program order) can never be swapped. -/
theorem accepted_sublist_of_offered (inputs : Cid → List RdRes) (s : St) (hr : Reach (init inputs) s) (c : Cid) :
    (s.chans c).acc.Sublist (s.chans c).seen := (reach_faninv inputs s hr c).sub

theorem wire_sublist_of_offered (inputs : Cid → List RdRes) (s : St) (hr : Reach (init inputs) s) (c : Cid) :
    (wire (s.chans c)).Sublist (s.chans c).seen := by
  have h1 := wire_then_backlog_is_accepted inputs s hr c
  have h2 := accepted_sublist_of_offered inputs s hr c
  rw [← h1] at h2
  exact (List.sublist_append_left _ _).trans h2

/-- **C11 (all / one / all-but-one; closed and foreign channels ignored).** Effect of one dispatch on one channel:
    a channel that is registered, selected by the target, alive and below its bound accepts exactly one copy; -/
theorem dispatch_hit (s : St) (t : Tgt) (it : Item) (pick : Cid → Bool) (c : Cid)
    (hm : c ∈ s.members) (ht : t.hits c = true) (hq : (s.chans c).queue.length < qcap) (hl : (s.chans c).ctxDone = false) :
    ((dispatch s t it pick).chans c).acc = (s.chans c).acc ++ [it] ∧
    ((dispatch s t it pick).chans c).queue = (s.chans c).queue ++ [it] ∧
    ((dispatch s t it pick).chans c).seen = (s.chans c).seen ++ [it] := by
  simp [dispatch, enq, hm, ht, hq, hl]

/-- … and a channel that is not selected (`to` another channel, the excluded one of `except`), or is not registered (closed,
    or a foreign Channel value), is left completely untouched. -/
theorem dispatch_miss (s : St) (t : Tgt) (it : Item) (pick : Cid → Bool) (c : Cid)
    (h : c ∉ s.members ∨ t.hits c = false) : (dispatch s t it pick).chans c = s.chans c := by
  rcases h with h | h
  · simp [dispatch, enq, h]
  · simp [dispatch, enq, h]

theorem hits_to (c d : Cid) : (Tgt.to c).hits d = true ↔ d = c := by
  simp only [Tgt.hits, beq_iff_eq]; exact eq_comm
theorem hits_except (c d : Cid) : (Tgt.except c).hits d = true ↔ d ≠ c := by
  simp only [Tgt.hits, bne_iff_ne, ne_eq]; exact ⟨fun h e => h e.symm, fun h e => h e.symm⟩
theorem hits_all (d : Cid) : Tgt.all.hits d = true := rfl

/-- **C11 (nothing dropped below the bound).** An execution in which every dispatch found every selected registered channel
    alive and with fewer than 64 items queued. -/
inductive ReachBelow (s0 : St) : St → Prop
  | refl : ReachBelow s0 s0
  | other {s s'} : ReachBelow s0 s → Step s s' → SameFan s s' → ReachBelow s0 s'
  | disp {s} (t it pick) : ReachBelow s0 s → s.npc = .loop →
      (∀ c ∈ s.members, t.hits c = true → (s.chans c).queue.length < qcap ∧ (s.chans c).ctxDone = false) →
      ReachBelow s0 (dispatch s t it pick)

/-- In such an execution every channel has accepted everything that was addressed to it: acc = seen. -/
theorem nothing_dropped_below_bound (inputs : Cid → List RdRes) (s : St) (h : ReachBelow (init inputs) s) (c : Cid) :
    (s.chans c).acc = (s.chans c).seen := by
  induction h with
  | refl => simp [init]
  | other _ _ hs ih => rw [(hs c).1, (hs c).2]; exact ih
  | @disp s1 t it pick _ hl hb ih =>
    by_cases hm : c ∈ s1.members ∧ t.hits c = true
    · obtain ⟨h1, h2, h3⟩ := dispatch_hit s1 t it pick c hm.1 hm.2 (hb c hm.1 hm.2).1 (hb c hm.1 hm.2).2
      rw [h1, h3, ih]
    · have : c ∉ s1.members ∨ t.hits c = false := by
        by_cases h1 : c ∈ s1.members
        · right; simpa using fun h2 => hm ⟨h1, h2⟩
        · left; exact h1
      rw [dispatch_miss s1 t it pick c this]; exact ih

/-- `ReachBelow` executions are executions (the theorem above is not about a different system). -/
theorem reachBelow_reach (s0 s : St) (h : ReachBelow s0 s) : Reach s0 s := by
  induction h with
  | refl => exact .refl
  | other _ hs _ ih => exact .step ih hs
  | disp t it pick _ hl _ ih => exact .step ih (Step.dispatch _ t it pick hl)

/-- **C11 (the bound is the declared one).** -/
theorem bound_is_64 : qcap = 64 := by decide

/-- the judge's `hits` (Spec.Fan) and the model's agree on real channels -/
theorem hits_agree_all (c : Nat) : Spec.Fan.hits { isMsg := true, tgt := .all } c = Tgt.all.hits c := rfl
theorem hits_agree_to (d c : Nat) : Spec.Fan.hits { isMsg := true, tgt := .to (some d) } c = (Tgt.to d).hits c := by
  simp [Spec.Fan.hits, Tgt.hits]
theorem hits_agree_except (d c : Nat) : Spec.Fan.hits { isMsg := true, tgt := .except (some d) } c = (Tgt.except d).hits c := by
  simp [Spec.Fan.hits, Tgt.hits]

/-- non-vacuity: a reachable state with one registered channel that accepted an item and handed it to its transport -/
example : ∃ s, ReachBelow (init (fun _ => [])) s ∧ wire (s.chans 0) = [5] ∧ (s.chans 0).seen = [5] := by
  let i : Cid → List RdRes := fun _ => []
  have r0 : ReachBelow (init i) (init i) := .refl
  have r1 := ReachBelow.other r0 (Step.newChan (init i) 0 rfl rfl rfl (by simp [init])) (by
    intro c; by_cases hc : c = 0 <;> simp [upd, hc])
  have r2 := ReachBelow.disp .all 5 (fun _ => true) r1 rfl (by
    intro c hc _; simp [init] at hc; subst hc; simp [upd, init, qcap, Gen.writeBufferSize])
  have r3 := ReachBelow.other r2 (Step.wDequeue _ 0 5 [] (by simp [dispatch, enq, upd, init, Tgt.hits, qcap, Gen.writeBufferSize])
    (by simp [dispatch, enq, upd, init, Tgt.hits, qcap, Gen.writeBufferSize]) (by simp [dispatch, enq, upd, init, Tgt.hits, qcap, Gen.writeBufferSize]))
    (by intro c; by_cases hc : c = 0 <;> simp [upd, hc])
  exact ⟨_, r3, by simp [wire, inflightW, dispatch, enq, upd, init, Tgt.hits, qcap, Gen.writeBufferSize],
    by simp [dispatch, enq, upd, init, Tgt.hits, qcap, Gen.writeBufferSize]⟩

end Mav.C11
