import Mav.Proofs.Codec2
import Mav.Proofs.InitSound
import Mav.Gen.MsgsAll
/-
  C04 — message round trip, truncation, extensions. Property theorems only.
  Model: Mav/Model/Msg.lean (`ReadWriter.Write` = encode, `ReadWriter.Read` = decode), for ANY message layout `rw` whose sizes
  agree with its fields (`RWok`: true of every layout `Initialize` produces — theorem `accepted_struct_usable` below, since `fix: reject at
  initialization the message structs that cannot be encoded`; also kernel-checked for the 408 shipped definitions). All theorems are for every
  layout, every value assignment and every payload, not for the shipped types only.
  Not in Lean: that the decoder never writes to the caller's buffer (Go slice aliasing) — decided by the harness on poisoned
  backing arrays.
-/
namespace Mav.C04
open Mav Msg

/-- **C04 (fails only with an error, never a panic).** Every payload, of any length, in both versions. -/
theorem decode_never_panics (rw : RW) (hok : RWok rw) (isV2 : Bool) (payload : Bytes) : decode rw isV2 payload ≠ .panic := by
  cases isV2 with
  | true =>
    rw [decode_v2_eq]
    obtain ⟨v, hv⟩ := decFields_some rw.fields (padded rw payload) (zeroVals rw) (by rw [hok.ext]; exact padded_len rw payload)
    rw [hv]; simp [resOf]
  | false =>
    simp only [decode, Bool.false_eq_true, if_false]
    split
    · simp
    · rename_i hl
      obtain ⟨v, hv⟩ := decFields_some (rw.fields.filter (fun f => !f.isExt)) payload (zeroVals rw)
        (by rw [hok.base]; simp at hl; omega)
      rw [hv]; simp [resOf]

/-- **C04 (v1 accepts only the exact base payload length).** -/
theorem v1_exact_length (rw : RW) (payload : Bytes) :
    decode rw false payload = .errSize ↔ payload.length ≠ rw.sizeNormal.toNat := by
  simp only [decode, Bool.false_eq_true, if_false]
  constructor
  · intro h hl
    simp only [hl, ne_eq, not_true_eq_false, if_false] at h
    cases hd : decFields (rw.fields.filter (fun f => !f.isExt)) payload (zeroVals rw) <;> simp [hd, resOf] at h
  · intro h; simp [h]

/-- **C04 (any number of zero bytes appended).** -/
theorem zero_extension_invariant (rw : RW) (hok : RWok rw) (p : Bytes) (k : Nat) :
    decode rw true (p ++ replicateZ k) = decode rw true p := by
  rw [decode_v2_take rw hok, decode_v2_take rw hok, take_padded_append_zeros]

/-- **C04 (any number of trailing zero bytes removed).** Two payloads that differ by trailing zeros decode alike. -/
theorem zero_truncation_invariant (rw : RW) (hok : RWok rw) (p q : Bytes) (j k : Nat) (h : p ++ replicateZ j = q ++ replicateZ k) :
    decode rw true p = decode rw true q := by
  rw [← zero_extension_invariant rw hok p j, h, zero_extension_invariant rw hok q k]

/-- **C04 (unknown trailing bytes are ignored).** -/
theorem trailing_bytes_ignored (rw : RW) (hok : RWok rw) (p extra : Bytes) (h : rw.sizeExtended.toNat ≤ p.length) :
    decode rw true (p ++ extra) = decode rw true p := by
  rw [decode_v2_take rw hok, decode_v2_take rw hok]
  have h1 : padded rw (p ++ extra) = p ++ extra := by unfold padded; rw [if_neg (by simp; omega)]
  have h2 : padded rw p = p := by unfold padded; rw [if_neg (by omega)]
  rw [h1, h2, List.take_append_of_le_length h]

/-- **C04 (the encoder strips trailing zeros, never below one byte).** -/
theorem strip_shape (buf : Bytes) : (∃ k, buf = removeEmptyBytes buf ++ replicateZ k) ∧ (buf ≠ [] → 1 ≤ (removeEmptyBytes buf).length) :=
  ⟨strip_is_zero_suffix buf, strip_nonempty buf⟩

/-- … and what it strips does not change what is decoded -/
theorem stripped_decodes_alike (rw : RW) (hok : RWok rw) (full : Bytes) :
    decode rw true (removeEmptyBytes full) = decode rw true full := by
  obtain ⟨k, hk⟩ := strip_is_zero_suffix full
  conv => rhs; rw [hk]
  exact (zero_extension_invariant rw hok _ k).symm

/-- every field's value has the shape of the field -/
def WellTyped (rw : RW) (vals : List FVal) : Prop := ∀ f ∈ rw.fields, wellTyped f (valAt vals f.index) = true

/-- canonical form of a whole message in version 2: every field set to the canonical form of its value -/
def canonV2 (rw : RW) (vals : List FVal) : List FVal :=
  rw.fields.foldl (fun a f => setAt a f.index (canonF f (valAt vals f.index))) (zeroVals rw)

/-- … in version 1: base fields only, extension fields stay at their zero value -/
def canonV1 (rw : RW) (vals : List FVal) : List FVal :=
  (rw.fields.filter (fun f => !f.isExt)).foldl (fun a f => setAt a f.index (canonF f (valAt vals f.index))) (zeroVals rw)

/-- **C04 (round trip, version 2).** For every layout and every well-typed value assignment: the encoder succeeds, and decoding
    what it produced — trailing zeros stripped — returns the canonical form (numbers reduced to their wire width, floats being
    bit patterns untouched, strings cut at the declared length or the first NUL). -/
theorem roundtrip_v2 (rw : RW) (hok : RWok rw) (vals : List FVal) (hw : WellTyped rw vals) :
    ∃ p, encode rw true vals = .ok p ∧ decode rw true p = .ok (canonV2 rw vals) := by
  have hfl : (rw.fields.filter (fun f => true || !f.isExt)) = rw.fields := by simp
  have hlen := flatMap_len vals rw.fields hw
  refine ⟨removeEmptyBytes (rw.fields.flatMap (fun f => encField f (valAt vals f.index))), ?_, ?_⟩
  · simp only [encode, if_true, hfl]
    rw [if_pos (by rw [hlen, hok.ext])]
  · rw [stripped_decodes_alike rw hok, decode_v2_eq]
    have hp : padded rw (rw.fields.flatMap (fun f => encField f (valAt vals f.index))) =
        rw.fields.flatMap (fun f => encField f (valAt vals f.index)) := by
      unfold padded; rw [if_neg (by rw [hlen, hok.ext]; omega)]
    rw [hp]
    have := decFields_encode vals rw.fields [] (zeroVals rw) hw
    rw [List.append_nil] at this
    rw [this]; rfl

/-- version 1 needs only the BASE fields to be well-typed: the extension fields are not sent -/
theorem roundtrip_v1_base (rw : RW) (hok : RWok rw) (vals : List FVal)
    (hw' : ∀ f ∈ rw.fields.filter (fun f => !f.isExt), wellTyped f (valAt vals f.index) = true) :
    ∃ p, encode rw false vals = .ok p ∧ p.length = rw.sizeNormal.toNat ∧ decode rw false p = .ok (canonV1 rw vals) := by
  have hfl : (rw.fields.filter (fun f => false || !f.isExt)) = rw.fields.filter (fun f => !f.isExt) := by simp
  have hlen := flatMap_len vals _ hw'
  refine ⟨(rw.fields.filter (fun f => !f.isExt)).flatMap (fun f => encField f (valAt vals f.index)), ?_, by rw [hlen, hok.base], ?_⟩
  · simp only [encode, Bool.false_eq_true, if_false, hfl]
    rw [if_pos (by rw [hlen, hok.base])]
  · simp only [decode, Bool.false_eq_true, if_false]
    rw [if_neg (by rw [hlen, hok.base]; simp)]
    have := decFields_encode vals (rw.fields.filter (fun f => !f.isExt)) [] (zeroVals rw) hw'
    rw [List.append_nil] at this
    rw [this]; rfl

/-- **C04 (round trip, version 1).** Extension fields are not sent and come back as zero. -/
theorem roundtrip_v1 (rw : RW) (hok : RWok rw) (vals : List FVal) (hw : WellTyped rw vals) :
    ∃ p, encode rw false vals = .ok p ∧ p.length = rw.sizeNormal.toNat ∧ decode rw false p = .ok (canonV1 rw vals) :=
  roundtrip_v1_base rw hok vals (fun f hf => hw f (List.mem_filter.mp hf).1)


/-- the canonical form is a fixed point: re-encoding what was decoded gives the same bytes (floats bit for bit) -/
theorem canon_idempotent_num (f : DField) (xs : List UInt64) (h : xs.length = nElems f) :
    canonF f (canonF f (.num xs)) = canonF f (.num xs) := by
  have hm : ∀ x, maskW (width f) (maskW (width f) x) = maskW (width f) x := by
    intro x
    unfold maskW
    split
    · apply UInt64.toBitVec_inj.mp; simp [BitVec.and_assoc]
    · split
      · apply UInt64.toBitVec_inj.mp; simp [BitVec.and_assoc]
      · split
        · apply UInt64.toBitVec_inj.mp; simp [BitVec.and_assoc]
        · rfl
  have htake : xs.take (nElems f) = xs := by rw [← h]; exact List.take_length
  simp only [canonF, htake, FVal.num.injEq]
  have hl : (xs.map (maskW (width f))).take (nElems f) = xs.map (maskW (width f)) := by
    rw [← h]; exact List.take_of_length_le (by simp)
  rw [hl, List.map_map]
  apply List.map_congr_left
  intro x _; exact hm x

/-- non-vacuity: a two-field layout (uint16 then a 3-byte string), values with bits above the width and an over-long string -/
def demoRW : RW :=
  { fields := [{ isEnum := false, ftype := .uint16, name := "a", arrayLength := 0, isArray := false, index := 1, isExt := false, goIsArray := false, goArrLen := 0 },
               { isEnum := false, ftype := .char, name := "s", arrayLength := 3, isArray := true, index := 0, isExt := false, goIsArray := false, goArrLen := 0 }],
    sizeNormal := 5, sizeExtended := 5, crcExtra := 0, nfields := 2 }

example : RWok demoRW := rwOk_of_bool _ (by decide)

/-- **C04 (the theorems apply to every struct `Initialize` accepts).** Whatever struct the model of `Initialize` accepts, its
    layout satisfies `RWok`; so decoding any payload never panics and encoding any well-typed value succeeds and decodes to its
    canonical form, in both versions — no struct fails at first use. -/
theorem accepted_struct_usable (st : GoStruct) (rw : RW) (h : Msg.init st = .ok rw) :
    RWok rw ∧ (∀ isV2 payload, decode rw isV2 payload ≠ .panic) ∧
    (∀ vals, WellTyped rw vals → ∃ p, encode rw true vals = .ok p ∧ decode rw true p = .ok (canonV2 rw vals)) ∧
    (∀ vals, WellTyped rw vals → ∃ p, encode rw false vals = .ok p ∧ p.length = rw.sizeNormal.toNat ∧
      decode rw false p = .ok (canonV1 rw vals)) := by
  have hok := rwOk_of_bool rw (InitSound.accepted_never_wraps st rw h)
  exact ⟨hok, fun isV2 payload => decode_never_panics rw hok isV2 payload, fun vals hw => roundtrip_v2 rw hok vals hw,
    fun vals hw => roundtrip_v1 rw hok vals hw⟩

/-- **C04 (the theorems apply to every shipped message type).** For each of the 408 message structs of the 19 shipped dialects
    (regenerated from the source on every run), the layout `Initialize` computes satisfies the hypothesis `RWok`. -/
theorem shipped_layouts_ok : ∀ m ∈ Gen.allMsgs, ∃ rw, Msg.init m.2.2 = .ok rw ∧ RWok rw := by
  intro m hm
  have h := Gen.all_layout
  rw [List.all_eq_true] at h
  have := h m hm
  unfold layoutAgrees at this
  split at this
  · rename_i rw d h1 h2
    simp only [Bool.and_eq_true] at this
    exact ⟨rw, h1, rwOk_of_bool rw this.2⟩
  · cases this
example : encode demoRW true [.str [65, 66, 0, 67], .num [0x12345]] = .ok [0x45, 0x23, 65, 66] ∧
    decode demoRW true [0x45, 0x23, 65, 66] = .ok [.str [65, 66], .num [0x2345]] := by decide

end Mav.C04
