import Mav.Spec.Msg
namespace Mav.C04
theorem placeholder : True := trivial
end Mav.C04
