import Mav.Spec.AutoMsgs
/-
  C16 — automatic heartbeats and stream requests. Property theorems only.
  Model: Mav/Model/AutoMsgs.lean (decision logic of node_heartbeat.go / node_stream_request.go, constants regenerated from
  the source into Mav/Gen/Consts.lean). Spec: Mav/Spec/AutoMsgs.lean (history-based). Every theorem is for every
  configuration and every arrival history (any number of channels and senders, any interleaving with other traffic).
-/
namespace Mav.C16
open Mav.Auto Mav.Spec.Auto

/-! ### heartbeats -/

/-- **C16 (heartbeats: when, and with what).** The module runs iff heartbeats are not disabled and the dialect contains the
    standard heartbeat (id 0, CRC_EXTRA 50); what it sends carries the configured system and autopilot type, base mode 0,
    custom mode 0, MAV_STATE_ACTIVE (4) and the dialect's version. -/
theorem heartbeat_spec (c : Cfg) :
    hbExpected c = if hbEnabled c then some (heartbeat c) else none := by
  unfold hbExpected hbEnabled heartbeat
  simp only [Gen.heartbeatID, Gen.heartbeatCRC]
  cases c.heartbeatDisable <;> cases c.hasDialect <;> simp

theorem no_heartbeat_when_disabled (c : Cfg) (h : c.heartbeatDisable = true) : hbEnabled c = false := by
  simp [hbEnabled, h]

theorem no_heartbeat_without_standard_message (c : Cfg) (h : c.crcOf 0 ≠ some 50) : hbEnabled c = false := by
  simp only [hbEnabled, Gen.heartbeatID, Gen.heartbeatCRC, Bool.and_eq_false_imp, Bool.and_eq_true]
  intro _
  simpa using h

/-- `Node.Initialize` defaults: system type 6 (GCS), request rate 4 -/
theorem defaults_spec : defaults 0 0 = (6, 4) ∧ ∀ s f, s ≠ 0 → f ≠ 0 → defaults s f = (s, f) := by
  refine ⟨rfl, fun s f hs hf => by simp [defaults, hs, hf]⟩

/-! ### stream requests -/

/-- **C16 (exactly the seven standard requests).** What a triggering heartbeat produces: streams 1,2,3,6,10,11,12, at the
    configured rate, start = 1, addressed to the sender, on the sender's channel, followed by one stream-requested event. -/
theorem requests_are_the_seven (freq : Nat) (k : Key) : requestsFor freq k = sevenRequests freq k := rfl

theorem seven (freq : Nat) (k : Key) :
    ((requestsFor freq k).filter (fun o => match o with | .req _ => true | _ => false)).length = 7 ∧
    ((requestsFor freq k).filter (fun o => match o with | .requested _ => true | _ => false)) = [.requested k] := by
  constructor <;> rfl

theorem requests_addressed_to_sender (freq : Nat) (k : Key) (r : Request) (h : Out.req r ∈ requestsFor freq k) :
    r.ch = k.ch ∧ r.targetSystem = k.sys ∧ r.targetComponent = k.comp ∧ r.reqMessageRate = freq ∧ r.startStop = 1 := by
  simp [requestsFor, Gen.requestedStreams] at h
  rcases h with h | h | h | h | h | h | h <;> subst h <;> simp

theorem get_set_same (l : Last) (k : Key) (t : Nat) : (l.set k t).get k = some t := by simp [Last.set, Last.get]
theorem get_set_other (l : Last) (k k' : Key) (t : Nat) (h : k' ≠ k) : (l.set k t).get k' = l.get k' := by
  simp [Last.set, Last.get, h]

/-- the table agrees with the history: for every sender, the time of its last triggering heartbeat — or nothing, when the
    entry was cleaned up after it had become irrelevant (older than 30 s at a time not later than `clock`) -/
def Agree (last : Last) (older : List Arrival) (clock : Nat) : Prop :=
  ∀ k, last.get k = lastTrigger k older ∨
       (last.get k = none ∧ ∃ t, lastTrigger k older = some t ∧ clock - t ≥ 30000000000)

theorem onEventFrame_spec (freq : Nat) (last : Last) (older : List Arrival) (clock : Nat) (a : Arrival)
    (hag : Agree last older clock) (hclk : clock ≤ a.t) :
    (onEventFrame freq last a).2 = (if triggers older a then sevenRequests freq a.key else []) ∧
    Agree (onEventFrame freq last a).1 (a :: older) a.t := by
  have hmono : ∀ k, (last.get k = none ∧ ∃ t, lastTrigger k older = some t ∧ clock - t ≥ 30000000000) →
      (last.get k = none ∧ ∃ t, lastTrigger k older = some t ∧ a.t - t ≥ 30000000000) := by
    intro k ⟨h1, t, h2, h3⟩; exact ⟨h1, t, h2, by omega⟩
  by_cases hq : qualifies a = true
  · have hq' : ¬ (a.msgId ≠ 0 ∨ a.autopilot ≠ 3) := by
      simp [qualifies] at hq; omega
    -- does the table say "fresh"? the same as the history says
    have hfresh : (match last.get a.key with | none => true | some t0 => decide (a.t - t0 ≥ Gen.streamRequestPeriodNs)) =
        fresh (lastTrigger a.key older) a.t := by
      rcases hag a.key with h | ⟨h1, t, h2, h3⟩
      · rw [h]; cases lastTrigger a.key older <;> simp [fresh, Gen.streamRequestPeriodNs]
      · rw [h1, h2]; simp [fresh]; omega
    by_cases hf : fresh (lastTrigger a.key older) a.t = true
    · -- triggers
      have hout : onEventFrame freq last a = (last.set a.key a.t, requestsFor freq a.key) := by
        unfold onEventFrame
        rw [if_neg hq']
        cases hg : last.get a.key with
        | none => rfl
        | some t0 =>
          rw [hg] at hfresh
          simp only [hf, decide_eq_true_eq] at hfresh
          simp [hfresh]
      rw [hout]
      refine ⟨by simp [triggers, hq, hf, requests_are_the_seven], ?_⟩
      intro k
      by_cases hk : k = a.key
      · subst hk; left
        simp [get_set_same, lastTrigger, hq, hf]
      · rw [get_set_other _ _ _ _ hk]
        have hne : ¬ a.key = k := fun h => hk h.symm
        have : lastTrigger k (a :: older) = lastTrigger k older := by
          simp [lastTrigger, hne]
        rw [this]
        rcases hag k with h | h
        · exact Or.inl h
        · exact Or.inr (hmono k h)
    · -- too recent
      have hf' : fresh (lastTrigger a.key older) a.t = false := by simpa using hf
      have hout : onEventFrame freq last a = (last, []) := by
        unfold onEventFrame
        rw [if_neg hq']
        cases hg : last.get a.key with
        | none => rw [hg] at hfresh; simp [hf'] at hfresh
        | some t0 =>
          rw [hg] at hfresh
          simp only [hf', decide_eq_false_iff_not] at hfresh
          simp [hfresh]
      rw [hout]
      refine ⟨by simp [triggers, hq, hf'], ?_⟩
      intro k
      have : lastTrigger k (a :: older) = lastTrigger k older := by
        by_cases hk : a.key = k
        · subst hk; simp [lastTrigger, hf']
        · simp [lastTrigger, hk]
      rw [this]
      rcases hag k with h | h
      · exact Or.inl h
      · exact Or.inr (hmono k h)
  · -- not an ArduPilot heartbeat: nothing happens
    have hq' : (a.msgId ≠ 0 ∨ a.autopilot ≠ 3) := by
      simp [qualifies] at hq; omega
    have hout : onEventFrame freq last a = (last, []) := by simp [onEventFrame, hq']
    rw [hout]
    have hqf : qualifies a = false := by simpa using hq
    refine ⟨by simp [triggers, hqf], ?_⟩
    intro k
    have : lastTrigger k (a :: older) = lastTrigger k older := by simp [lastTrigger, hqf]
    rw [this]
    rcases hag k with h | h
    · exact Or.inl h
    · exact Or.inr (hmono k h)

theorem cleanup_agree (last : Last) (older : List Arrival) (clock now : Nat) (hag : Agree last older clock) (h : clock ≤ now) :
    Agree (cleanup now last) older now := by
  intro k
  rcases hag k with hk | ⟨h1, t, h2, h3⟩
  · simp only [cleanup, Last.get] at hk ⊢
    cases hl : last k with
    | none => left; rw [← hk, hl]
    | some t =>
      by_cases hold : now - t ≥ Gen.streamRequestPeriodNs
      · right
        refine ⟨by simp [hold], t, by rw [← hk, hl], ?_⟩
        simpa [Gen.streamRequestPeriodNs] using hold
      · left; simp [hold]; rw [← hk, hl]
  · right
    simp only [cleanup, Last.get] at h1 ⊢
    exact ⟨by simp [h1], t, h2, by omega⟩

/-- times of a history never decrease (monotonic clock), starting from `clock` -/
def Sorted : Nat → List Input → Prop
  | _, [] => True
  | clock, i :: rest => clock ≤ i.time ∧ Sorted i.time rest

def arrivalsOf : List Input → List Arrival
  | [] => []
  | .arrival a :: rest => a :: arrivalsOf rest
  | .cleanup _ :: rest => arrivalsOf rest

def outputsAtArrivals : List Input → List (List Out) → List (List Out)
  | .arrival _ :: is, o :: os => o :: outputsAtArrivals is os
  | .cleanup _ :: is, _ :: os => outputsAtArrivals is os
  | _, _ => []

/-- **C16 (first heartbeat of each ArduPilot sender triggers the requests, not repeated within 30 s; everything else triggers
    nothing) — for every history.** Whatever heartbeats and other messages arrive, from however many (channel, system,
    component) senders, interleaved in any way, and whenever the periodic cleanup runs: the requests and events produced at
    each arrival are exactly those the history-based specification prescribes. In particular the cleanup is invisible. -/
theorem stream_requests_spec (freq : Nat) (inputs : List Input) (last : Last) (older : List Arrival) (clock : Nat)
    (hag : Agree last older clock) (hs : Sorted clock inputs) :
    outputsAtArrivals inputs (run freq last inputs) = specRun freq older (arrivalsOf inputs) := by
  induction inputs generalizing last older clock with
  | nil => simp [run, outputsAtArrivals, arrivalsOf, specRun]
  | cons i rest ih =>
    cases i with
    | arrival a =>
      obtain ⟨h1, h2⟩ := onEventFrame_spec freq last older clock a hag hs.1
      simp only [run, step, outputsAtArrivals, arrivalsOf, specRun, h1]
      congr 1
      exact ih _ _ a.t h2 hs.2
    | cleanup now =>
      simp only [run, step, outputsAtArrivals, arrivalsOf]
      exact ih _ _ now (cleanup_agree last older clock now hag hs.1) hs.2

/-- from the initial state -/
theorem stream_requests_spec_init (freq : Nat) (inputs : List Input) (hs : Sorted 0 inputs) :
    outputsAtArrivals inputs (run freq Last.empty inputs) = specRun freq [] (arrivalsOf inputs) :=
  stream_requests_spec freq inputs Last.empty [] 0 (fun k => Or.inl rfl) hs

/-- **C16 (other autopilots and other messages trigger nothing).** -/
theorem others_trigger_nothing (freq : Nat) (last : Last) (a : Arrival) (h : a.msgId ≠ 0 ∨ a.autopilot ≠ 3) :
    onEventFrame freq last a = (last, []) := by simp [onEventFrame, h]

/-- **C16 (not repeated within 30 seconds, repeated after).** -/
theorem second_heartbeat (freq : Nat) (k : Key) (t1 t2 : Nat) (h : t1 ≤ t2) :
    let a1 : Arrival := ⟨t1, k, 0, 3⟩
    let a2 : Arrival := ⟨t2, k, 0, 3⟩
    specRun freq [] [a1, a2] = [sevenRequests freq k, if t2 - t1 ≥ 30000000000 then sevenRequests freq k else []] := by
  simp [specRun, triggers, qualifies, lastTrigger, fresh]

/-- the module is enabled only with both standard messages in the dialect -/
theorem sr_enabled_iff (c : Cfg) : srEnabled c = true ↔
    c.streamRequestEnable = true ∧ c.hasDialect = true ∧ c.crcOf 0 = some 50 ∧ c.crcOf 66 = some 148 := by
  simp [srEnabled, Gen.heartbeatID, Gen.heartbeatCRC, Gen.requestDataStreamID, Gen.requestDataStreamCRC, and_assoc]

/-- the reflection-set fields, as they stand in the source (regenerated on every run) -/
theorem heartbeat_fields_in_source : Gen.heartbeatFields =
    [("Type", "uint64(h.node.HeartbeatSystemType)"), ("Autopilot", "uint64(h.node.HeartbeatAutopilotType)"),
     ("BaseMode", "0"), ("CustomMode", "0"), ("SystemStatus", "4"),
     ("MavlinkVersion", "uint64(h.node.Dialect.Version)")] := by decide

theorem request_fields_in_source : Gen.streamRequestFields =
    [("TargetSystem", "uint64(evt.SystemID())"), ("TargetComponent", "uint64(evt.ComponentID())"),
     ("ReqStreamId", "uint64(stream)"), ("ReqMessageRate", "uint64(sr.node.StreamRequestFrequency)"),
     ("StartStop", "uint64(1)")] := by decide

/-- non-vacuity: two senders on two channels, one of them twice, a generic autopilot in between, a cleanup in the middle -/
example : outputsAtArrivals
    [.arrival ⟨5, ⟨0, 3, 1⟩, 0, 3⟩, .arrival ⟨6, ⟨0, 3, 1⟩, 0, 3⟩, .cleanup 7, .arrival ⟨8, ⟨1, 3, 1⟩, 0, 3⟩, .arrival ⟨9, ⟨1, 4, 1⟩, 0, 8⟩]
    (run 4 Last.empty [.arrival ⟨5, ⟨0, 3, 1⟩, 0, 3⟩, .arrival ⟨6, ⟨0, 3, 1⟩, 0, 3⟩, .cleanup 7, .arrival ⟨8, ⟨1, 3, 1⟩, 0, 3⟩, .arrival ⟨9, ⟨1, 4, 1⟩, 0, 8⟩])
    = [sevenRequests 4 ⟨0, 3, 1⟩, [], sevenRequests 4 ⟨1, 3, 1⟩, []] := by decide

end Mav.C16
