import Mav.Proofs.Progress
import Mav.Proofs.Inversion
import Mav.Props.C01
/-
  C05 — the frame reader is total, makes progress and resynchronises. Property theorems only.
  The model is the *flat* semantics (bytes and positioned one-shot transport errors; end of list = EOF).
  Independence of the chunking is carried by TIE-D (every stream is read under several chunkings by the
  real bufio-based reader and compared with this flat model) — see DESIGN.md, C05 `partial`.
-/
namespace Mav.C05
open Mav Spec

/-- **C05 (totality).** `readOne` is a total function whose result is a frame, a non-fatal parse error or the
    transport's own error; the `panic` outcome only arises from the dialect gate (excluded by C04 `decode_total`
    for consistent codecs). Without a dialect it never arises. -/
theorem no_panic_without_dialect (cfg : RCfg) (hd : cfg.dialect = none) (st : RState) (s : Stream) :
    (readOne cfg st s).1 ≠ .panic := by
  unfold readOne
  split
  · simp
  · split
    · split
      · simp
      · split
        · simp
        · simp [dialectGate, hd]
    · split
      · split
        · simp
        · split
          · simp
          · simp [dialectGate, hd]
      · simp

/-- **C05 (progress).** A call either finds the stream empty (and reports EOF, consuming nothing) or consumes
    at least one item — a byte, or the transport error it reports. -/
theorem progress (cfg : RCfg) (st : RState) (s : Stream) :
    (s = [] ∧ readOne cfg st s = (.terr .eof, [], st)) ∨ (readOne cfg st s).2.1.length < s.length :=
  readOne_progress cfg st s

/-- **C05 (bounded calls).** A stream of n items is exhausted in at most n+1 calls: with fuel n+1 `readAll`
    ends with the EOF report (it is never cut off by the fuel). -/
theorem readAll_terminates (cfg : RCfg) (st : RState) (s : Stream) (fuel : Nat) (h : s.length < fuel) :
    (readAll cfg fuel st s).getLast? = some (.terr .eof) ∧ (readAll cfg fuel st s).length ≤ s.length + 1 := by
  induction fuel generalizing st s with
  | zero => omega
  | succ n ih =>
    rcases readOne_progress cfg st s with ⟨hs, he⟩ | hlt
    · subst hs
      simp [readAll, he]
    · unfold readAll
      split
      · simp
      · rename_i r s' st' hne heq
        rw [heq] at hlt
        simp at hlt
        have := ih st' s' (by omega)
        constructor
        · rw [List.getLast?_cons]
          cases hl : (readAll cfg n st' s').getLast? with
          | none => simp [hl] at this
          | some x => simp [hl] at this ⊢; exact this.1
        · simp; omega

/-- **C05 (frames correspond to consumed bytes).** Without key and dialect, whenever a call returns a frame, the frame is
    well-formed and the items consumed by that call are exactly the frame's spec bytes — nothing more, nothing less;
    the reader state is untouched. (Converse of `C01.read_marshal`.) -/
theorem frame_matches_consumed (H : Bytes → Bytes) (st st' : RState) (s rest : Stream) (f : Frame)
    (h : readOne (C01.plainCfg H) st s = (.frame f, rest, st')) :
    WF f ∧ s = bytesToItems (specBytes f) ++ rest ∧ st' = st := by
  unfold readOne readByte at h
  cases s with
  | nil => simp at h
  | cons x r =>
    cases x with
    | e k => simp at h
    | b m =>
      simp only at h
      split at h
      · rename_i hm
        split at h
        · simp at h
        · rename_i g s1 hu
          obtain ⟨hwf, hs⟩ := unmarshalV1_ok _ _ _ hu
          simp [sigGate, C01.plainCfg, dialectGate] at h
          obtain ⟨hf, hr, hst⟩ := h
          subst hf hr hst
          refine ⟨hwf, ?_, rfl⟩
          rw [hs]
          have : specBytes (.v1 g) = m :: (specBytes (.v1 g)).drop 1 := by
            obtain ⟨seq, sys, comp, msg, crc⟩ := g
            cases msg with
            | raw id p => simp [specBytes, v1Bytes, hm, Gen.v1MagicByte]
            | dec id v => simp [WF, wfb] at hwf
          rw [this]; simp
      · split at h
        · rename_i hm1 hm
          split at h
          · simp at h
          · rename_i g s1 hu
            obtain ⟨hwf, hs⟩ := unmarshalV2_ok _ _ _ hu
            simp [sigGate, C01.plainCfg, dialectGate] at h
            obtain ⟨hf, hr, hst⟩ := h
            subst hf hr hst
            refine ⟨hwf, ?_, rfl⟩
            rw [hs]
            have : specBytes (.v2 g) = m :: (specBytes (.v2 g)).drop 1 := by
              obtain ⟨ic, c, seq, sys, comp, msg, crc, link, ts, sig⟩ := g
              cases msg with
              | raw id p => simp [specBytes, v2Bytes, hm, Gen.v2MagicByte]
              | dec id v => simp [WF, wfb] at hwf
            rw [this]; simp
        · simp at h

/-- **C05 (valid streams yield every frame).** A stream made of well-formed frames, each preceded by junk bytes that are
    not frame markers, yields — in order — one `badMagic` parse error per junk byte and then the frame, for every frame,
    and finally EOF. Unbounded in the number of frames and in the amount of junk. -/
def junkErrs (j : Bytes) : List RRes := j.map (fun b => RRes.perr (.badMagic b))

def mkStream : List (Bytes × Frame) → Bytes
  | [] => []
  | (j, f) :: r => j ++ specBytes f ++ mkStream r

def expected : List (Bytes × Frame) → List RRes
  | [] => [.terr .eof]
  | (j, f) :: r => junkErrs j ++ [.frame f] ++ expected r

theorem readAll_junk (H : Bytes → Bytes) (j : Bytes) (hj : ∀ b ∈ j, b ≠ Gen.v1MagicByte ∧ b ≠ Gen.v2MagicByte)
    (rest : Stream) (st : RState) (fuel : Nat) :
    readAll (C01.plainCfg H) (j.length + fuel) st (bytesToItems j ++ rest) =
      junkErrs j ++ readAll (C01.plainCfg H) fuel st rest := by
  induction j with
  | nil => simp [junkErrs]
  | cons b r ih =>
    have hb := hj b (by simp)
    have hr : ∀ x ∈ r, x ≠ Gen.v1MagicByte ∧ x ≠ Gen.v2MagicByte := fun x hx => hj x (by simp [hx])
    have : (b :: r).length + fuel = (r.length + fuel) + 1 := by simp; omega
    rw [this]
    simp only [bytesToItems_cons, List.cons_append, readAll, readOne, readByte, hb.1, hb.2, if_false]
    simp [junkErrs] at ih ⊢
    exact ih hr

theorem resync (H : Bytes → Bytes) (l : List (Bytes × Frame))
    (hl : ∀ jf ∈ l, WF jf.2 ∧ ∀ b ∈ jf.1, b ≠ Gen.v1MagicByte ∧ b ≠ Gen.v2MagicByte) (st : RState)
    (fuel : Nat) (hfuel : (mkStream l).length < fuel) :
    readAll (C01.plainCfg H) fuel st (bytesToItems (mkStream l)) = expected l := by
  induction l generalizing fuel with
  | nil =>
    cases fuel with
    | zero => omega
    | succ n => simp [mkStream, expected, readAll, readOne, readByte]
  | cons jf r ih =>
    obtain ⟨j, f⟩ := jf
    have h0 := hl (j, f) (by simp)
    have hr : ∀ x ∈ r, WF x.2 ∧ ∀ b ∈ x.1, b ≠ Gen.v1MagicByte ∧ b ≠ Gen.v2MagicByte :=
      fun x hx => hl x (List.mem_cons_of_mem _ hx)
    have hpos : 1 ≤ (specBytes f).length := by
      have hw := h0.1
      cases f with
      | v1 g => cases hm : g.msg <;> simp [specBytes, v1Bytes, hm, WF, wfb] at hw ⊢
      | v2 g => cases hm : g.msg <;> simp [specBytes, v2Bytes, hm, WF, wfb] at hw ⊢
    simp only [mkStream, List.length_append] at hfuel
    obtain ⟨fuel2, hf2⟩ : ∃ k, fuel = j.length + (k + 1) := ⟨fuel - j.length - 1, by omega⟩
    subst hf2
    simp only [mkStream, bytesToItems_append, List.append_assoc]
    rw [readAll_junk H j h0.2]
    simp only [expected, List.append_assoc]
    congr 1
    rw [readAll, C01.read_marshal H f h0.1]
    simp only [List.singleton_append, List.cons.injEq, true_and]
    exact ih hr fuel2 (by omega)

end Mav.C05
