import Mav.Proofs.Progress
/-
  C05 — the frame reader is total, makes progress and resynchronises. Property theorems only.
  The model is the *flat* semantics (bytes and positioned one-shot transport errors; end of list = EOF).
  Independence of the chunking is carried by TIE-D (every stream is read under several chunkings by the
  real bufio-based reader and compared with this flat model) — see DESIGN.md, C05 `partial`.
-/
namespace Mav.C05
open Mav

/-- **C05 (totality).** `readOne` is a total function whose result is a frame, a non-fatal parse error or the
    transport's own error; the `panic` outcome only arises from the dialect gate (excluded by C04 `decode_total`
    for consistent codecs). Without a dialect it never arises. -/
theorem no_panic_without_dialect (cfg : RCfg) (hd : cfg.dialect = none) (st : RState) (s : Stream) :
    (readOne cfg st s).1 ≠ .panic := by
  unfold readOne
  split
  · simp
  · split
    · split
      · simp
      · split
        · simp
        · simp [dialectGate, hd]
    · split
      · split
        · simp
        · split
          · simp
          · simp [dialectGate, hd]
      · simp

/-- **C05 (progress).** A call either finds the stream empty (and reports EOF, consuming nothing) or consumes
    at least one item — a byte, or the transport error it reports. -/
theorem progress (cfg : RCfg) (st : RState) (s : Stream) :
    (s = [] ∧ readOne cfg st s = (.terr .eof, [], st)) ∨ (readOne cfg st s).2.1.length < s.length :=
  readOne_progress cfg st s

/-- **C05 (bounded calls).** A stream of n items is exhausted in at most n+1 calls: with fuel n+1 `readAll`
    ends with the EOF report (it is never cut off by the fuel). -/
theorem readAll_terminates (cfg : RCfg) (st : RState) (s : Stream) (fuel : Nat) (h : s.length < fuel) :
    (readAll cfg fuel st s).getLast? = some (.terr .eof) ∧ (readAll cfg fuel st s).length ≤ s.length + 1 := by
  induction fuel generalizing st s with
  | zero => omega
  | succ n ih =>
    rcases readOne_progress cfg st s with ⟨hs, he⟩ | hlt
    · subst hs
      simp [readAll, he]
    · unfold readAll
      split
      · simp
      · rename_i r s' st' hne heq
        rw [heq] at hlt
        simp at hlt
        have := ih st' s' (by omega)
        constructor
        · rw [List.getLast?_cons]
          cases hl : (readAll cfg n st' s').getLast? with
          | none => simp [hl] at this
          | some x => simp [hl] at this ⊢; exact this.1
        · simp; omega

end Mav.C05
