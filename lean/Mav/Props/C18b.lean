import Mav.Proofs.GenLink
import Mav.Proofs.GenValues
import Mav.Proofs.GenVersion
import Mav.Props.C03
import Mav.Proofs.GenFile
/-
  C18 — the generated code has the layout the MAVLink guide assigns to the XML definition: end-to-end theorem for messages.
  Property theorems only; the chain is in Mav/Proofs/GenLink.lean (generator model on rendered definitions), Mav/Proofs/InitSound.lean
  (the run-time accepts every definition) and Mav/Proofs/LayoutLink.lean (C03, for every struct).
-/
namespace Mav.C18
open Mav Msg Gen18 GenLink

theorem firstUpperB_of (s : String) (h : LayoutLink.firstUpper s) : C03.firstUpperB s = true := by
  obtain ⟨c, r, hs, hc⟩ := h
  unfold C03.firstUpperB
  rw [hs]; exact hc

/-- **C18 (messages, end to end).** Take any valid message definition — a name by the MAVLink rule, any number of fields of any
    schema type, scalar or array (1..255), `char[n]` strings, the `uint8_t_mavlink_version` alias, enum-typed fields of an integer
    type, field names of any shape that begin with a letter (snake case or not), extension fields after the base fields, at
    most 255 bytes. Render it to the texts of the XML (`AMsg.toX`: type attribute `base[n]` with n in decimal). Then the model
    of the generator produces a Go struct; the model of the run-time's `Initialize` accepts that struct; and the field order,
    base size, extended size and CRC_EXTRA it computes are those the serialization guide assigns to the definition itself
    (`m.sdef`, built from the abstract definition without any parsing). -/
theorem generated_message_has_the_spec_layout (m : AMsg) (ok : AMsgOk m) :
    ∃ st rw, processMessage m.toX = some st ∧ Msg.init st = .ok rw ∧
      rw.fields.map (·.index) = (Spec.Msg.wireOrder m.sdef).map (·.idx) ∧
      rw.sizeNormal.toNat = Spec.Msg.sizeBase m.sdef ∧ rw.sizeExtended.toNat = Spec.Msg.sizeExt m.sdef ∧
      rw.crcExtra.toNat = Spec.Msg.crcExtra m.sdef := by
  obtain ⟨st, hp, hd, hn, hf⟩ := generated_struct_is_the_definition m ok
  obtain ⟨rw, hi⟩ := InitSound.definition_is_accepted st m.sdef hd
  have hx : C03.exportedB st = true := by
    unfold C03.exportedB
    rw [hn, suffix_ok, hf]
    obtain ⟨c, r, hs, hc⟩ := msgNameRule_letter m.name ok.name
    simp only [firstUpperB_of _ (defToGo_firstUpper m.name c r hs hc), Bool.true_and, List.all_eq_true, List.mem_map]
    rintro g ⟨f, hfm, rfl⟩
    obtain ⟨c', r', hs', hc'⟩ := (ok.fields f hfm).name
    have : (genField f).goName = defToGo f.name := by simp only [genField, mkField, AField.toX]
    rw [this, firstUpperB_of _ (defToGo_firstUpper f.name c' r' hs' hc')]
    simp
  exact ⟨st, rw, hp, hi, C03.layout_universal st rw m.sdef hi hd hx⟩

/-- the theorem is not vacuous: HEARTBEAT, written as an abstract definition, is valid; and its CRC_EXTRA, computed from that
    definition alone, is the published 50 -/
def heartbeatDef : AMsg := { id := 0, name := "HEARTBEAT", fields := [
  { base := .uint8, arr := none, name := "type", enum := "MAV_TYPE" },
  { base := .uint8, arr := none, name := "autopilot", enum := "MAV_AUTOPILOT" },
  { base := .uint8, arr := none, name := "base_mode", enum := "MAV_MODE_FLAG" },
  { base := .uint32, arr := none, name := "custom_mode" },
  { base := .uint8, arr := none, name := "system_status", enum := "MAV_STATE" },
  { base := .version, arr := none, name := "mavlink_version" }] }

example : Spec.Msg.crcExtra heartbeatDef.sdef = 50 := by set_option maxRecDepth 100000 in decide +kernel

example : AMsgOk heartbeatDef where
  name := by decide
  fields := by
    intro f hf
    simp only [heartbeatDef, List.mem_cons, List.not_mem_nil, or_false] at hf
    rcases hf with rfl | rfl | rfl | rfl | rfl | rfl <;>
      exact AFieldOk.mk (by intro n h; cases h) (by decide) (nameLetter_of_B _ (by decide))
  extLast := by decide
  fits := by decide

/-- **C18 (decimal enum values, leading zeros included).** A `value` attribute made of decimal digits — the schema's `\d{1,10}`,
    so "010" is ten — is read by the generator model as the decimal number it denotes, for every value below 2^64 and any number
    of leading zeros. (`power_value` covers `a**b`; hexadecimal and binary texts are compared on every run.) -/
theorem decimal_enum_value (k n : Nat) (hn : n < 2 ^ 64) :
    parseValue (String.ofList (List.replicate k '0' ++ EnumText.natToDec n)) = some n :=
  GenValues.decimal_value k n hn

/-- **C18 (hexadecimal enum values).** `0x` followed by hexadecimal digits in either case: the number they denote in base sixteen
    (`GenValues.valB 16`), below 2^64. -/
theorem hex_enum_value (ds : List (Nat × Bool)) (hne : ds ≠ []) (h : ∀ d ∈ ds, d.1 < 16)
    (hv : GenValues.valB 16 (ds.map (·.1)) 0 < 2 ^ 64) :
    parseValue (String.ofList ('0' :: 'x' :: ds.map GenValues.hexChar)) = some (GenValues.valB 16 (ds.map (·.1)) 0) :=
  GenValues.hex_value ds hne h hv

/-- **C18 (binary enum values).** -/
theorem binary_enum_value (ds : List Nat) (hne : ds ≠ []) (h : ∀ d ∈ ds, d < 2) (hv : GenValues.valB 2 ds 0 < 2 ^ 64) :
    parseValue (String.ofList ('0' :: 'b' :: ds.map EnumText.digitChar)) = some (GenValues.valB 2 ds 0) :=
  GenValues.binary_value ds hne h hv

/-- **C18 (a definition the generator cannot express is an error).** A decimal value that does not fit the 64-bit constant makes
    the conversion fail; it is never wrapped into another number. -/
theorem decimal_enum_value_too_big (n : Nat) (hn : 2 ^ 64 ≤ n) :
    parseValue (String.ofList (EnumText.natToDec n)) = none := GenValues.decimal_value_too_big n hn

/-- **C18 (dialect version).** The number the generator model writes as the dialect's `Version` is the specification's: the
    <version> of the last processed file that declares one (0 when none does or the text is not a number). -/
theorem version_is_the_specs (order : List XFile) : versionNum (versionOf order) = Spec.Gen18.versionOf order :=
  GenVersion.version_eq_spec order

/-- **C18 (the dialect's own version wins).** When the dialect file declares a version — "0" included — that is the one written,
    whatever the files it includes declare. -/
theorem own_version_wins (root : XFile) (rest order : List XFile) (h : processed (root :: rest) = some order)
    (hv : root.version ≠ "") : versionOf order = root.version :=
  GenVersion.own_version_wins root rest order h hv

/-- every last name element the go tool gives a meaning to (`test`, the GOOS and GOARCH values of go/build) is in the table the
    generator consults — the table as regenerated from pkg/conversion/conversion.go on this run -/
theorem reserved_table_complete (e : List Char)
    (h : e = ['t', 'e', 's', 't'] ∨ Spec.GoTool.isOS e = true ∨ Spec.GoTool.isArch e = true) :
    Gen.reservedFileSuffixes.contains (String.ofList e) = true := by
  have all : ∀ s ∈ Spec.GoTool.knownOS ++ Spec.GoTool.knownArch ++ ["test"], Gen.reservedFileSuffixes.contains s = true := by decide
  rcases h with h | h | h
  · subst h; exact all _ (by decide)
  · unfold Spec.GoTool.isOS at h
    exact all _ (by simp only [List.mem_append]; exact Or.inl (Or.inl (List.contains_iff_mem.mp h)))
  · unfold Spec.GoTool.isArch at h
    exact all _ (by simp only [List.mem_append]; exact Or.inl (Or.inr (List.contains_iff_mem.mp h)))

/-- **C18 (the generated package compiles: file names).** Whatever the name of a message or of an enum — `SELF_TEST`, `HOST_WINDOWS`,
    `MOTOR_ARM` included — the file the generator writes it to is, for the go tool, a plain source file of the package on every
    platform: not a test file, not restricted to an operating system or an architecture (go/build's reading of file names,
    Mav/Spec/GoTool.lean). `name` is any text whose lower-case form has no dot (MAVLink names are `[A-Z][A-Z0-9_]*`). -/
theorem generated_file_is_plain_source (kind name : List Char) (hk : GenFileP.Kind kind)
    (hn : ∀ c ∈ Model.GenFile.lower name, c ≠ '.') :
    Spec.GoTool.plainSource (Model.GenFile.goFileName kind name) = true :=
  GenFileP.goFileNameWith_plain _ reserved_table_complete kind name hk hn

/-- without the table (the generator before the repair) the theorem is false: the file of SELF_TEST is a test file, the file of
    HOST_WINDOWS is compiled on one operating system only -/
example : Spec.GoTool.plainSource (Model.GenFile.goFileNameWith [] "message".toList "SELF_TEST".toList) = false := by decide
example : Spec.GoTool.plainSource (Model.GenFile.goFileNameWith [] "enum".toList "HOST_WINDOWS".toList) = false := by decide
example : GenFileP.Kind "message".toList ∧ (∀ c ∈ Model.GenFile.lower "SELF_TEST".toList, c ≠ '.') := by
  refine ⟨Or.inr (by decide), by decide⟩

end Mav.C18
