import Mav.Proofs.Writer
/-
  C06 — link signing. Property theorems only. Generic in the hash `H` (SHA-256 in the code).
-/
namespace Mav.C06
open Mav

/-- **C06 (signed bytes).** The hash input after the key is the 0xFD header, payload, checksum (LE),
    link id and 48-bit timestamp (LE) — i.e. the frame's wire bytes up to the signature. -/
theorem sigInput_spec (f : V2Frame) (p : Bytes) :
    f.sigInput p = [0xFD, UInt8.ofNat p.length, f.incompat, f.compat, f.seq, f.sys, f.comp] ++ le24 f.msg.id ++ p
      ++ le16 f.crc ++ [f.linkId] ++ le48 f.ts := by
  simp [V2Frame.sigInput, Gen.v2MagicByte, lenByte, uint24Encode, Gen.uint24Encode, le24, uint48Encode, Gen.uint48Encode, le48]

/-- **C06 (gate).** With an incoming key the signature gate accepts exactly v2 frames that carry a signature equal
    to the first 6 bytes of H(key ‖ sigInput) and are not refused by the replay window; the three refusals are
    distinct non-fatal parse errors. -/
theorem keyed_accept_iff (cfg : RCfg) (key : Bytes) (hk : cfg.key = some key) (hw : cfg.specWindow = false)
    (st : RState) (f : Frame) :
    (∃ st', sigGate cfg st f = .ok st') ↔
      ∃ g id p sg, f = .v2 g ∧ g.msg = .raw id p ∧ g.sig = some sg ∧
        sg = (cfg.H (key ++ g.sigInput p)).take 6 ∧ windowRefuse st.cur g.ts = false := by
  constructor
  · rintro ⟨st', h⟩
    cases f with
    | v1 g => simp [sigGate, hk] at h
    | v2 g =>
      cases hs : g.sig with
      | none => simp [sigGate, hk, hs] at h
      | some sg =>
        cases hm : g.msg with
        | dec id v => simp [sigGate, hk, hs, V2Frame.genSignature, hm] at h
        | raw id p =>
          simp only [sigGate, hk, hs, V2Frame.genSignature, hm, hw] at h
          refine ⟨g, id, p, sg, rfl, hm, hs, ?_, ?_⟩
          · by_cases hne : ((cfg.H (key ++ g.sigInput p)).take 6 != sg) = true
            · simp [hne] at h
            · simp at hne; exact hne.symm
          · by_cases hne : ((cfg.H (key ++ g.sigInput p)).take 6 != sg) = true
            · simp [hne] at h
            · simp [hne] at h
              by_cases hr : windowRefuse st.cur g.ts = true
              · simp [hr] at h
              · simpa using hr
  · rintro ⟨g, id, p, sg, rfl, hm, hs, hsg, hr⟩
    subst hsg
    simp [sigGate, hk, hs, V2Frame.genSignature, hm, hw, hr]

theorem v1_refused (cfg : RCfg) (key : Bytes) (hk : cfg.key = some key) (st : RState) (g : V1Frame) :
    sigGate cfg st (.v1 g) = .error .sigNotV2 := by simp [sigGate, hk]

theorem unsigned_refused (cfg : RCfg) (key : Bytes) (hk : cfg.key = some key) (st : RState) (g : V2Frame)
    (h : g.sig = none) : sigGate cfg st (.v2 g) = .error .sigMissing := by simp [sigGate, hk, h]

theorem mismatch_refused (cfg : RCfg) (key : Bytes) (hk : cfg.key = some key) (hw : cfg.specWindow = false) (st : RState) (g : V2Frame)
    (id : UInt32) (p sg : Bytes) (hm : g.msg = .raw id p) (hs : g.sig = some sg)
    (h : sg ≠ (cfg.H (key ++ g.sigInput p)).take 6) : sigGate cfg st (.v2 g) = .error .sigWrong := by
  have : ((cfg.H (key ++ g.sigInput p)).take 6 != sg) = true := by simpa [bne_iff_ne] using fun e => h e.symm
  simp [sigGate, hk, hs, V2Frame.genSignature, hm, hw, this]

/-- without a key nothing is checked -/
theorem no_key_passes (cfg : RCfg) (hk : cfg.key = none) (st : RState) (f : Frame) : sigGate cfg st f = .ok st := by
  simp [sigGate, hk]


/-- **C06 (writers sign correctly).** A stream writer configured with an outgoing key emits, for every accepted
    message of the domain, a frame with the signed flag, the link's link id, the 10 µs timestamp of the call and a
    signature equal to the first 6 bytes of H(key ‖ everything before the signature). -/
theorem writer_signs (H : Bytes → Bytes) (hH : ∀ x, 6 ≤ (H x).length) (dd : UInt32 → Option WCodec) (c : SWCfg) (hc : CfgOk c)
    (k : Bytes) (hk : c.key = some k) (st : SWState) (count : Nat) (hseq : st.nextSeq = UInt8.ofNat (count % 256))
    (t : UInt64) (ht : t.toNat < 2 ^ 48 * 10000) (id : UInt32) (p : Bytes) (hp : p.length ≤ 255) (hid : id < 0x1000000)
    (codec : WCodec) (hd : dd id = some codec) :
    ∃ crc : UInt16,
      let pre := [0xFD, UInt8.ofNat p.length, 1, 0, UInt8.ofNat (count % 256), c.sysId, c.compId] ++ le24 id ++ p ++ le16 crc
                  ++ [c.linkId] ++ le48 (UInt64.ofNat (t.toNat / 10000))
      (swWrite H (some dd) c st t (.raw id p)).2 = .ok (pre ++ (H (k ++ pre)).take 6) := by
  have hv : c.version = 2 := hc.key (by simp [hk])
  have h := (swWrite_refines H hH (some dd) c hc st count hseq t ht (.raw id p)
    (by intro dd' _; exact ⟨hp, fun _ => hid⟩)).1
  rw [h]
  have hcomp : (if c.compId = 0 then (1 : UInt8) else c.compId) = c.compId := by simp [hc.comp]
  refine ⟨UInt16.ofBitVec (Spec.crc16 ([UInt8.ofNat p.length, 1, 0, UInt8.ofNat (count % 256), c.sysId, c.compId] ++ le24 id ++ p ++ [codec.crcExtra])), ?_⟩
  simp [Spec.swWrite, hd, Msg.id, hv, hk, hcomp]

end Mav.C06
