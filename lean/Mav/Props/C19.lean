import Mav.Gen.EnumsAll
import Mav.Proofs.EnumText
/-
  C19 — enum values survive conversion to text and back. Property theorems only.
  Model: Mav/Model/EnumText.lean (generated MarshalText / UnmarshalText, strconv.Itoa / Atoi); tables: Mav/Gen/Enums_*.lean,
  regenerated from pkg/dialects/*/enum_*.go on every run (including the form of each bitmask MarshalText loop).
-/
namespace Mav.C19
open Mav EnumText

/-- **C19 (ordinary enums, every 64-bit value).** For a well-formed table, converting ANY uint64 to text and parsing it
    returns the same value: defined constants print as their name, everything else as the signed decimal of the
    64-bit pattern, which `Atoi` maps back to the same bits. -/
theorem plain_roundtrip (d : EnumDef) (hf : d.form = .plain) (hok : enumOk d = true) (v : UInt64) :
    unmarshal d (marshal d v) = some v := by
  have : tableOk d = true := by simp [enumOk, hf] at hok; exact hok
  exact EnumText.plain_roundtrip d hf this v

/-- **C19 (bitmask enums).** For a well-formed bitmask table whose MarshalText ranges over the declared values (`fix: bitmask
    enums must render every declared flag`), zero and every combination of declared flags — of any bit position and
    width — survive the round trip. -/
theorem bitmask_roundtrip (d : EnumDef) (vs : List Nat) (hf : d.form = .valueList vs) (hok : enumOk d = true)
    (S : List UInt64) (hS : ∀ s ∈ S, s ∈ masks d) : unmarshal d (marshal d (orAll S 0)) = some (orAll S 0) := by
  simp only [enumOk, hf, Bool.and_eq_true] at hok
  exact EnumText.bitmask_roundtrip d vs hf hok.2.1 hok.1 hok.2.2 S hS _ rfl

/-- zero is a combination (the empty one) -/
theorem bitmask_zero (d : EnumDef) (vs : List Nat) (hf : d.form = .valueList vs) (hok : enumOk d = true) :
    unmarshal d (marshal d 0) = some 0 := by
  have := bitmask_roundtrip d vs hf hok [] (by simp)
  simpa [orAll] using this

/-- **C19 (rejection).** Parsing fails as soon as one label is neither a known name nor a decimal int64 numeral. -/
theorem plain_rejects (d : EnumDef) (hf : d.form = .plain) (t : List Char) (h1 : valueOf d t = none) (h2 : atoi t = none) :
    unmarshal d t = none := by
  simp [unmarshal, hf, parseLabel, h1, h2]

/-- the old template (loop over bit positions below the number of values) is NOT accepted by `enumOk`:
    the regression is visible as a failed obligation, not only as a test failure -/
theorem bitLoop_not_ok (d : EnumDef) (n : Nat) (hf : d.form = .bitLoop n) : enumOk d = false := by
  simp [enumOk, hf]

/-- **C19 (every shipped enum; value side enumerated in the kernel).** For every enum type defined under pkg/dialects the
    values are distinct, fit 64 bits, and bitmask MarshalText ranges over exactly the declared values. The name side
    (`namesOk`: identifiers, distinct, no blank) is evaluated by the compiled driver on every run — see DESIGN.md C19. -/
theorem shipped_values_ok : ∀ d ∈ Gen.allEnums, valuesOk d = true := by
  have h := Gen.all_enums_ok
  rw [List.all_eq_true] at h
  exact h

/-- hence for every shipped enum whose names are well-formed, the two round-trip theorems apply -/
theorem shipped_enum_ok (d : EnumDef) (hd : d ∈ Gen.allEnums) (hn : namesOk d = true) : enumOk d = true :=
  enumOk_of_parts d (shipped_values_ok d hd) hn

/-! ### generated dialects -/

/-- the table the enum template (`pkg/conversion`, pinned) writes for an XML enum: the entries in declaration order; for a
    `bitmask="true"` enum `MarshalText` ranges over exactly those values -/
def generatedEnum (name : String) (bitmask : Bool) (entries : List (String × Nat)) : EnumDef :=
  { name := name, form := if bitmask then .valueList (entries.map (·.2)) else .plain, consts := entries }

/-- **C19 (every generated enum).** For ANY XML enum whose entry names are distinct identifiers without blanks and whose values are
    distinct and below 2^64 — flags of any width, overlapping groups of flags included — the generated table is well-formed, so
    `plain_roundtrip` (every 64-bit value) resp. `bitmask_roundtrip` (zero and every combination of declared entries) hold for
    the generated code. -/
theorem generated_enum_ok (name : String) (bitmask : Bool) (entries : List (String × Nat))
    (hnames : namesOk (generatedEnum name bitmask entries) = true)
    (hvals : entries.all (fun c => decide (c.2 < 2 ^ 64)) = true)
    (hdist : distinctBy (fun c : String × Nat => c.2) entries = true) :
    enumOk (generatedEnum name bitmask entries) = true := by
  apply enumOk_of_parts _ _ hnames
  unfold valuesOk generatedEnum
  cases bitmask <;> simp [hvals, hdist, listOk]

theorem generated_bitmask_roundtrip (name : String) (entries : List (String × Nat))
    (hnames : namesOk (generatedEnum name true entries) = true)
    (hvals : entries.all (fun c => decide (c.2 < 2 ^ 64)) = true)
    (hdist : distinctBy (fun c : String × Nat => c.2) entries = true)
    (S : List UInt64) (hS : ∀ s ∈ S, s ∈ masks (generatedEnum name true entries)) :
    unmarshal (generatedEnum name true entries) (marshal (generatedEnum name true entries) (orAll S 0)) = some (orAll S 0) :=
  bitmask_roundtrip _ (entries.map (·.2)) rfl (generated_enum_ok name true entries hnames hvals hdist) S hS

/-- overlapping groups are covered: LOW = 1, HIGH = 2, MASK = 3 — the value 3 is rendered with all three names and parses back -/
example : let d := generatedEnum "E" true [("E_LOW", 1), ("E_HIGH", 2), ("E_MASK", 3)]
    enumOk d = true ∧ marshal d 3 = "E_LOW | E_HIGH | E_MASK".toList ∧ unmarshal d (marshal d 3) = some 3 := by
  set_option maxRecDepth 100000 in decide +kernel

end Mav.C19
