import Mav.Proofs.Node2
/-
  C12 — Close terminates and releases everything. Property theorems only (safety part; see DESIGN.md for what the
  harness decides on real runs: Close returns within a bound, goroutines, ports, Close count of custom transports).
  Model: Mav/Model/Node.lean.
-/
namespace Mav.C12
open Mav Nd

/-- **C12 (the event channel is closed only after its last sender stopped).** In every reachable state in which
    `close(chEvent)` has been executed, no goroutine is inside `pushEvent` or about to be: the `evClosed = false`
    premise of the delivery step is never the thing that prevents a send — a send on the closed channel (a panic in Go)
    is unreachable. -/
theorem no_sender_after_close (inputs : Cid → List RdRes) (s : St) (hr : Reach (init inputs) s) (h : s.evClosed = true) (c : Cid) :
    ∀ ev, (s.chans c).push ≠ .pushing ev := by
  obtain ⟨hg, ho⟩ := reach_struct inputs s hr
  obtain ⟨_, _, hall⟩ := hg.g5 h
  intro ev hp
  rcases hall c with hc | hc
  · have := ((ho c).o5 hc).1
    rw [hp] at this; cases this
  · have hrp := (ho c).o6 (by rw [hc]; rfl)
    rcases (ho c).o3 hrp with h1 | h1
    · rw [hc] at h1; cases h1
    · rw [hp] at h1; cases h1

/-- **C12 (everything the node started has ended when the event channel is closed).** When `close(chEvent)` has run —
    the last thing the node loop does before `Close` returns — the node loop and every provider have finished and every channel
    that was ever started has completed `Channel.run`: reader gone, writer gone, transport closed. -/
theorem all_ended_when_closed (inputs : Cid → List RdRes) (s : St) (hr : Reach (init inputs) s) (h : s.evClosed = true) :
    s.npc = .done ∧ s.provDone = true ∧
    ∀ c, (s.chans c).cp ≠ .notStarted → (s.chans c).cp = .finished ∧ (s.chans c).rp = .exited := by
  obtain ⟨hg, ho⟩ := reach_struct inputs s hr
  obtain ⟨h1, h2, hall⟩ := hg.g5 h
  refine ⟨h1, h2, fun c hc => ?_⟩
  rcases hall c with h3 | h3
  · exact absurd h3 hc
  · exact ⟨h3, (ho c).o6 (by rw [h3]; rfl)⟩

/-- **C12 (Write* after Close does nothing).** Once the node loop has left its loop no dispatch happens: the only steps that
    change what a channel is offered are dispatches, and they need `npc = loop`. -/
theorem no_dispatch_after_loop {s s' : St} (h : Step s s') (hn : s.npc ≠ .loop) : SameFan s s' := by
  rcases step_frame h with ⟨_, _, _, hl, _⟩ | h
  · exact absurd hl hn
  · exact h

/-- **C12 (closing is irrevocable and needs Close).** The node leaves its loop only after `terminate` was closed. -/
theorem epilogue_needs_terminate (inputs : Cid → List RdRes) (s : St) (hr : Reach (init inputs) s) (h : s.npc ≠ .loop) :
    s.terminate = true := (reach_struct inputs s hr).1.g3 h

end Mav.C12
