import Mav.Proofs.NodeLive
/-
  C12 — Close terminates and releases everything. Property theorems only.
  Model: Mav/Model/Node.lean (after `fix: close the transport before waiting for the writer …`).
  Safety: nothing is sent on the closed event channel; everything has ended when it is closed.
  Termination: a closing node is never stuck (`close_never_stuck`), and once the node loop has seen `terminate` and the
  providers have returned every state-changing step lowers a natural-number measure, so at most `mu s` of them can follow
  (`close_bounded`), under every interleaving. What remains an assumption is fairness of the Go scheduler / `select` towards
  the node loop and the providers (they must get to see `terminate`), and that a transport's blocked Read / Write returns
  once the transport is closed (steps rReadClosed / wFail). The harness observes the real thing (closecheck scenarios).
-/
namespace Mav.C12
open Mav Nd

/-- **C12 (the event channel is closed only after its last sender stopped).** In every reachable state in which
    `close(chEvent)` has been executed, no goroutine is inside `pushEvent` or about to be: the `evClosed = false`
    premise of the delivery step is never the thing that prevents a send — a send on the closed channel (a panic in Go)
    is unreachable. -/
theorem no_sender_after_close (inputs : Cid → List RdRes) (s : St) (hr : Reach (init inputs) s) (h : s.evClosed = true) (c : Cid) :
    ∀ ev, (s.chans c).push ≠ .pushing ev := by
  obtain ⟨hg, ho⟩ := reach_struct inputs s hr
  obtain ⟨_, _, hall⟩ := hg.g5 h
  intro ev hp
  rcases hall c with hc | hc
  · have := ((ho c).o5 hc).1
    rw [hp] at this; cases this
  · have hrp := (ho c).o6 (by rw [hc]; rfl)
    rcases (ho c).o3 hrp with h1 | h1
    · rw [hc] at h1; cases h1
    · rw [hp] at h1; cases h1

/-- **C12 (everything the node started has ended when the event channel is closed).** When `close(chEvent)` has run —
    the last thing the node loop does before `Close` returns — the node loop and every provider have finished and every channel
    that was ever started has completed `Channel.run`: reader gone, writer gone, transport closed. -/
theorem all_ended_when_closed (inputs : Cid → List RdRes) (s : St) (hr : Reach (init inputs) s) (h : s.evClosed = true) :
    s.npc = .done ∧ s.provDone = true ∧
    ∀ c, (s.chans c).cp ≠ .notStarted → (s.chans c).cp = .finished ∧ (s.chans c).rp = .exited := by
  obtain ⟨hg, ho⟩ := reach_struct inputs s hr
  obtain ⟨h1, h2, hall⟩ := hg.g5 h
  refine ⟨h1, h2, fun c hc => ?_⟩
  rcases hall c with h3 | h3
  · exact absurd h3 hc
  · exact ⟨h3, (ho c).o6 (by rw [h3]; rfl)⟩

/-- **C12 (Write* after Close does nothing).** Once the node loop has left its loop no dispatch happens: the only steps that
    change what a channel is offered are dispatches, and they need `npc = loop`. -/
theorem no_dispatch_after_loop {s s' : St} (h : Step s s') (hn : s.npc ≠ .loop) : SameFan s s' := by
  rcases step_frame h with ⟨_, _, _, hl, _⟩ | h
  · exact absurd hl hn
  · exact h

/-- **C12 (closing is irrevocable and needs Close).** The node leaves its loop only after `terminate` was closed. -/
theorem epilogue_needs_terminate (inputs : Cid → List RdRes) (s : St) (hr : Reach (init inputs) s) (h : s.npc ≠ .loop) :
    s.terminate = true := (reach_struct inputs s hr).1.g3 h

/-- **C12 (Close is never stuck).** In every reachable state in which `Close` has been called and the event channel is not
    closed yet — whatever readers, writers, providers, `Channel.run`s and the application are doing, consumer running or
    not — some goroutine can take a step, and that step lowers the measure `mu`. No deadlock on the way to `close(chEvent)`. -/
theorem close_never_stuck (inputs : Cid → List RdRes) (s : St) (hr : Reach (init inputs) s)
    (ht : s.terminate = true) (he : s.evClosed = false) : ∃ s', Step s s' ∧ mu s' < mu s :=
  close_progress inputs s hr ht he

/-- **C12 (every step of the shutdown makes progress).** After the node loop has left its loop and the providers have
    returned, every step either changes nothing (a repeated Close) or lowers the measure. -/
theorem shutdown_step_decreases (inputs : Cid → List RdRes) (s s' : St) (hr : Reach (init inputs) s) (h : Step s s')
    (ht : s.terminate = true) (hn : s.npc ≠ .loop) (hp : s.provDone = true) : s' = s ∨ mu s' < mu s :=
  step_decreases h (reach_struct inputs s hr).1 (reach_struct inputs s hr).2 (reach_shape inputs s hr) ht hn hp

/-- **C12 (Close terminates).** … hence at most `mu s` state-changing steps can follow, under every interleaving: together
    with `close_never_stuck` the shutdown reaches `close(chEvent)` and `Close` returns. -/
theorem close_bounded (inputs : Cid → List RdRes) (s s'' : St) (n : Nat) (hr : Reach (init inputs) s)
    (ht : s.terminate = true) (hn : s.npc ≠ .loop) (hp : s.provDone = true) (hc : Chain s n s'') : n ≤ mu s :=
  closing_bounded inputs s n s'' hc hr ht hn hp

/-- with the OLD order of `Channel.run` (writer first, transport afterwards) a writer blocked in a transport that only returns
    when closed has no enabled step at `bRecvW`: the progress proof needs `rwcClosed` there (Shape.l2), which the fix provides -/
example : rwcMust .bRecvW = true ∧ rwcMust .bTermW = true := ⟨rfl, rfl⟩

end Mav.C12
