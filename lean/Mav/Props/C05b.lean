import Mav.Props.C08
/-
  C05 — the reader never panics, WITH a dialect: for a dialect whose codecs are those of message structs `Initialize` accepts
  (every dialect that initialises, C17), no byte stream makes `Read` panic. Property theorems only.
-/
namespace Mav.C05
open Mav Spec

/-- a codec that cannot make the reader panic: decoding is total, and what it decodes can be encoded again -/
def NoPanic (c : Codec) : Prop :=
  (∀ isV2 p, c.decode isV2 p ≠ .panic) ∧ (∀ isV2 p v, c.decode isV2 p = .ok v → c.encode isV2 v ≠ .panic)

/-- the codec of every accepted struct is such a codec -/
theorem accepted_no_panic (st : Msg.GoStruct) (rw : Msg.RW) (h : Msg.init st = .ok rw) : NoPanic (C08.codecOf rw) := by
  have hok : Msg.RWok rw := Msg.rwOk_of_bool rw (InitSound.accepted_never_wraps st rw h)
  have hidx := InitSound.accepted_idx_ok st rw h
  refine ⟨fun isV2 p => C04.decode_never_panics rw hok isV2 p, ?_⟩
  intro isV2 p v hdec
  simp only [C08.codecOf] at hdec ⊢
  cases isV2 with
  | true =>
    rw [Msg.decode_v2_eq] at hdec
    cases hf : Msg.decFields rw.fields (Msg.padded rw p) (Msg.zeroVals rw) with
    | none => rw [hf] at hdec; cases hdec
    | some v0 =>
      rw [hf] at hdec
      simp only [Msg.resOf, Msg.DecRes.ok.injEq] at hdec
      subst hdec
      obtain ⟨hwt, _⟩ := Msg.decoded_fixed rw.fields (Msg.zeroVals rw) _ v0 (by rw [C08.zeroVals_length]; exact hidx) hf
      obtain ⟨q, hq, _⟩ := C04.roundtrip_v2 rw hok v0 hwt
      rw [hq]; simp
  | false =>
    simp only [Msg.decode, Bool.false_eq_true, if_false] at hdec
    split at hdec
    · cases hdec
    · cases hf : Msg.decFields (rw.fields.filter (fun f => !f.isExt)) p (Msg.zeroVals rw) with
      | none => rw [hf] at hdec; cases hdec
      | some v0 =>
        rw [hf] at hdec
        simp only [Msg.resOf, Msg.DecRes.ok.injEq] at hdec
        subst hdec
        obtain ⟨hwt, _⟩ := Msg.decoded_fixed (rw.fields.filter (fun f => !f.isExt)) (Msg.zeroVals rw) p v0
          (by rw [C08.zeroVals_length]; exact C08.idxOk_filter _ _ _ hidx) hf
        obtain ⟨q, hq, _⟩ := C04.roundtrip_v1_base rw hok v0 hwt
        rw [hq]; simp

theorem gate_no_panic (cfg : RCfg) (hw : cfg.specWindow = false)
    (hacc : ∀ d, cfg.dialect = some d → ∀ id c, d id = some c → NoPanic c)
    (f : Frame) (id : UInt32) (p : Bytes) (hm : f.msg = .raw id p) : dialectGate cfg f ≠ .panic := by
  unfold dialectGate
  cases hd : cfg.dialect with
  | none => simp
  | some d =>
    simp only [hm]
    cases hc : d id with
    | none => simp
    | some c =>
      obtain ⟨hdecnp, hencnp⟩ := hacc d hd id c hc
      simp only [hw, Bool.false_eq_true, if_false]
      have hsum : ∃ sum, f.genChecksum c.crcExtra = .ok sum := by
        cases f with
        | v1 g => simp only [Frame.msg] at hm; simp [Frame.genChecksum, hm]
        | v2 g => simp only [Frame.msg] at hm; simp [Frame.genChecksum, hm]
      obtain ⟨sum, hs⟩ := hsum
      simp only [hs]
      split
      · simp
      · cases hdec : c.decode f.isV2 p with
        | errSize => simp
        | panic => exact absurd hdec (hdecnp _ _)
        | ok vals =>
          simp only
          cases henc : c.encode f.isV2 vals with
          | panic => exact absurd henc (hencnp _ _ _ hdec)
          | ok p' =>
            simp only
            cases f with
            | v1 g => simp only; split <;> simp
            | v2 g => simp only; split <;> simp

theorem unmarshalV1_raw (s s' : Stream) (f : V1Frame) (h : unmarshalV1 s = (.ok f, s')) : ∃ id p, f.msg = .raw id p := by
  unfold unmarshalV1 at h
  split at h
  · cases h
  · split at h
    · cases h
    · split at h
      · cases h
      · simp only [Prod.mk.injEq, Except.ok.injEq] at h
        obtain ⟨h1, _⟩ := h
        subst h1
        exact ⟨_, _, rfl⟩
      · cases h
  · cases h

theorem unmarshalV2_raw (s s' : Stream) (f : V2Frame) (h : unmarshalV2 s = (.ok f, s')) : ∃ id p, f.msg = .raw id p := by
  unfold unmarshalV2 at h
  split at h
  · cases h
  · split at h
    · cases h
    · split at h
      · cases h
      · split at h
        · cases h
        · simp only at h
          split at h
          · split at h
            · cases h
            · simp only [Prod.mk.injEq, Except.ok.injEq] at h
              obtain ⟨h1, _⟩ := h
              subst h1
              exact ⟨_, _, rfl⟩
            · cases h
          · simp only [Prod.mk.injEq, Except.ok.injEq] at h
            obtain ⟨h1, _⟩ := h
            subst h1
            exact ⟨_, _, rfl⟩
        · cases h
  · cases h

/-- **C05 (never panics, with a dialect).** For a reader whose dialect holds the codecs of message structs `Initialize` accepts —
    which is every dialect that initialises (`C17.dialect_init_iff`) — no stream, however malformed, makes `Read` panic: every
    call returns a frame, a parse error or the transport's error. -/
theorem no_panic_with_accepted_dialect (cfg : RCfg) (hw : cfg.specWindow = false)
    (hacc : ∀ d, cfg.dialect = some d → ∀ id c, d id = some c → ∃ st rw, Msg.init st = .ok rw ∧ c = C08.codecOf rw)
    (st : RState) (s : Stream) : (readOne cfg st s).1 ≠ .panic := by
  have hnp : ∀ d, cfg.dialect = some d → ∀ id c, d id = some c → NoPanic c := by
    intro d hd id c hc
    obtain ⟨st0, rw, hi, rfl⟩ := hacc d hd id c hc
    exact accepted_no_panic st0 rw hi
  unfold readOne
  split
  · simp
  · split
    · split
      · simp
      · rename_i f s2 hu
        split
        · simp
        · obtain ⟨id, p, hm⟩ := unmarshalV1_raw _ _ f hu
          exact gate_no_panic cfg hw hnp (.v1 f) id p hm
    · split
      · split
        · simp
        · rename_i f s2 hu
          split
          · simp
          · obtain ⟨id, p, hm⟩ := unmarshalV2_raw _ _ f hu
            exact gate_no_panic cfg hw hnp (.v2 f) id p hm
      · simp

end Mav.C05
