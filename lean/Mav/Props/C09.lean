import Mav.Proofs.Writer
/-
  C09 — originated frames. Property theorems only.
  Model: `swInitialize` / `swWrite` (pkg/streamwriter, after `fix: a refused write must not consume a sequence
  number`); Spec: `Spec.swWrite` (Mav/Spec/Writer.lean), written from the property text.
-/
namespace Mav.C09
open Mav Spec

/-- **C09 (refusals at initialisation).** A missing version, a zero system id, or a key on a v1 link. -/
theorem init_refuses (c : SWCfg) :
    (c.version = 0 → swInitialize c = .error .noVersion) ∧
    (c.version ≠ 0 → c.sysId = 0 → swInitialize c = .error .sysId) ∧
    (c.version ≠ 0 → c.sysId ≠ 0 → c.key.isSome → c.version ≠ 2 → swInitialize c = .error .keyNeedsV2) := by
  refine ⟨?_, ?_, ?_⟩
  · intro h; simp [swInitialize, h]
  · intro h1 h2; simp [swInitialize, h1, h2]
  · intro h1 h2 h3 h4
    have : ¬ (c.sysId < 1) := by
      intro hlt
      apply h2
      have := UInt8.lt_iff_toNat_lt.mp hlt
      apply UInt8.toNat_inj.mp
      simp at this ⊢; omega
    simp [swInitialize, h1, this, h3, h4]

/-- **C09 (component id default).** An accepted configuration keeps every field and sets component id 1 when unset. -/
theorem comp_default (c c' : SWCfg) (h : swInitialize c = .ok c') :
    c' = { c with compId := if c.compId < 1 then 1 else c.compId } := by
  unfold swInitialize at h
  split at h
  · simp at h
  · split at h
    · simp at h
    · split at h
      · simp at h
      · simp only [Except.ok.injEq] at h; exact h.symm

theorem init_gives_domain (c0 c : SWCfg) (h : swInitialize c0 = .ok c) (hv : c0.version ≤ 2) : CfgOk c :=
  initialize_ok c0 c h hv

/-- **C09 (one write).** For every accepted configuration, every dialect, every writer state whose counter equals
    the number of accepted writes mod 256, every clock value before 2104 and every message of the domain, the
    model's write returns exactly what the specification prescribes — the error for a refused write, else the
    frame bytes carrying the configured system/component id, version, compat flags 0, the spec checksum with the
    message's CRC_EXTRA, sequence number `count mod 256`, and the signature block when a key is configured —
    and the counter advances exactly when the write was accepted. -/
theorem write_refines_spec (H : Bytes → Bytes) (hH : ∀ x, 6 ≤ (H x).length) (d : WDialect) (c : SWCfg) (hc : CfgOk c)
    (st : SWState) (count : Nat) (hseq : st.nextSeq = UInt8.ofNat (count % 256)) (t : UInt64) (ht : t.toNat < 2 ^ 48 * 10000)
    (m : Mav.Msg) (hm : ∀ dd, d = some dd → MsgOk dd c m) :
    (swWrite H d c st t m).2 = (Spec.swWrite H d c count t m).2 ∧
    (swWrite H d c st t m).1.nextSeq = UInt8.ofNat ((Spec.swWrite H d c count t m).1 % 256) :=
  swWrite_refines H hH d c hc st count hseq t ht m hm

/-- results of a history of writes (clock value, message) -/
def runModel (H : Bytes → Bytes) (d : WDialect) (c : SWCfg) : SWState → List (UInt64 × Mav.Msg) → List (Except WErr Bytes)
  | _, [] => []
  | st, (t, m) :: r => (swWrite H d c st t m).2 :: runModel H d c (swWrite H d c st t m).1 r

def runSpec (H : Bytes → Bytes) (d : WDialect) (c : SWCfg) : Nat → List (UInt64 × Mav.Msg) → List (Except WErr Bytes)
  | _, [] => []
  | n, (t, m) :: r => (Spec.swWrite H d c n t m).2 :: runSpec H d c (Spec.swWrite H d c n t m).1 r

/-- **C09 (every history).** Over any number of writes — accepted and refused, in any order, unbounded length, so
    across the 255→0 wrap — the writer's outputs equal the specification's: no gap, no repeat. -/
theorem history_refines_spec (H : Bytes → Bytes) (hH : ∀ x, 6 ≤ (H x).length) (d : WDialect) (c : SWCfg) (hc : CfgOk c)
    (hist : List (UInt64 × Mav.Msg))
    (hdom : ∀ tm ∈ hist, tm.1.toNat < 2 ^ 48 * 10000 ∧ ∀ dd, d = some dd → MsgOk dd c tm.2)
    (st : SWState) (count : Nat) (hseq : st.nextSeq = UInt8.ofNat (count % 256)) :
    runModel H d c st hist = runSpec H d c count hist := by
  induction hist generalizing st count with
  | nil => rfl
  | cons tm r ih =>
    obtain ⟨t, m⟩ := tm
    have h0 := hdom (t, m) (by simp)
    have h := swWrite_refines H hH d c hc st count hseq t h0.1 m h0.2
    simp only [runModel, runSpec, h.1]
    congr 1
    exact ih (fun x hx => hdom x (by simp [hx])) _ _ h.2

/-- in the specification the counter counts accepted writes: a refusal leaves it, an emission adds one -/
theorem spec_counts_accepted (H : Bytes → Bytes) (d : WDialect) (c : SWCfg) (n : Nat) (t : UInt64) (m : Mav.Msg) :
    (∀ e, (Spec.swWrite H d c n t m).2 = .error e → (Spec.swWrite H d c n t m).1 = n) ∧
    (∀ bs, (Spec.swWrite H d c n t m).2 = .ok bs → (Spec.swWrite H d c n t m).1 = n + 1) := by
  have key : ∀ r, Spec.swWrite H d c n t m = r →
      (∀ e, r.2 = .error e → r.1 = n) ∧ (∀ bs, r.2 = .ok bs → r.1 = n + 1) := by
    intro r h
    unfold Spec.swWrite at h
    repeat' (split at h)
    all_goals (subst h; simp)
  exact key _ rfl

/-- a v1 link refuses ids above 255 (spec side, matched by `write_refines_spec`) -/
theorem spec_v1_refuses_big_id (H : Bytes → Bytes) (dd : UInt32 → Option WCodec) (c : SWCfg) (hv : c.version = 1)
    (n : Nat) (t : UInt64) (id : UInt32) (p : Bytes) (codec : WCodec) (hd : dd id = some codec) (h : id > 0xFF) :
    Spec.swWrite H (some dd) c n t (.raw id p) = (n, .error .v1Id) := by
  simp [Spec.swWrite, hd, Msg.id, hv, h]

/- non-vacuity: an accepted configuration and a message of the domain exist -/
example : CfgOk { version := 2, sysId := 1, compId := 1, key := some [1] } :=
  ⟨Or.inr rfl, by decide, fun _ => rfl⟩
example : MsgOk (fun _ => some { crcExtra := 50, encode := fun _ _ => .ok [1, 2, 3] }) { version := 2, sysId := 1, compId := 1 } (.raw 0 [1]) := by
  simp [MsgOk]

end Mav.C09
