import Mav.Spec.Writer
namespace Mav.C09
theorem placeholder : True := trivial
end Mav.C09
