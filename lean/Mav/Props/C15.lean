import Mav.Proofs.Race
import Mav.Gen.Access
/-
  C15 — concurrent use of a node is free of data races. Property theorems only.

  Part 1 (model): three disciplines, each proved sufficient for race freedom over every program and interleaving
  (Mav/Proofs/Race.lean): read-only after publication, confinement to one goroutine, lock discipline (sync.Mutex /
  sync.RWMutex, writes need the exclusive lock).
  Part 2 (the code obeys a discipline, field by field): the access facts of every field of every struct of the root package
  are regenerated from the source on every run (tools/extract/access.go → Mav/Gen/Access.lean: who reads, who writes, from
  which goroutine, holding which mutex); the kernel checks them against the discipline stated here. A new field, a new
  access from another goroutine, a write under a read lock, or an access without the lock breaks `discipline_holds`.
  Part 3 (runs): the race detector on concurrent scenarios (./check C15).
-/
namespace Mav.C15
open Mav.Race Mav.Gen.Access

/-! ### Part 1 -/

/-- **C15 (read-only after publication).** -/
theorem readonly_race_free (v : Var) (s0 s : St) (h : Reach s0 s)
    (h0 : ∀ g, ∀ o ∈ s0.progs g, writes v o = false) : ¬ RaceOn v s := readonly_no_race v s0 s h h0

/-- **C15 (confinement).** -/
theorem confined_race_free (v : Var) (g0 : Gid) (s0 s : St) (h : Reach s0 s)
    (h0 : ∀ g, ∀ o ∈ s0.progs g, g ≠ g0 → accesses v o = false) : ¬ RaceOn v s := confined_no_race v g0 s0 s h h0

/-- **C15 (lock discipline).** -/
theorem locked_race_free (v : Var) (m : Mu) (s0 s : St) (h : Reach s0 s)
    (h0 : ∀ g, guarded v m 0 (s0.progs g) = true) (hfree : s0.owner m = none) (hnor : s0.readers m = []) : ¬ RaceOn v s :=
  locked_no_race v m s0 s h h0 hfree hnor

/-- the lock discipline is not vacuous and not blind: a write under a READ lock is rejected by `guarded`, and two goroutines
    doing it do race in the model -/
example : guarded 0 0 0 [.rlock 0, .write 0, .runlock 0] = false := by decide
example : guarded 0 0 0 [.lock 0, .read 0, .write 0, .unlock 0, .other, .rlock 0, .read 0, .runlock 0] = true := by decide

def rwBug : St :=
  { progs := fun g => if g ≤ 1 then [.rlock 0, .write 0, .runlock 0] else [], started := fun _ => true,
    owner := fun _ => none, readers := fun _ => [] }

/-- two readers of an RWMutex writing under the shared lock: a reachable race (the S15 class of defect) -/
example : ∃ s, Reach rwBug s ∧ RaceOn 0 s := by
  have r1 := Reach.step (Reach.refl (s0 := rwBug)) (Step.rlock rwBug 0 0 [.write 0, .runlock 0] rfl rfl rfl)
  have r2 := Reach.step r1 (Step.rlock _ 1 0 [.write 0, .runlock 0] rfl (by simp [St.setProg, rwBug]) rfl)
  refine ⟨_, r2, 0, 1, .write 0, .write 0, [.runlock 0], [.runlock 0], by decide, rfl, rfl, ?_, ?_, rfl, rfl, Or.inl rfl⟩
  · simp [St.setProg, rwBug]
  · simp [St.setProg, rwBug]

/-! ### Part 2 -/

inductive Discipline
  | exempt                          -- channels, sync primitives, contexts: synchronisation objects themselves
  | readOnly                        -- written only by the constructors of its struct, before the object is shared
  | confined (role : String)        -- every access outside the constructors is made by this goroutine
  | locked (mu : String)            -- every access outside the constructors holds this mutex (exclusively for writes)
  | handoff (src dst : String)      -- owned by `src` until it is handed over on an unbuffered channel, by `dst` afterwards;
                                    -- `src` only reads, and only on the path where the hand-over did not happen

def obeys (f : Field) : Discipline → Bool
  | .exempt => f.kind == "chan" || f.kind == "sync"
  | .readOnly => f.accs.all (fun a => !a.write)
  | .confined r => f.accs.all (fun a => a.roles == [r])
  | .locked mu => f.accs.all (fun a => if a.write then a.heldW.contains mu else (a.heldW.contains mu || a.heldR.contains mu))
  | .handoff src dst => f.accs.all (fun a => if a.write then a.roles == [dst] else a.roles.all (fun r => r == src || r == dst))

/-- the discipline of every field: the five fields that are written outside their constructors, by name; every other field
    must be a synchronisation object or read-only -/
def disciplineOf (f : Field) : Discipline :=
  if f.strct == "Node" && f.name == "channels" then .confined "Node.run"
  else if f.strct == "Channel" && f.name == "running" then .handoff "channelProvider.run" "Node.run"
  else if f.strct == "endpointClient" && f.name == "first" then .confined "channelProvider.run"
  else if f.strct == "endpointSerial" && f.name == "first" then .confined "channelProvider.run"
  else if f.strct == "EndpointUDPBroadcast" && f.name == "LocalAddress" then .confined "init"
  else if f.strct == "nodeStreamRequest" && f.name == "lastRequests" then .locked "lastRequestsMutex"
  else if f.kind == "plain" then .readOnly
  else .exempt

/-- **C15 (the code obeys the discipline).** Every field of every struct of the root package, as accessed in the current source. -/
theorem discipline_holds : allFields.all (fun f => obeys f (disciplineOf f)) = true := by decide

/-- the goroutines the package starts (a new `go` statement changes this list and must be looked at) -/
theorem goroutines_known : goroutineEntries =
    ["Channel.run", "Channel.run$go1", "Channel.run$go2", "Node.run", "channelProvider.run", "nodeHeartbeat.run",
     "nodeStreamRequest.run"] := by decide

/-- the map the property names is guarded for real: it has accesses, reads and writes, from two different goroutines -/
example : nodeStreamRequest_lastRequests.accs.length = 4 ∧ (nodeStreamRequest_lastRequests.accs.any (·.write)) = true := by decide

/-! ### Part 2b: values handed to the application -/

/-- **C15 (an event belongs to the application once it has been pushed).** In no function of the root package is an event value —
    or the frame it was built from — mentioned again in the statements that follow its `pushEvent`: after the hand-over on the
    unbuffered event channel the application may read and modify it (forwarding a received frame rewrites its message) while the
    sender never touches it again. Regenerated from the source on every run (`usesAfterHandoff`, tools/extract/access.go). -/
theorem event_not_used_after_handoff : usesAfterHandoff = [] := by decide

end Mav.C15
