import Mav.Props.C05
import Mav.Props.C02
import Mav.Props.C04
import Mav.Proofs.InitIdx
/-
  C08 — routing transparency. Property theorems only.
-/
namespace Mav.C08
open Mav Spec

/-- **C08 (no dialect: byte identity).** A frame read without a dialect and written unchanged is emitted as exactly the
    bytes that were consumed when it was read — for every frame the reader can return, so checksums and signatures
    (which are part of those bytes) survive. Version, flags, sequence number, system and component id are fields of
    those bytes. -/
theorem forward_raw_identity (H : Bytes → Bytes) (st st' : RState) (s rest : Stream) (f : Frame)
    (h : readOne (C01.plainCfg H) st s = (.frame f, rest, st')) :
    ∃ consumed, s = bytesToItems consumed ++ rest ∧ frameWrite none f = .ok (consumed, f) := by
  obtain ⟨hwf, hs, _⟩ := C05.frame_matches_consumed H st st' s rest f h
  exact ⟨specBytes f, hs, C01.write_emits_spec f hwf none⟩

/-- one forwarding hop on a byte string holding one frame: read it, write it -/
def hop (H : Bytes → Bytes) (bs : Bytes) : Option Bytes :=
  match readOne (C01.plainCfg H) {} (bytesToItems bs) with
  | (.frame f, _, _) => (match frameWrite none f with | .ok (out, _) => some out | .error _ => none)
  | _ => none

/-- **C08 (any number of hops).** The bytes of a well-formed frame are a fixed point of a hop, hence of any number of hops. -/
theorem hop_fixed (H : Bytes → Bytes) (f : Frame) (hwf : WF f) : hop H (specBytes f) = some (specBytes f) := by
  have h := C01.read_marshal H f hwf [] {}
  simp only [List.append_nil] at h
  simp [hop, h, C01.write_emits_spec f hwf none]

/-- k forwarding hops in a row -/
def hops (H : Bytes → Bytes) : Nat → Bytes → Option Bytes
  | 0, bs => some bs
  | k + 1, bs => (hop H bs).bind (hops H k)

theorem hops_identity (H : Bytes → Bytes) (f : Frame) (hwf : WF f) (k : Nat) :
    hops H k (specBytes f) = some (specBytes f) := by
  induction k with
  | zero => rfl
  | succ n ih => simp [hops, hop_fixed H f hwf, ih]


/-- what C04 establishes of a message codec: re-encoding a decoded value gives a payload of at most 255 bytes that decodes
    to the same value (the decoded value is already canonical) -/
def CodecConsistent (c : Codec) : Prop :=
  ∀ isV2 p v p', c.decode isV2 p = .ok v → c.encode isV2 v = .ok p' →
    p'.length ≤ 255 ∧ c.decode isV2 p' = .ok v

/-- the codec a dialect holds for a message type: `Read` and `Write` of its initialised ReadWriter -/
def codecOf (rw : Msg.RW) : Codec := { crcExtra := rw.crcExtra, decode := Msg.decode rw, encode := Msg.encode rw }

theorem zeroVals_length (rw : Msg.RW) : (Msg.zeroVals rw).length = rw.nfields := by simp [Msg.zeroVals]

theorem idxOk_filter (fs : List Msg.DField) (n : Nat) (p : Msg.DField → Bool) (h : Msg.IdxOk fs n) : Msg.IdxOk (fs.filter p) n := by
  refine ⟨?_, fun f hf => h.2 f (List.mem_filter.mp hf).1⟩
  have : ((fs.filter p).map (·.index)).Sublist (fs.map (·.index)) := (List.filter_sublist).map _
  exact this.nodup h.1

theorem encode_len (rw : Msg.RW) (isV2 : Bool) (vals : List Msg.FVal) (p : Bytes) (h : Msg.encode rw isV2 vals = .ok p) :
    p.length ≤ 255 := by
  cases isV2 with
  | true =>
    simp only [Msg.encode, if_true] at h
    split at h
    · rename_i hlen
      simp only [Msg.EncRes.ok.injEq] at h
      subst h
      obtain ⟨k, hk⟩ := Msg.strip_is_zero_suffix
        ((rw.fields.filter (fun f => true || !f.isExt)).flatMap (fun f => Msg.encField f (Msg.valAt vals f.index)))
      have h1 := congrArg List.length hk
      rw [List.length_append] at h1
      have := rw.sizeExtended.toNat_lt
      omega
    · cases h
  | false =>
    simp only [Msg.encode, Bool.false_eq_true, if_false] at h
    split at h
    · rename_i hlen
      simp only [Msg.EncRes.ok.injEq] at h
      subst h
      have := rw.sizeNormal.toNat_lt
      omega
    · cases h

/-- **C08 (the hypothesis of the forwarding theorem holds for every struct `Initialize` accepts).** The value list `Read`
    returns is well-typed and already canonical (`Msg.decoded_fixed`: strings cut at the first NUL and at the declared length,
    numbers within their wire width, every field at its own position), so `Write` of it succeeds with at most 255 bytes and
    `Read` of those gives the same list back — in both versions. -/
theorem accepted_codec_consistent (st : Msg.GoStruct) (rw : Msg.RW) (h : Msg.init st = .ok rw) :
    CodecConsistent (codecOf rw) := by
  have hok : Msg.RWok rw := Msg.rwOk_of_bool rw (InitSound.accepted_never_wraps st rw h)
  have hidx := InitSound.accepted_idx_ok st rw h
  intro isV2 p v p' hdec henc
  simp only [codecOf] at hdec henc ⊢
  refine ⟨encode_len rw isV2 v p' henc, ?_⟩
  cases isV2 with
  | true =>
    rw [Msg.decode_v2_eq] at hdec
    cases hf : Msg.decFields rw.fields (Msg.padded rw p) (Msg.zeroVals rw) with
    | none => rw [hf] at hdec; cases hdec
    | some v0 =>
      rw [hf] at hdec
      simp only [Msg.resOf, Msg.DecRes.ok.injEq] at hdec
      subst hdec
      obtain ⟨hwt, hfix⟩ := Msg.decoded_fixed rw.fields (Msg.zeroVals rw) _ v0 (by rw [zeroVals_length]; exact hidx) hf
      obtain ⟨q, hq, hdq⟩ := C04.roundtrip_v2 rw hok v0 hwt
      rw [henc] at hq
      simp only [Msg.EncRes.ok.injEq] at hq
      subst hq
      rw [hdq]
      simp only [C04.canonV2, Msg.DecRes.ok.injEq]
      exact hfix
  | false =>
    simp only [Msg.decode, Bool.false_eq_true, if_false] at hdec
    split at hdec
    · cases hdec
    · cases hf : Msg.decFields (rw.fields.filter (fun f => !f.isExt)) p (Msg.zeroVals rw) with
      | none => rw [hf] at hdec; cases hdec
      | some v0 =>
        rw [hf] at hdec
        simp only [Msg.resOf, Msg.DecRes.ok.injEq] at hdec
        subst hdec
        obtain ⟨hwt, hfix⟩ := Msg.decoded_fixed (rw.fields.filter (fun f => !f.isExt)) (Msg.zeroVals rw) p v0
          (by rw [zeroVals_length]; exact idxOk_filter _ _ _ hidx) hf
        obtain ⟨q, hq, _, hdq⟩ := C04.roundtrip_v1_base rw hok v0 hwt
        rw [henc] at hq
        simp only [Msg.EncRes.ok.injEq] at hq
        subst hq
        rw [hdq]
        simp only [C04.canonV1, Msg.DecRes.ok.injEq]
        exact hfix

/-- **C08 (dialect: forwarded frame stays valid).** Let the reader, with a dialect, accept a well-formed frame and return
    `f'` (decoded message, checksum made consistent with the canonical re-encoding — `fix: keep the checksum of a
    decoded frame consistent…`). Writing `f'` unchanged emits the spec bytes of a well-formed frame `f2` which the next
    hop's gate accepts, returning the very same `f'` (same header fields, same decoded message). Includes payloads sent
    without zero-truncation, with unknown trailing bytes, with bytes after a string terminator, and empty payloads. -/
theorem forward_dialect_valid (cfg : RCfg) (d : UInt32 → Option Codec) (hd : cfg.dialect = some d) (ho : cfg.specWindow = false)
    (wd : UInt32 → Option WCodec) (f f' : Frame) (hwf : WF f) (id : UInt32) (p : Bytes) (hm : f.msg = .raw id p)
    (c : Codec) (hc : d id = some c) (hcons : CodecConsistent c)
    (wc : WCodec) (hwc : wd id = some wc) (hsame : wc.encode = c.encode)
    (hg : dialectGate cfg f = .frame f') :
    ∃ f2, WF f2 ∧ frameWrite (some wd) f' = .ok (specBytes f2, f2) ∧ dialectGate cfg f2 = .frame f' := by
  cases f with
  | v1 g =>
    obtain ⟨seq, sys, comp, msg, crc⟩ := g
    simp [Frame.msg] at hm; subst hm
    simp only [dialectGate, hd, hc, ho, Bool.false_eq_true, ↓reduceIte, Frame.msg, Frame.genChecksum, Frame.crc, Frame.isV2] at hg
    split at hg
    · simp at hg
    · rename_i hcrc
      cases hdec : c.decode false p with
      | errSize => simp [hdec] at hg
      | panic => simp [hdec] at hg
      | ok v =>
        cases henc : c.encode false v with
        | panic => simp [hdec, henc] at hg
        | ok p' =>
          obtain ⟨hp255, hdec'⟩ := hcons false p v p' hdec henc
          simp [WF, wfb] at hwf
          simp only [hdec, henc] at hg
          by_cases hpp : (p' != p) = true
          · simp only [hpp, ↓reduceIte, RRes.frame.injEq] at hg
            subst hg
            let crc' := X25.sum (([lenByte p', seq, sys, comp, id.toUInt8] ++ p') ++ [c.crcExtra])
            refine ⟨.v1 { seq := seq, sys := sys, comp := comp, msg := .raw id p', crc := crc' }, ?_, ?_, ?_⟩
            · simp [WF, wfb, hwf.1, hp255]
            · have hw : WF (.v1 { seq := seq, sys := sys, comp := comp, msg := .raw id p', crc := crc' }) := by
                simp [WF, wfb, hwf.1, hp255]
              have := C01.write_emits_spec _ hw (some wd)
              simp [frameWrite, encodeInFrame, Frame.msg, hwc, hsame, Frame.isV2, henc, Frame.setMsg, V1Frame.crcInput, Msg.id, crc'] at this ⊢
              exact this
            · simp [dialectGate, hd, hc, ho, Frame.msg, Frame.genChecksum, Frame.crc, Frame.isV2, V1Frame.crcInput, Msg.id, hdec', henc, crc']
          · simp only [hpp, Bool.false_eq_true, ↓reduceIte, RRes.frame.injEq] at hg
            have hpe : p' = p := by simpa using hpp
            subst hg hpe
            refine ⟨.v1 { seq := seq, sys := sys, comp := comp, msg := .raw id p', crc := crc }, ?_, ?_, ?_⟩
            · simp [WF, wfb, hwf.1, hp255]
            · have hw : WF (.v1 { seq := seq, sys := sys, comp := comp, msg := .raw id p', crc := crc }) := by
                simp [WF, wfb, hwf.1, hp255]
              have := C01.write_emits_spec _ hw (some wd)
              simp [frameWrite, encodeInFrame, Frame.msg, hwc, hsame, Frame.isV2, henc, Frame.setMsg] at this ⊢
              exact this
            · have hcrc' : ¬ ((X25.sum (V1Frame.crcInput { seq := seq, sys := sys, comp := comp, msg := .raw id p', crc := crc } p' ++ [c.crcExtra]) != crc) = true) := hcrc
              simp [dialectGate, hd, hc, ho, Frame.msg, Frame.genChecksum, Frame.crc, Frame.isV2, hdec, henc, hcrc']
  | v2 g =>
    obtain ⟨ic, cf, seq, sys, comp, msg, crc, link, ts, sig⟩ := g
    simp [Frame.msg] at hm; subst hm
    simp only [dialectGate, hd, hc, ho, Bool.false_eq_true, ↓reduceIte, Frame.msg, Frame.genChecksum, Frame.crc, Frame.isV2] at hg
    split at hg
    · simp at hg
    · rename_i hcrc
      cases hdec : c.decode true p with
      | errSize => simp [hdec] at hg
      | panic => simp [hdec] at hg
      | ok v =>
        cases henc : c.encode true v with
        | panic => simp [hdec, henc] at hg
        | ok p' =>
          obtain ⟨hp255, hdec'⟩ := hcons true p v p' hdec henc
          simp [WF, wfb] at hwf
          simp only [hdec, henc] at hg
          by_cases hpp : (p' != p) = true
          · simp only [hpp, ↓reduceIte, RRes.frame.injEq] at hg
            subst hg
            let crc' := X25.sum (([lenByte p', ic, cf, seq, sys, comp] ++ uint24Encode id ++ p') ++ [c.crcExtra])
            have hw : WF (.v2 { incompat := ic, compat := cf, seq := seq, sys := sys, comp := comp, msg := .raw id p', crc := crc',
                                linkId := link, ts := ts, sig := sig }) := by
              simp [WF, wfb, hwf.1.1, hp255]; exact hwf.2
            refine ⟨_, hw, ?_, ?_⟩
            · have := C01.write_emits_spec _ hw (some wd)
              simp [frameWrite, encodeInFrame, Frame.msg, hwc, hsame, Frame.isV2, henc, Frame.setMsg, V2Frame.crcInput, Msg.id, crc'] at this ⊢
              exact this
            · simp [dialectGate, hd, hc, ho, Frame.msg, Frame.genChecksum, Frame.crc, Frame.isV2, V2Frame.crcInput, Msg.id, hdec', henc, crc']
          · simp only [hpp, Bool.false_eq_true, ↓reduceIte, RRes.frame.injEq] at hg
            have hpe : p' = p := by simpa using hpp
            subst hg hpe
            have hw : WF (.v2 { incompat := ic, compat := cf, seq := seq, sys := sys, comp := comp, msg := .raw id p', crc := crc,
                                linkId := link, ts := ts, sig := sig }) := by
              simp [WF, wfb, hwf.1.1, hp255]; exact hwf.2
            refine ⟨_, hw, ?_, ?_⟩
            · have := C01.write_emits_spec _ hw (some wd)
              simp [frameWrite, encodeInFrame, Frame.msg, hwc, hsame, Frame.isV2, henc, Frame.setMsg] at this ⊢
              exact this
            · have hcrc' : ¬ ((X25.sum (V2Frame.crcInput { incompat := ic, compat := cf, seq := seq, sys := sys, comp := comp, msg := .raw id p', crc := crc, linkId := link, ts := ts, sig := sig } p' ++ [c.crcExtra]) != crc) = true) := hcrc
              simp [dialectGate, hd, hc, ho, Frame.msg, Frame.genChecksum, Frame.crc, Frame.isV2, hdec, henc, hcrc']

/-- **C08 (dialect, no assumption on the codec).** The forwarding theorem for the codec of ANY message struct `Initialize`
    accepts: `CodecConsistent` is discharged by `accepted_codec_consistent`. -/
theorem forward_dialect_valid_accepted (cfg : RCfg) (d : UInt32 → Option Codec) (hd : cfg.dialect = some d) (ho : cfg.specWindow = false)
    (wd : UInt32 → Option WCodec) (f f' : Frame) (hwf : WF f) (id : UInt32) (p : Bytes) (hm : f.msg = .raw id p)
    (st : Msg.GoStruct) (rw : Msg.RW) (hinit : Msg.init st = .ok rw) (hc : d id = some (codecOf rw))
    (wc : WCodec) (hwc : wd id = some wc) (hsame : wc.encode = (codecOf rw).encode)
    (hg : dialectGate cfg f = .frame f') :
    ∃ f2, WF f2 ∧ frameWrite (some wd) f' = .ok (specBytes f2, f2) ∧ dialectGate cfg f2 = .frame f' :=
  forward_dialect_valid cfg d hd ho wd f f' hwf id p hm (codecOf rw) hc (accepted_codec_consistent st rw hinit) wc hwc hsame hg

/-- **C08 (FixFrame).** After `Node.FixFrame` succeeds the frame carries the checksum of its (re-encoded) payload and,
    for a v2 frame on a node with an outgoing key, the signature of its signed bytes under that key. -/
theorem fixframe_valid (H : Bytes → Bytes) (wd : UInt32 → Option WCodec) (key : Option Bytes) (f f' : Frame)
    (h : fixFrame H (some wd) key f = .ok f') :
    ∃ id p codec, f'.msg = .raw id p ∧ wd id = some codec ∧ f'.genChecksum codec.crcExtra = .ok f'.crc ∧
      (∀ g k, f' = .v2 g → key = some k → g.genSignature H k = .ok (g.sig.getD [])) := by
  unfold fixFrame at h
  cases he : encodeInFrame (some wd) f with
  | error e => cases e <;> simp [he] at h
  | ok f1 =>
    simp only [he] at h
    cases hcodec : wd f1.msg.id with
    | none => simp [hcodec] at h
    | some codec =>
      simp only [hcodec] at h
      cases hsum : f1.genChecksum codec.crcExtra with
      | error e => simp [hsum] at h
      | ok sum =>
        simp only [hsum] at h
        cases f1 with
        | v1 g =>
          simp at h; subst h
          cases hm : g.msg with
          | dec id v => simp [Frame.genChecksum, hm] at hsum
          | raw id p =>
            refine ⟨id, p, codec, by simp [Frame.msg, hm], by simpa [Frame.msg, hm, Msg.id] using hcodec, ?_, ?_⟩
            · simp [Frame.genChecksum, hm, V1Frame.crcInput, Frame.crc, Msg.id] at hsum ⊢; exact hsum
            · intro g' k hg; simp at hg
        | v2 g =>
          cases hm : g.msg with
          | dec id v => simp [Frame.genChecksum, hm] at hsum
          | raw id p =>
            cases key with
            | none =>
              simp at h; subst h
              refine ⟨id, p, codec, by simp [Frame.msg, hm], by simpa [Frame.msg, hm, Msg.id] using hcodec, ?_, ?_⟩
              · simp [Frame.genChecksum, hm, V2Frame.crcInput, Frame.crc, Msg.id] at hsum ⊢; exact hsum
              · intro g' k _ hk; simp at hk
            | some k =>
              simp only [V2Frame.genSignature, hm] at h
              simp at h; subst h
              refine ⟨id, p, codec, by simp [Frame.msg, hm], by simpa [Frame.msg, hm, Msg.id] using hcodec, ?_, ?_⟩
              · simp [Frame.genChecksum, hm, V2Frame.crcInput, Frame.crc, Msg.id] at hsum ⊢; exact hsum
              · intro g' k' hg hk
                simp at hg hk
                subst hg hk
                simp [V2Frame.genSignature, hm, V2Frame.sigInput]

end Mav.C08
