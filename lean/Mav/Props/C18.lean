import Mav.Spec.Gen18
import Mav.Gen.Src
/-
  C18 — the dialect generator: generated Go means what the XML says.
  Model: Mav/Model/Gen18.lean (pkg/conversion: name conversion, type syntax, enum values, includes with the processed set,
  version override), composed with the run-time model of C03 (Mav/Model/Msg.lean). Spec: Mav/Spec/Gen18.lean (XML level).
  The theorems below are universal: every message name following the rule, every field name, every array length, every
  a**b, every include graph. The equality model = spec on whole dialect sets, and model = compiled generated code, are
  decided by differential runs (./check C18).
-/
namespace Mav.C18
open Mav.Gen18 Mav.Msg

theorem ge_toNat (a c : Char) (h : a ≤ c) : a.toNat ≤ c.toNat := UInt32.le_iff_toNat_le.mp h
theorem le_toNat (a c : Char) (h : c ≤ a) : c.toNat ≤ a.toNat := UInt32.le_iff_toNat_le.mp h

/-- every property of the characters in a range of at most 26 code points, by enumeration -/
theorem range_cases (lo : Nat) (P : Char → Prop) (h : ∀ i : Fin 26, P (Char.ofNat (lo + i.val))) (c : Char)
    (h1 : lo ≤ c.toNat) (h2 : c.toNat < lo + 26) : P c := by
  have := h ⟨c.toNat - lo, by omega⟩
  simp only [] at this
  have e : lo + (c.toNat - lo) = c.toNat := by omega
  rw [e, Char.ofNat_toNat] at this
  exact this

theorem upper_cases (P : Char → Prop) (h : ∀ i : Fin 26, P (Char.ofNat (65 + i.val))) (c : Char) (hc : isUpper c = true) : P c := by
  simp only [isUpper, Bool.and_eq_true, decide_eq_true_eq] at hc
  exact range_cases 65 P h c (ge_toNat 'A' c hc.1) (by have := le_toNat 'Z' c hc.2; simp at this; omega)

theorem digit_cases (P : Char → Prop) (h : ∀ i : Fin 26, i.val < 10 → P (Char.ofNat (48 + i.val))) (c : Char) (hc : isDigit c = true) : P c := by
  simp only [isDigit, Bool.and_eq_true, decide_eq_true_eq] at hc
  have h1 := ge_toNat '0' c hc.1
  have h2 := le_toNat '9' c hc.2
  simp at h1 h2
  have := h ⟨c.toNat - 48, by omega⟩ (by simp; omega)
  simp only [] at this
  have e : 48 + (c.toNat - 48) = c.toNat := by omega
  rw [e, Char.ofNat_toNat] at this
  exact this

/-- what the proofs need to know about a capital letter -/
theorem upper_facts (c : Char) (hc : isUpper c = true) :
    c.toLower.toUpper = c ∧ isLowerAZ c.toLower = true ∧ c.toLower ≠ '_' ∧ isUpper c.toLower = false ∧ c ≠ '_' ∧ c.toUpper = c := by
  refine upper_cases (fun c => c.toLower.toUpper = c ∧ isLowerAZ c.toLower = true ∧ c.toLower ≠ '_' ∧ isUpper c.toLower = false ∧ c ≠ '_' ∧ c.toUpper = c) ?_ c hc
  decide

theorem digit_facts (c : Char) (hc : isDigit c = true) :
    c.toLower = c ∧ c.toUpper = c ∧ c ≠ '_' ∧ isUpper c = false ∧ isLowerAZ c = false := by
  refine digit_cases (fun c => c.toLower = c ∧ c.toUpper = c ∧ c ≠ '_' ∧ isUpper c = false ∧ isLowerAZ c = false) ?_ c hc
  decide
end Mav.C18
namespace Mav.C18
open Mav.Gen18 Mav.Msg

def nameChar (c : Char) : Bool := isUpper c || isDigit c || c == '_'

theorem camel_cons_ne (c : Char) (r : List Char) (h : c ≠ '_') : camel (c :: r) = c :: camel r := by
  cases r with
  | nil => simp [camel]
  | cons d r =>
    rw [camel]
    · intro c' r' h1; exact absurd h1 (by simpa using h)

theorem roundtrip_tail : ∀ (n : Nat) (r : List Char), r.length ≤ n → r.all nameChar = true →
    (underscores (camel (r.map Char.toLower))).map Char.toUpper = r := by
  intro n
  induction n with
  | zero => intro r h _; cases r <;> simp_all [camel, underscores]
  | succ n ih =>
    intro r hl hall
    cases r with
    | nil => simp [camel, underscores]
    | cons c r =>
      simp only [List.all_cons, Bool.and_eq_true] at hall
      have hr := hall.2
      have hc := hall.1
      simp only [nameChar, Bool.or_eq_true, beq_iff_eq] at hc
      rcases hc with (hu | hd) | hus
      · -- a capital letter
        obtain ⟨f1, f2, f3, f4, f5, f6⟩ := upper_facts c hu
        simp only [List.map_cons]
        rw [camel_cons_ne _ _ f3]
        simp only [underscores, f4, Bool.false_eq_true, if_false, List.map_cons, f1]
        rw [ih r (by simp at hl; omega) hr]
      · obtain ⟨f1, f2, f3, f4, f5⟩ := digit_facts c hd
        simp only [List.map_cons, f1]
        rw [camel_cons_ne _ _ f3]
        simp only [underscores, f4, Bool.false_eq_true, if_false, List.map_cons, f2]
        rw [ih r (by simp at hl; omega) hr]
      · subst hus
        cases r with
        | nil => decide
        | cons d r =>
          simp only [List.all_cons, Bool.and_eq_true] at hr
          have hd := hr.1
          simp only [nameChar, Bool.or_eq_true, beq_iff_eq] at hd
          have hlow : Char.toLower '_' = '_' := by decide
          rcases hd with (hu | hdg) | hus
          · obtain ⟨f1, f2, f3, f4, f5, f6⟩ := upper_facts d hu
            simp only [List.map_cons, hlow, camel, f2, if_true]
            simp only [f1, underscores, hu, if_true, List.map_cons, f6]
            rw [ih r (by simp at hl; omega) hr.2]
            simp
          · obtain ⟨f1, f2, f3, f4, f5⟩ := digit_facts d hdg
            have := ih (d :: r) (by simp at hl ⊢; omega) (by simp [List.all_cons, hr.2]; simp [nameChar, hdg])
            simp only [List.map_cons, hlow, f1] at this ⊢
            simp only [camel, f5, Bool.false_eq_true, if_false]
            have hnu : isUpper '_' = false := by decide
            simp only [underscores, hnu, Bool.false_eq_true, if_false, List.map_cons]
            rw [this]; simp
          · subst hus
            have := ih ('_' :: r) (by simp at hl ⊢; omega) (by simp [List.all_cons, hr.2]; decide)
            simp only [List.map_cons, hlow] at this ⊢
            have hnl : isLowerAZ '_' = false := by decide
            simp only [camel, hnl, Bool.false_eq_true, if_false]
            have hnu : isUpper '_' = false := by decide
            simp only [underscores, hnu, Bool.false_eq_true, if_false, List.map_cons]
            rw [this]; simp
end Mav.C18
namespace Mav.C18
open Mav.Gen18 Mav.Msg

/-- the MAVLink naming rule for message names: a capital letter, then capital letters, digits and underscores -/
def msgNameRule (s : String) : Bool :=
  match s.toList with
  | [] => false
  | c :: r => isUpper c && r.all nameChar

theorem msg_name_roundtrip_list (c : Char) (r : List Char) (hc : isUpper c = true) (hr : r.all nameChar = true) :
    ((underscores (defToGoL (c :: r))).drop 1).map Char.toUpper = c :: r := by
  obtain ⟨f1, f2, f3, f4, f5, f6⟩ := upper_facts c hc
  simp only [defToGoL, List.map_cons]
  rw [camel_cons_ne _ _ f3]
  simp only [f1, underscores, hc, if_true, List.drop_succ_cons, List.drop_zero, List.map_cons, f6]
  rw [roundtrip_tail r.length r (Nat.le_refl _) hr]

/-- **C18 (message names survive).** For every message name that follows the naming rule, the name the run-time derives from
    the generated Go type name — the only thing it has, there is no tag for message names — is the XML name. -/
theorem msg_name_roundtrip (s : String) (h : msgNameRule s = true) : msgGoToDef (defToGo s) = s := by
  unfold msgNameRule at h
  cases hs : s.toList with
  | nil => rw [hs] at h; cases h
  | cons c r =>
    rw [hs] at h
    simp only [Bool.and_eq_true] at h
    unfold msgGoToDef defToGo
    rw [hs, String.toList_ofList, msg_name_roundtrip_list c r h.1 h.2, ← hs, String.ofList_toList]

/-- names outside the rule are NOT recovered (the rule is needed, and the generator does not report them) -/
example : msgGoToDef (defToGo "2D_POS") ≠ "2D_POS" ∧ msgGoToDef (defToGo "_POS") ≠ "_POS" := by decide
example : msgNameRule "GPS2_RAW_2D__X_" = true ∧ msgGoToDef (defToGo "GPS2_RAW_2D__X_") = "GPS2_RAW_2D__X_" := by decide
end Mav.C18
namespace Mav.C18
open Mav.Gen18 Mav.Msg

/-! ### field names -/
theorem processField_names (f : XField) (g : GoField) (h : processField f = some g) :
    g.goName = defToGo f.name ∧ g.mavname = (if goToDef (defToGo f.name) != f.name then f.name else "") := by
  unfold processField at h
  split at h
  · cases h
  · split at h
    · cases h
    · simp only [Option.some.injEq] at h
      rw [← h]
      constructor <;> simp only [mkField]

/-- **C18 (field names survive, whatever they look like).** The name the run-time uses for a field of the generated struct —
    the `mavname` tag when there is one, the inversion of the Go name otherwise — is the XML name: the tag is emitted exactly
    when the inversion would not give it back. No assumption on the name. -/
theorem field_name_recovered (f : XField) (g : GoField) (h : processField f = some g) (hn : f.name ≠ "") :
    (if g.mavname ≠ "" then g.mavname else fieldGoToDef g.goName) = f.name := by
  obtain ⟨h1, h2⟩ := processField_names f g h
  rw [h1, h2]
  by_cases hc : (goToDef (defToGo f.name) != f.name) = true
  · simp [hc, hn]
  · simp only [hc, Bool.false_eq_true, if_false, ne_eq, not_true_eq_false]
    simp only [bne_iff_ne, ne_eq, Decidable.not_not] at hc
    exact hc
end Mav.C18
namespace Mav.C18
open Mav.Gen18 Mav.Msg

/-! ### types -/

/-- **C18 (type table).** Every scalar type of the MAVLink schema is mapped to the Go type the run-time reads back as that very
    type (the alias `uint8_t_mavlink_version` as `uint8_t`). -/
theorem type_table :
    ∀ t ∈ ["double", "uint64_t", "int64_t", "float", "uint32_t", "int32_t", "uint16_t", "int16_t", "uint8_t", "int8_t", "char",
            "uint8_t_mavlink_version"],
      (typeToGo (splitType t).1).bind Gen.fieldTypeFromGo = Spec.Gen18.xmlType t ∧ (splitType t).2 = ("", "") := by decide

/-- `reTypeIsArray` on `base[n]`: the base and the digits, for every base without a bracket at its end and every n -/
theorem splitArray_render (base digs : List Char) (hb : base ≠ []) (hd : digs ≠ []) (hdig : digs.all isDigit = true) :
    splitArray (String.ofList (base ++ '[' :: digs ++ [']'])) = some (String.ofList base, String.ofList digs) := by
  unfold splitArray
  simp only [String.toList_ofList]
  have hrev : (base ++ '[' :: digs ++ [']']).reverse = ']' :: (digs.reverse ++ '[' :: base.reverse) := by simp
  rw [hrev]
  have htw : (digs.reverse ++ '[' :: base.reverse).takeWhile isDigit = digs.reverse := by
    rw [List.takeWhile_append_of_pos (by intro x hx; exact List.all_eq_true.mp hdig x (List.mem_reverse.mp hx))]
    simp [List.takeWhile, show isDigit '[' = false by decide]
  simp only [htw, List.length_reverse]
  have hdrop : (digs.reverse ++ '[' :: base.reverse).drop digs.length = '[' :: base.reverse := by
    rw [← List.length_reverse]; simp
  rw [hdrop]
  simp [hb, hd]

/-! ### enum values written `a**b` -/

theorem pow_split (b e : Nat) : b ^ e = b ^ (e % 2) * (b * b) ^ (e / 2) := by
  conv => lhs; rw [← Nat.mod_add_div e 2]
  rw [Nat.pow_add, Nat.pow_mul, Nat.pow_two]

/-- a power that fits: no step overflows and the result is exact (`r ≥ 1` or `b = 0`: the accumulator starts at 1) -/
theorem uintPow_fits (fuel : Nat) : ∀ (b e r : Nat), e < 2 ^ fuel → (1 ≤ r ∨ b = 0) → r * b ^ e < 2 ^ 64 →
    uintPow fuel b e r = some (r * b ^ e) := by
  induction fuel with
  | zero => intro b e r he _ _; simp at he; subst he; simp [uintPow]
  | succ fuel ih =>
    intro b e r he hrb hfit
    have hq : e / 2 < 2 ^ fuel := by rw [Nat.pow_succ] at he; omega
    have hsplit := pow_split b e
    unfold uintPow
    by_cases hodd : e % 2 = 1
    · -- odd exponent: result * base is a factor of the final value
      rw [hsplit, hodd, Nat.pow_one, ← Nat.mul_assoc] at hfit
      have hpos : 1 ≤ (b * b) ^ (e / 2) ∨ b = 0 := by
        rcases Nat.eq_zero_or_pos b with h | h
        · exact Or.inr h
        · exact Or.inl (Nat.pow_pos (Nat.mul_pos h h))
      have hrb1 : r * b < 2 ^ 64 := by
        rcases hpos with h | h
        · exact Nat.lt_of_le_of_lt (Nat.le_mul_of_pos_right _ h) hfit
        · subst h; simp
      have hn : ¬ (e % 2 = 1 ∧ 2 ^ 64 ≤ r * b) := by omega
      rw [if_neg hn]
      simp only [hodd, if_true]
      by_cases hz : e / 2 = 0
      · simp only [hz, if_true]
        have : e = 1 := by omega
        subst this; simp
      · simp only [hz, if_false]
        have hrb' : 1 ≤ r * b ∨ b * b = 0 := by
          rcases hrb with h | h
          · rcases Nat.eq_zero_or_pos b with hb | hb
            · subst hb; exact Or.inr rfl
            · exact Or.inl (Nat.mul_pos h hb)
          · subst h; exact Or.inr rfl
        have hbb : ¬ 2 ^ 64 ≤ b * b := by
          rcases hrb' with h | h
          · have h1 : 1 ≤ e / 2 := by omega
            have h2 : b * b ≤ (b * b) ^ (e / 2) := by
              calc b * b = (b * b) ^ 1 := by simp
                _ ≤ (b * b) ^ (e / 2) := by
                  rcases Nat.eq_zero_or_pos (b * b) with h0 | h0
                  · rw [h0]; simp
                  · exact Nat.pow_le_pow_right h0 h1
            have h3 : (b * b) ^ (e / 2) ≤ r * b * (b * b) ^ (e / 2) := Nat.le_mul_of_pos_left _ h
            omega
          · rw [h]; decide
        simp only [hbb, if_false]
        rw [ih (b * b) (e / 2) (r * b) hq hrb' hfit, hsplit, hodd, Nat.pow_one, Nat.mul_assoc]
    · have h0 : e % 2 = 0 := by omega
      rw [hsplit, h0, Nat.pow_zero, Nat.one_mul] at hfit
      have hn : ¬ (e % 2 = 1 ∧ 2 ^ 64 ≤ r * b) := by omega
      rw [if_neg hn]
      simp only [h0, show ((0 : Nat) = 1) = False by simp, if_false]
      by_cases hz : e / 2 = 0
      · simp only [hz, if_true]
        have : e = 0 := by omega
        subst this; simp
      · simp only [hz, if_false]
        have hrb' : 1 ≤ r ∨ b * b = 0 := by
          rcases hrb with h | h
          · exact Or.inl h
          · subst h; exact Or.inr rfl
        have hbb : ¬ 2 ^ 64 ≤ b * b := by
          rcases hrb' with h | h
          · have h1 : 1 ≤ e / 2 := by omega
            have h2 : b * b ≤ (b * b) ^ (e / 2) := by
              calc b * b = (b * b) ^ 1 := by simp
                _ ≤ (b * b) ^ (e / 2) := by
                  rcases Nat.eq_zero_or_pos (b * b) with h0' | h0'
                  · rw [h0']; simp
                  · exact Nat.pow_le_pow_right h0' h1
            have h3 : (b * b) ^ (e / 2) ≤ r * (b * b) ^ (e / 2) := Nat.le_mul_of_pos_left _ h
            omega
          · rw [h]; decide
        simp only [hbb, if_false]
        rw [ih (b * b) (e / 2) r hq hrb' hfit, hsplit, h0, Nat.pow_zero, Nat.one_mul]

/-- a power that does not fit is reported, never wrapped -/
theorem uintPow_overflow (fuel : Nat) : ∀ (b e r : Nat), e < 2 ^ fuel → 2 ^ 64 ≤ r * b ^ e → r < 2 ^ 64 →
    uintPow fuel b e r = none := by
  induction fuel with
  | zero => intro b e r he hbig hr; simp at he; subst he; simp at hbig; omega
  | succ fuel ih =>
    intro b e r he hbig hr
    have hq : e / 2 < 2 ^ fuel := by rw [Nat.pow_succ] at he; omega
    have hsplit := pow_split b e
    unfold uintPow
    by_cases hodd : e % 2 = 1
    · rw [hsplit, hodd, Nat.pow_one, ← Nat.mul_assoc] at hbig
      by_cases hov : 2 ^ 64 ≤ r * b
      · simp [hodd, hov]
      · have hn : ¬ (e % 2 = 1 ∧ 2 ^ 64 ≤ r * b) := fun h => hov h.2
        rw [if_neg hn]
        simp only [hodd, if_true]
        by_cases hz : e / 2 = 0
        · rw [hz] at hbig; simp at hbig; omega
        · simp only [hz, if_false]
          by_cases hbb : 2 ^ 64 ≤ b * b
          · simp [hbb]
          · simp only [hbb, if_false]
            exact ih (b * b) (e / 2) (r * b) hq hbig (by omega)
    · have h0 : e % 2 = 0 := by omega
      rw [hsplit, h0, Nat.pow_zero, Nat.one_mul] at hbig
      have hn : ¬ (e % 2 = 1 ∧ 2 ^ 64 ≤ r * b) := by omega
      rw [if_neg hn]
      simp only [h0, show ((0 : Nat) = 1) = False by simp, if_false]
      by_cases hz : e / 2 = 0
      · rw [hz] at hbig; simp at hbig; omega
      · simp only [hz, if_false]
        by_cases hbb : 2 ^ 64 ≤ b * b
        · simp [hbb]
        · simp only [hbb, if_false]
          exact ih (b * b) (e / 2) r hq hbig hr

/-- **C18 (a**b).** `uintPow` is exact exponentiation: whenever the power fits 64 bits, the constant is the XML value … -/
theorem power_value (a b : Nat) (hb : b < 2 ^ 64) (hfit : a ^ b < 2 ^ 64) : uintPow 64 a b 1 = some (a ^ b) := by
  have := uintPow_fits 64 a b 1 hb (Or.inl (Nat.le_refl 1)) (by simpa using hfit)
  simpa using this

/-- … and when it does not fit, the definition is refused ("a definition the generator cannot express is reported as an error"),
    never turned into a wrapped constant -/
theorem power_value_too_big (a b : Nat) (hb : b < 2 ^ 64) (hbig : 2 ^ 64 ≤ a ^ b) : uintPow 64 a b 1 = none :=
  uintPow_overflow 64 a b 1 hb (by simpa using hbig) (by decide)

example : parseValue "2**31" = some 2147483648 ∧ parseValue "0x1F" = some 31 ∧ parseValue "0b101" = some 5 ∧ parseValue "17" = some 17 := by decide
/-- a power that does not fit is not a value (before the repair 1ed… `2**64` became the constant 0) -/
example : parseValue "2**64" = none ∧ parseValue "3**41" = none ∧ parseValue "3**40" = some 12157665459056928801 := by decide

end Mav.C18
namespace Mav.C18
open Mav.Gen18 Mav.Msg

/-! ### includes: every file once -/

/-- what one call of `processDefinition` may do to the state -/
def Q (v : List String) (o : List XFile) (v' : List String) (o' : List XFile) : Prop :=
  (∀ x ∈ v, x ∈ v') ∧ ∃ add, o' = o ++ add ∧ (∀ g ∈ add, g.name ∉ v ∧ g.name ∈ v') ∧ (add.map (·.name)).Nodup

theorem Q_refl (v : List String) (o : List XFile) : Q v o v o := ⟨fun _ h => h, [], by simp, by simp, by simp⟩

theorem Q_trans {v o v1 o1 v2 o2} (h1 : Q v o v1 o1) (h2 : Q v1 o1 v2 o2) : Q v o v2 o2 := by
  obtain ⟨s1, a1, e1, m1, n1⟩ := h1
  obtain ⟨s2, a2, e2, m2, n2⟩ := h2
  refine ⟨fun x hx => s2 x (s1 x hx), a1 ++ a2, by rw [e2, e1, List.append_assoc], ?_, ?_⟩
  · intro g hg
    rcases List.mem_append.mp hg with hg | hg
    · exact ⟨(m1 g hg).1, s2 _ (m1 g hg).2⟩
    · exact ⟨fun hv => (m2 g hg).1 (s1 _ hv), (m2 g hg).2⟩
  · rw [List.map_append, List.nodup_append]
    refine ⟨n1, n2, ?_⟩
    intro x hx y hy hxy
    obtain ⟨g1, hg1, rfl⟩ := List.mem_map.mp hx
    obtain ⟨g2, hg2, rfl⟩ := List.mem_map.mp hy
    exact (m2 g2 hg2).1 (hxy ▸ (m1 g1 hg1).2)

theorem foldl_none (fs : List XFile) (fuel : Nat) (incs : List String) :
    incs.foldl (fun st inc => st.bind (processDef fs fuel inc)) none = none := by
  induction incs with
  | nil => rfl
  | cons i r ih => simpa using ih

theorem fold_Q (fs : List XFile) (fuel : Nat)
    (hstep : ∀ name v o v' o', processDef fs fuel name (v, o) = some (v', o') → Q v o v' o') :
    ∀ (incs : List String) (v : List String) (o : List XFile) (v' : List String) (o' : List XFile),
      incs.foldl (fun st inc => st.bind (processDef fs fuel inc)) (some (v, o)) = some (v', o') → Q v o v' o' := by
  intro incs
  induction incs with
  | nil => intro v o v' o' h; simp at h; obtain ⟨rfl, rfl⟩ := h; exact Q_refl v o
  | cons i r ih =>
    intro v o v' o' h
    simp only [List.foldl_cons, Option.bind_some] at h
    cases hp : processDef fs fuel i (v, o) with
    | none => rw [hp, foldl_none] at h; cases h
    | some st =>
      obtain ⟨v1, o1⟩ := st
      rw [hp] at h
      exact Q_trans (hstep i v o v1 o1 hp) (ih v1 o1 v' o' h)

theorem lookup_name (fs : List XFile) (n : String) (f : XFile) (h : lookupFile fs n = some f) : f.name = n := by
  unfold lookupFile at h
  have := List.find?_some h
  simpa using this

theorem processDef_Q (fs : List XFile) : ∀ (fuel : Nat) (name : String) (v : List String) (o : List XFile) (v' : List String) (o' : List XFile),
    processDef fs fuel name (v, o) = some (v', o') → Q v o v' o' := by
  intro fuel
  induction fuel with
  | zero => intro name v o v' o' h; simp [processDef] at h
  | succ fuel ih =>
    intro name v o v' o' h
    simp only [processDef] at h
    by_cases hv : v.contains name = true
    · simp only [hv, if_true, Option.some.injEq, Prod.mk.injEq] at h
      obtain ⟨rfl, rfl⟩ := h; exact Q_refl v o
    · simp only [hv, Bool.false_eq_true, if_false] at h
      cases hl : lookupFile fs name with
      | none => simp [hl] at h
      | some f =>
        simp only [hl] at h
        cases hf : f.includes.foldl (fun st inc => st.bind (processDef fs fuel inc)) (some (name :: v, o)) with
        | none => simp [hf] at h
        | some st =>
          obtain ⟨v1, o1⟩ := st
          simp only [hf, Option.map_some, Option.some.injEq, Prod.mk.injEq] at h
          obtain ⟨rfl, rfl⟩ := h
          obtain ⟨s1, add, e1, m1, n1⟩ := fold_Q fs fuel ih f.includes (name :: v) o v1 o1 hf
          have hname := lookup_name fs name f hl
          have hnv : name ∉ v := by simpa using hv
          refine ⟨fun x hx => s1 x (List.mem_cons_of_mem _ hx), add ++ [f], by rw [e1, List.append_assoc], ?_, ?_⟩
          · intro g hg
            rcases List.mem_append.mp hg with hg | hg
            · exact ⟨fun h' => (m1 g hg).1 (List.mem_cons_of_mem _ h'), (m1 g hg).2⟩
            · simp at hg; subst hg; rw [hname]; exact ⟨hnv, s1 _ (List.mem_cons_self ..)⟩
          · rw [List.map_append, List.nodup_append]
            refine ⟨n1, by simp, ?_⟩
            intro x hx y hy hxy
            obtain ⟨g1, hg1, rfl⟩ := List.mem_map.mp hx
            simp at hy; subst hy
            rw [hname] at hxy
            exact (m1 g1 hg1).1 (hxy ▸ List.mem_cons_self ..)

/-- **C18 (includes, diamonds included).** Whatever the include graph — shared includes, repeated includes, cycles — the
    definitions a dialect is generated from contain every file at most once: no message, enum or version is processed twice. -/
theorem every_file_once (fs out : List XFile) (h : processed fs = some out) : (out.map (·.name)).Nodup := by
  unfold processed at h
  cases fs with
  | nil => cases h
  | cons root rest =>
    simp only at h
    cases hp : processDef (root :: rest) ((root :: rest).length + 1) root.name ([], []) with
    | none => rw [hp] at h; cases h
    | some st =>
      obtain ⟨v, o⟩ := st
      rw [hp] at h; simp at h; subst h
      obtain ⟨_, add, e, _, n⟩ := processDef_Q _ _ _ _ _ _ _ hp
      simp at e; rw [e]; exact n

/-- a diamond: root includes a and b, both include base -/
example : (processed [⟨"root", "", ["a", "b"], [], []⟩, ⟨"a", "2", ["base"], [], []⟩, ⟨"b", "", ["base"], [], []⟩, ⟨"base", "5", [], [], []⟩]).map
    (fun o => (o.map (·.name), versionNum (versionOf o))) = some (["base", "a", "b", "root"], 2) := by decide

/-- the generator's name inversion is the run-time's: the two function bodies are the same text in the current source -/
theorem inverse_is_the_runtimes : Gen.src_conversion_body_dialectNameGoToDef = Gen.src_message_body_fieldGoToDef := by decide

end Mav.C18
