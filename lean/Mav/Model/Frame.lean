import Mav.Model.Msg
import Mav.Gen.Consts
/-
  MODEL of pkg/frame: V1Frame / V2Frame, marshalTo, GenerateChecksum, GenerateSignature input.
-/
namespace Mav

inductive Msg
  | raw (id : UInt32) (payload : Bytes)
  | dec (id : UInt32) (vals : List Msg.FVal)
deriving Repr, DecidableEq, Inhabited

def Msg.id : Msg → UInt32
  | .raw i _ => i
  | .dec i _ => i

structure V1Frame where
  seq : UInt8
  sys : UInt8
  comp : UInt8
  msg : Msg
  crc : UInt16
deriving Repr, DecidableEq, Inhabited

structure V2Frame where
  incompat : UInt8
  compat : UInt8
  seq : UInt8
  sys : UInt8
  comp : UInt8
  msg : Msg
  crc : UInt16
  linkId : UInt8 := 0
  ts : UInt64 := 0
  sig : Option Bytes := none      -- *V2Signature ([6]byte) or nil
deriving Repr, DecidableEq, Inhabited

inductive Frame
  | v1 (f : V1Frame)
  | v2 (f : V2Frame)
deriving Repr, DecidableEq, Inhabited

def Frame.msg : Frame → Msg
  | .v1 f => f.msg
  | .v2 f => f.msg

def Frame.setMsg : Frame → Msg → Frame
  | .v1 f, m => .v1 { f with msg := m }
  | .v2 f, m => .v2 { f with msg := m }

def Frame.crc : Frame → UInt16
  | .v1 f => f.crc
  | .v2 f => f.crc

def Frame.isV2 : Frame → Bool
  | .v1 _ => false
  | .v2 _ => true

def V2Frame.isSigned (f : V2Frame) : Bool := (f.incompat &&& Gen.v2FlagSigned) != 0

/-- byte(len(x)) -/
def lenByte (p : Bytes) : UInt8 := UInt8.ofNat p.length

/-! uint24/uint48 packing: regenerated from pkg/frame/v2_frame.go (TIE-G, G-expr) -/
abbrev uint24Encode := Gen.uint24Encode
abbrev uint24Decode := Gen.uint24Decode
abbrev uint48Encode := Gen.uint48Encode
abbrev uint48Decode := Gen.uint48Decode

/-- bytes hashed by V1Frame.GenerateChecksum (before the CRC_EXTRA byte) -/
def V1Frame.crcInput (f : V1Frame) (payload : Bytes) : Bytes :=
  [lenByte payload, f.seq, f.sys, f.comp, f.msg.id.toUInt8] ++ payload

def V2Frame.crcInput (f : V2Frame) (payload : Bytes) : Bytes :=
  [lenByte payload, f.incompat, f.compat, f.seq, f.sys, f.comp] ++ uint24Encode f.msg.id ++ payload

inductive Panic | notRaw | nilSig | index
deriving Repr, DecidableEq

/-- GenerateChecksum: panics (type assertion) if the message is not raw -/
def Frame.genChecksum (f : Frame) (crcExtra : UInt8) : Except Panic UInt16 :=
  match f with
  | .v1 g => match g.msg with
    | .raw _ p => .ok (X25.sum (g.crcInput p ++ [crcExtra]))
    | _ => .error .notRaw
  | .v2 g => match g.msg with
    | .raw _ p => .ok (X25.sum (g.crcInput p ++ [crcExtra]))
    | _ => .error .notRaw

/-- bytes hashed by GenerateSignature after the key -/
def V2Frame.sigInput (f : V2Frame) (payload : Bytes) : Bytes :=
  [Gen.v2MagicByte, lenByte payload, f.incompat, f.compat, f.seq, f.sys, f.comp] ++ uint24Encode f.msg.id
    ++ payload ++ le16 f.crc ++ [f.linkId] ++ uint48Encode f.ts

def V2Frame.genSignature (H : Bytes → Bytes) (key : Bytes) (f : V2Frame) : Except Panic Bytes :=
  match f.msg with
  | .raw _ p => .ok ((H (key ++ f.sigInput p)).take 6)
  | _ => .error .notRaw

inductive MarshalRes
  | ok (bs : Bytes)
  | errV1Id
  | panic (p : Panic)
deriving Repr, DecidableEq

/-- append with capacity: `copy(buf[n:], src)` truncates silently -/
def copyInto (cap : Nat) (acc src : Bytes) : Bytes := acc ++ src.take (cap - acc.length)

/-- write of `k` bytes at `buf[n:]` by indexing / PutUint16: panics when they do not fit -/
def putInto (cap : Nat) (acc src : Bytes) : Option Bytes :=
  if acc.length + src.length ≤ cap then some (acc ++ src) else none

/-- V1Frame.marshalTo / V2Frame.marshalTo on the writer's `bufferSize` scratch buffer -/
def Frame.marshal (cap : Nat) (f : Frame) : MarshalRes :=
  match f with
  | .v1 g =>
    match g.msg with
    | .dec _ _ => .panic .notRaw
    | .raw id p =>
      if id > 0xFF then .errV1Id else
      match putInto cap [] [Gen.v1MagicByte, lenByte p, g.seq, g.sys, g.comp, id.toUInt8] with
      | none => .panic .index
      | some a =>
        let a := copyInto cap a p
        match putInto cap a (le16 g.crc) with
        | none => .panic .index
        | some a => .ok a
  | .v2 g =>
    match g.msg with
    | .dec _ _ => .panic .notRaw
    | .raw id p =>
      match putInto cap [] ([Gen.v2MagicByte, lenByte p, g.incompat, g.compat, g.seq, g.sys, g.comp] ++ uint24Encode id) with
      | none => .panic .index
      | some a =>
        let a := copyInto cap a p
        match putInto cap a (le16 g.crc) with
        | none => .panic .index
        | some a =>
          if g.isSigned then
            match putInto cap a ([g.linkId] ++ uint48Encode g.ts) with
            | none => .panic .index
            | some a =>
              match g.sig with
              | none => .panic .nilSig
              | some s => .ok (copyInto cap a s)
          else .ok a

end Mav
