import Mav.Gen.Consts
/-
  MODEL of `goFileName` (pkg/conversion/conversion.go): the name of the file of a message or of an enum.
    base := prefix + strings.ToLower(name)
    if _, ok := reservedFileSuffixes[base[strings.LastIndexByte(base, '_')+1:]]; ok { base += "_" }
    return base + ".go"
  The table `reservedFileSuffixes` is regenerated from the source (Mav/Gen/Consts.lean).
-/
namespace Mav.Model.GenFile

/-- `base[strings.LastIndexByte(base, '_')+1:]`: what follows the last underscore (everything when there is none) -/
def lastElem (cs : List Char) : List Char := (cs.reverse.takeWhile (· != '_')).reverse

def lower (cs : List Char) : List Char := cs.map Char.toLower

/-- `kind` is "enum" or "message"; the prefix of the source is `kind ++ "_"` -/
def goFileNameWith (reserved : List String) (kind name : List Char) : List Char :=
  let base := kind ++ '_' :: lower name
  if reserved.contains (String.ofList (lastElem base)) then base ++ ['_', '.', 'g', 'o'] else base ++ ['.', 'g', 'o']

def goFileName (kind name : List Char) : List Char := goFileNameWith Gen.reservedFileSuffixes kind name

example : String.ofList (goFileName "message".toList "SELF_TEST".toList) = "message_self_test_.go" := by decide
example : String.ofList (goFileName "enum".toList "HOST_WINDOWS".toList) = "enum_host_windows_.go" := by decide
example : String.ofList (goFileName "message".toList "HEARTBEAT".toList) = "message_heartbeat.go" := by decide

end Mav.Model.GenFile
