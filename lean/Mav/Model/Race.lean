/-
  MODEL (C15): goroutines as straight-line programs over shared variables and mutexes (sync.Mutex / sync.RWMutex), an
  interleaving semantics, and "data race" as a reachable state in which two different running goroutines are both about
  to access the same variable, at least one of them writing. Loops and branches are covered because the theorems hold for
  every program (every finite unrolling of every path).
-/
namespace Mav.Race

abbrev Gid := Nat
abbrev Var := Nat
abbrev Mu := Nat

inductive Op
  | read (v : Var) | write (v : Var)
  | lock (m : Mu) | unlock (m : Mu) | rlock (m : Mu) | runlock (m : Mu)
  | spawn (g : Gid)
  | other
deriving DecidableEq, Repr

structure St where
  progs : Gid → List Op          -- what each goroutine still has to execute
  started : Gid → Bool
  owner : Mu → Option Gid        -- goroutine holding the mutex exclusively
  readers : Mu → List Gid        -- goroutines holding it shared

def St.setProg (s : St) (g : Gid) (p : List Op) : St := { s with progs := fun i => if i = g then p else s.progs i }

/-- one goroutine executes its next operation -/
inductive Step : St → St → Prop
  | read (s g v rest) : s.started g = true → s.progs g = .read v :: rest → Step s (s.setProg g rest)
  | write (s g v rest) : s.started g = true → s.progs g = .write v :: rest → Step s (s.setProg g rest)
  | other (s g rest) : s.started g = true → s.progs g = .other :: rest → Step s (s.setProg g rest)
  | spawn (s g c rest) : s.started g = true → s.progs g = .spawn c :: rest →
      Step s { s.setProg g rest with started := fun i => if i = c then true else s.started i }
  | lock (s g m rest) : s.started g = true → s.progs g = .lock m :: rest → s.owner m = none → s.readers m = [] →
      Step s { s.setProg g rest with owner := fun i => if i = m then some g else s.owner i }
  | unlock (s g m rest) : s.started g = true → s.progs g = .unlock m :: rest → s.owner m = some g →
      Step s { s.setProg g rest with owner := fun i => if i = m then none else s.owner i }
  | rlock (s g m rest) : s.started g = true → s.progs g = .rlock m :: rest → s.owner m = none →
      Step s { s.setProg g rest with readers := fun i => if i = m then g :: s.readers i else s.readers i }
  | runlock (s g m rest) : s.started g = true → s.progs g = .runlock m :: rest → g ∈ s.readers m →
      Step s { s.setProg g rest with readers := fun i => if i = m then (s.readers i).erase g else s.readers i }

inductive Reach (s0 : St) : St → Prop
  | refl : Reach s0 s0
  | step {s s'} : Reach s0 s → Step s s' → Reach s0 s'

def accesses (v : Var) : Op → Bool
  | .read w => w == v
  | .write w => w == v
  | _ => false

def writes (v : Var) : Op → Bool
  | .write w => w == v
  | _ => false

/-- two different running goroutines are about to perform conflicting accesses to `v` -/
def RaceOn (v : Var) (s : St) : Prop :=
  ∃ g1 g2 o1 o2 r1 r2, g1 ≠ g2 ∧ s.started g1 = true ∧ s.started g2 = true ∧
    s.progs g1 = o1 :: r1 ∧ s.progs g2 = o2 :: r2 ∧ accesses v o1 = true ∧ accesses v o2 = true ∧
    (writes v o1 = true ∨ writes v o2 = true)

end Mav.Race
