import Mav.Basic
/-
  MODEL of the generated enum methods (pkg/conversion tplEnum → pkg/dialects/*/enum_*.go):
  MarshalText / UnmarshalText for plain and bitmask enums, strconv.Itoa / strconv.Atoi on int (64 bit).
  Texts are `List Char` (ASCII); the tables come from Mav/Gen/Enums_*.lean.
-/
namespace Mav.EnumText

/-- how MarshalText of a bitmask enum enumerates flags: the historical template looped over bit positions
    `i < n`; the repaired template ranges over the declared values -/
inductive Marshal
  | plain
  | bitLoop (n : Nat)
  | valueList (vs : List Nat)
deriving Repr, DecidableEq

structure EnumDef where
  name : String
  form : Marshal
  consts : List (String × Nat)
deriving Repr

/-! ### decimal numerals -/

/-- digits, least significant first -/
def digitsRev : Nat → Nat → List Nat
  | 0, _ => []
  | f + 1, n => if n < 10 then [n] else (n % 10) :: digitsRev f (n / 10)

def digitChar (d : Nat) : Char := Char.ofNat (48 + d)

def natToDec (n : Nat) : List Char := ((digitsRev (n + 1) n).reverse).map digitChar

/-- strconv.Itoa(int(e)) -/
def itoa (i : Int) : List Char :=
  if i < 0 then '-' :: natToDec i.natAbs else natToDec i.toNat

def digitVal (c : Char) : Option Nat := if '0' ≤ c ∧ c ≤ '9' then some (c.toNat - 48) else none

def decStep (acc : Option Nat) (c : Char) : Option Nat :=
  match acc, digitVal c with
  | some n, some d => some (n * 10 + d)
  | _, _ => none

def decToNat : List Char → Option Nat
  | [] => none
  | cs => cs.foldl decStep (some 0)

def atoiRaw : List Char → Option Int
  | [] => none
  | c :: r =>
    if c = '-' then (decToNat r).map (fun n => - (n : Int))
    else if c = '+' then (decToNat r).map (fun n => (n : Int))
    else (decToNat (c :: r)).map (fun n => (n : Int))

/-- strconv.Atoi: optional sign, at least one digit, digits only, result within int64 -/
def atoi (s : List Char) : Option Int :=
  match atoiRaw s with
  | some i => if -9223372036854775808 ≤ i ∧ i ≤ 9223372036854775807 then some i else none
  | none => none

/-! ### tables -/

def labelOf (d : EnumDef) (v : UInt64) : Option (List Char) :=
  (d.consts.find? (fun c => c.2 == v.toNat)).map (·.1.toList)

def valueOf (d : EnumDef) (name : List Char) : Option UInt64 :=
  (d.consts.find? (fun c => c.1.toList == name)).map (fun c => UInt64.ofNat c.2)

/-- `int(e)` for a uint64 e on a 64-bit platform -/
def toInt64 (v : UInt64) : Int := v.toInt64.toInt

/-- `ENUM(value)` for an int value -/
def ofInt64 (i : Int) : UInt64 := (Int64.ofInt i).toUInt64

def sep : List Char := [' ', '|', ' ']

def joinSep : List (List Char) → List Char
  | [] => []
  | [x] => x
  | x :: r => x ++ sep ++ joinSep r

/-- after a space: is the rest `"| " ++ r'`? -/
def sepTail : List Char → Option (List Char)
  | '|' :: ' ' :: r' => some r'
  | _ => none

theorem sepTail_length (r r' : List Char) (h : sepTail r = some r') : r'.length < r.length := by
  unfold sepTail at h
  split at h
  · simp at h; subst h; simp; omega
  · simp at h

/-- strings.Split(s, " | ") -/
def splitSep : List Char → List Char → List (List Char)
  | [], cur => [cur.reverse]
  | c :: r, cur =>
    if c = ' ' then
      match h : sepTail r with
      | some r' => cur.reverse :: splitSep r' []
      | none => splitSep r (c :: cur)
    else splitSep r (c :: cur)
termination_by l => l.length
decreasing_by
  · have := sepTail_length r r' h; simp; omega
  · simp
  · simp

def bitMask (i : Nat) : UInt64 := if i < 64 then (1 : UInt64) <<< UInt64.ofNat i else 0

/-- the masks MarshalText tests, in order -/
def masks (d : EnumDef) : List UInt64 :=
  match d.form with
  | .plain => []
  | .bitLoop n => (List.range n).map bitMask
  | .valueList vs => (vs.map UInt64.ofNat).filter (· != 0)

def marshal (d : EnumDef) (v : UInt64) : List Char :=
  match d.form with
  | .plain =>
    match labelOf d v with
    | some n => n
    | none => itoa (toInt64 v)
  | _ =>
    if v == 0 then ['0'] else
    joinSep (((masks d).filter (fun m => v &&& m == m)).map (fun m => (labelOf d m).getD []))

def parseLabel (d : EnumDef) (l : List Char) : Option UInt64 :=
  match valueOf d l with
  | some v => some v
  | none => (atoi l).map ofInt64

/-- one iteration of the label loop of a bitmask UnmarshalText -/
def orStep (d : EnumDef) (acc : Option UInt64) (l : List Char) : Option UInt64 :=
  match acc, parseLabel d l with
  | some m, some v => some (m ||| v)
  | _, _ => none

def unmarshal (d : EnumDef) (text : List Char) : Option UInt64 :=
  match d.form with
  | .plain => parseLabel d text
  | _ => (splitSep text []).foldl (orStep d) (some 0)

end Mav.EnumText
