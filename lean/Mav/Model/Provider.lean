import Mav.Basic
/-
  MODEL (C14) of the provider loop of a client-type endpoint (channel_provider.go `channelProvider.run` with
  `oneChannelAtAtime() = true`, endpoint_client.go / endpoint_serial.go `provide`), of timednetconn (pkg/timednetconn/conn.go)
  and of a read loop under an idle deadline. Structural mirrors of the Go code: the `first` flag, the inner retry loop.
  The environment is a script: the outcome of every connection attempt, and how every channel ends.
-/
namespace Mav.Prov

inductive End | err (k : Nat) | eof | reset | timeout | refused
deriving DecidableEq, Repr

inductive Outcome | fail | ok (frames : Nat) (e : End)
deriving DecidableEq, Repr

inductive Act | attempt (ok : Bool) | wait | opn | frames (n : Nat) | close (e : End)
deriving DecidableEq, Repr

/-- the retry loop inside `provide()`: `for { conn, err := connect(); if err != nil { <-time.After(reconnectPeriod); continue }; return conn }` -/
def connectLoop : List Outcome → List Act × Option (Nat × End × List Outcome)
  | [] => ([], none)
  | .fail :: rest => let r := connectLoop rest; (.attempt false :: .wait :: r.1, r.2)
  | .ok n e :: rest => ([.attempt true], some (n, e, rest))

/-- `channelProvider.run`: `for { provide(); newChannel(ch); <-ch.done }` with `provide()` =
    `if !first { first = true } else { <-time.After(reconnectPeriod) }; retry loop`. The fuel bounds the outer loop. -/
def providerLoop : Nat → Bool → List Outcome → List Act
  | 0, _, _ => []
  | fuel + 1, first, script =>
    if script.isEmpty then [] else
    let pre := if first then [Act.wait] else []
    match connectLoop script with
    | (a, none) => pre ++ a
    | (a, some (n, e, rest)) => pre ++ a ++ [.opn, .frames n, .close e] ++ providerLoop fuel true rest

/-- an observation ends with the last attempt or close event: waits after it are not visible -/
def trimWaits : List Act → List Act
  | [] => []
  | a :: rest => match trimWaits rest with
    | [] => if a = .wait then [] else [a]
    | r => a :: r

def modelTrace (script : List Outcome) : List Act := trimWaits (providerLoop (script.length + 1) false script)

/-! ### timednetconn -/

inductive Call | read | write | close | sleep
deriving DecidableEq, Repr

inductive Low | setRead (ok : Bool) | setWrite (ok : Bool) | read | write | close
deriving DecidableEq, Repr

/-- `conn.Read` / `conn.Write` / `conn.Close`; `failAt` = index of the Set*Deadline call that returns an error -/
def tncRun (failAt : Option Nat) : Nat → List Call → List Low
  | _, [] => []
  | k, .read :: rest => if failAt = some k then .setRead false :: tncRun failAt (k + 1) rest
                        else .setRead true :: .read :: tncRun failAt (k + 1) rest
  | k, .write :: rest => if failAt = some k then .setWrite false :: tncRun failAt (k + 1) rest
                         else .setWrite true :: .write :: tncRun failAt (k + 1) rest
  | k, .close :: rest => .close :: tncRun failAt k rest
  | k, .sleep :: rest => tncRun failAt k rest

/-! ### a read loop under an idle deadline armed afresh by every call -/

/-- `t` = time at which the current Read call starts; `arrivals` = times at which data arrives (non-decreasing).
    Returns the time at which a Read fails with a timeout. -/
def idleExpiry (idle : Nat) : Nat → List Nat → Nat
  | t, [] => t + idle
  | t, a :: rest => if a ≤ t + idle then idleExpiry idle (max t a) rest else t + idle

end Mav.Prov
