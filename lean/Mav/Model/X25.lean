import Mav.Basic
import Mav.Gen.Exprs
/- MODEL of pkg/x25: the per-byte step is the regenerated `Gen.x25Step` (TIE-G, G-expr). -/
namespace Mav.X25

def init : UInt16 := 0xFFFF

def write (crc : UInt16) (p : Bytes) : UInt16 := p.foldl Gen.x25Step crc

def sum (p : Bytes) : UInt16 := write init p

theorem write_append (c : UInt16) (a b : Bytes) : write c (a ++ b) = write (write c a) b := by
  simp [write, List.foldl_append]

end Mav.X25
