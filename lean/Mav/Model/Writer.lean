import Mav.Model.Reader
/-
  MODEL of pkg/frame/writer.go (Writer.Write / writeFrameInner), pkg/streamwriter/writer.go
  (Initialize / Write / writeInner) and Node.FixFrame / encodeFrame / encodeMessage.
-/
namespace Mav

/-- what the writer needs to know about a dialect message -/
structure WCodec where
  crcExtra : UInt8
  encode : Bool → List Msg.FVal → Msg.EncRes

abbrev WDialect := Option (UInt32 → Option WCodec)

inductive WErr | nilMsg | nilDialect | notInDialect | v1Id | panic | transport (k : Nat)
deriving Repr, DecidableEq

/-- encode the frame's message when it is not raw (encodeMessageInFrame) -/
def encodeInFrame (d : WDialect) (f : Frame) : Except WErr Frame :=
  match f.msg with
  | .raw _ _ => .ok f
  | .dec id vals =>
    match d with
    | none => .error .nilDialect
    | some dd =>
      match dd id with
      | none => .error .notInDialect
      | some c =>
        match c.encode f.isV2 vals with
        | .panic => .error .panic
        | .ok p => .ok (f.setMsg (.raw id p))

/-- frame.Writer.Write: returns the bytes of the single transport write, and the (mutated) frame -/
def frameWrite (d : WDialect) (f : Frame) : Except WErr (Bytes × Frame) :=
  match encodeInFrame d f with
  | .error e => .error e
  | .ok f' =>
    match f'.marshal Gen.bufferSize with
    | .ok bs => .ok (bs, f')
    | .errV1Id => .error .v1Id
    | .panic _ => .error .panic

/-! ### streamwriter -/

structure SWCfg where
  version : Nat                 -- 0 unset, 1, 2
  sysId : UInt8
  compId : UInt8
  linkId : UInt8 := 0
  key : Option Bytes := none
deriving Repr, DecidableEq

inductive SWInitErr | noVersion | sysId | keyNeedsV2
deriving Repr, DecidableEq

def swInitialize (c : SWCfg) : Except SWInitErr SWCfg :=
  if c.version = 0 then .error .noVersion
  else if c.sysId < 1 then .error .sysId
  else if c.key.isSome && c.version ≠ 2 then .error .keyNeedsV2
  else .ok { c with compId := if c.compId < 1 then 1 else c.compId }

structure SWState where
  nextSeq : UInt8 := 0
deriving Repr, DecidableEq

/-- `uint64(time.Since(ref)) / 10000` on a duration in ns -/
def sigTicks (sinceRefNs : UInt64) : UInt64 := sinceRefNs / UInt64.ofNat Gen.sigTickNs

/-- streamwriter.Writer.writeInner (after `fix: a refused write must not consume a sequence number`:
    the counter is incremented only when FrameWriter.Write succeeded). -/
def swWrite (H : Bytes → Bytes) (d : WDialect) (c : SWCfg) (st : SWState) (sinceRefNs : UInt64) (m : Msg) :
    SWState × Except WErr Bytes :=
  let signed := c.key.isSome
  let f0 : Frame :=
    if c.version = 1 then .v1 { seq := st.nextSeq, sys := c.sysId, comp := c.compId, msg := m, crc := 0 }
    else .v2 { incompat := if signed then Gen.v2FlagSigned else 0, compat := 0, seq := st.nextSeq,
               sys := c.sysId, comp := c.compId, msg := m, crc := 0 }
  let st1 : SWState := { nextSeq := st.nextSeq + 1 }
  match d with
  | none => (st, .error .nilDialect)
  | some dd =>
    match dd m.id with
    | none => (st, .error .notInDialect)
    | some codec =>
      match encodeInFrame d f0 with
      | .error e => (st, .error e)
      | .ok f1 =>
        match f1.genChecksum codec.crcExtra with
        | .error _ => (st, .error .panic)
        | .ok sum =>
          let f2 : Frame := match f1 with
            | .v1 g => .v1 { g with crc := sum }
            | .v2 g =>
              let g := { g with crc := sum }
              match c.key with
              | none => .v2 g
              | some k =>
                let g := { g with linkId := c.linkId, ts := sigTicks sinceRefNs }
                match g.genSignature H k with
                | .ok s => .v2 { g with sig := some s }
                | .error _ => .v2 g
          match frameWrite d f2 with
          | .error e => (st, .error e)
          | .ok (bs, _) => (st1, .ok bs)

/-! ### Node.FixFrame -/
inductive FixErr | nilDialect | notInDialect | panic
deriving Repr, DecidableEq

def fixFrame (H : Bytes → Bytes) (d : WDialect) (outKey : Option Bytes) (f : Frame) : Except FixErr Frame :=
  match encodeInFrame d f with
  | .error .nilDialect => .error .nilDialect
  | .error .notInDialect => .error .notInDialect
  | .error _ => .error .panic
  | .ok f1 =>
    match d with
    | none => .error .nilDialect
    | some dd =>
      match dd f1.msg.id with
      | none => .error .notInDialect
      | some codec =>
        match f1.genChecksum codec.crcExtra with
        | .error _ => .error .panic
        | .ok sum =>
          match f1 with
          | .v1 g => .ok (.v1 { g with crc := sum })
          | .v2 g =>
            let g := { g with crc := sum }
            match outKey with
            | none => .ok (.v2 g)
            | some k =>
              match g.genSignature H k with
              | .ok s => .ok (.v2 { g with sig := some s })
              | .error _ => .error .panic

end Mav
