import Mav.Basic
import Mav.Model.X25
import Mav.Gen.Tables
import Mav.Gen.Exprs
/-
  MODEL of pkg/message/readwriter.go (ReadWriter.Initialize / Read / Write).
  Mirrors the Go code, including byte-wide size arithmetic and `arrayLength = 1` for a bare char.
-/
namespace Mav.Msg
open Mav.Gen (FType)

/-- what `reflect` shows of one struct field -/
structure GoField where
  goName : String
  isArray : Bool := false
  arrLen : Nat := 0               -- Go array length (reflect `Len()`), unbounded
  elemType : String               -- Go name of the (element) type: "uint8", "string", ...
  elemIsUint64 : Bool := false    -- Kind() == Uint64 (named enum types have another Name())
  mavenum : String := ""
  mavlen : String := ""
  mavext : String := ""
  mavname : String := ""
  exported : Bool := true         -- `reflect.StructField.IsExported()`
deriving Repr, DecidableEq, Inhabited

structure GoStruct where
  name : String                   -- Go type name, e.g. "MessageHeartbeat"
  fields : List GoField
deriving Repr, DecidableEq, Inhabited

/-- decEncoderField -/
structure DField where
  isEnum : Bool
  ftype : FType
  name : String
  arrayLength : UInt8
  isArray : Bool                  -- Go array, or string with a mavlen tag (feeds its length into CRC_EXTRA)
  index : Nat
  isExt : Bool
  goIsArray : Bool
  goArrLen : Nat
deriving Repr, DecidableEq, Inhabited

structure RW where
  fields : List DField            -- in wire order
  sizeNormal : UInt8
  sizeExtended : UInt8
  crcExtra : UInt8
  nfields : Nat
deriving Repr, DecidableEq, Inhabited

inductive InitErr | namePrefix | enumNotUint64 | unsupported | enumType | strLen
  | unexported | arrLen | strArray | extOrder | tooBig   -- `fix: reject at initialization the message structs that cannot be encoded`
deriving Repr, DecidableEq

/-! ### name conversions: regexp `([A-Z])` → `_$1`, drop first char, change case -/
def isUpper (c : Char) : Bool := 'A' ≤ c && c ≤ 'Z'

def underscores : List Char → List Char
  | [] => []
  | c :: r => if isUpper c then '_' :: c :: underscores r else c :: underscores r

def fieldGoToDef (s : String) : String :=
  String.ofList (((underscores s.toList).drop 1).map Char.toLower)

def msgGoToDef (s : String) : String :=
  String.ofList (((underscores s.toList).drop 1).map Char.toUpper)

/-- strconv.Atoi restricted to what tags contain: optional sign, decimal digits (no underscore) -/
def atoiDigits : List Char → Option Nat
  | [] => none
  | cs => cs.foldl (fun acc c => match acc with
      | none => none
      | some n => if '0' ≤ c ∧ c ≤ '9' then some (n * 10 + (c.toNat - 48)) else none) (some 0)

def atoi (s : String) : Option Int :=
  match s.toList with
  | '-' :: r => (atoiDigits r).map (fun n => - (n : Int))
  | '+' :: r => (atoiDigits r).map (fun n => (n : Int))
  | cs => (atoiDigits cs).map (fun n => (n : Int))

def byteOfInt (i : Int) : UInt8 := UInt8.ofNat (i % 256).toNat

def strBytes (s : String) : Bytes := s.toUTF8.toList

/-- per-field part of Initialize, after the two guards of `initField` -/
def initFieldCore (i : Nat) (f : GoField) : Except InitErr DField := do
  let arrayLength0 : UInt8 := if f.isArray then UInt8.ofNat f.arrLen else 0
  if f.mavenum ≠ "" then
    if !f.elemIsUint64 then throw .enumNotUint64
    match Gen.fieldTypeFromGo f.mavenum with
    | none => throw .unsupported
    | some t =>
      if !Gen.enumCapable t then throw .enumType
      pure { isEnum := true, ftype := t, name := if f.mavname ≠ "" then f.mavname else fieldGoToDef f.goName,
             arrayLength := arrayLength0, isArray := f.isArray, index := i, isExt := f.mavext == "true",
             goIsArray := f.isArray, goArrLen := f.arrLen }
  else
    match Gen.fieldTypeFromGo f.elemType with
    | none => throw .unsupported
    | some t =>
      let (al, isArr) ← (if f.elemType == "string" then
          (if f.isArray then throw InitErr.strArray
           else if f.mavlen.length == 0 then pure ((1 : UInt8), false)
           else match atoi f.mavlen with
             | none => throw InitErr.strLen
             | some n => if n < 1 || n > 255 then throw InitErr.strLen else pure (byteOfInt n, true))
        else pure (arrayLength0, f.isArray) : Except InitErr (UInt8 × Bool))
      pure { isEnum := false, ftype := t, name := if f.mavname ≠ "" then f.mavname else fieldGoToDef f.goName,
             arrayLength := al, isArray := isArr, index := i, isExt := f.mavext == "true",
             goIsArray := f.isArray, goArrLen := f.arrLen }

/-- per-field part of Initialize -/
def initField (i : Nat) (f : GoField) : Except InitErr DField :=
  if !f.exported then throw .unexported
  else if f.isArray && (f.arrLen < 1 || f.arrLen > 255) then throw .arrLen
  else initFieldCore i f

def DField.size (f : DField) : UInt8 :=
  if f.arrayLength > 0 then Gen.fieldTypeSizes f.ftype * f.arrayLength else Gen.fieldTypeSizes f.ftype

def initFields : Nat → List GoField → Except InitErr (List DField)
  | _, [] => pure []
  | i, f :: r => do
    let d ← initField i f
    let ds ← initFields (i + 1) r
    pure (d :: ds)

/-- the comparator passed to sort.Slice -/
def less (a b : DField) : Bool :=
  if !a.isExt && !b.isExt && Gen.fieldTypeSizes a.ftype != Gen.fieldTypeSizes b.ftype
  then Gen.fieldTypeSizes a.ftype > Gen.fieldTypeSizes b.ftype
  else a.index < b.index

def insertBy (x : DField) : List DField → List DField
  | [] => [x]
  | y :: r => if less y x then y :: insertBy x r else x :: y :: r

/-- model of `sort.Slice` (any correct sort: for a strict total order the result is unique,
    see `Mav.sorted_unique`) -/
def sortFields (l : List DField) : List DField := l.foldr insertBy []

def crcExtraOf (msgName : String) (sorted : List DField) : UInt8 :=
  let h0 := X25.write X25.init (strBytes (msgName ++ " "))
  let h := sorted.foldl (fun h f =>
    if f.isExt then h else
      let h := X25.write h (strBytes (Gen.fieldTypeString f.ftype ++ " "))
      let h := X25.write h (strBytes (f.name ++ " "))
      if f.isArray then X25.write h [f.arrayLength] else h) h0
  Gen.crcExtraFold h

/-- extension fields follow the base fields (the loop's `seenExtension` flag) -/
def extOrderOk (fs : List DField) : Bool := (fs.dropWhile (!·.isExt)).all (·.isExt)

/-- payload size with unbounded integers (the `int` accumulator of Initialize) -/
def sizeNat (f : DField) : Nat :=
  (Gen.fieldTypeSizes f.ftype).toNat * (if f.arrayLength > 0 then f.arrayLength.toNat else 1)

def sizeTotal (fs : List DField) : Nat := (fs.map sizeNat).sum

/-- the two name checks of Initialize, on the characters of the name: `strings.HasPrefix(name, "Message")`, and the rest of the
    name begins with an uppercase letter (`suffix == "" || suffix[0] < 'A' || suffix[0] > 'Z'` is refused: `msgGoToDef` drops the
    first character of what follows `Message`) -/
def suffixUpper : List Char → Bool
  | c :: _ => isUpper c
  | [] => false

def hasMsgPrefix (n : String) : Bool := "Message".toList.isPrefixOf n.toList && suffixUpper (n.toList.drop 7)
def msgSuffix (n : String) : String := String.ofList (n.toList.drop 7)

/-- what Initialize stores once every check has passed -/
def mkRW (s : GoStruct) (fs : List DField) : RW :=
  let msgName := msgGoToDef (msgSuffix s.name)
  let sizeX := fs.foldl (fun a f => a + f.size) (0 : UInt8)
  let sizeN := fs.foldl (fun a f => if f.isExt then a else a + f.size) (0 : UInt8)
  let sorted := sortFields fs
  { fields := sorted, sizeNormal := sizeN, sizeExtended := sizeX,
    crcExtra := crcExtraOf msgName sorted, nfields := fs.length }

def init (s : GoStruct) : Except InitErr RW :=
  if !hasMsgPrefix s.name then throw .namePrefix else
  match initFields 0 s.fields with
  | .error e => .error e
  | .ok fs =>
    if !extOrderOk fs then throw .extOrder
    else if sizeTotal fs > 255 then throw .tooBig
    else .ok (mkRW s fs)

/-! ### values -/

/-- value of one struct field: numeric elements as 64-bit patterns (scalar = one element), or a string -/
inductive FVal | num (xs : List UInt64) | str (s : Bytes)
deriving Repr, DecidableEq, Inhabited

def leN (w : Nat) (x : UInt64) : Bytes :=
  (List.range w).map (fun i => (x >>> (UInt64.ofNat (8 * i))).toUInt8)

def unLeN (bs : Bytes) : UInt64 :=
  bs.foldr (fun b acc => (acc <<< 8) ||| b.toUInt64) 0

def replicateZ (n : Nat) : Bytes := List.replicate n 0

/-- writeValue for one element -/
def encElem (f : DField) (v : UInt64) : Bytes := leN (Gen.fieldTypeSizes f.ftype).toNat v

def encString (f : DField) (s : Bytes) : Bytes :=
  let l := f.arrayLength.toNat
  s.take l ++ replicateZ (l - s.length)

def encField (f : DField) : FVal → Bytes
  | .num xs => (if f.goIsArray then xs.take f.goArrLen else xs.take 1).flatMap (encElem f)
  | .str s => encString f s

def removeEmptyBytes (buf : Bytes) : Bytes :=
  match buf with
  | [] => []
  | b :: r => b :: (r.reverse.dropWhile (· == 0)).reverse

def hasEmptyBytes (buf : Bytes) : Bool := buf.length > 1 && buf.getLast? == some 0

inductive EncRes | ok (p : Bytes) | panic
deriving Repr, DecidableEq

def valAt (vals : List FVal) (i : Nat) : FVal := vals.getD i (.num [])

/-- ReadWriter.Write -/
def encode (rw : RW) (isV2 : Bool) (vals : List FVal) : EncRes :=
  let size := if isV2 then rw.sizeExtended else rw.sizeNormal
  let full := (rw.fields.filter (fun f => isV2 || !f.isExt)).flatMap (fun f => encField f (valAt vals f.index))
  if full.length = size.toNat then .ok (if isV2 then removeEmptyBytes full else full) else .panic

inductive DecRes | ok (vals : List FVal) | errSize | panic
deriving Repr, DecidableEq

def decString (f : DField) (buf : Bytes) : Option (FVal × Bytes) :=
  let l := f.arrayLength.toNat
  if buf.length < l then none else
    some (.str ((buf.take l).takeWhile (· != 0)), buf.drop l)

def decElems (w : Nat) : Nat → Bytes → Option (List UInt64 × Bytes)
  | 0, buf => some ([], buf)
  | n + 1, buf =>
    if buf.length < w then none else
      match decElems w n (buf.drop w) with
      | none => none
      | some (xs, r) => some (unLeN (buf.take w) :: xs, r)

def decField (f : DField) (buf : Bytes) : Option (FVal × Bytes) :=
  if f.ftype == .char && !f.isEnum then decString f buf
  else
    match decElems (Gen.fieldTypeSizes f.ftype).toNat (if f.goIsArray then f.goArrLen else 1) buf with
    | none => none
    | some (xs, r) => some (.num xs, r)

def setAt (vals : List FVal) (i : Nat) (v : FVal) : List FVal := vals.set i v

def decFields : List DField → Bytes → List FVal → Option (List FVal)
  | [], _, acc => some acc
  | f :: r, buf, acc =>
    match decField f buf with
    | none => none
    | some (v, buf') => decFields r buf' (setAt acc f.index v)

/-- zero value of a field as `reflect.New` creates it -/
def zeroVal (f : DField) : FVal :=
  if f.ftype == .char && !f.isEnum then .str [] else .num (List.replicate (if f.goIsArray then f.goArrLen else 1) 0)

def zeroVals (rw : RW) : List FVal :=
  (List.range rw.nfields).map (fun i => match rw.fields.find? (·.index == i) with
    | some f => zeroVal f | none => .num [])

def resOf : Option (List FVal) → DecRes
  | some v => .ok v
  | none => .panic

/-- ReadWriter.Read (value part) -/
def decode (rw : RW) (isV2 : Bool) (payload : Bytes) : DecRes :=
  if isV2 then
    let p := if payload.length < rw.sizeExtended.toNat then payload ++ replicateZ (rw.sizeExtended.toNat - payload.length) else payload
    resOf (decFields rw.fields p (zeroVals rw))
  else
    if payload.length ≠ rw.sizeNormal.toNat then .errSize else
    resOf (decFields (rw.fields.filter (fun f => !f.isExt)) payload (zeroVals rw))

/-! ### bytes of the payload that belong to a field (what `Read` consumes for it) -/
def isStr (f : DField) : Bool := f.ftype == .char && !f.isEnum
def nElems (f : DField) : Nat := if f.goIsArray then f.goArrLen else 1
def width (f : DField) : Nat := (Gen.fieldTypeSizes f.ftype).toNat
def fsize (f : DField) : Nat := if isStr f then f.arrayLength.toNat else width f * nElems f
def total (fs : List DField) : Nat := (fs.map fsize).sum

/-- the byte-wide sizes computed by `Initialize` did not wrap: they are what the fields consume -/
def rwOkB (rw : RW) : Bool :=
  total rw.fields == rw.sizeExtended.toNat && total (rw.fields.filter (fun f => !f.isExt)) == rw.sizeNormal.toNat

end Mav.Msg
