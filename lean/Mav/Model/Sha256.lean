import Mav.Basic
/- Executable SHA-256 (FIPS 180-4) for the driver. Theorems never unfold it: they are generic in the hash. -/
namespace Mav.Sha256

def K : Array UInt32 := #[
  0x428a2f98,0x71374491,0xb5c0fbcf,0xe9b5dba5,0x3956c25b,0x59f111f1,0x923f82a4,0xab1c5ed5,
  0xd807aa98,0x12835b01,0x243185be,0x550c7dc3,0x72be5d74,0x80deb1fe,0x9bdc06a7,0xc19bf174,
  0xe49b69c1,0xefbe4786,0x0fc19dc6,0x240ca1cc,0x2de92c6f,0x4a7484aa,0x5cb0a9dc,0x76f988da,
  0x983e5152,0xa831c66d,0xb00327c8,0xbf597fc7,0xc6e00bf3,0xd5a79147,0x06ca6351,0x14292967,
  0x27b70a85,0x2e1b2138,0x4d2c6dfc,0x53380d13,0x650a7354,0x766a0abb,0x81c2c92e,0x92722c85,
  0xa2bfe8a1,0xa81a664b,0xc24b8b70,0xc76c51a3,0xd192e819,0xd6990624,0xf40e3585,0x106aa070,
  0x19a4c116,0x1e376c08,0x2748774c,0x34b0bcb5,0x391c0cb3,0x4ed8aa4a,0x5b9cca4f,0x682e6ff3,
  0x748f82ee,0x78a5636f,0x84c87814,0x8cc70208,0x90befffa,0xa4506ceb,0xbef9a3f7,0xc67178f2]

def rotr (x : UInt32) (n : UInt32) : UInt32 := (x >>> n) ||| (x <<< (32 - n))

def pad (msg : Bytes) : Bytes :=
  let l := msg.length
  let k := (119 - l % 64) % 64
  msg ++ [0x80] ++ List.replicate k 0 ++ be64 (UInt64.ofNat (l * 8))

def word (bs : Array UInt8) (i : Nat) : UInt32 :=
  (bs[i]!.toUInt32 <<< 24) ||| (bs[i+1]!.toUInt32 <<< 16) ||| (bs[i+2]!.toUInt32 <<< 8) ||| bs[i+3]!.toUInt32

def schedule (blk : Array UInt8) (off : Nat) : Array UInt32 := Id.run do
  let mut w : Array UInt32 := Array.mkEmpty 64
  for i in [0:16] do
    w := w.push (word blk (off + 4 * i))
  for i in [16:64] do
    let a := w[i-15]!
    let b := w[i-2]!
    let s0 := rotr a 7 ^^^ rotr a 18 ^^^ (a >>> 3)
    let s1 := rotr b 17 ^^^ rotr b 19 ^^^ (b >>> 10)
    w := w.push (w[i-16]! + s0 + w[i-7]! + s1)
  return w

def compress (h : Array UInt32) (w : Array UInt32) : Array UInt32 := Id.run do
  let mut a := h[0]!
  let mut b := h[1]!
  let mut c := h[2]!
  let mut d := h[3]!
  let mut e := h[4]!
  let mut f := h[5]!
  let mut g := h[6]!
  let mut hh := h[7]!
  for i in [0:64] do
    let s1 := rotr e 6 ^^^ rotr e 11 ^^^ rotr e 25
    let ch := (e &&& f) ^^^ ((~~~ e) &&& g)
    let t1 := hh + s1 + ch + K[i]! + w[i]!
    let s0 := rotr a 2 ^^^ rotr a 13 ^^^ rotr a 22
    let mj := (a &&& b) ^^^ (a &&& c) ^^^ (b &&& c)
    let t2 := s0 + mj
    hh := g; g := f; f := e; e := d + t1; d := c; c := b; b := a; a := t1 + t2
  return #[h[0]! + a, h[1]! + b, h[2]! + c, h[3]! + d, h[4]! + e, h[5]! + f, h[6]! + g, h[7]! + hh]

def be32 (x : UInt32) : Bytes := [(x >>> 24).toUInt8, (x >>> 16).toUInt8, (x >>> 8).toUInt8, x.toUInt8]

def hash (msg : Bytes) : Bytes := Id.run do
  let p := (pad msg).toArray
  let mut h : Array UInt32 := #[0x6a09e667,0xbb67ae85,0x3c6ef372,0xa54ff53a,0x510e527f,0x9b05688c,0x1f83d9ab,0x5be0cd19]
  for blk in [0:p.size / 64] do
    h := compress h (schedule p (blk * 64))
  return h.toList.flatMap be32

end Mav.Sha256
