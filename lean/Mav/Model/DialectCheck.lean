import Mav.Model.Dialect
/- Decidable checks used by the enumerated theorems of C17 over the regenerated dialect tables. -/
namespace Mav

/-- message ids of one dialect are pairwise distinct -/
def idsDistinct : List Nat → Bool
  | [] => true
  | x :: r => r.all (· != x) && idsDistinct r

/-- all packages that declare a constant give it the same value -/
def groupConsistent (g : String × List (String × Nat)) : Bool :=
  match g.2 with
  | [] => true
  | (_, v) :: r => r.all (fun pv => pv.2 == v)

end Mav
