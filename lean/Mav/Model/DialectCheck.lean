import Mav.Model.Dialect
/- Decidable checks used by the enumerated theorems of C17 over the regenerated dialect tables. -/
namespace Mav

/-- message ids of one dialect are pairwise distinct -/
def idsDistinct : List Nat → Bool
  | [] => true
  | x :: r => r.all (· != x) && idsDistinct r

/-- all packages that declare a constant give it the same value -/
def groupConsistent (g : String × List (String × Nat)) : Bool :=
  match g.2 with
  | [] => true
  | (_, v) :: r => r.all (fun pv => pv.2 == v)

/-- every dialect that lists the message takes it from the same defining package, under the same id -/
def sameDefinition (g : String × List (String × String × Nat)) : Bool :=
  match g.2 with
  | [] => true
  | (_, pkg, id) :: r => r.all (fun x => x.2.1 == pkg && x.2.2 == id)

end Mav
