import Mav.Model.Frame
import Mav.Spec.Window
import Mav.Spec.Frame
import Mav.Spec.Crc
/-
  MODEL of pkg/frame/reader.go (Reader.Read, V1Frame.unmarshal, V2Frame.unmarshal) over a
  *flat* item stream: bytes and positioned one-shot transport errors; end of list = EOF forever.
  bufio semantics folded in (see DESIGN App. D); the chunked refinement is validated by TIE-D.
-/
namespace Mav

inductive Item | b (x : UInt8) | e (k : Nat)
deriving Repr, DecidableEq, Inhabited

abbrev Stream := List Item

inductive IOErr | eof | ueof | tr (k : Nat)
deriving Repr, DecidableEq

inductive PErr
  | io (e : IOErr)
  | badMagic (b : UInt8)
  | badIncompat (x : UInt8)
  | sigNotV2 | sigMissing | sigWrong | sigOld
  | crcWrong
  | decodeSize
deriving Repr, DecidableEq

inductive RRes
  | frame (f : Frame)
  | perr (e : PErr)
  | terr (e : IOErr)       -- raw transport error / EOF at a frame boundary
  | panic
deriving Repr, DecidableEq

/-- leading bytes, at most n -/
def takeBytes : Nat → Stream → Bytes × Stream
  | 0, s => ([], s)
  | _ + 1, [] => ([], [])
  | _ + 1, .e k :: r => ([], .e k :: r)
  | n + 1, .b x :: r => let (bs, r') := takeBytes n r; (x :: bs, r')

def bytesToItems (bs : Bytes) : Stream := bs.map Item.b

/-- bufio.Peek(n) (n ≤ bufferSize): all-or-error; a failed Peek consumes the pending error, keeps the bytes -/
def peek (n : Nat) (s : Stream) : Except IOErr Bytes × Stream :=
  let (bs, r) := takeBytes n s
  if bs.length = n then (.ok bs, s)
  else match r with
    | .e k :: r' => (.error (.tr k), bytesToItems bs ++ r')
    | _ => (.error .eof, s)

/-- peekAndDiscard -/
def peekDiscard (n : Nat) (s : Stream) : Except IOErr Bytes × Stream :=
  match peek n s with
  | (.ok bs, _) => (.ok bs, (takeBytes n s).2)
  | (.error e, s') => (.error e, s')

/-- io.ReadFull on n > 0 bytes -/
def readFull (n : Nat) (s : Stream) : Except IOErr Bytes × Stream :=
  let (bs, r) := takeBytes n s
  if bs.length = n then (.ok bs, r)
  else match r with
    | .e k :: r' => (.error (.tr k), r')
    | _ => (.error (if bs.length = 0 then .eof else .ueof), r)

def readByte (s : Stream) : Except IOErr UInt8 × Stream :=
  match s with
  | [] => (.error .eof, [])
  | .e k :: r => (.error (.tr k), r)
  | .b x :: r => (.ok x, r)

/-- payload read: skipped entirely when the length byte is 0 (payload nil) -/
def readPayload (len : UInt8) (s : Stream) : Except IOErr Bytes × Stream :=
  if len > 0 then readFull len.toNat s else (.ok [], s)

def unmarshalV1 (s : Stream) : Except PErr V1Frame × Stream :=
  match peekDiscard 5 s with
  | (.error e, s) => (.error (.io e), s)
  | (.ok [len, seq, sys, comp, id], s) =>
    (match readPayload len s with
    | (.error e, s) => (.error (.io e), s)
    | (.ok p, s) =>
      match peekDiscard 2 s with
      | (.error e, s) => (.error (.io e), s)
      | (.ok [c0, c1], s) =>
        (.ok { seq := seq, sys := sys, comp := comp, msg := .raw id.toUInt32 p, crc := unLe16 c0 c1 }, s)
      | (.ok _, s) => (.error (.io .eof), s))
  | (.ok _, s) => (.error (.io .eof), s)

def unmarshalV2 (s : Stream) : Except PErr V2Frame × Stream :=
  match peekDiscard 9 s with
  | (.error e, s) => (.error (.io e), s)
  | (.ok [len, incompat, compat, seq, sys, comp, i0, i1, i2], s) =>
    if incompat != 0 && incompat != Gen.v2FlagSigned then (.error (.badIncompat incompat), s) else
    (match readPayload len s with
    | (.error e, s) => (.error (.io e), s)
    | (.ok p, s) =>
      match peekDiscard 2 s with
      | (.error e, s) => (.error (.io e), s)
      | (.ok [c0, c1], s) =>
        let f : V2Frame := { incompat := incompat, compat := compat, seq := seq, sys := sys, comp := comp,
                             msg := .raw (uint24Decode i0 i1 i2) p, crc := unLe16 c0 c1 }
        if f.isSigned then
          match peekDiscard 13 s with
          | (.error e, s) => (.error (.io e), s)
          | (.ok [l, t0, t1, t2, t3, t4, t5, g0, g1, g2, g3, g4, g5], s) =>
            (.ok { f with linkId := l, ts := uint48Decode t0 t1 t2 t3 t4 t5, sig := some [g0, g1, g2, g3, g4, g5] }, s)
          | (.ok _, s) => (.error (.io .eof), s)
        else (.ok f, s)
      | (.ok _, s) => (.error (.io .eof), s))
  | (.ok _, s) => (.error (.io .eof), s)

/-- what the reader needs to know about a dialect message -/
structure Codec where
  crcExtra : UInt8
  specCrcExtra : UInt8 := crcExtra               -- oracle only: CRC_EXTRA by the spec recipe (C03)
  decode : Bool → Bytes → Msg.DecRes
  encode : Bool → List Msg.FVal → Msg.EncRes

structure RCfg where
  H : Bytes → Bytes                              -- SHA-256 (parameter: theorems are generic in it)
  key : Option Bytes := none                     -- InKey
  dialect : Option (UInt32 → Option Codec) := none
  specWindow : Bool := false                     -- ORACLE switch (driver only, theorems assume false): every decision by its SPEC
                                                 -- counterpart — window (C07), checksum (C02), signature input (C06), CRC_EXTRA (C03)

structure RState where
  cur : UInt64 := 0                              -- curReadSignatureTime
deriving Repr, DecidableEq

/-- the replay-window refusal condition and update of reader.go: regenerated (TIE-G, G-expr) -/
abbrev windowRefuse := Gen.windowRefuse
abbrev windowUpdate := Gen.windowUpdate

/-- signature gate -/
def sigGate (cfg : RCfg) (st : RState) (f : Frame) : Except PErr RState :=
  match cfg.key with
  | none => .ok st
  | some key =>
    match f with
    | .v1 _ => .error .sigNotV2
    | .v2 g =>
      match g.sig with
      | none => .error .sigMissing
      | some sg =>
        match (if cfg.specWindow then (match g.msg with
                | .raw _ _ => .ok ((cfg.H (key ++ (Spec.specBytes (.v2 { g with sig := some [] })))).take 6)
                | _ => .error .notRaw) else g.genSignature cfg.H key) with
        | .error _ => .error .sigWrong          -- unreachable: the message is raw here
        | .ok want =>
          if want != sg then .error .sigWrong
          else if (if cfg.specWindow then Spec.refuse st.cur g.ts else windowRefuse st.cur g.ts) then .error .sigOld
          else .ok { cur := windowUpdate st.cur g.ts }

/-- dialect gate: checksum, decode, v2 normalisation -/
def dialectGate (cfg : RCfg) (f : Frame) : RRes :=
  match cfg.dialect with
  | none => .frame f
  | some d =>
    match f.msg with
    | .dec _ _ => .panic
    | .raw id p =>
      match d id with
      | none => .frame f
      | some c =>
        match (if cfg.specWindow then .ok (UInt16.ofBitVec (Spec.crc16 (Spec.crcInput f ++ [c.specCrcExtra]))) else f.genChecksum c.crcExtra) with
        | .error _ => .panic
        | .ok sum =>
          if sum != f.crc then .perr .crcWrong else
          match c.decode f.isV2 p with
          | .errSize => .perr .decodeSize
          | .panic => .panic
          | .ok vals =>
            -- the checksum is made consistent with the canonical re-encoding (what Writer.Write will send)
            match c.encode f.isV2 vals with
            | .panic => .panic
            | .ok p' =>
              match f with
              | .v1 g =>
                if p' != p then
                  let g' : V1Frame := { g with msg := .raw id p' }
                  .frame (.v1 { g with msg := .dec id vals, crc := X25.sum (g'.crcInput p' ++ [c.crcExtra]) })
                else .frame (.v1 { g with msg := .dec id vals })
              | .v2 g =>
                if p' != p then
                  let g' : V2Frame := { g with msg := .raw id p' }
                  .frame (.v2 { g with msg := .dec id vals, crc := X25.sum (g'.crcInput p' ++ [c.crcExtra]) })
                else .frame (.v2 { g with msg := .dec id vals })

/-- Reader.Read -/
def readOne (cfg : RCfg) (st : RState) (s : Stream) : RRes × Stream × RState :=
  match readByte s with
  | (.error e, s) => (.terr e, s, st)
  | (.ok magic, s) =>
    if magic = Gen.v1MagicByte then
      match unmarshalV1 s with
      | (.error e, s) => (.perr e, s, st)
      | (.ok f, s) =>
        match sigGate cfg st (.v1 f) with
        | .error e => (.perr e, s, st)
        | .ok st' => (dialectGate cfg (.v1 f), s, st')
    else if magic = Gen.v2MagicByte then
      match unmarshalV2 s with
      | (.error e, s) => (.perr e, s, st)
      | (.ok f, s) =>
        match sigGate cfg st (.v2 f) with
        | .error e => (.perr e, s, st)
        | .ok st' => (dialectGate cfg (.v2 f), s, st')
    else (.perr (.badMagic magic), s, st)


/-- repeated `Read` until EOF at a frame boundary; `fuel` bounds the number of calls -/
def readAll (cfg : RCfg) : Nat → RState → Stream → List RRes
  | 0, _, _ => []
  | fuel + 1, st, s =>
    match readOne cfg st s with
    | (.terr .eof, _, _) => [.terr .eof]
    | (r, s', st') => r :: readAll cfg fuel st' s'

end Mav
