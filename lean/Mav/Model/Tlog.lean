import Mav.Model.Writer
/-
  MODEL of pkg/tlog: Writer.Write, Reader.Read. Time is modelled as (sec : Int, nsec : Nat < 10^9),
  Go's `time.Unix(sec, nsec)` normalisation and `UnixMicro` made explicit.
-/
namespace Mav.Tlog

/-- Go `time.Unix(sec, nsec)`: nsec outside [0, 1e9) is normalised -/
def goUnix (sec nsec : Int) : Int × Int :=
  if nsec < 0 ∨ nsec ≥ 1000000000 then
    let n := Int.tdiv nsec 1000000000
    let sec := sec + n
    let nsec := nsec - n * 1000000000
    if nsec < 0 then (sec - 1, nsec + 1000000000) else (sec, nsec)
  else (sec, nsec)

/-- `Time.UnixMicro()` = sec*1e6 + nsec/1e3 -/
def unixMicro (t : Int × Int) : Int := t.1 * 1000000 + t.2 / 1000

/-- the reader's reconstruction: `time.Unix(epoch/1000000, (epoch%1000000)*1000)` with Go's truncated `/`, `%` -/
def timeOfEpoch (epoch : Int) : Int × Int :=
  goUnix (Int.tdiv epoch 1000000) (Int.tmod epoch 1000000 * 1000)

/-- the eight `byte(epoch >> k)` of an int64 -/
def int64Bytes (e : Int) : Bytes := be64 (Int64.ofInt e).toUInt64

def int64OfBytes (bs : Bytes) : Int :=
  (bs.foldl (fun (acc : UInt64) (b : UInt8) => (acc <<< (8 : UInt64)) ||| b.toUInt64) (0 : UInt64)).toInt64.toInt

inductive WOut
  | wrote (bytes : Bytes)                  -- everything handed to the transport, in order
  | failed (bytes : Bytes) (e : WErr)      -- bytes handed over before the failure, and the error returned
deriving Repr, DecidableEq

/-- tlog.Writer.Write (after `fix: tlog.Writer must not leave a partial entry…`): the entry is assembled in a
    buffer — timestamp, then the encoded frame — and handed to the transport in ONE Write call, only when the frame
    could be encoded. `failAt` = index of the transport Write call that fails (none = no failure). -/
def writeEntry (d : WDialect) (epochMicro : Int) (f : Frame) (failAt : Option Nat) : WOut :=
  let tsb := int64Bytes epochMicro
  match frameWrite d f with
  | .error e => .failed [] e
  | .ok (bs, _) => if failAt = some 0 then .failed [] (.transport 0) else .wrote (tsb ++ bs)

inductive RdRes
  | entry (epochMicro : Int) (t : Int × Int) (f : Frame)
  | err (e : RRes)             -- frame-level error (perr / terr)
  | ioerr (e : IOErr)          -- error while reading the 8-byte timestamp
deriving Repr, DecidableEq

/-- tlog.Reader.Read -/
def readEntry (cfg : RCfg) (s : Stream) : RdRes × Stream :=
  match readFull 8 s with
  | (.error e, s) => (.ioerr e, s)
  | (.ok bs, s) =>
    let epoch := int64OfBytes bs
    match readOne cfg {} s with
    | (.frame f, s, _) => (.entry epoch (timeOfEpoch epoch) f, s)
    | (r, s, _) => (.err r, s)

end Mav.Tlog
