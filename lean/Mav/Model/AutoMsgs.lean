import Mav.Gen.Consts
/-
  MODEL (C16) of node_heartbeat.go and node_stream_request.go: the decision logic, not the goroutines.
  Time is the monotonic clock in nanoseconds; `lastRequests` is an association list (the Go map).
-/
namespace Mav.Auto

/-- what the two modules look at in the node's configuration (after Node.Initialize applied its defaults) -/
structure Cfg where
  heartbeatDisable : Bool
  streamRequestEnable : Bool
  hasDialect : Bool
  version : Nat                -- Dialect.Version
  crcOf : Nat → Option Nat     -- CRC_EXTRA of the dialect's message with this id, if any
  systemType : Nat
  autopilotType : Nat
  frequency : Nat

/-- `Node.Initialize`: zero values replaced by defaults -/
def defaults (systemType frequency : Nat) : Nat × Nat :=
  (if systemType = 0 then 6 else systemType, if frequency = 0 then 4 else frequency)

/-- `nodeHeartbeat.initialize` returns errSkip unless … -/
def hbEnabled (c : Cfg) : Bool :=
  !c.heartbeatDisable && c.hasDialect && c.crcOf Gen.heartbeatID == some Gen.heartbeatCRC

structure Heartbeat where
  type : Nat
  autopilot : Nat
  baseMode : Nat
  customMode : Nat
  systemStatus : Nat
  mavlinkVersion : Nat
deriving DecidableEq, Repr

/-- the message built on every tick (`nodeHeartbeat.run`), sent with WriteMessageAll -/
def heartbeat (c : Cfg) : Heartbeat :=
  { type := c.systemType, autopilot := c.autopilotType, baseMode := 0, customMode := 0, systemStatus := 4, mavlinkVersion := c.version }

/-- `nodeStreamRequest.initialize` -/
def srEnabled (c : Cfg) : Bool :=
  c.streamRequestEnable && c.hasDialect && c.crcOf Gen.heartbeatID == some Gen.heartbeatCRC &&
  c.crcOf Gen.requestDataStreamID == some Gen.requestDataStreamCRC

structure Key where
  ch : Nat
  sys : Nat
  comp : Nat
deriving DecidableEq, Repr

/-- a frame event reaching `onEventFrame` at time `t` -/
structure Arrival where
  t : Nat
  key : Key
  msgId : Nat
  autopilot : Nat      -- the Autopilot field (meaningful when msgId = 0)
deriving DecidableEq, Repr

structure Request where
  ch : Nat             -- written with WriteMessageTo(evt.Channel, …)
  targetSystem : Nat
  targetComponent : Nat
  reqStreamId : Nat
  reqMessageRate : Nat
  startStop : Nat
deriving DecidableEq, Repr

inductive Out | req (r : Request) | requested (k : Key)
deriving DecidableEq, Repr

/-- the Go map `lastRequests`, as a finite-support function -/
abbrev Last := Key → Option Nat

def Last.empty : Last := fun _ => none
def Last.get (l : Last) (k : Key) : Option Nat := l k
def Last.set (l : Last) (k : Key) (t : Nat) : Last := fun k' => if k' = k then some t else l k'

def requestsFor (freq : Nat) (k : Key) : List Out :=
  Gen.requestedStreams.map (fun s => Out.req ⟨k.ch, k.sys, k.comp, s, freq, 1⟩) ++ [Out.requested k]

/-- `onEventFrame` -/
def onEventFrame (freq : Nat) (last : Last) (a : Arrival) : Last × List Out :=
  if a.msgId ≠ 0 ∨ a.autopilot ≠ 3 then (last, [])
  else match last.get a.key with
    | none => (last.set a.key a.t, requestsFor freq a.key)
    | some t0 => if a.t - t0 ≥ Gen.streamRequestPeriodNs then (last.set a.key a.t, requestsFor freq a.key) else (last, [])

/-- the periodic cleanup in `nodeStreamRequest.run` -/
def cleanup (now : Nat) (last : Last) : Last := fun k =>
  match last k with
  | none => none
  | some t => if now - t ≥ Gen.streamRequestPeriodNs then none else some t

inductive Input | arrival (a : Arrival) | cleanup (now : Nat)

def Input.time : Input → Nat
  | .arrival a => a.t
  | .cleanup n => n

def step (freq : Nat) (last : Last) : Input → Last × List Out
  | .arrival a => onEventFrame freq last a
  | .cleanup now => (cleanup now last, [])

/-- a whole history: the outputs, arrival by arrival -/
def run (freq : Nat) : Last → List Input → List (List Out)
  | _, [] => []
  | last, i :: rest => let r := step freq last i; r.2 :: run freq r.1 rest

end Mav.Auto
