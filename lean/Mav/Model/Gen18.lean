import Mav.Model.Msg
/-
  MODEL (C18) of pkg/conversion: definition → Go declarations. Mirrors processDefinition / processMessage / processField /
  Convert. The output of the model is what `reflect` will show of the generated struct (Msg.GoStruct), so that the model of
  the run-time (Mav/Model/Msg.lean, C03) can be applied to it.
-/
namespace Mav.Gen18

structure XField where
  ty : String          -- as in the XML: "uint8_t", "float[4]", "char[16]", "uint8_t_mavlink_version"
  name : String
  enum : String        -- "" = none
  ext : Bool           -- after <extensions/>
deriving Repr, DecidableEq, Inhabited

structure XMsg where
  id : Nat
  name : String
  fields : List XField
deriving Repr, DecidableEq, Inhabited

structure XEntry where
  name : String
  value : String
deriving Repr, DecidableEq, Inhabited

structure XEnum where
  name : String
  bitmask : Bool
  entries : List XEntry
deriving Repr, DecidableEq, Inhabited

structure XFile where
  name : String
  version : String     -- "" = no <version>
  includes : List String
  enums : List XEnum
  msgs : List XMsg
deriving Repr, DecidableEq, Inhabited

/-! ### names -/

def isLowerAZ (c : Char) : Bool := 'a' ≤ c && c ≤ 'z'
def isDigit (c : Char) : Bool := '0' ≤ c && c ≤ '9'

/-- `regexp("_[a-z]").ReplaceAllStringFunc(in, upper of the letter)`: leftmost, non-overlapping -/
def camel : List Char → List Char
  | [] => []
  | '_' :: c :: r => if isLowerAZ c then c.toUpper :: camel r else '_' :: camel (c :: r)
  | c :: r => c :: camel r

/-- `dialectNameDefToGo` -/
def defToGoL (s : List Char) : List Char :=
  match camel (s.map Char.toLower) with
  | [] => []
  | c :: r => c.toUpper :: r

def defToGo (s : String) : String := String.ofList (defToGoL s.toList)

/-- `dialectNameGoToDef` — literally the run-time's `fieldGoToDef` (theorem C18.inverse_is_the_runtimes: the two function
    bodies are the same text in the current source) -/
def goToDef (s : String) : String := Msg.fieldGoToDef s

/-- `reMsgName = ^[A-Z][A-Z0-9_]*$` (after `fix: reject message names the run-time cannot map back to the definition`) -/
def msgNameOk (s : String) : Bool :=
  match s.toList with
  | [] => false
  | c :: r => Msg.isUpper c && r.all (fun c => Msg.isUpper c || isDigit c || c == '_')

/-! ### types -/

/-- `reTypeIsArray = ^(.+?)\[([0-9]+)\]$` -/
def splitArray (ty : String) : Option (String × String) :=
  let cs := ty.toList
  match cs.reverse with
  | ']' :: rest =>
    let digs := rest.takeWhile isDigit
    match rest.drop digs.length with
    | '[' :: pre => if digs.isEmpty || pre.isEmpty then none else some (String.ofList pre.reverse, String.ofList digs.reverse)
    | _ => none
  | _ => none

/-- `dialectTypeToGo` -/
def typeToGo : String → Option String
  | "double" => some "float64" | "uint64_t" => some "uint64" | "int64_t" => some "int64" | "float" => some "float32"
  | "uint32_t" => some "uint32" | "int32_t" => some "int32" | "uint16_t" => some "uint16" | "int16_t" => some "int16"
  | "uint8_t" => some "uint8" | "int8_t" => some "int8" | "char" => some "string"
  | _ => none

/-- the type part of `processField`: (scalar type name, array length text, mavlen text) -/
def splitType (ty : String) : String × String × String :=
  let typ0 := if ty == "uint8_t_mavlink_version" then "uint8_t" else ty
  match splitArray typ0 with
  | some (base, n) => if base == "char" then ("char", "", n) else (base, n, "")
  | none => (typ0, "", "")

/-- what `reflect` shows of the field declared by the generated line `Name [N]Type `tags`` -/
def mkField (f : XField) (goTy arrayLen mavlen : String) (n : Nat) : Msg.GoField :=
  { goName := defToGo f.name, isArray := arrayLen != "", arrLen := n,
    elemType := if f.enum != "" then f.enum else goTy,
    elemIsUint64 := f.enum != "" || goTy == "uint64",
    mavenum := if f.enum != "" then goTy else "",
    mavlen := mavlen, mavext := if f.ext then "true" else "",
    mavname := if goToDef (defToGo f.name) != f.name then f.name else "" }

/-- `processField` -/
def processField (f : XField) : Option Msg.GoField :=
  match typeToGo (splitType f.ty).1 with
  | none => none
  | some goTy =>
    match (if (splitType f.ty).2.1 != "" then Msg.atoiDigits (splitType f.ty).2.1.toList else some 0) with
    | none => none
    | some n => some (mkField f goTy (splitType f.ty).2.1 (splitType f.ty).2.2 n)

/-- `processMessage` + `tplMessage` -/
def processMessage (m : XMsg) : Option Msg.GoStruct := do
  if !msgNameOk m.name then none
  let fs ← m.fields.mapM processField
  pure { name := "Message" ++ defToGo m.name, fields := fs }

/-! ### enum values -/

def digitVal (c : Char) : Option Nat :=
  if '0' ≤ c ∧ c ≤ '9' then some (c.toNat - 48)
  else if 'a' ≤ c ∧ c ≤ 'f' then some (c.toNat - 87)
  else if 'A' ≤ c ∧ c ≤ 'F' then some (c.toNat - 55)
  else none

/-- `strconv.ParseUint(s, base, 64)` without underscores or prefixes: digits of the base, value below 2^64 -/
def parseUint (base : Nat) (s : List Char) : Option Nat :=
  if s.isEmpty then none else
  s.foldl (fun acc c => match acc, digitVal c with
    | some n, some d => if d < base ∧ n * base + d < 2 ^ 64 then some (n * base + d) else none
    | _, _ => none) (some 0)

/-- `uintPow` (square and multiply in uint64; a product that does not fit 64 bits is an error):
      if exp&1 == 1 { if base != 0 && result > MaxUint64/base { error }; result *= base }
      exp >>= 1; if exp == 0 { break }
      if base > MaxUint32 { error }; base *= base -/
def uintPow (fuel : Nat) (base exp result : Nat) : Option Nat :=
  match fuel with
  | 0 => some result
  | fuel + 1 =>
    if exp % 2 = 1 ∧ 2 ^ 64 ≤ result * base then none else
    let result := if exp % 2 = 1 then result * base else result
    let exp := exp / 2
    if exp = 0 then some result else
    if 2 ^ 64 ≤ base * base then none else uintPow fuel (base * base) exp result

def splitStars : List Char → Option (List Char × List Char)
  | [] => none
  | '*' :: '*' :: r => some ([], r)
  | c :: r => (splitStars r).map (fun p => (c :: p.1, p.2))

def parseValue (v : String) : Option Nat :=
  match v.toList with
  | '0' :: 'b' :: r => parseUint 2 r
  | '0' :: 'x' :: r => parseUint 16 r
  | cs => match splitStars cs with
    | some (x, y) => do
      let a ← parseUint 10 x
      let b ← parseUint 10 y
      uintPow 64 a b 1
    | none => parseUint 10 cs

/-! ### includes -/

def lookupFile (fs : List XFile) (n : String) : Option XFile := fs.find? (·.name == n)

/-- `processDefinition`: depth first, includes before the file itself, every file once (the `processedDefs` set).
    State: (visited, files in processing order). The fuel bounds the recursion depth. -/
def processDef (fs : List XFile) : Nat → String → (List String × List XFile) → Option (List String × List XFile)
  | 0, _, _ => none
  | fuel + 1, name, (visited, out) =>
    if visited.contains name then some (visited, out) else
    match lookupFile fs name with
    | none => none                        -- the file cannot be read: an error
    | some f =>
      let st := f.includes.foldl (fun st inc => st.bind (processDef fs fuel inc)) (some (name :: visited, out))
      st.map (fun (v, o) => (v, o ++ [f]))

def processed (fs : List XFile) : Option (List XFile) :=
  match fs with
  | [] => none
  | root :: _ => (processDef fs (fs.length + 1) root.name ([], [])).map (·.2)

/-- the version variable after processing: every processed file with a <version> overwrites it -/
def versionOf (order : List XFile) : String := order.foldl (fun v f => if f.version != "" then f.version else v) ""

/-- `strconv.Atoi(version)` with the error ignored -/
def versionNum (v : String) : Nat := (Msg.atoiDigits v.toList).getD 0

end Mav.Gen18
