import Mav.Model.EnumText
/-
  Decidable well-formedness of an enum table, used by the enumerated (G-table) theorems of C19:
  what the Go compiler guarantees of a generated enum file (distinct constant names, distinct map keys),
  MAVLink naming (identifiers: no leading digit or sign, no blank), values within 64 bits, and — for bitmask
  enums — that MarshalText ranges over every declared value.
-/
namespace Mav.EnumText

/-- a Go identifier cannot start like a numeral -/
def nameOk (n : String) : Bool :=
  match n.toList with
  | [] => false
  | c :: _ => !(('0' ≤ c && c ≤ '9') || c == '-' || c == '+')

def distinctBy {α β} [BEq β] (f : α → β) : List α → Bool
  | [] => true
  | x :: r => r.all (fun y => !(f x == f y)) && distinctBy f r

/-- decidable well-formedness of an enum table (what the Go compiler guarantees of the generated file, plus MAVLink naming) -/
def tableOk (d : EnumDef) : Bool :=
  d.consts.all (fun c => nameOk c.1 && decide (c.2 < 2 ^ 64)) &&
  distinctBy (fun c : String × Nat => c.1.toList) d.consts &&
  distinctBy (fun c : String × Nat => c.2) d.consts

def noSpace (d : EnumDef) : Bool := d.consts.all (fun c => c.1.toList.all (· != ' '))

/-- the repaired template ranges over every declared value, in declaration order -/
def listOk (d : EnumDef) : Bool :=
  match d.form with
  | .valueList vs => vs == d.consts.map (·.2)
  | _ => false


def enumOk (d : EnumDef) : Bool :=
  tableOk d && (match d.form with
    | .plain => true
    | .valueList _ => listOk d && noSpace d
    | .bitLoop _ => false)

/-- the part of `enumOk` that only looks at VALUES (cheap for the kernel; decided for every shipped enum in Mav/Gen/Enums_*.lean) -/
def valuesOk (d : EnumDef) : Bool :=
  d.consts.all (fun c => decide (c.2 < 2 ^ 64)) &&
  distinctBy (fun c : String × Nat => c.2) d.consts &&
  (match d.form with
    | .plain => true
    | .valueList _ => listOk d
    | .bitLoop _ => false)

/-- the part that looks at NAMES (string contents are very slow in the kernel: evaluated by the compiled driver on
    every run for every shipped enum, and guaranteed for real code by the Go compiler / MAVLink naming) -/
def namesOk (d : EnumDef) : Bool :=
  d.consts.all (fun c => nameOk c.1) &&
  distinctBy (fun c : String × Nat => c.1.toList) d.consts &&
  noSpace d

theorem enumOk_of_parts (d : EnumDef) (hv : valuesOk d = true) (hn : namesOk d = true) : enumOk d = true := by
  simp only [valuesOk, namesOk, enumOk, tableOk, Bool.and_eq_true, List.all_eq_true, decide_eq_true_eq] at *
  obtain ⟨⟨hv1, hv2⟩, hv3⟩ := hv
  obtain ⟨⟨hn1, hn2⟩, hn3⟩ := hn
  refine ⟨⟨⟨fun c hc => ⟨hn1 c hc, hv1 c hc⟩, hn2⟩, hv2⟩, ?_⟩
  cases hf : d.form <;> simp_all

end Mav.EnumText
