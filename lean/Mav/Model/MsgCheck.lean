import Mav.Spec.Msg
/-
  Decidable per-definition check used by the enumerated (G-table) theorems of C03/C17:
  the model's `init` accepts the struct, the struct is in the spec's domain, and wire order, sizes
  and CRC_EXTRA computed by the MODEL equal those the SPEC derives, and the byte-wide sizes did not wrap (`rwOkB`, the
  hypothesis of the C04 theorems).
-/
namespace Mav

def layoutAgrees (st : Msg.GoStruct) : Bool :=
  match Msg.init st, Spec.Msg.ofGo st with
  | .ok rw, some d =>
    rw.fields.map (·.index) == (Spec.Msg.wireOrder d).map (·.idx) &&
    rw.sizeNormal.toNat == Spec.Msg.sizeBase d &&
    rw.sizeExtended.toNat == Spec.Msg.sizeExt d &&
    rw.crcExtra.toNat == Spec.Msg.crcExtra d &&
    Msg.rwOkB rw
  | _, _ => false

end Mav
