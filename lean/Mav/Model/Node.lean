import Mav.Gen.Consts
/-
  MODEL of the node's goroutine protocol (node.go, channel.go, channel_provider.go) as a labelled transition system
  over an UNBOUNDED set of channels (`Cid → ChanSt`). One step = one rendezvous on an unbuffered Go channel, one
  non-blocking action, or one environment action (a transport read/write completing, the application calling Close).
  A `select` with several enabled cases is one step per case (the model over-approximates Go's random choice).

  Modelled after the fixes recorded in known_findings.txt:
    * pushEvent tests `terminate` first (pSkip), then selects between delivering (pDeliver) and `terminate` (pDrop);
    * runWriter survives a failed write (wFail returns to `idle`);
    * Channel.run, when its context is cancelled, closes the transport BEFORE waiting for the writer
      (cCtxDone → bCloseRwc → bTermW → bRecvW → bRecvR), so that a write blocked in the transport cannot hang Close.

  The steps rReadOk / cARecvW / cBRecvR carry the premise `push = idle` (the goroutine is not inside pushEvent) and
  newChanTerm carries premises saying that the channel is fresh; they are redundant (theorems `premises_redundant` in
  Mav/Proofs/Node.lean: they follow from the invariant `Own`) and only spare the other proofs a case split.

  Ghost fields (not in the code, only for stating the theorems): consumed, taken, want, closeEv, produced, delivered, acc, done, seen,
  and the global logs `log`, `disp`.
-/
namespace Mav.Nd

abbrev Cid := Nat

def qcap : Nat := Gen.writeBufferSize

/-- something written through the node: the payload is abstract (a tag) -/
abbrev Item := Nat

/-- result of one `frame.Reader.Read` on the channel's transport -/
inductive RdRes | frame (f : Nat) | perr | fatal (e : Nat)
deriving DecidableEq, Repr

/-- events as the application sees them (for one channel) -/
inductive Ev | opn | frame (f : Nat) | perr | close (e : Option Nat)
deriving DecidableEq, Repr

/-- a call of `Node.pushEvent` on behalf of the channel (by its reader, or by `Channel.run` for the close event — never both
    at once): `begin ev` = about to test `terminate`; `pushing ev` = blocked in the second select -/
inductive PushPc | idle | begin (ev : Ev) | pushing (ev : Ev)
deriving DecidableEq, Repr

/-- reader goroutine: `waitPush` = inside pushEvent -/
inductive RPc | waitPush | read | sendDone (e : Nat) | exited
deriving DecidableEq, Repr

/-- writer goroutine -/
inductive WPc | idle | writing (it : Item) | sendDone | exited
deriving DecidableEq, Repr

/-- `Channel.run` -/
inductive CPc
  | notStarted | wait
  | aCloseRwc (e : Nat) | aTermW (e : Nat) | aRecvW (e : Nat)
  | bTermW | bRecvW | bCloseRwc | bRecvR
  | closeWait | sendCloseChan | finished
deriving DecidableEq, Repr

structure ChanSt where
  rp : RPc := .waitPush
  push : PushPc := .begin .opn
  wp : WPc := .idle
  cp : CPc := .notStarted
  inputs : List RdRes := []
  queue : List Item := []
  ctxDone : Bool := false
  rwcClosed : Bool := false
  writerTerm : Bool := false
  -- ghost
  consumed : List RdRes := []          -- non-fatal results returned by Read so far
  want : List Ev := [.opn]             -- events the channel has decided to emit, in order
  produced : List Ev := []             -- events whose pushEvent got past the terminate test
  delivered : List Ev := []            -- events received by the application
  closeEv : List Ev := []              -- the close event, once Channel.run has decided on it
  taken : List RdRes := []             -- every result the transport has returned to the reader so far
  acc : List Item := []                -- everything ever enqueued for this channel
  done : List (Item × Bool) := []      -- transport writes completed: (item, succeeded)
  seen : List Item := []               -- everything dispatched while the channel was a member and was a target

inductive NPc | loop | epilogue | waiting | done
deriving DecidableEq, Repr

inductive Tgt | all | to (c : Cid) | except (c : Cid)
deriving DecidableEq, Repr

def Tgt.hits : Tgt → Cid → Bool
  | .all, _ => true
  | .to c, d => c == d
  | .except c, d => c != d

structure St where
  chans : Cid → ChanSt
  members : List Cid := []
  npc : NPc := .loop
  terminate : Bool := false
  provDone : Bool := false            -- every provider goroutine has exited
  evClosed : Bool := false            -- close(chEvent) executed
  log : List (Cid × Ev) := []         -- ghost: global order of delivered events
  disp : List (Tgt × Item) := []      -- ghost: dispatch order (linearisation of the Write* calls)

def upd (s : St) (c : Cid) (f : ChanSt → ChanSt) : St :=
  { s with chans := fun i => if i = c then f (s.chans i) else s.chans i }

def toEv : RdRes → Option Ev
  | .frame f => some (.frame f)
  | .perr => some .perr
  | .fatal _ => none

def evsOf (l : List RdRes) : List Ev := l.filterMap toEv

/-- effect of `Channel.write` on one channel during a dispatch. `pick c` resolves Go's random choice between a ready send
    and a ready `ctx.Done()`; it is irrelevant while the channel's context is live. -/
def enq (s : St) (t : Tgt) (it : Item) (pick : Cid → Bool) (c : Cid) (x : ChanSt) : ChanSt :=
  if s.members.contains c && t.hits c then
    let x := { x with seen := x.seen ++ [it] }
    if x.queue.length < qcap && (!x.ctxDone || pick c) then
      { x with queue := x.queue ++ [it], acc := x.acc ++ [it] }
    else x
  else x

def dispatch (s : St) (t : Tgt) (it : Item) (pick : Cid → Bool) : St :=
  { s with chans := fun c => enq s t it pick c (s.chans c), disp := s.disp ++ [(t, it)] }

inductive Step : St → St → Prop
  -- providers / node loop -----------------------------------------------------------------------------------
  | newChan (s c) : s.npc = .loop → s.provDone = false → (s.chans c).cp = .notStarted → c ∉ s.members →
      Step s { upd s c (fun x => { x with cp := .wait }) with members := c :: s.members }
  | newChanTerm (s c) : s.terminate = true → s.provDone = false → (s.chans c).cp = .notStarted → c ∉ s.members →
      (s.chans c).wp = .idle → (s.chans c).produced = [] → (s.chans c).delivered = [] →
      Step s (upd s c (fun x => { x with cp := .finished, rp := .exited, push := .idle, wp := .exited, ctxDone := true,
                                         rwcClosed := true, writerTerm := true }))
  | provExit (s) : s.terminate = true → Step s { s with provDone := true }
  | dispatch (s t it pick) : s.npc = .loop → Step s (dispatch s t it pick)
  | closeNode (s) : Step s { s with terminate := true }
  | nodeBreak (s) : s.npc = .loop → s.terminate = true → Step s { s with npc := .epilogue }
  | nodeCloseChan (s c) : s.npc = .epilogue → c ∈ s.members → (s.chans c).ctxDone = false →
      Step s (upd s c (fun x => { x with ctxDone := true }))
  | nodeToWait (s) : s.npc = .epilogue → (∀ c ∈ s.members, (s.chans c).ctxDone = true) → Step s { s with npc := .waiting }
  | nodeFinish (s) : s.npc = .waiting → s.provDone = true → (∀ c ∈ s.members, (s.chans c).cp = .finished) →
      Step s { s with npc := .done, evClosed := true }
  -- pushEvent (shared by the reader and Channel.run) -----------------------------------------------------------
  | pBegin (s c ev) : (s.chans c).cp ≠ .notStarted → (s.chans c).push = .begin ev → s.terminate = false →
      Step s (upd s c (fun x => { x with push := .pushing ev, produced := x.produced ++ [ev] }))
  | pSkip (s c ev) : (s.chans c).cp ≠ .notStarted → (s.chans c).push = .begin ev → s.terminate = true →
      Step s (upd s c (fun x => { x with push := .idle }))
  | pDeliver (s c ev) : (s.chans c).push = .pushing ev → s.evClosed = false →
      Step s { upd s c (fun x => { x with push := .idle, delivered := x.delivered ++ [ev] }) with log := s.log ++ [(c, ev)] }
  | pDrop (s c ev) : (s.chans c).push = .pushing ev → s.terminate = true →
      Step s (upd s c (fun x => { x with push := .idle }))
  -- reader --------------------------------------------------------------------------------------------------
  | rResume (s c) : (s.chans c).rp = .waitPush → (s.chans c).push = .idle →
      Step s (upd s c (fun x => { x with rp := .read }))
  | rReadOk (s c r rest ev) : (s.chans c).rp = .read → (s.chans c).push = .idle → (s.chans c).inputs = r :: rest → toEv r = some ev →
      Step s (upd s c (fun x => { x with rp := .waitPush, push := .begin ev, inputs := rest, consumed := x.consumed ++ [r],
                                         want := x.want ++ [ev], taken := x.taken ++ [r] }))
  | rReadFatal (s c e rest) : (s.chans c).rp = .read → (s.chans c).inputs = .fatal e :: rest →
      Step s (upd s c (fun x => { x with rp := .sendDone e, inputs := rest, taken := x.taken ++ [.fatal e] }))
  | rReadClosed (s c) : (s.chans c).rp = .read → (s.chans c).rwcClosed = true →
      Step s (upd s c (fun x => { x with rp := .sendDone 0 }))
  -- writer --------------------------------------------------------------------------------------------------
  | wDequeue (s c it rest) : (s.chans c).wp = .idle → (s.chans c).cp ≠ .notStarted → (s.chans c).queue = it :: rest →
      Step s (upd s c (fun x => { x with wp := .writing it, queue := rest }))
  | wOk (s c it) : (s.chans c).wp = .writing it →
      Step s (upd s c (fun x => { x with wp := .idle, done := x.done ++ [(it, true)] }))
  | wFail (s c it) : (s.chans c).wp = .writing it →
      Step s (upd s c (fun x => { x with wp := .idle, done := x.done ++ [(it, false)] }))
  | wTerm (s c) : (s.chans c).wp = .idle → (s.chans c).writerTerm = true →
      Step s (upd s c (fun x => { x with wp := .sendDone }))
  -- Channel.run ---------------------------------------------------------------------------------------------
  | cReaderDone (s c e) : (s.chans c).cp = .wait → (s.chans c).rp = .sendDone e →
      Step s (upd s c (fun x => { x with cp := .aCloseRwc e, rp := .exited }))
  | cCtxDone (s c) : (s.chans c).cp = .wait → (s.chans c).ctxDone = true →
      Step s (upd s c (fun x => { x with cp := .bCloseRwc }))
  | cACloseRwc (s c e) : (s.chans c).cp = .aCloseRwc e →
      Step s (upd s c (fun x => { x with cp := .aTermW e, rwcClosed := true }))
  | cATermW (s c e) : (s.chans c).cp = .aTermW e →
      Step s (upd s c (fun x => { x with cp := .aRecvW e, writerTerm := true }))
  | cARecvW (s c e) : (s.chans c).cp = .aRecvW e → (s.chans c).wp = .sendDone → (s.chans c).push = .idle →
      Step s (upd s c (fun x => { x with cp := .closeWait, push := .begin (.close (some e)), wp := .exited, ctxDone := true,
                                         want := x.want ++ [.close (some e)], closeEv := [.close (some e)] }))
  | cBTermW (s c) : (s.chans c).cp = .bTermW →
      Step s (upd s c (fun x => { x with cp := .bRecvW, writerTerm := true }))
  | cBRecvW (s c) : (s.chans c).cp = .bRecvW → (s.chans c).wp = .sendDone →
      Step s (upd s c (fun x => { x with cp := .bRecvR, wp := .exited }))
  | cBCloseRwc (s c) : (s.chans c).cp = .bCloseRwc →
      Step s (upd s c (fun x => { x with cp := .bTermW, rwcClosed := true }))
  | cBRecvR (s c e) : (s.chans c).cp = .bRecvR → (s.chans c).rp = .sendDone e → (s.chans c).push = .idle →
      Step s (upd s c (fun x => { x with cp := .closeWait, push := .begin (.close none), rp := .exited,
                                         want := x.want ++ [.close none], closeEv := [.close none] }))
  | cCloseResume (s c) : (s.chans c).cp = .closeWait → (s.chans c).push = .idle →
      Step s (upd s c (fun x => { x with cp := .sendCloseChan }))
  | cUnregister (s c) : (s.chans c).cp = .sendCloseChan → s.npc = .loop →
      Step s { upd s c (fun x => { x with cp := .finished }) with members := s.members.filter (· ≠ c) }
  | cUnregisterTerm (s c) : (s.chans c).cp = .sendCloseChan → s.terminate = true →
      Step s (upd s c (fun x => { x with cp := .finished }))

inductive Reach (s0 : St) : St → Prop
  | refl : Reach s0 s0
  | step {s s'} : Reach s0 s → Step s s' → Reach s0 s'

/-- initial state: no channel started; `inputs c` is what channel c's transport will deliver -/
def init (inputs : Cid → List RdRes) : St :=
  { chans := fun c => { inputs := inputs c } }

end Mav.Nd
