import Mav.Model.Msg
/-
  MODEL of pkg/dialect/readwriter.go: ReadWriter.Initialize, GetMessage. The Go map is an association list
  (insertion order kept only for the proofs; lookups do not depend on it because keys are unique).
-/
namespace Mav.Dialect

inductive DErr
  | duplicate (id : UInt32)
  | msg (id : UInt32) (e : Msg.InitErr)
deriving Repr, DecidableEq

abbrev Table := List (UInt32 × Msg.RW)

def Table.has (t : Table) (id : UInt32) : Bool := t.any (fun e => e.1 == id)

/-- Initialize: messages are processed in order; a repeated id or a struct that `message.ReadWriter.Initialize`
    rejects aborts the whole initialisation -/
def init : List (UInt32 × Msg.GoStruct) → Table → Except DErr Table
  | [], acc => .ok acc
  | (id, st) :: r, acc =>
    if acc.has id then .error (.duplicate id)
    else match Msg.init st with
      | .error e => .error (.msg id e)
      | .ok rw => init r (acc ++ [(id, rw)])

/-- GetMessage: map lookup -/
def getMessage (tbl : Table) (id : UInt32) : Option Msg.RW := (tbl.find? (fun e => e.1 == id)).map (·.2)

end Mav.Dialect
