import Mav.Spec.Crc
import Mav.Model.Msg
/-
  SPEC: MAVLink serialization guide — field reordering, payload sizes, CRC_EXTRA.
  Written from the guide; shares only the `GoStruct` input type and the type-name tables with the model.
-/
namespace Mav.Spec.Msg
open Mav.Gen (FType)

structure SField where
  name : String
  ty : FType
  arr : Option Nat        -- `type[n]`
  ext : Bool
  idx : Nat
deriving Repr, DecidableEq, Inhabited

structure SDef where
  name : String           -- XML message name, e.g. HEARTBEAT
  fields : List SField
deriving Repr, DecidableEq

/-- primitive sizes from the guide's type table -/
def tySize : FType → Nat
  | .double | .uint64 | .int64 => 8
  | .float | .uint32 | .int32 => 4
  | .uint16 | .int16 => 2
  | .uint8 | .int8 | .char => 1

/-- XML type names -/
def tyName : FType → String
  | .double => "double" | .uint64 => "uint64_t" | .int64 => "int64_t" | .float => "float"
  | .uint32 => "uint32_t" | .int32 => "int32_t" | .uint16 => "uint16_t" | .int16 => "int16_t"
  | .uint8 => "uint8_t" | .int8 => "int8_t" | .char => "char"

def SField.size (f : SField) : Nat := tySize f.ty * (f.arr.getD 1)

/-- stable insertion: after every element whose primitive size is ≥ -/
def insertStable (x : SField) : List SField → List SField
  | [] => [x]
  | y :: r => if tySize y.ty ≥ tySize x.ty then y :: insertStable x r else x :: y :: r

def stableSortDesc (l : List SField) : List SField := l.foldl (fun acc x => insertStable x acc) []

/-- wire order: base fields sorted by descending primitive size (stable), then extensions as declared -/
def wireOrder (d : SDef) : List SField :=
  stableSortDesc (d.fields.filter (!·.ext)) ++ d.fields.filter (·.ext)

def sizeBase (d : SDef) : Nat := ((d.fields.filter (!·.ext)).map SField.size).sum
def sizeExt (d : SDef) : Nat := (d.fields.map SField.size).sum

def sbytes (s : String) : Bytes := s.toUTF8.toList

/-- CRC_EXTRA: crc over "NAME " then, per base field in wire order, "type " "name " [array length byte] -/
def crcExtraInput (d : SDef) : Bytes :=
  sbytes (d.name ++ " ") ++
  (stableSortDesc (d.fields.filter (!·.ext))).flatMap (fun f =>
    sbytes (tyName f.ty ++ " ") ++ sbytes (f.name ++ " ") ++
    (match f.arr with | some n => [UInt8.ofNat n] | none => []))

def crcExtra (d : SDef) : Nat :=
  let c := crc16 (crcExtraInput d)
  ((c &&& 0xFF#16) ^^^ (c >>> 8)).toNat

/-! reading a Go struct as a MAVLink definition (documented naming convention) -/
def snakeUpper (s : String) : String :=
  String.ofList (match s.toList with
    | [] => []
    | c :: r => c.toUpper :: r.flatMap (fun x => if x.isUpper then ['_', x] else [x.toUpper]))

def snakeLower (s : String) : String :=
  String.ofList (match s.toList with
    | [] => []
    | c :: r => c.toLower :: r.flatMap (fun x => if x.isUpper then ['_', x.toLower] else [x]))

def fieldOfGo (i : Nat) (f : Mav.Msg.GoField) : Option SField := do
  let nm := if f.mavname ≠ "" then f.mavname else snakeLower f.goName
  let ext := f.mavext == "true"
  if f.mavenum ≠ "" then
    let t ← Gen.fieldTypeFromGo f.mavenum
    pure { name := nm, ty := t, arr := if f.isArray then some f.arrLen else none, ext := ext, idx := i }
  else if f.elemType == "string" then
    if f.isArray then none else
    if f.mavlen == "" then pure { name := nm, ty := .char, arr := none, ext := ext, idx := i }
    else do
      let n ← f.mavlen.toNat?
      pure { name := nm, ty := .char, arr := some n, ext := ext, idx := i }
  else do
    let t ← Gen.fieldTypeFromGo f.elemType
    pure { name := nm, ty := t, arr := if f.isArray then some f.arrLen else none, ext := ext, idx := i }

def fieldsOfGo : Nat → List Mav.Msg.GoField → Option (List SField)
  | _, [] => some []
  | i, f :: r => do
    let a ← fieldOfGo i f
    let b ← fieldsOfGo (i + 1) r
    pure (a :: b)

/-- definitions in the property's domain: name `Message…`, extensions after base fields,
    array lengths 1..255, total ≤ 255 bytes -/
def ofGo (s : Mav.Msg.GoStruct) : Option SDef := do
  if !s.name.startsWith "Message" then none
  let fs ← fieldsOfGo 0 s.fields
  let d : SDef := { name := snakeUpper (s.name.drop 7).toString, fields := fs }
  let extAfterBase := (fs.dropWhile (!·.ext)).all (·.ext)
  let arrOk := fs.all (fun f => match f.arr with | some n => 1 ≤ n && n ≤ 255 | none => true)
  if extAfterBase && arrOk && sizeExt d ≤ 255 then some d else none

end Mav.Spec.Msg
