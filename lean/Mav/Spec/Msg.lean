import Mav.Spec.Crc
import Mav.Model.Msg
/-
  SPEC: MAVLink serialization guide — field reordering, payload sizes, CRC_EXTRA.
  Written from the guide; shares only the `GoStruct` input type and the type-name tables with the model.
-/
namespace Mav.Spec.Msg
open Mav.Gen (FType)

structure SField where
  name : String
  ty : FType
  arr : Option Nat        -- `type[n]`
  ext : Bool
  idx : Nat
deriving Repr, DecidableEq, Inhabited

structure SDef where
  name : String           -- XML message name, e.g. HEARTBEAT
  fields : List SField
deriving Repr, DecidableEq

/-- primitive sizes from the guide's type table -/
def tySize : FType → Nat
  | .double | .uint64 | .int64 => 8
  | .float | .uint32 | .int32 => 4
  | .uint16 | .int16 => 2
  | .uint8 | .int8 | .char => 1

/-- XML type names -/
def tyName : FType → String
  | .double => "double" | .uint64 => "uint64_t" | .int64 => "int64_t" | .float => "float"
  | .uint32 => "uint32_t" | .int32 => "int32_t" | .uint16 => "uint16_t" | .int16 => "int16_t"
  | .uint8 => "uint8_t" | .int8 => "int8_t" | .char => "char"

def SField.size (f : SField) : Nat := tySize f.ty * (f.arr.getD 1)

/-- stable insertion: after every element whose primitive size is ≥ -/
def insertStable (x : SField) : List SField → List SField
  | [] => [x]
  | y :: r => if tySize y.ty ≥ tySize x.ty then y :: insertStable x r else x :: y :: r

def stableSortDesc (l : List SField) : List SField := l.foldl (fun acc x => insertStable x acc) []

/-- wire order: base fields sorted by descending primitive size (stable), then extensions as declared -/
def wireOrder (d : SDef) : List SField :=
  stableSortDesc (d.fields.filter (!·.ext)) ++ d.fields.filter (·.ext)

def sizeBase (d : SDef) : Nat := ((d.fields.filter (!·.ext)).map SField.size).sum
def sizeExt (d : SDef) : Nat := (d.fields.map SField.size).sum

def sbytes (s : String) : Bytes := s.toUTF8.toList

/-- CRC_EXTRA: crc over "NAME " then, per base field in wire order, "type " "name " [array length byte] -/
def fieldCrcBytes (f : SField) : Bytes :=
  sbytes (tyName f.ty ++ " ") ++ sbytes (f.name ++ " ") ++
    (match f.arr with | some n => [UInt8.ofNat n] | none => [])

def crcExtraInput (d : SDef) : Bytes :=
  sbytes (d.name ++ " ") ++ (stableSortDesc (d.fields.filter (!·.ext))).flatMap fieldCrcBytes

def crcExtra (d : SDef) : Nat :=
  let c := crc16 (crcExtraInput d)
  ((c &&& 0xFF#16) ^^^ (c >>> 8)).toNat

/-! reading a Go struct as a MAVLink definition (documented naming convention) -/
def snakeUpper (s : String) : String :=
  String.ofList (match s.toList with
    | [] => []
    | c :: r => c.toUpper :: r.flatMap (fun x => if x.isUpper then ['_', x] else [x.toUpper]))

def snakeLower (s : String) : String :=
  String.ofList (match s.toList with
    | [] => []
    | c :: r => c.toLower :: r.flatMap (fun x => if x.isUpper then ['_', x.toLower] else [x]))

/-- decimal digits only (kernel-reducible; `String.toNat?` is not) -/
def parseNat (s : String) : Option Nat :=
  match s.toList with
  | [] => none
  | cs => cs.foldl (fun acc c => match acc with
      | none => none
      | some n => if '0' ≤ c ∧ c ≤ '9' then some (n * 10 + (c.toNat - 48)) else none) (some 0)

/-- a length tag: a decimal number as Go's `strconv` reads it (digits, optionally preceded by `+`) -/
def digitsL : List Char → Option Nat
  | [] => none
  | cs => cs.foldl (fun acc c => match acc with
      | none => none
      | some n => if '0' ≤ c ∧ c ≤ '9' then some (n * 10 + (c.toNat - 48)) else none) (some 0)

def parseLen (s : String) : Option Nat :=
  match s.toList with
  | '+' :: r => digitsL r
  | cs => digitsL cs

def fieldOfGoCore (i : Nat) (f : Mav.Msg.GoField) : Option SField := do
  let nm := if f.mavname ≠ "" then f.mavname else snakeLower f.goName
  let ext := f.mavext == "true"
  if f.mavenum ≠ "" then
    -- an enum field is a Go uint64 whose wire type is one of the integer types enums may use
    if !f.elemIsUint64 then none else
    let t ← Gen.fieldTypeFromGo f.mavenum
    if !(t == .uint8 || t == .int8 || t == .uint16 || t == .uint32 || t == .int32 || t == .uint64) then none else
    pure { name := nm, ty := t, arr := if f.isArray then some f.arrLen else none, ext := ext, idx := i }
  else if f.elemType == "string" then
    if f.isArray then none else
    if f.mavlen == "" then pure { name := nm, ty := .char, arr := none, ext := ext, idx := i }
    else do
      let n ← parseLen f.mavlen
      pure { name := nm, ty := .char, arr := some n, ext := ext, idx := i }
  else do
    let t ← Gen.fieldTypeFromGo f.elemType
    pure { name := nm, ty := t, arr := if f.isArray then some f.arrLen else none, ext := ext, idx := i }

/-- a field reflection cannot set (unexported) is not a field of a message -/
def fieldOfGo (i : Nat) (f : Mav.Msg.GoField) : Option SField :=
  if !f.exported then none else fieldOfGoCore i f

def fieldsOfGo : Nat → List Mav.Msg.GoField → Option (List SField)
  | _, [] => some []
  | i, f :: r => do
    let a ← fieldOfGo i f
    let b ← fieldsOfGo (i + 1) r
    pure (a :: b)

/-- definitions in the property's domain: name `Message…`, extensions after base fields,
    array lengths 1..255, total ≤ 255 bytes -/
def ofGo (s : Mav.Msg.GoStruct) : Option SDef := do
  if !Mav.Msg.hasMsgPrefix s.name then none
  let fs ← fieldsOfGo 0 s.fields
  let d : SDef := { name := snakeUpper (Mav.Msg.msgSuffix s.name), fields := fs }
  let extAfterBase := (fs.dropWhile (!·.ext)).all (·.ext)
  let arrOk := fs.all (fun f => match f.arr with | some n => 1 ≤ n && n ≤ 255 | none => true)
  if extAfterBase && arrOk && sizeExt d ≤ 255 then some d else none

end Mav.Spec.Msg

/-! ### SPEC: payload encoding / decoding (serialization guide: little-endian scalars, element-wise arrays,
    NUL-padded fixed-size char arrays, v2 trailing-zero truncation to no less than one byte, v1 without extensions) -/
namespace Mav.Spec.Msg
open Mav.Msg (FVal)

/-- n little-endian bytes of x -/
def leBytes : Nat → Nat → Bytes
  | 0, _ => []
  | n + 1, x => UInt8.ofNat (x % 256) :: leBytes n (x / 256)

def ofLe : Bytes → Nat
  | [] => 0
  | b :: r => b.toNat + 256 * ofLe r

def padTo (n : Nat) (bs : Bytes) : Bytes := bs.take n ++ List.replicate (n - bs.length) 0

def encField (f : SField) (v : FVal) : Bytes :=
  match v with
  | .str s => padTo (f.arr.getD 1) s
  | .num xs =>
    let n := f.arr.getD 1
    ((xs.take n) ++ List.replicate (n - xs.length) (0 : UInt64)).flatMap (fun (x : UInt64) => leBytes (tySize f.ty) x.toNat)

def valOf (vals : List FVal) (i : Nat) : FVal := vals.getD i (.num [])

def encodeFull (fs : List SField) (vals : List FVal) : Bytes := fs.flatMap (fun f => encField f (valOf vals f.idx))

def dropTrailingZeros (p : Bytes) : Bytes := (p.reverse.dropWhile (· == 0)).reverse

/-- v2 truncation: trailing zero bytes removed, but never below one byte -/
def truncate (p : Bytes) : Bytes :=
  match dropTrailingZeros p with
  | [] => p.take 1
  | q => q

def encode (d : SDef) (isV2 : Bool) (vals : List FVal) : Bytes :=
  if isV2 then truncate (encodeFull (wireOrder d) vals)
  else encodeFull (stableSortDesc (d.fields.filter (!·.ext))) vals

/-- offsets of the fields in wire order -/
def offsets : Nat → List SField → List (SField × Nat)
  | _, [] => []
  | o, f :: r => (f, o) :: offsets (o + f.size) r

def decField (f : SField) (isString : Bool) (slice : Bytes) : FVal :=
  if isString then .str (slice.takeWhile (· != 0))
  else
    let w := tySize f.ty
    .num ((List.range (f.arr.getD 1)).map (fun k => UInt64.ofNat (ofLe ((slice.drop (k * w)).take w))))

inductive DecRes | ok (vals : List FVal) | errSize
deriving Repr, DecidableEq

/-- `isStr i` tells whether struct field i is a string (a property of the Go type, not of the wire) -/
def decode (d : SDef) (isStr : Nat → Bool) (isV2 : Bool) (payload : Bytes) : DecRes :=
  let zero (f : SField) : FVal := if isStr f.idx then .str [] else .num (List.replicate (f.arr.getD 1) 0)
  let base := (d.fields.map zero)
  if isV2 then
    let p := payload ++ List.replicate (sizeExt d - payload.length) 0
    .ok ((offsets 0 (wireOrder d)).foldl (fun acc (fo : SField × Nat) =>
      acc.set fo.1.idx (decField fo.1 (isStr fo.1.idx) ((p.drop fo.2).take fo.1.size))) base)
  else if payload.length ≠ sizeBase d then .errSize
  else
    .ok ((offsets 0 (stableSortDesc (d.fields.filter (!·.ext)))).foldl (fun acc (fo : SField × Nat) =>
      acc.set fo.1.idx (decField fo.1 (isStr fo.1.idx) ((payload.drop fo.2).take fo.1.size))) base)

end Mav.Spec.Msg
