import Mav.Spec.Msg
import Mav.Model.Gen18
/-
  SPEC (C18): what a dialect XML means, by the MAVLink XML schema and the serialization guide, with no reference to Go.
-/
namespace Mav.Spec.Gen18
open Mav.Gen18 Mav.Spec.Msg
open Mav.Gen (FType)

def xmlType : String → Option FType
  | "double" => some .double | "uint64_t" => some .uint64 | "int64_t" => some .int64 | "float" => some .float
  | "uint32_t" => some .uint32 | "int32_t" => some .int32 | "uint16_t" => some .uint16 | "int16_t" => some .int16
  | "uint8_t" => some .uint8 | "int8_t" => some .int8 | "char" => some .char
  | "uint8_t_mavlink_version" => some .uint8        -- the schema's alias, serialised (and hashed) as uint8_t
  | _ => none

/-- `type` or `type[n]` -/
def parseType (ty : String) : Option (FType × Option Nat) :=
  match ty.splitOn "[" with
  | [t] => (xmlType t).map (fun x => (x, none))
  | [t, rest] =>
    if rest.endsWith "]" && t != "uint8_t_mavlink_version" then do
      let n ← parseNat (rest.dropEnd 1).toString
      let x ← xmlType t
      pure (x, some n)
    else none
  | _ => none

def enumCapable (t : FType) : Bool :=
  t == .uint8 || t == .int8 || t == .uint16 || t == .uint32 || t == .int32 || t == .uint64

def fieldsOf : Nat → List XField → Option (List SField)
  | _, [] => some []
  | i, f :: r => do
    let (t, arr) ← parseType f.ty
    if f.enum != "" && !enumCapable t then none
    let rest ← fieldsOf (i + 1) r
    pure ({ name := f.name, ty := t, arr := arr, ext := f.ext, idx := i } :: rest)

/-- MAVLink naming rule for messages: capital letters, digits and underscores, starting with a letter -/
def nameRule (s : String) : Bool :=
  match s.toList with
  | [] => false
  | c :: r => ('A' ≤ c && c ≤ 'Z') && r.all (fun c => ('A' ≤ c && c ≤ 'Z') || ('0' ≤ c && c ≤ '9') || c == '_')

/-- the definition a <message> element stands for -/
def defOf (m : XMsg) : Option SDef := do
  if !nameRule m.name then none
  let fs ← fieldsOf 0 m.fields
  pure { name := m.name, fields := fs }

/-- enum values: decimal, 0x hexadecimal, 0b binary, a**b -/
def natOfDigits (base : Nat) (s : List Char) : Option Nat :=
  if s.isEmpty then none else
  s.foldl (fun acc c => do
    let n ← acc
    let d ← (if '0' ≤ c ∧ c ≤ '9' then some (c.toNat - '0'.toNat)
             else if 'a' ≤ c ∧ c ≤ 'f' then some (c.toNat - 'a'.toNat + 10)
             else if 'A' ≤ c ∧ c ≤ 'F' then some (c.toNat - 'A'.toNat + 10) else none)
    if d < base then some (n * base + d) else none) (some 0)

def valueOf (v : String) : Option Nat :=
  let r := if v.startsWith "0b" then natOfDigits 2 (v.drop 2).toString.toList
    else if v.startsWith "0x" then natOfDigits 16 (v.drop 2).toString.toList
    else match v.splitOn "**" with
      | [a, b] => do
        let x ← natOfDigits 10 a.toList
        let y ← natOfDigits 10 b.toList
        pure (x ^ y)
      | _ => natOfDigits 10 v.toList
  r.bind (fun n => if n < 2 ^ 64 then some n else none)   -- enum values are 64-bit

/-- the files a dialect consists of: the include graph flattened depth first, includes before the including file, every
    file once -/
def postorder (fs : List XFile) : Nat → String → Option (List String)
  | 0, _ => none
  | fuel + 1, n => do
    let f ← lookupFile fs n
    let subs ← f.includes.mapM (postorder fs fuel)
    pure (subs.flatten ++ [n])

def dedup : List String → List String
  | [] => []
  | x :: r => x :: (dedup r).filter (· != x)

def filesOf (fs : List XFile) : Option (List XFile) :=
  match fs with
  | [] => none
  | root :: _ => do
    let names ← postorder fs (fs.length + 1) root.name
    (dedup names).mapM (lookupFile fs)

/-- the dialect's version: the <version> of the dialect file itself; when it has none, the one inherited from what it includes
    (the last one in include order) -/
def versionOf (order : List XFile) : Nat :=
  match (order.reverse.find? (·.version != "")) with
  | some f => (parseNat f.version).getD 0
  | none => 0

end Mav.Spec.Gen18
