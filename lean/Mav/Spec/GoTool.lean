/-
  SPEC (C18, "the generated Go package compiles"): how the go tool reads the NAME of a source file (go/build: `goodOSArchFile`,
  `knownOS`, `knownArch` of src/go/build/syslist.go, and the `_test.go` rule). A generated file must be a plain source file of the
  package on every platform: not a test file, not restricted to a GOOS or a GOARCH. Written from the go/build sources, not from
  gomavlib.
-/
namespace Mav.Spec.GoTool

def knownOS : List String := ["aix", "android", "darwin", "dragonfly", "freebsd", "hurd", "illumos", "ios", "js", "linux", "nacl",
  "netbsd", "openbsd", "plan9", "solaris", "wasip1", "windows", "zos"]

def knownArch : List String := ["386", "amd64", "amd64p32", "arm", "armbe", "arm64", "arm64be", "loong64", "mips", "mipsle",
  "mips64", "mips64le", "mips64p32", "mips64p32le", "ppc", "ppc64", "ppc64le", "riscv", "riscv64", "s390", "s390x", "sparc",
  "sparc64", "wasm"]

def isOS (e : List Char) : Bool := knownOS.contains (String.ofList e)
def isArch (e : List Char) : Bool := knownArch.contains (String.ofList e)

/-- put a character in front of the first element -/
def consHead (c : Char) : List (List Char) → List (List Char)
  | [] => [[c]]
  | e :: es => (c :: e) :: es

/-- `strings.Split(s, "_")` on characters -/
def splitU : List Char → List (List Char)
  | [] => [[]]
  | c :: cs => if c = '_' then [] :: splitU cs else consHead c (splitU cs)

example : splitU "_self_test".toList = ["".toList, "self".toList, "test".toList] := by decide

/-- `strings.HasSuffix(file, "_test.go")`: the go tool compiles such a file only into the test binary -/
def isTestFile (file : List Char) : Bool := "og.tset_".toList.isPrefixOf file.reverse

/-- go/build: "if n > 0 && l[n-1] == "test" { l = l[:n-1] }" -/
def dropTest (l : List (List Char)) : List (List Char) :=
  if l.getLast? = some ['t', 'e', 's', 't'] then l.dropLast else l

/-- go/build: `*_GOOS_GOARCH`, `*_GOOS`, `*_GOARCH` (the elements of the name, last first) -/
def restrictedRev : List (List Char) → Bool
  | a :: o :: _ => (isOS o && isArch a) || isOS a || isArch a
  | [a] => isOS a || isArch a
  | [] => false

def restricted (l : List (List Char)) : Bool := restrictedRev l.reverse

/-- the name from its first underscore on (a name without underscore is never restricted) -/
def ofRest : List Char → Bool
  | [] => false
  | c :: cs => restricted (dropTest (splitU (c :: cs)))

/-- go/build `goodOSArchFile`, read as "the name restricts the file to some platforms": cut the name at the first dot, keep it from
    the first underscore on, split at underscores, forget a final `test`, then look at the last one or two elements -/
def platformOnly (file : List Char) : Bool :=
  ofRest ((file.takeWhile (· != '.')).dropWhile (· != '_'))

/-- the file is a plain source file of the package, whatever the platform -/
def plainSource (file : List Char) : Bool := !isTestFile file && !platformOnly file

example : platformOnly "enum_host_windows.go".toList = true := by decide
example : platformOnly "message_motor_arm.go".toList = true := by decide
example : platformOnly "message_x_linux_arm64.go".toList = true := by decide
example : isTestFile "message_self_test.go".toList = true := by decide
example : platformOnly "message_self_linux_test.go".toList = true := by decide
example : plainSource "message_heartbeat.go".toList = true := by decide
example : plainSource "enum_mav_state.go".toList = true := by decide
example : plainSource "message_self_test_.go".toList = true := by decide
example : plainSource "dialect.go".toList = true := by decide

end Mav.Spec.GoTool
