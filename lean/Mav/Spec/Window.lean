import Mav.Basic
/- SPEC (C07): on a signed link, refuse exactly the frames whose timestamp is more than 10 s
   (1 000 000 ticks of 10 µs) older than the newest accepted timestamp. Over ℕ, no wrap-around. -/
namespace Mav.Spec
def refuse (newest ts : UInt64) : Bool := decide (ts.toNat + 1000000 < newest.toNat)
def newest (cur ts : UInt64) : UInt64 := if ts.toNat > cur.toNat then ts else cur
end Mav.Spec
