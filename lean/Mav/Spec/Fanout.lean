import Mav.Basic
/-
  SPEC (C11, C13): what the transports of a node may carry, given what the application goroutines submitted.
  A plan is, per goroutine, the list of its writes in program order; item (g, i) is the i-th write of goroutine g.
  An observation is, per channel, the list of transport write calls, each decoded by the harness into the item tag, the
  sequence number and system id it carried (`none` = a write call that was not exactly one whole frame).
-/
namespace Mav.Spec.Fan

inductive Target | all | to (c : Option Nat) | except (c : Option Nat)   -- `none` = a foreign channel
deriving Repr, DecidableEq

structure Op where
  isMsg : Bool          -- originated message (gets the link's header) vs forwarded frame (keeps its own)
  tgt : Target
  bad : Bool := false   -- cannot be encoded for the link
deriving Repr, DecidableEq

structure Obs where
  isMsg : Bool
  g : Nat
  i : Nat
  seq : Nat
  sys : Nat
deriving Repr, DecidableEq

def hits (o : Op) (c : Nat) : Bool :=
  !o.bad && (match o.tgt with
    | .all => true
    | .to (some d) => d == c
    | .to none => false
    | .except (some d) => d != c
    | .except none => true)

abbrev Plan := List (List Op)

def opAt (p : Plan) (g i : Nat) : Option Op := (p[g]?).bind (·[i]?)

/-- tags (g, i) of the plan that must reach channel c -/
def expected (p : Plan) (c : Nat) : List (Nat × Nat) :=
  (List.range p.length).flatMap (fun g =>
    ((List.range ((p[g]?).getD []).length).filter (fun i => match opAt p g i with
      | some o => hits o c | none => false)).map (fun i => (g, i)))

def nodup {α} [DecidableEq α] : List α → Bool
  | [] => true
  | x :: r => !r.contains x && nodup r

/-- items of one goroutine appear in submission order -/
def fifoPerGoroutine (l : List (Nat × Nat)) : Bool :=
  l.all (fun a => (l.dropWhile (· != a)).all (fun b => !(b.1 == a.1) || a.2 ≤ b.2))

/-- header rule: an originated message carries the node's system id and the channel's next sequence number (counting
    originated messages only, from `seq0`); a forwarded frame keeps the header it was submitted with -/
def headersOk (ownSys : Nat) (obs : List Obs) : Bool :=
  (obs.foldl (fun (st : Bool × Nat) o =>
    if o.isMsg then (st.1 && o.sys == ownSys && o.seq == st.2 % 256, st.2 + 1)
    else (st.1 && o.sys == o.g + 1 && o.seq == o.i % 256, st.2)) (true, 0)).1

def tags (obs : List Obs) : List (Nat × Nat) := obs.map (fun o => (o.g, o.i))

/-- a channel that received everything addressed to it, exactly once, whole frames, in per-goroutine order -/
def channelComplete (p : Plan) (ownSys : Nat) (c : Nat) (obs : List (Option Obs)) : Bool :=
  match obs.mapM id with
  | none => false                                   -- some write call was not one whole frame
  | some os =>
    let ts := tags os
    nodup ts &&
    ts.all (fun t => (expected p c).contains t) &&
    (expected p c).all (fun t => ts.contains t) &&
    os.all (fun o => match opAt p o.g o.i with | some op => op.isMsg == o.isMsg | none => false) &&
    fifoPerGoroutine ts &&
    headersOk ownSys os

/-- two channels agree on the relative order of the items they both carry (one dispatch order for all channels) -/
def orderConsistent (a b : List (Nat × Nat)) : Bool :=
  a.filter (b.contains ·) == b.filter (a.contains ·)

def allPairs (l : List (List (Nat × Nat))) : Bool :=
  match l with
  | [] => true
  | x :: r => r.all (orderConsistent x) && allPairs r

/-- **C11.** Every channel complete, and one dispatch order behind all of them. -/
def fanLegal (p : Plan) (ownSys : Nat) (obs : List (List (Option Obs))) : Bool :=
  (List.range obs.length).all (fun c => channelComplete p ownSys c (obs.getD c [])) &&
  allPairs (obs.map (fun o => tags (o.filterMap id)))

/-- a channel that may have lost items (stalled or failing transport): still whole frames, no duplicate, nothing
    foreign, per-goroutine order kept -/
def channelSound (p : Plan) (c : Nat) (obs : List (Option Obs)) : Bool :=
  match obs.mapM id with
  | none => false
  | some os =>
    let ts := tags os
    nodup ts && ts.all (fun t => (expected p c).contains t) && fifoPerGoroutine ts

inductive StallMode | block | fail | bad | pause
deriving Repr, DecidableEq

/-- **C13.** `victim`'s transport blocks at / fails its `at`-th write, or item `badIdx` (goroutine 0) cannot be encoded for it.
    Every other channel is complete; the victim is sound; a blocked victim carried exactly the writes before the
    blocking one; a victim whose write failed (or that was handed an unencodable item) was either reported closed or kept
    delivering EVERY later write: it carried everything addressed to it except the items whose writes failed (a run of consecutive writes) (the scenarios
    stay below the queue bound, so nothing else may be missing). -/
def stallLegal (p : Plan) (ownSys : Nat) (mode : StallMode) (victim atIdx : Nat) (failedItems : List Nat)
    (obs : List (List (Option Obs))) (closeSeen : List Bool) : Bool :=
  (List.range obs.length).all (fun c =>
    if c == victim then
      channelSound p c (obs.getD c []) &&
      (match mode with
       | .block => (obs.getD c []).length == atIdx
       -- the transport waited at its `at`-th write until everything had been submitted: the writes before it, the one in
       -- flight and exactly a full queue (64 items) behind it get through, in order; the rest was discarded for this channel only
       | .pause => tags ((obs.getD c []).filterMap id) == (expected p c).take (atIdx + 1 + 64)
       | .fail => closeSeen.getD c false ||
           tags ((obs.getD c []).filterMap id) == (expected p c).filter (fun t => !(t.1 == 0 && failedItems.contains t.2))
       | .bad => closeSeen.getD c false || channelComplete p ownSys c (obs.getD c []))
    else channelComplete p ownSys c (obs.getD c [])) &&
  allPairs (obs.map (fun o => tags (o.filterMap id)))

end Mav.Spec.Fan
