import Mav.Model.AutoMsgs
/-
  SPEC (C16), history-based and without any table: what an arrival triggers is decided by the history of arrivals alone.
-/
namespace Mav.Spec.Auto
open Mav.Auto

/-- heartbeats, ArduPilot only -/
def qualifies (a : Arrival) : Bool := a.msgId == 0 && a.autopilot == 3

/-- time of the most recent arrival of `k` in `hist` (most recent first) that triggered requests; an arrival triggers iff it
    qualifies and no arrival of the same sender triggered less than 30 s before it -/
def fresh (prev : Option Nat) (t : Nat) : Bool :=
  match prev with
  | none => true
  | some t0 => decide (t - t0 ≥ 30000000000)

def lastTrigger (k : Key) : List Arrival → Option Nat
  | [] => none
  | a :: older =>
    let prev := lastTrigger k older
    if a.key = k ∧ qualifies a = true ∧ fresh prev a.t = true then some a.t else prev

def triggers (older : List Arrival) (a : Arrival) : Bool :=
  qualifies a && fresh (lastTrigger a.key older) a.t

/-- exactly the seven standard requests, at the configured rate, addressed to the sender, on its channel, then one event -/
def sevenRequests (freq : Nat) (k : Key) : List Out :=
  [1, 2, 3, 6, 10, 11, 12].map (fun s => Out.req ⟨k.ch, k.sys, k.comp, s, freq, 1⟩) ++ [Out.requested k]

/-- outputs for a history of arrivals (oldest first) -/
def specRun (freq : Nat) : List Arrival → List Arrival → List (List Out)
  | _, [] => []
  | older, a :: rest => (if triggers older a then sevenRequests freq a.key else []) :: specRun freq (a :: older) rest

def hbExpected (c : Cfg) : Option Heartbeat :=
  if c.heartbeatDisable then none
  else if !c.hasDialect then none
  else if c.crcOf 0 != some 50 then none
  else some ⟨c.systemType, c.autopilotType, 0, 0, 4, c.version⟩

end Mav.Spec.Auto
