import Mav.Basic
/-
  SPEC: CRC-16/MCRF4XX ("X.25" in MAVLink): reflected polynomial 0x1021 (= 0x8408 reflected),
  initial value 0xFFFF, no final xor. Written bit by bit from the definition, never from the Go code.
-/
namespace Mav.Spec

/-- one bit of the reflected CRC -/
def crcBit (c : BitVec 16) : BitVec 16 :=
  if c.getLsbD 0 then (c >>> 1) ^^^ 0x8408#16 else c >>> 1

def crcBit8 (c : BitVec 16) : BitVec 16 :=
  crcBit (crcBit (crcBit (crcBit (crcBit (crcBit (crcBit (crcBit c)))))))

/-- feed one byte -/
def crcByte (c : BitVec 16) (b : BitVec 8) : BitVec 16 :=
  crcBit8 (c ^^^ b.zeroExtend 16)

def crcInit : BitVec 16 := 0xFFFF#16

def crc16 (bs : Bytes) : BitVec 16 := bs.foldl (fun c b => crcByte c b.toBitVec) crcInit

end Mav.Spec
