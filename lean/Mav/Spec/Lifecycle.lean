import Mav.Model.Provider
/-
  SPEC (C14), in the property's words:
  the first connection attempt is immediate; every later attempt — after a failed attempt or after the end of a
  channel — comes after exactly one reconnect delay; a successful attempt opens exactly one channel, and that channel is
  closed, with its cause, before anything else happens; this goes on for as long as the history does.
-/
namespace Mav.Spec.Life
open Mav.Prov

def specTrace : Bool → List Outcome → List Act
  | _, [] => []
  | needWait, .fail :: rest => (if needWait then [Act.wait] else []) ++ [.attempt false] ++ specTrace true rest
  | needWait, .ok n e :: rest => (if needWait then [Act.wait] else []) ++ [.attempt true, .opn, .frames n, .close e] ++ specTrace true rest

/-- timednetconn: every Read / Write of the wrapped connection is immediately preceded by a deadline armed for that call;
    a deadline that cannot be armed aborts the call. -/
def tncStep (failAt : Option Nat) (st : Nat × List Low) (c : Call) : Nat × List Low :=
  match c with
  | .read => (st.1 + 1, st.2 ++ (if failAt = some st.1 then [.setRead false] else [.setRead true, .read]))
  | .write => (st.1 + 1, st.2 ++ (if failAt = some st.1 then [.setWrite false] else [.setWrite true, .write]))
  | .close => (st.1, st.2 ++ [.close])
  | .sleep => st

def tncSpec (failAt : Option Nat) (calls : List Call) : List Low := (calls.foldl (tncStep failAt) (0, [])).2

/-- servers: every peer has its own channel whose life depends on that peer only -/
inductive PeerEnd | closes | resets | silent | busy
deriving DecidableEq, Repr

def peerTrace (frames : Nat) : PeerEnd → List Act × Bool      -- (events, still open at the end)
  | .closes => ([.opn, .frames frames, .close .eof], false)
  | .resets => ([.opn, .frames frames, .close .reset], false)
  | .silent => ([.opn, .frames frames, .close .timeout], false)
  | .busy => ([.opn], true)

end Mav.Spec.Life
