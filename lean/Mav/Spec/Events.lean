import Mav.Basic
/-
  SPEC (C10): what an application may observe from ONE channel of a node.
  `full` is the channel's complete event sequence: open, one event per read result in arrival order, close.
  * while the node is not being closed and the application keeps receiving, the observed events are exactly a prefix of
    `full` that contains everything produced so far (mode `drain`: everything before the close);
  * once `Close` has been called the channel may stop reading (input not yet read produces no events) and events may be
    cut off, but what is observed is still a prefix of the channel's sequence: open, the events of a PREFIX of the
    input, then possibly close — never a hole, a duplicate, a reordering, an invented event, or a close without the
    open (mode `early`).
-/
namespace Mav.Spec

def isPrefix {α} [DecidableEq α] : List α → List α → Bool
  | [], _ => true
  | _ :: _, [] => false
  | a :: r, b :: s => a == b && isPrefix r s

/-- `body` = open + the events of the input; `closeEv` = the close event the channel would emit -/
def evLegal {α} [DecidableEq α] (drain : Bool) (body : List α) (closeEv : α) (pre post : List α) : Bool :=
  if drain then pre == body && isPrefix post [closeEv]
  else
    let obs := pre ++ post
    -- obs = body.take j, or obs = body.take j ++ [closeEv] with j ≥ 1 (the open event is body[0])
    isPrefix obs body ||
      (match obs.getLast? with
       | some l => l == closeEv && obs.length ≥ 2 && isPrefix obs.dropLast body
       | none => false)

/-- the transport ended by itself and the node was not being closed: the application received everything, then the close
    event carrying the cause, and nothing after it (mode `eof`) -/
def evLegalEnd {α} [DecidableEq α] (body : List α) (closeEv : α) (pre post : List α) : Bool :=
  pre == body ++ [closeEv] && post.isEmpty

end Mav.Spec
