import Mav.Model.Frame
/-
  SPEC: MAVLink serialization guide, frame layout. Written from the guide's packet format tables.
-/
namespace Mav.Spec

/-- v1: STX=0xFE, LEN, SEQ, SYSID, COMPID, MSGID(8), PAYLOAD, CRC(lo,hi) -/
def v1Bytes (seq sys comp : UInt8) (id : UInt32) (payload : Bytes) (crc : UInt16) : Bytes :=
  [0xFE, UInt8.ofNat payload.length, seq, sys, comp, id.toUInt8] ++ payload ++ le16 crc

/-- v2: STX=0xFD, LEN, INCOMPAT, COMPAT, SEQ, SYSID, COMPID, MSGID(24 LE), PAYLOAD, CRC(lo,hi), [LINK, TS(48 LE), SIG(6)] -/
def v2Bytes (incompat compat seq sys comp : UInt8) (id : UInt32) (payload : Bytes) (crc : UInt16)
    (sigBlock : Option (UInt8 × UInt64 × Bytes)) : Bytes :=
  [0xFD, UInt8.ofNat payload.length, incompat, compat, seq, sys, comp] ++ le24 id ++ payload ++ le16 crc ++
    (match sigBlock with
     | none => []
     | some (link, ts, sig) => [link] ++ le48 ts ++ sig)

/-- well-formed frames: the property's domain (decidable) -/
def wfb : Frame → Bool
  | .v1 f => match f.msg with
    | .raw id p => id ≤ 0xFF && p.length ≤ 255
    | _ => false
  | .v2 f => match f.msg with
    | .raw id p => id < 0x1000000 && p.length ≤ 255 &&
        ((f.incompat == 0 && f.sig == none && f.linkId == 0 && f.ts == 0) ||
         (f.incompat == 1 && f.ts < 0x1000000000000 && (match f.sig with | some s => s.length == 6 | none => false)))
    | _ => false

def WF (f : Frame) : Prop := wfb f = true

def specBytes : Frame → Bytes
  | .v1 f => match f.msg with
    | .raw id p => v1Bytes f.seq f.sys f.comp id p f.crc
    | _ => []
  | .v2 f => match f.msg with
    | .raw id p => v2Bytes f.incompat f.compat f.seq f.sys f.comp id p f.crc
        (match f.sig with | some s => some (f.linkId, f.ts, s) | none => none)
    | _ => []

end Mav.Spec

namespace Mav.Spec
/-- bytes covered by the frame checksum (before CRC_EXTRA): length..payload -/
def crcInput : Frame → Bytes
  | .v1 f => match f.msg with
    | .raw id p => [UInt8.ofNat p.length, f.seq, f.sys, f.comp, id.toUInt8] ++ p
    | _ => []
  | .v2 f => match f.msg with
    | .raw id p => [UInt8.ofNat p.length, f.incompat, f.compat, f.seq, f.sys, f.comp] ++ le24 id ++ p
    | _ => []
end Mav.Spec
