import Mav.Model.Writer
import Mav.Spec.Frame
import Mav.Spec.Crc
/-
  SPEC (C09, C06): frames originated by a message writer. Written from the property text:
  configured identity, compat flags 0, checksum by the spec CRC with the message's CRC_EXTRA, per-link sequence
  numbers 0,1,2,… mod 256 over *accepted* writes, signature block when a key is configured.
-/
namespace Mav.Spec

/-- one write. `count` = number of accepted writes so far on this link. -/
def swWrite (H : Bytes → Bytes) (d : WDialect) (c : SWCfg) (count : Nat) (sinceRefNs : UInt64) (m : Mav.Msg) :
    Nat × Except WErr Bytes :=
  match d with
  | none => (count, .error .nilDialect)
  | some dd =>
    match dd m.id with
    | none => (count, .error .notInDialect)
    | some codec =>
      -- payload: the message codec's encoding (specified by C03/C04)
      let payload : Except WErr Bytes := match m with
        | .raw _ p => .ok p
        | .dec _ vals => match codec.encode (c.version != 1) vals with
          | .ok p => .ok p
          | .panic => .error .panic
      match payload with
      | .error e => (count, .error e)
      | .ok p =>
        let seq := UInt8.ofNat (count % 256)
        let comp : UInt8 := if c.compId = 0 then 1 else c.compId     -- "1 when unset"
        if c.version = 1 then
          if m.id > 0xFF then (count, .error .v1Id) else
          let body := [UInt8.ofNat p.length, seq, c.sysId, comp, m.id.toUInt8] ++ p
          let crc := crc16 (body ++ [codec.crcExtra])
          (count + 1, .ok ([0xFE] ++ body ++ le16 (UInt16.ofBitVec crc)))
        else
          let incompat : UInt8 := if c.key.isSome then 1 else 0
          let body := [UInt8.ofNat p.length, incompat, 0, seq, c.sysId, comp] ++ le24 m.id ++ p
          let crc := crc16 (body ++ [codec.crcExtra])
          let unsignedBytes := [0xFD] ++ body ++ le16 (UInt16.ofBitVec crc)
          match c.key with
          | none => (count + 1, .ok unsignedBytes)
          | some k =>
            let ts := UInt64.ofNat (sinceRefNs.toNat / 10000)
            let pre := unsignedBytes ++ [c.linkId] ++ le48 ts
            (count + 1, .ok (pre ++ (H (k ++ pre)).take 6))

end Mav.Spec
