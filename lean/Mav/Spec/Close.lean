import Mav.Basic
/-
  SPEC (C12): what must be observed once `Node.Close` (or a failed `Initialize`) is over.
  The observation is made by the harness on the real node; this judge states the property's clauses, one field each.
-/
namespace Mav.Spec.Close

structure Obs where
  returned : Bool            -- Close returned within the bound (initfail: Initialize returned an error)
  eventsClosed : Bool        -- ranging over Events() ended, a further receive reports "closed"
  goroutinesLeft : Nat       -- goroutines started by the library still alive
  portsFree : List Bool      -- every listening / bound port can be bound again
  peersReleased : List Bool  -- every peer of an accepted or dialled connection saw it end
  closeCounts : List Nat     -- Close calls seen by every custom transport / opened serial port
  lateWritesReturned : Bool  -- every Write* call racing with or following Close returned
  panics : Nat
deriving Repr

def closeLegal (o : Obs) : Bool :=
  o.returned && o.eventsClosed && o.goroutinesLeft == 0 && o.portsFree.all id && o.peersReleased.all id &&
  o.closeCounts.all (· == 1) && o.lateWritesReturned && o.panics == 0

def parseBits (s : String) : Option (List Bool) :=
  if s == "-" then some [] else s.toList.mapM (fun c => if c == '1' then some true else if c == '0' then some false else none)

def parseNats (s : String) : Option (List Nat) :=
  if s == "-" then some [] else (s.splitOn ".").mapM String.toNat?

def parseObs (s : String) : Option Obs :=
  let kv := (s.splitOn ",").filterMap (fun t => match t.splitOn "=" with | [k, v] => some (k, v) | _ => none)
  do
    let ret ← kv.lookup "ret"
    let ev ← kv.lookup "evclosed"
    let gor ← (← kv.lookup "gor").toNat?
    let ports ← parseBits (← kv.lookup "ports")
    let peers ← parseBits (← kv.lookup "peers")
    let custom ← parseNats (← kv.lookup "custom")
    let late ← kv.lookup "late"
    let panics ← (← kv.lookup "panics").toNat?
    pure { returned := ret == "1", eventsClosed := ev == "1", goroutinesLeft := gor, portsFree := ports, peersReleased := peers,
           closeCounts := custom, lateWritesReturned := late == "1", panics := panics }

/-- the clauses, spelled out: the judge accepts exactly the observations in which every clause of the property holds -/
theorem closeLegal_iff (o : Obs) : closeLegal o = true ↔
    o.returned = true ∧ o.eventsClosed = true ∧ o.goroutinesLeft = 0 ∧ (∀ b ∈ o.portsFree, b = true) ∧
    (∀ b ∈ o.peersReleased, b = true) ∧ (∀ n ∈ o.closeCounts, n = 1) ∧ o.lateWritesReturned = true ∧ o.panics = 0 := by
  simp [closeLegal, and_assoc]

end Mav.Spec.Close
