import Mav.Gen.Src
import Mav.Expect.Src
/- TIE-G (G-seq pin) for C06: the normalised source of every function the C06 model was written from
   is unchanged. A failure names the function; the model must be re-validated against it. -/
namespace Mav.Pins.C06
theorem pin_frame_V2Frame_GenerateSignature : Gen.src_frame_V2Frame_GenerateSignature = Expect.src_frame_V2Frame_GenerateSignature := rfl
theorem pin_frame_NewV2Key : Gen.src_frame_NewV2Key = Expect.src_frame_NewV2Key := rfl
theorem pin_frame_peekAndDiscard : Gen.src_frame_peekAndDiscard = Expect.src_frame_peekAndDiscard := rfl
theorem pin_frame_V1Frame_unmarshal : Gen.src_frame_V1Frame_unmarshal = Expect.src_frame_V1Frame_unmarshal := rfl
theorem pin_frame_V2Frame_unmarshal : Gen.src_frame_V2Frame_unmarshal = Expect.src_frame_V2Frame_unmarshal := rfl
theorem pin_frame_uint24Decode : Gen.src_frame_uint24Decode = Expect.src_frame_uint24Decode := rfl
theorem pin_frame_uint48Decode : Gen.src_frame_uint48Decode = Expect.src_frame_uint48Decode := rfl
theorem pin_frame_Reader_Initialize : Gen.src_frame_Reader_Initialize = Expect.src_frame_Reader_Initialize := rfl
theorem pin_frame_Reader_Read : Gen.src_frame_Reader_Read = Expect.src_frame_Reader_Read := rfl
theorem pin_frame_V2Frame_IsSigned : Gen.src_frame_V2Frame_IsSigned = Expect.src_frame_V2Frame_IsSigned := rfl
theorem pin_frame_NewReader : Gen.src_frame_NewReader = Expect.src_frame_NewReader := rfl
theorem pin_streamwriter_encodeMessageInFrame : Gen.src_streamwriter_encodeMessageInFrame = Expect.src_streamwriter_encodeMessageInFrame := rfl
theorem pin_streamwriter_Writer_Initialize : Gen.src_streamwriter_Writer_Initialize = Expect.src_streamwriter_Writer_Initialize := rfl
theorem pin_streamwriter_Writer_Write : Gen.src_streamwriter_Writer_Write = Expect.src_streamwriter_Writer_Write := rfl
theorem pin_streamwriter_Writer_writeInner : Gen.src_streamwriter_Writer_writeInner = Expect.src_streamwriter_Writer_writeInner := rfl
theorem pin_frame_Writer_WriteMessage : Gen.src_frame_Writer_WriteMessage = Expect.src_frame_Writer_WriteMessage := rfl
theorem pin_frame_Writer_writeFrameAndFill : Gen.src_frame_Writer_writeFrameAndFill = Expect.src_frame_Writer_writeFrameAndFill := rfl
theorem pin_frame_V1Frame_marshalTo : Gen.src_frame_V1Frame_marshalTo = Expect.src_frame_V1Frame_marshalTo := rfl
theorem pin_frame_V2Frame_marshalTo : Gen.src_frame_V2Frame_marshalTo = Expect.src_frame_V2Frame_marshalTo := rfl
theorem pin_frame_uint24Encode : Gen.src_frame_uint24Encode = Expect.src_frame_uint24Encode := rfl
theorem pin_frame_uint48Encode : Gen.src_frame_uint48Encode = Expect.src_frame_uint48Encode := rfl
theorem pin_frame_encodeMessageInFrame : Gen.src_frame_encodeMessageInFrame = Expect.src_frame_encodeMessageInFrame := rfl
theorem pin_frame_Writer_Initialize : Gen.src_frame_Writer_Initialize = Expect.src_frame_Writer_Initialize := rfl
theorem pin_frame_Writer_Write : Gen.src_frame_Writer_Write = Expect.src_frame_Writer_Write := rfl
theorem pin_frame_Writer_writeFrameInner : Gen.src_frame_Writer_writeFrameInner = Expect.src_frame_Writer_writeFrameInner := rfl
theorem pin_frame_Writer_WriteFrame : Gen.src_frame_Writer_WriteFrame = Expect.src_frame_Writer_WriteFrame := rfl
theorem pin_frame_NewWriter : Gen.src_frame_NewWriter = Expect.src_frame_NewWriter := rfl
end Mav.Pins.C06
