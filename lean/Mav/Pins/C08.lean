import Mav.Gen.Src
import Mav.Expect.Src
/- TIE-G (G-seq pin) for C08: the normalised source of every function the C08 model was written from
   is unchanged. A failure names the function; the model must be re-validated against it. -/
namespace Mav.Pins.C08
theorem pin_frame_peekAndDiscard : Gen.src_frame_peekAndDiscard = Expect.src_frame_peekAndDiscard := rfl
theorem pin_frame_V1Frame_unmarshal : Gen.src_frame_V1Frame_unmarshal = Expect.src_frame_V1Frame_unmarshal := rfl
theorem pin_frame_V2Frame_unmarshal : Gen.src_frame_V2Frame_unmarshal = Expect.src_frame_V2Frame_unmarshal := rfl
theorem pin_frame_uint24Decode : Gen.src_frame_uint24Decode = Expect.src_frame_uint24Decode := rfl
theorem pin_frame_uint48Decode : Gen.src_frame_uint48Decode = Expect.src_frame_uint48Decode := rfl
theorem pin_frame_Reader_Initialize : Gen.src_frame_Reader_Initialize = Expect.src_frame_Reader_Initialize := rfl
theorem pin_frame_Reader_Read : Gen.src_frame_Reader_Read = Expect.src_frame_Reader_Read := rfl
theorem pin_frame_V2Frame_IsSigned : Gen.src_frame_V2Frame_IsSigned = Expect.src_frame_V2Frame_IsSigned := rfl
theorem pin_frame_NewReader : Gen.src_frame_NewReader = Expect.src_frame_NewReader := rfl
theorem pin_frame_V1Frame_marshalTo : Gen.src_frame_V1Frame_marshalTo = Expect.src_frame_V1Frame_marshalTo := rfl
theorem pin_frame_V2Frame_marshalTo : Gen.src_frame_V2Frame_marshalTo = Expect.src_frame_V2Frame_marshalTo := rfl
theorem pin_frame_uint24Encode : Gen.src_frame_uint24Encode = Expect.src_frame_uint24Encode := rfl
theorem pin_frame_uint48Encode : Gen.src_frame_uint48Encode = Expect.src_frame_uint48Encode := rfl
theorem pin_frame_encodeMessageInFrame : Gen.src_frame_encodeMessageInFrame = Expect.src_frame_encodeMessageInFrame := rfl
theorem pin_frame_Writer_Initialize : Gen.src_frame_Writer_Initialize = Expect.src_frame_Writer_Initialize := rfl
theorem pin_frame_Writer_Write : Gen.src_frame_Writer_Write = Expect.src_frame_Writer_Write := rfl
theorem pin_frame_Writer_writeFrameInner : Gen.src_frame_Writer_writeFrameInner = Expect.src_frame_Writer_writeFrameInner := rfl
theorem pin_frame_Writer_WriteFrame : Gen.src_frame_Writer_WriteFrame = Expect.src_frame_Writer_WriteFrame := rfl
theorem pin_frame_NewWriter : Gen.src_frame_NewWriter = Expect.src_frame_NewWriter := rfl
theorem pin_message_removeEmptyBytes : Gen.src_message_removeEmptyBytes = Expect.src_message_removeEmptyBytes := rfl
theorem pin_message_fieldGoToDef : Gen.src_message_fieldGoToDef = Expect.src_message_fieldGoToDef := rfl
theorem pin_message_msgGoToDef : Gen.src_message_msgGoToDef = Expect.src_message_msgGoToDef := rfl
theorem pin_message_readValue : Gen.src_message_readValue = Expect.src_message_readValue := rfl
theorem pin_message_writeValue : Gen.src_message_writeValue = Expect.src_message_writeValue := rfl
theorem pin_message_ReadWriter_Initialize : Gen.src_message_ReadWriter_Initialize = Expect.src_message_ReadWriter_Initialize := rfl
theorem pin_message_ReadWriter_CRCExtra : Gen.src_message_ReadWriter_CRCExtra = Expect.src_message_ReadWriter_CRCExtra := rfl
theorem pin_message_ReadWriter_Read : Gen.src_message_ReadWriter_Read = Expect.src_message_ReadWriter_Read := rfl
theorem pin_message_ReadWriter_size : Gen.src_message_ReadWriter_size = Expect.src_message_ReadWriter_size := rfl
theorem pin_message_ReadWriter_Write : Gen.src_message_ReadWriter_Write = Expect.src_message_ReadWriter_Write := rfl
theorem pin_message_MessageRaw_GetID : Gen.src_message_MessageRaw_GetID = Expect.src_message_MessageRaw_GetID := rfl
theorem pin_x25_X25_Reset : Gen.src_x25_X25_Reset = Expect.src_x25_X25_Reset := rfl
theorem pin_x25_X25_Write : Gen.src_x25_X25_Write = Expect.src_x25_X25_Write := rfl
theorem pin_x25_X25_Sum16 : Gen.src_x25_X25_Sum16 = Expect.src_x25_X25_Sum16 := rfl
theorem pin_x25_New : Gen.src_x25_New = Expect.src_x25_New := rfl
theorem pin_frame_V1Frame_GenerateChecksum : Gen.src_frame_V1Frame_GenerateChecksum = Expect.src_frame_V1Frame_GenerateChecksum := rfl
theorem pin_frame_V2Frame_GenerateChecksum : Gen.src_frame_V2Frame_GenerateChecksum = Expect.src_frame_V2Frame_GenerateChecksum := rfl
theorem pin_frame_V2Frame_GenerateSignature : Gen.src_frame_V2Frame_GenerateSignature = Expect.src_frame_V2Frame_GenerateSignature := rfl
theorem pin_frame_NewV2Key : Gen.src_frame_NewV2Key = Expect.src_frame_NewV2Key := rfl
theorem pin_node_Node_FixFrame : Gen.src_node_Node_FixFrame = Expect.src_node_Node_FixFrame := rfl
theorem pin_node_Node_encodeFrame : Gen.src_node_Node_encodeFrame = Expect.src_node_Node_encodeFrame := rfl
theorem pin_node_Node_encodeMessage : Gen.src_node_Node_encodeMessage = Expect.src_node_Node_encodeMessage := rfl
end Mav.Pins.C08
