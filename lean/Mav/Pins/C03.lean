import Mav.Gen.Src
import Mav.Expect.Src
/- TIE-G (G-seq pin) for C03: the normalised source of every function the C03 model was written from
   is unchanged. A failure names the function; the model must be re-validated against it. -/
namespace Mav.Pins.C03
theorem pin_message_removeEmptyBytes : Gen.src_message_removeEmptyBytes = Expect.src_message_removeEmptyBytes := rfl
theorem pin_message_fieldGoToDef : Gen.src_message_fieldGoToDef = Expect.src_message_fieldGoToDef := rfl
theorem pin_message_msgGoToDef : Gen.src_message_msgGoToDef = Expect.src_message_msgGoToDef := rfl
theorem pin_message_readValue : Gen.src_message_readValue = Expect.src_message_readValue := rfl
theorem pin_message_writeValue : Gen.src_message_writeValue = Expect.src_message_writeValue := rfl
theorem pin_message_ReadWriter_Initialize : Gen.src_message_ReadWriter_Initialize = Expect.src_message_ReadWriter_Initialize := rfl
theorem pin_message_ReadWriter_CRCExtra : Gen.src_message_ReadWriter_CRCExtra = Expect.src_message_ReadWriter_CRCExtra := rfl
theorem pin_message_ReadWriter_Read : Gen.src_message_ReadWriter_Read = Expect.src_message_ReadWriter_Read := rfl
theorem pin_message_ReadWriter_size : Gen.src_message_ReadWriter_size = Expect.src_message_ReadWriter_size := rfl
theorem pin_message_ReadWriter_Write : Gen.src_message_ReadWriter_Write = Expect.src_message_ReadWriter_Write := rfl
theorem pin_message_MessageRaw_GetID : Gen.src_message_MessageRaw_GetID = Expect.src_message_MessageRaw_GetID := rfl
theorem pin_x25_X25_Reset : Gen.src_x25_X25_Reset = Expect.src_x25_X25_Reset := rfl
theorem pin_x25_X25_Write : Gen.src_x25_X25_Write = Expect.src_x25_X25_Write := rfl
theorem pin_x25_X25_Sum16 : Gen.src_x25_X25_Sum16 = Expect.src_x25_X25_Sum16 := rfl
theorem pin_x25_New : Gen.src_x25_New = Expect.src_x25_New := rfl
end Mav.Pins.C03
