import Mav.Gen.Src
import Mav.Expect.Src
/- TIE-G (G-seq pin) for C05: the normalised source of every function the C05 model was written from
   is unchanged. A failure names the function; the model must be re-validated against it. -/
namespace Mav.Pins.C05
theorem pin_frame_peekAndDiscard : Gen.src_frame_peekAndDiscard = Expect.src_frame_peekAndDiscard := rfl
theorem pin_frame_V1Frame_unmarshal : Gen.src_frame_V1Frame_unmarshal = Expect.src_frame_V1Frame_unmarshal := rfl
theorem pin_frame_V2Frame_unmarshal : Gen.src_frame_V2Frame_unmarshal = Expect.src_frame_V2Frame_unmarshal := rfl
theorem pin_frame_uint24Decode : Gen.src_frame_uint24Decode = Expect.src_frame_uint24Decode := rfl
theorem pin_frame_uint48Decode : Gen.src_frame_uint48Decode = Expect.src_frame_uint48Decode := rfl
theorem pin_frame_Reader_Initialize : Gen.src_frame_Reader_Initialize = Expect.src_frame_Reader_Initialize := rfl
theorem pin_frame_Reader_Read : Gen.src_frame_Reader_Read = Expect.src_frame_Reader_Read := rfl
theorem pin_frame_V2Frame_IsSigned : Gen.src_frame_V2Frame_IsSigned = Expect.src_frame_V2Frame_IsSigned := rfl
theorem pin_frame_NewReader : Gen.src_frame_NewReader = Expect.src_frame_NewReader := rfl
end Mav.Pins.C05
