import Mav.Gen.Src
import Mav.Expect.Src
/- TIE-G (G-seq pin) for C09: the normalised source of every function the C09 model was written from
   is unchanged. A failure names the function; the model must be re-validated against it. -/
namespace Mav.Pins.C09
theorem pin_streamwriter_encodeMessageInFrame : Gen.src_streamwriter_encodeMessageInFrame = Expect.src_streamwriter_encodeMessageInFrame := rfl
theorem pin_streamwriter_Writer_Initialize : Gen.src_streamwriter_Writer_Initialize = Expect.src_streamwriter_Writer_Initialize := rfl
theorem pin_streamwriter_Writer_Write : Gen.src_streamwriter_Writer_Write = Expect.src_streamwriter_Writer_Write := rfl
theorem pin_streamwriter_Writer_writeInner : Gen.src_streamwriter_Writer_writeInner = Expect.src_streamwriter_Writer_writeInner := rfl
theorem pin_frame_Writer_WriteMessage : Gen.src_frame_Writer_WriteMessage = Expect.src_frame_Writer_WriteMessage := rfl
theorem pin_frame_Writer_writeFrameAndFill : Gen.src_frame_Writer_writeFrameAndFill = Expect.src_frame_Writer_writeFrameAndFill := rfl
theorem pin_frame_V1Frame_marshalTo : Gen.src_frame_V1Frame_marshalTo = Expect.src_frame_V1Frame_marshalTo := rfl
theorem pin_frame_V2Frame_marshalTo : Gen.src_frame_V2Frame_marshalTo = Expect.src_frame_V2Frame_marshalTo := rfl
theorem pin_frame_uint24Encode : Gen.src_frame_uint24Encode = Expect.src_frame_uint24Encode := rfl
theorem pin_frame_uint48Encode : Gen.src_frame_uint48Encode = Expect.src_frame_uint48Encode := rfl
theorem pin_frame_encodeMessageInFrame : Gen.src_frame_encodeMessageInFrame = Expect.src_frame_encodeMessageInFrame := rfl
theorem pin_frame_Writer_Initialize : Gen.src_frame_Writer_Initialize = Expect.src_frame_Writer_Initialize := rfl
theorem pin_frame_Writer_Write : Gen.src_frame_Writer_Write = Expect.src_frame_Writer_Write := rfl
theorem pin_frame_Writer_writeFrameInner : Gen.src_frame_Writer_writeFrameInner = Expect.src_frame_Writer_writeFrameInner := rfl
theorem pin_frame_Writer_WriteFrame : Gen.src_frame_Writer_WriteFrame = Expect.src_frame_Writer_WriteFrame := rfl
theorem pin_frame_NewWriter : Gen.src_frame_NewWriter = Expect.src_frame_NewWriter := rfl
theorem pin_x25_X25_Reset : Gen.src_x25_X25_Reset = Expect.src_x25_X25_Reset := rfl
theorem pin_x25_X25_Write : Gen.src_x25_X25_Write = Expect.src_x25_X25_Write := rfl
theorem pin_x25_X25_Sum16 : Gen.src_x25_X25_Sum16 = Expect.src_x25_X25_Sum16 := rfl
theorem pin_x25_New : Gen.src_x25_New = Expect.src_x25_New := rfl
theorem pin_frame_V1Frame_GenerateChecksum : Gen.src_frame_V1Frame_GenerateChecksum = Expect.src_frame_V1Frame_GenerateChecksum := rfl
theorem pin_frame_V2Frame_GenerateChecksum : Gen.src_frame_V2Frame_GenerateChecksum = Expect.src_frame_V2Frame_GenerateChecksum := rfl
theorem pin_node_Node_Initialize : Gen.src_node_Node_Initialize = Expect.src_node_Node_Initialize := rfl
theorem pin_node_Channel_initialize : Gen.src_node_Channel_initialize = Expect.src_node_Channel_initialize := rfl
end Mav.Pins.C09
