import Mav.Gen.Src
import Mav.Expect.Src
/- TIE-G (G-seq pin) for C18: the normalised source of every function the C18 model was written from
   is unchanged. A failure names the function; the model must be re-validated against it. -/
namespace Mav.Pins.C18
theorem pin_conversion_defAddrToName : Gen.src_conversion_defAddrToName = Expect.src_conversion_defAddrToName := rfl
theorem pin_conversion_dialectNameGoToDef : Gen.src_conversion_dialectNameGoToDef = Expect.src_conversion_dialectNameGoToDef := rfl
theorem pin_conversion_dialectNameDefToGo : Gen.src_conversion_dialectNameDefToGo = Expect.src_conversion_dialectNameDefToGo := rfl
theorem pin_conversion_parseDescription : Gen.src_conversion_parseDescription = Expect.src_conversion_parseDescription := rfl
theorem pin_conversion_uintPow : Gen.src_conversion_uintPow = Expect.src_conversion_uintPow := rfl
theorem pin_conversion_processDefinition : Gen.src_conversion_processDefinition = Expect.src_conversion_processDefinition := rfl
theorem pin_conversion_getDefinition : Gen.src_conversion_getDefinition = Expect.src_conversion_getDefinition := rfl
theorem pin_conversion_processMessage : Gen.src_conversion_processMessage = Expect.src_conversion_processMessage := rfl
theorem pin_conversion_processField : Gen.src_conversion_processField = Expect.src_conversion_processField := rfl
theorem pin_conversion_writeDialect : Gen.src_conversion_writeDialect = Expect.src_conversion_writeDialect := rfl
theorem pin_conversion_writeEnum : Gen.src_conversion_writeEnum = Expect.src_conversion_writeEnum := rfl
theorem pin_conversion_writeMessage : Gen.src_conversion_writeMessage = Expect.src_conversion_writeMessage := rfl
theorem pin_conversion_Convert : Gen.src_conversion_Convert = Expect.src_conversion_Convert := rfl
theorem pin_conversion_goFileName : Gen.src_conversion_goFileName = Expect.src_conversion_goFileName := rfl
theorem pin_conversion_definitionMessage_UnmarshalXML : Gen.src_conversion_definitionMessage_UnmarshalXML = Expect.src_conversion_definitionMessage_UnmarshalXML := rfl
theorem pin_conversion_definitionDecode : Gen.src_conversion_definitionDecode = Expect.src_conversion_definitionDecode := rfl
theorem pin_conversion_var_tplDialect : Gen.src_conversion_var_tplDialect = Expect.src_conversion_var_tplDialect := rfl
theorem pin_conversion_var_tplEnum : Gen.src_conversion_var_tplEnum = Expect.src_conversion_var_tplEnum := rfl
theorem pin_conversion_var_tplMessage : Gen.src_conversion_var_tplMessage = Expect.src_conversion_var_tplMessage := rfl
theorem pin_conversion_var_reMsgName : Gen.src_conversion_var_reMsgName = Expect.src_conversion_var_reMsgName := rfl
theorem pin_conversion_var_reTypeIsArray : Gen.src_conversion_var_reTypeIsArray = Expect.src_conversion_var_reTypeIsArray := rfl
theorem pin_conversion_var_dialectTypeToGo : Gen.src_conversion_var_dialectTypeToGo = Expect.src_conversion_var_dialectTypeToGo := rfl
theorem pin_message_removeEmptyBytes : Gen.src_message_removeEmptyBytes = Expect.src_message_removeEmptyBytes := rfl
theorem pin_message_fieldGoToDef : Gen.src_message_fieldGoToDef = Expect.src_message_fieldGoToDef := rfl
theorem pin_message_msgGoToDef : Gen.src_message_msgGoToDef = Expect.src_message_msgGoToDef := rfl
theorem pin_message_readValue : Gen.src_message_readValue = Expect.src_message_readValue := rfl
theorem pin_message_writeValue : Gen.src_message_writeValue = Expect.src_message_writeValue := rfl
theorem pin_message_ReadWriter_Initialize : Gen.src_message_ReadWriter_Initialize = Expect.src_message_ReadWriter_Initialize := rfl
theorem pin_message_ReadWriter_CRCExtra : Gen.src_message_ReadWriter_CRCExtra = Expect.src_message_ReadWriter_CRCExtra := rfl
theorem pin_message_ReadWriter_Read : Gen.src_message_ReadWriter_Read = Expect.src_message_ReadWriter_Read := rfl
theorem pin_message_ReadWriter_size : Gen.src_message_ReadWriter_size = Expect.src_message_ReadWriter_size := rfl
theorem pin_message_ReadWriter_Write : Gen.src_message_ReadWriter_Write = Expect.src_message_ReadWriter_Write := rfl
theorem pin_message_MessageRaw_GetID : Gen.src_message_MessageRaw_GetID = Expect.src_message_MessageRaw_GetID := rfl
theorem pin_dialect_ReadWriter_Initialize : Gen.src_dialect_ReadWriter_Initialize = Expect.src_dialect_ReadWriter_Initialize := rfl
theorem pin_dialect_ReadWriter_GetMessage : Gen.src_dialect_ReadWriter_GetMessage = Expect.src_dialect_ReadWriter_GetMessage := rfl
end Mav.Pins.C18
