import Mav.Gen.Src
import Mav.Expect.Src
/- TIE-G (G-seq pin) for C19: the normalised source of every function the C19 model was written from
   is unchanged. A failure names the function; the model must be re-validated against it. -/
namespace Mav.Pins.C19
theorem pin_conversion_uintPow : Gen.src_conversion_uintPow = Expect.src_conversion_uintPow := rfl
theorem pin_conversion_processDefinition : Gen.src_conversion_processDefinition = Expect.src_conversion_processDefinition := rfl
theorem pin_conversion_writeEnum : Gen.src_conversion_writeEnum = Expect.src_conversion_writeEnum := rfl
theorem pin_conversion_var_tplEnum : Gen.src_conversion_var_tplEnum = Expect.src_conversion_var_tplEnum := rfl
end Mav.Pins.C19
