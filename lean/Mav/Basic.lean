/-
  Basic byte-level vocabulary shared by specs and models. Core Lean only.
-/
namespace Mav

abbrev Bytes := List UInt8

/-- little-endian bytes of a 16-bit value (spec vocabulary) -/
def le16 (x : UInt16) : Bytes := [x.toUInt8, (x >>> 8).toUInt8]

/-- little-endian low 24 bits -/
def le24 (x : UInt32) : Bytes := [x.toUInt8, (x >>> 8).toUInt8, (x >>> 16).toUInt8]

/-- little-endian low 48 bits -/
def le48 (x : UInt64) : Bytes :=
  [x.toUInt8, (x >>> 8).toUInt8, (x >>> 16).toUInt8, (x >>> 24).toUInt8, (x >>> 32).toUInt8, (x >>> 40).toUInt8]

def le32 (x : UInt32) : Bytes := [x.toUInt8, (x >>> 8).toUInt8, (x >>> 16).toUInt8, (x >>> 24).toUInt8]

def le64 (x : UInt64) : Bytes :=
  [x.toUInt8, (x >>> 8).toUInt8, (x >>> 16).toUInt8, (x >>> 24).toUInt8,
   (x >>> 32).toUInt8, (x >>> 40).toUInt8, (x >>> 48).toUInt8, (x >>> 56).toUInt8]

def be64 (x : UInt64) : Bytes :=
  [(x >>> 56).toUInt8, (x >>> 48).toUInt8, (x >>> 40).toUInt8, (x >>> 32).toUInt8,
   (x >>> 24).toUInt8, (x >>> 16).toUInt8, (x >>> 8).toUInt8, x.toUInt8]

def unLe16 (a b : UInt8) : UInt16 := a.toUInt16 ||| (b.toUInt16 <<< 8)

/-! hex helpers for the driver -/
def hexDigit (n : Nat) : Char :=
  if n < 10 then Char.ofNat (48 + n) else Char.ofNat (87 + n)

def hexByte (b : UInt8) : String :=
  String.ofList [hexDigit (b.toNat / 16), hexDigit (b.toNat % 16)]

def toHex (bs : Bytes) : String := String.join (bs.map hexByte)

def hexVal (c : Char) : Option Nat :=
  if '0' ≤ c ∧ c ≤ '9' then some (c.toNat - 48)
  else if 'a' ≤ c ∧ c ≤ 'f' then some (c.toNat - 87)
  else if 'A' ≤ c ∧ c ≤ 'F' then some (c.toNat - 55)
  else none

def fromHexAux : List Char → Bytes → Option Bytes
  | [], acc => some acc.reverse
  | [_], _ => none
  | a :: b :: r, acc =>
    match hexVal a, hexVal b with
    | some x, some y => fromHexAux r (UInt8.ofNat (x * 16 + y) :: acc)
    | _, _ => none

def fromHex (s : String) : Option Bytes :=
  if s == "-" then some [] else fromHexAux s.toList []

end Mav
