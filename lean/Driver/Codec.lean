import Mav.Model.Tlog
import Mav.Model.Sha256
import Mav.Spec.Frame
/- Line-protocol encoding/decoding for the driver (no proofs here). -/
namespace Drv
open Mav

def hex64 (x : UInt64) : String :=
  let s := String.ofList (Nat.toDigits 16 x.toNat)
  s

def parseHex64 (s : String) : Option UInt64 :=
  s.toList.foldl (fun acc c => match acc, hexVal c with
    | some n, some d => some (n * 16 + UInt64.ofNat d)
    | _, _ => none) (some 0)

def encVal : Msg.FVal → String
  | .num xs => "n" ++ ".".intercalate (xs.map hex64)
  | .str s => "s" ++ toHex s

def encVals (vs : List Msg.FVal) : String := ",".intercalate (vs.map encVal)

def decVal (s : String) : Option Msg.FVal :=
  match s.toList with
  | 'n' :: r =>
    let body := String.ofList r
    if body.isEmpty then some (.num []) else
    (body.splitOn ".").mapM parseHex64 |>.map .num
  | 's' :: r => (fromHexAux r []).map .str
  | _ => none

def decVals (s : String) : Option (List Msg.FVal) :=
  if s.isEmpty then some [] else (s.splitOn ",").mapM decVal

def encMsg : Mav.Msg → String
  | .raw id p => s!"r/{id}/{if p.isEmpty then "-" else toHex p}"
  | .dec id vs => s!"d/{id}/{encVals vs}"

def decMsg (s : String) : Option Mav.Msg :=
  match s.splitOn "/" with
  | ["r", id, p] => do
    let i ← id.toNat?
    let bs ← fromHex p
    pure (.raw (UInt32.ofNat i) bs)
  | ["d", id, vs] => do
    let i ← id.toNat?
    let v ← decVals vs
    pure (.dec (UInt32.ofNat i) v)
  | _ => none

def encFrame : Frame → String
  | .v1 f => s!"v1:{f.seq}:{f.sys}:{f.comp}:{f.crc}:{encMsg f.msg}"
  | .v2 f =>
    let sg := match f.sig with | none => "nil" | some s => toHex s
    s!"v2:{f.incompat}:{f.compat}:{f.seq}:{f.sys}:{f.comp}:{f.crc}:{f.linkId}:{f.ts}:{sg}:{encMsg f.msg}"

def u8 (s : String) : Option UInt8 := s.toNat?.map UInt8.ofNat

def decFrame (s : String) : Option Frame :=
  match s.splitOn ":" with
  | ["v1", seq, sys, comp, crc, m] => do
    pure (.v1 { seq := ← u8 seq, sys := ← u8 sys, comp := ← u8 comp, crc := UInt16.ofNat (← crc.toNat?), msg := ← decMsg m })
  | ["v2", ic, c, seq, sys, comp, crc, link, ts, sg, m] => do
    let sig ← (if sg == "nil" then some none else (fromHex sg).map some)
    pure (.v2 { incompat := ← u8 ic, compat := ← u8 c, seq := ← u8 seq, sys := ← u8 sys, comp := ← u8 comp,
                crc := UInt16.ofNat (← crc.toNat?), linkId := ← u8 link, ts := UInt64.ofNat (← ts.toNat?),
                sig := sig, msg := ← decMsg m })
  | _ => none

def decStream (s : String) : Option Stream :=
  if s == "-" then some [] else
  (s.splitOn ",").foldlM (fun acc tok =>
    match tok.toList with
    | '!' :: r => (String.ofList r).toNat?.map (fun k => acc ++ [Item.e k])
    | cs => (fromHexAux cs []).map (fun bs => acc ++ bytesToItems bs)) []

def encIOErr : IOErr → String
  | .eof => "eof" | .ueof => "ueof" | .tr k => s!"tr{k}"

def encPErr : PErr → String
  | .io e => s!"io-{encIOErr e}"
  | .badMagic b => s!"magic-{b}"
  | .badIncompat x => s!"incompat-{x}"
  | .sigNotV2 => "sig-not-v2" | .sigMissing => "sig-missing" | .sigWrong => "sig-wrong" | .sigOld => "sig-old"
  | .crcWrong => "crc" | .decodeSize => "decode-size"

def encRRes : RRes → String
  | .frame f => "F" ++ encFrame f
  | .perr e => "P" ++ encPErr e
  | .terr e => "T" ++ encIOErr e
  | .panic => "PANIC"

def encWErr : WErr → String
  | .nilMsg => "nil-msg" | .nilDialect => "nil-dialect" | .notInDialect => "not-in-dialect"
  | .v1Id => "v1id" | .panic => "panic" | .transport k => s!"tr{k}"

def decField (s : String) : Option Msg.GoField :=
  match s.splitOn ";" with
  | [gn, ia, al, et, eu, me, ml, mx, mn] => do
    pure { goName := gn, isArray := ia == "1", arrLen := ← al.toNat?, elemType := et, elemIsUint64 := eu == "1",
           mavenum := me, mavlen := ml, mavext := mx, mavname := mn }
  | [gn, ia, al, et, eu, me, ml, mx, mn, ex] => do
    pure { goName := gn, isArray := ia == "1", arrLen := ← al.toNat?, elemType := et, elemIsUint64 := eu == "1",
           mavenum := me, mavlen := ml, mavext := mx, mavname := mn, exported := ex == "1" }
  | _ => none

def decStruct (name : String) (s : String) : Option Msg.GoStruct := do
  let fs ← (if s == "-" then some [] else (s.splitOn ",").mapM decField)
  pure { name := name, fields := fs }

end Drv
