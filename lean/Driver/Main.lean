import Driver.Codec
import Mav.Spec.Msg
import Mav.Spec.Writer
import Mav.Model.Dialect
import Mav.Model.EnumText
import Mav.Model.EnumCheck
import Mav.Spec.Events
import Mav.Spec.Fanout
import Mav.Spec.Close
import Mav.Spec.Lifecycle
import Mav.Spec.AutoMsgs
import Mav.Spec.Gen18
import Mav.Spec.PublishedCrc
import Mav.Spec.GoTool
import Mav.Model.GenFile
/- mavdrv: one operation per line on stdin, model (and spec) answer per line on stdout. -/
open Mav Drv

structure DMsg where
  id : UInt32
  st : Msg.GoStruct
  rw : Msg.RW

structure DState where
  dialects : List (String × List DMsg) := []
  allDefs : List (String × List (UInt32 × Msg.GoStruct)) := []      -- every defmsg, also structs that do not initialise
  enums : List (String × EnumText.EnumDef) := []
  defPkgs : List (String × String) := []                            -- "dialect id" ↦ "pkg.GoName" (preamble from tools/extract)

def DState.get (s : DState) (name : String) : Option (List DMsg) :=
  if name == "-" then none else some ((s.dialects.lookup name).getD [])

def rdialect (ms : Option (List DMsg)) : Option (UInt32 → Option Codec) :=
  ms.map (fun l id => (l.find? (·.id == id)).map (fun m =>
    { crcExtra := m.rw.crcExtra, decode := Msg.decode m.rw, encode := Msg.encode m.rw,
      specCrcExtra := match Spec.Msg.ofGo m.st with
        | some d => UInt8.ofNat (Spec.Msg.crcExtra d)
        | none => m.rw.crcExtra }))

def wdialect (ms : Option (List DMsg)) : WDialect :=
  ms.map (fun l id => (l.find? (·.id == id)).map (fun m => { crcExtra := m.rw.crcExtra, encode := Msg.encode m.rw }))

def keyOf (s : String) : Option (Option Bytes) :=
  if s == "-" then some none else (fromHex s).map some

/-- repeated Read until EOF at a frame boundary (or fuel) -/
def readAllD (cfg : RCfg) : Nat → RState → Stream → List RRes → List RRes × RState
  | 0, st, _, acc => (acc.reverse, st)
  | fuel + 1, st, s, acc =>
    match readOne cfg st s with
    | (.terr .eof, _, st') => ((RRes.terr .eof :: acc).reverse, st')
    | (r, s', st') => readAllD cfg fuel st' s' (r :: acc)

def tlogReadAll (cfg : RCfg) : Nat → Stream → List String → List String
  | 0, _, acc => acc.reverse
  | fuel + 1, s, acc =>
    match Tlog.readEntry cfg s with
    | (.ioerr .eof, _) => ("Xeof" :: acc).reverse
    | (.ioerr e, s') => tlogReadAll cfg fuel s' (("X" ++ encIOErr e) :: acc)
    | (.err (.terr .eof), _) => ("Xeof" :: acc).reverse
    | (.err (.terr e), s') => tlogReadAll cfg fuel s' (("X" ++ encIOErr e) :: acc)
    | (.err (.perr e), s') => tlogReadAll cfg fuel s' (("RP" ++ encPErr e) :: acc)
    | (.err r, s') => tlogReadAll cfg fuel s' (("R" ++ encRRes r) :: acc)
    | (.entry ep t f, s') => tlogReadAll cfg fuel s' (s!"N{ep}/{t.1}/{t.2}/{encFrame f}" :: acc)

def maskCrc (mask : Bool) (f : Frame) : String :=
  if !mask then encFrame f else
  match f with
  | .v1 g => s!"v1:{g.seq}:{g.sys}:{g.comp}:*:{encMsg g.msg}"
  | .v2 g =>
    let sg := match g.sig with | none => "nil" | some s => toHex s
    s!"v2:{g.incompat}:{g.compat}:{g.seq}:{g.sys}:{g.comp}:*:{g.linkId}:{g.ts}:{sg}:{encMsg g.msg}"

def encRResM (mask : Bool) : RRes → String
  | .frame f => "F" ++ maskCrc mask f
  | r => encRRes r

/-- model of a forwarding chain: read everything, write every frame unchanged, next hop reads the written bytes -/
def hopChain (rcfg : RCfg) (wd : WDialect) (hasDialect : Bool) : Nat → Nat → Bytes → List String → List String
  | 0, _, _, acc => acc.reverse
  | fuel + 1, h, cur, acc =>
    let s := bytesToItems cur
    let (rs, _) := readAllD rcfg (s.length + 2) {} s []
    let (outs, next) := rs.foldl (fun (a : List String × Bytes) r =>
      match r with
      | .frame f =>
        (match frameWrite wd f with
        | .ok (bs, _) => (a.1 ++ ["F" ++ maskCrc (h > 0 && hasDialect) f], a.2 ++ bs)
        | .error e => (a.1 ++ ["F" ++ maskCrc (h > 0 && hasDialect) f, "W" ++ encWErr e], a.2))
      | .terr .eof => a
      | r => (a.1 ++ [encRRes r], a.2)) ([], [])
    let same := if hasDialect then "*" else if next == cur then "same" else "diff"
    hopChain rcfg wd hasDialect fuel (h + 1) next (s!"H{h}[fwd={same}]:{" ".intercalate outs}" :: acc)

/-- SPEC of a forwarding chain (C08): without a dialect every hop sees what hop 0 saw and forwards identical bytes;
    with a dialect every frame accepted at hop 0 is accepted at every later hop with the same header fields and the
    same decoded message (the checksum may be recomputed). -/
def hopSpec (rcfg : RCfg) (hasDialect : Bool) (hops : Nat) (cur : Bytes) : List String :=
  let s := bytesToItems cur
  let (rs, _) := readAllD { rcfg with specWindow := true } (s.length + 2) {} s []
  let h0 := rs.filter (fun r => match r with | .terr .eof => false | _ => true)
  let frames := h0.filter (fun r => match r with | .frame _ => true | _ => false)
  let line0 := s!"H0[fwd={if hasDialect then "*" else "same"}]:{" ".intercalate (h0.map (encRResM false))}"
  let later := (List.range hops).map (fun k =>
    s!"H{k+1}[fwd={if hasDialect then "*" else "same"}]:{" ".intercalate (frames.map (encRResM hasDialect))}")
  line0 :: later

/-- SPEC (C19): rendering. Plain: a defined constant prints as its name, anything else as the signed decimal of the 64-bit
    value. Bitmask: 0 prints "0"; a combination of defined flags prints the names of the flags it contains, " | "-joined;
    other values: no requirement ("-"). -/
def specEnumMarshal (d : EnumText.EnumDef) (v : UInt64) : String :=
  let enc (t : List Char) : String := "t:" ++ (if t.isEmpty then "-" else toHex (String.ofList t).toUTF8.toList)
  match d.form with
  | .plain =>
    (match d.consts.find? (fun c => c.2 == v.toNat) with
    | some c => enc c.1.toList
    | none => enc (EnumText.itoa v.toInt64.toInt))
  | _ =>
    if v == 0 then enc ['0'] else
    let flags := (d.consts.filter (fun c => c.2 != 0 && (v.toNat &&& c.2) == c.2))
    let span := flags.foldl (fun a c => a ||| c.2) 0
    if span == v.toNat then enc (EnumText.joinSep (flags.map (·.1.toList))) else "-"

/-- SPEC (C19): parsing. A known name gives its value, a decimal int64 numeral its value; bitmask texts are " | "-separated
    lists of those, OR-ed; anything else is rejected. -/
def specEnumUnmarshal (d : EnumText.EnumDef) (t : List Char) : String :=
  let one (l : List Char) : Option Nat :=
    match d.consts.find? (fun c => c.1.toList == l) with
    | some c => some c.2
    | none => (EnumText.atoi l).map (fun i => (EnumText.ofInt64 i).toNat)
  match d.form with
  | .plain => (match one t with | some v => s!"ok:{v}" | none => "err")
  | _ =>
    match (EnumText.splitSep t []).foldl (fun acc l => match acc, one l with
      | some m, some v => some (m ||| v) | _, _ => none) (some 0) with
    | some v => s!"ok:{v}"
    | none => "err"

open Spec.Fan in
def decOp (s : String) : Option Op :=
  match s.toList with
  | k :: t :: rest =>
    let isMsg := k == 'm'
    let bad := rest.getLast? == some '!'
    let body := String.ofList (if bad then rest.dropLast else rest)
    let ch : Option (Option Nat) := if body == "F" then some none else if body == "" then some none else body.toNat?.map some
    (match t, ch with
    | 'a', _ => some { isMsg := isMsg, tgt := .all, bad := bad }
    | 't', some c => some { isMsg := isMsg, tgt := .to c, bad := bad }
    | 'x', some c => some { isMsg := isMsg, tgt := .except c, bad := bad }
    | _, _ => none)
  | _ => none

open Spec.Fan in
def decPlan (s : String) : Option Plan :=
  (s.splitOn ";").mapM (fun g => if g.isEmpty then some [] else (g.splitOn ",").mapM decOp)

open Spec.Fan in
/-- "m1.4:2:9" / "f0.3:3:1" / "BAD" -/
def decObsItem (s : String) : Option (Option Obs) :=
  if s == "BAD" then some none else
  match s.toList with
  | k :: rest =>
    (match (String.ofList rest).splitOn ":" with
    | [tag, seq, sys] =>
      (match tag.splitOn "." with
      | [g, i] => do
        let g ← g.toNat?; let i ← i.toNat?; let seq ← seq.toNat?; let sys ← sys.toNat?
        pure (some { isMsg := k == 'm', g := g, i := i, seq := seq, sys := sys })
      | _ => none)
    | _ => none)
  | _ => none

open Spec.Fan in
def decObs (s : String) : Option (List (List (Option Obs))) :=
  (s.splitOn ";").mapM (fun c => if c == "-" then some [] else (c.splitOn ",").mapM decObsItem)

def initLine (r : Except Msg.InitErr Msg.RW) : String :=
  match r with
  | .error e => "err:" ++ (match e with
      | .namePrefix => "name-prefix" | .enumNotUint64 => "enum-not-uint64" | .unsupported => "unsupported"
      | .enumType => "enum-type" | .strLen => "str-len" | .unexported => "unexported" | .arrLen => "arr-len"
      | .strArray => "str-array" | .extOrder => "ext-order" | .tooBig => "too-big")
  | .ok rw =>
    let ord := ",".intercalate (rw.fields.map (fun f => toString f.index))
    s!"ok order={ord} sizeN={rw.sizeNormal} sizeX={rw.sizeExtended} crc={rw.crcExtra}"

def specInitLine (st : Msg.GoStruct) : String :=
  match Spec.Msg.ofGo st with
  | none => "-"
  | some d =>
    let ord := ",".intercalate ((Spec.Msg.wireOrder d).map (fun f => toString f.idx))
    s!"ok order={ord} sizeN={Spec.Msg.sizeBase d} sizeX={Spec.Msg.sizeExt d} crc={Spec.Msg.crcExtra d}"

def H := Sha256.hash




/-! C18 -/
open Gen18 in
def decSet (s : String) : Option (List XFile) :=
  (s.splitOn "|").mapM (fun fl =>
    match fl.splitOn ";" with
    | [name, ver, incs, enums, msgs] => do
      let und (x : String) := if x == "-" then "" else x
      let es ← (if enums == "-" then some [] else (enums.splitOn "/").mapM (fun e =>
        match e.splitOn ":" with
        | [n, b, ents] => do
          let en ← (if ents.isEmpty then some [] else (ents.splitOn ",").mapM (fun kv =>
            match kv.splitOn "=" with
            | [k, v] => some ({ name := k, value := v } : XEntry)
            | _ => none))
          pure ({ name := n, bitmask := b == "1", entries := en } : XEnum)
        | _ => none))
      let ms ← (if msgs == "-" then some [] else (msgs.splitOn "/").mapM (fun m =>
        match m.splitOn ":" with
        | [id, n, fields] => do
          let i ← id.toNat?
          let fl ← (if fields.isEmpty then some [] else (fields.splitOn "~").mapM (fun f =>
            match f.splitOn "," with
            | [ty, nm, en, ex] => some ({ ty := ty, name := nm, enum := und en, ext := ex == "1" } : XField)
            | _ => none))
          pure ({ id := i, name := n, fields := fl } : XMsg)
        | _ => none))
      pure ({ name := name, version := und ver, includes := if incs == "-" then [] else incs.splitOn ",", enums := es, msgs := ms } : XFile)
    | _ => none)

def sortById (l : List (Nat × String)) : List (Nat × String) :=
  l.foldr (fun x acc => let rec ins : List (Nat × String) → List (Nat × String)
    | [] => [x]
    | y :: r => if x.1 ≤ y.1 then x :: y :: r else y :: ins r
  ins acc) []

def factLine (id crc sn se : Nat) (order : List (Nat × Bool)) : String :=
  s!"M{id}:{crc}:{sn}:{se}:" ++ ",".intercalate (order.map (fun (i, e) => s!"{i}.{if e then 1 else 0}"))

open Gen18 in
def gencheckWith (files : Option (List XFile)) (version : List XFile → Nat)
    (msgFacts : XMsg → Option String) (value : String → Option Nat) (set : List XFile) : String :=
  match files with
  | none => "ERR"
  | some order =>
    match (order.flatMap (·.msgs)).mapM (fun m => (msgFacts m).map (fun s => (m.id, s))) with
    | none => "ERR"
    | some facts =>
      let ents := set.flatMap (fun f => f.enums.flatMap (·.entries))
      let ents := ents.foldl (fun acc e => if acc.any (·.name == e.name) then acc else acc ++ [e]) []
      match ents.mapM (fun e => (value e.value).map (fun v => e.name ++ "=" ++ toString v ++ ":T")) with
      | none => "ERR"
      | some evs =>
        s!"v={version order};" ++ ";".intercalate ((sortById facts).map (·.2)) ++ ";E:" ++ ",".intercalate evs

/-! C16 -/
def autoCfg (ds : DState) (dn : String) (version : Nat) (disable enable : Bool) (systype ap freq : Nat) : Auto.Cfg :=
  let d := Auto.defaults systype freq
  { heartbeatDisable := disable, streamRequestEnable := enable, hasDialect := dn != "-", version := version,
    crcOf := fun id => match ds.get dn with
      | some l => (l.find? (·.id == UInt32.ofNat id)).map (fun m => m.rw.crcExtra.toNat)
      | none => none,
    systemType := d.1, autopilotType := ap, frequency := d.2 }

def encHb (h : Auto.Heartbeat) : String :=
  s!"H({h.type},{h.autopilot},{h.baseMode},{h.customMode},{h.systemStatus},{h.mavlinkVersion})from(9,1):n-ok:spacing-ok"

def decArrivals (ch : Nat) (h : String) : Option (List Auto.Arrival) :=
  if h == "-" then some [] else
  (((h.splitOn ",").foldlM (fun (acc : Nat × List Auto.Arrival) (tok : String) =>
    if tok.startsWith "P" then (tok.drop 1).toString.toNat?.map (fun n => (acc.1 + n * 1000000000, acc.2)) else
    match tok.splitOn "." with
    | [sy, co, kind] => do
      let s ← sy.toNat?
      let c ← co.toNat?
      let (mid, ap) ← (if kind == "A" then some (0, 3) else if kind == "O" then some (1, 0)
        else if kind.startsWith "G" then (kind.drop 1).toNat?.map (fun n => (0, n)) else none)
      pure (acc.1 + 1000, acc.2 ++ [{ t := acc.1 + 1000, key := ⟨ch, s, c⟩, msgId := mid, autopilot := ap }])
    | _ => none) (0, [])).map (·.2))

def encOuts (outs : List Auto.Out) : String :=
  let rs := outs.filterMap (fun o => match o with
    | .req r => some s!"R({r.targetSystem},{r.targetComponent},{r.reqStreamId},{r.reqMessageRate},{r.startStop})" | _ => none)
  let es := outs.filterMap (fun o => match o with | .requested k => some s!"S({k.sys},{k.comp})" | _ => none)
  let d (l : List String) := if l.isEmpty then "-" else "".intercalate l
  d rs ++ "|" ++ d es

/-! C14 rendering -/
def encEnd : Prov.End → String
  | .err k => "tr" ++ toString k
  | .eof => "eof"
  | .reset => "reset"
  | .timeout => "timeout"
  | .refused => "refused"

def encAct : Prov.Act → String
  | .attempt true => "A:o"
  | .attempt false => "A:f"
  | .wait => "W"
  | .opn => "O"
  | .frames n => "F" ++ toString n
  | .close e => "C(" ++ encEnd e ++ ")"

def encActs (l : List Prov.Act) : String := if l.isEmpty then "-" else "_".intercalate (l.map encAct)

def endOf (c : Char) (i : Nat) : Option Prov.End :=
  if c == 'e' then some (.err i) else if c == 'z' then some .eof else if c == 'r' then some .reset
  else if c == 'i' then some .timeout else none

/-- "f" | "o<k><e>" -/
def decSerialTok (i : Nat) (t : String) : Option (List Prov.Outcome) :=
  if t == "f" then some [.fail] else
  match t.toList with
  | 'o' :: rest =>
    match rest.reverse with
    | e :: digs => do
      let k ← (String.ofList digs.reverse).toNat?
      let en ← endOf e i
      pure [.ok k en]
    | [] => none
  | _ => none

/-- "d<n>o<k><e>" -/
def decTcpTok (t : String) : Option (List Prov.Outcome) :=
  match t.toList with
  | 'd' :: rest =>
    match (String.ofList rest).splitOn "o" with
    | [n, ke] => do
      let nn ← n.toNat?
      let o ← decSerialTok 0 ("o" ++ ke)
      pure (List.replicate nn .fail ++ o)
    | _ => none
  | _ => none

def decScript (kind : String) (s : String) : Option (List Prov.Outcome) :=
  if s == "-" then some [] else
  let toks := s.splitOn ","
  if kind == "serial" || kind == "serialbw" then
    ((List.range toks.length).zip toks).foldlM (fun acc (it : Nat × String) => do
      let o ← decSerialTok it.1 it.2
      pure (acc ++ o)) []
  else if kind == "tcpc" then toks.foldlM (fun acc t => do let o ← decTcpTok t; pure (acc ++ o)) []
  else if kind == "udpc" then s.toNat?.map (fun k => List.replicate k (.ok 0 .timeout))
  else if kind == "udpr" then s.toNat?.map (fun k => List.replicate k (.ok 0 .refused))
  else none

/-- "p<k><e>" -/
def decPeer (t : String) : Option String :=
  match t.toList with
  | 'p' :: rest =>
    match rest.reverse with
    | e :: digs => do
      let k ← (String.ofList digs.reverse).toNat?
      let pe : Spec.Life.PeerEnd ← if e == 'z' then some .closes else if e == 'r' then some .resets else if e == 'i' then some .silent
        else if e == 'a' then some .busy else none
      let (acts, stillOpen) := Spec.Life.peerTrace k pe
      pure (encActs acts ++ (if stillOpen then "_open" else ""))
    | [] => none
  | _ => none

def decCalls (s : String) : List Prov.Call :=
  s.toList.filterMap (fun c => if c == 'r' then some .read else if c == 'w' then some .write else if c == 'c' then some .close
    else if c == 's' then some .sleep else none)

def encLow : Prov.Low → String
  | .setRead true => "srd:ok"
  | .setRead false => "srd:fail"
  | .setWrite true => "swd:ok"
  | .setWrite false => "swd:fail"
  | .read => "r"
  | .write => "w"
  | .close => "c"

def encLows (l : List Prov.Low) : String := if l.isEmpty then "-" else "_".intercalate (l.map encLow)

/-- SPEC (C09): "a missing version, a zero system id, or an outgoing key combined with version 1 is refused at initialization" -/
def specRefused (v : Nat) (s : UInt8) (k : Option Bytes) : Bool := v == 0 || s == 0 || (k.isSome && v == 1)

def step (ds : DState) (line : String) : DState × String :=
  match (line.splitOn " ") with
  | ["x25", h] =>
    (ds, match fromHex h with
      | some bs => s!"{X25.sum bs}\t{(Spec.crc16 bs).toNat}"
      | none => "bad-op")
  | ["sha", h] =>
    (ds, match fromHex h with | some bs => toHex (H bs) | none => "bad-op")
  | ["marshal", f] =>
    (ds, match decFrame f with
      | none => "bad-op"
      | some fr =>
        let m := match fr.marshal Gen.bufferSize with
          | .ok bs => "ok:" ++ toHex bs | .errV1Id => "err:v1id" | .panic _ => "panic"
        let sp := if Spec.wfb fr then "ok:" ++ toHex (Spec.specBytes fr) else "-"
        m ++ "\t" ++ sp)
  | ["defmsg", dn, id, name, body] =>
    match id.toNat?, decStruct name body with
    | some i, some st =>
      let r := Msg.init st
      let oldDefs := (ds.allDefs.lookup dn).getD []
      let ds := { ds with allDefs := (dn, oldDefs ++ [(UInt32.ofNat i, st)]) :: ds.allDefs.filter (·.1 != dn) }
      let ds' := match r with
        | .ok rw =>
          let old := (ds.dialects.lookup dn).getD []
          { ds with dialects := (dn, old ++ [{ id := UInt32.ofNat i, st := st, rw := rw }]) :: ds.dialects.filter (·.1 != dn) }
        | .error _ => ds
      (ds', initLine r ++ "\t" ++ specInitLine st)
    | _, _ => (ds, "bad-op")
  | "read" :: dn :: key :: cur :: stream :: _ =>
    (ds, match keyOf key, cur.toNat?, decStream stream with
      | some k, some c, some s =>
        let cfg : RCfg := { H := H, key := k, dialect := rdialect (ds.get dn) }
        let (rs, st) := readAllD cfg (s.length + 2) { cur := UInt64.ofNat c } s []
        let m := " ".intercalate (rs.map encRRes) ++ s!" cur={st.cur}"
        let (rs2, st2) := readAllD { cfg with specWindow := true } (s.length + 2) { cur := UInt64.ofNat c } s []
        m ++ "\t" ++ " ".intercalate (rs2.map encRRes) ++ s!" cur={st2.cur}"
      | _, _, _ => "bad-op")
  | ["fwrite", dn, f] =>
    (ds, match decFrame f with
      | none => "bad-op"
      | some fr => match frameWrite (wdialect (ds.get dn)) fr with
        | .ok (bs, _) => "ok:" ++ toHex bs
        | .error e => "err:" ++ encWErr e)
  | ["swinit", ver, sys, comp, key] =>
    (ds, match ver.toNat?, u8 sys, u8 comp, keyOf key with
      | some v, some s, some c, some k =>
        let m := (match swInitialize { version := v, sysId := s, compId := c, key := k } with
        | .ok c' => s!"ok comp={c'.compId}"
        | .error .noVersion => "err:no-version" | .error .sysId => "err:sysid" | .error .keyNeedsV2 => "err:key-v2")
        -- SPEC (C09): a missing version, a zero system id, or an outgoing key with version 1 is refused; otherwise accepted,
        -- component id 1 when unset. When several reasons apply the property does not say which is reported: no verdict.
        let reasons := (if v == 0 then ["err:no-version"] else []) ++ (if s == 0 then ["err:sysid"] else []) ++
          (if k.isSome && v == 1 then ["err:key-v2"] else [])
        let sp := if v > 2 then "-" else match reasons with
          | [] => s!"ok comp={if c == 0 then 1 else c.toNat}"
          | [r] => r
          | _ => "-"
        m ++ "\t" ++ sp
      | _, _, _, _ => "bad-op")
  | ["swrite", dn, ver, sys, comp, link, key, items] =>
    (ds, match ver.toNat?, u8 sys, u8 comp, u8 link, keyOf key with
      | some v, some s, some c, some l, some k =>
        let cfg0 : SWCfg := { version := v, sysId := s, compId := c, linkId := l, key := k }
        match swInitialize cfg0 with
        | .error _ => "init-err\t" ++ (if specRefused v s k then "init-err" else "-")
        | .ok cfg =>
        let d := wdialect (ds.get dn)
        let (_, outs) := (items.splitOn ";").foldl (fun (acc : SWState × List String) it =>
          match it.splitOn "@" with
          | [m, t] => (match decMsg m, t.toNat? with
            | some mm, some tt =>
              let (st', r) := swWrite H d cfg acc.1 (UInt64.ofNat tt) mm
              (st', acc.2 ++ [match r with | .ok bs => "ok:" ++ toHex bs | .error e => "err:" ++ encWErr e])
            | _, _ => (acc.1, acc.2 ++ ["bad-item"]))
          | _ => (acc.1, acc.2 ++ ["bad-item"])) ({}, [])
        let (_, souts) := (items.splitOn ";").foldl (fun (acc : Nat × List String) it =>
          match it.splitOn "@" with
          | [m, t] => (match decMsg m, t.toNat? with
            | some mm, some tt =>
              let (n', r) := Spec.swWrite H d cfg0 acc.1 (UInt64.ofNat tt) mm
              (n', acc.2 ++ [match r with | .ok bs => "ok:" ++ toHex bs | .error e => "err:" ++ encWErr e])
            | _, _ => (acc.1, acc.2 ++ ["bad-item"]))
          | _ => (acc.1, acc.2 ++ ["bad-item"])) (0, [])
        " ".intercalate outs ++ "\t" ++ " ".intercalate souts
      | _, _, _, _, _ => "bad-op")
  | ["nwrite", dn, ver, sys, comp, link, key, items] =>
    (ds, match ver.toNat?, u8 sys, u8 comp, u8 link, keyOf key with
      | some v, some s, some c, some l, some k =>
        let cfg0 : SWCfg := { version := v, sysId := s, compId := c, linkId := l, key := k }
        match swInitialize cfg0 with
        | .error _ => "init-err\t" ++ (if specRefused v s k then "init-err" else "-")
        | .ok cfg =>
        let d := wdialect (ds.get dn)
        let (_, outs) := (items.splitOn ";").foldl (fun (acc : SWState × List String) it =>
          match it.splitOn "@" with
          | [m, t] => (match decMsg m, t.toNat? with
            | some mm, some tt =>
              let (st', r) := swWrite H d cfg acc.1 (UInt64.ofNat tt) mm
              (st', acc.2 ++ [match r with | .ok bs => "ok:" ++ toHex bs | .error e => "err:" ++ encWErr e])
            | _, _ => (acc.1, acc.2 ++ ["bad-item"]))
          | _ => (acc.1, acc.2 ++ ["bad-item"])) ({}, [])
        let (_, souts) := (items.splitOn ";").foldl (fun (acc : Nat × List String) it =>
          match it.splitOn "@" with
          | [m, t] => (match decMsg m, t.toNat? with
            | some mm, some tt =>
              let (n', r) := Spec.swWrite H d cfg0 acc.1 (UInt64.ofNat tt) mm
              (n', acc.2 ++ [match r with | .ok bs => "ok:" ++ toHex bs | .error e => "err:" ++ encWErr e])
            | _, _ => (acc.1, acc.2 ++ ["bad-item"]))
          | _ => (acc.1, acc.2 ++ ["bad-item"])) (0, [])
        let keep (l : List String) := let k := l.filter (·.startsWith "ok:"); if k.isEmpty then "-" else " ".intercalate k
        keep outs ++ "\t" ++ keep souts
      | _, _, _, _, _ => "bad-op")
  | ["evcheck", mode, dn, key, stream, pre, post] =>
    (ds, match keyOf key, decStream stream with
      | some k, some s =>
        let cfg : RCfg := { H := H, key := k, dialect := rdialect (ds.get dn) }
        let evs (oracle : Bool) : List String :=
          let (rs, _) := readAllD { cfg with specWindow := oracle } (s.length + 2) {} s []
          "O" :: (rs.filter (fun r => match r with | .terr .eof => false | _ => true)).map encRRes
        let obs (t : String) : List String := if t == "-" then [] else t.splitOn "~"
        let verdict (oracle : Bool) : String :=
          if (if mode == "eof" then Spec.evLegalEnd (evs oracle) "C(eof)" (obs pre) (obs post)
              else Spec.evLegal (mode == "drain") (evs oracle) "C(nil)" (obs pre) (obs post)) then "ok"
          else "violation: observed [" ++ pre ++ " | " ++ post ++ "] expected " ++ "~".intercalate (evs oracle) ++ "~C(nil)"
        verdict false ++ "\t" ++ verdict true
      | _, _ => "bad-op")
  | ["hbcheck", dis, dn, ver, _period, systype, ap, k] =>
    (ds, match ver.toNat?, systype.toNat?, ap.toNat?, k.toNat? with
      | some v, some st, some a, some kk =>
        let cfg := autoCfg ds dn v (dis == "1") false st a 0
        let one (o : Option Auto.Heartbeat) := match o with | some h => encHb h | none => "none"
        let m := one (if Auto.hbEnabled cfg then some (Auto.heartbeat cfg) else none)
        let sp := one (Spec.Auto.hbExpected cfg)
        ";".intercalate (List.replicate kk m) ++ "\t" ++ ";".intercalate (List.replicate kk sp)
      | _, _, _, _ => "bad-op")
  | ["srcheck", en, dn, freq, hist, _transport] =>
    (ds, match freq.toNat? with
      | some f =>
        let cfg := autoCfg ds dn 0 true (en == "1") 0 0 f
        let hs := hist.splitOn ";"
        match ((List.range hs.length).zip hs).mapM (fun (it : Nat × String) => decArrivals it.1 it.2) with
        | some chans =>
          let m := chans.map (fun arr => if Auto.srEnabled cfg
            then encOuts ((Auto.run cfg.frequency Auto.Last.empty (arr.map .arrival)).flatten) else "-|-")
          let sp := chans.map (fun arr => if Auto.srEnabled cfg
            then encOuts ((Spec.Auto.specRun cfg.frequency [] arr).flatten) else "-|-")
          ";".intercalate m ++ "\t" ++ ";".intercalate sp
        | none => "bad-op"
      | none => "bad-op")
  | ["gencheck", set] =>
    (ds, match decSet set with
      | none => "bad-op"
      | some fs =>
        let model := gencheckWith (Gen18.processed fs) (fun o => Gen18.versionNum (Gen18.versionOf o))
          (fun m => match Gen18.processMessage m with
            | none => none
            | some st => match Msg.init st with
              | .ok rw => some (factLine m.id rw.crcExtra.toNat rw.sizeNormal.toNat rw.sizeExtended.toNat
                                  (rw.fields.map (fun f => (f.index, f.isExt))))
              | .error _ => some s!"M{m.id}:INIT-ERR")
          Gen18.parseValue fs
        let spec := gencheckWith (Spec.Gen18.filesOf fs) Spec.Gen18.versionOf
          (fun m => (Spec.Gen18.defOf m).map (fun d => factLine m.id (Spec.Msg.crcExtra d) (Spec.Msg.sizeBase d) (Spec.Msg.sizeExt d)
                                  ((Spec.Msg.wireOrder d).map (fun f => (f.idx, f.ext)))))
          Spec.Gen18.valueOf fs
        model ++ "\t" ++ spec)
  | ["pubcrc", id] =>
    (ds, match id.toNat? with
      | some i =>
        let m := match ds.get "common" with
          | some l => (match l.find? (·.id == UInt32.ofNat i) with | some d => toString d.rw.crcExtra.toNat | none => "none")
          | none => "none"
        let sp := match Spec.publishedCrcExtra.lookup i with | some c => toString c | none => "-"
        m ++ "\t" ++ sp
      | none => "bad-op")
  | ["lifecheck", kind, script] =>
    (ds, if kind == "tcps" || kind == "udps" then
        match (script.splitOn ",").mapM decPeer with
        | some ps => let v := ";".intercalate ps; v ++ "\t" ++ v
        | none => "bad-op"
      else match decScript kind script with
        | some sc => encActs (Prov.modelTrace sc) ++ "\t" ++ encActs (Spec.Life.specTrace false sc)
        | none => "bad-op")
  | ["tnc", _idle, _wt, failS, calls] =>
    (ds, let failAt : Option Nat := failS.toNat?
      encLows (Prov.tncRun failAt 0 (decCalls calls)) ++ "\t" ++ encLows (Spec.Life.tncSpec failAt (decCalls calls)))
  | ["racecheck", _sc, cnt, _summary] =>
    (ds, let v := if cnt == "0" then "ok" else "violation: the race detector reported " ++ cnt ++ " data race(s)"; v ++ "\t" ++ v)
  | ["genfiles", msgs, enums, files] =>
    -- the files the generator wrote for a set of definitions (observed by the harness)
    (ds,
      let lst (s : String) : List String := if s == "-" then [] else s.splitOn ","
      let obs := lst files
      let expected := "dialect.go" :: ((lst enums).map (fun n => String.ofList (Model.GenFile.goFileName "enum".toList n.toList)) ++
        (lst msgs).map (fun n => String.ofList (Model.GenFile.goFileName "message".toList n.toList)))
      let m := if expected.all obs.contains && obs.all expected.contains && expected.length == obs.length then "ok"
        else "model-differs: expected " ++ ",".intercalate expected
      -- SPEC: one file per definition (and dialect.go), each a plain source file of the package for the go tool on every platform
      let bad := obs.filter (fun f => !Spec.GoTool.plainSource f.toList)
      let sp := if !bad.isEmpty then "violation: not a plain source file for the go tool: " ++ ",".intercalate bad
        else if obs.length != 1 + (lst enums).length + (lst msgs).length then "violation: not one file per definition"
        else "ok"
      m ++ "\t" ++ sp)
  | ["closecheck", _sc, obs, _note] =>
    (ds, match Spec.Close.parseObs obs with
      | some o => let v := if Spec.Close.closeLegal o then "ok" else "violation: " ++ obs; v ++ "\t" ++ v
      | none => "bad-op")
  | ["fancheck", _k, plan, obs] =>
    (ds, match decPlan plan, decObs obs with
      | some p, some o => let v := if Spec.Fan.fanLegal p 9 o then "ok" else "violation"; v ++ "\t" ++ v
      | _, _ => "bad-op")
  | ["stallcheck", _k, mode, victim, atS, badIdx, plan, obs, evs] =>
    (ds, match decPlan plan, decObs obs, victim.toNat?, atS.toNat? with
      | some p, some o, some v, some a =>
        let m : Spec.Fan.StallMode := if mode == "block" then .block else if mode == "fail" then .fail
          else if mode == "pause" then .pause else .bad
        let closeSeen := (evs.splitOn ";").map (fun e => (e.splitOn ",").any (fun x => x.startsWith "C("))
        -- the item whose write failed: the `a`-th item addressed to the victim (fail), or the unencodable item (bad)
        -- (fail: `badIdx` carries the number of consecutive failing writes)
        let failedItems := if mode == "bad" then [] else
          ((((Spec.Fan.expected p v).filter (·.1 == 0)).map (·.2)).drop a).take (badIdx.toNat?.getD 1)
        let r := if Spec.Fan.stallLegal p 9 m v a failedItems o closeSeen then "ok" else "violation"
        r ++ "\t" ++ r
      | _, _, _, _ => "bad-op")
  | ["defenum", name, form, consts] =>
    let cs : List (String × Nat) := if consts.isEmpty then [] else (consts.splitOn ",").filterMap (fun kv =>
      match kv.splitOn "=" with
      | [k, v] => v.toNat?.map (fun n => (k, n))
      | _ => none)
    let f : EnumText.Marshal := match form.splitOn ":" with
      | ["plain"] => .plain
      | ["loop", n] => .bitLoop (n.toNat?.getD 0)
      | ["list", vs] => .valueList (if vs.isEmpty then [] else (vs.splitOn ";").filterMap String.toNat?)
      | ["list"] => .valueList []
      | _ => .plain
    let d : EnumText.EnumDef := { name := name, form := f, consts := cs }
    ({ ds with enums := (name, d) :: ds.enums }, if EnumText.namesOk d then "ok" else "bad-names")
  | ["etext", name, dir, arg] =>
    (ds, match ds.enums.lookup name with
      | none => "no-such-enum"
      | some d =>
        if dir == "m" then
          match arg.toNat? with
          | some v =>
            let t := EnumText.marshal d (UInt64.ofNat v)
            let hexs := toHex (String.ofList t).toUTF8.toList
            "t:" ++ (if t.isEmpty then "-" else hexs) ++ "\t" ++ specEnumMarshal d (UInt64.ofNat v)
          | none => "bad-op"
        else
          match fromHex arg with
          | some bs =>
            -- texts are ASCII in every generated case; a non-ASCII byte can never be part of a name or numeral
            let t : List Char := bs.map (fun b => Char.ofNat b.toNat)
            (match EnumText.unmarshal d t with
            | some v => s!"ok:{v}"
            | none => "err") ++ "\t" ++ specEnumUnmarshal d t
          | none => "bad-op")
  | ["defpkg", dn, id, v] => ({ ds with defPkgs := (dn ++ " " ++ id, v) :: ds.defPkgs }, "ok")
  | ["dtype", dn, id] => (ds, (ds.defPkgs.lookup (dn ++ " " ++ id)).getD "none")
  | ["dinit", dn] =>
    (ds, let defs := (ds.allDefs.lookup dn).getD []
      let m := match Dialect.init defs [] with
        | .ok tbl => s!"ok n={tbl.length}"
        | .error (.duplicate id) => s!"err:duplicate-{id}"
        | .error (.msg id _) => s!"err:message-{id}"
      -- SPEC: a dialect initialises iff its ids are pairwise distinct and every struct is a definition; otherwise the first
      -- offender in declaration order is reported (a duplicate is noticed when its second occurrence is reached)
      let rec firstBad (seen : List UInt32) : List (UInt32 × Msg.GoStruct) → Option String
        | [] => none
        | (id, st) :: r =>
          if seen.contains id then some s!"err:duplicate-{id}"
          else if (Spec.Msg.ofGo st).isNone then some s!"err:message-{id}"
          else firstBad (id :: seen) r
      let sp := match firstBad [] defs with
        | some e => e
        | none => s!"ok n={defs.length}"
      m ++ "\t" ++ sp)
  | ["duse", dn, id] =>
    -- first use of a message struct: initialise it, encode its zero value in both versions, decode an empty and a long payload
    (ds, match id.toNat? with
      | none => "bad-op"
      | some i => match ((ds.allDefs.lookup dn).getD []).find? (fun d => d.1.toNat == i) with
        | none => "no-such-message"
        | some (_, st) =>
          let zero : List Msg.FVal := st.fields.map (fun f =>
            if f.elemType == "string" then .str [] else .num (List.replicate (if f.isArray then f.arrLen else 1) 0))
          let m := match Msg.init st with
            | .error _ => "init-err"
            | .ok rw =>
              let e1 := match Msg.encode rw false zero with | .ok _ => true | .panic => false
              let e2 := match Msg.encode rw true zero with | .ok _ => true | .panic => false
              let d1 := match Msg.decode rw true [] with | .panic => false | _ => true
              let d2 := match Msg.decode rw true (List.replicate 255 0) with | .panic => false | _ => true
              if e1 && e2 && d1 && d2 then "ok" else "panic"
          -- SPEC: a struct that is not a definition is refused when it is initialised; one that is accepted can be used
          let sp := if (Spec.Msg.ofGo st).isNone then "init-err" else "ok"
          m ++ "\t" ++ sp)
  | ["dget", dn, id] =>
    (ds, match id.toNat?, Dialect.init ((ds.allDefs.lookup dn).getD []) [] with
      | some i, .ok tbl =>
        let m := (match Dialect.getMessage tbl (UInt32.ofNat i) with
        | some rw =>
          let nm := (((ds.allDefs.lookup dn).getD []).lookup (UInt32.ofNat i)).map (·.name)
          s!"crc={rw.crcExtra} name={nm.getD "?"}"
        | none => "none")
        -- SPEC: the codec of the message declared with exactly that id, nothing for any other id
        let sp := match ((ds.allDefs.lookup dn).getD []).find? (fun d => d.1.toNat == i) with
          | some (_, st) => (match Spec.Msg.ofGo st with
              | some d => s!"crc={Spec.Msg.crcExtra d} name={st.name}"
              | none => "-")
          | none => "none"
        m ++ "\t" ++ sp
      | _, _ => "bad-op")
  | "hop" :: dn :: stream :: hops :: _ =>   -- an optional 5th token is the chunking of the transport (no bearing on the answer)
    (ds, match decStream stream, hops.toNat? with
      | some s, some h =>
        let cur : Bytes := s.filterMap (fun it => match it with | .b x => some x | _ => none)
        let rcfg : RCfg := { H := H, dialect := rdialect (ds.get dn) }
        let hasD := dn != "-"
        "|".intercalate (hopChain rcfg (wdialect (ds.get dn)) hasD (h + 1) 0 cur []) ++ "\t" ++
          "|".intercalate (hopSpec rcfg hasD h cur)
      | _, _ => "bad-op")
  | "fix" :: dn :: key :: f :: _ =>
    (ds, match keyOf key, decFrame f with
      | some k, some fr =>
        let wd := wdialect (ds.get dn)
        (match fixFrame H wd k fr with
        | .ok f' =>
          let next (oracle : Bool) : String := match frameWrite wd f' with
            | .error e => "W" ++ encWErr e
            | .ok (bs, _) =>
              let rcfg : RCfg := { H := H, key := k, dialect := rdialect (ds.get dn), specWindow := oracle }
              match readOne rcfg {} (bytesToItems bs) with
              | (.frame g, _, _) => "F" ++ maskCrc true g
              | (r, _, _) => encRRes r
          -- SPEC: the next hop delivers the frame with the same header fields and the canonical form of the edited message
          let spec : String := match fr.msg, ds.get dn with
            | .dec id vals, some l => (match l.find? (·.id == id) with
              | some m => (match Msg.encode m.rw fr.isV2 vals with
                | .ok p => (match Msg.decode m.rw fr.isV2 p with
                  | .ok cv => "F" ++ maskCrc true (f'.setMsg (.dec id cv))
                  | _ => "-")
                | _ => "-")
              | none => "-")
            | _, _ => "-"
          "ok:" ++ encFrame f' ++ "|" ++ next false ++ "\t" ++ (if spec == "-" then "-" else "ok:" ++ encFrame f' ++ "|" ++ spec)
        | .error .nilDialect => "err:nil-dialect" | .error .notInDialect => "err:not-in-dialect" | .error .panic => "err:panic")
      | _, _ => "bad-op")
  | "tlogw" :: dn :: ep :: f :: rest =>
    (ds, match ep.toInt?, decFrame f with
      | some e, some fr =>
        let failAt : Option Nat := match rest with | [k] => k.toNat? | _ => none
        let wd := wdialect (ds.get ((dn.splitOn "@").headD dn))
        let enc (o : Tlog.WOut) : String := match o with
          | .wrote bs => "wrote:" ++ toHex bs
          | .failed _ (.transport k) => s!"failed:*:tr{k}"
          | .failed bs e => "failed:" ++ (if bs.isEmpty then "" else toHex bs) ++ ":" ++ encWErr e
        -- SPEC: a file is a concatenation of [8-byte BE microsecond timestamp][frame]; an entry that cannot be encoded
        -- leaves no bytes; a transport failure is reported
        let spec : String := match frameWrite wd fr with
          | .error e => "failed::" ++ encWErr e
          | .ok (bs, _) => (match failAt with
            | some k => if k ≤ 1 then s!"failed:*:tr{k}" else "wrote:" ++ toHex (be64 (Int64.ofInt e).toUInt64 ++ bs)
            | none => "wrote:" ++ toHex (be64 (Int64.ofInt e).toUInt64 ++ bs))
        enc (Tlog.writeEntry wd e fr failAt) ++ "\t" ++ spec
      | _, _ => "bad-op")
  | ["tlogws", dn, entries] =>
    (ds, let wd := wdialect (ds.get ((dn.splitOn "@").headD dn))
      match (entries.splitOn ";").mapM (fun it => match it.splitOn "@" with
          | [ep, f] => (match ep.toInt?, decFrame f with | some e, some fr => some (e, fr) | _, _ => none)
          | _ => none) with
      | none => "bad-op"
      | some es =>
        -- MODEL: the writer keeps no state between entries (one Write call per accepted entry)
        let m := es.foldl (fun (acc : List String × Bytes) (e : Int × Frame) =>
          match Tlog.writeEntry wd e.1 e.2 none with
          | .wrote bs => (acc.1 ++ ["w"], acc.2 ++ bs)
          | .failed bs err => (acc.1 ++ ["f:" ++ encWErr err], acc.2 ++ bs)) ([], [])
        -- SPEC: the file is the concatenation of [timestamp][frame] of the ACCEPTED entries, nothing else
        let sp := es.foldl (fun (acc : List String × Bytes) (e : Int × Frame) =>
          match frameWrite wd e.2 with
          | .error err => (acc.1 ++ ["f:" ++ encWErr err], acc.2)
          | .ok (bs, _) => (acc.1 ++ ["w"], acc.2 ++ be64 (Int64.ofInt e.1).toUInt64 ++ bs)) ([], [])
        let enc (x : List String × Bytes) := ",".intercalate x.1 ++ "|" ++ (if x.2.isEmpty then "-" else toHex x.2)
        enc m ++ "\t" ++ enc sp)
  | "tlogr" :: dn :: stream :: _ =>
    (ds, match decStream stream with
      | some s =>
        let cfg : RCfg := { H := H, key := none, dialect := rdialect (ds.get dn) }
        " ".intercalate (tlogReadAll cfg (s.length + 2) s []) ++ "\t" ++
          " ".intercalate (tlogReadAll { cfg with specWindow := true } (s.length + 2) s [])
      | none => "bad-op")
  | ["msgenc", dn, id, ver, vals] =>
    (ds, match id.toNat?, decVals vals, ds.get dn with
      | some i, some vs, some l =>
        (match l.find? (·.id == UInt32.ofNat i) with
        | some m =>
          let mo := (match Msg.encode m.rw (ver == "v2") vs with
            | .ok p => "ok:" ++ (if p.isEmpty then "-" else toHex p) | .panic => "panic")
          let sp := match Spec.Msg.ofGo m.st with
            | some d => let p := Spec.Msg.encode d (ver == "v2") vs; "ok:" ++ (if p.isEmpty then "-" else toHex p)
            | none => "-"
          mo ++ "\t" ++ sp
        | none => "no-msg")
      | _, _, _ => "bad-op")
  | ["msgdec", dn, id, ver, p] =>
    (ds, match id.toNat?, fromHex p, ds.get dn with
      | some i, some bs, some l =>
        (match l.find? (·.id == UInt32.ofNat i) with
        | some m =>
          let mo := (match Msg.decode m.rw (ver == "v2") bs with
            | .ok vs => "ok:" ++ encVals vs | .errSize => "err:size" | .panic => "panic")
          let isStr := fun i => match m.st.fields[i]? with | some f => f.elemType == "string" && f.mavenum == "" | none => false
          let sp := match Spec.Msg.ofGo m.st with
            | some d => (match Spec.Msg.decode d isStr (ver == "v2") bs with
              | .ok vs => "ok:" ++ encVals vs | .errSize => "err:size")
            | none => "-"
          mo ++ "\t" ++ sp
        | none => "no-msg")
      | _, _, _ => "bad-op")
  | _ => (ds, "bad-op")

partial def loop (h : IO.FS.Stream) (out : IO.FS.Stream) (ds : DState) : IO Unit := do
  let line ← h.getLine
  if line.isEmpty then return ()
  let l := (line.dropEndWhile (fun c => c == '\n' || c == '\r')).toString
  let (ds', o) := step ds l
  out.putStrLn o
  loop h out ds'

def main : IO Unit := do
  let i ← IO.getStdin
  let o ← IO.getStdout
  loop i o {}
