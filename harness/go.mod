module verif/harness

go 1.23

require github.com/bluenviron/gomavlib/v3 v3.0.0

replace github.com/bluenviron/gomavlib/v3 => /repo
