package main

import (
	"bytes"
	"fmt"
	"net"
	"sort"
	"strconv"
	"strings"
	"sync"
	"time"

	"github.com/bluenviron/gomavlib/v3"
	"github.com/bluenviron/gomavlib/v3/pkg/dialect"
	"github.com/bluenviron/gomavlib/v3/pkg/dialects/common"
	"github.com/bluenviron/gomavlib/v3/pkg/frame"
	"github.com/bluenviron/gomavlib/v3/pkg/message"
)

// C16: automatic heartbeats and stream requests.
//
//   hbcheck <disable> <dialect> <periodMs> <systype> <autopilot> <k>      what each of k channels carries during 12 periods
//   srcheck <enable> <dialect> <freq> <history>                           per channel: requests written and events raised
//
// history = per channel (";"), a list (",") of arrivals  <sys>.<comp>.<kind>  with kind A (heartbeat, ArduPilot), G<n> (heartbeat,
// autopilot n), O (another message), and the token P31 (a pause of 31 s before the next arrival; thorough tier only).

// a message with id 0 that is not the standard heartbeat
type MessageHeartbeat struct {
	Type           uint8
	Autopilot      uint8
	BaseMode       uint8
	CustomMode     uint32
	SystemStatus   uint8
	MavlinkVersion uint8
	Extra          uint8
}

func (*MessageHeartbeat) GetID() uint32 { return 0 }

var c16once sync.Once

func c16Dialects() {
	c16once.Do(func() {
		without := func(ids ...uint32) []message.Message {
			var ms []message.Message
		outer:
			for _, m := range common.Dialect.Messages {
				for _, id := range ids {
					if m.GetID() == id {
						continue outer
					}
				}
				ms = append(ms, m)
			}
			return ms
		}
		dialects["nohb"] = &dialect.Dialect{Version: 3, Messages: without(0)}
		dialects["wronghb"] = &dialect.Dialect{Version: 3, Messages: append([]message.Message{&MessageHeartbeat{}}, without(0)...)}
		dialects["noreq"] = &dialect.Dialect{Version: 3, Messages: without(66)}
		dialects["common9"] = &dialect.Dialect{Version: 9, Messages: common.Dialect.Messages}
		// a dialect without <version> (two shipped ones have none) and the largest version a heartbeat can carry
		dialects["common0"] = &dialect.Dialect{Version: 0, Messages: common.Dialect.Messages}
		dialects["common255"] = &dialect.Dialect{Version: 255, Messages: common.Dialect.Messages}
	})
}

// decodeAll parses the concatenation of a transport's writes with the common dialect.
func decodeAll(writes [][]byte) []frame.Frame {
	r := &frame.Reader{ByteReader: bytes.NewReader(bytes.Join(writes, nil)), DialectRW: getDialectRW("common")}
	r.Initialize() //nolint
	var out []frame.Frame
	for {
		fr, err := r.Read()
		if err != nil {
			var re frame.ReadError
			if asReadError(err, &re) {
				continue
			}
			return out
		}
		out = append(out, fr)
	}
}

func asReadError(err error, re *frame.ReadError) bool {
	e, ok := err.(frame.ReadError)
	if ok {
		*re = e
	}
	return ok
}

func implHbcheck(t []string) string {
	return undisturbed(func() string { return implHbcheck1(t) })
}

func implHbcheck1(t []string) string {
	c16Dialects()
	disable := t[1] == "1"
	periodMs, _ := strconv.Atoi(t[4])
	systype, _ := strconv.Atoi(t[5])
	autopilot, _ := strconv.Atoi(t[6])
	k, _ := strconv.Atoi(t[7])
	period := time.Duration(periodMs) * time.Millisecond
	conns := make([]*tsConn, k)
	var eps []gomavlib.EndpointConf
	for i := range conns {
		conns[i] = &tsConn{memConn: newMemConn(nil)}
		eps = append(eps, gomavlib.EndpointCustom{ReadWriteCloser: conns[i]})
	}
	n := &gomavlib.Node{Endpoints: eps, Dialect: getDialect(t[2]), OutVersion: gomavlib.V2, OutSystemID: 9,
		HeartbeatDisable: disable, HeartbeatPeriod: period, HeartbeatSystemType: systype, HeartbeatAutopilotType: autopilot}
	if err := n.Initialize(); err != nil {
		return "init-err"
	}
	go func() {
		for range n.Events() {
		}
	}()
	time.Sleep(12*period + period/2)
	var res []string
	for _, c := range conns {
		c.mu.Lock()
		times := append([]time.Time(nil), c.times...)
		c.mu.Unlock()
		frs := decodeAll(c.snapshotWrites())
		if len(frs) == 0 {
			res = append(res, "none")
			continue
		}
		set := map[string]bool{}
		for _, fr := range frs {
			hb, ok := fr.GetMessage().(*common.MessageHeartbeat)
			if !ok {
				set[fmt.Sprintf("X(id=%d)", fr.GetMessage().GetID())] = true
				continue
			}
			set[fmt.Sprintf("H(%d,%d,%d,%d,%d,%d)from(%d,%d)", hb.Type, hb.Autopilot, hb.BaseMode, hb.CustomMode, hb.SystemStatus,
				hb.MavlinkVersion, fr.GetSystemID(), fr.GetComponentID())] = true
		}
		var ks []string
		for s := range set {
			ks = append(ks, s)
		}
		sort.Strings(ks)
		// the ticker keeps a fixed grid: a late tick shortens the next gap. Judge the count over the window, the mean gap,
		// and the absence of near-duplicates, not the individual gaps.
		cnt := "n-ok"
		if len(frs) < 8 || len(frs) > 13 {
			cnt = fmt.Sprintf("n-bad(%d)", len(frs))
		}
		sp := "spacing-ok"
		if len(times) >= 2 {
			mean := times[len(times)-1].Sub(times[0]) / time.Duration(len(times)-1)
			if mean < period*8/10 || mean > period*13/10 {
				sp = fmt.Sprintf("spacing-bad(mean=%dus)", mean.Microseconds())
			}
			for i := 1; i < len(times); i++ {
				if g := times[i].Sub(times[i-1]); g < period/10 {
					sp = fmt.Sprintf("spacing-bad(gap=%dus)", g.Microseconds())
				}
			}
		}
		res = append(res, strings.Join(ks, "+")+":"+cnt+":"+sp)
	}
	done := make(chan struct{})
	go func() { n.Close(); close(done) }()
	select {
	case <-done:
	case <-time.After(5 * time.Second):
		res = append(res, "close-timeout")
	}
	return strings.Join(res, ";")
}

// tsConn records the time of every write
type tsConn struct {
	*memConn
	times []time.Time
}

func (c *tsConn) Write(p []byte) (int, error) {
	c.memConn.mu.Lock()
	c.times = append(c.times, time.Now())
	c.memConn.mu.Unlock()
	return c.memConn.Write(p)
}

func sysStatusBytes(sys, comp byte) []byte {
	var buf strings.Builder
	w := &frame.Writer{ByteWriter: &sbWriter{&buf}, DialectRW: getDialectRW("common"), OutVersion: frame.V2, OutSystemID: sys, OutComponentID: comp}
	if err := w.Initialize(); err != nil {
		panic(err)
	}
	if err := w.WriteMessage(&common.MessageSysStatus{Load: 7}); err != nil {
		panic(err)
	}
	return []byte(buf.String())
}

func implSrcheck(t []string) string {
	c16Dialects()
	enable := t[1] == "1"
	freq, _ := strconv.Atoi(t[3])
	hists := strings.Split(t[4], ";")
	tcp := len(t) > 5 && t[5] == "tcp"
	k := len(hists)
	chunksOf := make([][][]byte, k)
	delaysOf := make([]map[int]time.Duration, k)
	for i, h := range hists {
		delaysOf[i] = map[int]time.Duration{}
		if h == "-" {
			continue
		}
		for _, a := range strings.Split(h, ",") {
			if strings.HasPrefix(a, "P") { // P<n>: a pause of n seconds before the next arrival
				secs, _ := strconv.Atoi(a[1:])
				delaysOf[i][len(chunksOf[i])] = time.Duration(secs) * time.Second
				continue
			}
			p := strings.Split(a, ".")
			sys, _ := strconv.Atoi(p[0])
			comp, _ := strconv.Atoi(p[1])
			switch {
			case p[2] == "A":
				chunksOf[i] = append(chunksOf[i], hbFrameBytesV(byte(sys), byte(comp), 0, common.MAV_AUTOPILOT_ARDUPILOTMEGA, 1+7*i+len(chunksOf[i])))
			case p[2][0] == 'G':
				ap, _ := strconv.Atoi(p[2][1:])
				chunksOf[i] = append(chunksOf[i], hbFrameBytesV(byte(sys), byte(comp), 0, common.MAV_AUTOPILOT(ap), 1+7*i+len(chunksOf[i])))
			default:
				chunksOf[i] = append(chunksOf[i], sysStatusBytes(byte(sys), byte(comp)))
			}
		}
	}
	var eps []gomavlib.EndpointConf
	conns := make([]*memConn, k)
	addr := ""
	if tcp {
		addr = fmt.Sprintf("127.0.0.1:%d", freePort(false))
		eps = []gomavlib.EndpointConf{gomavlib.EndpointTCPServer{Address: addr}}
	} else {
		for i := range hists {
			conns[i] = newMemConn(chunksOf[i])
			conns[i].delays = delaysOf[i]
			if len(chunksOf[i]) > 40 && enable {
				// a long history: do not outrun the channel's writer (its queue holds 64 items and drops beyond that, legally): before
				// handing out arrival j wait until the requests owed to the distinct ArduPilot senders before it are on the wire
				owed := make([]int, len(chunksOf[i])+1)
				seen := map[string]bool{}
				j := 0
				for _, a := range strings.Split(hists[i], ",") {
					if strings.HasPrefix(a, "P") {
						continue
					}
					owed[j] = 7 * len(seen)
					if strings.HasSuffix(a, ".A") && !seen[a] {
						seen[a] = true
					}
					j++
				}
				c := conns[i]
				gaveUp := false
				c.before = func(idx int) {
					if gaveUp {
						return
					}
					dl := time.Now().Add(2 * time.Second)
					for idx < len(owed) && len(c.snapshotWrites()) < owed[idx] {
						if !time.Now().Before(dl) {
							gaveUp = true // what is owed is not coming: the run is a failure anyway, do not slow it down further
							return
						}
						time.Sleep(50 * time.Microsecond)
					}
				}
			}
			eps = append(eps, gomavlib.EndpointCustom{ReadWriteCloser: conns[i]})
		}
	}
	n := &gomavlib.Node{Endpoints: eps, Dialect: getDialect(t[2]), OutVersion: gomavlib.V2, OutSystemID: 9,
		HeartbeatDisable: true, StreamRequestEnable: enable, StreamRequestFrequency: freq}
	if err := n.Initialize(); err != nil {
		return "init-err"
	}
	// TCP: every history is a peer of the one server endpoint; a channel is recognised by its peer's address
	peers := make([]net.Conn, k)
	peerOut := make([]*bytes.Buffer, k)
	var pmu sync.Mutex
	var pwg sync.WaitGroup
	labels := map[string]int{}
	if tcp {
		for i := range hists {
			c, err := net.Dial("tcp4", addr)
			if err != nil {
				return "dial-failed"
			}
			peers[i] = c
			peerOut[i] = &bytes.Buffer{}
			pmu.Lock()
			labels["tcp:"+c.LocalAddr().String()] = i
			pmu.Unlock()
			pwg.Add(1)
			go func(i int, c net.Conn) { // what the node writes to this peer
				defer pwg.Done()
				buf := make([]byte, 4096)
				for {
					n, err := c.Read(buf)
					pmu.Lock()
					peerOut[i].Write(buf[:n])
					pmu.Unlock()
					if err != nil {
						return
					}
				}
			}(i, c)
		}
	}
	idx := func(ch *gomavlib.Channel) int {
		if tcp {
			pmu.Lock()
			defer pmu.Unlock()
			if i, ok := labels[ch.String()]; ok {
				return i
			}
			return -1
		}
		c := ch.Endpoint().Conf().(gomavlib.EndpointCustom).ReadWriteCloser
		for i := range conns {
			if c == conns[i] {
				return i
			}
		}
		return -1
	}
	evs := make([][]string, k)
	var mu sync.Mutex
	consDone := make(chan struct{})
	go func() {
		defer close(consDone)
		for e := range n.Events() {
			if s, ok := e.(*gomavlib.EventStreamRequested); ok {
				i := idx(s.Channel)
				mu.Lock()
				if i >= 0 {
					evs[i] = append(evs[i], fmt.Sprintf("S(%d,%d)", s.SystemID, s.ComponentID))
				}
				mu.Unlock()
			}
		}
	}()
	if tcp {
		var swg sync.WaitGroup
		for i := range hists {
			swg.Add(1)
			go func(i int) {
				defer swg.Done()
				for j, ch := range chunksOf[i] {
					if d, ok := delaysOf[i][j]; ok {
						time.Sleep(d)
					}
					peers[i].Write(ch)               //nolint
					time.Sleep(2 * time.Millisecond) // one frame at a time: arrival order = history order
				}
			}(i)
		}
		swg.Wait()
	} else {
		for _, c := range conns {
			<-c.delivered
		}
	}
	total := func() int {
		tot := 0
		if tcp {
			pmu.Lock()
			for _, b := range peerOut {
				tot += b.Len()
			}
			pmu.Unlock()
			return tot
		}
		for _, c := range conns {
			tot += len(c.snapshotWrites())
		}
		return tot
	}
	// let the readers process the last chunk and the writers drain their queues
	deadline := time.Now().Add(2 * time.Second)
	prev := -1
	for time.Now().Before(deadline) {
		time.Sleep(30 * time.Millisecond)
		tot := total()
		if tot == prev {
			break
		}
		prev = tot
	}
	var res []string
	for i := range hists {
		var writes [][]byte
		if tcp {
			pmu.Lock()
			writes = [][]byte{append([]byte(nil), peerOut[i].Bytes()...)}
			pmu.Unlock()
		} else {
			writes = conns[i].snapshotWrites()
		}
		var toks []string
		for _, fr := range decodeAll(writes) {
			rq, ok := fr.GetMessage().(*common.MessageRequestDataStream)
			if !ok {
				toks = append(toks, fmt.Sprintf("X(id=%d)", fr.GetMessage().GetID()))
				continue
			}
			toks = append(toks, fmt.Sprintf("R(%d,%d,%d,%d,%d)", rq.TargetSystem, rq.TargetComponent, rq.ReqStreamId, rq.ReqMessageRate, rq.StartStop))
		}
		mu.Lock()
		e := strings.Join(evs[i], "")
		mu.Unlock()
		res = append(res, dash(strings.Join(toks, ""))+"|"+dash(e))
	}
	done := make(chan struct{})
	go func() { n.Close(); close(done) }()
	select {
	case <-done:
	case <-time.After(5 * time.Second):
		res = append(res, "close-timeout")
	}
	<-consDone
	for _, c := range peers {
		if c != nil {
			c.Close()
		}
	}
	pwg.Wait()
	return strings.Join(res, ";")
}

func genC16(r *rngT, n int, tier string) {
	c16Dialects()
	type job struct{ op, impl string }
	jobs := make([]job, 0, n)
	for i := 0; i < n; i++ {
		if i%3 == 0 {
			dn := []string{"common", "common0", "common9", "-", "nohb", "wronghb", "ardupilotmega", "minimal", "common255", "common0"}[r.Intn(10)]
			dis := 0
			if r.Intn(4) == 0 {
				dis = 1
			}
			systype := []int{0, 1, 2, 6, 13, 27}[r.Intn(6)]
			ap := []int{0, 3, 8, 12}[r.Intn(4)]
			defineDialect(dn)
			ver := 0
			if dn != "-" {
				ver = int(getDialect(dn).Version)
			}
			jobs = append(jobs, job{op: fmt.Sprintf("hbcheck %d %s %d %d %d %d %d", dis, dn, ver, 40+r.Intn(40), systype, ap, 1+r.Intn(3))})
			stat("c16-hb-" + dn)
			continue
		}
		dn := []string{"common", "common", "common", "ardupilotmega", "-", "nohb", "wronghb", "noreq"}[r.Intn(8)]
		en := 1
		if r.Intn(5) == 0 {
			en = 0
		}
		freq := []int{0, 1, 4, 10, 50, 1000}[r.Intn(6)]
		k := 1 + r.Intn(3)
		var hs []string
		for c := 0; c < k; c++ {
			var as []string
			// few senders, so that repeats (no second request) are common; every other channel hears only two senders, at length:
			// the same sender as ArduPilot, as something else, as ArduPilot again ...
			pool := [][2]int{}
			nArr := r.Intn(8)
			if r.bool() {
				for q := 0; q < 2; q++ {
					pool = append(pool, [2]int{[]int{1, 2, 3, 9}[r.Intn(4)], 1 + r.Intn(2)})
				}
				nArr = r.Intn(14)
			}
			for j := 0; j < nArr; j++ {
				kind := "A"
				switch r.Intn(5) {
				case 0:
					kind = fmt.Sprintf("G%d", []int{0, 4, 12, 8}[r.Intn(4)])
				case 1:
					kind = "O"
				}
				// system 9 is the node's own OutSystemID (another component of the same system, or a misconfigured peer): the
				// rule is per (channel, system, component) and knows no exception
				sysid, compid := []int{1, 2, 3, 9}[r.Intn(4)], 1+r.Intn(2)
				if len(pool) > 0 {
					pc := pool[r.Intn(len(pool))]
					sysid, compid = pc[0], pc[1]
				}
				as = append(as, fmt.Sprintf("%d.%d.%s", sysid, compid, kind))
			}
			hs = append(hs, dash(strings.Join(as, ",")))
		}
		defineDialect(dn)
		tr := "mem"
		if r.Intn(3) == 0 {
			tr = "tcp" // all the channels belong to ONE endpoint
		}
		jobs = append(jobs, job{op: fmt.Sprintf("srcheck %d %s %d %s %s", en, dn, freq, strings.Join(hs, ";"), tr)})
		stat("c16-sr-" + dn)
	}
	{
		// more distinct senders than any fixed-size table: systems 1..5 x components 1..255 on one channel, then the first ones again
		// (nothing may be requested twice within 30 s, however many senders there are)
		defineDialect("common")
		var as []string
		for sys := 1; sys <= 5; sys++ {
			for comp := 1; comp < 256; comp++ { // (the harness's frame writer turns component 0 into 1)
				as = append(as, fmt.Sprintf("%d.%d.A", sys, comp))
			}
		}
		as = append(as, "1.1.A", "1.2.A", "3.77.A", "5.255.A")
		jobs = append(jobs, job{op: "srcheck 1 common 4 " + strings.Join(as, ",") + " mem"})
		stat("c16-sr-many")
	}
	{
		// the same sender again after one and after two seconds: still inside the 30 s window, nothing may be requested again
		defineDialect("common")
		jobs = append(jobs, job{op: "srcheck 1 common 4 3.1.A,P1,3.1.A,4.1.A,P1,3.1.A,4.1.A;5.2.A,P2,5.2.A mem"})
		stat("c16-sr-within-window")
	}
	if tier == "thorough" && n >= 30 {
		// the 30 s rule, for real: the same sender again after 31 s (one request more), and another one in between (none)
		defineDialect("common")
		jobs = append(jobs, job{op: "srcheck 1 common 4 3.1.A,3.1.A,P31,3.1.A,3.1.A;4.1.A,P31,4.1.G8,4.1.A mem"})
		stat("c16-sr-31s")
	}
	sem := make(chan struct{}, 8)
	var wg sync.WaitGroup
	for i := range jobs {
		wg.Add(1)
		sem <- struct{}{}
		go func(i int) {
			defer wg.Done()
			defer func() { <-sem }()
			t := strings.Split(jobs[i].op, " ")
			if t[0] == "hbcheck" {
				jobs[i].impl = implHbcheck(t)
			} else {
				jobs[i].impl = implSrcheck(t)
			}
		}(i)
	}
	wg.Wait()
	for _, j := range jobs {
		emit(j.op, j.impl)
		stat("op:" + strings.Split(j.op, " ")[0])
	}
}
