package main

import (
	"fmt"
	"reflect"
	"sort"
	"strings"
	"sync"

	"github.com/bluenviron/gomavlib/v3/pkg/dialect"
	"github.com/bluenviron/gomavlib/v3/pkg/dialects/all"
	"github.com/bluenviron/gomavlib/v3/pkg/dialects/ardupilotmega"
	"github.com/bluenviron/gomavlib/v3/pkg/dialects/asluav"
	"github.com/bluenviron/gomavlib/v3/pkg/dialects/avssuas"
	"github.com/bluenviron/gomavlib/v3/pkg/dialects/common"
	"github.com/bluenviron/gomavlib/v3/pkg/dialects/csairlink"
	"github.com/bluenviron/gomavlib/v3/pkg/dialects/cubepilot"
	"github.com/bluenviron/gomavlib/v3/pkg/dialects/development"
	"github.com/bluenviron/gomavlib/v3/pkg/dialects/icarous"
	"github.com/bluenviron/gomavlib/v3/pkg/dialects/loweheiser"
	"github.com/bluenviron/gomavlib/v3/pkg/dialects/matrixpilot"
	"github.com/bluenviron/gomavlib/v3/pkg/dialects/minimal"
	"github.com/bluenviron/gomavlib/v3/pkg/dialects/paparazzi"
	"github.com/bluenviron/gomavlib/v3/pkg/dialects/pythonarraytest"
	"github.com/bluenviron/gomavlib/v3/pkg/dialects/standard"
	"github.com/bluenviron/gomavlib/v3/pkg/dialects/storm32"
	"github.com/bluenviron/gomavlib/v3/pkg/dialects/test"
	"github.com/bluenviron/gomavlib/v3/pkg/dialects/ualberta"
	"github.com/bluenviron/gomavlib/v3/pkg/dialects/uavionix"
	"github.com/bluenviron/gomavlib/v3/pkg/message"
)

var dialects = map[string]*dialect.Dialect{
	"all": all.Dialect, "ardupilotmega": ardupilotmega.Dialect, "asluav": asluav.Dialect,
	"avssuas": avssuas.Dialect, "common": common.Dialect, "csairlink": csairlink.Dialect,
	"cubepilot": cubepilot.Dialect, "development": development.Dialect, "icarous": icarous.Dialect,
	"loweheiser": loweheiser.Dialect, "matrixpilot": matrixpilot.Dialect, "minimal": minimal.Dialect,
	"paparazzi": paparazzi.Dialect, "pythonarraytest": pythonarraytest.Dialect, "standard": standard.Dialect,
	"storm32": storm32.Dialect, "test": test.Dialect, "ualberta": ualberta.Dialect, "uavionix": uavionix.Dialect,
	"user": userDialect, "userwide": userWideDialect,
}

func dialectNames() []string {
	var ns []string
	for k := range dialects {
		ns = append(ns, k)
	}
	sort.Strings(ns)
	return ns
}

var dialectRWs = map[string]*dialect.ReadWriter{}
var dialectRWmu sync.Mutex

func getDialect(name string) *dialect.Dialect {
	if name == "-" {
		return nil
	}
	d, ok := dialects[name]
	if !ok {
		c16Dialects()
		d, ok = dialects[name]
	}
	if !ok {
		panic("unknown dialect " + name)
	}
	return d
}

func getDialectRW(name string) *dialect.ReadWriter {
	if name == "-" {
		return nil
	}
	dialectRWmu.Lock()
	defer dialectRWmu.Unlock()
	if rw, ok := dialectRWs[name]; ok {
		return rw
	}
	rw := &dialect.ReadWriter{Dialect: getDialect(name)}
	if err := rw.Initialize(); err != nil {
		panic(fmt.Sprintf("dialect %s does not initialize: %v", name, err))
	}
	dialectRWs[name] = rw
	return rw
}

func findMsg(dn string, id uint32) message.Message {
	for _, m := range getDialect(dn).Messages {
		if m.GetID() == id {
			return m
		}
	}
	return nil
}

// structBody renders what reflect shows of a message struct (the model's GoStruct).
func structBody(m message.Message) (string, string) {
	t := reflect.TypeOf(m).Elem()
	var fs []string
	for i := 0; i < t.NumField(); i++ {
		f := t.Field(i)
		gt := f.Type
		isArr, arrLen := "0", 0
		if gt.Kind() == reflect.Array {
			isArr, arrLen = "1", gt.Len()
			gt = gt.Elem()
		}
		eu := "0"
		if gt.Kind() == reflect.Uint64 {
			eu = "1"
		}
		if gt.Kind() == reflect.Bool || gt.Name() == "" {
			// not encodable as a name the model knows: still announce it
		}
		for _, tag := range []string{"mavenum", "mavlen", "mavext", "mavname"} {
			if strings.ContainsAny(f.Tag.Get(tag), ";, \t") {
				panic("tag value not encodable")
			}
		}
		fd := fmt.Sprintf("%s;%s;%d;%s;%s;%s;%s;%s;%s", f.Name, isArr, arrLen, gt.Name(), eu,
			f.Tag.Get("mavenum"), f.Tag.Get("mavlen"), f.Tag.Get("mavext"), f.Tag.Get("mavname"))
		if !f.IsExported() {
			fd += ";0"
		}
		fs = append(fs, fd)
	}
	body := strings.Join(fs, ",")
	if body == "" {
		body = "-"
	}
	return t.Name(), body
}

var defined = map[string]bool{}

// defineDialect emits the defmsg ops of a dialect once.
func defineDialect(dn string) {
	if dn == "-" || defined[dn] {
		return
	}
	defined[dn] = true
	for _, m := range getDialect(dn).Messages {
		name, body := structBody(m)
		execOp(fmt.Sprintf("defmsg %s %d %s %s", dn, m.GetID(), name, body))
	}
}
