package main

import (
	"fmt"
	"math"
	"reflect"
	"strconv"
	"strings"

	"github.com/bluenviron/gomavlib/v3/pkg/dialect"
	"github.com/bluenviron/gomavlib/v3/pkg/frame"
	"github.com/bluenviron/gomavlib/v3/pkg/message"
)

// ---- values <-> text ----

func widthMask(k reflect.Kind) uint64 {
	switch k {
	case reflect.Int8, reflect.Uint8:
		return 0xFF
	case reflect.Int16, reflect.Uint16:
		return 0xFFFF
	case reflect.Int32, reflect.Uint32, reflect.Float32:
		return 0xFFFFFFFF
	}
	return 0xFFFFFFFFFFFFFFFF
}

func bitsOf(v reflect.Value) uint64 {
	switch v.Kind() {
	case reflect.Int8, reflect.Int16, reflect.Int32, reflect.Int64, reflect.Int:
		return uint64(v.Int()) & widthMask(v.Kind())
	case reflect.Uint8, reflect.Uint16, reflect.Uint32, reflect.Uint64, reflect.Uint:
		return v.Uint()
	case reflect.Float32:
		return uint64(math.Float32bits(float32(v.Float())))
	case reflect.Float64:
		return math.Float64bits(v.Float())
	}
	panic("bitsOf: unsupported kind " + v.Kind().String())
}

// float32 NaN payloads do not survive v.Float() conversion reliably; read through the pointer.
func bitsOfAddr(v reflect.Value) uint64 {
	if v.Kind() == reflect.Float32 {
		return uint64(math.Float32bits(*(v.Addr().Interface().(*float32))))
	}
	return bitsOf(v)
}

func setBits(v reflect.Value, x uint64) {
	switch v.Kind() {
	case reflect.Int8:
		v.SetInt(int64(int8(x)))
	case reflect.Int16:
		v.SetInt(int64(int16(x)))
	case reflect.Int32:
		v.SetInt(int64(int32(x)))
	case reflect.Int64:
		v.SetInt(int64(x))
	case reflect.Uint8, reflect.Uint16, reflect.Uint32, reflect.Uint64:
		v.SetUint(x & widthMask(v.Kind()))
	case reflect.Float32:
		*(v.Addr().Interface().(*float32)) = math.Float32frombits(uint32(x))
	case reflect.Float64:
		*(v.Addr().Interface().(*float64)) = math.Float64frombits(x)
	default:
		panic("setBits: unsupported kind " + v.Kind().String())
	}
}

func encVals(m message.Message) string {
	rv := reflect.ValueOf(m).Elem()
	var fs []string
	for i := 0; i < rv.NumField(); i++ {
		f := rv.Field(i)
		switch f.Kind() {
		case reflect.String:
			fs = append(fs, "s"+strings.TrimPrefix(hx([]byte(f.String())), "-"))
		case reflect.Array:
			var es []string
			for j := 0; j < f.Len(); j++ {
				es = append(es, strconv.FormatUint(bitsOfAddr(f.Index(j)), 16))
			}
			fs = append(fs, "n"+strings.Join(es, "."))
		default:
			fs = append(fs, "n"+strconv.FormatUint(bitsOfAddr(f), 16))
		}
	}
	return strings.Join(fs, ",")
}

// decVals fills a new value of the same type as proto.
func decVals(proto message.Message, s string) message.Message {
	rv := reflect.New(reflect.TypeOf(proto).Elem())
	if s == "" {
		return rv.Interface().(message.Message)
	}
	parts := strings.Split(s, ",")
	for i := 0; i < rv.Elem().NumField() && i < len(parts); i++ {
		f := rv.Elem().Field(i)
		p := parts[i]
		switch p[0] {
		case 's':
			f.SetString(string(unhxE(p[1:])))
		case 'n':
			if p[1:] == "" {
				continue
			}
			es := strings.Split(p[1:], ".")
			if f.Kind() == reflect.Array {
				for j := 0; j < f.Len() && j < len(es); j++ {
					x, _ := strconv.ParseUint(es[j], 16, 64)
					setBits(f.Index(j), x)
				}
			} else {
				x, _ := strconv.ParseUint(es[0], 16, 64)
				setBits(f, x)
			}
		}
	}
	return rv.Interface().(message.Message)
}

func unhxE(s string) []byte {
	if s == "" {
		return nil
	}
	return unhx(s)
}

// ---- messages / frames <-> text ----

func encMsg(m message.Message) string {
	if m == nil {
		return "nil"
	}
	if r, ok := m.(*message.MessageRaw); ok {
		return fmt.Sprintf("r/%d/%s", r.ID, hx(r.Payload))
	}
	return fmt.Sprintf("d/%d/%s", m.GetID(), encVals(m))
}

func decMsg(s string, d *dialect.Dialect) message.Message {
	p := strings.SplitN(s, "/", 3)
	id, _ := strconv.ParseUint(p[1], 10, 32)
	if p[0] == "r" {
		return &message.MessageRaw{ID: uint32(id), Payload: unhx(p[2])}
	}
	if d != nil {
		for _, m := range d.Messages {
			if m.GetID() == uint32(id) {
				return decVals(m, p[2])
			}
		}
	}
	panic("decMsg: decoded message without prototype: " + s)
}

func encFrame(f frame.Frame) string {
	switch ff := f.(type) {
	case *frame.V1Frame:
		return fmt.Sprintf("v1:%d:%d:%d:%d:%s", ff.SequenceNumber, ff.SystemID, ff.ComponentID, ff.Checksum, encMsg(ff.Message))
	case *frame.V2Frame:
		sg := "nil"
		if ff.Signature != nil {
			sg = hx(ff.Signature[:])
		}
		return fmt.Sprintf("v2:%d:%d:%d:%d:%d:%d:%d:%d:%s:%s", ff.IncompatibilityFlag, ff.CompatibilityFlag,
			ff.SequenceNumber, ff.SystemID, ff.ComponentID, ff.Checksum, ff.SignatureLinkID, ff.SignatureTimestamp, sg, encMsg(ff.Message))
	}
	return "?"
}

func atoiU(s string) uint64 {
	v, err := strconv.ParseUint(s, 10, 64)
	if err != nil {
		panic("atoiU " + s)
	}
	return v
}

func decFrame(s string, d *dialect.Dialect) frame.Frame {
	p := strings.Split(s, ":")
	switch p[0] {
	case "v1":
		return &frame.V1Frame{
			SequenceNumber: byte(atoiU(p[1])), SystemID: byte(atoiU(p[2])), ComponentID: byte(atoiU(p[3])),
			Checksum: uint16(atoiU(p[4])), Message: decMsg(p[5], d),
		}
	case "v2":
		f := &frame.V2Frame{
			IncompatibilityFlag: byte(atoiU(p[1])), CompatibilityFlag: byte(atoiU(p[2])),
			SequenceNumber: byte(atoiU(p[3])), SystemID: byte(atoiU(p[4])), ComponentID: byte(atoiU(p[5])),
			Checksum: uint16(atoiU(p[6])), SignatureLinkID: byte(atoiU(p[7])), SignatureTimestamp: atoiU(p[8]),
			Message: decMsg(p[10], d),
		}
		if p[9] != "nil" {
			sg := new(frame.V2Signature)
			copy(sg[:], unhx(p[9]))
			f.Signature = sg
		}
		return f
	}
	panic("decFrame " + s)
}

// ---- errors -> kinds ----

func ioKind(s string) string {
	switch {
	case s == "EOF":
		return "eof"
	case s == "unexpected EOF":
		return "ueof"
	case strings.HasPrefix(s, "tr"):
		return s
	}
	return "other(" + strings.ReplaceAll(s, " ", "_") + ")"
}

func perrKind(s string) string {
	switch {
	case strings.HasPrefix(s, "invalid magic byte: "):
		v, _ := strconv.ParseUint(strings.TrimPrefix(s, "invalid magic byte: "), 16, 8)
		return fmt.Sprintf("magic-%d", v)
	case strings.HasPrefix(s, "unknown incompatibility flag: "):
		return "incompat-" + strings.TrimPrefix(s, "unknown incompatibility flag: ")
	case s == "signature required but packet is not v2":
		return "sig-not-v2"
	case s == "signature not present":
		return "sig-missing"
	case s == "wrong signature":
		return "sig-wrong"
	case s == "signature timestamp is too old":
		return "sig-old"
	case strings.HasPrefix(s, "wrong checksum"):
		return "crc"
	case strings.HasPrefix(s, "unable to decode message: wrong size"):
		return "decode-size"
	}
	return "io-" + ioKind(s)
}

func werrKind(err error) string {
	s := err.Error()
	switch {
	case s == "message is nil":
		return "nil-msg"
	case s == "dialect is nil":
		return "nil-dialect"
	case s == "message is not in the dialect":
		return "not-in-dialect"
	case strings.HasPrefix(s, "cannot send a message with an ID greater than 255"):
		return "v1id"
	case strings.HasPrefix(s, "tr"):
		return s
	}
	return "other(" + strings.ReplaceAll(s, " ", "_") + ")"
}
