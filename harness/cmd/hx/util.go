package main

import (
	"encoding/hex"
	"fmt"
	"io"
	"math/rand"
	"strconv"
	"strings"
	"time"
)

type rngT struct{ *rand.Rand }

func newRng(seed int64) *rngT { return &rngT{rand.New(rand.NewSource(seed))} }

func (r *rngT) byte() byte     { return byte(r.Intn(256)) }
func (r *rngT) bool() bool     { return r.Intn(2) == 0 }
func (r *rngT) pick(n int) int { return r.Intn(n) }

func (r *rngT) bytes(n int) []byte {
	b := make([]byte, n)
	for i := range b {
		b[i] = r.byte()
	}
	return b
}

// edgeByte favours boundary values.
func (r *rngT) edgeByte() byte {
	switch r.Intn(6) {
	case 0:
		return 0
	case 1:
		return 255
	case 2:
		return 1
	case 3:
		return 0xFE
	case 4:
		return 0xFD
	}
	return r.byte()
}

func hx(b []byte) string {
	if len(b) == 0 {
		return "-"
	}
	return hex.EncodeToString(b)
}

func unhx(s string) []byte {
	if s == "-" {
		return nil
	}
	b, err := hex.DecodeString(s)
	if err != nil {
		panic("bad hex " + s)
	}
	return b
}

// ---- stream items ----

type item struct {
	isErr bool
	b     byte
	k     int
}

type trErr struct{ k int }

func (e trErr) Error() string { return fmt.Sprintf("tr%d", e.k) }

func encStream(items []item) string {
	if len(items) == 0 {
		return "-"
	}
	var toks []string
	var cur []byte
	flush := func() {
		if len(cur) > 0 {
			toks = append(toks, hex.EncodeToString(cur))
			cur = nil
		}
	}
	for _, it := range items {
		if it.isErr {
			flush()
			toks = append(toks, "!"+strconv.Itoa(it.k))
		} else {
			cur = append(cur, it.b)
		}
	}
	flush()
	return strings.Join(toks, ",")
}

func decStream(s string) []item {
	if s == "-" {
		return nil
	}
	var items []item
	for _, t := range strings.Split(s, ",") {
		if strings.HasPrefix(t, "!") {
			k, _ := strconv.Atoi(t[1:])
			items = append(items, item{isErr: true, k: k})
		} else {
			for _, b := range unhx(t) {
				items = append(items, item{b: b})
			}
		}
	}
	return items
}

func bytesItems(b []byte) []item {
	r := make([]item, len(b))
	for i, x := range b {
		r[i] = item{b: x}
	}
	return r
}

// chunkReader delivers items according to a chunking plan.
// plan: sizes of successive Read results (cycled); mode "e": an error is returned together with
// the preceding bytes (n>0, err) when the chunk ends exactly at the error item.
type chunkReader struct {
	items    []item
	pos      int
	plan     []int
	pi       int
	errWith  bool
	eofCalls int
}

func (c *chunkReader) Read(p []byte) (int, error) {
	if c.pos >= len(c.items) {
		c.eofCalls++
		return 0, io.EOF
	}
	if c.items[c.pos].isErr {
		k := c.items[c.pos].k
		c.pos++
		return 0, trErr{k}
	}
	want := len(p)
	if len(c.plan) > 0 {
		w := c.plan[c.pi%len(c.plan)]
		c.pi++
		if w < want {
			want = w
		}
	}
	if want < 1 {
		want = 1
	}
	n := 0
	for n < want && c.pos < len(c.items) && !c.items[c.pos].isErr {
		p[n] = c.items[c.pos].b
		n++
		c.pos++
	}
	if c.errWith && c.pos < len(c.items) && c.items[c.pos].isErr {
		k := c.items[c.pos].k
		c.pos++
		return n, trErr{k}
	}
	return n, nil
}

func encPlan(plan []int, errWith bool) string {
	if len(plan) == 0 && !errWith {
		return "one"
	}
	s := make([]string, len(plan))
	for i, v := range plan {
		s[i] = strconv.Itoa(v)
	}
	r := strings.Join(s, ".")
	if errWith {
		r += "e"
	}
	if r == "" {
		r = "one"
	}
	return r
}

func decPlan(s string) ([]int, bool) {
	if s == "one" {
		return nil, false
	}
	errWith := strings.HasSuffix(s, "e")
	s = strings.TrimSuffix(s, "e")
	var plan []int
	if s != "" {
		for _, t := range strings.Split(s, ".") {
			v, _ := strconv.Atoi(t)
			plan = append(plan, v)
		}
	}
	return plan, errWith
}

// ---- scheduling canary -------------------------------------------------------------------------------------------------------
// Observations that are classified by wall-clock time (reconnect periods, idle expiry, heartbeat spacing) are only meaningful if
// the harness itself was scheduled on time while they were made. A canary goroutine sleeps 5 ms at a time and records by how much
// it overslept; a scenario during which it overslept by more than `canaryLimit` is run again (a few times): the judgement is then
// made on an observation taken while the machine behaved. A defect of the code shows up in the undisturbed run as well.
const canaryLimit = 40 * time.Millisecond

type canary struct {
	stop chan struct{}
	done chan struct{}
	max  time.Duration
}

func startCanary() *canary {
	c := &canary{stop: make(chan struct{}), done: make(chan struct{})}
	go func() {
		defer close(c.done)
		for {
			select {
			case <-c.stop:
				return
			default:
			}
			t := time.Now()
			time.Sleep(5 * time.Millisecond)
			if d := time.Since(t) - 5*time.Millisecond; d > c.max {
				c.max = d
			}
		}
	}()
	return c
}

func (c *canary) finish() time.Duration {
	close(c.stop)
	<-c.done
	return c.max
}

// undisturbed runs a timed scenario, again (up to four times in all) while the canary reports that the machine held the harness up.
func undisturbed(run func() string) string {
	var out string
	for attempt := 0; attempt < 4; attempt++ {
		c := startCanary()
		out = run()
		if c.finish() <= canaryLimit {
			return out
		}
		stat("timed-scenario-rerun-after-disturbance")
	}
	return out
}
