package main

import (
	"fmt"
	"strings"

	"github.com/bluenviron/gomavlib/v3/pkg/frame"
	"github.com/bluenviron/gomavlib/v3/pkg/message"
)

func be64(v int64) []byte {
	u := uint64(v)
	return []byte{byte(u >> 56), byte(u >> 48), byte(u >> 40), byte(u >> 32), byte(u >> 24), byte(u >> 16), byte(u >> 8), byte(u)}
}

var edgeEpochs = []int64{0, 1, -1, 999999, 1000000, -999999, -1000000, -1000001, 1420070400000000, 1 << 40, -(1 << 40),
	1<<62 - 1, -(1 << 62), 253402300799999999, -62135596800000000}

func (r *rngT) epoch() int64 {
	if r.Intn(2) == 0 {
		return edgeEpochs[r.Intn(len(edgeEpochs))]
	}
	return r.Int63n(1<<52) - (1 << 50)
}

// C20: telemetry logs.
func genC20(r *rngT, n int, tier string) {
	defineDialect("common")
	for i := 0; i < n; i++ {
		// --- writer: one entry, raw or decoded, encodable or not, with or without a transport failure
		dn := []string{"-", "common"}[r.Intn(2)]
		var f frame.Frame
		switch r.Intn(6) {
		case 0: // unencodable: v1 frame with id > 255
			f = &frame.V1Frame{SequenceNumber: r.byte(), Message: &message.MessageRaw{ID: 256 + uint32(r.Intn(1000)), Payload: r.payload(r.Intn(10))}}
			stat("c20-unencodable-v1id")
		case 1: // unencodable: decoded message without / outside the dialect
			f = &frame.V2Frame{SequenceNumber: r.byte(), Message: randValue(r, pickMsg(r, "common"))}
			dn = "-@common"
			stat("c20-unencodable-nodialect")
		case 2:
			if dn == "common" {
				f = &frame.V2Frame{SequenceNumber: r.byte(), SystemID: r.byte(), Message: randValue(r, pickMsg(r, "common"))}
				stat("c20-decoded")
				break
			}
			fallthrough
		default:
			f = randRawFrame(r, 1+r.Intn(2), r.bool())
			stat("c20-raw")
		}
		ep := r.epoch()
		execOp(fmt.Sprintf("tlogw %s %d %s", dn, ep, encFrame(f)))
		if r.Intn(3) == 0 {
			execOp(fmt.Sprintf("tlogw %s %d %s %d", dn, ep, encFrame(f), 0))
			stat("c20-write-error")
		}
		// --- reader: a log of 1..4 entries, read whole and under every cut
		var log []byte
		for k := 0; k < 1+r.Intn(4); k++ {
			log = append(log, be64(r.epoch())...)
			log = append(log, refFrameBytes(randRawFrame(r, 1+r.Intn(2), r.bool()))...)
		}
		execOp(fmt.Sprintf("tlogr - %s %s", encStream(bytesItems(log)), randPlan(r)))
		step := 1
		if tier == "quick" && len(log) > 40 {
			step = len(log) / 40
		}
		for cut := r.Intn(step); cut < len(log); cut += step {
			execOp(fmt.Sprintf("tlogr - %s %s", encStream(bytesItems(log[:cut])), []string{"one", "1", "7"}[cut%3]))
			stat("c20-cut")
		}
	}
	// --- writer: several entries through one writer, refusals in between (what a refused entry leaves behind shows later)
	for i := 0; i < n/3+2; i++ {
		var its []string
		for k := 0; k < 2+r.Intn(5); k++ {
			var f frame.Frame
			switch r.Intn(4) {
			case 0:
				f = &frame.V1Frame{SequenceNumber: r.byte(), Message: &message.MessageRaw{ID: 256 + uint32(r.Intn(1000)), Payload: r.payload(r.Intn(10))}}
			case 1:
				f = &frame.V2Frame{SequenceNumber: r.byte(), SystemID: r.byte(), Message: randValue(r, pickMsg(r, "common"))}
			default:
				f = randRawFrame(r, 1+r.Intn(2), r.bool())
			}
			its = append(its, fmt.Sprintf("%d@%s", r.epoch(), encFrame(f)))
		}
		dn := []string{"-@common", "common"}[r.Intn(2)]
		execOp(fmt.Sprintf("tlogws %s %s", dn, strings.Join(its, ";")))
		stat("c20-multi-entry")
	}
	// times around 1970 at every sub-second position (reader side: arbitrary 8-byte timestamps)
	for _, ep := range edgeEpochs {
		b := append(be64(ep), refFrameBytes(&frame.V1Frame{Message: &message.MessageRaw{ID: 1, Payload: []byte{1}}})...)
		execOp(fmt.Sprintf("tlogr - %s one", encStream(bytesItems(b))))
	}
	// with a dialect: decoded entries round trip
	for i := 0; i < n/4+1; i++ {
		var log []byte
		for k := 0; k < 1+r.Intn(3); k++ {
			m := pickMsg(r, "common")
			log = append(log, be64(r.epoch())...)
			log = append(log, refFrameBytes(validDialectFrame(r, "common", m, 2))...)
		}
		execOp(fmt.Sprintf("tlogr common %s %s", encStream(bytesItems(log)), randPlan(r)))
	}
}
