package main

import (
	"fmt"
	"reflect"
	"strings"

	"github.com/bluenviron/gomavlib/v3/pkg/frame"
	"github.com/bluenviron/gomavlib/v3/pkg/message"
)

// ---- independent reference implementations used to BUILD inputs ----

// refCRC: bitwise CRC-16/MCRF4XX.
func refCRC(b []byte) uint16 {
	crc := uint16(0xFFFF)
	for _, x := range b {
		crc ^= uint16(x)
		for i := 0; i < 8; i++ {
			if crc&1 != 0 {
				crc = (crc >> 1) ^ 0x8408
			} else {
				crc >>= 1
			}
		}
	}
	return crc
}

// refFrameBytes lays a frame out according to the serialization guide.
func refFrameBytes(f frame.Frame) []byte {
	switch ff := f.(type) {
	case *frame.V1Frame:
		raw := ff.Message.(*message.MessageRaw)
		b := []byte{0xFE, byte(len(raw.Payload)), ff.SequenceNumber, ff.SystemID, ff.ComponentID, byte(raw.ID)}
		b = append(b, raw.Payload...)
		return append(b, byte(ff.Checksum), byte(ff.Checksum>>8))
	case *frame.V2Frame:
		raw := ff.Message.(*message.MessageRaw)
		b := []byte{0xFD, byte(len(raw.Payload)), ff.IncompatibilityFlag, ff.CompatibilityFlag, ff.SequenceNumber,
			ff.SystemID, ff.ComponentID, byte(raw.ID), byte(raw.ID >> 8), byte(raw.ID >> 16)}
		b = append(b, raw.Payload...)
		b = append(b, byte(ff.Checksum), byte(ff.Checksum>>8))
		if ff.IncompatibilityFlag&1 != 0 {
			b = append(b, ff.SignatureLinkID)
			for i := 0; i < 6; i++ {
				b = append(b, byte(ff.SignatureTimestamp>>(8*i)))
			}
			if ff.Signature != nil {
				b = append(b, ff.Signature[:]...)
			}
		}
		return b
	}
	return nil
}

// setChecksum computes the checksum of a raw frame for crcExtra with the reference CRC.
func setChecksum(f frame.Frame, crcExtra byte) {
	b := refFrameBytes(f)
	switch ff := f.(type) {
	case *frame.V1Frame:
		n := 6 + len(ff.Message.(*message.MessageRaw).Payload)
		ff.Checksum = refCRC(append(append([]byte(nil), b[1:n]...), crcExtra))
	case *frame.V2Frame:
		n := 10 + len(ff.Message.(*message.MessageRaw).Payload)
		ff.Checksum = refCRC(append(append([]byte(nil), b[1:n]...), crcExtra))
	}
}

// sign fills the signature of a v2 frame (flag must already be set) with the reference formula.
func sign(ff *frame.V2Frame, key []byte) {
	ff.Signature = nil
	b := refFrameBytes(ff)
	sg := new(frame.V2Signature)
	copy(sg[:], refSignature(key, b))
	ff.Signature = sg
}

var edgeIDs = []uint32{0, 1, 255, 256, 0xFFFF, 0x10000, 0xFFFFFF, 66, 300}
var edgeLens = []int{0, 1, 2, 3, 9, 254, 255}
var edgeTs = []uint64{0, 1, 5, 999999, 1000000, 1000001, 2000000, 1 << 32, 1<<32 - 1, 1<<48 - 1, 1<<48 - 1000001, 1 << 47}

func (r *rngT) id24() uint32 {
	if r.Intn(3) == 0 {
		return edgeIDs[r.Intn(len(edgeIDs))]
	}
	return uint32(r.Intn(1 << 24))
}

func (r *rngT) plen() int {
	if r.Intn(3) == 0 {
		return edgeLens[r.Intn(len(edgeLens))]
	}
	return r.Intn(256)
}

func (r *rngT) ts48() uint64 {
	if r.Intn(3) == 0 {
		return edgeTs[r.Intn(len(edgeTs))]
	}
	return uint64(r.Int63()) & (1<<48 - 1)
}

func (r *rngT) payload(n int) []byte {
	if n == 0 {
		return nil
	}
	p := r.bytes(n)
	switch r.Intn(5) {
	case 0: // trailing zeros
		for i := r.Intn(n); i < n; i++ {
			p[i] = 0
		}
	case 1:
		for i := range p {
			p[i] = 0
		}
	case 2: // marker bytes inside
		p[r.Intn(n)] = 0xFE
		p[r.Intn(n)] = 0xFD
	}
	return p
}

// randRawFrame: a well-formed raw frame (the property's domain).
func randRawFrame(r *rngT, version int, signed bool) frame.Frame {
	n := r.plen()
	if version == 1 {
		return &frame.V1Frame{SequenceNumber: r.edgeByte(), SystemID: r.edgeByte(), ComponentID: r.edgeByte(),
			Checksum: uint16(r.Intn(1 << 16)),
			Message:  &message.MessageRaw{ID: r.id24() & 0xFF, Payload: r.payload(n)}}
	}
	f := &frame.V2Frame{CompatibilityFlag: r.edgeByte(), SequenceNumber: r.edgeByte(), SystemID: r.edgeByte(),
		ComponentID: r.edgeByte(), Checksum: uint16(r.Intn(1 << 16)),
		Message: &message.MessageRaw{ID: r.id24(), Payload: r.payload(n)}}
	if signed {
		f.IncompatibilityFlag = 1
		f.SignatureLinkID = r.edgeByte()
		f.SignatureTimestamp = r.ts48()
		sg := new(frame.V2Signature)
		copy(sg[:], r.bytes(6))
		f.Signature = sg
	}
	return f
}

func genX25(r *rngT, n int) {
	execOp("x25 -")
	execOp("x25 313233343536373839")
	for i := 0; i < n; i++ {
		l := r.Intn(40)
		if r.Intn(10) == 0 {
			l = r.Intn(600)
		}
		execOp("x25 " + hx(r.bytes(l)))
	}
	for b := 0; b < 256; b++ {
		execOp(fmt.Sprintf("x25 %02x", b))
	}
}

// C01: marshal + read back, WF frames; representability refusals.
func genC01(r *rngT, n int, tier string) {
	for i := 0; i < n; i++ {
		ver := 1 + r.Intn(2)
		f := randRawFrame(r, ver, r.bool())
		line := encFrame(f)
		execOp("marshal " + line)
		// read the spec bytes back, without dialect, under a random chunking
		execOp(fmt.Sprintf("read - - 0 %s %s", encStream(bytesItems(refFrameBytes(f))), randPlan(r)))
	}
	// every value of every header byte (v1 and v2), fixed rest
	for b := 0; b < 256; b++ {
		for pos := 0; pos < 5; pos++ {
			h := [5]byte{1, 2, 3, 4, 5}
			h[pos] = byte(b)
			f1 := &frame.V1Frame{SequenceNumber: h[0], SystemID: h[1], ComponentID: h[2], Checksum: uint16(h[3])<<8 | uint16(h[4]),
				Message: &message.MessageRaw{ID: 7, Payload: []byte{9}}}
			execOp("marshal " + encFrame(f1))
			f2 := &frame.V2Frame{CompatibilityFlag: h[0], SequenceNumber: h[1], SystemID: h[2], ComponentID: h[3], Checksum: uint16(h[4]),
				Message: &message.MessageRaw{ID: uint32(h[4])<<16 | 7, Payload: []byte{9}}}
			execOp("marshal " + encFrame(f2))
		}
	}
	// all payload lengths 0..255, v1, v2, v2 signed
	for l := 0; l <= 255; l++ {
		p := r.payload(l)
		execOp("marshal " + encFrame(&frame.V1Frame{Message: &message.MessageRaw{ID: 1, Payload: p}}))
		execOp("marshal " + encFrame(&frame.V2Frame{Message: &message.MessageRaw{ID: 0x123456, Payload: p}}))
		sg := frame.V2Signature{1, 2, 3, 4, 5, byte(l)}
		sf := &frame.V2Frame{IncompatibilityFlag: 1, SignatureLinkID: 3, SignatureTimestamp: 1<<48 - 1, Signature: &sg,
			Message: &message.MessageRaw{ID: 0xFFFFFF, Payload: p}}
		execOp("marshal " + encFrame(sf))
		execOp(fmt.Sprintf("read - - 0 %s %s", encStream(bytesItems(refFrameBytes(sf))), randPlan(r)))
	}
	// not representable: v1 id > 255
	for _, id := range []uint32{256, 257, 300, 0xFFFF, 0x10000, 0xFFFFFF, 0x1000000, 0xFFFFFFFF} {
		execOp("marshal " + encFrame(&frame.V1Frame{SequenceNumber: 1, Message: &message.MessageRaw{ID: id, Payload: []byte{1, 2}}}))
	}
	stat("c01-frames")
}

func randPlan(r *rngT) string {
	switch r.Intn(5) {
	case 0:
		return "one"
	case 1:
		return "1"
	case 2:
		return encPlan([]int{1 + r.Intn(7)}, r.bool())
	}
	k := 1 + r.Intn(5)
	plan := make([]int, k)
	for i := range plan {
		plan[i] = 1 + r.Intn(30)
	}
	return encPlan(plan, r.bool())
}

// validDialectFrame builds a frame carrying a random value of message m, encoded by the
// implementation's encoder (input construction only) with a reference checksum.
func validDialectFrame(r *rngT, dn string, m message.Message, version int) frame.Frame {
	rw := getDialectRW(dn).GetMessage(m.GetID())
	val := randValue(r, m)
	raw := rw.Write(val, version == 2)
	var f frame.Frame
	if version == 1 {
		f = &frame.V1Frame{SequenceNumber: r.byte(), SystemID: r.edgeByte(), ComponentID: r.edgeByte(), Message: raw}
	} else {
		f = &frame.V2Frame{CompatibilityFlag: byte(r.Intn(3)) * byte(r.Intn(120)), SequenceNumber: r.byte(), SystemID: r.edgeByte(), ComponentID: r.edgeByte(), Message: raw}
	}
	setChecksum(f, rw.CRCExtra())
	return f
}

// randValue: a random value of the same type as proto, boundary heavy.
func randValue(r *rngT, proto message.Message) message.Message {
	rv := reflect.New(reflect.TypeOf(proto).Elem())
	t := rv.Elem().Type()
	zeroTail := r.Intn(3) == 0
	for i := 0; i < t.NumField(); i++ {
		f := rv.Elem().Field(i)
		if zeroTail && i >= t.NumField()/2 {
			continue
		}
		switch f.Kind() {
		case reflect.String:
			n := 0
			if ml := t.Field(i).Tag.Get("mavlen"); ml != "" {
				fmt.Sscanf(ml, "%d", &n)
			} else {
				n = 1
			}
			l := r.Intn(n + 2)
			b := make([]byte, l)
			for j := range b {
				b[j] = byte(1 + r.Intn(255))
			}
			if l > 0 && r.Intn(4) == 0 {
				b[r.Intn(l)] = 0
			}
			f.SetString(string(b))
		case reflect.Array:
			for j := 0; j < f.Len(); j++ {
				setBits(f.Index(j), r.edge64())
			}
		default:
			setBits(f, r.edge64())
		}
	}
	return rv.Interface().(message.Message)
}

// allOnes: every numeric element 0x0101.., every string full length of 'x'.
func allOnes(proto message.Message) message.Message {
	rv := reflect.New(reflect.TypeOf(proto).Elem())
	t := rv.Elem().Type()
	for i := 0; i < t.NumField(); i++ {
		f := rv.Elem().Field(i)
		switch f.Kind() {
		case reflect.String:
			n := 1
			if ml := t.Field(i).Tag.Get("mavlen"); ml != "" {
				fmt.Sscanf(ml, "%d", &n)
			}
			f.SetString(strings.Repeat("x", n))
		case reflect.Array:
			for j := 0; j < f.Len(); j++ {
				setBits(f.Index(j), 0x0101010101010101)
			}
		default:
			setBits(f, 0x0101010101010101)
		}
	}
	return rv.Interface().(message.Message)
}

func (r *rngT) edge64() uint64 {
	switch r.Intn(10) {
	case 8:
		return 0x8000000000000000 // float64 negative zero, int64 minimum (low half zero: float32 +0)
	case 9:
		return 0x80000000 // float32 negative zero, int32 minimum
	case 0:
		return 0
	case 1:
		return ^uint64(0)
	case 2:
		return 1
	case 3:
		return 0x8000000000000000 | 0x80000000 | 0x8000 | 0x80
	case 4:
		return 0x7FF8000000000001 // NaN pattern (f64) / arbitrary
	case 5:
		return uint64(r.Intn(256))
	}
	return r.Uint64()
}

func pickMsg(r *rngT, dn string) message.Message {
	ms := getDialect(dn).Messages
	return ms[r.Intn(len(ms))]
}

// C02: checksum gate — valid dialect frames, every single-bit flip, random damage.
func genC02(r *rngT, n int, tier string) {
	genX25(r, n)
	for _, dn := range []string{"common", "user", "userwide"} { // userwide: message ids beyond 16 bits (65836, 197164, 2^24-1)
		defineDialect(dn)
		for i := 0; i < n/4+1; i++ {
			m := pickMsg(r, dn)
			ver := 1 + r.Intn(2)
			if ver == 1 && m.GetID() > 255 {
				ver = 2
			}
			f := validDialectFrame(r, dn, m, ver)
			b := refFrameBytes(f)
			execOp(fmt.Sprintf("read %s - 0 %s %s", dn, encStream(bytesItems(b)), randPlan(r)))
			// all single-bit flips (quick: a random subset of 24 positions; thorough: all)
			nbits := len(b) * 8
			step := 1
			if tier == "quick" && nbits > 24 {
				step = nbits / 24
			}
			for bit := r.Intn(step); bit < nbits; bit += step {
				c := append([]byte(nil), b...)
				c[bit/8] ^= 1 << (bit % 8)
				execOp(fmt.Sprintf("read %s - 0 %s one", dn, encStream(bytesItems(c))))
				stat("c02-flip")
			}
			// random byte substitution / multi-byte damage
			c := append([]byte(nil), b...)
			for k := 0; k < 1+r.Intn(3); k++ {
				c[1+r.Intn(len(c)-1)] = r.byte()
			}
			execOp(fmt.Sprintf("read %s - 0 %s one", dn, encStream(bytesItems(c))))
			// the same gate on a signed link: a frame whose checksum is wrong BEFORE it is signed (a sender built from another
			// revision of the dialect, or a deliberately wrong checksum) carries a valid signature and must still be refused
			if ver == 2 {
				key := r.bytes(32)
				for _, variant := range []int{0, 1, 2, 3} {
					g := validDialectFrame(r, dn, m, 2).(*frame.V2Frame)
					g.IncompatibilityFlag = 1
					g.SignatureLinkID = r.byte()
					g.SignatureTimestamp = uint64(1000 + r.Intn(1000000))
					if rw := getDialectRW(dn).GetMessage(g.Message.GetID()); rw != nil {
						setChecksum(g, rw.CRCExtra())
					}
					switch variant {
					case 1:
						g.Checksum ^= 1 << uint(r.Intn(16))
					case 2:
						g.Checksum = 0
					case 3:
						g.Checksum = uint16(r.Intn(65536))
					}
					sign(g, key)
					execOp(fmt.Sprintf("read %s %s 0 %s one", dn, hx(key), encStream(bytesItems(refFrameBytes(g)))))
					stat("c02-signed-gate")
				}
			}
		}
	}
}

// junk bytes that are not frame markers
func junk(r *rngT, n int) []byte {
	b := make([]byte, n)
	for i := range b {
		for {
			b[i] = r.byte()
			if b[i] != 0xFE && b[i] != 0xFD {
				break
			}
		}
	}
	return b
}

// C05: arbitrary streams, chunkings, injected errors; exhaustive small alphabet.
func genC05(r *rngT, n int, tier string) {
	defineDialect("common")
	depth := 5
	if tier == "thorough" {
		depth = 7
	}
	alpha := []byte{0xFE, 0xFD, 0x00, 0x01, 0x09}
	var rec func(cur []byte)
	cnt := 0
	rec = func(cur []byte) {
		if len(cur) > 0 {
			plan := []string{"one", "1", "2", "3e"}[cnt%4]
			cnt++
			execOp(fmt.Sprintf("read - - 0 %s %s", encStream(bytesItems(cur)), plan))
			if len(cur) <= 3 || cnt%7 == 0 {
				execOp(fmt.Sprintf("read common - 0 %s %s", encStream(bytesItems(cur)), plan))
			}
		}
		if len(cur) == depth {
			return
		}
		for _, a := range alpha {
			rec(append(append([]byte(nil), cur...), a))
		}
	}
	rec(nil)
	stat("c05-exhaustive")

	for i := 0; i < n; i++ {
		dn := []string{"-", "common"}[r.Intn(2)]
		var items []item
		segs := 1 + r.Intn(6)
		for s := 0; s < segs; s++ {
			var fb []byte
			if dn == "common" && r.bool() {
				m := pickMsg(r, dn)
				ver := 1 + r.Intn(2)
				if ver == 1 && m.GetID() > 255 {
					ver = 2
				}
				fb = refFrameBytes(validDialectFrame(r, dn, m, ver))
			} else {
				fb = refFrameBytes(randRawFrame(r, 1+r.Intn(2), r.bool()))
			}
			switch r.Intn(8) {
			case 0: // truncated
				fb = fb[:r.Intn(len(fb))]
				stat("c05-truncated")
			case 1: // corrupted
				fb[r.Intn(len(fb))] ^= 1 << r.Intn(8)
				stat("c05-corrupt")
			case 2: // junk with markers
				fb = r.bytes(1 + r.Intn(20))
				stat("c05-noise")
			case 3: // bad incompat
				if fb[0] == 0xFD {
					fb[2] = byte(2 + r.Intn(250))
				}
			default:
				stat("c05-valid")
			}
			if r.Intn(3) == 0 {
				items = append(items, bytesItems(junk(r, r.Intn(6)))...)
			}
			items = append(items, bytesItems(fb)...)
			if r.Intn(6) == 0 {
				// a transport error at a random earlier offset
				pos := r.Intn(len(items) + 1)
				items = append(items[:pos], append([]item{{isErr: true, k: 1 + r.Intn(9)}}, items[pos:]...)...)
				stat("c05-err-item")
			}
		}
		s := encStream(items)
		for k := 0; k < 3; k++ {
			execOp(fmt.Sprintf("read %s - 0 %s %s", dn, s, randPlan(r)))
		}
		execOp(fmt.Sprintf("read %s - 0 %s 1", dn, s))
		execOp(fmt.Sprintf("read %s - 0 %s one", dn, s))
		// the same stream through a buffered reader supplied by the caller (Reader.BufByteReader), smaller or larger than a frame
		execOp(fmt.Sprintf("read %s - 0 %s %s B%d", dn, s, randPlan(r), []int{16, 17, 32, 64, 128, 255, 300, 4096}[r.Intn(8)]))
		stat("c05-caller-buffer")
	}
	// a stream of valid frames separated by non-marker junk: every frame must come out (resync clause)
	for i := 0; i < n/4+1; i++ {
		var items []item
		for s := 0; s < 2+r.Intn(5); s++ {
			items = append(items, bytesItems(junk(r, r.Intn(5)))...)
			items = append(items, bytesItems(refFrameBytes(randRawFrame(r, 1+r.Intn(2), r.bool())))...)
		}
		execOp(fmt.Sprintf("read - - 0 %s %s", encStream(items), randPlan(r)))
		execOp(fmt.Sprintf("read - - 0 %s %s B%d", encStream(items), randPlan(r), []int{16, 24, 64, 200}[r.Intn(4)]))
		stat("c05-resync")
	}
}

// C06 / C07: signed links.
func genC06(r *rngT, n int, tier string) {
	for i := 0; i < 20; i++ {
		execOp("sha " + hx(r.bytes(r.Intn(200))))
	}
	defineDialect("common")
	key := r.bytes(32)
	other := r.bytes(32)
	for i := 0; i < n; i++ {
		dn := []string{"-", "common"}[r.Intn(2)]
		var f *frame.V2Frame
		if dn == "common" {
			f = validDialectFrame(r, dn, pickMsg(r, dn), 2).(*frame.V2Frame)
		} else {
			f = randRawFrame(r, 2, false).(*frame.V2Frame)
		}
		f.IncompatibilityFlag = 1
		f.SignatureLinkID = r.edgeByte()
		f.SignatureTimestamp = r.ts48()
		if dn == "common" {
			setChecksum(f, getDialectRW(dn).GetMessage(f.Message.GetID()).CRCExtra())
		}
		sign(f, key)
		b := refFrameBytes(f)
		execOp(fmt.Sprintf("read %s %s 0 %s %s", dn, hx(key), encStream(bytesItems(b)), randPlan(r)))
		switch r.Intn(6) {
		case 0: // wrong key
			execOp(fmt.Sprintf("read %s %s 0 %s one", dn, hx(other), encStream(bytesItems(b))))
			stat("c06-wrong-key")
		case 1: // unsigned v2
			g := *f
			g.IncompatibilityFlag = 0
			g.Signature = nil
			execOp(fmt.Sprintf("read %s %s 0 %s one", dn, hx(key), encStream(bytesItems(refFrameBytes(&g)))))
			stat("c06-unsigned")
		case 2: // v1
			v1 := randRawFrame(r, 1, false)
			execOp(fmt.Sprintf("read - %s 0 %s one", hx(key), encStream(bytesItems(refFrameBytes(v1)))))
			stat("c06-v1")
		}
		// bit flips after signing
		nbits := len(b) * 8
		flips := 6
		if tier == "thorough" {
			flips = 40
		}
		for k := 0; k < flips; k++ {
			bit := r.Intn(nbits)
			c := append([]byte(nil), b...)
			c[bit/8] ^= 1 << (bit % 8)
			execOp(fmt.Sprintf("read %s %s 0 %s one", dn, hx(key), encStream(bytesItems(c))))
			stat("c06-flip")
		}
	}
	// a frame without signature (unsigned v2, v1) is refused on a keyed link WHATEVER message it carries: every message of the
	// dialect, every id 0..255 without a dialect
	for _, m := range getDialect("common").Messages {
		u := validDialectFrame(r, "common", m, 2)
		execOp(fmt.Sprintf("read common %s 0 %s one", hx(key), encStream(bytesItems(refFrameBytes(u)))))
		if m.GetID() <= 255 {
			v := validDialectFrame(r, "common", m, 1)
			execOp(fmt.Sprintf("read common %s 0 %s one", hx(key), encStream(bytesItems(refFrameBytes(v)))))
		}
		stat("c06-unsigned-every-message")
	}
	for id := 0; id < 256; id++ {
		u := randRawFrame(r, 2, false).(*frame.V2Frame)
		u.Message = &message.MessageRaw{ID: uint32(id), Payload: r.payload(1 + r.Intn(20))}
		execOp(fmt.Sprintf("read - %s 0 %s one", hx(key), encStream(bytesItems(refFrameBytes(u)))))
		v := randRawFrame(r, 1, false).(*frame.V1Frame)
		v.Message = &message.MessageRaw{ID: uint32(id), Payload: r.payload(1 + r.Intn(20))}
		execOp(fmt.Sprintf("read - %s 0 %s one", hx(key), encStream(bytesItems(refFrameBytes(v)))))
	}
	// largest frames: every message of >= 200 bytes, all bytes non-zero, signed (the whole 13-byte block must fit)
	defineDialect("user")
	for _, dn := range []string{"common", "user"} {
		for _, m := range getDialect(dn).Messages {
			if reflect.TypeOf(m).Elem().Size() < 200 {
				continue
			}
			v := allOnes(m)
			execOp(fmt.Sprintf("swrite %s 2 1 1 7 %s %s@%d", dn, hx(key), encMsg(v), 123456789))
			stat("c06-swrite-big")
		}
	}
	// writers sign correctly: streamwriter with a key, verified by the model's formula
	for i := 0; i < n/5+1; i++ {
		var its []string
		for k := 0; k < 1+r.Intn(4); k++ {
			m := randValue(r, pickMsg(r, "common"))
			its = append(its, fmt.Sprintf("%s@%d", encMsg(m), r.Int63n(1<<55)))
		}
		execOp(fmt.Sprintf("swrite common 2 %d %d %d %s %s", 1+r.Intn(255), r.Intn(256), r.Intn(256), hx(key), strings.Join(its, ";")))
		stat("c06-swrite")
	}
	genC06node(r, n, key)
}

// genC06node: a node configured with an outgoing key signs what it originates (same formula, link id, flag)
func genC06node(r *rngT, n int, key []byte) {
	for i := 0; i < n/40+2; i++ {
		dn := []string{"common", "user"}[r.Intn(2)]
		var its []string
		for j := 0; j < 3+r.Intn(12); j++ {
			its = append(its, fmt.Sprintf("%s@5000000", encMsg(randValue(r, pickMsg(r, dn)))))
		}
		execOp(fmt.Sprintf("nwrite %s 2 %d %d %d %s %s", dn, 2+r.Intn(253), r.Intn(3)*r.Intn(128), r.edgeByte(), hx(key), strings.Join(its, ";")))
		stat("c06-node-signed")
	}
}

func signedAt(r *rngT, key []byte, ts uint64) []byte {
	f := randRawFrame(r, 2, false).(*frame.V2Frame)
	f.Message.(*message.MessageRaw).Payload = r.payload(r.Intn(6))
	f.IncompatibilityFlag = 1
	f.SignatureLinkID = r.byte()
	f.SignatureTimestamp = ts
	sign(f, key)
	return refFrameBytes(f)
}

func genC07(r *rngT, n int, tier string) {
	key := r.bytes(32)
	alpha := []uint64{0, 1, 5, 999999, 1000000, 1000001, 2000000, 2000001, 1 << 47, 1<<48 - 1000001, 1<<48 - 1}
	depth := 3
	if tier == "thorough" {
		depth = 4
	}
	var rec func(h []uint64)
	rec = func(h []uint64) {
		if len(h) > 0 {
			var items []item
			for _, ts := range h {
				items = append(items, bytesItems(signedAt(r, key, ts))...)
			}
			execOp(fmt.Sprintf("read - %s 0 %s one", hx(key), encStream(items)))
			stat("c07-history")
		}
		if len(h) == depth {
			return
		}
		for _, a := range alpha {
			rec(append(append([]uint64(nil), h...), a))
		}
	}
	rec(nil)
	for i := 0; i < n; i++ {
		var items []item
		base := r.ts48()
		for k := 0; k < 2+r.Intn(8); k++ {
			var ts uint64
			switch r.Intn(4) {
			case 0:
				ts = r.ts48()
			case 1:
				ts = (base - uint64(r.Intn(2000002))) & (1<<48 - 1)
			case 2:
				ts = (base + uint64(r.Intn(2000002))) & (1<<48 - 1)
			default:
				ts = (base - 1000000 + uint64(r.Intn(3)) - 1) & (1<<48 - 1)
			}
			items = append(items, bytesItems(signedAt(r, key, ts))...)
			if r.Intn(3) == 0 {
				base = ts
			}
		}
		execOp(fmt.Sprintf("read - %s 0 %s %s", hx(key), encStream(items), randPlan(r)))
		stat("c07-random-history")
	}
	// long runs of refused frames: the verdict on a frame depends on its timestamp and on the newest ACCEPTED one, never on how
	// many frames were refused before it (a run of 3..40 too-old frames, then frames inside and just outside the window)
	for i := 0; i < n/6+3; i++ {
		var items []item
		base := uint64(3000000) + r.ts48()%(1<<47)
		items = append(items, bytesItems(signedAt(r, key, base))...)
		run := 3 + r.Intn(10)
		if i%4 == 0 {
			run = 20 + r.Intn(20)
		}
		for k := 0; k < run; k++ {
			old := uint64(k)
			if r.bool() {
				old = base - 1000001 - uint64(r.Intn(1500000))
			}
			items = append(items, bytesItems(signedAt(r, key, old))...)
		}
		for _, d := range []uint64{500000, 1000000, 1000001, 999999} {
			items = append(items, bytesItems(signedAt(r, key, base-d))...)
		}
		execOp(fmt.Sprintf("read - %s 0 %s %s", hx(key), encStream(items), randPlan(r)))
		stat("c07-refused-run")
	}
	// histories with forged frames (wrong key, far-future or far-past timestamps) between valid ones:
	// only ACCEPTED frames may move the window
	other := r.bytes(32)
	for i := 0; i < n/2+5; i++ {
		var items []item
		base := uint64(2000000 + r.Intn(1<<30))
		for k := 0; k < 3+r.Intn(6); k++ {
			switch r.Intn(3) {
			case 0:
				items = append(items, bytesItems(signedAt(r, other, []uint64{base + 5000000, 1<<48 - 1, 0, base - 1500000}[r.Intn(4)]))...)
				stat("c07-forged")
			default:
				items = append(items, bytesItems(signedAt(r, key, base+uint64(r.Intn(1000))-uint64(r.Intn(1000))))...)
			}
		}
		execOp(fmt.Sprintf("read - %s 0 %s %s", hx(key), encStream(items), randPlan(r)))
	}
	// writer side: consecutive signed writes carry non-decreasing, correctly scaled timestamps
	defineDialect("common")
	for i := 0; i < 3; i++ {
		var its []string
		for k := 0; k < 40; k++ {
			its = append(its, fmt.Sprintf("%s@%d", encMsg(randValue(r, pickMsg(r, "common"))), int64(k)*12345))
		}
		execOp(fmt.Sprintf("swrite common 2 1 1 9 %s %s", hx(key), strings.Join(its, ";")))
	}
}
