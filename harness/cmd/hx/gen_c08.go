package main

import (
	"bytes"
	"errors"
	"fmt"
	"io"
	"strings"

	"github.com/bluenviron/gomavlib/v3"
	"github.com/bluenviron/gomavlib/v3/pkg/frame"
	"github.com/bluenviron/gomavlib/v3/pkg/message"
)

// hop <dialect> <stream> <hops>: read every frame, write it unchanged with a frame.Writer (same dialect),
// feed the written bytes to the next hop.
func implHop(t []string) string {
	items := decStream(t[2])
	var cur []byte
	for _, it := range items {
		cur = append(cur, it.b)
	}
	hops := int(atoiU(t[3]))
	var outs []string
	for h := 0; h <= hops; h++ {
		r := &frame.Reader{ByteReader: bytes.NewReader(cur), DialectRW: getDialectRW(t[1])}
		if len(t) > 4 {
			// the link delivers the bytes in pieces (header first, one byte at a time, ...)
			plan, _ := decPlan(t[4])
			r = &frame.Reader{ByteReader: &chunkReader{items: bytesItems(cur), plan: plan}, DialectRW: getDialectRW(t[1])}
		}
		if err := r.Initialize(); err != nil {
			return "init-err"
		}
		w := &recWriter{failAt: -1}
		fw := &frame.Writer{ByteWriter: w, DialectRW: getDialectRW(t[1])}
		fw.Initialize() //nolint
		var res []string
		for calls := 0; calls <= len(cur)+2; calls++ {
			fr, err := r.Read()
			if err != nil {
				var re frame.ReadError
				if errors.As(err, &re) {
					res = append(res, "P"+perrKind(err.Error()))
					continue
				}
				if err == io.EOF {
					break
				}
				res = append(res, "T"+ioKind(err.Error()))
				continue
			}
			res = append(res, "F"+maskCrc(encFrame(fr), h > 0 && t[1] != "-"))
			if err := fw.Write(fr); err != nil {
				res = append(res, "W"+werrKind(err))
			}
		}
		var next []byte
		for _, c := range w.calls {
			next = append(next, c...)
		}
		same := "same"
		if !bytes.Equal(next, cur) {
			same = "diff"
		}
		if t[1] != "-" {
			same = "*"
		}
		outs = append(outs, fmt.Sprintf("H%d[fwd=%s]:%s", h, same, strings.Join(res, " ")))
		cur = next
	}
	return strings.Join(outs, "|")
}

func maskCrc(f string, mask bool) string {
	if !mask {
		return f
	}
	p := strings.Split(f, ":")
	if p[0] == "v1" {
		p[4] = "*"
	} else {
		p[6] = "*"
	}
	return strings.Join(p, ":")
}

type nopRWC struct{ ch chan struct{} }

func (n *nopRWC) Read(p []byte) (int, error)  { <-n.ch; return 0, io.EOF }
func (n *nopRWC) Write(p []byte) (int, error) { return len(p), nil }
func (n *nopRWC) Close() error {
	select {
	case <-n.ch:
	default:
		close(n.ch)
	}
	return nil
}

var fixNodes = map[string]*gomavlib.Node{}

// fix <dialect> <outkey> <frame>: Node.FixFrame on a node configured with the dialect and key.
func implFix(t []string) string {
	nodeVer := gomavlib.V2
	if len(t) > 4 && t[4] == "1" && t[2] == "-" {
		nodeVer = gomavlib.V1
	}
	k := t[1] + "/" + t[2] + "/" + fmt.Sprint(nodeVer)
	n, ok := fixNodes[k]
	if !ok {
		n = &gomavlib.Node{
			Endpoints:        []gomavlib.EndpointConf{gomavlib.EndpointCustom{ReadWriteCloser: &nopRWC{ch: make(chan struct{})}}},
			Dialect:          getDialect(t[1]),
			OutVersion:       nodeVer,
			OutSystemID:      1,
			OutKey:           keyOf(t[2]),
			HeartbeatDisable: true,
		}
		if err := n.Initialize(); err != nil {
			return "init-err"
		}
		fixNodes[k] = n
	}
	fr := decFrame(t[3], getDialect(t[1]))
	if err := n.FixFrame(fr); err != nil {
		switch err.Error() {
		case "dialect is nil":
			return "err:nil-dialect"
		case "message is not in the dialect":
			return "err:not-in-dialect"
		}
		return "err:other"
	}
	// next hop: write the fixed frame, read it back with the same dialect and the key as incoming key
	w := &recWriter{failAt: -1}
	fw := &frame.Writer{ByteWriter: w, DialectRW: getDialectRW(t[1])}
	fw.Initialize() //nolint
	if err := fw.Write(fr); err != nil {
		return "ok:" + encFrame(fr) + "|W" + werrKind(err)
	}
	var all []byte
	for _, c := range w.calls {
		all = append(all, c...)
	}
	rd := &frame.Reader{ByteReader: bytes.NewReader(all), DialectRW: getDialectRW(t[1]), InKey: keyOf(t[2])}
	rd.Initialize() //nolint
	nf, err := rd.Read()
	next := ""
	if err != nil {
		next = "P" + perrKind(err.Error())
	} else {
		next = "F" + maskCrc(encFrame(nf), true)
	}
	return "ok:" + encFrame(fr) + "|" + next
}

// C08: routing transparency.
func genC08(r *rngT, n int, tier string) {
	for _, dn := range []string{"common", "user"} {
		defineDialect(dn)
	}
	hops := 2
	if tier == "thorough" {
		hops = 4
	}
	for i := 0; i < n; i++ {
		// without a dialect: arbitrary well-formed frames, byte identity
		var b []byte
		for k := 0; k < 1+r.Intn(3); k++ {
			b = append(b, refFrameBytes(randRawFrame(r, 1+r.Intn(2), r.bool()))...)
		}
		execOp(fmt.Sprintf("hop - %s %d", encStream(bytesItems(b)), hops))
		stat("c08-nodialect")
		if i%3 == 0 {
			// longer streams (beyond the reader's buffer) and links that deliver the frames in pieces
			for k := 0; k < r.Intn(8); k++ {
				b = append(b, refFrameBytes(randRawFrame(r, 1+r.Intn(2), r.bool()))...)
			}
			execOp(fmt.Sprintf("hop - %s %d %s", encStream(bytesItems(b)), hops, randPlan(r)))
			execOp(fmt.Sprintf("hop - %s %d 10.300", encStream(bytesItems(b)), hops))
			stat("c08-nodialect-pieces")
		}
	}
	for i := 0; i < n; i++ {
		dn := []string{"common", "user"}[r.Intn(2)]
		m := pickMsg(r, dn)
		ver := 1 + r.Intn(2)
		if ver == 1 && m.GetID() > 255 {
			ver = 2
		}
		rw := getDialectRW(dn).GetMessage(m.GetID())
		_, sn, sx := rw.VerifLayout()
		val := randValue(r, m)
		raw := rw.Write(val, ver == 2)
		p := append([]byte(nil), raw.Payload...)
		class := "canonical"
		if ver == 2 {
			switch r.Intn(5) {
			case 0: // sent without zero truncation
				p = append(p, make([]byte, int(sx)-len(p))...)
				class = "untruncated"
			case 1: // unknown trailing extension bytes
				p = append(p, make([]byte, int(sx)-len(p))...)
				if len(p)+3 <= 255 {
					p = append(p, 1+r.byte()%250, r.byte(), 1+r.byte()%250)
					class = "unknown-ext-tail"
				}
			case 2: // bytes after a string terminator
				if q, ok := junkAfterNul(r, rw, m, ver == 2, int(sx)); ok {
					p, class = q, "string-tail"
				}
			case 3: // empty payload
				p, class = nil, "empty-payload"
			}
		} else if r.Intn(3) == 0 {
			if q, ok := junkAfterNul(r, rw, m, false, int(sn)); ok {
				p, class = q, "v1-string-tail"
			}
		}
		stat("c08-" + class)
		var f frame.Frame
		if ver == 1 {
			f = &frame.V1Frame{SequenceNumber: r.byte(), SystemID: r.byte(), ComponentID: r.byte(), Message: &message.MessageRaw{ID: m.GetID(), Payload: p}}
		} else {
			f = &frame.V2Frame{CompatibilityFlag: byte(r.Intn(2)) * r.byte(), SequenceNumber: r.byte(), SystemID: r.byte(), ComponentID: r.byte(), Message: &message.MessageRaw{ID: m.GetID(), Payload: p}}
		}
		setChecksum(f, rw.CRCExtra())
		execOp(fmt.Sprintf("hop %s %s %d", dn, encStream(bytesItems(refFrameBytes(f))), hops))
		if i%4 == 0 {
			execOp(fmt.Sprintf("hop %s %s %d %s", dn, encStream(bytesItems(refFrameBytes(f))), hops, []string{"10.300", "6.300", "1", "3"}[r.Intn(4)]))
		}
		// edit + FixFrame: decoded message in a frame with stale checksum (and stale signature)
		var key string = "-"
		g := &frame.V2Frame{SequenceNumber: r.byte(), SystemID: r.byte(), ComponentID: r.byte(), Checksum: uint16(r.Intn(65536)), Message: randValue(r, m)}
		if r.bool() {
			key = hx(r.bytes(32))
			g.IncompatibilityFlag = 1
			g.SignatureLinkID = r.byte()
			g.SignatureTimestamp = r.ts48()
			sg := frame.V2Signature{1, 2, 3, 4, 5, 6}
			g.Signature = &sg
		}
		execOp(fmt.Sprintf("fix %s %s %s %d", dn, key, encFrame(g), 1+r.Intn(2)))
		stat("c08-fix")
		// a RECEIVED signed frame whose checksum is already right (nothing in header or payload was edited) but whose signature
		// was made by another key, or whose link id / timestamp the application changed: FixFrame must sign it again
		{
			val2 := randValue(r, m)
			raw2 := rw.Write(val2, true)
			h := &frame.V2Frame{IncompatibilityFlag: 1, SequenceNumber: r.byte(), SystemID: r.byte(), ComponentID: r.byte(),
				Message: &message.MessageRaw{ID: m.GetID(), Payload: raw2.Payload}, SignatureLinkID: r.byte(), SignatureTimestamp: r.ts48()}
			setChecksum(h, rw.CRCExtra())
			nodeKey := r.bytes(32)
			signKey := nodeKey
			if r.bool() {
				signKey = r.bytes(32) // signed upstream with another key
			}
			sign(h, signKey)
			if r.bool() { // the application edits the signature fields after receiving
				h.SignatureLinkID ^= 1 + r.byte()%255
				h.SignatureTimestamp = r.ts48()
			}
			hd := &frame.V2Frame{IncompatibilityFlag: 1, SequenceNumber: h.SequenceNumber, SystemID: h.SystemID, ComponentID: h.ComponentID,
				Message: val2, Checksum: h.Checksum, SignatureLinkID: h.SignatureLinkID, SignatureTimestamp: h.SignatureTimestamp, Signature: h.Signature}
			execOp(fmt.Sprintf("fix %s %s %s 2", dn, hx(nodeKey), encFrame(hd)))
			stat("c08-fix-resign")
		}
		// a v1 frame edited on a node of either version
		if m.GetID() <= 255 {
			g1 := &frame.V1Frame{SequenceNumber: r.byte(), SystemID: r.byte(), ComponentID: r.byte(), Checksum: uint16(r.Intn(65536)), Message: randValue(r, m)}
			execOp(fmt.Sprintf("fix %s - %s %d", dn, encFrame(g1), 1+r.Intn(2)))
			stat("c08-fix-v1")
		}
	}
}

// junkAfterNul: encodes a value whose string field is cut short, then writes non-zero bytes after the NUL.
func junkAfterNul(r *rngT, rw *message.ReadWriter, m message.Message, isV2 bool, size int) ([]byte, bool) {
	order, _, _ := rw.VerifLayout()
	_ = order
	// find a string field by probing: encode all-'x' strings vs empty strings and diff
	a := rw.Write(allOnes(m), false).Payload
	zero := decVals(m, "")
	bz := rw.Write(zero, false).Payload
	_ = bz
	full := allOnes(m)
	p := rw.Write(full, isV2).Payload
	p = append(p, make([]byte, size-len(p))...)
	// locate runs of 'x' (0x78) of length >= 2 that are string fields: set the first byte of the run to NUL
	for i := 0; i+1 < len(a) && i+1 < len(p); i++ {
		if a[i] == 'x' && a[i+1] == 'x' && (i == 0 || a[i-1] != 'x') {
			q := append([]byte(nil), p...)
			q[i] = 'a'
			if i+2 < len(q) && a[i+2] == 'x' {
				q[i+1] = 0
				q[i+2] = 'j'
			} else {
				continue
			}
			return q, true
		}
	}
	return nil, false
}
