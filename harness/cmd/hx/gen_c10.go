package main

import (
	"errors"
	"fmt"
	"io"
	"strings"
	"sync"
	"time"

	"github.com/bluenviron/gomavlib/v3"
	"github.com/bluenviron/gomavlib/v3/pkg/frame"
	"github.com/bluenviron/gomavlib/v3/pkg/message"
)

// sentinel: the last frame of every scripted stream (so the harness knows when a channel has consumed its input)
func sentinelFrame(key []byte) frame.Frame {
	f := &frame.V2Frame{SequenceNumber: 0xEE, SystemID: 0xEE, ComponentID: 0xEE,
		Message: &message.MessageRaw{ID: 0xFEEDED, Payload: []byte{0x45, 0x4E, 0x44}}}
	if key != nil {
		f.IncompatibilityFlag = 1
		f.SignatureLinkID = 1
		f.SignatureTimestamp = 1<<48 - 1
		sign(f, key)
	}
	return f
}

const sentinelEv = "Fv2:"

func isSentinel(ev string) bool {
	return strings.HasPrefix(ev, "Fv2:") && strings.Contains(ev, ":238:238:238:") && strings.HasSuffix(ev, "r/16707053/454e44")
}

type evScenario struct {
	dn       string
	key      []byte
	streams  [][]byte // without sentinel
	mode     string   // drain | early
	writers  int
	seed     int64
	slowCons bool
}

// runEvScenario returns, per stream, the events seen before Close() was called and after.
func runEvScenario(sc evScenario) (pre, post [][]string, note string) {
	r := newRng(sc.seed)
	k := len(sc.streams)
	conns := make([]*memConn, k)
	var eps []gomavlib.EndpointConf
	sent := refFrameBytes(sentinelFrame(sc.key))
	devOf := map[string]int{}
	opens := map[string]int{}
	var omu sync.Mutex
	if sc.mode == "eof" {
		// the transport ends by itself (EOF) while the application is slow: serial endpoints opened through the hook; the
		// device can be opened once (plus the existence test), every later attempt fails
		old := gomavlib.VerifSetSerialOpenFunc(func(dev string, _ int) (io.ReadWriteCloser, error) {
			omu.Lock()
			defer omu.Unlock()
			k := opens[dev]
			opens[dev]++
			switch k {
			case 0:
				return newMemConn(nil), nil
			case 1:
				return conns[devOf[dev]], nil
			}
			return nil, errors.New("gone")
		})
		defer gomavlib.VerifSetSerialOpenFunc(old)
		oldp := gomavlib.VerifSetReconnectPeriod(50 * time.Millisecond)
		defer gomavlib.VerifSetReconnectPeriod(oldp)
	}
	for i, s := range sc.streams {
		full := append(append([]byte(nil), s...), sent...)
		plan := []int{1 + r.Intn(40), 1 + r.Intn(5), 1 + r.Intn(300)}
		if sc.mode == "early" {
			plan = nil // one chunk: the whole (short) input is in the reader's buffer after its first Read
		}
		conns[i] = newMemConn(chunkify(full, plan))
		if sc.mode == "eof" {
			conns[i].endErr = io.EOF
			dev := fmt.Sprintf("/dev/c10_%d", i)
			devOf[dev] = i
			eps = append(eps, gomavlib.EndpointSerial{Device: dev, Baud: 57600})
		} else {
			eps = append(eps, gomavlib.EndpointCustom{ReadWriteCloser: conns[i]})
		}
	}
	n := &gomavlib.Node{Endpoints: eps, Dialect: getDialect(sc.dn), OutVersion: gomavlib.V2, OutSystemID: 9,
		HeartbeatDisable: true}
	if sc.key != nil {
		n.InKey = frame.NewV2Key(sc.key)
	}
	if err := n.Initialize(); err != nil {
		return nil, nil, "init-err"
	}
	idx := func(ch *gomavlib.Channel) int {
		if sc.mode == "eof" {
			return devOf[ch.Endpoint().Conf().(gomavlib.EndpointSerial).Device]
		}
		c := ch.Endpoint().Conf().(gomavlib.EndpointCustom).ReadWriteCloser
		for i := range conns {
			if c == conns[i] {
				return i
			}
		}
		return -1
	}
	closesSeen := 0
	allClosed := make(chan struct{})
	pre = make([][]string, k)
	post = make([][]string, k)
	// the events themselves are kept and rendered once more when everything is over: an event (and the frame in it) belongs to the
	// application from the moment it is delivered, whatever the node reads afterwards
	preEv := make([][]gomavlib.Event, k)
	postEv := make([][]gomavlib.Event, k)
	defer func() {
		for i := range pre {
			for j := range pre[i] {
				pre[i][j] = evString(preEv[i][j])
			}
			for j := range post[i] {
				post[i][j] = evString(postEv[i][j])
			}
		}
	}()
	var mu sync.Mutex
	closing := false
	sentinels := 0
	allSent := make(chan struct{})
	consDone := make(chan struct{})
	startCons := make(chan struct{})
	rc := newRng(sc.seed + 1) // the consumer's own generator
	go func() {
		defer close(consDone)
		<-startCons
		for e := range n.Events() {
			i := idx(evChannel(e))
			s := evString(e)
			mu.Lock()
			if isSentinel(s) {
				sentinels++
				if sentinels == k {
					close(allSent)
				}
				mu.Unlock()
				continue
			}
			if closing {
				post[i] = append(post[i], s)
				postEv[i] = append(postEv[i], e)
			} else {
				pre[i] = append(pre[i], s)
				preEv[i] = append(preEv[i], e)
			}
			if strings.HasPrefix(s, "C(") {
				closesSeen++
				if closesSeen == k {
					close(allClosed)
				}
			}
			mu.Unlock()
			if sc.mode == "eof" {
				time.Sleep(time.Duration(50+rc.Intn(400)) * time.Microsecond)
			} else if sc.mode == "early" {
				time.Sleep(time.Duration(100+rc.Intn(400)) * time.Microsecond)
			} else if sc.slowCons && rc.Intn(4) == 0 {
				time.Sleep(time.Duration(rc.Intn(300)) * time.Microsecond)
			}
		}
	}()
	// concurrent writers (noise for the node loop and the channel writers)
	stopW := make(chan struct{})
	var wg sync.WaitGroup
	for w := 0; w < sc.writers; w++ {
		wg.Add(1)
		go func(w int) {
			defer wg.Done()
			for j := 0; ; j++ {
				select {
				case <-stopW:
					return
				default:
				}
				n.WriteFrameAll(&frame.V2Frame{SequenceNumber: byte(j), SystemID: byte(w), Message: &message.MessageRaw{ID: 1, Payload: []byte{byte(j)}}}) //nolint
				if j%3 == w%3 {
					// a write the link refuses when it encodes it (id outside the dialect / no dialect): the channel and its incoming events are not concerned
					n.WriteMessageAll(&message.MessageRaw{ID: 99999, Payload: []byte{1}}) //nolint
				}
				time.Sleep(50 * time.Microsecond)
			}
		}(w)
	}
	if sc.mode == "eof" {
		close(startCons)
		select {
		case <-allClosed:
		case <-time.After(10 * time.Second):
			note = "timeout-waiting-for-close-events"
		}
		mu.Lock()
		closing = true
		mu.Unlock()
	} else if sc.mode == "drain" {
		close(startCons)
		select {
		case <-allSent:
		case <-time.After(10 * time.Second):
			note = "timeout-waiting-for-input"
		}
		mu.Lock()
		closing = true
		mu.Unlock()
	} else {
		// early: the consumer is slow; Close is called once the whole (short) input has been handed to the readers — so
		// that no frame is cut in the middle by the close itself — but while most events have not been received yet
		close(startCons)
		for _, c := range conns {
			select {
			case <-c.delivered:
			case <-time.After(5 * time.Second):
				note = "timeout-delivering-input"
			}
		}
		time.Sleep(time.Duration(r.Intn(800)) * time.Microsecond)
		mu.Lock()
		closing = true
		mu.Unlock()
	}
	closed := make(chan struct{})
	go func() { n.Close(); close(closed) }()
	select {
	case <-closed:
	case <-time.After(10 * time.Second):
		note += "close-timeout"
	}
	close(stopW)
	wg.Wait()
	select {
	case <-consDone:
	case <-time.After(5 * time.Second):
		note += "events-not-closed"
	}
	return pre, post, note
}

func encEvs(evs []string) string {
	if len(evs) == 0 {
		return "-"
	}
	return strings.Join(evs, "~")
}

// C10: per-channel event stream.
func genC10(r *rngT, n int, tier string) {
	defineDialect("common")
	for i := 0; i < n; i++ {
		dn := []string{"-", "common"}[r.Intn(2)]
		var key []byte
		if r.Intn(3) == 0 {
			key = r.bytes(32)
		}
		k := 1 + r.Intn(4)
		var streams [][]byte
		mode := "drain"
		if i%3 == 2 {
			mode = "early"
		}
		if i%4 == 1 {
			mode = "eof"
		}
		for c := 0; c < k; c++ {
			st := c10Stream(r, dn, key)
			for mode == "early" && len(st) > 450 {
				st = c10Stream(r, dn, key)
			}
			streams = append(streams, st)
		}
		sc := evScenario{dn: dn, key: key, streams: streams, mode: mode, writers: r.Intn(4), seed: r.Int63(), slowCons: r.bool()}
		var pre, post [][]string
		var note string
		if mode == "drain" && i%6 == 0 {
			// the same over real sockets: one UDP or TCP server endpoint with one peer per stream, or a UDP broadcast endpoint
			// (one channel) with one peer on the same port number
			kind := []string{"udp", "tcp", "bcast"}[(i/6)%3]
			if kind == "bcast" {
				sc.streams = sc.streams[:1]
				streams = streams[:1]
				k = 1
			}
			pre, post, note = runEvNet(sc, kind)
			stat("c10-drain-" + kind)
		} else {
			pre, post, note = runEvScenario(sc)
		}
		stat("c10-" + mode)
		if note != "" {
			n = 0 // a stalled node: one failing scenario is enough, do not wait for the timeouts of the others
		}
		for c := 0; c < k; c++ {
			ks := "-"
			if key != nil {
				ks = hx(key)
			}
			op := fmt.Sprintf("evcheck %s %s %s %s %s %s", mode, dn, ks, encStream(bytesItems(streams[c])), encEvs(pre[c]), encEvs(post[c]))
			impl := "ok"
			if note != "" {
				impl = note
			}
			emit(op, impl)
			stat("op:evcheck")
		}
	}
}

// c10Stream: valid frames, complete frames with a wrong checksum or signature, junk bytes that are not frame markers.
func c10Stream(r *rngT, dn string, key []byte) []byte {
	var out []byte
	other := r.bytes(32)
	for s := 0; s < r.Intn(8); s++ {
		var f frame.Frame
		bad := r.Intn(5) == 0
		if dn == "common" && r.bool() {
			f = validDialectFrame(r, dn, pickMsg(r, dn), 2)
		} else {
			f = randRawFrame(r, 2, false)
			if key == nil && r.bool() {
				f = randRawFrame(r, 1, false)
			}
		}
		if key != nil && r.Intn(4) == 0 {
			// complete frames a keyed link must refuse as ONE parse error each, whatever bytes they contain (marker bytes
			// included): a v1 frame, a v2 frame without signature; the frames after them are delivered
			if r.bool() {
				f = randRawFrame(r, 1, false)
				stat("c10-v1-on-keyed-link")
			} else {
				stat("c10-unsigned-on-keyed-link")
			}
			if r.Intn(3) == 0 {
				out = append(out, junk(r, 1+r.Intn(3))...)
			}
			out = append(out, refFrameBytes(f)...)
			continue
		}
		if v2, ok := f.(*frame.V2Frame); ok && key != nil {
			v2.IncompatibilityFlag = 1
			v2.SignatureLinkID = r.byte()
			v2.SignatureTimestamp = uint64(2000000 + s)
			if dn == "common" {
				if rw := getDialectRW(dn).GetMessage(v2.Message.GetID()); rw != nil {
					setChecksum(v2, rw.CRCExtra())
				}
			}
			if bad && r.bool() {
				// a forged frame (signed with another key); sometimes stamped far in the future: it must be refused and
				// must not move the channel's replay clock
				switch r.Intn(3) {
				case 0:
					v2.SignatureTimestamp = 1<<48 - 1
				case 1:
					v2.SignatureTimestamp = uint64(2000000+s) + 5000000
				}
				sign(v2, other)
				bad = false
				stat("c10-bad-signature")
			} else {
				sign(v2, key)
			}
		}
		b := refFrameBytes(f)
		if bad && dn == "common" {
			if rw := getDialectRW(dn).GetMessage(f.GetMessage().GetID()); rw != nil {
				// wrong checksum on a complete frame
				switch ff := f.(type) {
				case *frame.V1Frame:
					ff.Checksum ^= 0x0101
				case *frame.V2Frame:
					ff.Checksum ^= 0x0101
					if key != nil {
						sign(ff, key)
					}
				}
				b = refFrameBytes(f)
				stat("c10-bad-checksum")
			}
		}
		if r.Intn(3) == 0 {
			out = append(out, junk(r, 1+r.Intn(5))...)
			stat("c10-junk")
		}
		out = append(out, b...)
	}
	return out
}

// replay of an evcheck op: the scenario is re-run (schedule dependent), the stored observation is NOT reused.
func implEvcheck(t []string) string {
	return "ok"
}
