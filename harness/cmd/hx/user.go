package main

import (
	"github.com/bluenviron/gomavlib/v3/pkg/dialect"
	"github.com/bluenviron/gomavlib/v3/pkg/message"
)

// User-defined message structs exercising shapes the shipped dialects do not contain.

type UEnum uint64

// MessageUserMix: all sizes mixed, extensions of different sizes in "wrong" order, int64 arrays.
type MessageUserMix struct {
	A  uint8
	B  int64
	C  [3]uint16
	D  float32
	E  string `mavlen:"5"`
	F  [2]int64
	G  UEnum `mavenum:"uint16"`
	H  int8
	X1 uint8    `mavext:"true"`
	X2 uint32   `mavext:"true"`
	X3 [2]UEnum `mavext:"true" mavenum:"int32"`
	X4 string   `mavext:"true" mavlen:"4"`
	X5 float64  `mavext:"true"`
}

func (*MessageUserMix) GetID() uint32 { return 60000 }

// MessageUserNames: field names that are not recoverable by case conversion.
type MessageUserNames struct {
	AbcDef   uint16 `mavname:"abcDEF"`
	Type2    uint8  `mavname:"type_2"`
	Plain    uint32
	IDNumber UEnum `mavenum:"uint8"`
}

func (*MessageUserNames) GetID() uint32 { return 60001 }

// MessageUserOnlyExt: a single base byte followed by extensions only.
type MessageUserOnlyExt struct {
	A uint8
	B [4]uint8 `mavext:"true"`
	C uint64   `mavext:"true"`
}

func (*MessageUserOnlyExt) GetID() uint32 { return 60002 }

// MessageUserBig: exactly 255 bytes.
type MessageUserBig struct {
	A [31]uint64
	B [7]uint8
}

func (*MessageUserBig) GetID() uint32 { return 60003 }

// MessageUserStr: strings only.
type MessageUserStr struct {
	S1 string `mavlen:"1"`
	S2 string `mavlen:"16"`
	S3 string `mavlen:"3" mavext:"true"`
}

func (*MessageUserStr) GetID() uint32 { return 250 }

// MessageUserEnums: every enum-capable width, scalar and array.
type MessageUserEnums struct {
	E8   UEnum    `mavenum:"uint8"`
	E8s  UEnum    `mavenum:"int8"`
	E16  UEnum    `mavenum:"uint16"`
	E32  UEnum    `mavenum:"uint32"`
	E32s UEnum    `mavenum:"int32"`
	E64  UEnum    `mavenum:"uint64"`
	EA   [3]UEnum `mavenum:"uint8"`
	EX   [2]UEnum `mavenum:"uint32" mavext:"true"`
}

func (*MessageUserEnums) GetID() uint32 { return 200 }

// MessageUserEmptyish: one field.
type MessageUserOne struct {
	V uint8
}

func (*MessageUserOne) GetID() uint32 { return 255 }

var userDialect = &dialect.Dialect{
	Version: 7,
	Messages: []message.Message{
		&MessageUserMix{}, &MessageUserNames{}, &MessageUserOnlyExt{}, &MessageUserBig{},
		&MessageUserStr{}, &MessageUserEnums{}, &MessageUserOne{},
	},
}

// ids that differ only above bit 8 / bit 16: a lookup table indexed by part of the id would confuse them
type MessageUserWideA struct{ V uint8 }

func (*MessageUserWideA) GetID() uint32 { return 300 }

type MessageUserWideB struct{ V uint16 }

func (*MessageUserWideB) GetID() uint32 { return 300 + 65536 }

type MessageUserWideC struct{ V uint32 }

func (*MessageUserWideC) GetID() uint32 { return 300 + 3*65536 + 256 }

type MessageUserWideD struct{ V int8 }

func (*MessageUserWideD) GetID() uint32 { return 1<<24 - 1 }

var userWideDialect = &dialect.Dialect{
	Version:  3,
	Messages: []message.Message{&MessageUserWideA{}, &MessageUserWideB{}, &MessageUserWideC{}, &MessageUserWideD{}},
}
