package main

import (
	"bytes"
	"fmt"
	"os"
	"os/exec"
	"path/filepath"
	"sort"
	"strconv"
	"strings"

	"github.com/bluenviron/gomavlib/v3/pkg/conversion"
)

// C18: the dialect generator.
//
//   gencheck <set>      <set> is an abstract description of a set of dialect XML files (root first). The harness renders the
//                       XML, runs conversion.Convert (twice: determinism), compiles the generated package together with a
//                       probe program, runs it, and answers with what the COMPILED generated code says: dialect version,
//                       and per message id, name, CRC_EXTRA, sizes and wire order; per enum entry its value.
//
// Encoding of a set: files separated by "|"; a file is  name;version;includes;enums;messages
//   includes: comma separated file names ("-" = none)
//   enums:    "/"-separated  NAME:bitmask(0|1):ENTRY=value,ENTRY=value      ("-" = none)
//   messages: "/"-separated  id:NAME:field~field~...   field = type,name,enum,ext(0|1)   (enum "-" = none)

type xField struct {
	ty, name, enum string
	ext            bool
}
type xMsg struct {
	id     int
	name   string
	fields []xField
}
type xEntry struct{ name, value string }
type xEnum struct {
	name    string
	bitmask bool
	entries []xEntry
}
type xFile struct {
	name, version string
	includes      []string
	enums         []xEnum
	msgs          []xMsg
}

func encSet(fs []xFile) string {
	var out []string
	for _, f := range fs {
		var es, ms []string
		for _, e := range f.enums {
			var en []string
			for _, x := range e.entries {
				en = append(en, x.name+"="+x.value)
			}
			b := "0"
			if e.bitmask {
				b = "1"
			}
			es = append(es, e.name+":"+b+":"+strings.Join(en, ","))
		}
		for _, m := range f.msgs {
			var fl []string
			for _, x := range m.fields {
				e := "0"
				if x.ext {
					e = "1"
				}
				fl = append(fl, x.ty+","+x.name+","+dash(x.enum)+","+e)
			}
			ms = append(ms, fmt.Sprintf("%d:%s:%s", m.id, m.name, strings.Join(fl, "~")))
		}
		out = append(out, strings.Join([]string{f.name, dash(f.version), dash(strings.Join(f.includes, ",")),
			dash(strings.Join(es, "/")), dash(strings.Join(ms, "/"))}, ";"))
	}
	return strings.Join(out, "|")
}

func undash(s string) string {
	if s == "-" {
		return ""
	}
	return s
}

func decSet(s string) []xFile {
	var fs []xFile
	for _, fl := range strings.Split(s, "|") {
		p := strings.Split(fl, ";")
		f := xFile{name: p[0], version: undash(p[1])}
		if p[2] != "-" {
			f.includes = strings.Split(p[2], ",")
		}
		if p[3] != "-" {
			for _, e := range strings.Split(p[3], "/") {
				q := strings.SplitN(e, ":", 3)
				en := xEnum{name: q[0], bitmask: q[1] == "1"}
				if q[2] != "" {
					for _, x := range strings.Split(q[2], ",") {
						kv := strings.SplitN(x, "=", 2)
						en.entries = append(en.entries, xEntry{kv[0], kv[1]})
					}
				}
				f.enums = append(f.enums, en)
			}
		}
		if p[4] != "-" {
			for _, m := range strings.Split(p[4], "/") {
				q := strings.SplitN(m, ":", 3)
				id, _ := strconv.Atoi(q[0])
				msg := xMsg{id: id, name: q[1]}
				if q[2] != "" {
					for _, x := range strings.Split(q[2], "~") {
						t := strings.Split(x, ",")
						msg.fields = append(msg.fields, xField{ty: t[0], name: t[1], enum: undash(t[2]), ext: t[3] == "1"})
					}
				}
				f.msgs = append(f.msgs, msg)
			}
		}
		fs = append(fs, f)
	}
	return fs
}

func renderXML(f xFile) string {
	var b strings.Builder
	b.WriteString("<?xml version=\"1.0\"?>\n<mavlink>\n")
	for _, i := range f.includes {
		fmt.Fprintf(&b, "  <include>%s.xml</include>\n", i)
	}
	if f.version != "" {
		fmt.Fprintf(&b, "  <version>%s</version>\n", f.version)
	}
	b.WriteString("  <dialect>0</dialect>\n  <enums>\n")
	for _, e := range f.enums {
		bm := ""
		if e.bitmask {
			bm = " bitmask=\"true\""
		}
		fmt.Fprintf(&b, "    <enum name=\"%s\"%s>\n      <description>An enum.\n  Second line.</description>\n", e.name, bm)
		for _, x := range e.entries {
			fmt.Fprintf(&b, "      <entry value=\"%s\" name=\"%s\">\n        <description>entry</description>\n        <param index=\"1\">p</param>\n      </entry>\n", x.value, x.name)
		}
		b.WriteString("    </enum>\n")
	}
	b.WriteString("  </enums>\n  <messages>\n")
	for _, m := range f.msgs {
		fmt.Fprintf(&b, "    <message id=\"%d\" name=\"%s\">\n      <description>A message.</description>\n", m.id, m.name)
		switch m.id % 4 { // elements of the schema the generator must skip without losing its place
		case 1:
			b.WriteString("      <wip/>\n")
		case 2:
			b.WriteString("      <deprecated since=\"2020-01\" replaced_by=\"OTHER\">Replaced.</deprecated>\n")
		}
		ext := false
		for _, x := range m.fields {
			if x.ext && !ext {
				b.WriteString("      <extensions/>\n")
				ext = true
			}
			en := ""
			if x.enum != "" {
				en = fmt.Sprintf(" enum=\"%s\"", x.enum)
			}
			if len(x.name)%3 == 0 {
				fmt.Fprintf(&b, "      <field type=\"%s\" name=\"%s\"%s units=\"m\" invalid=\"UINT16_MAX\">A field with <b>markup</b> inside.</field>\n", x.ty, x.name, en)
			} else {
				fmt.Fprintf(&b, "      <field type=\"%s\" name=\"%s\"%s units=\"m\">A field.</field>\n", x.ty, x.name, en)
			}
		}
		b.WriteString("    </message>\n")
	}
	b.WriteString("  </messages>\n</mavlink>\n")
	return b.String()
}

func pkgNameOf(file string) string {
	return strings.ToLower(strings.ReplaceAll(file, "_", ""))
}

// convertInto renders the files into dir, runs Convert on the root and returns the directory of the generated package.
func convertInto(dir string, fs []xFile) (string, error) {
	os.RemoveAll(dir)
	if err := os.MkdirAll(dir, 0o755); err != nil {
		return "", err
	}
	for _, f := range fs {
		if err := os.WriteFile(filepath.Join(dir, f.name+".xml"), []byte(renderXML(f)), 0o644); err != nil {
			return "", err
		}
	}
	old, _ := os.Getwd()
	defer os.Chdir(old) //nolint
	if err := os.Chdir(dir); err != nil {
		return "", err
	}
	stderr := os.Stderr
	os.Stderr, _ = os.Open(os.DevNull) // Convert prints progress to stderr
	err := func() (err error) {
		defer func() {
			if r := recover(); r != nil {
				err = fmt.Errorf("panic: %v", r)
			}
		}()
		return conversion.Convert(fs[0].name+".xml", false)
	}()
	os.Stderr = stderr
	if err != nil && os.Getenv("HX_DEBUG") != "" {
		fmt.Fprintln(os.Stderr, "convert:", err)
	}
	return filepath.Join(dir, pkgNameOf(fs[0].name)), err
}

func dirContents(dir string) string {
	var names []string
	entries, _ := os.ReadDir(dir)
	for _, e := range entries {
		names = append(names, e.Name())
	}
	sort.Strings(names)
	var b bytes.Buffer
	for _, n := range names {
		c, _ := os.ReadFile(filepath.Join(dir, n))
		fmt.Fprintf(&b, "== %s\n%s", n, c)
	}
	return b.String()
}

// all enum entries of the set, merged by enum name in processing order (for the probe program)
func allEntries(fs []xFile) []string {
	var out []string
	seen := map[string]bool{}
	for _, f := range fs {
		for _, e := range f.enums {
			for _, x := range e.entries {
				if !seen[x.name] {
					seen[x.name] = true
					out = append(out, x.name)
				}
			}
		}
	}
	return out
}

// entry name -> name of its enum type
func entryEnum(fs []xFile) map[string]string {
	m := map[string]string{}
	for _, f := range fs {
		for _, e := range f.enums {
			for _, x := range e.entries {
				if _, ok := m[x.name]; !ok {
					m[x.name] = e.name
				}
			}
		}
	}
	return m
}

var gen18Root string

func gen18Dir() string {
	if gen18Root == "" {
		exe, _ := os.Executable()
		gen18Root = filepath.Join(filepath.Dir(exe), "gen18", fmt.Sprint(os.Getpid()))
	}
	return gen18Root
}

const probeMain = `package main

import (
	"fmt"
	"reflect"
	"sort"
	"strings"

	"github.com/bluenviron/gomavlib/v3/pkg/dialect"
	"github.com/bluenviron/gomavlib/v3/pkg/message"
%s
)

func describe(d *dialect.Dialect) string {
	var out []string
	drw := &dialect.ReadWriter{Dialect: d}
	if err := drw.Initialize(); err != nil {
		return "DIALECT-INIT-ERR:" + strings.ReplaceAll(err.Error(), " ", "_")
	}
	out = append(out, fmt.Sprintf("v=%%d", d.Version))
	msgs := append([]message.Message(nil), d.Messages...)
	sort.SliceStable(msgs, func(i, j int) bool { return msgs[i].GetID() < msgs[j].GetID() })
	for _, m := range msgs {
		rw := &message.ReadWriter{Message: m}
		if err := rw.Initialize(); err != nil {
			out = append(out, fmt.Sprintf("M%%d:INIT-ERR", m.GetID()))
			continue
		}
		order, sn, se := rw.VerifLayout()
		t := reflect.TypeOf(m).Elem()
		var fs []string
		for _, i := range order {
			ext := 0
			if t.Field(i).Tag.Get("mavext") == "true" {
				ext = 1
			}
			fs = append(fs, fmt.Sprintf("%%d.%%d", i, ext))
		}
		out = append(out, fmt.Sprintf("M%%d:%%d:%%d:%%d:%%s", m.GetID(), rw.CRCExtra(), sn, se, strings.Join(fs, ",")))
	}
	return strings.Join(out, ";")
}

type textEnum interface {
	MarshalText() ([]byte, error)
}
type textEnumP interface {
	UnmarshalText([]byte) error
}

// textOK: text form of a constant of generated code (C19 on generated code). An ordinary enum: the constant is rendered as its
// XML name and the name parses back to it. A bitmask enum: the constant, and its union with every other entry and with all of
// them, is rendered as the names of exactly the entries it contains, joined by " | ", and that text parses back to the value.
func textOK(v textEnum, p textEnumP, name string, bitmask bool, names []string, vals []uint64) string {
	x := reflect.ValueOf(v).Uint()
	if x == 0 {
		return "T" // zero of a bitmask enum is rendered as 0: not judged here
	}
	if !bitmask {
		b, err := v.MarshalText()
		if err != nil || string(b) != name {
			return "F(marshal=" + string(b) + ")"
		}
		reflect.ValueOf(p).Elem().SetUint(0xA5A5A5A5A5A5A5A5)
		if err := p.UnmarshalText([]byte(name)); err != nil {
			return "F(unmarshal-error)"
		}
		if reflect.ValueOf(p).Elem().Uint() != x {
			return "F(unmarshal-value)"
		}
		return "T"
	}
	all := x
	cands := []uint64{x}
	for _, o := range vals {
		cands = append(cands, x|o)
		all |= o
	}
	cands = append(cands, all)
	for _, c := range cands {
		q := reflect.New(reflect.TypeOf(v)).Elem()
		q.SetUint(c)
		b, err := q.Interface().(textEnum).MarshalText()
		if err != nil {
			return "F(marshal-error)"
		}
		want := map[string]bool{}
		for i, o := range vals {
			if o != 0 && c&o == o {
				want[names[i]] = true
			}
		}
		got := map[string]bool{}
		for _, part := range strings.Split(string(b), " | ") {
			got[part] = true
		}
		if len(got) != len(want) {
			return fmt.Sprintf("F(marshal %%d=%%s)", c, b)
		}
		for k := range want {
			if !got[k] {
				return fmt.Sprintf("F(marshal %%d=%%s)", c, b)
			}
		}
		// the destination holds whatever the application had there before: the parsed value replaces it
		reflect.ValueOf(p).Elem().SetUint(0xA5A5A5A5A5A5A5A5)
		if err := p.UnmarshalText(b); err != nil {
			return fmt.Sprintf("F(unmarshal-error %%s)", b)
		}
		if reflect.ValueOf(p).Elem().Uint() != c {
			return fmt.Sprintf("F(unmarshal %%s=%%d)", b, reflect.ValueOf(p).Elem().Uint())
		}
	}
	return "T"
}

func main() {
%s
}
`

// bitmaskOf: enum name -> declared with bitmask="true" in some file of the set
func bitmaskOf(fs []xFile) map[string]bool {
	out := map[string]bool{}
	for _, f := range fs {
		for _, e := range f.enums {
			if e.bitmask {
				out[e.name] = true
			}
		}
	}
	return out
}

type genJob struct {
	op    string
	fs    []xFile
	impl  string
	pkg   string // directory of the generated package ("" when Convert failed)
	k     int
	files []string // names of the generated files
}

// genfilesOp: the names of the files the generator wrote for a set, with the names of the definitions they hold; judged by the
// driver (model: the names `goFileName` gives; specification: every file is a plain source file for the go tool, one per definition)
func genfilesOp(j *genJob) string {
	var ms, es []string
	seen := map[string]bool{}
	for _, f := range j.fs {
		for _, m := range f.msgs {
			ms = append(ms, m.name)
		}
		for _, e := range f.enums {
			if !seen[e.name] {
				seen[e.name] = true
				es = append(es, e.name)
			}
		}
	}
	return fmt.Sprintf("genfiles %s %s %s", dash(strings.Join(ms, ",")), dash(strings.Join(es, ",")), dash(strings.Join(j.files, ",")))
}

// runGenBatch converts every set, then compiles and runs one probe program for all of them.
func runGenBatch(jobs []*genJob) {
	root := gen18Dir()
	mod := filepath.Join(root, "mod")
	os.RemoveAll(mod)
	os.MkdirAll(mod, 0o755) //nolint
	for _, j := range jobs {
		d1 := filepath.Join(root, fmt.Sprintf("w%d_a", j.k))
		d2 := filepath.Join(root, fmt.Sprintf("w%d_b", j.k))
		p1, err1 := convertInto(d1, j.fs)
		p2, err2 := convertInto(d2, j.fs)
		if err1 != nil || err2 != nil {
			j.impl = "ERR"
			continue
		}
		if dirContents(p1) != dirContents(p2) {
			j.impl = "NONDETERMINISTIC"
			continue
		}
		j.pkg = p1
		entries, _ := os.ReadDir(p1)
		for _, e := range entries {
			j.files = append(j.files, e.Name())
		}
		sort.Strings(j.files)
	}
	build := func(sel []*genJob) (string, bool) {
		os.RemoveAll(mod)
		os.MkdirAll(mod, 0o755) //nolint
		var imports, body []string
		for _, j := range sel {
			dst := filepath.Join(mod, fmt.Sprintf("d%d", j.k), filepath.Base(j.pkg))
			os.MkdirAll(dst, 0o755) //nolint
			entries, _ := os.ReadDir(j.pkg)
			for _, e := range entries {
				c, _ := os.ReadFile(filepath.Join(j.pkg, e.Name()))
				os.WriteFile(filepath.Join(dst, e.Name()), c, 0o644) //nolint
			}
			alias := fmt.Sprintf("p%d", j.k)
			imports = append(imports, fmt.Sprintf("\t%s \"gen18/d%d/%s\"", alias, j.k, filepath.Base(j.pkg)))
			var ents []string
			ee := entryEnum(j.fs)
			for _, e := range allEntries(j.fs) {
				// value of the constant, and whether its text form is its XML name and parses back to it (C19 on generated code)
				// all the entries of the enum this entry belongs to (merged over the files that extend it)
				var ns, vs []string
				for _, o := range allEntries(j.fs) {
					if ee[o] == ee[e] {
						ns = append(ns, fmt.Sprintf("%q", o))
						vs = append(vs, fmt.Sprintf("uint64(%s.%s)", alias, o))
					}
				}
				ents = append(ents, fmt.Sprintf("fmt.Sprintf(\"%s=%%d:%%s\", uint64(%s.%s), textOK(%s.%s, new(%s.%s), %q, %v, []string{%s}, []uint64{%s}))",
					e, alias, e, alias, e, alias, ee[e], e, bitmaskOf(j.fs)[ee[e]], strings.Join(ns, ", "), strings.Join(vs, ", ")))
			}
			es := "\"\""
			if len(ents) > 0 {
				es = "strings.Join([]string{" + strings.Join(ents, ", ") + "}, \",\")"
			}
			body = append(body, fmt.Sprintf("\tfmt.Println(\"#%d\", describe(%s.Dialect)+\";E:\"+%s)", j.k, alias, es))
		}
		os.WriteFile(filepath.Join(mod, "main.go"), []byte(fmt.Sprintf(probeMain, strings.Join(imports, "\n"), strings.Join(body, "\n"))), 0o644)                                                        //nolint
		os.WriteFile(filepath.Join(mod, "go.mod"), []byte("module gen18\n\ngo 1.23\n\nrequire github.com/bluenviron/gomavlib/v3 v3.0.0\n\nreplace github.com/bluenviron/gomavlib/v3 => /repo\n"), 0o644) //nolint
		sum, _ := os.ReadFile("/repo/go.sum")
		os.WriteFile(filepath.Join(mod, "go.sum"), sum, 0o644) //nolint
		cmd := exec.Command("go", "run", "-tags", "verif", ".")
		cmd.Dir = mod
		cmd.Env = append(os.Environ(), "GOFLAGS=-mod=mod", "GOPROXY=off", "GOSUMDB=off", "GOTOOLCHAIN=local")
		var stdout, stderr bytes.Buffer
		cmd.Stdout, cmd.Stderr = &stdout, &stderr
		if err := cmd.Run(); err != nil {
			return stderr.String(), false
		}
		return stdout.String(), true
	}
	var sel []*genJob
	for _, j := range jobs {
		if j.pkg != "" {
			sel = append(sel, j)
		}
	}
	parse := func(out string, sel []*genJob) {
		for _, l := range strings.Split(out, "\n") {
			if !strings.HasPrefix(l, "#") {
				continue
			}
			sp := strings.SplitN(l[1:], " ", 2)
			k, _ := strconv.Atoi(sp[0])
			for _, j := range sel {
				if j.k == k && len(sp) == 2 {
					j.impl = sp[1]
				}
			}
		}
	}
	if len(sel) > 0 {
		out, ok := build(sel)
		if ok {
			parse(out, sel)
		} else {
			// something does not compile (or panics at start-up): find out which, one at a time
			for _, j := range sel {
				out, ok := build([]*genJob{j})
				if ok {
					parse(out, []*genJob{j})
				} else {
					msg := ""
					for _, l := range strings.Split(out, "\n") {
						if strings.Contains(l, ".go:") || strings.Contains(l, "panic") {
							msg = l
							break
						}
					}
					j.impl = "NOCOMPILE:" + noteTok(msg)
				}
			}
		}
	}
	for _, j := range jobs {
		if j.impl == "" {
			j.impl = "NO-OUTPUT"
		}
	}
	os.RemoveAll(root)
}

func implGencheck(t []string) string {
	j := &genJob{op: strings.Join(t, " "), fs: decSet(t[1]), k: 0}
	runGenBatch([]*genJob{j})
	return j.impl
}

// ---------------------------------------------------------------- generator of dialect sets

var xmlTypes = []string{"double", "uint64_t", "int64_t", "float", "uint32_t", "int32_t", "uint16_t", "int16_t", "uint8_t", "int8_t", "char"}
var xmlTypeSize = map[string]int{"double": 8, "uint64_t": 8, "int64_t": 8, "float": 4, "uint32_t": 4, "int32_t": 4, "uint16_t": 2,
	"int16_t": 2, "uint8_t": 1, "int8_t": 1, "char": 1, "uint8_t_mavlink_version": 1}

func randFieldName(r *rngT, used map[string]bool) string {
	words := []string{"x", "y", "lat", "lon", "alt", "time", "usec", "boot", "ms", "id", "type", "mode", "vx", "q", "target", "system",
		"count", "seq", "data", "len", "flags", "temp", "raw", "abs", "press", "diff", "v2", "2d", "imu"}
	for {
		var n string
		switch r.Intn(10) {
		case 0: // camelCase / capitals: needs a mavname tag
			n = words[r.Intn(len(words))] + strings.ToUpper(words[r.Intn(len(words))])
		case 1: // capitalised word
			w := words[r.Intn(len(words))]
			n = strings.ToUpper(w[:1]) + w[1:] + "_" + words[r.Intn(len(words))]
		case 2: // double underscore
			n = words[r.Intn(len(words))] + "__" + words[r.Intn(len(words))]
		case 3: // trailing underscore / digit parts
			n = words[r.Intn(len(words))] + "_" + fmt.Sprint(r.Intn(10))
		case 4:
			n = words[r.Intn(len(words))] + fmt.Sprint(r.Intn(10)) + "_" + words[r.Intn(len(words))]
		default:
			k := 1 + r.Intn(3)
			var ws []string
			for i := 0; i < k; i++ {
				ws = append(ws, words[r.Intn(len(words))])
			}
			n = strings.Join(ws, "_")
		}
		if n[0] >= '0' && n[0] <= '9' {
			continue // not an identifier
		}
		// the Go names must be distinct too
		key := strings.ToLower(strings.ReplaceAll(n, "_", ""))
		if !used[key] {
			used[key] = true
			return n
		}
	}
}

func randMsgName(r *rngT, used map[string]bool) string {
	words := []string{"GPS", "RAW", "INT", "ATT", "POS", "SCALED", "IMU2", "STATUS", "SYS", "CMD", "LONG", "ACK", "PARAM", "SET", "V2", "EXT",
		"HIL", "STATE", "Q", "RC", "OUT", "3D", "ESC"}
	for {
		k := 1 + r.Intn(3)
		var ws []string
		for i := 0; i < k; i++ {
			ws = append(ws, words[r.Intn(len(words))])
		}
		if r.Intn(6) == 0 {
			// names whose lower-case form ends like a file name the go tool interprets (x_test.go, x_windows.go, x_arm.go)
			ws = append(ws, goToolWords[r.Intn(len(goToolWords))])
		}
		n := strings.Join(ws, "_")
		if n[0] >= '0' && n[0] <= '9' {
			continue
		}
		key := strings.ToLower(strings.ReplaceAll(n, "_", ""))
		if !used[key] {
			used[key] = true
			return n
		}
	}
}

// last name elements that mean something to the go tool when they end a file name: test files, GOOS and GOARCH values
var goToolWords = []string{"TEST", "WINDOWS", "LINUX", "DARWIN", "JS", "IOS", "ANDROID", "PLAN9", "ARM", "ARM64", "386", "AMD64", "WASM", "MIPS",
	"S390X", "PPC64", "RISCV64", "ZOS", "AIX", "WASIP1"}

func randEnumValue(r *rngT, bitmask bool, i int) (string, uint64) {
	var v uint64
	if bitmask {
		// the first flags in order, then flags anywhere in the 64 bits (distinct positions: i, 8+i*7 ...)
		pos := uint(i)
		if i >= 2 && r.bool() {
			pos = uint(8 + i*11)
		}
		v = uint64(1) << pos
		if r.Intn(3) == 0 {
			return fmt.Sprintf("2**%d", pos), v
		}
	} else {
		v = uint64(i*3 + r.Intn(3))
		if r.Intn(6) == 0 { // large values, distinct per position
			v = uint64(1)<<uint(20+i*8) + uint64(r.Intn(1000))
		}
		if r.Intn(7) == 0 {
			// power syntax with a base other than two (a prime per position: distinct by construction), results over the whole
			// 64-bit range: beyond 2^53 only integer arithmetic gives the value the XML states
			primes := []uint64{3, 5, 7, 11, 13, 17, 19, 23, 29, 31, 37, 41}
			b := primes[i%len(primes)]
			emax := 0
			for p := b; p <= ^uint64(0)/b; p *= b {
				emax++
			}
			emax++ // b**emax < 2^64 <= b**(emax+1)
			e := emax - r.Intn(5)
			if r.Intn(4) == 0 {
				e = 2 + r.Intn(emax-1)
			}
			p := uint64(1)
			for k := 0; k < e; k++ {
				p *= b
			}
			if p > 40 { // small values belong to the decimal entries
				return fmt.Sprintf("%d**%d", b, e), p
			}
		}
	}
	switch r.Intn(5) {
	case 0:
		return fmt.Sprintf("0x%X", v), v
	case 1:
		return "0b" + strconv.FormatUint(v, 2), v
	case 2:
		if bitmask {
			return fmt.Sprintf("2**%d", i), v
		}
	}
	if r.Intn(4) == 0 {
		// mavschema.xsd: a run of digits is a decimal number, leading zeros included ("010" is ten)
		return strings.Repeat("0", 1+r.Intn(2)) + strconv.FormatUint(v, 10), v
	}
	return strconv.FormatUint(v, 10), v
}

func genDialectSet(r *rngT, serial int) []xFile {
	nf := 1 + r.Intn(4)
	fs := make([]xFile, nf)
	names := []string{"root_dialect", "common_base", "extra", "vendor_x"}
	msgNames := map[string]bool{}
	ids := map[int]bool{}
	entryNames := map[string]bool{}
	enumIsBitmask := map[string]bool{}
	var enumNames []string
	enumInt := []string{"uint8_t", "uint16_t", "uint32_t", "int32_t", "uint64_t", "int8_t"}
	for i := range fs {
		fs[i].name = names[i]
		if i == 0 && nf == 1 && r.bool() {
			fs[i].name = "Solo_Dialect"
		}
		if r.Intn(3) != 0 {
			fs[i].version = fmt.Sprint(r.Intn(10)) // an explicit 0 is a version too (it overrides what the includes say)
		}
	}
	if nf >= 2 && r.Intn(4) == 0 {
		// different files whose names differ only by underscores or case (radio_link.xml / radiolink.xml), an include named almost
		// like the converted file: they are different files, each is processed
		j := 1 + r.Intn(nf-1)
		o := r.Intn(nf)
		if o == j {
			o = 0
		}
		base := fs[o].name
		switch r.Intn(3) {
		case 0:
			fs[j].name = strings.ReplaceAll(base, "_", "")
		case 1:
			fs[j].name = strings.ToUpper(base[:1]) + base[1:]
		default:
			fs[j].name = strings.Replace(base, "_", "__", 1)
		}
		if fs[j].name == base {
			fs[j].name = base + "_"
		}
	}
	// include graph: a DAG over file indexes (i includes j only if j > i), every file reachable from the root; diamonds welcome
	for j := 1; j < nf; j++ {
		p := r.Intn(j)
		fs[p].includes = append(fs[p].includes, fs[j].name)
		if j >= 2 && r.bool() { // a second parent: a diamond
			q := r.Intn(j)
			if q != p {
				fs[q].includes = append(fs[q].includes, fs[j].name)
			}
		}
	}
	// files reachable through includes (an enum can only be extended by a file that, directly or not, includes its definition)
	idxOf := map[string]int{}
	for i := range fs {
		idxOf[fs[i].name] = i
	}
	reach := make([]map[int]bool, nf)
	for i := nf - 1; i >= 0; i-- {
		reach[i] = map[int]bool{}
		for _, inc := range fs[i].includes {
			j := idxOf[inc]
			reach[i][j] = true
			for k := range reach[j] {
				reach[i][k] = true
			}
		}
	}
	enumFile := map[string]int{}
	// enums are defined bottom-up so that fields can refer to enums of included files
	for i := nf - 1; i >= 0; i-- {
		for e := 0; e < r.Intn(3); e++ {
			en := xEnum{name: fmt.Sprintf("ENUM_%d_%c", serial%1000, 'A'+len(enumNames)), bitmask: r.Intn(3) == 0}
			if r.Intn(6) == 0 {
				en.name += "_" + goToolWords[r.Intn(len(goToolWords))]
			}
			var nums []uint64
			for k := 0; k < 1+r.Intn(5); k++ {
				vs, v := randEnumValue(r, en.bitmask, k)
				nm := fmt.Sprintf("%s_E%d", en.name, k)
				entryNames[nm] = true
				en.entries = append(en.entries, xEntry{nm, vs})
				nums = append(nums, v)
			}
			if en.bitmask && len(nums) >= 2 && r.bool() {
				// entries that name a group of flags (MASK = LOW | HIGH), declared after or before the flags they contain, and groups
				// that overlap each other: a value containing a group is rendered with the group's name and the names of its flags
				var groups []xEntry
				groups = append(groups, xEntry{en.name + "_G0", fmt.Sprint(nums[0] | nums[1])})
				if len(nums) >= 3 {
					groups = append(groups, xEntry{en.name + "_G1", fmt.Sprintf("0x%X", nums[1]|nums[2])})
				}
				for _, g := range groups {
					entryNames[g.name] = true
				}
				if r.bool() {
					en.entries = append(en.entries, groups...)
				} else {
					en.entries = append(groups, en.entries...)
				}
			}
			fs[i].enums = append(fs[i].enums, en)
			enumNames = append(enumNames, en.name)
			enumIsBitmask[en.name] = en.bitmask
			enumFile[en.name] = i
		}
		// an enum extended by a later-processed (including) file: same name, further entries
		var extendable []string
		for _, en := range enumNames {
			if reach[i][enumFile[en]] {
				extendable = append(extendable, en)
			}
		}
		if len(extendable) > 0 && r.Intn(3) == 0 {
			base := extendable[r.Intn(len(extendable))]
			en := xEnum{name: base}
			for k := 0; k < 1+r.Intn(2); k++ {
				nm := fmt.Sprintf("%s_X%d_%d", base, i, k)
				if entryNames[nm] {
					continue
				}
				entryNames[nm] = true
				if enumIsBitmask[base] {
					// a bitmask enum is extended by further flags
					en.entries = append(en.entries, xEntry{nm, fmt.Sprint(uint64(1) << uint(56+2*i+k))})
				} else {
					en.entries = append(en.entries, xEntry{nm, fmt.Sprint(1000 + 10*i + k)})
				}
			}
			if len(en.entries) > 0 {
				fs[i].enums = append(fs[i].enums, en)
			}
		}
	}
	for i := range fs {
		nm := 1 + r.Intn(4)
		for m := 0; m < nm; m++ {
			msg := xMsg{name: randMsgName(r, msgNames)}
			for {
				msg.id = r.Intn(400)
				if r.Intn(5) == 0 {
					msg.id = 256 + r.Intn(1<<16)
				}
				if !ids[msg.id] {
					ids[msg.id] = true
					break
				}
			}
			used := map[string]bool{}
			size := 0
			nfld := 1 + r.Intn(8)
			extFrom := nfld
			if r.Intn(3) == 0 {
				extFrom = 1 + r.Intn(nfld)
			}
			for k := 0; k < nfld; k++ {
				base := xmlTypes[r.Intn(len(xmlTypes))]
				f := xField{name: randFieldName(r, used), ext: k >= extFrom}
				n := 1
				switch {
				case base == "char":
					if r.Intn(8) != 0 {
						n = 1 + r.Intn(20)
						f.ty = fmt.Sprintf("char[%d]", n)
					} else {
						f.ty = "char"
					}
				case r.Intn(4) == 0:
					n = 1 + r.Intn(6)
					f.ty = fmt.Sprintf("%s[%d]", base, n)
				case base == "uint8_t" && r.Intn(6) == 0:
					f.ty = "uint8_t_mavlink_version"
				default:
					f.ty = base
				}
				if len(enumNames) > 0 && r.Intn(4) == 0 && base != "char" && f.ty != "uint8_t_mavlink_version" {
					b := enumInt[r.Intn(len(enumInt))]
					f.ty = strings.Replace(f.ty, base, b, 1)
					if f.ty == "uint8_t_mavlink_version" {
						f.ty = "uint8_t"
					}
					base = b
					f.enum = enumNames[r.Intn(len(enumNames))]
				}
				sz := xmlTypeSize[base] * n
				if size+sz > 255 {
					break
				}
				size += sz
				msg.fields = append(msg.fields, f)
			}
			if len(msg.fields) == 0 || msg.fields[0].ext {
				msg.fields = append([]xField{{ty: "uint8_t", name: "first_" + fmt.Sprint(m)}}, msg.fields...)
			}
			fs[i].msgs = append(fs[i].msgs, msg)
		}
	}
	return fs
}

func genC18(r *rngT, n int, tier string) {
	batch := 20
	k := 0
	for k < n {
		var jobs []*genJob
		for b := 0; b < batch && k < n; b++ {
			fs := genDialectSet(r, k)
			if r.Intn(25) == 0 { // a definition the generator cannot express: an unknown type
				m := &fs[len(fs)-1].msgs[0]
				m.fields[0].ty = []string{"uint128_t", "bool", "float[", "int"}[r.Intn(4)]
				stat("c18-unknown-type")
			}
			if r.Intn(30) == 0 { // a message name outside the naming rule: must be refused, not silently mis-encoded
				m := &fs[0].msgs[0]
				m.name = []string{"2D_POS", "_RAW", "9", "_"}[r.Intn(4)] + fmt.Sprint(k)
				stat("c18-bad-msg-name")
			}
			if r.Intn(20) == 0 { // a power that does not fit 64 bits: not a value, the set must be refused (not turned into a wrapped constant)
			over:
				for fi := range fs {
					for ei := range fs[fi].enums {
						if len(fs[fi].enums[ei].entries) > 0 {
							fs[fi].enums[ei].entries[0].value = []string{"2**64", "3**41", "10**20", "4294967296**2", "2**100", "7**23", "65536**4", "18446744073709551615**2"}[r.Intn(8)]
							stat("c18-power-overflow")
							break over
						}
					}
				}
			}
			jobs = append(jobs, &genJob{op: "gencheck " + encSet(fs), fs: fs, k: k})
			stat(fmt.Sprintf("c18-files-%d", len(fs)))
			k++
		}
		runGenBatch(jobs)
		for _, j := range jobs {
			emit(j.op, j.impl)
			stat("op:gencheck")
			if len(j.files) > 0 {
				emit(genfilesOp(j), "ok")
				stat("op:genfiles")
			}
		}
		out.Flush()
	}
}

// genC19gen: C19 on GENERATED code - dialect sets chosen for their enums (several enums, bitmask enums with groups of flags,
// large values, enums extended by an including file), converted, compiled and probed (textOK) like the C18 sets.
func genC19gen(r *rngT, n int, tier string) {
	batch := 20
	k := 0
	for k < n {
		var jobs []*genJob
		for b := 0; b < batch && k < n; b++ {
			var fs []xFile
			for try := 0; try < 200; try++ {
				fs = genDialectSet(r, 5000+k)
				ne, nb := 0, 0
				for _, f := range fs {
					for _, e := range f.enums {
						ne++
						if e.bitmask && len(e.entries) >= 3 {
							nb++
						}
					}
				}
				if ne >= 2 && (nb >= 1 || try > 100) {
					break
				}
			}
			jobs = append(jobs, &genJob{op: "gencheck " + encSet(fs), fs: fs, k: k})
			stat("c19-generated-set")
			k++
		}
		runGenBatch(jobs)
		for _, j := range jobs {
			emit(j.op, j.impl)
			stat("op:gencheck")
			if len(j.files) > 0 {
				emit(genfilesOp(j), "ok")
				stat("op:genfiles")
			}
		}
		out.Flush()
	}
}
