package main

import (
	"encoding"
	"encoding/hex"
	"fmt"
	"reflect"
	"strings"
)

type enumIface interface {
	encoding.TextMarshaler
	encoding.TextUnmarshaler
}

type enumConst struct {
	name  string
	value uint64
}

type enumReg struct {
	name    string
	bitmask bool
	zero    func() enumIface
	of      func(uint64) enumIface
	consts  []enumConst
}

func findEnum(name string) *enumReg {
	for i := range enumRegistry {
		if enumRegistry[i].name == name {
			return &enumRegistry[i]
		}
	}
	return nil
}

func thx(s []byte) string {
	if len(s) == 0 {
		return "-"
	}
	return hex.EncodeToString(s)
}

// etext <pkg.ENUM> m <u64>   /   etext <pkg.ENUM> u <hex text>
func implEtext(t []string) string {
	e := findEnum(t[1])
	if e == nil {
		return "no-such-enum"
	}
	if t[2] == "m" {
		b, err := e.of(atoiU(t[3])).MarshalText()
		if err != nil {
			return "err"
		}
		return "t:" + thx(b)
	}
	x := e.zero()
	// the destination holds whatever the application had there before: the parsed value replaces it
	reflect.ValueOf(x).Elem().SetUint(0xA5A5A5A5A5A5A5A5)
	if err := x.UnmarshalText(unhx(t[3])); err != nil {
		return "err"
	}
	return fmt.Sprintf("ok:%d", reflect.ValueOf(x).Elem().Uint())
}

// C19: enum text round trip over every defined enum type.
func genC19(r *rngT, n int, tier string) {
	rnd := 6
	if tier == "thorough" {
		rnd = 400
	}
	for i := range enumRegistry {
		e := &enumRegistry[i]
		vals := map[uint64]bool{0: true}
		var flags []uint64
		for _, c := range e.consts {
			vals[c.value] = true
			if c.value != 0 {
				flags = append(flags, c.value)
			}
		}
		if e.bitmask {
			// every single flag, all flags, random combinations
			all := uint64(0)
			for _, f := range flags {
				all |= f
			}
			vals[all] = true
			for k := 0; k < rnd+len(flags); k++ {
				v := uint64(0)
				for _, f := range flags {
					if r.Intn(3) == 0 {
						v |= f
					}
				}
				vals[v] = true
			}
			stat("c19-bitmask-enum")
		} else {
			for k := 0; k < rnd; k++ {
				vals[r.edge64()] = true
				vals[r.Uint64()] = true
			}
			vals[1<<63] = true
			vals[1<<63-1] = true
			vals[^uint64(0)] = true
			stat("c19-plain-enum")
		}
		for v := range vals {
			op := fmt.Sprintf("etext %s m %d", e.name, v)
			execOp(op)
			// parse what the implementation rendered
			if b, err := e.of(v).MarshalText(); err == nil {
				execOp(fmt.Sprintf("etext %s u %s", e.name, thx(b)))
			}
		}
		// parsing: names, numbers, combinations, malformed text
		var texts []string
		for _, c := range e.consts {
			texts = append(texts, c.name)
		}
		texts = append(texts, "0", "7", "-1", "+5", "18446744073709551615", "9223372036854775808", "9223372036854775807",
			"-9223372036854775808", "-9223372036854775809", "", " ", "x", "1_0", "0x10", "1e3", " 1", "1 ", "٣")
		if len(e.consts) > 1 {
			texts = append(texts, e.consts[0].name+" | "+e.consts[1].name, e.consts[0].name+" | 4", e.consts[0].name+"|"+e.consts[1].name,
				e.consts[0].name+" | ", " | "+e.consts[0].name, e.consts[0].name+" | NOPE", strings.ToLower(e.consts[0].name))
		}
		for _, tx := range texts {
			execOp(fmt.Sprintf("etext %s u %s", e.name, thx([]byte(tx))))
			stat("c19-parse")
		}
	}
}
