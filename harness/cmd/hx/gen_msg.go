package main

import (
	"fmt"
	"reflect"

	"github.com/bluenviron/gomavlib/v3/pkg/message"
)

// C03: layout, sizes, CRC_EXTRA of every message type of every dialect (+ user structs); wire bytes of marker values.
func genC03(r *rngT, n int, tier string) {
	for _, dn := range dialectNames() {
		defineDialect(dn)
	}
	// encodings with per-field marker values: every field of every type gets a distinct recognisable pattern
	per := 2
	if tier == "thorough" {
		per = 40
	}
	for _, dn := range []string{"all", "user", "test", "pythonarraytest", "development"} {
		for _, m := range getDialect(dn).Messages {
			for k := 0; k < per; k++ {
				v := randValue(r, m)
				if k == 0 {
					v = markerValue(m)
				}
				for _, ver := range []string{"v1", "v2"} {
					execOp(fmt.Sprintf("msgenc %s %d %s %s", dn, m.GetID(), ver, encVals(v)))
				}
			}
			// "decoding reads the same layout": the marker payload and successively shorter cuts of it through the SAME codec
			// (what a long payload left behind must not show in a shorter one), then longer again
			rw := getDialectRW(dn).GetMessage(m.GetID())
			p := rw.Write(markerValue(m), true).Payload
			for _, l := range []int{len(p), len(p) * 2 / 3, len(p) / 3, 1, 0, len(p) / 2, len(p)} {
				execOp(fmt.Sprintf("msgdec %s %d v2 %s", dn, m.GetID(), hx(p[:l])))
			}
			p1 := rw.Write(markerValue(m), false).Payload
			execOp(fmt.Sprintf("msgdec %s %d v1 %s", dn, m.GetID(), hx(p1)))
			stat("c03-decode-cuts")
		}
	}
}

// markerValue: field i element j gets bytes (i+1, j+1, 0xA0+i, ...) so that order/width errors are visible.
func markerValue(proto message.Message) message.Message {
	rv := reflect.New(reflect.TypeOf(proto).Elem())
	t := rv.Elem().Type()
	for i := 0; i < t.NumField(); i++ {
		f := rv.Elem().Field(i)
		pat := func(j int) uint64 {
			b := uint64(i+1)&0xFF | uint64(j+1)&0xFF<<8 | uint64(0xA0+i)&0xFF<<16 | 0x11<<24
			return b | b<<32
		}
		switch f.Kind() {
		case reflect.String:
			n := 1
			if ml := t.Field(i).Tag.Get("mavlen"); ml != "" {
				fmt.Sscanf(ml, "%d", &n)
			}
			b := make([]byte, n)
			for j := range b {
				b[j] = byte('a' + (i+j)%26)
			}
			f.SetString(string(b))
		case reflect.Array:
			for j := 0; j < f.Len(); j++ {
				setBits(f.Index(j), pat(j))
			}
		default:
			setBits(f, pat(0))
		}
	}
	return rv.Interface().(message.Message)
}

// C04: encode/decode round trip, truncation, extension semantics, buffer ownership.
func genC04(r *rngT, n int, tier string) {
	dns := []string{"all", "user", "test", "pythonarraytest"}
	for _, dn := range dns {
		defineDialect(dn)
	}
	per := 1
	if tier == "thorough" {
		per = 12
	}
	for _, dn := range dns {
		for _, m := range getDialect(dn).Messages {
			rw := getDialectRW(dn).GetMessage(m.GetID())
			_, sn, sx := rw.VerifLayout()
			for k := 0; k < per; k++ {
				v := randValue(r, m)
				for _, ver := range []string{"v1", "v2"} {
					isV2 := ver == "v2"
					execOp(fmt.Sprintf("msgenc %s %d %s %s", dn, m.GetID(), ver, encVals(v)))
					p := rw.Write(v, isV2).Payload
					// decode: the encoding itself
					execOp(fmt.Sprintf("msgdec %s %d %s %s", dn, m.GetID(), ver, hx(p)))
					if isV2 {
						// any number of zero bytes removed from / appended to the end
						q := append([]byte(nil), p...)
						for len(q) > 0 && q[len(q)-1] == 0 {
							q = q[:len(q)-1]
						}
						execOp(fmt.Sprintf("msgdec %s %d v2 %s", dn, m.GetID(), hx(q)))
						z := append(append([]byte(nil), p...), make([]byte, r.Intn(int(sx)+3))...)
						if len(z) <= 255 {
							execOp(fmt.Sprintf("msgdec %s %d v2 %s", dn, m.GetID(), hx(z)))
						}
						// untruncated + unknown trailing bytes
						full := append(append([]byte(nil), p...), make([]byte, int(sx)-len(p))...)
						full = append(full, r.bytes(r.Intn(4))...)
						if len(full) <= 255 {
							execOp(fmt.Sprintf("msgdec %s %d v2 %s", dn, m.GetID(), hx(full)))
						}
						stat("c04-v2-variants")
					} else {
						// wrong lengths are refused
						if len(p) > 0 {
							execOp(fmt.Sprintf("msgdec %s %d v1 %s", dn, m.GetID(), hx(p[:len(p)-1])))
						}
						execOp(fmt.Sprintf("msgdec %s %d v1 %s", dn, m.GetID(), hx(append(append([]byte(nil), p...), 0))))
						_ = sn
					}
				}
			}
			// arbitrary payloads of arbitrary length (never a panic)
			for k := 0; k < 1+per/3; k++ {
				l := r.Intn(256)
				if r.Intn(4) == 0 {
					l = []int{0, 1, int(sn), int(sx), int(sx) + 1, 255}[r.Intn(6)]
				}
				if l > 255 {
					l = 255
				}
				p := r.payload(l)
				execOp(fmt.Sprintf("msgdec %s %d v2 %s", dn, m.GetID(), hx(p)))
				execOp(fmt.Sprintf("msgdec %s %d v1 %s", dn, m.GetID(), hx(p)))
				stat("c04-arbitrary")
			}
		}
	}
}
