package main

import (
	"crypto/sha256"
	"encoding/hex"
	"reflect"
	"unsafe"

	"github.com/bluenviron/gomavlib/v3/pkg/frame"
)

func implSha(b []byte) string {
	s := sha256.Sum256(b)
	return hex.EncodeToString(s[:])
}

// refSignature: first 6 bytes of SHA-256(key | frame bytes up to and including the timestamp).
func refSignature(key []byte, upToTs []byte) []byte {
	h := sha256.New()
	h.Write(key)
	h.Write(upToTs)
	return h.Sum(nil)[:6]
}

// readerCur reads the private replay-window state for comparison with the model (read-only).
func readerCur(r *frame.Reader) uint64 {
	f := reflect.ValueOf(r).Elem().FieldByName("curReadSignatureTime")
	return *(*uint64)(unsafe.Pointer(f.UnsafeAddr()))
}
