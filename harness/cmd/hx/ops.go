package main

import (
	"bufio"
	"bytes"
	"errors"
	"fmt"
	"github.com/bluenviron/gomavlib/v3"
	"io"
	"strconv"
	"strings"
	"time"

	"github.com/bluenviron/gomavlib/v3/pkg/frame"
	"github.com/bluenviron/gomavlib/v3/pkg/message"
	"github.com/bluenviron/gomavlib/v3/pkg/streamwriter"
	"github.com/bluenviron/gomavlib/v3/pkg/tlog"
	"github.com/bluenviron/gomavlib/v3/pkg/x25"
)

// recWriter records every Write call; fails at call index failAt (0-based) if >= 0.
type recWriter struct {
	calls  [][]byte
	failAt int
}

func (w *recWriter) Write(p []byte) (int, error) {
	if w.failAt >= 0 && len(w.calls) == w.failAt {
		w.calls = append(w.calls, nil)
		return 0, trErr{w.failAt}
	}
	w.calls = append(w.calls, append([]byte(nil), p...))
	return len(p), nil
}

func keyOf(s string) *frame.V2Key {
	if s == "-" {
		return nil
	}
	return frame.NewV2Key(unhx(s))
}

func safely(f func() string) (res string) {
	defer func() {
		if r := recover(); r != nil {
			res = "panic"
			stat("panic")
		}
	}()
	return f()
}

// execOp runs one op line against the implementation and emits the answer.
func execOp(line string) {
	t := strings.Split(line, " ")
	stat("op:" + t[0])
	switch t[0] {
	case "x25":
		h := x25.New()
		b := unhx(t[1])
		// feed in two pieces to exercise the running state
		h.Write(b[:len(b)/2])
		h.Write(b[len(b)/2:])
		emit(line, strconv.Itoa(int(h.Sum16())))

	case "sha":
		emit(line, implSha(unhx(t[1])))

	case "marshal":
		emit(line, safely(func() string {
			fr := decFrame(t[1], nil)
			w := &recWriter{failAt: -1}
			fw := &frame.Writer{ByteWriter: w}
			if err := fw.Initialize(); err != nil {
				return "init-err"
			}
			err := fw.Write(fr)
			if err != nil {
				if len(w.calls) != 0 {
					return "err-after-write"
				}
				return "err:" + werrKind(err)
			}
			if len(w.calls) != 1 {
				return fmt.Sprintf("writes=%d", len(w.calls))
			}
			return "ok:" + strings.TrimPrefix(hx(w.calls[0]), "-")
		}))

	case "duse":
		emit(line, implDuse(t))
	case "defmsg":
		emit(line, safely(func() string {
			id := uint32(atoiU(t[2]))
			var m message.Message
			for _, c := range getDialect(t[1]).Messages {
				if c.GetID() == id {
					if name, _ := structBody(c); name == t[3] {
						m = c
						break
					}
				}
			}
			if m == nil {
				return "no-such-message"
			}
			name, body := structBody(m)
			if name != t[3] || body != t[4] {
				return "def-mismatch"
			}
			rw := &message.ReadWriter{Message: m}
			if err := rw.Initialize(); err != nil {
				return "err:" + initErrKind(err)
			}
			order, sn, sx := rw.VerifLayout()
			os := make([]string, len(order))
			for i, v := range order {
				os[i] = strconv.Itoa(v)
			}
			return fmt.Sprintf("ok order=%s sizeN=%d sizeX=%d crc=%d", strings.Join(os, ","), sn, sx, rw.CRCExtra())
		}))

	case "read":
		emit(line, safely(func() string { return implRead(t) }))

	case "fwrite":
		emit(line, safely(func() string {
			fr := decFrame(t[2], getDialect(t[1]))
			w := &recWriter{failAt: -1}
			fw := &frame.Writer{ByteWriter: w, DialectRW: getDialectRW(t[1])}
			if err := fw.Initialize(); err != nil {
				return "init-err"
			}
			if err := fw.Write(fr); err != nil {
				if len(w.calls) != 0 {
					return "err-after-write"
				}
				return "err:" + werrKind(err)
			}
			if len(w.calls) != 1 {
				return fmt.Sprintf("writes=%d", len(w.calls))
			}
			return "ok:" + strings.TrimPrefix(hx(w.calls[0]), "-")
		}))

	case "swinit":
		emit(line, safely(func() string {
			w := &recWriter{failAt: -1}
			fw := &frame.Writer{ByteWriter: w}
			fw.Initialize() //nolint
			sw := &streamwriter.Writer{FrameWriter: fw, Version: streamwriter.Version(atoiU(t[1])),
				SystemID: byte(atoiU(t[2])), ComponentID: byte(atoiU(t[3])), Key: keyOf(t[4])}
			if err := sw.Initialize(); err != nil {
				switch err.Error() {
				case "OutVersion not provided":
					return "err:no-version"
				case "OutSystemID must be greater than one":
					return "err:sysid"
				case "OutKey requires V2 frames":
					return "err:key-v2"
				}
				return "err:other"
			}
			return fmt.Sprintf("ok comp=%d", sw.ComponentID)
		}))

	case "swrite":
		emit(line, safely(func() string { return implSwrite(t) }))

	case "pubcrc":
		emit(line, safely(func() string {
			id, _ := strconv.ParseUint(t[1], 10, 32)
			rw := getDialectRW("common").GetMessage(uint32(id))
			if rw == nil {
				return "none"
			}
			return fmt.Sprint(rw.CRCExtra())
		}))

	case "nwrite":
		emit(line, safely(func() string { return implNwrite(t) }))

	case "lifecheck":
		// the answer is the observed trace: the scenario is re-run
		restore := lifeSetup()
		emit(line, safely(func() string { return implLifecheck(t) }))
		restore()

	case "hbcheck":
		emit(line, safely(func() string { return implHbcheck(t) }))

	case "srcheck":
		emit(line, safely(func() string { return implSrcheck(t) }))

	case "gencheck":
		emit(line, safely(func() string { return implGencheck(t) }))

	case "tnc":
		emit(line, safely(func() string { return implTnc(t) }))

	case "evcheck", "fancheck", "closecheck", "stallcheck", "racecheck", "genfiles":
		// observation-carrying ops: the observation was made when the scenario ran; on replay the stored observation
		// is re-judged by the model (the scenario itself is re-run by the generator, see DESIGN.md §5)
		emit(line, "ok")

	case "etext":
		emit(line, safely(func() string { return implEtext(t) }))

	case "dinit":
		emit(line, safely(func() string { return implDinit(t) }))

	case "dget":
		emit(line, safely(func() string { return implDget(t) }))

	case "dtype":
		emit(line, safely(func() string { return implDtype(t) }))

	case "hop":
		emit(line, safely(func() string { return implHop(t) }))

	case "fix":
		emit(line, safely(func() string { return implFix(t) }))

	case "tlogw":
		// tlogw <dialect> <epochMicro> <frame> [failAt]
		emit(line, safely(func() string {
			ep, _ := strconv.ParseInt(t[2], 10, 64)
			// "<writer dialect>@<dialect of the message prototypes>"
			proto := t[1]
			if i := strings.IndexByte(t[1], '@'); i >= 0 {
				proto = t[1][i+1:]
				t[1] = t[1][:i]
			}
			fr := decFrame(t[3], getDialect(proto))
			w := &recWriter{failAt: -1}
			if len(t) > 4 {
				fa, _ := strconv.Atoi(t[4])
				w.failAt = fa
			}
			tw := &tlog.Writer{ByteWriter: w, DialectRW: getDialectRW(t[1])}
			if err := tw.Initialize(); err != nil {
				return "init-err"
			}
			err := tw.Write(&tlog.Entry{Time: time.UnixMicro(ep), Frame: fr})
			var all []byte
			for _, c := range w.calls {
				all = append(all, c...)
			}
			if err != nil {
				k := werrKind(err)
				if strings.HasPrefix(k, "tr") {
					return "failed:*:" + k
				}
				return "failed:" + strings.TrimPrefix(hx(all), "-") + ":" + k
			}
			return "wrote:" + strings.TrimPrefix(hx(all), "-")
		}))

	case "tlogws":
		// tlogws <dialect> <epochMicro@frame;epochMicro@frame;...>: several entries through ONE writer; the answer is the
		// status of every Write and the whole file
		emit(line, safely(func() string {
			proto := t[1]
			if i := strings.IndexByte(t[1], '@'); i >= 0 {
				proto = t[1][i+1:]
				t[1] = t[1][:i]
			}
			w := &recWriter{failAt: -1}
			tw := &tlog.Writer{ByteWriter: w, DialectRW: getDialectRW(t[1])}
			if err := tw.Initialize(); err != nil {
				return "init-err"
			}
			var st []string
			for _, it := range strings.Split(t[2], ";") {
				p := strings.SplitN(it, "@", 2)
				ep, _ := strconv.ParseInt(p[0], 10, 64)
				fr := decFrame(p[1], getDialect(proto))
				if err := tw.Write(&tlog.Entry{Time: time.UnixMicro(ep), Frame: fr}); err != nil {
					st = append(st, "f:"+werrKind(err))
				} else {
					st = append(st, "w")
				}
			}
			var all []byte
			for _, c := range w.calls {
				all = append(all, c...)
			}
			return strings.Join(st, ",") + "|" + hx(all)
		}))

	case "tlogr":
		emit(line, safely(func() string { return implTlogRead(t) }))

	case "msgenc":
		emit(line, safely(func() string {
			rw := getDialectRW(t[1]).GetMessage(uint32(atoiU(t[2])))
			if rw == nil {
				return "no-msg"
			}
			m := decVals(findMsg(t[1], uint32(atoiU(t[2]))), t[4])
			raw := rw.Write(m, t[3] == "v2")
			return "ok:" + hx(raw.Payload)
		}))

	case "msgdec":
		emit(line, safely(func() string {
			rw := getDialectRW(t[1]).GetMessage(uint32(atoiU(t[2])))
			if rw == nil {
				return "no-msg"
			}
			// the payload is handed over as a sub-slice of a poisoned backing array (C04: no writes)
			p := unhx(t[4])
			back := make([]byte, len(p)+300)
			for i := range back {
				back[i] = 0xA5
			}
			off := 7
			copy(back[off:], p)
			snapshot := append([]byte(nil), back...)
			m, err := rw.Read(&message.MessageRaw{ID: uint32(atoiU(t[2])), Payload: back[off : off+len(p) : len(back)]}, t[3] == "v2")
			wrote := ""
			if !bytes.Equal(snapshot, back) {
				wrote = " WROTE-TO-CALLER-BUFFER"
				stat("buffer-write")
			}
			if err != nil {
				if strings.HasPrefix(err.Error(), "wrong size") {
					return "err:size" + wrote
				}
				return "err:other" + wrote
			}
			return "ok:" + encVals(m) + wrote
		}))

	default:
		panic("unknown op " + t[0])
	}
}

func initErrKind(err error) string {
	s := err.Error()
	switch {
	case strings.HasPrefix(s, "struct name must begin"):
		return "name-prefix"
	case s == "an enum must be an uint64":
		return "enum-not-uint64"
	case strings.HasPrefix(s, "unsupported Go type"):
		return "unsupported"
	case strings.HasSuffix(s, "cannot be used as enum"):
		return "enum-type"
	case strings.HasPrefix(s, "string has invalid length"):
		return "str-len"
	case strings.HasSuffix(s, "is not exported"):
		return "unexported"
	case strings.HasPrefix(s, "invalid array length"):
		return "arr-len"
	case strings.HasPrefix(s, "arrays of strings"):
		return "str-array"
	case strings.HasPrefix(s, "extension fields must"):
		return "ext-order"
	case strings.HasPrefix(s, "message is too big"):
		return "too-big"
	}
	return "other"
}

// read <dialect> <key> <cur> <stream> [plan]
func implRead(t []string) string {
	items := decStream(t[4])
	plan, errWith := []int(nil), false
	if len(t) > 5 {
		plan, errWith = decPlan(t[5])
	}
	src := &chunkReader{items: items, plan: plan, errWith: errWith}
	r := &frame.Reader{ByteReader: src, DialectRW: getDialectRW(t[1]), InKey: keyOf(t[2])}
	if len(t) > 6 && strings.HasPrefix(t[6], "B") {
		// the caller supplies the buffered reader (Reader.BufByteReader), of a size of its own choosing
		r = &frame.Reader{BufByteReader: bufio.NewReaderSize(src, int(atoiU(t[6][1:]))), DialectRW: getDialectRW(t[1]), InKey: keyOf(t[2])}
	}
	if err := r.Initialize(); err != nil {
		return "init-err"
	}
	var res []string
	var held []heldFrame
	for calls := 0; ; calls++ {
		if calls > len(items)+2 {
			res = append(res, "NO-PROGRESS")
			break
		}
		before := src.pos
		_ = before
		fr, err := r.Read()
		if err != nil {
			var re frame.ReadError
			if errors.As(err, &re) {
				res = append(res, "P"+perrKind(err.Error()))
				continue
			}
			if err == io.EOF {
				res = append(res, "Teof")
				break
			}
			res = append(res, "T"+ioKind(err.Error()))
			continue
		}
		// rendered only after the whole stream has been read: a frame the reader returned belongs to the caller, whatever the
		// reader does afterwards (it must not share memory with the reader's buffers)
		res = append(res, "")
		held = append(held, heldFrame{len(res) - 1, fr})
	}
	for _, h := range held {
		res[h.at] = "F" + encFrame(h.fr)
	}
	return strings.Join(res, " ") + " cur=" + strconv.FormatUint(readerCur(r), 10)
}

type heldFrame struct {
	at int
	fr frame.Frame
}

func implTlogRead(t []string) string {
	items := decStream(t[2])
	plan, errWith := []int(nil), false
	if len(t) > 3 {
		plan, errWith = decPlan(t[3])
	}
	src := &chunkReader{items: items, plan: plan, errWith: errWith}
	r := &tlog.Reader{ByteReader: src, DialectRW: getDialectRW(t[1])}
	if err := r.Initialize(); err != nil {
		return "init-err"
	}
	var res []string
	var heldE []heldEntry
	for calls := 0; ; calls++ {
		if calls > len(items)+2 {
			res = append(res, "NO-PROGRESS")
			break
		}
		e, err := r.Read()
		if err != nil {
			var re frame.ReadError
			if errors.As(err, &re) {
				res = append(res, "RP"+perrKind(err.Error()))
				continue
			}
			// raw errors: cannot tell from the API whether they came from the timestamp or the frame;
			// the model makes the same distinction by position, so encode by kind only.
			res = append(res, "X"+ioKind(err.Error()))
			if err == io.EOF {
				break
			}
			continue
		}
		// rendered after the whole log has been read (see implRead)
		res = append(res, "")
		heldE = append(heldE, heldEntry{len(res) - 1, e})
	}
	for _, h := range heldE {
		res[h.at] = fmt.Sprintf("N%d/%d/%d/%s", h.e.Time.UnixMicro(), h.e.Time.Unix(), h.e.Time.Nanosecond(), encFrame(h.e.Frame))
	}
	return strings.Join(res, " ")
}

type heldEntry struct {
	at int
	e  *tlog.Entry
}

// swrite <dialect> <ver> <sys> <comp> <link> <key> <items: MSG@sinceRefNs,...>
func implSwrite(t []string) string {
	w := &recWriter{failAt: -1}
	fw := &frame.Writer{ByteWriter: w, DialectRW: getDialectRW(t[1])}
	if err := fw.Initialize(); err != nil {
		return "init-err"
	}
	sw := &streamwriter.Writer{FrameWriter: fw, Version: streamwriter.Version(atoiU(t[2])),
		SystemID: byte(atoiU(t[3])), ComponentID: byte(atoiU(t[4])), SignatureLinkID: byte(atoiU(t[5])), Key: keyOf(t[6])}
	if err := sw.Initialize(); err != nil {
		return "init-err"
	}
	var res []string
	lastTs := uint64(0)
	for _, it := range strings.Split(t[7], ";") {
		p := strings.SplitN(it, "@", 2)
		m := decMsg(p[0], getDialect(t[1]))
		n0 := len(w.calls)
		before := time.Now()
		err := sw.Write(m)
		after := time.Now()
		if err != nil {
			if len(w.calls) != n0 {
				res = append(res, "err-after-write")
			} else {
				res = append(res, "err:"+werrKind(err))
			}
			continue
		}
		if len(w.calls) != n0+1 {
			res = append(res, fmt.Sprintf("writes=%d", len(w.calls)-n0))
			continue
		}
		o, ts := normaliseSigned(w.calls[n0], p[1], keyOf(t[6]), before, after)
		if ts < lastTs {
			o = fmt.Sprintf("TS-DECREASED(%d<%d)", ts, lastTs)
		}
		lastTs = ts
		res = append(res, "ok:"+o)
	}
	return strings.Join(res, " ")
}

// nwrite <dialect> <ver> <sys> <comp> <link> <key> <items>: the same write history through a NODE with one channel
// (Node.WriteMessageAll -> node loop -> channel writer -> stream writer). Only what reaches the wire can be observed:
// the answer is the list of emitted frames; refused items leave no trace (and must not consume a sequence number). The last
// item is always encodable: when it has reached the transport, everything before it has been dealt with (FIFO).
// The link id is chosen by the channel at random: it must be the same on every signed frame of the channel; it is then
// replaced by the nominal one of the op (signature recomputed by the reference formula) for comparison.
func implNwrite(t []string) string {
	conn := newMemConn(nil)
	ver := gomavlib.V2
	if atoiU(t[2]) == 1 {
		ver = gomavlib.V1
	}
	n := &gomavlib.Node{Endpoints: []gomavlib.EndpointConf{gomavlib.EndpointCustom{ReadWriteCloser: conn}}, Dialect: getDialect(t[1]),
		OutVersion: ver, OutSystemID: byte(atoiU(t[3])), OutComponentID: byte(atoiU(t[4])), OutKey: keyOf(t[6]), HeartbeatDisable: true}
	if atoiU(t[2]) != 1 && atoiU(t[2]) != 2 {
		n.OutVersion = 0
	}
	if err := n.Initialize(); err != nil {
		return "init-err"
	}
	opened := make(chan struct{})
	go func() {
		first := true
		for e := range n.Events() {
			if _, ok := e.(*gomavlib.EventChannelOpen); ok && first {
				first = false
				close(opened)
			}
		}
	}()
	select {
	case <-opened:
	case <-time.After(5 * time.Second):
		n.Close()
		return "channel-not-open"
	}
	items := strings.Split(t[7], ";")
	before := time.Now()
	for _, it := range items {
		p := strings.SplitN(it, "@", 2)
		m := decMsg(p[0], getDialect(t[1]))
		n.WriteMessageAll(m) //nolint  a refusal is part of the history
	}
	// the last item is encodable: wait for the wire to go quiet after at least one frame
	deadline := time.Now().Add(5 * time.Second)
	last, stable := -1, 0
	for time.Now().Before(deadline) && (stable < 25 || last == 0) {
		c := len(conn.snapshotWrites())
		if c == last {
			stable++
		} else {
			stable, last = 0, c
		}
		time.Sleep(2 * time.Millisecond)
	}
	after := time.Now()
	writes := conn.snapshotWrites()
	n.Close()
	var res []string
	lastTs := uint64(0)
	link := -1
	// nominal times: the i-th EMITTED frame is compared with the i-th accepted item of the model, stamped with that item's time;
	// the harness cannot know which items were accepted, so all items of an nwrite op carry the same nominal time
	nominal := strings.SplitN(items[0], "@", 2)[1]
	for _, b := range writes {
		if keyOf(t[6]) != nil && len(b) >= 13 && b[0] == 0xFD && b[2]&1 != 0 {
			l := int(b[len(b)-13])
			if link == -1 {
				link = l
			} else if l != link {
				res = append(res, "LINK-ID-CHANGED")
				continue
			}
			c := append([]byte(nil), b...)
			want := refSignature(keyOf(t[6])[:], c[:len(c)-6])
			if !bytes.Equal(want, c[len(c)-6:]) {
				res = append(res, "BAD-SIGNATURE")
				continue
			}
			c[len(c)-13] = byte(atoiU(t[5]))
			copy(c[len(c)-6:], refSignature(keyOf(t[6])[:], c[:len(c)-6]))
			b = c
		}
		o, ts := normaliseSigned(b, nominal, keyOf(t[6]), before, after)
		if ts < lastTs {
			o = fmt.Sprintf("TS-DECREASED(%d<%d)", ts, lastTs)
		}
		lastTs = ts
		res = append(res, "ok:"+o)
	}
	if len(res) == 0 {
		return "-"
	}
	return strings.Join(res, " ")
}

// sigRef is the reference date of signature timestamps (2015-01-01 UTC), stated independently.
var sigRef = time.Date(2015, 1, 1, 0, 0, 0, 0, time.UTC)

// normaliseSigned: the implementation stamps signed frames with the wall clock. The op line carries
// a nominal time; the emitted timestamp is checked against the wall-clock bracket of the call and the
// frame is then re-stamped with the nominal time (signature recomputed independently) so that the
// output is comparable with the model's, which is evaluated at the nominal time.
func normaliseSigned(b []byte, nominalNs string, key *frame.V2Key, before, after time.Time) (string, uint64) {
	if key == nil || len(b) < 12 || b[0] != 0xFD || b[2]&1 == 0 {
		return hx(b), 0
	}
	n := len(b)
	tsb := b[n-12 : n-6]
	ts := uint64(tsb[0]) | uint64(tsb[1])<<8 | uint64(tsb[2])<<16 | uint64(tsb[3])<<24 | uint64(tsb[4])<<32 | uint64(tsb[5])<<40
	lo := uint64(before.Sub(sigRef)) / 10000
	hi := uint64(after.Sub(sigRef)) / 10000
	if ts < lo || ts > hi {
		return fmt.Sprintf("TS-OUT-OF-BRACKET(%d not in %d..%d)", ts, lo, hi), ts
	}
	// signature must verify under the key by the spec formula
	want := refSignature(key[:], b[:n-6])
	if !bytes.Equal(want, b[n-6:]) {
		return "BAD-SIGNATURE", ts
	}
	nom, _ := strconv.ParseUint(nominalNs, 10, 64)
	nts := nom / 10000
	c := append([]byte(nil), b...)
	for i := 0; i < 6; i++ {
		c[n-12+i] = byte(nts >> (8 * i))
	}
	copy(c[n-6:], refSignature(key[:], c[:n-6]))
	return hx(c), ts
}
