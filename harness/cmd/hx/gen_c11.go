package main

import (
	"bytes"
	"fmt"
	"strings"
	"sync"
	"time"

	"github.com/bluenviron/gomavlib/v3"
	"github.com/bluenviron/gomavlib/v3/pkg/dialects/common"
	"github.com/bluenviron/gomavlib/v3/pkg/frame"
	"github.com/bluenviron/gomavlib/v3/pkg/message"
)

// one write of the plan: kind 'm' (message, originated) or 'f' (frame, forwarded); target 'a' all, 't' to, 'x' except;
// channel index, or -1 for a foreign channel / unencodable marker
type fanOp struct {
	kind   byte
	target byte
	ch     int
	bad    bool // unencodable item (raw message id outside the dialect)
}

func (o fanOp) String() string {
	k := o.kind
	if k == 'd' {
		k = 'f' // a forwarded frame carrying a DECODED message: for the specification a forwarded frame like any other
	}
	s := string([]byte{k, o.target})
	if o.target != 'a' {
		if o.ch < 0 {
			s += "F"
		} else {
			s += fmt.Sprint(o.ch)
		}
	}
	if o.bad {
		s += "!"
	}
	return s
}

type fanScenario struct {
	k           int
	plan        [][]fanOp
	blockAt     map[int]int // channel -> index of the transport Write that blocks
	failAt      map[int]int // channel -> index of the transport Write that fails
	failLen     int         // that many consecutive transport Writes fail (0 means 1)
	failTimeout bool        // ... with a time-out error
	failNet     bool        // ... with a non-time-out net.Error
	pauseAt     map[int]int // channel -> index of the transport Write that waits until every item has been submitted
	seed        int64
	pace        int // >= 0: after every write wait until every channel but this one has put the item on the wire
}

type fanResult struct {
	obs    []string   // per ORIGINAL endpoint: decoded write calls
	events [][]string // per endpoint: O / C(..) events in order
	note   string
}

// decodeWrite: one transport write must be exactly one frame
func decodeWrite(b []byte) string {
	r := &frame.Reader{ByteReader: strings.NewReader(string(b))}
	r.Initialize() //nolint
	fr, err := r.Read()
	if err != nil {
		return "BAD"
	}
	if len(refFrameBytes(fr)) != len(b) {
		return "BAD"
	}
	raw := fr.GetMessage().(*message.MessageRaw)
	if raw.ID == 2 && fr.GetComponentID() == 7 {
		// a forwarded frame that carried a decoded SYSTEM_TIME (kind 'd'): it must still be a frame the next hop accepts (length and
		// checksum right for ITS version, which is v1 for even item numbers), with its own header
		dr := &frame.Reader{ByteReader: strings.NewReader(string(b)), DialectRW: getDialectRW("common")}
		dr.Initialize() //nolint
		df, derr := dr.Read()
		if derr != nil {
			return "BAD"
		}
		st, ok := df.GetMessage().(*common.MessageSystemTime)
		if !ok {
			return "BAD"
		}
		g, i := int(st.TimeUnixUsec>>32), int(uint32(st.TimeUnixUsec))
		_, isV1 := df.(*frame.V1Frame)
		if isV1 != (i%2 == 0) {
			return "BAD"
		}
		return fmt.Sprintf("f%d.%d:%d:%d", g, i, fr.GetSequenceNumber(), fr.GetSystemID())
	}
	switch raw.ID {
	case 2: // SYSTEM_TIME: originated message, tag in TimeUnixUsec
		p := append(append([]byte(nil), raw.Payload...), make([]byte, 12)...)
		g := p[4]
		i := int(p[0]) | int(p[1])<<8
		return fmt.Sprintf("m%d.%d:%d:%d", g, i, fr.GetSequenceNumber(), fr.GetSystemID())
	case 1: // forwarded raw frame, tag in payload
		p := raw.Payload
		return fmt.Sprintf("f%d.%d:%d:%d", p[0], int(p[1])|int(p[2])<<8, fr.GetSequenceNumber(), fr.GetSystemID())
	}
	return "BAD"
}

func runFanScenario(sc fanScenario) fanResult {
	conns := make([]*memConn, sc.k)
	var eps []gomavlib.EndpointConf
	for i := range conns {
		conns[i] = newMemConn(nil)
		if b, ok := sc.blockAt[i]; ok {
			conns[i].blockAt = b
		}
		if f, ok := sc.failAt[i]; ok {
			conns[i].failAt = f
			conns[i].failLen = sc.failLen
			conns[i].failTimeout = sc.failTimeout
			conns[i].failNet = sc.failNet
		}
		if p, ok := sc.pauseAt[i]; ok {
			conns[i].pauseAt = p
		}
		eps = append(eps, gomavlib.EndpointCustom{ReadWriteCloser: conns[i]})
	}
	n := &gomavlib.Node{Endpoints: eps, Dialect: common.Dialect, OutVersion: gomavlib.V2, OutSystemID: 9, HeartbeatDisable: true}
	// the node's own version and signing vary with the scenario seed: a version-1 node, a signing node (what it ORIGINATES changes
	// form; what it forwards does not)
	switch sc.seed % 4 {
	case 1:
		n.OutVersion = gomavlib.V1
	case 2:
		n.OutKey = frame.NewV2Key(bytes.Repeat([]byte{0x5A}, 32))
	}
	if err := n.Initialize(); err != nil {
		return fanResult{note: "init-err"}
	}
	// a foreign channel
	fconn := newMemConn(nil)
	fn := &gomavlib.Node{Endpoints: []gomavlib.EndpointConf{gomavlib.EndpointCustom{ReadWriteCloser: fconn}}, Dialect: common.Dialect,
		OutVersion: gomavlib.V2, OutSystemID: 8, HeartbeatDisable: true}
	fn.Initialize() //nolint
	var foreign *gomavlib.Channel
	for e := range fn.Events() {
		if o, ok := e.(*gomavlib.EventChannelOpen); ok {
			foreign = o.Channel
			break
		}
	}
	idx := func(ch *gomavlib.Channel) int {
		c := ch.Endpoint().Conf().(gomavlib.EndpointCustom).ReadWriteCloser
		for i := range conns {
			if c == conns[i] {
				return i
			}
		}
		return -1
	}
	res := fanResult{events: make([][]string, sc.k)}
	var mu sync.Mutex
	closingNode := false
	chans := make([]*gomavlib.Channel, sc.k) // the FIRST channel of each endpoint
	opened := 0
	allOpen := make(chan struct{})
	consDone := make(chan struct{})
	go func() {
		defer close(consDone)
		for e := range n.Events() {
			i := idx(evChannel(e))
			s := evString(e)
			mu.Lock()
			if s == "O" || strings.HasPrefix(s, "C(") {
				if closingNode && strings.HasPrefix(s, "C(") {
					s = "c" + s[1:] // reported only because the node itself was closed: not a report of the failure
				}
				res.events[i] = append(res.events[i], s)
			}
			if s == "O" && chans[i] == nil {
				chans[i] = evChannel(e)
				opened++
				if opened == sc.k {
					close(allOpen)
				}
			}
			mu.Unlock()
		}
	}()
	select {
	case <-allOpen:
	case <-time.After(5 * time.Second):
		res.note = "channels-not-open"
	}
	var wg sync.WaitGroup
	for g, ops := range sc.plan {
		wg.Add(1)
		go func(g int, ops []fanOp) {
			defer wg.Done()
			for i, o := range ops {
				var target *gomavlib.Channel
				if o.target != 'a' {
					if o.ch < 0 {
						target = foreign
					} else {
						mu.Lock()
						target = chans[o.ch]
						mu.Unlock()
					}
				}
				execFanOp(n, g, i, o, target)
				if sc.pace >= 0 && (i%8 == 7 || i == len(ops)-1) {
					// keep the healthy channels' backlog small (bursts of eight): the bound must only bite on the stalled channel
					dl := time.Now().Add(2 * time.Second)
					for c := range conns {
						if c == sc.pace {
							continue
						}
						want := 0
						for _, p := range ops[:i+1] {
							if p.bad {
								continue
							}
							switch p.target {
							case 'a':
								want++
							case 't':
								if p.ch == c {
									want++
								}
							case 'x':
								if p.ch != c {
									want++
								}
							}
						}
						for len(conns[c].snapshotWrites()) < want && time.Now().Before(dl) {
							time.Sleep(20 * time.Microsecond)
						}
					}
				}
			}
		}(g, ops)
	}
	done := make(chan struct{})
	go func() { wg.Wait(); close(done) }()
	select {
	case <-done:
	case <-time.After(10 * time.Second):
		res.note += "writers-stalled"
	}
	// every item has been submitted: transports that were only pausing go on now (their backlog drains)
	for i := range conns {
		if _, ok := sc.pauseAt[i]; ok {
			close(conns[i].release)
		}
	}
	// let the channel writers drain: every healthy channel must have carried what was addressed to it (the harness knows the
	// plan), however long its writer goroutine is kept off the CPU; then a quiet period for the rest
	expect := make([]int, sc.k)
	for _, ops := range sc.plan {
		for _, o := range ops {
			if o.bad {
				continue
			}
			for c := 0; c < sc.k; c++ {
				switch o.target {
				case 'a':
					expect[c]++
				case 't':
					if o.ch == c {
						expect[c]++
					}
				case 'x':
					if o.ch != c {
						expect[c]++
					}
				}
			}
		}
	}
	dlAll := time.Now().Add(8 * time.Second)
	for c := range conns {
		_, blocked := sc.blockAt[c]
		_, failing := sc.failAt[c]
		if blocked || failing || c == sc.pace {
			continue
		}
		for len(conns[c].snapshotWrites()) < expect[c] && time.Now().Before(dlAll) {
			time.Sleep(200 * time.Microsecond)
		}
	}
	deadline := time.Now().Add(3 * time.Second)
	last, stable := -1, 0
	for time.Now().Before(deadline) && stable < 40 {
		tot := 0
		for _, c := range conns {
			tot += len(c.snapshotWrites())
		}
		if tot == last {
			stable++
		} else {
			stable, last = 0, tot
		}
		time.Sleep(2 * time.Millisecond)
	}
	mu.Lock()
	closingNode = true
	mu.Unlock()
	closed := make(chan struct{})
	go func() { n.Close(); close(closed) }()
	select {
	case <-closed:
	case <-time.After(10 * time.Second):
		res.note += "close-timeout"
	}
	if len(fconn.snapshotWrites()) > 0 {
		res.note += "foreign-node-received-writes" // a channel of another node was named: nothing may be written anywhere for it
	}
	fn.Close()
	select {
	case <-consDone:
	case <-time.After(5 * time.Second):
		res.note += "events-not-closed"
	}
	for _, c := range conns {
		var items []string
		for _, w := range c.snapshotWrites() {
			items = append(items, decodeWrite(w))
		}
		res.obs = append(res.obs, strings.Join(items, ","))
	}
	return res
}

func encPlan2(plan [][]fanOp) string {
	var gs []string
	for _, ops := range plan {
		var s []string
		for _, o := range ops {
			s = append(s, o.String())
		}
		gs = append(gs, strings.Join(s, ","))
	}
	return strings.Join(gs, ";")
}

func dash(s string) string {
	if s == "" {
		return "-"
	}
	return s
}

func randFanOp(r *rngT, k int) fanOp {
	o := fanOp{kind: "mfd"[r.Intn(3)], target: "atx"[r.Intn(3)]}
	if o.target != 'a' {
		o.ch = r.Intn(k)
		if r.Intn(12) == 0 {
			o.ch = -1
		}
	}
	return o
}

// C11: fan-out, exactly once, FIFO per goroutine, whole frames, below the queue bound.
func genC11(r *rngT, n int, tier string) {
	genC11tcp(r, n/6+2)
	genC11reconn(r, n/10+2)
	for s := 0; s < n; s++ {
		k := 1 + r.Intn(4)
		m := 1 + r.Intn(5)
		// at most 60 items in total: no channel's backlog can reach the bound, whatever the schedule
		per := 60 / m
		var plan [][]fanOp
		for g := 0; g < m; g++ {
			var ops []fanOp
			for i := 0; i < 1+r.Intn(per); i++ {
				ops = append(ops, randFanOp(r, k))
			}
			plan = append(plan, ops)
		}
		res := runFanScenario(fanScenario{k: k, plan: plan, seed: r.Int63(), pace: -1})
		var obs []string
		for _, o := range res.obs {
			obs = append(obs, dash(o))
		}
		impl := "ok"
		if res.note != "" {
			impl = res.note
		}
		emit(fmt.Sprintf("fancheck %d %s %s", k, encPlan2(plan), strings.Join(obs, ";")), impl)
		stat("op:fancheck")
		if res.note != "" {
			break // a stalled node: one failing scenario is enough
		}
	}
}

// C13: a stalled or failing channel.
func genC13(r *rngT, n int, tier string) {
	for s := 0; s < n; s++ {
		k := 2 + r.Intn(3)
		victim := r.Intn(k)
		mode := []string{"block", "fail", "bad", "pause", "pausefail"}[s%5]
		at := r.Intn(4)
		nitems := 75 + r.Intn(80) // beyond the queue bound of the victim
		if mode == "fail" || mode == "bad" {
			nitems = 20 + r.Intn(30)
		}
		if mode == "pausefail" {
			// the at-th write waits until everything has been submitted and then fails (plain error or time-out) while a backlog
			// smaller than the queue stands behind it: nothing but the failed item may be missing, and the order is kept
			nitems = at + 2 + r.Intn(50)
		}
		sc := fanScenario{k: k, seed: r.Int63(), blockAt: map[int]int{}, failAt: map[int]int{}, pauseAt: map[int]int{}, pace: victim}
		var ops []fanOp
		badIdx := -1
		run := 1 + r.Intn(5) // consecutive failing writes / unencodable items
		for i := 0; i < nitems; i++ {
			o := fanOp{kind: "mf"[r.Intn(2)], target: 'a'}
			if mode != "pause" && r.Intn(4) == 0 {
				// the same goroutine also writes to one channel and to all but one: whatever kind of call, its items stay in order
				if r.bool() {
					o.target, o.ch = 't', r.Intn(k)
				} else {
					o.target, o.ch = 'x', r.Intn(k)
				}
			}
			if mode == "bad" && i >= 3+at && i < 3+at+run {
				// items that cannot be encoded for the link, addressed to the victim only (a run of 1..5 in a row)
				o = fanOp{kind: 'm', target: 't', ch: victim, bad: true}
				if badIdx < 0 {
					badIdx = i
				}
			}
			ops = append(ops, o)
		}
		switch mode {
		case "block":
			sc.blockAt[victim] = at
		case "fail":
			sc.failAt[victim] = at
			sc.failLen = run
			badIdx = run
		case "pause":
			sc.pauseAt[victim] = at
		case "pausefail":
			sc.pauseAt[victim] = at
			sc.failAt[victim] = at
			sc.failLen = 1
			sc.failTimeout = r.bool()
			badIdx = 1
		}
		if mode == "fail" || mode == "pausefail" {
			// the kind of error in turn: a plain error, a time-out, a hard network error
			sc.failTimeout, sc.failNet = false, false
			switch (s / 5) % 3 {
			case 1:
				sc.failTimeout = true
			case 2:
				sc.failNet = true
			}
		}
		opMode := mode
		if mode == "pausefail" {
			opMode = "fail" // judged like a failing write: closed and reported, or everything but the failed item, in order
		}
		sc.plan = [][]fanOp{ops}
		res := runFanScenario(sc)
		var obs, evs []string
		for i, o := range res.obs {
			obs = append(obs, dash(o))
			evs = append(evs, dash(strings.Join(res.events[i], ",")))
		}
		impl := "ok"
		if res.note != "" {
			impl = res.note
		}
		emit(fmt.Sprintf("stallcheck %d %s %d %d %d %s %s %s", k, opMode, victim, at, badIdx, encPlan2(sc.plan), strings.Join(obs, ";"), strings.Join(evs, ";")), impl)
		stat("op:stallcheck")
		stat("c13-" + mode)
		if res.note != "" {
			break // a stalled node: one failing scenario is enough
		}
	}
}
