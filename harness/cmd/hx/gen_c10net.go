package main

import (
	"fmt"
	"net"
	"strings"
	"sync"
	"time"

	"github.com/bluenviron/gomavlib/v3"
	"github.com/bluenviron/gomavlib/v3/pkg/frame"
)

// C10 over real sockets: ONE server endpoint (UDP or TCP), k peers = k channels. Each peer sends its stream (then the sentinel)
// cut into datagrams / segments that do not respect frame boundaries - the first one may begin with junk or in the middle of
// nothing in particular: a peer is a peer whatever its first bytes are. Drain mode only: the application consumes everything, then
// the node is closed. Judged like the in-memory scenarios (same `evcheck` op, mode `drain`).
func runEvNet(sc evScenario, kind string) (pre, post [][]string, note string) {
	r := newRng(sc.seed)
	k := len(sc.streams)
	sent := refFrameBytes(sentinelFrame(sc.key))
	udp := kind != "tcp"
	port := freePort(udp)
	var ep gomavlib.EndpointConf = gomavlib.EndpointTCPServer{Address: fmt.Sprintf("127.0.0.1:%d", port)}
	proto := "tcp"
	switch kind {
	case "udp":
		ep = gomavlib.EndpointUDPServer{Address: fmt.Sprintf("127.0.0.1:%d", port)}
		proto = "udp"
	case "bcast":
		// a broadcast endpoint has ONE channel for everybody on the network; the (single) peer talks from another address of the
		// loopback network and - as stations of a broadcast network usually do - from the SAME port number
		ep = gomavlib.EndpointUDPBroadcast{BroadcastAddress: fmt.Sprintf("127.255.255.255:%d", port), LocalAddress: fmt.Sprintf("127.0.0.1:%d", port)}
		proto = "udp"
	}
	n := &gomavlib.Node{Endpoints: []gomavlib.EndpointConf{ep}, Dialect: getDialect(sc.dn), OutVersion: gomavlib.V2, OutSystemID: 9,
		HeartbeatDisable: true}
	if sc.key != nil {
		n.InKey = frame.NewV2Key(sc.key)
	}
	if err := n.Initialize(); err != nil {
		return nil, nil, "init-err"
	}
	peers := make([]net.Conn, k)
	labels := map[string]int{}
	var lmu sync.Mutex
	for i := range peers {
		var c net.Conn
		var err error
		if kind == "bcast" {
			d := net.Dialer{LocalAddr: &net.UDPAddr{IP: net.IPv4(127, 0, 0, 2), Port: port}}
			c, err = d.Dial("udp4", fmt.Sprintf("127.0.0.1:%d", port))
		} else {
			c, err = net.Dial(proto+"4", fmt.Sprintf("127.0.0.1:%d", port))
		}
		if err != nil {
			n.Close()
			return nil, nil, "dial-failed"
		}
		peers[i] = c
		lmu.Lock()
		labels[proto+":"+c.LocalAddr().String()] = i
		lmu.Unlock()
	}
	defer func() {
		for _, c := range peers {
			c.Close()
		}
	}()
	pre = make([][]string, k)
	post = make([][]string, k)
	// the events themselves are kept and rendered once more when everything is over: an event (and the frame in it) belongs to the
	// application from the moment it is delivered, whatever the node reads afterwards
	preEv := make([][]gomavlib.Event, k)
	postEv := make([][]gomavlib.Event, k)
	defer func() {
		for i := range pre {
			for j := range pre[i] {
				pre[i][j] = evString(preEv[i][j])
			}
			for j := range post[i] {
				post[i][j] = evString(postEv[i][j])
			}
		}
	}()
	var mu sync.Mutex
	closing := false
	sentinels := 0
	allSent := make(chan struct{})
	consDone := make(chan struct{})
	rc := newRng(sc.seed + 1)
	unknown := 0
	go func() {
		defer close(consDone)
		for e := range n.Events() {
			lmu.Lock()
			i, ok := labels[evChannel(e).String()]
			lmu.Unlock()
			if kind == "bcast" {
				i, ok = 0, true // the one channel of the endpoint
			}
			s := evString(e)
			mu.Lock()
			if !ok {
				unknown++
				mu.Unlock()
				continue
			}
			if isSentinel(s) {
				sentinels++
				if sentinels == k {
					close(allSent)
				}
				mu.Unlock()
				continue
			}
			if closing {
				post[i] = append(post[i], s)
				postEv[i] = append(postEv[i], e)
			} else {
				pre[i] = append(pre[i], s)
				preEv[i] = append(preEv[i], e)
			}
			mu.Unlock()
			if sc.slowCons && rc.Intn(4) == 0 {
				time.Sleep(time.Duration(rc.Intn(200)) * time.Microsecond)
			}
		}
	}()
	var swg sync.WaitGroup
	for i, s := range sc.streams {
		full := append(append([]byte(nil), s...), sent...)
		// datagrams of at most 120 bytes (a datagram larger than the free part of the reader's 512-byte buffer would be cut by the
		// socket layer, which is UDP's business and not the node's)
		plan := []int{1 + r.Intn(60), 1 + r.Intn(5), 1 + r.Intn(120)}
		chunks := chunkify(full, plan)
		var small [][]byte
		for _, c := range chunks {
			for len(c) > 120 {
				small = append(small, c[:120])
				c = c[120:]
			}
			small = append(small, c)
		}
		swg.Add(1)
		go func(c net.Conn, chunks [][]byte) {
			defer swg.Done()
			for _, ch := range chunks {
				if len(ch) == 0 {
					continue
				}
				c.Write(ch) //nolint:errcheck
				time.Sleep(150 * time.Microsecond)
			}
		}(peers[i], small)
	}
	swg.Wait()
	select {
	case <-allSent:
	case <-time.After(10 * time.Second):
		note = "timeout-waiting-for-input"
	}
	mu.Lock()
	closing = true
	mu.Unlock()
	closed := make(chan struct{})
	go func() { n.Close(); close(closed) }()
	select {
	case <-closed:
	case <-time.After(10 * time.Second):
		note += "close-timeout"
	}
	select {
	case <-consDone:
	case <-time.After(5 * time.Second):
		note += "events-not-closed"
	}
	if unknown > 0 {
		note += fmt.Sprintf("events-from-%d-unknown-channels", unknown)
	}
	_ = strings.TrimSpace
	return pre, post, note
}
