package main

import (
	"context"
	"errors"
	"fmt"
	"io"
	"math"
	"net"
	"os"
	"sort"
	"strconv"
	"strings"
	"sync"
	"time"

	"github.com/bluenviron/gomavlib/v3"
	"github.com/bluenviron/gomavlib/v3/pkg/dialects/common"
	"github.com/bluenviron/gomavlib/v3/pkg/timednetconn"
)

// C14: channel lifecycle under faults.
//
//   lifecheck serial <script>      provider loop of a client-type endpoint, every open attempt scripted through the hook
//   lifecheck tcpc <script>        TCP client against a fake peer that is down / up / drops / resets / goes silent
//   lifecheck udpc <script>        UDP client whose peer goes silent (idle expiry) again and again
//   lifecheck tcps|udps <script>   server endpoint, one channel per peer, peers end in different ways, new peers keep coming
//   tnc <idleMs> <writeMs> <calls> timednetconn over a recording net.Conn
//
// The implementation answer is the OBSERVED trace (attempts, waits, opens, frame counts, close causes); the Lean model
// (Mav/Model/Provider.lean) computes the trace from the script, and the spec states it declaratively.

const lifePeriod = 300 * time.Millisecond // reconnectPeriod for every lifecheck scenario (set through the hook)
const lifeIdle = 450 * time.Millisecond   // IdleTimeout

func causeString(err error) string {
	if err == nil {
		return "nil"
	}
	var te trErr
	switch {
	case errors.As(err, &te):
		return fmt.Sprintf("tr%d", te.k)
	case errors.Is(err, io.EOF):
		return "eof"
	case errors.Is(err, os.ErrDeadlineExceeded), errors.Is(err, context.DeadlineExceeded):
		return "timeout"
	}
	var ne net.Error
	if errors.As(err, &ne) && ne.Timeout() {
		return "timeout"
	}
	s := err.Error()
	switch {
	case strings.Contains(s, "connection reset"):
		return "reset"
	case strings.Contains(s, "connection refused"):
		return "refused"
	case strings.Contains(s, "use of closed"):
		return "closed"
	}
	return "other"
}

// waits: how many reconnect periods fit in a gap; -1 if the gap is not close to a whole number of periods
func waits(gap time.Duration) int {
	// A timer never fires early, and everything a busy machine does to the run makes the measured gap LONGER - except that the
	// moment the gap is measured from (the close event, or the failed attempt) is itself noticed a little late. So: up to 0.3
	// periods short and up to 0.7 periods long of m periods counts as m waits.
	x := float64(gap) / float64(lifePeriod)
	return int(math.Floor(x + 0.30))
}

// ---------------------------------------------------------------- serial: every attempt is visible

type lifeOutcome struct {
	ok     bool
	frames int
	end    byte // e: read error, z: EOF
}

func parseSerialScript(s string) []lifeOutcome {
	var out []lifeOutcome
	if s == "-" {
		return nil
	}
	for _, t := range strings.Split(s, ",") {
		if t == "f" {
			out = append(out, lifeOutcome{})
			continue
		}
		k, _ := strconv.Atoi(t[1 : len(t)-1])
		out = append(out, lifeOutcome{ok: true, frames: k, end: t[len(t)-1]})
	}
	return out
}

type tmlog struct {
	mu  sync.Mutex
	evs []tev
}
type tev struct {
	t   time.Time
	tok string
}

func (l *tmlog) add(tok string) {
	l.mu.Lock()
	l.evs = append(l.evs, tev{time.Now(), tok})
	l.mu.Unlock()
}

type serialScript struct {
	script []lifeOutcome
	k      int
	log    *tmlog
	doneCh chan struct{}
	blockW bool // every port's Write blocks until the port is closed, and the read side fails only while a Write is in progress
}

var serialScripts sync.Map // device -> *serialScript

func lifeSerialOpen(device string, _ int) (io.ReadWriteCloser, error) {
	v, ok := serialScripts.Load(device)
	if !ok {
		return nil, errors.New("no such device")
	}
	ss := v.(*serialScript)
	ss.log.mu.Lock()
	k := ss.k
	ss.k++
	ss.log.mu.Unlock()
	if k == 0 {
		return newMemConn(nil), nil // the existence test of Initialize
	}
	i := k - 1
	if i >= len(ss.script) {
		if i == len(ss.script) {
			close(ss.doneCh)
		}
		return nil, errors.New("script over")
	}
	o := ss.script[i]
	if !o.ok {
		ss.log.add("A:f")
		if i == len(ss.script)-1 {
			close(ss.doneCh)
			ss.k++
		}
		return nil, errors.New("serial: cannot open")
	}
	ss.log.add("A:o")
	var stream []byte
	for j := 0; j < o.frames; j++ {
		stream = append(stream, hbFrameBytes(byte(3+j%5), 1, byte(j), common.MAV_AUTOPILOT_GENERIC)...)
	}
	var chunks [][]byte
	if len(stream) > 0 {
		chunks = [][]byte{stream}
	}
	c := newMemConn(chunks)
	if o.end == 'z' {
		c.endErr = io.EOF
	} else {
		c.endErr = trErr{i}
	}
	if ss.blockW {
		c.blockAt = 0
		c.endWaitWrite = true
	}
	return c, nil
}

// trace reconstruction shared by the client kinds: tokens with times -> "A:f W A:o O F3 C(tr2) W ..."
func renderTrace(evs []tev, t0 time.Time) string {
	var out []string
	last := t0
	frames := 0
	for _, e := range evs {
		switch {
		case strings.HasPrefix(e.tok, "A:"):
			w := waits(e.t.Sub(last))
			if w < 0 {
				out = append(out, fmt.Sprintf("?gap%dms", e.t.Sub(last).Milliseconds()))
			}
			for i := 0; i < w; i++ {
				out = append(out, "W")
			}
			out = append(out, e.tok)
			last = e.t
		case e.tok == "O":
			frames = 0
			out = append(out, "O")
		case e.tok == "F":
			frames++
		case strings.HasPrefix(e.tok, "C("):
			out = append(out, fmt.Sprintf("F%d", frames), e.tok)
			last = e.t
		default:
			out = append(out, e.tok)
		}
	}
	if len(out) == 0 {
		return "-"
	}
	return strings.Join(out, "_")
}

func runLifeSerial(id int, script string, blockW bool) string {
	dev := fmt.Sprintf("/dev/life%d", id)
	ss := &serialScript{script: parseSerialScript(script), log: &tmlog{}, doneCh: make(chan struct{}), blockW: blockW}
	serialScripts.Store(dev, ss)
	defer serialScripts.Delete(dev)
	n := &gomavlib.Node{Endpoints: []gomavlib.EndpointConf{gomavlib.EndpointSerial{Device: dev, Baud: 57600}},
		Dialect: common.Dialect, OutVersion: gomavlib.V2, OutSystemID: 9, HeartbeatDisable: true}
	t0 := time.Now()
	if err := n.Initialize(); err != nil {
		return "init-err"
	}
	open := 0
	maxOpen := 0
	consDone := make(chan struct{})
	go func() {
		defer close(consDone)
		for e := range n.Events() {
			switch ev := e.(type) {
			case *gomavlib.EventChannelOpen:
				open++
				if open > maxOpen {
					maxOpen = open
				}
				ss.log.add("O")
				if blockW {
					// something to write: the channel's writer enters the (blocking) Write of the port
					go n.WriteMessageTo(ev.Channel, &common.MessageHeartbeat{Type: 1}) //nolint:errcheck
				}
			case *gomavlib.EventFrame:
				ss.log.add("F")
			case *gomavlib.EventChannelClose:
				open--
				ss.log.add("C(" + causeString(ev.Error) + ")")
			}
		}
	}()
	if len(ss.script) == 0 {
		close(ss.doneCh)
	}
	select {
	case <-ss.doneCh:
	case <-time.After(time.Duration(len(ss.script)+4)*lifePeriod + 5*time.Second):
		ss.log.add("STALLED")
	}
	// the last scripted outcome has been handed out; if it was a channel, wait for its close event
	if l := len(ss.script); l > 0 && ss.script[l-1].ok {
		deadline := time.Now().Add(3 * time.Second)
		for time.Now().Before(deadline) {
			ss.log.mu.Lock()
			n := len(ss.log.evs)
			lastTok := ""
			if n > 0 {
				lastTok = ss.log.evs[n-1].tok
			}
			ss.log.mu.Unlock()
			if strings.HasPrefix(lastTok, "C(") {
				break
			}
			time.Sleep(5 * time.Millisecond)
		}
	}
	ss.log.mu.Lock()
	evs := append([]tev(nil), ss.log.evs...)
	ss.log.mu.Unlock()
	closeWithin(n, consDone)
	tr := renderTrace(evs, t0)
	if maxOpen > 1 {
		tr += "_TWO-OPEN"
	}
	return tr
}

func closeWithin(n *gomavlib.Node, consDone chan struct{}) {
	done := make(chan struct{})
	go func() { n.Close(); close(done) }()
	select {
	case <-done:
	case <-time.After(8 * time.Second):
	}
	select {
	case <-consDone:
	case <-time.After(2 * time.Second):
	}
}

// ---------------------------------------------------------------- TCP client against a scripted peer

type tcpPhase struct {
	down   int // failed attempts before the peer is reachable
	frames int
	end    byte // z: peer closes, r: peer resets, i: peer goes silent (idle expiry)
}

func parseTcpScript(s string) []tcpPhase {
	var out []tcpPhase
	if s == "-" {
		return nil
	}
	for _, t := range strings.Split(s, ",") {
		// d<down>o<frames><end>
		var p tcpPhase
		var e string
		fmt.Sscanf(t, "d%do%d%s", &p.down, &p.frames, &e)
		p.end = e[0]
		out = append(out, p)
	}
	return out
}

func runLifeTcpc(script string) string {
	phases := parseTcpScript(script)
	port := freePort(false)
	addr := fmt.Sprintf("127.0.0.1:%d", port)
	lg := &tmlog{}
	var l net.Listener
	var lmu sync.Mutex
	accepted := make(chan net.Conn, 4)
	up := func() {
		lmu.Lock()
		defer lmu.Unlock()
		if l != nil {
			return
		}
		var err error
		for i := 0; i < 50; i++ {
			l, err = net.Listen("tcp4", addr)
			if err == nil {
				break
			}
			time.Sleep(2 * time.Millisecond)
		}
		if err != nil {
			lg.add("LISTEN-FAILED")
			return
		}
		go func(l net.Listener) {
			for {
				c, err := l.Accept()
				if err != nil {
					return
				}
				lg.add("A:o")
				accepted <- c
			}
		}(l)
	}
	down := func() {
		lmu.Lock()
		defer lmu.Unlock()
		if l != nil {
			l.Close()
			l = nil
		}
	}
	defer down()
	if len(phases) > 0 && phases[0].down == 0 {
		up()
	}
	n := &gomavlib.Node{Endpoints: []gomavlib.EndpointConf{gomavlib.EndpointTCPClient{Address: addr}},
		Dialect: common.Dialect, OutVersion: gomavlib.V2, OutSystemID: 9, HeartbeatDisable: true,
		IdleTimeout: lifeIdle, ReadTimeout: 5 * lifePeriod / 2}
	t0 := time.Now()
	if err := n.Initialize(); err != nil {
		return "init-err"
	}
	open, maxOpen := 0, 0
	closes := make(chan struct{}, 16)
	consDone := make(chan struct{})
	go func() {
		defer close(consDone)
		for e := range n.Events() {
			switch ev := e.(type) {
			case *gomavlib.EventChannelOpen:
				open++
				if open > maxOpen {
					maxOpen = open
				}
				lg.add("O")
			case *gomavlib.EventFrame:
				lg.add("F")
			case *gomavlib.EventChannelClose:
				open--
				lg.add("C(" + causeString(ev.Error) + ")")
				closes <- struct{}{}
			}
		}
	}()
	last := t0
	for i, ph := range phases {
		if ph.down > 0 {
			// attempts happen at last + k*period (k from 0 for the first phase, from 1 afterwards): let `down` of them fail
			k := float64(ph.down) + 0.5
			if i == 0 {
				k = float64(ph.down) - 0.5
			}
			time.Sleep(time.Until(last.Add(time.Duration(k * float64(lifePeriod)))))
			up()
		}
		var c net.Conn
		select {
		case c = <-accepted:
		case <-time.After(time.Duration(ph.down+3)*lifePeriod + 3*time.Second):
			lg.add("NO-CONNECTION")
		}
		if c == nil {
			break
		}
		var stream []byte
		for j := 0; j < ph.frames; j++ {
			stream = append(stream, hbFrameBytes(byte(3+j%5), 1, byte(j), common.MAV_AUTOPILOT_GENERIC)...)
		}
		c.Write(stream) //nolint
		// let the frames be read before the connection ends
		time.Sleep(30 * time.Millisecond)
		if i+1 < len(phases) && phases[i+1].down > 0 {
			down()
		} else {
			up()
		}
		switch ph.end {
		case 'z':
			c.Close()
		case 'r':
			c.(*net.TCPConn).SetLinger(0) //nolint
			c.Close()
		case 'i':
			defer c.Close()
		}
		select {
		case <-closes:
		case <-time.After(lifeIdle + 3*time.Second):
			lg.add("NO-CLOSE-EVENT")
		}
		lg.mu.Lock()
		last = lg.evs[len(lg.evs)-1].t
		lg.mu.Unlock()
	}
	lg.mu.Lock()
	evs := append([]tev(nil), lg.evs...)
	lg.mu.Unlock()
	closeWithin(n, consDone)
	// the accept is logged by the peer, the open event by the consumer: order them as the model does (attempt, then open)
	sort.SliceStable(evs, func(i, j int) bool { return evs[i].t.Before(evs[j].t) })
	tr := renderTcpTrace(evs, t0)
	if maxOpen > 1 {
		tr += "_TWO-OPEN"
	}
	return tr
}

// failed attempts of a TCP client are not visible to the peer: they are inferred from the number of periods that passed
func renderTcpTrace(evs []tev, t0 time.Time) string {
	var out []string
	last := t0
	first := true
	frames := 0
	// the dial completes (and the open event may be seen) before the peer's Accept returns: attempt first, then open
	for i := 0; i+1 < len(evs); i++ {
		if evs[i].tok == "O" && evs[i+1].tok == "A:o" {
			evs[i], evs[i+1] = evs[i+1], evs[i]
			evs[i].t = evs[i+1].t
		}
	}
	for _, e := range evs {
		switch {
		case e.tok == "A:o":
			w := waits(e.t.Sub(last))
			if w < 0 {
				out = append(out, fmt.Sprintf("?gap%dms", e.t.Sub(last).Milliseconds()))
				w = 0
			}
			if first {
				for i := 0; i < w; i++ {
					out = append(out, "A:f", "W")
				}
			} else {
				for i := 0; i < w-1; i++ {
					out = append(out, "W", "A:f")
				}
				if w >= 1 {
					out = append(out, "W")
				}
			}
			out = append(out, "A:o")
			first = false
		case e.tok == "O":
			frames = 0
			out = append(out, "O")
		case e.tok == "F":
			frames++
		case strings.HasPrefix(e.tok, "C("):
			out = append(out, fmt.Sprintf("F%d", frames), e.tok)
			last = e.t
		default:
			out = append(out, e.tok)
		}
	}
	if len(out) == 0 {
		return "-"
	}
	return strings.Join(out, "_")
}

// ---------------------------------------------------------------- UDP client: idle expiry, again and again

// runLifeUdpc: a UDP client whose peer is silent (refused=false: the idle timeout ends each channel) or absent (refused=true: the
// port is not bound; once the node has sent something the kernel reports "connection refused" to the reader).
func runLifeUdpc(cycles int, refused bool) string {
	pc, err := net.ListenPacket("udp4", "127.0.0.1:0")
	if err != nil {
		return "listen-failed"
	}
	if refused {
		pc.Close() // nobody listens there any more
	} else {
		defer pc.Close()
	}
	n := &gomavlib.Node{Endpoints: []gomavlib.EndpointConf{gomavlib.EndpointUDPClient{Address: pc.LocalAddr().String()}},
		Dialect: common.Dialect, OutVersion: gomavlib.V2, OutSystemID: 9, HeartbeatDisable: true, IdleTimeout: lifeIdle}
	if err := n.Initialize(); err != nil {
		return "init-err"
	}
	var out []string
	open, maxOpen := 0, 0
	var lastClose time.Time
	timeout := time.After(time.Duration(cycles)*(lifeIdle+lifePeriod) + 5*time.Second)
	nClose := 0
loop:
	for nClose < cycles {
		select {
		case e, ok := <-n.Events():
			if !ok {
				break loop
			}
			switch ev := e.(type) {
			case *gomavlib.EventChannelOpen:
				open++
				if open > maxOpen {
					maxOpen = open
				}
				if !lastClose.IsZero() {
					w := waits(time.Since(lastClose))
					if w < 0 {
						out = append(out, fmt.Sprintf("?gap%dms", time.Since(lastClose).Milliseconds()))
					}
					for i := 0; i < w; i++ {
						out = append(out, "W")
					}
				}
				out = append(out, "A:o", "O")
				if refused {
					for i := 0; i < 3; i++ {
						n.WriteMessageTo(ev.Channel, &common.MessageHeartbeat{Type: 1}) //nolint:errcheck
					}
				}
			case *gomavlib.EventChannelClose:
				open--
				nClose++
				lastClose = time.Now()
				out = append(out, "F0", "C("+causeString(ev.Error)+")")
			}
		case <-timeout:
			out = append(out, "STALLED")
			break loop
		}
	}
	consDone := make(chan struct{})
	go func() {
		for range n.Events() {
		}
		close(consDone)
	}()
	closeWithin(n, consDone)
	if maxOpen > 1 {
		out = append(out, "TWO-OPEN")
	}
	if len(out) == 0 {
		return "-"
	}
	return strings.Join(out, "_")
}

// ---------------------------------------------------------------- servers: one channel per peer

type peerSpec struct {
	frames int
	end    byte // z: close, r: reset, i: silent, a: keeps sending (must stay open)
}

func parsePeers(s string) []peerSpec {
	var out []peerSpec
	for _, t := range strings.Split(s, ",") {
		var p peerSpec
		var e string
		fmt.Sscanf(t, "p%d%s", &p.frames, &e)
		p.end = e[0]
		out = append(out, p)
	}
	return out
}

func runLifeServer(udp bool, script string) string {
	peers := parsePeers(script)
	port := freePort(udp)
	addr := fmt.Sprintf("127.0.0.1:%d", port)
	var ep gomavlib.EndpointConf = gomavlib.EndpointTCPServer{Address: addr}
	network := "tcp4"
	if udp {
		ep = gomavlib.EndpointUDPServer{Address: addr}
		network = "udp4"
	}
	n := &gomavlib.Node{Endpoints: []gomavlib.EndpointConf{ep}, Dialect: common.Dialect, OutVersion: gomavlib.V2, OutSystemID: 9,
		HeartbeatDisable: true, IdleTimeout: lifeIdle}
	if err := n.Initialize(); err != nil {
		return "init-err"
	}
	type chanLog struct {
		toks   []string
		frames int
		closed bool
	}
	var mu sync.Mutex
	byLabel := map[string]*chanLog{}
	consDone := make(chan struct{})
	go func() {
		defer close(consDone)
		for e := range n.Events() {
			ch := evChannel(e)
			if ch == nil {
				continue
			}
			lb := ch.String()
			lb = lb[strings.IndexByte(lb, ':')+1:]
			mu.Lock()
			cl := byLabel[lb]
			if cl == nil {
				cl = &chanLog{}
				byLabel[lb] = cl
			}
			switch ev := e.(type) {
			case *gomavlib.EventChannelOpen:
				cl.toks = append(cl.toks, "O")
			case *gomavlib.EventFrame:
				cl.frames++
			case *gomavlib.EventChannelClose:
				cl.toks = append(cl.toks, fmt.Sprintf("F%d", cl.frames), "C("+causeString(ev.Error)+")")
				cl.closed = true
			}
			mu.Unlock()
		}
	}()
	locals := make([]string, len(peers))
	var wg sync.WaitGroup
	stopAlive := make(chan struct{})
	for i, p := range peers {
		// peers arrive one after the other, while earlier ones are ending: the endpoint must keep accepting
		time.Sleep(20 * time.Millisecond)
		c, err := net.Dial(network, addr)
		if err != nil {
			locals[i] = "dial-failed"
			continue
		}
		locals[i] = c.LocalAddr().String()
		wg.Add(1)
		go func(p peerSpec, c net.Conn) {
			defer wg.Done()
			one := hbFrameBytes(5, 1, 0, common.MAV_AUTOPILOT_GENERIC)
			for j := 0; j < p.frames; j++ {
				c.Write(one) //nolint
				if udp {
					time.Sleep(time.Millisecond)
				}
			}
			if udp && p.frames == 0 {
				c.Write([]byte{0}) //nolint  a datagram is what creates the peer
			}
			switch p.end {
			case 'z':
				time.Sleep(40 * time.Millisecond)
				c.Close()
			case 'r':
				time.Sleep(40 * time.Millisecond)
				if t, ok := c.(*net.TCPConn); ok {
					t.SetLinger(0) //nolint
				}
				c.Close()
			case 'i':
				<-stopAlive
				c.Close()
			case 'a':
				tk := time.NewTicker(lifeIdle / 4)
				defer tk.Stop()
				for {
					select {
					case <-tk.C:
						c.Write([]byte{0x55}) //nolint  junk, not a frame: traffic all the same
					case <-stopAlive:
						c.Close()
						return
					}
				}
			}
		}(p, c)
	}
	// long enough for every silent peer to expire and for the busy ones to be wrongly expired
	time.Sleep(2*lifeIdle + 250*time.Millisecond)
	mu.Lock()
	var res []string
	for i, p := range peers {
		cl := byLabel[locals[i]]
		if cl == nil {
			res = append(res, "none")
			continue
		}
		s := strings.Join(cl.toks, "_")
		if p.end == 'a' || (udp && (p.end == 'z' || p.end == 'r')) {
			// still open: frames so far are not part of the answer
		}
		if !cl.closed {
			s += "_open"
		}
		res = append(res, s)
	}
	extra := len(byLabel) - len(peers)
	mu.Unlock()
	close(stopAlive)
	wg.Wait()
	closeWithin(n, consDone)
	out := strings.Join(res, ";")
	if extra > 0 {
		out += fmt.Sprintf(";EXTRA-CHANNELS=%d", extra)
	}
	return out
}

// ---------------------------------------------------------------- timednetconn over a recording conn

type recConn struct {
	log     []string
	failSet int // index of the Set*Deadline call that fails (-1: none)
	sets    int
	idle    time.Duration
	wt      time.Duration
}

func (r *recConn) dl(kind string, t time.Time, want time.Duration) error {
	k := r.sets
	r.sets++
	d := time.Until(t)
	st := "ok"
	if d > want || d < want-200*time.Millisecond {
		st = fmt.Sprintf("bad(%dms)", d.Milliseconds())
	}
	if k == r.failSet {
		r.log = append(r.log, kind+":fail")
		return errors.New("set deadline failed")
	}
	r.log = append(r.log, kind+":"+st)
	return nil
}
func (r *recConn) Read(p []byte) (int, error)         { r.log = append(r.log, "r"); return 0, nil }
func (r *recConn) Write(p []byte) (int, error)        { r.log = append(r.log, "w"); return len(p), nil }
func (r *recConn) Close() error                       { r.log = append(r.log, "c"); return nil }
func (r *recConn) LocalAddr() net.Addr                { return nil }
func (r *recConn) RemoteAddr() net.Addr               { return nil }
func (r *recConn) SetDeadline(t time.Time) error      { r.log = append(r.log, "sd"); return nil }
func (r *recConn) SetReadDeadline(t time.Time) error  { return r.dl("srd", t, r.idle) }
func (r *recConn) SetWriteDeadline(t time.Time) error { return r.dl("swd", t, r.wt) }

func implTnc(t []string) string {
	idle, _ := strconv.Atoi(t[1])
	wt, _ := strconv.Atoi(t[2])
	fail, _ := strconv.Atoi(t[3])
	rc := &recConn{failSet: fail, idle: time.Duration(idle) * time.Millisecond, wt: time.Duration(wt) * time.Millisecond}
	c := timednetconn.New(rc.idle, rc.wt, rc)
	buf := make([]byte, 8)
	for i, ch := range t[4] {
		switch ch {
		case 'r':
			c.Read(buf) //nolint
		case 'w':
			c.Write(buf) //nolint
		case 'c':
			c.Close()
		case 's':
			time.Sleep(time.Duration(1+i%3) * time.Millisecond) // time passes between calls: deadlines must be re-armed
		}
	}
	if len(rc.log) == 0 {
		return "-"
	}
	return strings.Join(rc.log, "_")
}

// ---------------------------------------------------------------- generator

func implLifecheck(t []string) string {
	return undisturbed(func() string { return implLifecheck1(t) })
}

func implLifecheck1(t []string) string {
	switch t[1] {
	case "serial":
		return runLifeSerial(int(time.Now().UnixNano()%1000000), t[2], false)
	case "serialbw":
		return runLifeSerial(int(time.Now().UnixNano()%1000000), t[2], true)
	case "tcpc":
		return runLifeTcpc(t[2])
	case "udpc":
		k, _ := strconv.Atoi(t[2])
		return runLifeUdpc(k, false)
	case "udpr":
		k, _ := strconv.Atoi(t[2])
		return runLifeUdpc(k, true)
	case "tcps":
		return runLifeServer(false, t[2])
	case "udps":
		return runLifeServer(true, t[2])
	}
	return "bad-op"
}

func lifeSetup() func() {
	oldRP := gomavlib.VerifSetReconnectPeriod(lifePeriod)
	oldSO := gomavlib.VerifSetSerialOpenFunc(lifeSerialOpen)
	return func() {
		gomavlib.VerifSetReconnectPeriod(oldRP)
		gomavlib.VerifSetSerialOpenFunc(oldSO)
	}
}

func genC14(r *rngT, n int, tier string) {
	defer lifeSetup()()
	// timednetconn: pure, many
	for i := 0; i < 20+n; i++ {
		var sb strings.Builder
		for j := 0; j < 1+r.Intn(12); j++ {
			sb.WriteByte("rrwws"[r.Intn(5)])
		}
		if r.Intn(4) == 0 {
			sb.WriteByte('c')
		}
		fail := -1
		if r.Intn(3) == 0 {
			fail = r.Intn(6)
		}
		op := fmt.Sprintf("tnc %d %d %d %s", 50+r.Intn(5000), 50+r.Intn(5000), fail, sb.String())
		emit(op, implTnc(strings.Split(op, " ")))
		stat("op:tnc")
	}
	// lifecycle scenarios: run concurrently (they mostly sleep), print in order
	type job struct {
		op   string
		impl string
	}
	jobs := make([]job, n)
	for i := range jobs {
		switch i % 5 {
		case 0, 1: // serial
			var toks []string
			for j := 0; j < 1+r.Intn(7); j++ {
				if r.Intn(2) == 0 {
					toks = append(toks, "f")
				} else {
					toks = append(toks, fmt.Sprintf("o%d%c", r.Intn(5), "ez"[r.Intn(2)]))
				}
			}
			if i%5 == 1 {
				// the same with a port whose Write is stuck when the read side fails
				jobs[i].op = "lifecheck serialbw " + strings.Join(toks, ",")
				stat("c14-serial-blocked-writer")
			} else {
				jobs[i].op = "lifecheck serial " + strings.Join(toks, ",")
				stat("c14-serial")
			}
		case 2: // tcp client
			var toks []string
			for j := 0; j < 1+r.Intn(3); j++ {
				toks = append(toks, fmt.Sprintf("d%do%d%c", r.Intn(5), r.Intn(4), "zri"[r.Intn(3)]))
			}
			jobs[i].op = "lifecheck tcpc " + strings.Join(toks, ",")
			stat("c14-tcpc")
		case 3: // servers
			var toks []string
			udp := r.bool()
			for j := 0; j < 1+r.Intn(5); j++ {
				ends := "zria"
				if udp {
					ends = "ia"
				}
				toks = append(toks, fmt.Sprintf("p%d%c", r.Intn(4), ends[r.Intn(len(ends))]))
			}
			kind := "tcps"
			if udp {
				kind = "udps"
				stat("c14-udps")
			} else {
				stat("c14-tcps")
			}
			jobs[i].op = "lifecheck " + kind + " " + strings.Join(toks, ",")
		case 4:
			if r.bool() {
				jobs[i].op = fmt.Sprintf("lifecheck udpr %d", 1+r.Intn(4))
				stat("c14-udpc-refused")
			} else {
				jobs[i].op = fmt.Sprintf("lifecheck udpc %d", 1+r.Intn(3))
				stat("c14-udpc")
			}
		}
	}
	sem := make(chan struct{}, 6)
	var wg sync.WaitGroup
	for i := range jobs {
		wg.Add(1)
		sem <- struct{}{}
		go func(i int) {
			defer wg.Done()
			defer func() { <-sem }()
			t := strings.Split(jobs[i].op, " ")
			if t[1] == "serial" || t[1] == "serialbw" {
				jobs[i].impl = undisturbed(func() string { return runLifeSerial(i, t[2], t[1] == "serialbw") })
			} else {
				jobs[i].impl = implLifecheck(t)
			}
		}(i)
	}
	wg.Wait()
	for _, j := range jobs {
		emit(j.op, j.impl)
		stat("op:lifecheck")
	}
}
