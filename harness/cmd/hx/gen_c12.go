package main

import (
	"errors"
	"fmt"
	"io"
	"net"
	"os"
	"strings"
	"sync"
	"sync/atomic"
	"time"

	"github.com/bluenviron/gomavlib/v3"
	"github.com/bluenviron/gomavlib/v3/pkg/dialects/common"
	"github.com/bluenviron/gomavlib/v3/pkg/frame"
	"github.com/bluenviron/gomavlib/v3/pkg/message"
)

// C12: Close terminates and releases everything.
//
// A scenario builds a node over a mix of endpoint kinds, puts it in a chosen situation (reader blocked on an undelivered
// event, writer blocked in the transport, provider in reconnect back-off, peers disconnecting, Write* callers running),
// calls Close, and measures what the property names: Close returned, the event channel is closed, no library goroutine is
// left, ports can be bound again, peers see the connection end, custom transports were closed exactly once, Write* calls
// racing with / following Close return and do not panic.

type closeSc struct {
	eps      []string // custom | customBW | customRF | tcps | udps | tcpc-up | tcpc-down | udpc | serial-up | serial-down | bcast
	consumer string   // run | stop<N>
	traffic  int      // inbound frames per channel
	writers  int
	hb       bool
	sr       bool
	delayUs  int
	peerDrop bool // peers disconnect at the moment of Close (channels mid-close)
	storm    bool // datagrams from new peers keep reaching the UDP server endpoints while the node is closed
	seed     int64
}

func (sc closeSc) String() string {
	b2 := func(b bool) int {
		if b {
			return 1
		}
		return 0
	}
	return fmt.Sprintf("%s:%s:t%d:w%d:hb%d:sr%d:d%d:pd%d:st%d", strings.Join(sc.eps, "+"), sc.consumer, sc.traffic, sc.writers,
		b2(sc.hb), b2(sc.sr), sc.delayUs, b2(sc.peerDrop), b2(sc.storm))
}

type closeObs struct {
	ret, evClosed, lateWrites bool
	gor                       int
	ports, peers              []bool
	custom                    []int
	panics                    int32
	note                      string
}

func bits(bs []bool) string {
	if len(bs) == 0 {
		return "-"
	}
	var sb strings.Builder
	for _, b := range bs {
		if b {
			sb.WriteByte('1')
		} else {
			sb.WriteByte('0')
		}
	}
	return sb.String()
}

func (o closeObs) String() string {
	b2 := func(b bool) int {
		if b {
			return 1
		}
		return 0
	}
	var cs []string
	for _, c := range o.custom {
		cs = append(cs, fmt.Sprint(c))
	}
	c := "-"
	if len(cs) > 0 {
		c = strings.Join(cs, ".")
	}
	return fmt.Sprintf("ret=%d,evclosed=%d,gor=%d,ports=%s,peers=%s,custom=%s,late=%d,panics=%d", b2(o.ret), b2(o.evClosed), o.gor,
		bits(o.ports), bits(o.peers), c, b2(o.lateWrites), o.panics)
}

func freePort(udp bool) int {
	if udp {
		pc, err := net.ListenPacket("udp4", "127.0.0.1:0")
		if err != nil {
			return 0
		}
		defer pc.Close()
		return pc.LocalAddr().(*net.UDPAddr).Port
	}
	l, err := net.Listen("tcp4", "127.0.0.1:0")
	if err != nil {
		return 0
	}
	defer l.Close()
	return l.Addr().(*net.TCPAddr).Port
}

func canBind(udp bool, port int) bool {
	addr := fmt.Sprintf("127.0.0.1:%d", port)
	deadline := time.Now().Add(1500 * time.Millisecond)
	for {
		var err error
		if udp {
			var pc net.PacketConn
			pc, err = net.ListenPacket("udp4", addr)
			if err == nil {
				pc.Close()
			}
		} else {
			var l net.Listener
			l, err = net.Listen("tcp4", addr)
			if err == nil {
				l.Close()
			}
		}
		if err == nil {
			return true
		}
		if time.Now().After(deadline) {
			return false
		}
		time.Sleep(20 * time.Millisecond)
	}
}

// hbFrame: a valid v2 heartbeat frame from (sys, comp)
func hbFrameBytes(sys, comp byte, seq byte, autopilot common.MAV_AUTOPILOT) []byte {
	return hbFrameBytesV(sys, comp, seq, autopilot, 0)
}

// hbFrameBytesV: the other fields of the heartbeat (vehicle type, base mode, custom mode, system status, protocol version) take
// values derived from `variant` (0: the usual ones): none of them has any bearing on heartbeats or stream requests.
func hbFrameBytesV(sys, comp byte, seq byte, autopilot common.MAV_AUTOPILOT, variant int) []byte {
	hb := &common.MessageHeartbeat{Type: 1, Autopilot: autopilot, SystemStatus: 4, MavlinkVersion: 3}
	if variant != 0 {
		v := uint32(variant) * 2654435761
		hb.Type = common.MAV_TYPE(v % 44)
		hb.BaseMode = common.MAV_MODE_FLAG((v >> 8) & 0xFF)
		hb.CustomMode = v
		hb.SystemStatus = common.MAV_STATE((v >> 16) % 9) // UNINIT, BOOT, CALIBRATING, STANDBY, ACTIVE, CRITICAL, EMERGENCY, POWEROFF, FLIGHT_TERMINATION
		hb.MavlinkVersion = uint8(v >> 24)
	}
	var buf strings.Builder
	w := &frame.Writer{ByteWriter: &sbWriter{&buf}, DialectRW: getDialectRW("common"), OutVersion: frame.V2, OutSystemID: sys, OutComponentID: comp}
	if err := w.Initialize(); err != nil {
		panic(err)
	}
	if err := w.WriteMessage(hb); err != nil {
		panic(err)
	}
	b := []byte(buf.String())
	// sequence number, then the checksum again (CRC_EXTRA of HEARTBEAT = 50)
	b[4] = seq
	f := &frame.V2Frame{SequenceNumber: seq, SystemID: sys, ComponentID: comp, Message: &message.MessageRaw{ID: 0, Payload: b[10 : len(b)-2]}}
	cs := f.GenerateChecksum(50)
	b[len(b)-2], b[len(b)-1] = byte(cs), byte(cs>>8)
	return b
}

type sbWriter struct{ b *strings.Builder }

func (s *sbWriter) Write(p []byte) (int, error) { return s.b.Write(p) }

// serial ports opened through the hook
type fakeSerial struct {
	*memConn
}

type serialBook struct {
	mu     sync.Mutex
	ports  []*memConn
	opens  int
	failFn func(k int) bool // k-th open (0 = the existence test of Initialize) fails?
	stream []byte
	blockW bool // writes on the opened port block until it is closed
}

func (sb *serialBook) open(string, int) (io.ReadWriteCloser, error) {
	sb.mu.Lock()
	defer sb.mu.Unlock()
	k := sb.opens
	sb.opens++
	if sb.failFn != nil && sb.failFn(k) {
		return nil, errors.New("serial: no such device")
	}
	var chunks [][]byte
	if k > 0 && len(sb.stream) > 0 {
		chunks = [][]byte{append([]byte(nil), sb.stream...)}
	}
	c := newMemConn(chunks)
	if sb.blockW {
		c.blockAt = 0
	}
	sb.ports = append(sb.ports, c)
	return c, nil
}

func runCloseScenario(sc closeSc) (obs closeObs) {
	r := newRng(sc.seed)
	obs.ret, obs.evClosed, obs.lateWrites = false, false, false
	oldRP := gomavlib.VerifSetReconnectPeriod(time.Duration(100+r.Intn(400)) * time.Millisecond)
	defer gomavlib.VerifSetReconnectPeriod(oldRP)
	book := &serialBook{}
	oldSO := gomavlib.VerifSetSerialOpenFunc(book.open)
	defer gomavlib.VerifSetSerialOpenFunc(oldSO)

	var stream []byte
	for i := 0; i < sc.traffic; i++ {
		ap := common.MAV_AUTOPILOT_GENERIC
		if i%2 == 0 {
			ap = common.MAV_AUTOPILOT_ARDUPILOTMEGA
		}
		stream = append(stream, hbFrameBytes(byte(3+i%5), 1, byte(i), ap)...)
	}
	book.stream = stream

	type portRef struct {
		udp  bool
		port int
	}
	var eps []gomavlib.EndpointConf
	var customs, rfConns []*memConn
	var ports []portRef
	var peerConns []net.Conn // harness side of TCP connections: must see the end of the connection
	var peerMu sync.Mutex
	var listeners []net.Listener
	var dialers []func()
	var udpSocks []net.PacketConn
	for _, kind := range sc.eps {
		switch kind {
		case "custom", "customBW", "customRF":
			c := newMemConn(chunkify(append([]byte(nil), stream...), []int{1 + r.Intn(60)}))
			if kind == "customBW" {
				c.blockAt = 0
			}
			if kind == "customRF" {
				// the transport's Read fails hard once while the node is open (its channel closes and the endpoint goes on);
				// the transport is still closed exactly once, by Close
				c.endErr, c.endErrOnce = errors.New("transport: input/output error"), true
				rfConns = append(rfConns, c)
			}
			customs = append(customs, c)
			eps = append(eps, gomavlib.EndpointCustom{ReadWriteCloser: c})
		case "tcps":
			p := freePort(false)
			ports = append(ports, portRef{false, p})
			eps = append(eps, gomavlib.EndpointTCPServer{Address: fmt.Sprintf("127.0.0.1:%d", p)})
			nc := 1 + r.Intn(2)
			dialers = append(dialers, func() {
				for i := 0; i < nc; i++ {
					c, err := net.DialTimeout("tcp4", fmt.Sprintf("127.0.0.1:%d", p), 2*time.Second)
					if err != nil {
						obs.note += "dial-failed;"
						continue
					}
					c.Write(stream) //nolint
					peerMu.Lock()
					peerConns = append(peerConns, c)
					peerMu.Unlock()
				}
			})
		case "udps":
			p := freePort(true)
			ports = append(ports, portRef{true, p})
			eps = append(eps, gomavlib.EndpointUDPServer{Address: fmt.Sprintf("127.0.0.1:%d", p)})
			dialers = append(dialers, func() {
				c, err := net.Dial("udp4", fmt.Sprintf("127.0.0.1:%d", p))
				if err != nil {
					obs.note += "dial-failed;"
					return
				}
				for off := 0; off < len(stream); off += 21 {
					end := off + 21
					if end > len(stream) {
						end = len(stream)
					}
					c.Write(stream[off:end]) //nolint
				}
				if len(stream) == 0 {
					c.Write([]byte{0}) //nolint
				}
				defer c.Close()
			})
		case "tcpc-up":
			l, err := net.Listen("tcp4", "127.0.0.1:0")
			if err != nil {
				obs.note += "listen-failed;"
				continue
			}
			listeners = append(listeners, l)
			go func() {
				for {
					c, err := l.Accept()
					if err != nil {
						return
					}
					c.Write(stream) //nolint
					peerMu.Lock()
					peerConns = append(peerConns, c)
					peerMu.Unlock()
				}
			}()
			eps = append(eps, gomavlib.EndpointTCPClient{Address: l.Addr().String()})
		case "tcpc-down":
			p := freePort(false) // nothing listens there: connection refused, then back-off
			eps = append(eps, gomavlib.EndpointTCPClient{Address: fmt.Sprintf("127.0.0.1:%d", p)})
		case "udpc":
			pc, err := net.ListenPacket("udp4", "127.0.0.1:0")
			if err != nil {
				obs.note += "listen-failed;"
				continue
			}
			udpSocks = append(udpSocks, pc)
			eps = append(eps, gomavlib.EndpointUDPClient{Address: pc.LocalAddr().String()})
		case "serial-up", "serialBW":
			book.blockW = kind == "serialBW"
			eps = append(eps, gomavlib.EndpointSerial{Device: "/dev/verif0", Baud: 57600})
		case "serial-down":
			book.failFn = func(k int) bool { return k > 0 }
			eps = append(eps, gomavlib.EndpointSerial{Device: "/dev/verif0", Baud: 57600})
		case "bcast":
			p := freePort(true)
			ports = append(ports, portRef{true, p})
			eps = append(eps, gomavlib.EndpointUDPBroadcast{BroadcastAddress: fmt.Sprintf("127.255.255.255:%d", p),
				LocalAddress: fmt.Sprintf("127.0.0.1:%d", p)})
		}
	}
	defer func() {
		for _, l := range listeners {
			l.Close()
		}
		for _, s := range udpSocks {
			s.Close()
		}
		peerMu.Lock()
		for _, c := range peerConns {
			c.Close()
		}
		peerMu.Unlock()
	}()

	n := &gomavlib.Node{Endpoints: eps, Dialect: common.Dialect, OutVersion: gomavlib.V2, OutSystemID: 9,
		HeartbeatDisable: !sc.hb, HeartbeatPeriod: time.Duration(1+r.Intn(5)) * time.Millisecond, StreamRequestEnable: sc.sr}
	if err := n.Initialize(); err != nil {
		obs.note += "init-err:" + err.Error()
		return obs
	}
	for _, d := range dialers {
		d()
	}

	// consumer
	var lastCh atomic.Pointer[gomavlib.Channel]
	stopAfter := -1
	if strings.HasPrefix(sc.consumer, "stop") {
		fmt.Sscanf(sc.consumer, "stop%d", &stopAfter)
	}
	consDone := make(chan struct{})
	resume := make(chan struct{})
	go func() {
		defer close(consDone)
		cnt := 0
		for {
			if stopAfter >= 0 && cnt == stopAfter {
				<-resume // the application stops receiving; it resumes only after Close has returned
				stopAfter = -1
			}
			e, ok := <-n.Events()
			if !ok {
				return
			}
			cnt++
			switch ev := e.(type) {
			case *gomavlib.EventChannelOpen:
				lastCh.Store(ev.Channel)
			case *gomavlib.EventFrame:
				if cnt%2 == 0 {
					n.WriteFrameExcept(ev.Channel, ev.Frame) //nolint  forwarding a received frame
				}
			}
		}
	}()

	// Write* callers: keep calling until told to stop, then a fixed number of calls more (after Close has returned)
	stopW := make(chan struct{})
	var wg sync.WaitGroup
	for w := 0; w < sc.writers; w++ {
		wg.Add(1)
		go func(w int) {
			defer wg.Done()
			defer func() {
				if rec := recover(); rec != nil {
					atomic.AddInt32(&obs.panics, 1)
				}
			}()
			late := 0
			for j := 0; late < 20; j++ {
				select {
				case <-stopW:
					late++
				default:
				}
				msg := &common.MessageHeartbeat{Type: 2, Autopilot: common.MAV_AUTOPILOT(j % 5)}
				fr := &frame.V2Frame{SequenceNumber: byte(j), SystemID: byte(20 + w), ComponentID: 1,
					Message: &message.MessageRaw{ID: 0, Payload: []byte{1, 2, 3, 4, 5, 6, 7, 8, 9}}}
				ch := lastCh.Load()
				switch (j + w) % 6 {
				case 0:
					n.WriteMessageAll(msg) //nolint
				case 1:
					n.WriteFrameAll(fr) //nolint
				case 2:
					if ch != nil {
						n.WriteMessageTo(ch, msg) //nolint
					}
				case 3:
					if ch != nil {
						n.WriteFrameTo(ch, fr) //nolint
					}
				case 4:
					n.WriteMessageExcept(ch, msg) //nolint
				case 5:
					n.WriteFrameExcept(ch, fr) //nolint
				}
				if j%8 == 0 {
					time.Sleep(30 * time.Microsecond)
				}
			}
		}(w)
	}

	stormStop := make(chan struct{})
	var stormWG sync.WaitGroup
	if sc.storm {
		for _, p := range ports {
			if !p.udp {
				continue
			}
			stormWG.Add(1)
			go func(port int) {
				defer stormWG.Done()
				for {
					select {
					case <-stormStop:
						return
					default:
					}
					c, err := net.Dial("udp4", fmt.Sprintf("127.0.0.1:%d", port))
					if err == nil {
						c.Write(hbFrameBytes(7, 1, 0, common.MAV_AUTOPILOT_GENERIC)) //nolint
						c.Close()
					}
					time.Sleep(20 * time.Microsecond)
				}
			}(p.port)
		}
	}
	defer func() { close(stormStop); stormWG.Wait() }()
	time.Sleep(time.Duration(sc.delayUs) * time.Microsecond)
	if sc.consumer == "run" {
		// transports whose Read fails: let the failure happen (and be handled) while the node is open
		for _, c := range rfConns {
			dl := time.Now().Add(300 * time.Millisecond)
			for time.Now().Before(dl) {
				c.mu.Lock()
				g := c.endErrGiven
				c.mu.Unlock()
				if g {
					break
				}
				time.Sleep(200 * time.Microsecond)
			}
		}
		if len(rfConns) > 0 {
			time.Sleep(time.Duration(sc.delayUs%3000) * time.Microsecond)
		}
	}
	if sc.peerDrop {
		peerMu.Lock()
		for _, c := range peerConns {
			c.Close()
		}
		peerConns = nil
		peerMu.Unlock()
	}

	bound := 8 * time.Second
	closed := make(chan struct{})
	go func() {
		defer func() {
			if rec := recover(); rec != nil {
				atomic.AddInt32(&obs.panics, 1)
			}
		}()
		n.Close()
		close(closed)
	}()
	select {
	case <-closed:
		obs.ret = true
	case <-time.After(bound):
		obs.note += "close-timeout;"
	}
	close(stopW)
	close(resume)
	wdone := make(chan struct{})
	go func() { wg.Wait(); close(wdone) }()
	select {
	case <-wdone:
		obs.lateWrites = true
	case <-time.After(bound):
		obs.note += "write-after-close-blocked;"
	}
	select {
	case <-consDone:
		obs.evClosed = true
	case <-time.After(bound):
		obs.note += "events-not-closed;"
	}
	if obs.ret {
		// a receive on the closed event channel returns at once
		select {
		case _, ok := <-n.Events():
			if ok {
				obs.evClosed = false
				obs.note += "event-after-close;"
			}
		case <-time.After(time.Second):
			obs.evClosed = false
		}
	}
	// peers see the end of their connections
	peerMu.Lock()
	pcs := append([]net.Conn(nil), peerConns...)
	peerMu.Unlock()
	for _, c := range pcs {
		c.SetReadDeadline(time.Now().Add(2 * time.Second)) //nolint
		ended := false
		buf := make([]byte, 4096)
		for {
			_, err := c.Read(buf)
			if err != nil {
				var ne net.Error
				ended = !(errors.As(err, &ne) && ne.Timeout()) || errors.Is(err, os.ErrClosed)
				break
			}
		}
		obs.peers = append(obs.peers, ended)
	}
	for _, p := range ports {
		obs.ports = append(obs.ports, canBind(p.udp, p.port))
	}
	for _, c := range customs {
		c.mu.Lock()
		obs.custom = append(obs.custom, c.closeCnt)
		c.mu.Unlock()
	}
	book.mu.Lock()
	for _, c := range book.ports {
		c.mu.Lock()
		obs.custom = append(obs.custom, c.closeCnt)
		c.mu.Unlock()
	}
	book.mu.Unlock()
	// "when it returns every goroutine the node started has ended": a goroutine past its last statement may still be visible
	// for an instant, so a short grace is given; anything alive after it is reported (with a note telling whether it went
	// away later or never)
	if obs.ret {
		obs.gor = waitNoLibGoroutines(150 * time.Millisecond)
		if obs.gor != 0 {
			obs.note += "goroutines-after-close:" + libGoroutineSummary() + ";"
			if late := waitNoLibGoroutines(3 * time.Second); late == 0 {
				obs.note += "gone-later;"
			}
		}
	} else {
		obs.gor = waitNoLibGoroutines(3 * time.Second)
		if obs.gor != 0 {
			obs.note += "goroutines:" + libGoroutineSummary() + ";"
		}
	}
	return obs
}

// initFail: a node whose last endpoint cannot be initialised
func runInitFail(r *rngT) (string, closeObs) {
	book := &serialBook{failFn: func(int) bool { return true }}
	oldSO := gomavlib.VerifSetSerialOpenFunc(book.open)
	defer gomavlib.VerifSetSerialOpenFunc(oldSO)
	var obs closeObs
	type portRef struct {
		udp  bool
		port int
	}
	var ports []portRef
	var eps []gomavlib.EndpointConf
	var kinds []string
	var customs []*memConn
	k := 1 + r.Intn(4)
	firstTCP := 0
	for i := 0; i < k; i++ {
		switch r.Intn(5) {
		case 0:
			p := freePort(false)
			if firstTCP == 0 {
				firstTCP = p
			}
			ports = append(ports, portRef{false, p})
			eps = append(eps, gomavlib.EndpointTCPServer{Address: fmt.Sprintf("127.0.0.1:%d", p)})
			kinds = append(kinds, "tcps")
		case 1:
			p := freePort(true)
			ports = append(ports, portRef{true, p})
			eps = append(eps, gomavlib.EndpointUDPServer{Address: fmt.Sprintf("127.0.0.1:%d", p)})
			kinds = append(kinds, "udps")
		case 2:
			c := newMemConn(nil)
			customs = append(customs, c)
			eps = append(eps, gomavlib.EndpointCustom{ReadWriteCloser: c})
			kinds = append(kinds, "custom")
		case 3:
			eps = append(eps, gomavlib.EndpointTCPClient{Address: fmt.Sprintf("127.0.0.1:%d", freePort(false))})
			kinds = append(kinds, "tcpc")
		case 4:
			p := freePort(true)
			ports = append(ports, portRef{true, p})
			eps = append(eps, gomavlib.EndpointUDPBroadcast{BroadcastAddress: fmt.Sprintf("127.255.255.255:%d", p),
				LocalAddress: fmt.Sprintf("127.0.0.1:%d", p)})
			kinds = append(kinds, "bcast")
		}
	}
	mayFail := false
	switch r.Intn(6) {
	case 4, 5:
		// a broadcast endpoint whose broadcast port is not a port number (out of range, a name, empty), with an explicit local
		// address that CAN be bound: whether Initialize refuses it or not, nothing may stay bound afterwards
		p := freePort(true)
		ports = append(ports, portRef{true, p})
		bad := []string{"70000", "mavlink", "", "-1", "65536"}[r.Intn(5)]
		eps = append(eps, gomavlib.EndpointUDPBroadcast{BroadcastAddress: "127.255.255.255:" + bad, LocalAddress: fmt.Sprintf("127.0.0.1:%d", p)})
		kinds = append(kinds, "MAYFAIL-bcast-port-"+bad)
		mayFail = true
	case 0:
		if firstTCP != 0 {
			eps = append(eps, gomavlib.EndpointTCPServer{Address: fmt.Sprintf("127.0.0.1:%d", firstTCP)})
			kinds = append(kinds, "FAIL-dup-port")
			break
		}
		fallthrough
	case 1:
		eps = append(eps, gomavlib.EndpointTCPClient{Address: "no-port-here"})
		kinds = append(kinds, "FAIL-bad-address")
	case 2:
		eps = append(eps, gomavlib.EndpointSerial{Device: "/dev/none", Baud: 1})
		kinds = append(kinds, "FAIL-serial")
	case 3:
		eps = append(eps, gomavlib.EndpointUDPServer{Address: "300.1.1.1:5"})
		kinds = append(kinds, "FAIL-bad-udp")
	}
	n := &gomavlib.Node{Endpoints: eps, Dialect: common.Dialect, OutVersion: gomavlib.V2, OutSystemID: 9}
	err := n.Initialize()
	obs.ret = err != nil || mayFail
	if err == nil {
		if !mayFail {
			obs.note = "initialize-succeeded"
		}
		n.Close()
	}
	obs.evClosed, obs.lateWrites = true, true
	for _, p := range ports {
		obs.ports = append(obs.ports, canBind(p.udp, p.port))
	}
	obs.gor = waitNoLibGoroutines(3 * time.Second)
	if obs.gor != 0 {
		obs.note += "goroutines:" + libGoroutineSummary() + ";"
	}
	return strings.Join(kinds, "+"), obs
}

func genC12(r *rngT, n int, tier string) {
	kinds := []string{"custom", "customBW", "customRF", "tcps", "udps", "tcpc-up", "tcpc-down", "udpc", "serial-up", "serial-down", "bcast", "serialBW"}
	if g := waitNoLibGoroutines(time.Second); g != 0 {
		emit("closecheck baseline ret=1,evclosed=1,gor="+fmt.Sprint(g)+",ports=-,peers=-,custom=-,late=1,panics=0 -", "ok")
	}
	for s := 0; s < n; s++ {
		if s%6 == 5 {
			desc, obs := runInitFail(r)
			emit(fmt.Sprintf("closecheck initfail:%s %s %s", desc, obs.String(), noteTok(obs.note)), "ok")
			out.Flush()
			stat("op:closecheck")
			stat("c12-initfail")
			if !obs.ret || obs.gor != 0 {
				break
			}
			continue
		}
		sc := closeSc{seed: r.Int63(), traffic: r.Intn(12), writers: r.Intn(4), hb: r.Intn(2) == 0, sr: r.Intn(2) == 0,
			peerDrop: r.Intn(4) == 0, storm: r.Intn(8) == 0}
		ne := 1 + r.Intn(4)
		serialUsed := false
		for i := 0; i < ne; i++ {
			k := kinds[r.Intn(len(kinds))]
			if strings.HasPrefix(k, "serial") {
				if serialUsed {
					k = "custom"
				}
				serialUsed = true
			}
			sc.eps = append(sc.eps, k)
			stat("c12-ep-" + k)
		}
		switch r.Intn(4) {
		case 0:
			sc.consumer = "run"
		case 1:
			sc.consumer = "stop0"
		default:
			sc.consumer = fmt.Sprintf("stop%d", 1+r.Intn(6))
		}
		for _, k := range sc.eps {
			if k == "customRF" && sc.seed%2 == 0 {
				sc.consumer = "run"
			}
		}
		switch r.Intn(4) {
		case 0:
			sc.delayUs = 0
		case 1:
			sc.delayUs = r.Intn(300)
		case 2:
			sc.delayUs = 300 + r.Intn(3000)
		default:
			sc.delayUs = 3000 + r.Intn(150000) // into the reconnect back-off / after the traffic
		}
		waitNoLibGoroutines(3 * time.Second)
		obs := runCloseScenario(sc)
		emit(fmt.Sprintf("closecheck %s %s %s", sc.String(), obs.String(), noteTok(obs.note)), "ok")
		out.Flush()
		stat("op:closecheck")
		stat("c12-consumer-" + strings.TrimRight(sc.consumer, "0123456789"))
		if !obs.ret || obs.gor != 0 || !obs.lateWrites || !obs.evClosed {
			break // the process is polluted by a node that did not shut down: one failing scenario is enough
		}
	}
}

func libGoroutineSummary() string {
	return strings.ReplaceAll(strings.Join(libGoroutineTops(), "|"), " ", "_")
}

func noteTok(s string) string {
	if s == "" {
		return "-"
	}
	s = strings.ReplaceAll(s, " ", "_")
	s = strings.ReplaceAll(s, "\t", "_")
	return strings.ReplaceAll(s, "\n", "_")
}
