// hx: differential harness. Runs the real gomavlib code in-process and prints, per line,
// "<op>\t<implementation answer>"; the same <op> lines are fed to the Lean driver (mavdrv).
package main

import (
	"bufio"
	"flag"
	"fmt"
	"os"
	"strings"
	"sync"
)

var out *bufio.Writer

// emit prints one op and the implementation's canonicalised answer.
func emit(op string, impl string) {
	if strings.ContainsAny(op, "\t\n") || strings.ContainsAny(impl, "\t\n") {
		panic("bad characters in op/impl: " + op + " / " + impl)
	}
	fmt.Fprintf(out, "%s\t%s\n", op, impl)
	if raceLog != "" {
		raceAfter(op)
	}
}

// setup lines are ops whose answer is compared too (defmsg).
var stats = map[string]int{}

var statMu sync.Mutex

func stat(k string) {
	statMu.Lock()
	stats[k]++
	statMu.Unlock()
}

func main() {
	group := flag.String("group", "", "frame|msg|enum|tlog|...")
	seed := flag.Int64("seed", 1, "PRNG seed")
	n := flag.Int("n", 1000, "size parameter")
	tier := flag.String("tier", "quick", "quick|thorough")
	corpus := flag.String("replay", "", "file with op lines to re-run (one per line)")
	statsFile := flag.String("stats", "", "write generator statistics here")
	flag.Parse()

	out = bufio.NewWriterSize(os.Stdout, 1<<20)
	defer out.Flush()

	rng := newRng(*seed)

	if *corpus != "" {
		replayFile(*corpus)
	} else {
		switch *group {
		case "C01":
			genC01(rng, *n, *tier)
		case "C02":
			genC02(rng, *n, *tier)
		case "C03":
			genC03(rng, *n, *tier)
		case "C04":
			genC04(rng, *n, *tier)
		case "C05":
			genC05(rng, *n, *tier)
		case "C06":
			genC06(rng, *n, *tier)
		case "C07":
			genC07(rng, *n, *tier)
		case "C08":
			genC08(rng, *n, *tier)
		case "C09":
			genC09(rng, *n, *tier)
		case "C10":
			genC10(rng, *n, *tier)
		case "C11":
			genC11(rng, *n, *tier)
		case "C12":
			genC12(rng, *n, *tier)
		case "C13":
			genC13(rng, *n, *tier)
		case "C14":
			genC14(rng, *n, *tier)
		case "C15":
			genC15(rng, *n, *tier)
		case "C16":
			genC16(rng, *n, *tier)
		case "C17":
			genC17(rng, *n, *tier)
		case "C18":
			genC18(rng, *n, *tier)
		case "C19":
			genC19(rng, *n, *tier)
		case "C19gen":
			genC19gen(rng, *n, *tier)
		case "C20":
			genC20(rng, *n, *tier)
		default:
			fmt.Fprintln(os.Stderr, "unknown group")
			os.Exit(2)
		}
	}

	if *statsFile != "" {
		f, err := os.Create(*statsFile)
		if err == nil {
			for k, v := range stats {
				fmt.Fprintf(f, "%s %d\n", k, v)
			}
			f.Close()
		}
	}
}

// replayFile re-executes op lines (as stored in corpus / replay files).
func replayFile(path string) {
	f, err := os.Open(path)
	if err != nil {
		fmt.Fprintln(os.Stderr, err)
		os.Exit(2)
	}
	defer f.Close()
	sc := bufio.NewScanner(f)
	sc.Buffer(make([]byte, 1<<20), 1<<26)
	for sc.Scan() {
		line := strings.TrimRight(sc.Text(), "\r\n")
		if line == "" || strings.HasPrefix(line, "#") {
			continue
		}
		if i := strings.IndexByte(line, '\t'); i >= 0 {
			line = line[:i]
		}
		execOp(line)
	}
}
