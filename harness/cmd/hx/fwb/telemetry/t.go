// Package telemetry (variant B): same package name and type name as fwa/telemetry, different definition.
package telemetry

type MessageStatus struct {
	X float32
	Y [3]uint16
	Z uint8 `mavext:"true"`
}

func (*MessageStatus) GetID() uint32 { return 1 }
